import LsmModel.Lemmas.SepLemmas
/-!
# C08 — key-value separation is invisible

A tree opened with key-value separation (`TreeState.init n (some th)`, field `blobTh`) answers every call exactly
as a standard tree (`TreeState.init n none`) that is fed the same history.

In the model a separated tree differs from a standard one in exactly one place: `separate` (Tree/Ops.lean) turns a
plain value of at least `th` bytes into an indirection entry (`vt := .indir`, same key, same seqno, carrying the
bytes it resolves to) when a flush, a concurrent flush commit or a bulk ingestion writes it to a table.

## Formalisation

`eraseIndir e` forgets that `e` is stored as an indirection (`.indir ↦ .value`, every other entry unchanged; key,
seqno, value bytes and tombstone-ness are preserved). `eraseState t` applies it to every stored entry (all
memtables, all tables of all history versions) and switches separation off (`blobTh := none`).

The property is a SIMULATION, proved as an equation of `Option`s and therefore in both directions:

    (TreeState.init n none).run ops = ((TreeState.init n (some th)).run ops).map eraseState

i.e. the standard tree accepts a history (with its observed memtable ids, table ids and output cuts) iff the separated
tree accepts it, and the standard tree's state is the erased state of the separated tree. Reads commute with the
erasure (`c08_getAt_erase`, `c08_scanAt_erase`, no hypothesis at all), so every point read and every range scan
(any snapshot, any bounds, any word of `next` / `next_back` calls, with or without a write-batch overlay) returns
the same keys, seqnos and value bytes in both trees.

## Hypotheses (`c08_opOk` on every operation of the history)

* `write es` / `ingest … items …` : every entry handed in is a plain value or a strong tombstone
  (`vt ∈ {.value, .tomb}`): the API never takes indirections from the caller, and weak tombstones (`remove_weak`)
  are excluded — see the caveat below;
* `merge … f …`                  : the compaction filter is `noFilter` (a filter may rewrite value types);
* all other operations (rotate, flush, flushCommit, move, drop, clear, reopen) are unrestricted: any watermark,
  any ids, any cuts, any destination level.
No well-formedness of the state and no consistency of the observed decisions (`okStep`, `cutsOk`, admissibility)
is assumed: where the model rejects, both trees reject. The linear order on keys of the standard variable line is
used only through the imported table-set lemmas (`with*_tables_perm`, `mem_mergeAll`) that carry the invariant.

The invariant carried along the run is `c08_NoWeak`: no weak tombstone is stored in any memtable or table. It is
what makes the GC stream commute with the erasure (`c08_cstream_erase`): `cstream` tells `.value` from `.indir`
in exactly one rule, the `(weak tombstone, value)` pair annihilation.

## The weak-tombstone caveat (why the hypothesis cannot be dropped for the STATE equation)

With a weak tombstone directly above an indirection the pair rule does not fire, with a plain value it does:
`c08_weak_over_indir`, `c08_weak_over_value`, `c08_cstream_erase_fails_with_weak`. Only space differs — the weak
tombstone survives in the separated tree — both streams read as "deleted" (`c08_weak_reads_agree`). At the level of
histories the consequence is that the two trees stop accepting the same observed output cuts
(`c08_weak_breaks_simulation`: an ingestion carrying a weak tombstone, then a merge). Whether READS alone still
agree in the presence of weak tombstones is not settled here (it needs a coarser simulation relation than
state equality up to `eraseIndir`).
-/
namespace Lsm
variable {K : Type}

/-- What the erasure keeps: key, seqno, value bytes, tombstone-ness; it undoes `separate`; it does not touch the
    entries the API hands in. -/
theorem c08_erase_facts (th : Option Nat) (e : Entry K) :
    (eraseIndir e).key = e.key ∧ (eraseIndir e).seqno = e.seqno ∧ (eraseIndir e).val = e.val ∧
    (eraseIndir e).isTomb = e.isTomb ∧ eraseIndir (separate th e) = eraseIndir e ∧
    (e.vt = .value ∨ e.vt = .tomb → eraseIndir e = e) :=
  ⟨eraseIndir_key e, eraseIndir_seqno e, eraseIndir_val e, eraseIndir_isTomb e, eraseIndir_separate th e,
    eraseIndir_of_plain⟩

section
variable [LT K] [DecidableLT K] [DecidableEq K]

/-- The GC stream commutes with the erasure on inputs without weak tombstones (output AND dropped-callback
    arguments), for every watermark and with or without tombstone eviction. -/
theorem c08_gc_stream_commutes (wm : Nat) (ev : Bool) (l : List (Entry K)) (hw : ∀ e ∈ l, e.vt ≠ .weak) :
    cstream wm ev noFilter (l.map eraseIndir)
      = ((cstream wm ev noFilter l).1.map eraseIndir, (cstream wm ev noFilter l).2.map eraseIndir) :=
  c08_cstream_erase wm ev l hw

/-- Reads commute with the erasure on EVERY state (no hypothesis): point reads and range scans. -/
theorem c08_reads_commute (t : TreeState K) :
    (∀ k S, (eraseState t).getAt k S = (t.getAt k S).map (Option.map eraseIndir)) ∧
    (∀ S lo hi w overlay, (eraseState t).scanAt S lo hi w (c08_eraseOverlay overlay)
      = (t.scanAt S lo hi w overlay).map (List.map (Option.map eraseIndir))) :=
  ⟨c08_getAt_erase t, c08_scanAt_erase t⟩

end

variable [LT K] [DecidableLT K] [DecidableEq K] [LE K] [Std.IsLinearOrder K] [Std.LawfulOrderLT K]

/-- **One step.** On a state without weak tombstones every covered operation commutes with the erasure: the erased
    (standard) tree accepts it iff the separated tree does, the results correspond, and the invariant is kept. -/
theorem c08_step (t : TreeState K) (op : Op K) (h : c08_NoWeak t) (hop : c08_opOk op) :
    (eraseState t).applyOp op = (t.applyOp op).map eraseState ∧
    (∀ t', t.applyOp op = some t' → c08_NoWeak t') :=
  ⟨c08_applyOp_erase h hop, fun _ ha => c08_applyOp_noWeak h hop ha⟩

/-- **Histories from any weak-free state** (e.g. a state reached earlier): the runs correspond. -/
theorem c08_run_from (t : TreeState K) (ops : List (Op K)) (h : c08_NoWeak t) (hops : ∀ op ∈ ops, c08_opOk op) :
    (eraseState t).run ops = (t.run ops).map eraseState :=
  c08_run_erase h hops

/-- **C08, the simulation as one equation.** A standard tree fed the history `ops` ends exactly in the erased state
    of the key-value-separated tree fed the same history — and rejects the history iff the separated tree does. -/
theorem c08_separation_invisible (n th : Nat) (ops : List (Op K)) (hops : ∀ op ∈ ops, c08_opOk op) :
    (TreeState.init n none : TreeState K).run ops
      = ((TreeState.init n (some th) : TreeState K).run ops).map eraseState := by
  rw [← c08_init_erase n (some th)]
  exact c08_run_erase (c08_noWeak_init n (some th)) hops

/-- **C08, forward direction.** If the separated tree accepts the history and ends in `tb`, the standard tree accepts
    it too (same observed cuts / ids) and ends in `eraseState tb`; `tb` holds no weak tombstone. -/
theorem c08_simulation (n th : Nat) (ops : List (Op K)) (tb : TreeState K) (hops : ∀ op ∈ ops, c08_opOk op)
    (hb : (TreeState.init n (some th) : TreeState K).run ops = some tb) :
    (TreeState.init n none : TreeState K).run ops = some (eraseState tb) ∧ c08_NoWeak tb := by
  refine ⟨?_, c08_run_noWeak (c08_noWeak_init n (some th)) hops hb⟩
  rw [c08_separation_invisible n th ops hops, hb]
  rfl

/-- **C08, backward direction.** If the standard tree accepts the history, so does the separated tree, and the
    standard tree's state is the erasure of the separated tree's state. -/
theorem c08_simulation_converse (n th : Nat) (ops : List (Op K)) (ts : TreeState K)
    (hops : ∀ op ∈ ops, c08_opOk op) (hs : (TreeState.init n none : TreeState K).run ops = some ts) :
    ∃ tb, (TreeState.init n (some th) : TreeState K).run ops = some tb ∧ ts = eraseState tb := by
  rw [c08_separation_invisible n th ops hops] at hs
  cases hb : (TreeState.init n (some th) : TreeState K).run ops with
  | none => rw [hb] at hs; cases hs
  | some tb =>
    rw [hb] at hs
    exact ⟨tb, rfl, (Option.some.inj hs).symm⟩

/-- **C08, point reads.** Every `get` at every snapshot returns the same entry up to the storage form: same
    resolution (outer option), same presence, same key, seqno and bytes. -/
theorem c08_point_reads (n th : Nat) (ops : List (Op K)) (tb ts : TreeState K) (hops : ∀ op ∈ ops, c08_opOk op)
    (hb : (TreeState.init n (some th) : TreeState K).run ops = some tb)
    (hs : (TreeState.init n none : TreeState K).run ops = some ts) :
    ∀ k S, (tb.getAt k S).map (Option.map eraseIndir) = ts.getAt k S := by
  intro k S
  have := (c08_simulation n th ops tb hops hb).1
  rw [hs] at this
  rw [Option.some.inj this, c08_getAt_erase]

/-- **C08, point reads, user view**: the value bytes a `get` returns are identical. -/
theorem c08_point_values (n th : Nat) (ops : List (Op K)) (tb ts : TreeState K) (hops : ∀ op ∈ ops, c08_opOk op)
    (hb : (TreeState.init n (some th) : TreeState K).run ops = some tb)
    (hs : (TreeState.init n none : TreeState K).run ops = some ts) :
    ∀ k S, (tb.getAt k S).map (Option.map (·.val)) = (ts.getAt k S).map (Option.map (·.val)) := by
  intro k S
  rw [← c08_point_reads n th ops tb ts hops hb hs k S]
  cases tb.getAt k S with
  | none => rfl
  | some o => cases o <;> simp

/-- **C08, range scans.** Every scan (any snapshot, bounds, word of `next` / `next_back` calls) returns the same
    sequence of answers up to the storage form. -/
theorem c08_scans (n th : Nat) (ops : List (Op K)) (tb ts : TreeState K) (hops : ∀ op ∈ ops, c08_opOk op)
    (hb : (TreeState.init n (some th) : TreeState K).run ops = some tb)
    (hs : (TreeState.init n none : TreeState K).run ops = some ts) :
    ∀ S lo hi w, (tb.scanAt S lo hi w none).map (List.map (Option.map eraseIndir)) = ts.scanAt S lo hi w none := by
  intro S lo hi w
  have := (c08_simulation n th ops tb hops hb).1
  rw [hs] at this
  rw [Option.some.inj this]
  exact (c08_scanAt_erase tb S lo hi w none).symm

/-- **C08, range scans through a write-batch overlay** (the overlay's own entries erased alike). -/
theorem c08_scans_overlay (n th : Nat) (ops : List (Op K)) (tb ts : TreeState K) (hops : ∀ op ∈ ops, c08_opOk op)
    (hb : (TreeState.init n (some th) : TreeState K).run ops = some tb)
    (hs : (TreeState.init n none : TreeState K).run ops = some ts) :
    ∀ S lo hi w overlay, (tb.scanAt S lo hi w overlay).map (List.map (Option.map eraseIndir))
      = ts.scanAt S lo hi w (c08_eraseOverlay overlay) := by
  intro S lo hi w overlay
  have := (c08_simulation n th ops tb hops hb).1
  rw [hs] at this
  rw [Option.some.inj this]
  exact (c08_scanAt_erase tb S lo hi w overlay).symm

/-! ## Non-vacuity: a concrete history on `Nat` keys, threshold 1

`write (1 ↦ [10])`, `write (2 ↦ [])`, `flush`: the one-byte value of key 1 reaches the threshold and is stored as an
indirection in the separated tree, as a plain value in the standard tree; the empty value of key 2 stays inline in
both. The flush stream is computed by `simp` (`cstream` / `merge2` are defined by well-founded recursion). -/
namespace C08Example

def e1 : Entry Nat := ⟨1, 0, .value, [10]⟩
def e1i : Entry Nat := ⟨1, 0, .indir, [10]⟩
def e2 : Entry Nat := ⟨2, 1, .value, []⟩

def v0 : Version Nat := Version.empty 0 2
def vB : Version Nat := ⟨1, [[[⟨100, 1, 2, [e1i, e2], 0⟩]], []]⟩
def vS : Version Nat := ⟨1, [[[⟨100, 1, 2, [e1, e2], 0⟩]], []]⟩

def ops : List (Op Nat) := [.write [e1], .write [e2], .flush 0 1 [(100, 2)]]

/-- separated tree after the two writes, and after the rotate inside the flush -/
def b2 : TreeState Nat :=
  { hist := [⟨0, [], v0, 0⟩], mems := [⟨0, [e1, e2]⟩], seqCtr := 2, visible := 2, levelCount := 2, blobTh := some 1 }
def b2r : TreeState Nat :=
  { hist := [⟨1, [0], v0, 0⟩], mems := [⟨0, [e1, e2]⟩, ⟨1, []⟩], seqCtr := 2, visible := 2, levelCount := 2,
    blobTh := some 1 }
/-- separated tree after the flush: the table holds the INDIRECTION `e1i` -/
def b3 : TreeState Nat :=
  { hist := [⟨1, [0], v0, 0⟩, ⟨1, [], vB, 2⟩], mems := [⟨0, [e1, e2]⟩, ⟨1, []⟩], seqCtr := 3, visible := 3,
    levelCount := 2, blobTh := some 1 }
/-- standard tree after the flush: the table holds the plain value `e1` -/
def s3 : TreeState Nat :=
  { hist := [⟨1, [0], v0, 0⟩, ⟨1, [], vS, 2⟩], mems := [⟨0, [e1, e2]⟩, ⟨1, []⟩], seqCtr := 3, visible := 3,
    levelCount := 2, blobTh := none }

theorem ops_ok : ∀ op ∈ ops, c08_opOk op := by
  intro op hop
  simp only [ops, List.mem_cons, List.not_mem_nil, or_false] at hop
  rcases hop with rfl | rfl | rfl
  · intro e he; simp only [List.mem_singleton] at he; subst he; exact Or.inl rfl
  · intro e he; simp only [List.mem_singleton] at he; subst he; exact Or.inl rfl
  · trivial

theorem stream2 : b2r.flushStream ⟨1, [0], v0, 0⟩ 0 = ([e1, e2], []) := by
  have hm : mergeAll [[e1, e2]] = [e1, e2] := by simp [mergeAll, merge2]
  show cstream 0 false noFilter (mergeAll [[e1, e2]]) = _
  rw [hm]
  simp [cstream, filterHead, noFilter, e1, e2, Entry.isTomb]

theorem run_b : (TreeState.init 2 (some 1) : TreeState Nat).run ops = some b3 := by
  have h12 : (TreeState.init 2 (some 1) : TreeState Nat).run [.write [e1], .write [e2]] = some b2 := rfl
  show (TreeState.init 2 (some 1) : TreeState Nat).run ([.write [e1], .write [e2]] ++ [.flush 0 1 [(100, 2)]]) = _
  have happ : ∀ (t : TreeState Nat) (a b : List (Op Nat)) (t1 : TreeState Nat), t.run a = some t1 →
      t.run (a ++ b) = t1.run b := by
    intro t a
    induction a generalizing t with
    | nil => intro b t1 h; cases h; rfl
    | cons op a ih =>
      intro b t1 h
      simp only [TreeState.run, List.cons_append] at h ⊢
      cases hop : t.applyOp op with
      | none => rw [hop] at h; cases h
      | some t' => rw [hop] at h; exact ih t' b t1 h
  rw [happ _ _ _ _ h12]
  have hstep : b2.applyOp (.flush 0 1 [(100, 2)]) = some b3 := by
    show b2r.flushSealed 0 [(100, 2)] = some b3
    have hl : b2r.latest? = some ⟨1, [0], v0, 0⟩ := rfl
    simp only [TreeState.flushSealed, hl, stream2]
    rfl
  simp only [TreeState.run, hstep]

/-- the erased separated state IS the standard tree's state … -/
theorem erase_b3 : eraseState b3 = s3 := rfl

/-- … as the theorem says (instantiated; the standard tree's run is obtained FROM the theorem, not recomputed) -/
theorem run_s : (TreeState.init 2 none : TreeState Nat).run ops = some s3 :=
  (c08_simulation 2 1 ops b3 ops_ok run_b).1

/-- the stored forms differ (indirection vs plain value) … -/
example : b3.getAt 1 3 = some (some e1i) ∧ s3.getAt 1 3 = some (some e1) := ⟨rfl, rfl⟩
example : e1i ≠ e1 := by decide
/-- … and the conclusion of the read theorems is informative: same answer up to the storage form, same bytes -/
example : (b3.getAt 1 3).map (Option.map eraseIndir) = s3.getAt 1 3 :=
  c08_point_reads 2 1 ops b3 s3 ops_ok run_b run_s 1 3
example : (b3.getAt 1 3).map (Option.map (·.val)) = some (some [10]) := rfl
example : (b3.scanAt 3 .unb .unb [.F, .B, .F] none).map (List.map (Option.map eraseIndir))
    = s3.scanAt 3 .unb .unb [.F, .B, .F] none :=
  c08_scans 2 1 ops b3 s3 ops_ok run_b run_s 3 .unb .unb [.F, .B, .F]
example : c08_NoWeak b3 := (c08_simulation 2 1 ops b3 ops_ok run_b).2

/-- the one-step theorem on the separated tree's intermediate state: the flush commutes with the erasure -/
theorem b2_noWeak : c08_NoWeak b2 :=
  c08_run_noWeak (t := TreeState.init 2 (some 1)) (ops := [.write [e1], .write [e2]]) (c08_noWeak_init 2 (some 1))
    (fun o ho => ops_ok o (by
      simp only [ops, List.mem_cons, List.not_mem_nil, or_false] at ho ⊢
      rcases ho with h | h
      · exact Or.inl h
      · exact Or.inr (Or.inl h))) rfl
example : (eraseState b2).applyOp (.flush 0 1 [(100, 2)]) = (b2.applyOp (.flush 0 1 [(100, 2)])).map eraseState :=
  (c08_step b2 (.flush 0 1 [(100, 2)]) b2_noWeak trivial).1

/-! ### the weak-tombstone caveat -/

def w5 : Entry Nat := ⟨1, 5, .weak, []⟩
def i3 : Entry Nat := ⟨1, 3, .indir, [7]⟩
def p3 : Entry Nat := ⟨1, 3, .value, [7]⟩

example : eraseIndir i3 = p3 := rfl
example : [w5, i3].map eraseIndir = [w5, p3] := rfl

/-- weak tombstone directly above an INDIRECTION (both below the watermark): the pair rule does not fire, the
    weak tombstone is written out and only the shadowed entry is dropped -/
theorem c08_weak_over_indir : cstream 10 false noFilter [w5, i3] = ([w5], [i3]) := by
  simp [cstream, filterHead, drainKey, w5, i3, Entry.isTomb]

/-- the same with a PLAIN VALUE: the `(weak, value)` pair is annihilated, nothing is written out -/
theorem c08_weak_over_value : cstream 10 false noFilter [w5, p3] = ([], [p3]) := by
  simp [cstream, filterHead, w5, p3, Entry.isTomb]

/-- hence `c08_gc_stream_commutes` fails without its hypothesis … -/
theorem c08_cstream_erase_fails_with_weak :
    (cstream 10 false noFilter ([w5, i3].map eraseIndir)).1
      ≠ (cstream 10 false noFilter [w5, i3]).1.map eraseIndir := by
  show (cstream 10 false noFilter [w5, p3]).1 ≠ _
  rw [c08_weak_over_value, c08_weak_over_indir]
  decide

/-- … but only space differs: both outputs read as "key 1 is deleted" -/
theorem c08_weak_reads_agree :
    live (newest (cstream 10 false noFilter [w5, i3]).1 1 100) = none ∧
    live (newest (cstream 10 false noFilter [w5, p3]).1 1 100) = none := by
  rw [c08_weak_over_value, c08_weak_over_indir]
  exact ⟨rfl, rfl⟩

/-! ### the caveat at the level of histories: `c08_opOk` cannot be dropped from `c08_separation_invisible`

A bulk ingestion that carries a weak tombstone above the value it deletes (violating `c08_opOk`), then a merge of
the ingested table with watermark 10 and ONE observed output table: the separated tree writes the surviving weak
tombstone to that table, the standard tree's merge output is empty, so the standard tree cannot have produced the
observed cut — the two trees do not even accept the same histories any more. -/

def wI : Entry Nat := ⟨1, 1, .weak, []⟩
def pI : Entry Nat := ⟨1, 0, .value, [7]⟩
def iI : Entry Nat := ⟨1, 0, .indir, [7]⟩

def ingestW : Op Nat := .ingest 1 [] [wI, pI] [(100, 2)]
def mergeW : Op Nat := .merge [100] 0 10 noFilter [(101, 1)]

def vBW : Version Nat := ⟨1, [[[⟨100, 1, 1, [wI, iI], 0⟩]], []]⟩
def vSW : Version Nat := ⟨1, [[[⟨100, 1, 1, [wI, pI], 0⟩]], []]⟩
def bW : TreeState Nat :=
  { hist := [⟨0, [], v0, 0⟩, ⟨0, [], vBW, 0⟩], mems := [⟨0, []⟩], seqCtr := 1, visible := 1, levelCount := 2,
    blobTh := some 1 }
def sW : TreeState Nat :=
  { hist := [⟨0, [], v0, 0⟩, ⟨0, [], vSW, 0⟩], mems := [⟨0, []⟩], seqCtr := 1, visible := 1, levelCount := 2,
    blobTh := none }

example : ¬ c08_opOk ingestW := by
  intro h
  have := h wI (by simp)
  simp [wI] at this

theorem ingestW_b : (TreeState.init 2 (some 1) : TreeState Nat).applyOp ingestW = some bW := rfl
theorem ingestW_s : (TreeState.init 2 none : TreeState Nat).applyOp ingestW = some sW := rfl
/-- after the ingestion the two states still correspond … -/
example : eraseState bW = sW := rfl

theorem mergeW_b : ∃ t, bW.applyOp mergeW = some t := by
  show ∃ t, bW.mergeCommit [100] 0 10 noFilter [(101, 1)] = some t
  have hl : bW.latest? = some ⟨0, [], vBW, 0⟩ := rfl
  have he : (0 + 1 == bW.levelCount) = false := rfl
  have hi : mergeInputs vBW [100] = [wI, iI] := by
    simp [mergeInputs, vBW, Version.runs, mergeAll, merge2]
  have hc : cstream 10 false noFilter [wI, iI] = ([wI], [iI]) := by
    simp [cstream, filterHead, drainKey, wI, iI, Entry.isTomb]
  simp only [TreeState.mergeCommit, hl, he, hi, hc]
  exact ⟨_, rfl⟩

theorem mergeW_s : sW.applyOp mergeW = none := by
  show sW.mergeCommit [100] 0 10 noFilter [(101, 1)] = none
  have hl : sW.latest? = some ⟨0, [], vSW, 0⟩ := rfl
  have he : (0 + 1 == sW.levelCount) = false := rfl
  have hi : mergeInputs vSW [100] = [wI, pI] := by
    simp [mergeInputs, vSW, Version.runs, mergeAll, merge2]
  have hc : cstream 10 false noFilter [wI, pI] = ([], [pI]) := by
    simp [cstream, filterHead, wI, pI, Entry.isTomb]
  simp only [TreeState.mergeCommit, hl, he, hi, hc]
  rfl

/-- … but the merge is accepted by the separated tree only: the equation of `c08_separation_invisible` is FALSE
    for this history (left side `none`, right side `some _`). -/
theorem c08_weak_breaks_simulation :
    (TreeState.init 2 none : TreeState Nat).run [ingestW, mergeW] = none ∧
    ((TreeState.init 2 (some 1) : TreeState Nat).run [ingestW, mergeW]).map eraseState ≠ none := by
  obtain ⟨t, ht⟩ := mergeW_b
  constructor
  · simp only [TreeState.run, ingestW_s, mergeW_s]
  · simp only [TreeState.run, ingestW_b, ht]
    simp

end C08Example
end Lsm
