import LsmModel.Tree.Reloc
import LsmModel.Lemmas.RelocLemmas
/-!
# C08 (relocation part) — a relocating compaction finds the blob of every pointer it rewrites

C08: "a compaction that rewrites blob files copies, for every pointer into a rewritten file, exactly the blob the pointer
      refers to, and never fails on a well-formed tree".

Finding F9 (differential testing): with the LEGACY single merged scanner (`BlobFileMergeScanner` over all rewritten files,
ordered by `(key, Reverse(seqno STORED in the blob))`) the compaction panics "vptr was not matched with blob" as soon as
two rewritten blob files hold blobs of ONE key whose stored seqnos order differently from the seqnos of their pointers.
Bulk ingestion produces that: ingested blobs store seqno 0 while their pointers carry `0 + global_seqno`.
`drain_blobs` then consumes the blob of the other file, which a later pointer still needs.
The FIX keeps one scanner per rewritten blob file: within one file blobs are visited in pointer order.

Model: `LsmModel/Tree/Reloc.lean` (`relocateFixed`, `relocateLegacy`; modelling notes R1–R7 there).

What is proved
  * `c08r_fixed_matches_all`      completeness of the fixed algorithm under `FixedHyps` — which says NOTHING about seqnos and
                                   nothing about the relative order of pointers into DIFFERENT files;
  * `c08r_fixed_never_wrong_blob` soundness of the fixed algorithm with no hypotheses at all;
  * `c08r_legacy_counterexample`  the F9 instance satisfies `FixedHyps`, the fixed algorithm succeeds on it, the legacy one panics;
  * `c08r_legacy_ok_when_orders_agree`  the legacy algorithm succeeds when the merged order has the pointers' targets as a
                                   sub-sequence in stream order (true when stored seqno = pointer seqno, i.e. without ingestion);
  * `c08r_fixedStrict_matches_all` the same as the first with the `assert!(entry.key <= key)` of `drain_blobs` modelled, under the
                                   extra hypothesis that keys are non-decreasing in every file; `c08r_strict_needs_sorted_keys`
                                   shows the extra hypothesis is needed.
-/
namespace Lsm.Reloc
variable {K : Type}

/-- The hypotheses of the completeness theorem.  No seqno occurs, and pointers into different files are unrelated. -/
structure FixedHyps (files : Scanners K) (ptrs : List (VPtr K)) : Prop where
  /-- the rewritten blob files have distinct ids -/
  distinct : (files.map (·.1)).Pairwise (· ≠ ·)
  /-- offsets strictly increase in file order -/
  offsets : ∀ f file, (f, file) ∈ files → file.Pairwise (fun a b => a.off < b.off)
  /-- for every rewritten file, the pointers into it — in stream order — hit a sub-sequence of the file -/
  follow : ∀ f file, (f, file) ∈ files →
    List.Sublist ((ptrs.filter (fun p => p.file = f)).map (fun p => (p.key, p.off)))
      (file.map (fun e => (e.key, e.off)))
  /-- every (relocated) pointer points into a rewritten file -/
  dom : ∀ p ∈ ptrs, ∃ file, (p.file, file) ∈ files

/-- What is guaranteed for a pointer `p` and the blob `b` copied for it: same key, same offset, and `b` is a blob of the
    file `p` points into. -/
def Matches (files : Scanners K) (p : VPtr K) (b : BlobE K) : Prop :=
  b.key = p.key ∧ b.off = p.off ∧ ∃ file, (p.file, file) ∈ files ∧ b ∈ file

theorem FixedHyps.inv {files : Scanners K} {ptrs : List (VPtr K)} (h : FixedHyps files ptrs) : Inv files ptrs := by
  refine ⟨?_, ?_⟩
  · intro p hp
    obtain ⟨file, hf⟩ := h.dom p hp
    exact ⟨file, getS_of_mem_distinct h.distinct hf⟩
  · intro f s hs
    have hm := getS_some_mem hs
    exact ⟨h.offsets f s hm, h.follow f s hm⟩

/-- SOUNDNESS, no hypotheses: whenever the fixed algorithm succeeds, it returns one blob per pointer, in pointer order, and
    each has the key and the offset of its pointer and comes from the pointer's file.  A success never copies a wrong blob. -/
theorem c08r_fixed_never_wrong_blob [DecidableEq K] (files : Scanners K) (ptrs : List (VPtr K))
    (bs : List (BlobE K)) (h : relocateFixed files ptrs = some bs) :
    bs.length = ptrs.length ∧ AllPairs (Matches files) ptrs bs := by
  have hs := relocateFixed_sound ptrs files bs h
  refine ⟨hs.length_eq.symm, AllPairs.mono ?_ hs⟩
  rintro p b ⟨hk, ho, s, hs, hb⟩
  exact ⟨hk, ho, s, getS_some_mem hs, hb⟩

/-- … the same, index by index. -/
theorem c08r_fixed_never_wrong_blob_idx [DecidableEq K] (files : Scanners K) (ptrs : List (VPtr K))
    (bs : List (BlobE K)) (h : relocateFixed files ptrs = some bs) :
    bs.length = ptrs.length ∧
    ∀ (i : Nat) (h1 : i < ptrs.length) (h2 : i < bs.length),
      bs[i].key = ptrs[i].key ∧ bs[i].off = ptrs[i].off ∧ ∃ file, (ptrs[i].file, file) ∈ files ∧ bs[i] ∈ file := by
  obtain ⟨hl, hp⟩ := c08r_fixed_never_wrong_blob files ptrs bs h
  exact ⟨hl, fun i h1 h2 => hp.getElem i h1 h2⟩

/-- COMPLETENESS: under `FixedHyps` the fixed algorithm matches every pointer. -/
theorem c08r_fixed_matches_all [DecidableEq K] (files : Scanners K) (ptrs : List (VPtr K))
    (h : FixedHyps files ptrs) :
    ∃ bs, relocateFixed files ptrs = some bs ∧ bs.length = ptrs.length ∧ AllPairs (Matches files) ptrs bs := by
  obtain ⟨bs, hbs⟩ := relocateFixed_complete ptrs files h.inv
  exact ⟨bs, hbs, c08r_fixed_never_wrong_blob files ptrs bs hbs⟩

/-- … index by index. -/
theorem c08r_fixed_matches_all_idx [DecidableEq K] (files : Scanners K) (ptrs : List (VPtr K))
    (h : FixedHyps files ptrs) :
    ∃ bs, relocateFixed files ptrs = some bs ∧ bs.length = ptrs.length ∧
      ∀ (i : Nat) (h1 : i < ptrs.length) (h2 : i < bs.length),
        bs[i].key = ptrs[i].key ∧ bs[i].off = ptrs[i].off ∧ ∃ file, (ptrs[i].file, file) ∈ files ∧ bs[i] ∈ file := by
  obtain ⟨bs, hbs⟩ := relocateFixed_complete ptrs files h.inv
  exact ⟨bs, hbs, c08r_fixed_never_wrong_blob_idx files ptrs bs hbs⟩

/-- The whole stream, pass-through pointers included (R3): the hypothesis `dom` is not needed, pointers into files that
    are not rewritten are simply not relocated. -/
theorem c08r_fixedStream_matches_all [DecidableEq K] (files : Scanners K) (ptrs : List (VPtr K))
    (hd : (files.map (·.1)).Pairwise (· ≠ ·))
    (ho : ∀ f file, (f, file) ∈ files → file.Pairwise (fun a b => a.off < b.off))
    (hf : ∀ f file, (f, file) ∈ files →
      List.Sublist ((ptrs.filter (fun p => p.file = f)).map (fun p => (p.key, p.off)))
        (file.map (fun e => (e.key, e.off)))) :
    ∃ bs, relocateFixedStream files ptrs = some bs ∧ bs.length = (rewritten files ptrs).length ∧
      AllPairs (Matches files) (rewritten files ptrs) bs := by
  refine c08r_fixed_matches_all files (rewritten files ptrs) ⟨hd, ho, ?_, ?_⟩
  · intro f file hm
    have hg : getS files f = some file := getS_of_mem_distinct hd hm
    have : (rewritten files ptrs).filter (fun p => decide (p.file = f)) = ptrs.filter (fun p => decide (p.file = f)) := by
      unfold rewritten
      rw [List.filter_filter]
      apply List.filter_congr
      intro x _
      by_cases hx : x.file = f
      · simp [hx, hg]
      · simp [hx]
    rw [this]
    exact hf f file hm
  · intro p hp
    have : (getS files p.file).isSome = true := (List.mem_filter.1 hp).2
    obtain ⟨s, hs⟩ := Option.isSome_iff_exists.1 this
    exact ⟨s, getS_some_mem hs⟩

/-! ## the strict variant: `assert!(entry.key <= key)` modelled -/

/-- With keys non-decreasing in every file, the assertion inside `drain_blobs` never fires either, and the strict run
    returns what the plain run returns. -/
theorem c08r_fixedStrict_matches_all [DecidableEq K] [LE K] [DecidableLE K] (files : Scanners K)
    (ptrs : List (VPtr K)) (h : FixedHyps files ptrs)
    (hsorted : ∀ f file, (f, file) ∈ files → file.Pairwise (fun a b => a.key ≤ b.key)) :
    ∃ bs, relocateFixedStrict files ptrs = some bs ∧ relocateFixed files ptrs = some bs ∧
      bs.length = ptrs.length ∧ AllPairs (Matches files) ptrs bs := by
  obtain ⟨bs, hbs⟩ := relocateFixedStrict_complete ptrs files
    ⟨h.inv, fun f s hs => hsorted f s (getS_some_mem hs)⟩
  have hbs' := relocateFixedStrict_eq_some ptrs files bs hbs
  exact ⟨bs, hbs, hbs', c08r_fixed_never_wrong_blob files ptrs bs hbs'⟩

/-- The strict run only adds failures. -/
theorem c08r_fixedStrict_refines [DecidableEq K] [LE K] [DecidableLE K] (files : Scanners K)
    (ptrs : List (VPtr K)) (bs : List (BlobE K)) (h : relocateFixedStrict files ptrs = some bs) :
    relocateFixed files ptrs = some bs :=
  relocateFixedStrict_eq_some ptrs files bs h

/-- `FixedHyps` alone does not exclude the assertion: a file whose keys are not sorted (no file the code writes is like that). -/
theorem c08r_strict_needs_sorted_keys :
    let files : Scanners Nat := [(0, [⟨9, 1, 0⟩, ⟨7, 1, 1⟩])]
    let ptrs : List (VPtr Nat) := [⟨7, 0, 1⟩]
    FixedHyps files ptrs ∧ relocateFixed files ptrs = some [⟨7, 1, 1⟩] ∧ relocateFixedStrict files ptrs = none := by
  refine ⟨⟨by decide, ?_, ?_, ?_⟩, by decide, by decide⟩
  · intro f file h
    simp at h
    obtain ⟨rfl, rfl⟩ := h
    decide
  · intro f file h
    simp at h
    obtain ⟨rfl, rfl⟩ := h
    decide
  · intro p hp
    simp at hp
    subst hp
    exact ⟨_, List.mem_cons_self ..⟩

/-! ## F9: the legacy algorithm fails on an instance that satisfies `FixedHyps` -/

/-- Blob file 0 was written by a flush: key 7 with stored seqno 5 at offset 0, key 9 with stored seqno 6 at offset 1.
    Blob file 1 was written by an ingestion: key 7 with stored seqno 0 at offset 0 (its pointer has seqno 0 + global_seqno 16). -/
def f9Files : Scanners Nat := [(0, [⟨7, 5, 0⟩, ⟨9, 6, 1⟩]), (1, [⟨7, 0, 0⟩])]

/-- The compaction stream (key ascending, seqno descending): `7@16 ↦ file 1`, `7@5 ↦ file 0`, `9@6 ↦ file 0`. -/
def f9Ptrs : List (VPtr Nat) := [⟨7, 1, 0⟩, ⟨7, 0, 0⟩, ⟨9, 0, 1⟩]

/-- The merged scanner orders by STORED seqno: the flushed blob of key 7 (5) comes before the ingested one (0). -/
example : mergeScan f9Files = [(⟨7, 5, 0⟩, 0), (⟨7, 0, 0⟩, 1), (⟨9, 6, 1⟩, 0)] := by decide

/-- Non-vacuity: the instance satisfies every hypothesis of `c08r_fixed_matches_all`. -/
theorem f9_hyps : FixedHyps f9Files f9Ptrs := by
  refine ⟨by decide, ?_, ?_, ?_⟩
  · intro f file h
    simp [f9Files] at h
    rcases h with ⟨rfl, rfl⟩ | ⟨rfl, rfl⟩ <;> decide
  · intro f file h
    simp [f9Files] at h
    rcases h with ⟨rfl, rfl⟩ | ⟨rfl, rfl⟩ <;> decide
  · intro p hp
    simp [f9Ptrs] at hp
    rcases hp with rfl | rfl | rfl
    · exact ⟨[⟨7, 0, 0⟩], by decide⟩
    · exact ⟨[⟨7, 5, 0⟩, ⟨9, 6, 1⟩], by decide⟩
    · exact ⟨[⟨7, 5, 0⟩, ⟨9, 6, 1⟩], by decide⟩

/-- The fixed algorithm relocates all three blobs … -/
example : relocateFixed f9Files f9Ptrs = some [⟨7, 0, 0⟩, ⟨7, 5, 0⟩, ⟨9, 6, 1⟩] := by decide
/-- … the strict one too (the keys of each file are sorted) … -/
example : relocateFixedStrict f9Files f9Ptrs = some [⟨7, 0, 0⟩, ⟨7, 5, 0⟩, ⟨9, 6, 1⟩] := by decide
/-- … the legacy algorithm matches the first pointer after consuming the blob the second one needs. -/
example : stepLegacy (mergeScan f9Files) ⟨7, 1, 0⟩ = some (⟨7, 0, 0⟩, [(⟨9, 6, 1⟩, 0)]) := by decide
example : stepLegacy [(⟨9, 6, 1⟩, 0)] (⟨7, 0, 0⟩ : VPtr Nat) = none := by decide

/-- F9.  The instance satisfies the hypotheses under which the fixed algorithm is complete, the fixed algorithm succeeds,
    the legacy algorithm panics. -/
theorem c08r_legacy_counterexample :
    FixedHyps f9Files f9Ptrs ∧
    relocateFixed f9Files f9Ptrs = some [⟨7, 0, 0⟩, ⟨7, 5, 0⟩, ⟨9, 6, 1⟩] ∧
    relocateLegacy f9Files f9Ptrs = none :=
  ⟨f9_hyps, by decide, by decide⟩

/-- The same defect without any other key: the merged scanner is exhausted (`expect("… unexpectedly exhausted")`). -/
example : relocateLegacy [(0, [⟨7, 5, 0⟩]), (1, [⟨7, 0, 0⟩])] ([⟨7, 1, 0⟩, ⟨7, 0, 0⟩] : List (VPtr Nat)) = none := by
  decide

/-- Had the ingested blob stored the seqno of its pointer (16), the merged order would agree with the stream. -/
example : relocateLegacy [(0, [⟨7, 5, 0⟩, ⟨9, 6, 1⟩]), (1, [⟨7, 16, 0⟩])] f9Ptrs =
    some [⟨7, 16, 0⟩, ⟨7, 5, 0⟩, ⟨9, 6, 1⟩] := by decide

/-! ## why the defect needs ingestion -/

/-- If the merged order of `(entry, file)` pairs has the pointers' targets `(key, file, offset)` as a sub-sequence in stream
    order, the legacy algorithm succeeds too, and copies the right blobs.  (That is the case when every blob stores the
    seqno of its pointer: both orders are then `(key ↑, seqno ↓)`.) -/
theorem c08r_legacy_ok_when_orders_agree [DecidableEq K] [LT K] [DecidableLT K] (files : Scanners K)
    (ptrs : List (VPtr K))
    (hd : (files.map (·.1)).Pairwise (· ≠ ·))
    (ho : ∀ f file, (f, file) ∈ files → file.Pairwise (fun a b => a.off < b.off))
    (hagree : List.Sublist (ptrs.map (fun p => (p.key, p.file, p.off)))
      ((mergeScan files).map (fun x => (x.1.key, x.2, x.1.off)))) :
    ∃ bs, relocateLegacy files ptrs = some bs ∧ bs.length = ptrs.length ∧
      AllPairs (fun p b => b.key = p.key ∧ b.off = p.off ∧ (b, p.file) ∈ mergeScan files) ptrs bs := by
  have hfo : FileOrdered (mergeScan files) := mergeScan_fileOrdered files ⟨hd, ho⟩
  obtain ⟨bs, hbs⟩ := relocateMerged_complete ptrs (mergeScan files) hfo hagree
  have hs := relocateMerged_sound ptrs (mergeScan files) bs hbs
  exact ⟨bs, hbs, hs.length_eq.symm, hs⟩

/-- Every entry of the merged scanner is a blob of the file it is tagged with. -/
theorem c08r_mergeScan_mem [DecidableEq K] [LT K] [DecidableLT K] (files : Scanners K) (b : BlobE K) (f : Nat)
    (h : (b, f) ∈ mergeScan files) : ∃ file, (f, file) ∈ files ∧ b ∈ file :=
  mergeFuel_mem _ files b f h

/-- The legacy defect is a panic, never a wrong copy: a success of the legacy algorithm also returns the right blobs. -/
theorem c08r_legacy_never_wrong_blob [DecidableEq K] [LT K] [DecidableLT K] (files : Scanners K)
    (ptrs : List (VPtr K)) (bs : List (BlobE K)) (h : relocateLegacy files ptrs = some bs) :
    bs.length = ptrs.length ∧ AllPairs (Matches files) ptrs bs := by
  have hs := relocateMerged_sound ptrs (mergeScan files) bs h
  refine ⟨hs.length_eq.symm, AllPairs.mono ?_ hs⟩
  rintro p b ⟨hk, ho, hm⟩
  exact ⟨hk, ho, c08r_mergeScan_mem files b p.file hm⟩

end Lsm.Reloc
