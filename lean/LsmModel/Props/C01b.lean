import LsmModel.Lemmas.AdmissibleLemmas
/-
# C01b — the modelled strategy choices discharge C01's `admissible` hypothesis

`c01_point_read_refines_map` (Props/C01.lean) assumes, for every merge / move step, that the choice of inputs is
`admissible` (the second conjunct of `okStep t (.merge …)` / `okStep t (.move …)`). For the strategies whose choice
is pure logic and is modelled in Tree/Strategy.lean, that conjunct is a THEOREM:

* `c01_major_step_ok`     — `majorChoose` (everything into `lastLevel`): no side condition at all;
* `c01_pulldown_step_ok`  — `pullDownChoose src dest` on a `Good` state: `src ≤ dest` and usage protocol P5
                            (every level strictly between `src` and `dest` is empty). Whether tombstones are evicted
                            (`dest + 1 == levelCount`) does not matter: if they are, `dest` is the last level and there
                            is nothing below it;
* `c01_movedown_step_ok`  — `moveDownChoose src dest` on a `Good` state: `src ≤ dest` and P5.

`c01_major_okStep`, `c01_pulldown_okStep`, `c01_movedown_okStep` assemble the full `okStep` from these and the
remaining conjuncts (destination is a level of the tree, the compaction filter keeps what it is shown, output cuts),
which stay hypotheses about observed data.

`Good t` is used only for: table ids of the latest version are pairwise distinct, and the version has exactly
`t.levelCount` levels.

The examples at the end show that P5 cannot be dropped (`pullDown` / `moveDown` over a non-empty middle level holding
a shared key is NOT admissible), that `pullDown` into a non-last level is admissible without eviction only, and that
the distinct-ids hypothesis is needed.
-/
namespace Lsm
set_option linter.unusedSectionVars false
variable {K : Type} [LT K] [DecidableLT K] [DecidableEq K] [LE K] [Std.IsLinearOrder K] [Std.LawfulOrderLT K]

/-- the latest super version of a `Good` state is `GoodSv` -/
theorem Good.latest_goodSv {t : TreeState K} (hg : Good t) {sv : SuperVersion K} (hsv : t.latest? = some sv) :
    GoodSv t sv := by
  obtain ⟨sv', h1, h2, _⟩ := hg.sv
  rw [hsv] at h1
  cases h1
  exact h2

/-- **major.** The `admissible` conjunct of `okStep t (.merge ids dest wm f cuts)` holds for the choice of
    `majorChoose` on the latest version (no invariant needed: there is no non-input table). -/
theorem c01_major_step_ok (t : TreeState K) (hidden : List Nat) (lastLevel : Nat) (ids : List Nat) (dest : Nat)
    (sv : SuperVersion K) (hc : majorChoose sv.version hidden lastLevel = .merge ids dest) :
    admissible sv.version ids dest (dest + 1 == t.levelCount) = true :=
  major_admissible sv.version hidden lastLevel ids dest _ hc

/-- **pull-down.** The `admissible` conjunct of `okStep t (.merge ids dest' wm f cuts)` holds for the choice of
    `pullDownChoose src dest` on the latest version of a `Good` state, under P5. -/
theorem c01_pulldown_step_ok (t : TreeState K) (hg : Good t) (src dest : Nat) (ids : List Nat) (dest' : Nat)
    (sv : SuperVersion K) (hsv : t.latest? = some sv)
    (hc : pullDownChoose sv.version src dest = .merge ids dest')
    (hsd : src ≤ dest) (hgap : ∀ j, src < j → j < dest → sv.version.levelTables j = []) :
    admissible sv.version ids dest' (dest' + 1 == t.levelCount) = true := by
  have hgs := hg.latest_goodSv hsv
  have hd : dest' = dest := (pullDownChoose_merge hc).1
  apply pullDown_admissible_gen sv.version src dest ids dest' _ hc hgs.vwf.nodup hsd hgap
  intro hev j hj
  apply levelTables_of_ge
  rw [hgs.lvl]
  have : dest' + 1 = t.levelCount := by simpa using hev
  omega

/-- **move-down.** The `admissible` conjunct of `okStep t (.move ids dest' wm)` holds for the choice of
    `moveDownChoose src dest` on the latest version of a `Good` state, under P5. -/
theorem c01_movedown_step_ok (t : TreeState K) (hg : Good t) (hidden : List Nat) (src dest : Nat) (ids : List Nat)
    (dest' : Nat) (sv : SuperVersion K) (hsv : t.latest? = some sv)
    (hc : moveDownChoose sv.version hidden src dest = .move ids dest')
    (hsd : src ≤ dest) (hgap : ∀ j, src < j → j < dest → sv.version.levelTables j = []) :
    admissible sv.version ids dest' false = true :=
  moveDown_admissible sv.version hidden src dest ids dest' hc (hg.latest_goodSv hsv).vwf.nodup hsd hgap

/-! ### the full side condition, assembled -/

/-- `okStep` of a major compaction: only the observed-data conjuncts remain as hypotheses -/
theorem c01_major_okStep (t : TreeState K) (hidden : List Nat) (lastLevel : Nat) (ids : List Nat) (dest wm : Nat)
    (f : Entry K → Verdict) (cuts : List (Nat × Nat))
    (hc : ∀ sv, t.latest? = some sv → majorChoose sv.version hidden lastLevel = .merge ids dest)
    (hobs : ∀ sv, t.latest? = some sv → dest < t.levelCount ∧
      (∀ e ∈ mergeInputs sv.version ids, e.isTomb = false → f e = .keep) ∧
      cutsOk cuts (cstream wm (dest + 1 == t.levelCount) noFilter (mergeInputs sv.version ids)).1 sv.version) :
    okStep t (.merge ids dest wm f cuts) := by
  intro sv hsv
  obtain ⟨h1, h2, h3⟩ := hobs sv hsv
  exact ⟨h1, c01_major_step_ok t hidden lastLevel ids dest sv (hc sv hsv), h2, h3⟩

/-- `okStep` of a pull-down compaction on a `Good` state under P5 -/
theorem c01_pulldown_okStep (t : TreeState K) (hg : Good t) (src dest : Nat) (ids : List Nat) (dest' wm : Nat)
    (f : Entry K → Verdict) (cuts : List (Nat × Nat))
    (hc : ∀ sv, t.latest? = some sv → pullDownChoose sv.version src dest = .merge ids dest')
    (hsd : src ≤ dest)
    (hgap : ∀ sv, t.latest? = some sv → ∀ j, src < j → j < dest → sv.version.levelTables j = [])
    (hobs : ∀ sv, t.latest? = some sv →
      (∀ e ∈ mergeInputs sv.version ids, e.isTomb = false → f e = .keep) ∧
      cutsOk cuts (cstream wm (dest' + 1 == t.levelCount) noFilter (mergeInputs sv.version ids)).1 sv.version) :
    okStep t (.merge ids dest' wm f cuts) := by
  intro sv hsv
  obtain ⟨h2, h3⟩ := hobs sv hsv
  have hd := pullDownChoose_merge (hc sv hsv)
  refine ⟨?_, c01_pulldown_step_ok t hg src dest ids dest' sv hsv (hc sv hsv) hsd (hgap sv hsv), h2, h3⟩
  rw [← (hg.latest_goodSv hsv).lvl, hd.1]
  exact hd.2.2.1

/-- `okStep` of a move-down on a `Good` state under P5 (the destination must be a level of the tree) -/
theorem c01_movedown_okStep (t : TreeState K) (hg : Good t) (hidden : List Nat) (src dest : Nat) (ids : List Nat)
    (dest' wm : Nat)
    (hc : ∀ sv, t.latest? = some sv → moveDownChoose sv.version hidden src dest = .move ids dest')
    (hsd : src ≤ dest) (hdest : dest < t.levelCount)
    (hgap : ∀ sv, t.latest? = some sv → ∀ j, src < j → j < dest → sv.version.levelTables j = []) :
    okStep t (.move ids dest' wm) := by
  intro sv hsv
  have hd := moveDownChoose_move (hc sv hsv)
  refine ⟨by rw [hd.1]; exact hdest,
    c01_movedown_step_ok t hg hidden src dest ids dest' sv hsv (hc sv hsv) hsd (hgap sv hsv)⟩

/-- hence: a `Good` state stays `Good` across a move-down chosen by the model, and no read changes -/
theorem c01_movedown_step (t t' : TreeState K) (hg : Good t) (hidden : List Nat) (src dest : Nat) (ids : List Nat)
    (dest' wm : Nat)
    (hc : ∀ sv, t.latest? = some sv → moveDownChoose sv.version hidden src dest = .move ids dest')
    (hsd : src ≤ dest) (hdest : dest < t.levelCount)
    (hgap : ∀ sv, t.latest? = some sv → ∀ j, src < j → j < dest → sv.version.levelTables j = [])
    (ha : t.applyOp (.move ids dest' wm) = some t') : Good t' :=
  (applyOp_good hg (c01_movedown_okStep t hg hidden src dest ids dest' wm hc hsd hdest hgap) ha).1

/-- C15 (restated): every id `dropRangeChoose` returns is the id of a table of the version that the range fully
    contains -/
theorem c15_dropRange_choice_contained (lo hi : Bound K) (v : Version K) (hidden : List Nat) (ids : List Nat)
    (hc : dropRangeChoose lo hi v hidden = .drop ids) (i : Nat) (hi' : i ∈ ids) :
    ∃ t ∈ v.tables, t.id = i ∧ boundsContain lo hi t = true :=
  dropRange_ids_contained lo hi v hidden ids hc i hi'

/-! ### Non-vacuity and necessity of the hypotheses (`K := Nat`, three / four levels) -/
namespace C01bExample

def tA : TableM Nat := ⟨1, 1, 1, [⟨1, 5, .value, [50]⟩], 0⟩     -- key 1, newest
def tB : TableM Nat := ⟨2, 1, 1, [⟨1, 3, .tomb, []⟩], 0⟩        -- key 1, a delete in between
def tC : TableM Nat := ⟨3, 1, 2, [⟨1, 1, .value, [10]⟩, ⟨2, 0, .value, [20]⟩], 0⟩  -- keys 1, 2, oldest

/-- L0 = {tA}, L1 empty, L2 = {tC} -/
def vE : Version Nat := ⟨0, [[[tA]], [], [[tC]]]⟩
/-- L0 = {tA}, L1 = {tB}, L2 = {tC}: the middle level holds key 1 -/
def vM : Version Nat := ⟨0, [[[tA]], [[tB]], [[tC]]]⟩
/-- four levels: L0 = {tA}, L1 empty, L2 = {tB}, L3 = {tC} -/
def v4 : Version Nat := ⟨0, [[[tA]], [], [[tB]], [[tC]]]⟩

/-- major compaction of everything: admissible with and without eviction (even over the full middle level) -/
example : majorChoose vM [] 2 = .merge [1, 2, 3] 2 ∧
    admissible vM [1, 2, 3] 2 true = true ∧ admissible vM [1, 2, 3] 2 false = true := by decide

/-- the same through the theorem -/
example : admissible vM [1, 2, 3] 2 true = true := major_admissible vM [] 2 _ _ true (by decide)

/-- pull-down 0 → 2 with level 1 empty: admissible, and since 2 is the last level also with eviction -/
example : pullDownChoose vE 0 2 = .merge [1, 3] 2 ∧
    admissible vE [1, 3] 2 false = true ∧ admissible vE [1, 3] 2 true = true := by decide

/-- the same through the theorem: its hypotheses are satisfiable -/
example : admissible vE [1, 3] 2 true = true :=
  pullDown_admissible_last vE 0 2 [1, 3] 2 true (by decide) (by decide) (by decide)
    (by intro j h1 h2; obtain rfl : j = 1 := by omega
        rfl) rfl

/-- NEGATIVE (why P5 is needed): pull-down 0 → 2 when level 1 holds a table sharing key 1 with level 0 is NOT
    admissible — merging `tA` and `tC` into level 2 would put the newest value of key 1 below the delete `tB` -/
example : pullDownChoose vM 0 2 = .merge [1, 3] 2 ∧
    admissible vM [1, 3] 2 false = false ∧ admissible vM [1, 3] 2 true = false := by decide

/-- move-down 0 → 2 with level 1 empty: admissible although the destination level holds key 1 -/
example : moveDownChoose vE [] 0 2 = .move [1] 2 ∧ admissible vE [1] 2 false = true := by decide

example : admissible vE [1] 2 false = true :=
  moveDown_admissible vE [] 0 2 [1] 2 (by decide) (by decide) (by decide)
    (by intro j h1 h2; obtain rfl : j = 1 := by omega
        rfl)

/-- NEGATIVE: move-down 0 → 2 over the non-empty level 1 is not admissible -/
example : moveDownChoose vM [] 0 2 = .move [1] 2 ∧ admissible vM [1] 2 false = false := by decide

/-- pull-down 0 → 2 in a four-level tree (level 1 empty, level 3 holds key 1): admissible WITHOUT eviction — which
    is what `mergeCommit` does for a non-last destination — but it would not be with eviction: the hypothesis
    "nothing below `dest`" of `pullDown_admissible_evict` is needed -/
example : pullDownChoose v4 0 2 = .merge [1, 2] 2 ∧
    admissible v4 [1, 2] 2 false = true ∧ admissible v4 [1, 2] 2 true = false := by decide

/-- the distinct-ids hypothesis is needed: with `tC'` at level 2 carrying the id of `tA`, move-down 0 → 1 selects by
    id also `tC'`, which would jump over `tB` at the destination level -/
def tC' : TableM Nat := { tC with id := 1 }
def vD : Version Nat := ⟨0, [[[tA]], [[tB]], [[tC']]]⟩
example : moveDownChoose vD [] 0 1 = .move [1] 1 ∧ admissible vD [1] 1 false = false := by decide

end C01bExample


end Lsm
