import LsmModel.Lemmas.FsLemmas
/-!
# C16 — a failed flush or compaction changes nothing durable and can simply be retried

File-system half of the property (the in-memory half — history not extended, sealed memtables kept, hidden set
restored — is checked by the fault-injection instrument).  A failing system call returns an error and is not
applied (`applyOrFail`; a failed `append` has appended nothing); the operation stops there:
`runOutcomes fs (failAt as j)` is the state after actions `0 … j-1` succeeded and action `j` failed.
-/
namespace Lsm
open Fs

/-- Failure atomicity.  The operation was accepted as far as it went and stopped with an error at action `j`.
(a) Every crash outcome of the reached state recovers to the old or the new version.
(b) If the operation started in the phase before the rename and the rename was not among the actions performed,
then the reached state is quiescent for the OLD version (`current` durably names it, no rename pending, every file it
names is present, complete and durable — untouched), it is still in phase `before`, every crash outcome — so every
reopen — yields the old version, and the state satisfies the install invariant for ANY target version `new'`
with another number: the starting condition of a retry. -/
theorem c16_failure_atomic (old new : Ver) (fs : Fs) (as : List Act) (j : Nat)
    (hinv : Inv old new fs) (hacc : acceptsFrom old new fs (as.take j) = none) :
    (∀ d, Crash (runOutcomes fs (failAt as j)) d → RecoversTo d old ∨ RecoversTo d new) ∧
    (phaseOf old new fs = .before → (∀ a ∈ as.take j, a ≠ .rename) →
      Quiescent old (runOutcomes fs (failAt as j)) ∧
      phaseOf old new (runOutcomes fs (failAt as j)) = .before ∧
      (∀ d, Crash (runOutcomes fs (failAt as j)) d → RecoversTo d old) ∧
      (∀ new' : Ver, old.id ≠ new'.id → Inv old new' (runOutcomes fs (failAt as j)))) :=
  failed_op_recovers_old_or_new old new fs as j hinv hacc

/-- the failed run is the run of the actions that succeeded -/
theorem c16_failed_run_eq (fs : Fs) (as : List Act) (j : Nat) :
    runOutcomes fs (failAt as j) = run fs (as.take j) :=
  runOutcomes_failAt as fs j

/-- In the phase before the rename the invariant does not mention the target version. -/
theorem c16_inv_before_mono (old new new' : Ver) (fs : Fs) (hi : Inv old new fs)
    (hph : phaseOf old new fs = .before) (hne : old.id ≠ new'.id) : Inv old new' fs :=
  inv_before_mono hi hph hne

/-- Retry.  After a failure before the rename the operation is run again towards a target `new'` — the real code
allocates fresh table ids, so `new'` names other files than `new`; the leftovers of the failed attempt are named by
neither version.  An accepted retry is crash-atomic with respect to `(old, new')`, and once it has completed every
crash recovers to `new'`.  Freshness of the names is not a hypothesis: a retry that reused a leftover without
re-creating it would fail the exact-content check of the `rename` guard and would not be accepted. -/
theorem c16_retry_crash_atomic (old new new' : Ver) (fs : Fs) (as as' : List Act) (j : Nat)
    (hinv : Inv old new fs) (hph : phaseOf old new fs = .before)
    (hacc : acceptsFrom old new fs (as.take j) = none) (hnr : ∀ a ∈ as.take j, a ≠ .rename)
    (hne : old.id ≠ new'.id)
    (hacc' : acceptsFrom old new' (runOutcomes fs (failAt as j)) as' = none) :
    (∀ i ≤ as'.length, ∀ d, Crash (run (runOutcomes fs (failAt as j)) (as'.take i)) d →
      RecoversTo d old ∨ RecoversTo d new') ∧
    (completedB old new' (run (runOutcomes fs (failAt as j)) as') = true →
      ∀ d, Crash (run (runOutcomes fs (failAt as j)) as') d → RecoversTo d new') := by
  have hinv' := ((failed_op_recovers_old_or_new old new fs as j hinv hacc).2 hph hnr).2.2.2 new' hne
  refine ⟨accepted_install_atomic old new' _ as' hinv' hacc', fun hdone d hc => ?_⟩
  exact accepted_completed_only_new old new' _ as' hinv' hacc' hdone [] rfl 0 (Nat.le_refl _) d hc

/-! ### non-vacuity -/

private def vOld : Ver := ⟨1, [((0, 1), [10])]⟩
private def vNew : Ver := ⟨2, [((0, 2), [20]), ((1, 7), [30])]⟩
private def vNew' : Ver := ⟨2, [((0, 2), [21]), ((1, 8), [30])]⟩
private def flushSeq : List Act :=
  [.create (1, 7), .append (1, 7) 30, .fsyncFile (1, 7), .fsyncDir 1,
   .create (0, 2), .append (0, 2) 20, .fsyncFile (0, 2), .fsyncDir 0,
   .writeTmp 2, .fsyncTmp, .rename, .fsyncDir 0]
private def retrySeq : List Act :=
  [.create (1, 8), .append (1, 8) 30, .fsyncFile (1, 8), .fsyncDir 1,
   .create (0, 2), .append (0, 2) 21, .fsyncFile (0, 2), .fsyncDir 0,
   .writeTmp 2, .fsyncTmp, .rename, .fsyncDir 0]

/-- the flush fails at action 6 (the fsync of the version file, say ENOSPC): table 7 and a partial `v2` are left
over, every crash image recovers to version 1 -/
example : acceptsFrom vOld vNew (Fs.ofVersion vOld) (flushSeq.take 6) = none := by decide
example : (crashOutcomes (runOutcomes (Fs.ofVersion vOld) (failAt flushSeq 6))).map (recover · [vOld, vNew])
    = [some 1, some 1, some 1] := by decide
example : ((runOutcomes (Fs.ofVersion vOld) (failAt flushSeq 6)).get (1, 7)).isSome = true := by decide
/-- the retry with a fresh table id (and the version file re-created) is accepted from the state the failure left,
completes, and then recovers to the new version only -/
example : acceptsFrom vOld vNew' (runOutcomes (Fs.ofVersion vOld) (failAt flushSeq 6)) retrySeq = none := by decide
example : completedB vOld vNew' (run (runOutcomes (Fs.ofVersion vOld) (failAt flushSeq 6)) retrySeq) = true := by
  decide
example : (crashOutcomes (run (runOutcomes (Fs.ofVersion vOld) (failAt flushSeq 6)) retrySeq)).map
    (recover · [vOld, vNew']) = [some 2] := by decide
/-- a retry that appends to the leftover version file instead of re-creating it is rejected at the rename -/
example : acceptsFrom vOld vNew' (runOutcomes (Fs.ofVersion vOld) (failAt flushSeq 6))
    (retrySeq.eraseIdx 4) = some 9 := by decide
/-- every failure point of the flush before the rename leaves a state from which all crash images recover to 1 -/
example : (List.range 11).all (fun j =>
    (crashOutcomes (runOutcomes (Fs.ofVersion vOld) (failAt flushSeq j))).all
      (fun d => recover d [vOld, vNew] == some 1)) = true := by decide

end Lsm
