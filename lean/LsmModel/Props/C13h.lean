import LsmModel.Lemmas.WeakHistory2
/-!
# C13 at history level — a weak delete behaves like a delete for keys written once

C01 (`c01_point_read_refines_map`) excludes weak tombstones from its alphabet; `Props/C13.lean` speaks about ONE key's
version list around ONE compaction stream. This file joins the two: for a (not key-value separated) tree driven by
inserts, strong deletes, WEAK deletes and write batches, interleaved in any way with memtable rotation, flushes
(sequential or concurrent), leveled / major / move-down compactions and reopen-after-flush, a point read at the newest
snapshot returns exactly what an ordered map replaying the writes returns — provided the WRITE HISTORY obeys the
single-delete discipline `Discipline`:

  per user key, EITHER the key never receives a weak delete (then inserts and strong deletes may be mixed freely: the
  C01 regime), OR it never receives a strong delete and every insert of it is its first write or directly follows a
  weak delete of it (`WeakSafe` of the key's writes, newest first; consecutive weak deletes are allowed).

In particular, after a weak delete the key reads as absent at every later time and through every flush / merge / move /
reopen (it neither stays visible nor comes back), and a re-insert after the weak delete reads as the new value.

Definitions are in `LsmModel.Lemmas.WeakHistory` (`Str`, `curHist`, `KeyStep`) and `WeakHistory2` (`writesOf`, `KeyDisc`,
`Discipline`, `okStepW`, `ReachW`, `KeyInv`, `GoodW`). Executable checkers: `disciplineB` (= `Discipline`,
`c13_disciplineB_iff`), `okStepWB` (sound for `okStepW`), `weakSafeStateB` (the state-level consequence, exact).
`Discipline` is the WEAKEST condition on the write history under which every key's version list is `KeyDisc` in every
reachable state: a history of writes only has `curHist t k = writesOf ops k` (`write_str`), so the condition is
necessary for the state reached before any maintenance, and `c13_state_disciplined` shows it is sufficient.
-/
namespace Lsm
variable {K : Type} [LT K] [DecidableLT K] [DecidableEq K] [LE K] [Std.IsLinearOrder K] [Std.LawfulOrderLT K]

/-- **C13 (history level).** After any guarded run (alphabet of C01 plus weak deletes) from the empty tree whose write
    history obeys the single-delete discipline, a point read of any key at any snapshot at or above the counter
    returns exactly the last write of that key (`none` inside = absent: never written, deleted, or weakly deleted). -/
theorem c13_history (n : Nat) (ops : List (Op K)) (t : TreeState K)
    (h : ReachW (TreeState.init n none) ops t) (hdisc : Discipline ops) (k : K) (S : Nat) (hS : t.seqCtr ≤ S) :
    t.getAt k S = some (live (lastWrite ops k)) := by
  have hg := reachW_goodW h [] (goodW_init _ n none) (by simpa using hdisc)
  rw [List.nil_append] at hg
  have hh : live (curHist t k).head? = live (writesOf ops k).head? := by simpa using (hg.2 k).2.2
  rw [str_getAt hg.1 k S hS, hh, lastWrite_eq_head]

/-- after a weak delete the key is absent — whatever rotations, flushes, compactions, moves and reopens happened
    before or after it (it neither stays visible nor comes back) -/
theorem c13_weak_deleted_absent (n : Nat) (ops : List (Op K)) (t : TreeState K)
    (h : ReachW (TreeState.init n none) ops t) (hdisc : Discipline ops) (k : K) (e : Entry K)
    (hw : lastWrite ops k = some e) (hd : e.vt = .weak) (S : Nat) (hS : t.seqCtr ≤ S) :
    t.getAt k S = some none := by
  rw [c13_history n ops t h hdisc k S hS, hw, live_some]
  simp [Entry.isTomb, hd]

/-- a re-insert after a weak delete reads as the new value (exactly that entry: key, seqno, value) -/
theorem c13_reinsert_reads_new (n : Nat) (ops : List (Op K)) (t : TreeState K)
    (h : ReachW (TreeState.init n none) ops t) (hdisc : Discipline ops) (k : K) (e : Entry K)
    (hw : lastWrite ops k = some e) (hd : e.isTomb = false) (S : Nat) (hS : t.seqCtr ≤ S) :
    t.getAt k S = some (some e) := by
  rw [c13_history n ops t h hdisc k S hS, hw, live_some, hd]
  rfl

/-- the state-level consequence, as the executable check: in every reachable state every key's version list along
    the read order of the latest super version has no weak tombstone or is `WeakSafe` -/
theorem c13_state_disciplined (n : Nat) (ops : List (Op K)) (t : TreeState K)
    (h : ReachW (TreeState.init n none) ops t) (hdisc : Discipline ops) : weakSafeStateB t = true := by
  have hg := reachW_goodW h [] (goodW_init _ n none) (by simpa using hdisc)
  rw [List.nil_append] at hg
  exact (weakSafeStateB_iff t).2 (fun k => (hg.2 k).keyDisc erOk_id (hdisc k))

/-- one guarded step from any state satisfying the invariant w.r.t. per-key write histories `H`: the invariant holds
    afterwards w.r.t. `H` extended by what the step wrote, and the newest-snapshot read is the live head of that -/
theorem c13_step (t t' : TreeState K) (op : Op K) (H : K → List (Entry K)) (hg : GoodW (fun e => e) none t H)
    (hok : okStepW t op) (ha : t.applyOp op = some t') (hd : ∀ k, KeyDisc ((op.lastWriteOf k).toList ++ H k))
    (k : K) (S : Nat) (hS : t'.seqCtr ≤ S) :
    GoodW (fun e => e) none t' (fun k => (op.lastWriteOf k).toList ++ H k) ∧
    t'.getAt k S = some (live ((op.lastWriteOf k).toList ++ H k).head?) := by
  have hg' := applyOp_goodW erOk_id hg (okStepS_of_W hg.1.blob hok) ha hd
  have hh : live (curHist t' k).head? = live ((op.lastWriteOf k).toList ++ H k).head? := by
    simpa using (hg'.2 k).2.2
  exact ⟨hg', by rw [str_getAt hg'.1 k S hS, hh]⟩

/-- `Discipline` is the WEAKEST condition on the write history that makes every key's version list disciplined in
    every reachable state: on a history of writes only (nothing flushed or compacted yet) the state-level check holds
    EXACTLY when the history is disciplined. Together with `c13_state_disciplined` (sufficiency for every run). -/
theorem c13_discipline_weakest (n : Nat) (ops : List (Op K)) (t : TreeState K)
    (h : ReachW (TreeState.init n none) ops t) (hw : ∀ op ∈ ops, ∃ es, op = Op.write es) :
    weakSafeStateB t = true ↔ Discipline ops := by
  have hk := (writesOnly_curHist h hw [] (str_init n none) (fun k => curHist_init n none k)).2
  rw [weakSafeStateB_iff]
  simp only [List.nil_append] at hk
  constructor
  · intro h1 k; rw [← hk k]; exact h1 k
  · intro h1 k; rw [hk k]; exact h1 k

/-- C01's runs are runs of the larger alphabet -/
theorem c13_alphabet_extends_c01 (t t' : TreeState K) (ops : List (Op K)) (h : Reach t ops t') : ReachW t ops t' :=
  ReachW.of_reach h

/-- the executable discipline check is exact -/
theorem c13_disciplineB_iff (ops : List (Op K)) : disciplineB ops = true ↔ Discipline ops :=
  disciplineB_iff ops

/-- the executable side condition implies the propositional one -/
theorem c13_okStepWB_sound (t : TreeState K) (op : Op K) (h : okStepWB t op = true) : okStepW t op :=
  okStepWB_sound h

/-! ### Non-vacuity: insert, weak delete, flush, re-insert, weak delete, (another key), flush, major compaction into
the last level with GC watermark 10 (both weak/value pairs annihilate), re-insert — on `K := Nat`, two levels -/
namespace C13hExample

def a0 : Entry Nat := ⟨1, 0, .value, [10]⟩
def w1 : Entry Nat := ⟨1, 1, .weak, []⟩
def a3 : Entry Nat := ⟨1, 3, .value, [11]⟩
def w4 : Entry Nat := ⟨1, 4, .weak, []⟩
def b5 : Entry Nat := ⟨2, 5, .value, [20]⟩
def a8 : Entry Nat := ⟨1, 8, .value, [12]⟩

def v0 : Version Nat := Version.empty 0 2
def t100 : TableM Nat := ⟨100, 1, 1, [w1, a0], 0⟩
def t101 : TableM Nat := ⟨101, 1, 2, [w4, a3, b5], 0⟩
def t102 : TableM Nat := ⟨102, 2, 2, [b5], 0⟩
def v1 : Version Nat := ⟨1, [[[t100]], []]⟩
def v2 : Version Nat := ⟨2, [[[t101], [t100]], []]⟩
def v3 : Version Nat := ⟨3, [[], [[t102]]]⟩

def s0 : TreeState Nat := TreeState.init 2 none
def s2 : TreeState Nat :=
  { hist := [⟨0, [], v0, 0⟩], mems := [⟨0, [w1, a0]⟩], seqCtr := 2, visible := 2, levelCount := 2 }
def s2r : TreeState Nat :=
  { hist := [⟨1, [0], v0, 0⟩], mems := [⟨0, [w1, a0]⟩, ⟨1, []⟩], seqCtr := 2, visible := 2, levelCount := 2 }
def s3 : TreeState Nat :=
  { hist := [⟨1, [0], v0, 0⟩, ⟨1, [], v1, 2⟩], mems := [⟨0, [w1, a0]⟩, ⟨1, []⟩], seqCtr := 3, visible := 3,
    levelCount := 2 }
def s6 : TreeState Nat := { s3 with mems := [⟨0, [w1, a0]⟩, ⟨1, [w4, a3, b5]⟩], seqCtr := 6, visible := 6 }
def s6r : TreeState Nat :=
  { hist := [⟨1, [0], v0, 0⟩, ⟨2, [1], v1, 2⟩], mems := [⟨0, [w1, a0]⟩, ⟨1, [w4, a3, b5]⟩, ⟨2, []⟩], seqCtr := 6,
    visible := 6, levelCount := 2 }
def s7 : TreeState Nat :=
  { hist := [⟨1, [0], v0, 0⟩, ⟨2, [1], v1, 2⟩, ⟨2, [], v2, 6⟩],
    mems := [⟨0, [w1, a0]⟩, ⟨1, [w4, a3, b5]⟩, ⟨2, []⟩], seqCtr := 7, visible := 7, levelCount := 2 }
def s8 : TreeState Nat :=
  { hist := [⟨2, [], v3, 7⟩], mems := [⟨2, []⟩], seqCtr := 8, visible := 8, levelCount := 2 }
def s9 : TreeState Nat :=
  { hist := [⟨2, [], v3, 7⟩], mems := [⟨2, [a8]⟩], seqCtr := 9, visible := 9, levelCount := 2 }

def ops : List (Op Nat) :=
  [.write [a0], .write [w1], .flush 0 1 [(100, 2)], .write [a3], .write [w4], .write [b5], .flush 0 2 [(101, 3)],
    .merge [100, 101] 1 10 noFilter [(102, 1)], .write [a8]]

theorem rot2 : s2.rotate 1 = s2r := rfl
theorem rot6 : s6.rotate 2 = s6r := rfl

theorem stream3 : s2r.flushStream ⟨1, [0], v0, 0⟩ 0 = ([w1, a0], []) := by
  have hm : mergeAll [[w1, a0]] = [w1, a0] := by simp [mergeAll, merge2]
  show cstream 0 false noFilter (mergeAll [[w1, a0]]) = _
  rw [hm]
  simp [cstream, filterHead, noFilter, a0, w1, Entry.isTomb]

theorem stream7 : s6r.flushStream ⟨2, [1], v1, 2⟩ 0 = ([w4, a3, b5], []) := by
  have hm : mergeAll [[w4, a3, b5]] = [w4, a3, b5] := by simp [mergeAll, merge2]
  show cstream 0 false noFilter (mergeAll [[w4, a3, b5]]) = _
  rw [hm]
  simp [cstream, filterHead, noFilter, w4, a3, b5, Entry.isTomb]

theorem inputs8 : mergeInputs v2 [100, 101] = [w4, a3, w1, a0, b5] := by
  simp [mergeInputs, v2, Version.runs, t100, t101, mergeAll, merge2, ikLt, a0, w1, a3, w4, b5]

/-- both weak tombstones annihilate with the value they delete; key 1 is gone from the tables -/
theorem stream8 : cstream 10 true noFilter [w4, a3, w1, a0, b5] = ([b5], [a3, a0]) := by
  simp [cstream, filterHead, noFilter, a0, w1, a3, w4, b5, Entry.isTomb]

theorem step3 : s2.applyOp (.flush 0 1 [(100, 2)]) = some s3 := by
  show s2r.flushSealed 0 [(100, 2)] = some s3
  have hl : s2r.latest? = some ⟨1, [0], v0, 0⟩ := rfl
  simp only [TreeState.flushSealed, hl, stream3]
  rfl

theorem step7 : s6.applyOp (.flush 0 2 [(101, 3)]) = some s7 := by
  show s6r.flushSealed 0 [(101, 3)] = some s7
  have hl : s6r.latest? = some ⟨2, [1], v1, 2⟩ := rfl
  simp only [TreeState.flushSealed, hl, stream7]
  rfl

theorem step8 : s7.applyOp (.merge [100, 101] 1 10 noFilter [(102, 1)]) = some s8 := by
  show s7.mergeCommit [100, 101] 1 10 noFilter [(102, 1)] = some s8
  have hl : s7.latest? = some ⟨2, [], v2, 6⟩ := rfl
  have he : (1 + 1 == s7.levelCount) = true := rfl
  simp only [TreeState.mergeCommit, hl, he, inputs8, stream8]
  rfl

theorem ok3 : okStepW s2 (.flush 0 1 [(100, 2)]) := by
  refine ⟨by decide, fun sv hsv => ?_⟩
  rw [rot2] at hsv ⊢
  obtain rfl : sv = ⟨1, [0], v0, 0⟩ := Option.some.inj (hsv.symm.trans (rfl : s2r.latest? = _))
  rw [stream3]
  refine ⟨by decide, by decide, fun ts hts => ?_⟩
  cases hts; rfl

theorem ok7 : okStepW s6 (.flush 0 2 [(101, 3)]) := by
  refine ⟨by decide, fun sv hsv => ?_⟩
  rw [rot6] at hsv ⊢
  obtain rfl : sv = ⟨2, [1], v1, 2⟩ := Option.some.inj (hsv.symm.trans (rfl : s6r.latest? = _))
  rw [stream7]
  refine ⟨by decide, by decide, fun ts hts => ?_⟩
  cases hts; rfl

theorem ok8 : okStepW s7 (.merge [100, 101] 1 10 noFilter [(102, 1)]) := by
  intro sv hsv
  obtain rfl : sv = ⟨2, [], v2, 6⟩ := Option.some.inj (hsv.symm.trans (rfl : s7.latest? = _))
  have he : (1 + 1 == s7.levelCount) = true := rfl
  rw [he, inputs8, stream8]
  refine ⟨by decide, by decide, fun _ _ _ => rfl, by decide, by decide, fun ts hts => ?_⟩
  cases hts; rfl

theorem reach9 : ReachW s0 ops s9 := by
  refine .step (t' := _) ?_ rfl (.step (t' := s2) ?_ rfl (.step ok3 step3 (.step (t' := _) ?_ rfl
    (.step (t' := _) ?_ rfl (.step (t' := s6) ?_ rfl (.step ok7 step7 (.step ok8 step8
    (.step (t' := s9) ?_ rfl (.refl _)))))))))
  all_goals exact ⟨by decide, by decide⟩

theorem disc9 : Discipline ops := (disciplineB_iff ops).1 (by decide)

/-- what `c13_history` says about this run: key 1 reads its re-inserted value, key 2 its value, key 3 is absent -/
example : s9.getAt 1 9 = some (some a8) ∧ s9.getAt 2 9 = some (some b5) ∧ s9.getAt 3 9 = some none :=
  ⟨c13_history 2 _ s9 reach9 disc9 1 9 (by decide), c13_history 2 _ s9 reach9 disc9 2 9 (by decide),
   c13_history 2 _ s9 reach9 disc9 3 9 (by decide)⟩

/-- the prefix of the run up to the compaction: key 1 was weakly deleted last, and is absent after the compaction that
    dropped both pairs (`c13_weak_deleted_absent`); it was already absent before it (weak tombstone in L0) -/
theorem reach8 : ReachW s0 (ops.take 8) s8 := by
  refine .step (t' := _) ?_ rfl (.step (t' := s2) ?_ rfl (.step ok3 step3 (.step (t' := _) ?_ rfl
    (.step (t' := _) ?_ rfl (.step (t' := s6) ?_ rfl (.step ok7 step7 (.step ok8 step8 (.refl _))))))))
  all_goals exact ⟨by decide, by decide⟩

example : s8.getAt 1 8 = some none :=
  c13_weak_deleted_absent 2 _ s8 reach8 ((disciplineB_iff _).1 (by decide)) 1 w4 (by decide) rfl 8 (by decide)

example : s7.getAt 1 7 = some none ∧ s8.getAt 1 8 = some none ∧ s8.getAt 2 8 = some (some b5) := by decide

/-- the executable state check on the states of the run -/
example : weakSafeStateB s7 = true ∧ weakSafeStateB s8 = true ∧ weakSafeStateB s9 = true := by decide

end C13hExample

/-! ### Necessity of the hypotheses (kernel-checked counterexamples, `K := Nat`) -/
namespace C13hNecessity
open C13hExample (a0 v0 s0)

/-! #### (a) `Discipline`, clause "an insert directly follows a weak delete or nothing": two inserts, one weak delete.
The flush (GC watermark 10) pairs the weak tombstone with the NEWER insert only; the older value resurfaces. Every step
satisfies `okStepW`. -/

def c1 : Entry Nat := ⟨1, 1, .value, [11]⟩
def c2 : Entry Nat := ⟨1, 2, .weak, []⟩
def tb : TableM Nat := ⟨100, 1, 1, [a0], 0⟩
def vb : Version Nat := ⟨1, [[[tb]], []]⟩
def b2 : TreeState Nat :=
  { hist := [⟨0, [], v0, 0⟩], mems := [⟨0, [c2, c1, a0]⟩], seqCtr := 3, visible := 3, levelCount := 2 }
def b2r : TreeState Nat :=
  { hist := [⟨1, [0], v0, 0⟩], mems := [⟨0, [c2, c1, a0]⟩, ⟨1, []⟩], seqCtr := 3, visible := 3, levelCount := 2 }
def b3 : TreeState Nat :=
  { hist := [⟨1, [], vb, 3⟩], mems := [⟨1, []⟩], seqCtr := 4, visible := 4, levelCount := 2 }
def opsBad : List (Op Nat) := [.write [a0], .write [c1], .write [c2], .flush 10 1 [(100, 1)]]

theorem rotB : b2.rotate 1 = b2r := rfl

theorem streamB : b2r.flushStream ⟨1, [0], v0, 0⟩ 10 = ([a0], [c1]) := by
  have hm : mergeAll [[c2, c1, a0]] = [c2, c1, a0] := by simp [mergeAll, merge2]
  show cstream 10 false noFilter (mergeAll [[c2, c1, a0]]) = _
  rw [hm]
  simp [cstream, filterHead, noFilter, a0, c1, c2, Entry.isTomb]

theorem stepB : b2.applyOp (.flush 10 1 [(100, 1)]) = some b3 := by
  show b2r.flushSealed 10 [(100, 1)] = some b3
  have hl : b2r.latest? = some ⟨1, [0], v0, 0⟩ := rfl
  simp only [TreeState.flushSealed, hl, streamB]
  rfl

theorem okB : okStepW b2 (.flush 10 1 [(100, 1)]) := by
  refine ⟨by decide, fun sv hsv => ?_⟩
  rw [rotB] at hsv ⊢
  obtain rfl : sv = ⟨1, [0], v0, 0⟩ := Option.some.inj (hsv.symm.trans (rfl : b2r.latest? = _))
  rw [streamB]
  refine ⟨by decide, by decide, fun ts hts => ?_⟩
  cases hts; rfl

theorem reachBad : ReachW s0 opsBad b3 := by
  refine .step (t' := _) ?_ rfl (.step (t' := _) ?_ rfl (.step (t' := b2) ?_ rfl (.step okB stepB (.refl _))))
  all_goals exact ⟨by decide, by decide⟩

/-- `Discipline` cannot be dropped from `c13_history`: a guarded run whose last write of key 1 is a weak delete, and
    key 1 reads the FIRST (overwritten) value after the flush -/
theorem c13_discipline_necessary_overwrite :
    ReachW s0 opsBad b3 ∧ ¬ Discipline opsBad ∧ lastWrite opsBad 1 = some c2 ∧ b3.getAt 1 4 = some (some a0) :=
  ⟨reachBad, fun h => absurd ((disciplineB_iff opsBad).2 h) (by decide), by decide, by decide⟩

/-! #### (b) `Discipline`, clause "no strong delete of a weakly deleted key": insert, STRONG delete, insert, weak
delete (`[w3, a2, T1, a0]` newest first; every insert does follow a delete). At key level, with the two maintenance
steps written as `KeyStep`s (what `flushSealed_str` / `mergeCommit_str` show flushes and admissible merges to be):
a merge of the tables holding `a2` and `T1` (above the level of `a0`, no eviction) lets the value `a2` shadow — and
drop — the strong tombstone; the next merge pairs `w3` with `a2`; `a0` resurfaces. -/

def T1 : Entry Nat := ⟨1, 1, .tomb, []⟩
def a2 : Entry Nat := ⟨1, 2, .value, [11]⟩
def w3 : Entry Nat := ⟨1, 3, .weak, []⟩

theorem c13_discipline_necessary_strong :
    ¬ KeyDisc [w3, a2, T1, a0] ∧ KeyStep none 1 [w3, a2, T1, a0] [w3, a2, a0] ∧ KeyStep none 1 [w3, a2, a0] [a0] ∧
      live ([a0] : List (Entry Nat)).head? ≠ live ([w3, a2, T1, a0] : List (Entry Nat)).head? := by
  refine ⟨fun h => absurd ((keyDiscB_iff _).2 h) (by decide), ?_, ?_, by decide⟩
  · refine ⟨10, false, [w3], [a2, T1], [a0], ?_, (fun h => nomatch h), rfl, ?_⟩
    · intro e he; simp at he; rcases he with rfl | rfl <;> rfl
    · have : cstream 10 false noFilter [a2, T1] = ([a2], [T1]) := by
        simp [cstream, filterHead, noFilter, drainKey, a2, T1, Entry.isTomb]
      rw [this]; rfl
  · refine ⟨10, false, [], [w3, a2], [a0], ?_, (fun h => nomatch h), rfl, ?_⟩
    · intro e he; simp at he; rcases he with rfl | rfl <;> rfl
    · have : cstream 10 false noFilter [w3, a2] = ([], [a2]) := by
        simp [cstream, filterHead, a2, w3, Entry.isTomb]
      rw [this]; rfl

/-! #### (c) `t.seqCtr ≤ S`: a snapshot below the counter still sees the weakly deleted value -/

theorem c13_snapshot_bound_necessary :
    C13hExample.s2.getAt 1 1 = some (some a0) ∧ lastWrite [Op.write [a0], Op.write [C13hExample.w1]] 1 = some C13hExample.w1 := by
  decide

/-! #### (d) the guards of `okStepW` (admissibility of the compaction choice, …) are those of C01; their necessity is
shown in `Props/C01.lean` (`C01Example`, "admissibility cannot be dropped"). -/

end C13hNecessity

end Lsm

section AxiomAudit
open Lsm
#print axioms c13_history
#print axioms c13_weak_deleted_absent
#print axioms c13_reinsert_reads_new
#print axioms c13_state_disciplined
#print axioms c13_step
#print axioms c13_discipline_weakest
#print axioms c13_alphabet_extends_c01
#print axioms c13_disciplineB_iff
#print axioms c13_okStepWB_sound
#print axioms C13hExample.reach9
#print axioms C13hNecessity.c13_discipline_necessary_overwrite
#print axioms C13hNecessity.c13_discipline_necessary_strong
#print axioms C13hNecessity.c13_snapshot_bound_necessary
end AxiomAudit
