import LsmModel.Lemmas.ContentLemmas2
/-!
# C01 — point reads refine an ordered map

For a tree driven by inserts, deletes and write batches, a point lookup of any key at the newest snapshot returns
exactly what an ordered map replaying the same writes would return: the value of the last insert, or nothing after
a delete. This holds no matter how memtable rotation, flushes, leveled / major / move-down / pull-down compactions
and reopen-after-flush are interleaved with the writes; a deleted key never reappears and an overwritten value
never resurfaces.

Formalisation (definitions in `LsmModel.Lemmas.ContentLemmas2`):
* `okStep t op`   — C01's alphabet with the side conditions of `op` on the state `t` it is applied to:
    `write es`  : every entry is a plain value or a (strong) tombstone; one entry per key in a batch;
    `rotate`    : —;
    `flush`     : the tree has a level 0; the observed output tables (`cuts`) have fresh, pairwise distinct ids and
                  end between distinct user keys (`cutsBetweenKeys`, the `is_next_key` guard of the multi-writer);
    `flushCommit ids` : the commit of a flush that ran concurrently with other operations (C06): the tree has a
                  level 0, `ids ≠ []`, and either some snapshotted memtable is no longer sealed (result discarded,
                  identity step) or `ids` is a prefix of the sealed list (oldest first) of the latest super version
                  and the output tables are as for `flush`;
    `merge`     : `dest` is a level of the tree; the choice of inputs is `admissible` (tombstones are evicted exactly
                  when `dest` is the last level); the compaction filter keeps every (non-tombstone) input entry;
                  output tables as for `flush`;
    `move`      : `dest` is a level of the tree; the choice is `admissible` (no eviction);
    `reopen`    : every memtable of the latest super version is empty (reopen-after-flush: nothing unflushed is lost);
    `drop`, `clear`, `ingest` are outside the alphabet.
  `okStepB` is the same as a `Bool` (`okStepB_sound`).
* `Reach t ops t'` — a run of the state machine (`TreeState.applyOp`) in which every step satisfies `okStep`.
* `lastWrite ops k` — the last entry a `write` of the history holds for `k` (the ordered-map replay; `none` = never
  written), so `live (lastWrite ops k)` is the map lookup: the last inserted entry, `none` after a delete.
* `Good t` — the invariant: `TreeState.WF`, well-formed latest version (RUN, META, sorted tables, distinct ids), every
  stored seqno below the counter, no weak tombstone, and per key strictly descending seqnos along the read order
  (ORD), plus "every snapshot `≥ seqCtr` resolves to the latest super version".

The snapshot `S` ranges over everything at or above the counter (`t.seqCtr ≤ S`): in particular `S = t.visible` once
all writes have returned (`visible = seqCtr` then) and `S = SeqNo::MAX`.
The tree is not key-value separated (`TreeState.init n none`).
-/
namespace Lsm
variable {K : Type} [LT K] [DecidableLT K] [DecidableEq K] [LE K] [Std.IsLinearOrder K] [Std.LawfulOrderLT K]

/-- **C01.** After any guarded run from the empty tree, a point read of any key at any snapshot at or above the
    counter returns exactly the last write of that key (`none` inside = absent: never written, or deleted). -/
theorem c01_point_read_refines_map (n : Nat) (ops : List (Op K)) (t : TreeState K)
    (h : Reach (TreeState.init n none) ops t) (k : K) (S : Nat) (hS : t.seqCtr ≤ S) :
    t.getAt k S = some (live (lastWrite ops k)) := by
  obtain ⟨hg, hr⟩ := reach_good h (good_init n)
  rw [good_getAt hg k S hS, hr k, readOf_init]
  cases lastWrite ops k <;> rfl

/-- the invariant holds in every reachable state (this is also the SORT / RUN / META / ORD part of C07 for the
    latest super version of reachable states) -/
theorem c01_good_invariant (n : Nat) (ops : List (Op K)) (t : TreeState K)
    (h : Reach (TreeState.init n none) ops t) : Good t :=
  (reach_good h (good_init n)).1

/-- a deleted key never reappears: if the last write of `k` is a tombstone, `k` is absent — whatever rotations,
    flushes, compactions, moves and reopens happened before or after that write -/
theorem c01_deleted_never_reappears (n : Nat) (ops : List (Op K)) (t : TreeState K)
    (h : Reach (TreeState.init n none) ops t) (k : K) (e : Entry K) (hw : lastWrite ops k = some e)
    (hd : e.isTomb = true) (S : Nat) (hS : t.seqCtr ≤ S) :
    t.getAt k S = some none := by
  rw [c01_point_read_refines_map n ops t h k S hS, hw, live_some, hd]
  rfl

/-- an overwritten value never resurfaces: if the last write of `k` is an insert, the read returns exactly that
    entry (key, seqno, value) and hence no older one -/
theorem c01_overwritten_never_resurfaces (n : Nat) (ops : List (Op K)) (t : TreeState K)
    (h : Reach (TreeState.init n none) ops t) (k : K) (e : Entry K) (hw : lastWrite ops k = some e)
    (hd : e.isTomb = false) (S : Nat) (hS : t.seqCtr ≤ S) :
    t.getAt k S = some (some e) := by
  rw [c01_point_read_refines_map n ops t h k S hS, hw, live_some, hd]
  rfl

/-- a key that was never written is absent -/
theorem c01_unwritten_absent (n : Nat) (ops : List (Op K)) (t : TreeState K)
    (h : Reach (TreeState.init n none) ops t) (k : K) (hw : lastWrite ops k = none) (S : Nat) (hS : t.seqCtr ≤ S) :
    t.getAt k S = some none := by
  rw [c01_point_read_refines_map n ops t h k S hS, hw]
  rfl

/-- one guarded step from any state satisfying the invariant: the invariant is kept and the newest-snapshot read of
    every key changes exactly by what the step wrote (maintenance operations are invisible) -/
theorem c01_step (t t' : TreeState K) (op : Op K) (hg : Good t) (hok : okStep t op)
    (ha : t.applyOp op = some t') (k : K) (S S' : Nat) (hS : t.seqCtr ≤ S) (hS' : t'.seqCtr ≤ S') :
    Good t' ∧ t'.getAt k S' = match op.lastWriteOf k with
      | some e => some (live (some e))
      | none => t.getAt k S := by
  obtain ⟨hg', hr⟩ := applyOp_good hg hok ha
  refine ⟨hg', ?_⟩
  rw [good_getAt hg' k S' hS', good_getAt hg k S hS, hr k]
  cases op.lastWriteOf k <;> rfl

/-- the executable side condition implies the propositional one -/
theorem c01_okStepB_sound (t : TreeState K) (op : Op K) (h : okStepB t op = true) : okStep t op :=
  okStepB_sound h

/-! ### Non-vacuity: a concrete guarded run on `K := Nat` (two levels)

`cstream` and `merge2` are defined by well-founded recursion, so the two flush streams and the compaction stream are
computed by `simp`; everything else is evaluated by the kernel. -/
namespace C01Example

def a0 : Entry Nat := ⟨1, 0, .value, [10]⟩
def b1 : Entry Nat := ⟨2, 1, .value, [20]⟩
def d3 : Entry Nat := ⟨1, 3, .tomb, []⟩

def v0 : Version Nat := Version.empty 0 2
def t100 : TableM Nat := ⟨100, 1, 2, [a0, b1], 0⟩
def t101 : TableM Nat := ⟨101, 1, 1, [d3], 0⟩
def t102 : TableM Nat := ⟨102, 2, 2, [b1], 0⟩
def v1 : Version Nat := ⟨1, [[[t100]], []]⟩
def v2 : Version Nat := ⟨2, [[[t101], [t100]], []]⟩
def v3 : Version Nat := ⟨3, [[], [[t102]]]⟩

def s0 : TreeState Nat := TreeState.init 2 none
def s2 : TreeState Nat :=
  { hist := [⟨0, [], v0, 0⟩], mems := [⟨0, [a0, b1]⟩], seqCtr := 2, visible := 2, levelCount := 2 }
def s2r : TreeState Nat :=
  { hist := [⟨1, [0], v0, 0⟩], mems := [⟨0, [a0, b1]⟩, ⟨1, []⟩], seqCtr := 2, visible := 2, levelCount := 2 }
def s3 : TreeState Nat :=
  { hist := [⟨1, [0], v0, 0⟩, ⟨1, [], v1, 2⟩], mems := [⟨0, [a0, b1]⟩, ⟨1, []⟩], seqCtr := 3, visible := 3,
    levelCount := 2 }
def s4 : TreeState Nat := { s3 with mems := [⟨0, [a0, b1]⟩, ⟨1, [d3]⟩], seqCtr := 4, visible := 4 }
def s4r : TreeState Nat :=
  { hist := [⟨1, [0], v0, 0⟩, ⟨2, [1], v1, 2⟩], mems := [⟨0, [a0, b1]⟩, ⟨1, [d3]⟩, ⟨2, []⟩], seqCtr := 4,
    visible := 4, levelCount := 2 }
def s5 : TreeState Nat :=
  { hist := [⟨1, [0], v0, 0⟩, ⟨2, [1], v1, 2⟩, ⟨2, [], v2, 4⟩],
    mems := [⟨0, [a0, b1]⟩, ⟨1, [d3]⟩, ⟨2, []⟩], seqCtr := 5, visible := 5, levelCount := 2 }
def s6 : TreeState Nat :=
  { hist := [⟨2, [], v3, 5⟩], mems := [⟨2, []⟩], seqCtr := 6, visible := 6, levelCount := 2 }
def s7 : TreeState Nat :=
  { hist := [⟨0, [], v3, 0⟩], mems := [⟨0, []⟩], seqCtr := 6, visible := 6, levelCount := 2 }

theorem step12 : s0.run [.write [a0], .write [b1]] = some s2 := rfl
theorem rot2 : s2.rotate 1 = s2r := rfl
theorem rot4 : s4.rotate 2 = s4r := rfl
theorem step4 : s3.applyOp (.write [d3]) = some s4 := rfl

theorem stream2 : s2r.flushStream ⟨1, [0], v0, 0⟩ 0 = ([a0, b1], []) := by
  have hm : mergeAll [[a0, b1]] = [a0, b1] := by simp [mergeAll, merge2]
  show cstream 0 false noFilter (mergeAll [[a0, b1]]) = _
  rw [hm]
  simp [cstream, filterHead, noFilter, a0, b1, Entry.isTomb]

theorem stream4 : s4r.flushStream ⟨2, [1], v1, 2⟩ 0 = ([d3], []) := by
  have hm : mergeAll [[d3]] = [d3] := by simp [mergeAll, merge2]
  show cstream 0 false noFilter (mergeAll [[d3]]) = _
  rw [hm]
  simp [cstream, filterHead, d3, Entry.isTomb]

theorem inputs5 : mergeInputs v2 [100, 101] = [d3, a0, b1] := by
  simp [mergeInputs, v2, Version.runs, t100, t101, mergeAll, merge2, ikLt, a0, b1, d3]

theorem stream5 : cstream 10 true noFilter [d3, a0, b1] = ([b1], [a0]) := by
  simp [cstream, filterHead, noFilter, drainKey, a0, b1, d3, Entry.isTomb]

theorem step3 : s2.applyOp (.flush 0 1 [(100, 2)]) = some s3 := by
  show s2r.flushSealed 0 [(100, 2)] = some s3
  have hl : s2r.latest? = some ⟨1, [0], v0, 0⟩ := rfl
  simp only [TreeState.flushSealed, hl, stream2]
  rfl

theorem step5 : s4.applyOp (.flush 0 2 [(101, 1)]) = some s5 := by
  show s4r.flushSealed 0 [(101, 1)] = some s5
  have hl : s4r.latest? = some ⟨2, [1], v1, 2⟩ := rfl
  simp only [TreeState.flushSealed, hl, stream4]
  rfl

theorem step6 : s5.applyOp (.merge [100, 101] 1 10 noFilter [(102, 1)]) = some s6 := by
  show s5.mergeCommit [100, 101] 1 10 noFilter [(102, 1)] = some s6
  have hl : s5.latest? = some ⟨2, [], v2, 4⟩ := rfl
  have he : (1 + 1 == s5.levelCount) = true := rfl
  simp only [TreeState.mergeCommit, hl, he, inputs5, stream5]
  rfl

theorem step7 : s6.applyOp .reopen = some s7 := rfl

theorem ok3 : okStep s2 (.flush 0 1 [(100, 2)]) := by
  refine ⟨by decide, fun sv hsv => ?_⟩
  rw [rot2] at hsv ⊢
  obtain rfl : sv = ⟨1, [0], v0, 0⟩ := Option.some.inj (hsv.symm.trans (rfl : s2r.latest? = _))
  rw [stream2]
  refine ⟨by decide, by decide, fun ts hts => ?_⟩
  cases hts; rfl

theorem ok5 : okStep s4 (.flush 0 2 [(101, 1)]) := by
  refine ⟨by decide, fun sv hsv => ?_⟩
  rw [rot4] at hsv ⊢
  obtain rfl : sv = ⟨2, [1], v1, 2⟩ := Option.some.inj (hsv.symm.trans (rfl : s4r.latest? = _))
  rw [stream4]
  refine ⟨by decide, by decide, fun ts hts => ?_⟩
  cases hts; rfl

theorem ok6 : okStep s5 (.merge [100, 101] 1 10 noFilter [(102, 1)]) := by
  intro sv hsv
  obtain rfl : sv = ⟨2, [], v2, 4⟩ := Option.some.inj (hsv.symm.trans (rfl : s5.latest? = _))
  have he : (1 + 1 == s5.levelCount) = true := rfl
  rw [he, inputs5, stream5]
  refine ⟨by decide, by decide, fun _ _ _ => rfl, by decide, by decide, fun ts hts => ?_⟩
  cases hts; rfl

/-- write `1 ↦ [10]`, write `2 ↦ [20]`, flush, delete `1`, flush, major compaction of both tables into the last
    level (tombstone evicted, GC watermark 10), reopen: a `Reach` run -/
theorem reach7 : Reach s0
    [.write [a0], .write [b1], .flush 0 1 [(100, 2)], .write [d3], .flush 0 2 [(101, 1)],
      .merge [100, 101] 1 10 noFilter [(102, 1)], .reopen] s7 := by
  refine .step (t' := _) ?_ rfl (.step (t' := s2) ?_ rfl (.step ok3 step3 (.step ?_ step4 (.step ok5 step5
    (.step ok6 step6 (.step ?_ step7 (.refl _)))))))
  · exact ⟨by decide, by decide⟩
  · exact ⟨by decide, by decide⟩
  · exact ⟨by decide, by decide⟩
  · intro sv hsv
    obtain rfl : sv = ⟨2, [], v3, 5⟩ := Option.some.inj (hsv.symm.trans (rfl : s6.latest? = _))
    decide

/-- what C01 says about this run: key 1 is deleted, key 2 reads its value, key 3 was never written -/
example : s7.getAt 1 6 = some none ∧ s7.getAt 2 6 = some (some b1) ∧ s7.getAt 3 6 = some none :=
  ⟨c01_point_read_refines_map 2 _ s7 reach7 1 6 (by decide),
   c01_point_read_refines_map 2 _ s7 reach7 2 6 (by decide),
   c01_point_read_refines_map 2 _ s7 reach7 3 6 (by decide)⟩

/-- the same reads evaluated directly on the model -/
example : s7.getAt 1 6 = some none ∧ s7.getAt 2 6 = some (some b1) ∧ s7.getAt 3 6 = some none := by decide

/-- before the compaction the tombstone shadows the flushed value (`s5`: tables `[d3]` over `[a0, b1]`) -/
example : s5.getAt 1 5 = some none ∧ s5.getAt 2 5 = some (some b1) := by decide


/-! #### admissibility cannot be dropped -/

/-- compacting ONLY the tombstone table `101` of `s5` into the last level (tombstone evicted) while the older table
    `100` with the deleted value stays in L0 is not admissible … -/
example : admissible v2 [101] 1 true = false := by decide

def s6bad : TreeState Nat :=
  { hist := [⟨2, [], ⟨3, [[[t100]], []]⟩, 5⟩], mems := [⟨2, []⟩], seqCtr := 6, visible := 6, levelCount := 2 }

/-- … and indeed the deleted key 1 reappears after it -/
example : s5.applyOp (.merge [101] 1 10 noFilter []) = some s6bad ∧ s6bad.getAt 1 6 = some (some a0) := by
  constructor
  · show s5.mergeCommit [101] 1 10 noFilter [] = some s6bad
    have hl : s5.latest? = some ⟨2, [], v2, 4⟩ := rfl
    have he : (1 + 1 == s5.levelCount) = true := rfl
    have hi : mergeInputs v2 [101] = [d3] := by
      simp [mergeInputs, v2, Version.runs, t100, t101, mergeAll, merge2]
    have hc : cstream 10 true noFilter [d3] = ([], []) := by
      simp [cstream, filterHead, d3, Entry.isTomb]
    simp only [TreeState.mergeCommit, hl, he, hi, hc]
    rfl
  · decide

end C01Example

end Lsm
