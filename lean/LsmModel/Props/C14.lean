import LsmModel.Lemmas.IngestLemmas
/-!
# C14 — bulk ingestion is atomic and ordered like one write

Informal property. The entries of a bulk ingestion (`Ingestion::write` / `write_tombstone` … `finish`,
src/tree/ingest.rs) all become visible TOGETHER to snapshots taken afterwards and take precedence over everything
written before; they are invisible to every snapshot taken earlier; later writes take precedence over them; and the
data that was only in memtables when `finish` was called stays readable.

## Model

`Op.ingest m fcuts items cuts` (LsmModel/Tree/Ops.lean) is `Ingestion::finish`:
1. `rotate_memtable` (fresh memtable id `m`) and `flush(…, 0)` of ALL sealed memtables (`fcuts` = the observed tables
   of that flush; watermark 0; through the index tree's own flush, i.e. `sep := false`) — giving a state `t1`;
2. `TreeState.ingestCommit items cuts` on `t1`: `g := t1.seqCtr` is allocated (`config.seqno.next()`), the items are
   stored with their EFFECTIVE seqno `local + g` in tables carrying global seqno `g` (`cuts` = the observed tables of
   the ingestion writer), and ONE `install … 0` (`upgrade_version_with_seqno`, `maintenance 0`) publishes
   `with_new_l0_run tables` stamped `g`; the counter ends at `g + 1`.
`g` depends on the state: it is `t.seqCtr` when the internal flush had nothing to do and `t.seqCtr + 1` when it
installed a version. All statements name it as the counter of the intermediate state:
`∃ t1, (t.rotate m).flushSealed 0 fcuts false = some t1 ∧ … t1.seqCtr …`.

## Side conditions: `okIngest t m fcuts items cuts` (LsmModel/Lemmas/IngestLemmas.lean)

* `0 < t.levelCount` — the tree has a level 0;
* `(items.map (·.key)).Pairwise (· < ·)` — strictly ascending user keys, the `assert!(key > prev)` of
  `Ingestion::write` / `write_tombstone` (so keys are pairwise distinct);
* every item has local seqno `0` and is a plain value or a (strong) tombstone — what `write` / `write_tombstone`
  produce (`write_weak_tombstone` and `write_indirection` are outside: the invariant `Good` of C01 excludes weak
  tombstones and key-value separation);
* `cutsOk fcuts …` for the internal flush, exactly as `okStep`'s `flush` (fresh pairwise distinct table ids, tables end
  between distinct user keys), evaluated on `t.rotate m`;
* `cutsOk cuts (items stamped with g) v1` for the ingested run, on the version `v1` of the state `t1` the internal
  flush leaves. `cutsOk` is phrased with `cutTables … 0` whereas the ingestion cuts with global seqno `g`; the global
  seqno only lands in the `gseq` field of the tables (`c14_cutTables_gseq`) and does not influence
  `cutsBetweenKeys`, so `cutsOk` is reused unchanged (`c14_newTables_of_cut`).
`items ≠ []` is NOT required (the real `finish` returns early without flushing when nothing was written; the model
then still performs the — unobservable for reads — flush and an install of an unchanged version).

The state the operation is applied to satisfies C01's invariant `Good` (in the closed statements: it is reachable
from `TreeState.init n none` by a `Reach14` run); `Good` includes `blobTh = none` (no key-value separation), under
which `sep := false` and the default `sep := true` of `flushSealed` coincide (`flushSealed_sep_none`).

## Why the internal flush is needed

`ingestCommit_good` requires every memtable of the latest super version to be EMPTY, which the internal
rotate + flush establishes (`c14_rotate_active_empty`, `c14_flushSealed_mems_empty`): after it there is no sealed
memtable and the active one is either the fresh one or the old one that was empty (rotate is a no-op only then).
The ingested entries get seqno `g`, larger than every stored seqno, but they live in a TABLE: a reader visits
memtables first. Had a memtable still held an (older) version of an ingested key, that older version would be
returned — the read order would contradict the seqno order (ORD would break). The last example of this file shows
exactly that on `ingestCommit` applied without the flush.

## Formalisation

* `okStep14` = `okStep` (C01's alphabet) + `ingest` guarded by `okIngest`; `Reach14` = guarded runs.
* `lastWrite14 t₀ ops k` — the last entry written for `k` by the history, where an `ingest` writes its item for `k`
  stamped with the `g` it allocated (the state is threaded with `applyOp` to know `g`); on ingest-free runs it is
  C01's `lastWrite` (`c14_extends_c01`).
* `c14_reads_after_ingest` — C01 generalised: every read at or above the counter returns `live (lastWrite14 …)`.
  Since an ingestion counts as ONE write at its position in the history, this contains: ingested entries win over
  everything before (`c14_ingested_visible_after`), later writes win over them (`c14_later_write_wins`), keys not
  ingested are unaffected, even if their data was only in memtables at `finish` (`c14_memtable_data_stays`).
* `c14_invisible_to_earlier_snapshots` — instance of C02 (any well-formed state): a snapshot `0 < S ≤ t.seqCtr`
  taken before reads (points and scans) exactly the same afterwards. `c14_no_ingested_entry_below`: no read at
  `S ≤ g` can return an entry with seqno `g`.
* `c14_atomic` — no snapshot sees a part of the ingestion: for every `S > 0`, either `S ≤ g` and ALL keys read as
  before the ingestion, or `S ≥ g + 1 = t'.seqCtr` and ALL items are visible. (`S ≤ g` covers the one value
  `t.seqCtr < S = g` that exists when the internal flush installed a version.)
-/
namespace Lsm
variable {K : Type} [LT K] [DecidableLT K] [DecidableEq K] [LE K] [Std.IsLinearOrder K] [Std.LawfulOrderLT K]

/-- **C14, reads.** After any guarded run (C01's alphabet + bulk ingestion) from the empty tree, a point read of any
    key at any snapshot at or above the counter returns the last write of that key, an ingestion counting as one
    write batch stamped with the global seqno it allocated. -/
theorem c14_reads_after_ingest (n : Nat) (ops : List (Op K)) (t : TreeState K)
    (h : Reach14 (TreeState.init n none) ops t) (k : K) (S : Nat) (hS : t.seqCtr ≤ S) :
    t.getAt k S = some (live (lastWrite14 (TreeState.init n none) ops k)) := by
  obtain ⟨hg, hr⟩ := reach14_good h (good_init n)
  rw [good_getAt hg k S hS, hr k, readOf_init]
  cases lastWrite14 (TreeState.init n none) ops k <;> rfl

/-- C01's invariant holds in every state reachable with ingestions -/
theorem c14_good_invariant (n : Nat) (ops : List (Op K)) (t : TreeState K)
    (h : Reach14 (TreeState.init n none) ops t) : Good t :=
  (reach14_good h (good_init n)).1

/-- C14's runs extend C01's: every `Reach` run is a `Reach14` run, with the same write oracle -/
theorem c14_extends_c01 (t t' : TreeState K) (ops : List (Op K)) (h : Reach t ops t') :
    Reach14 t ops t' ∧ ∀ k, lastWrite14 t ops k = lastWrite ops k :=
  ⟨h.to14, lastWrite14_of_reach h⟩

/-- one ingestion on a state satisfying the invariant, at the level of the observable reads (`ingest_getAt`):
    `g := t1.seqCtr`; snapshots `≥ g + 1` read the ingested entry for ingested keys and the old answer otherwise;
    positive snapshots `≤ g` read the old answer for all keys -/
theorem c14_step (t t' : TreeState K) (m : Nat) (fcuts cuts : List (Nat × Nat)) (items : List (Entry K))
    (hg : Good t) (hok : okIngest t m fcuts items cuts) (ha : t.applyOp (.ingest m fcuts items cuts) = some t') :
    Good t' ∧ ∃ t1, (t.rotate m).flushSealed 0 fcuts false = some t1 ∧ t'.seqCtr = t1.seqCtr + 1 ∧
      (t1.seqCtr = t.seqCtr ∨ t1.seqCtr = t.seqCtr + 1) ∧
      (∀ k S S', t.seqCtr ≤ S → t'.seqCtr ≤ S' → t'.getAt k S' = match batchGet items k with
        | some it => some (live (some { it with seqno := t1.seqCtr }))
        | none => t.getAt k S) ∧
      (∀ S, 0 < S → S ≤ t1.seqCtr → ∀ k, t'.getAt k S = t.getAt k S) :=
  ingest_getAt hg ha hok

/-- **visible together, and over everything written before.** Right after an ingestion on a reachable state, every
    snapshot at or above the new counter reads, for EVERY item, exactly the ingested entry (stamped with the
    allocated global seqno `g = t1.seqCtr`; `live`: an ingested tombstone reads as absent) — whatever the history
    `ops` wrote for that key before. -/
theorem c14_ingested_visible_after (n : Nat) (ops : List (Op K)) (t t' : TreeState K)
    (m : Nat) (fcuts cuts : List (Nat × Nat)) (items : List (Entry K))
    (hr : Reach14 (TreeState.init n none) ops t) (hok : okIngest t m fcuts items cuts)
    (ha : t.applyOp (.ingest m fcuts items cuts) = some t') :
    ∃ t1, (t.rotate m).flushSealed 0 fcuts false = some t1 ∧ t'.seqCtr = t1.seqCtr + 1 ∧
      ∀ it ∈ items, ∀ S, t'.seqCtr ≤ S →
        t'.getAt it.key S = some (live (some { it with seqno := t1.seqCtr })) := by
  obtain ⟨_, t1, hf, hc, _, hrd, _⟩ := ingest_getAt (c14_good_invariant n ops t hr) ha hok
  refine ⟨t1, hf, hc, fun it hit S hS => ?_⟩
  rw [hrd it.key t.seqCtr S (Nat.le_refl _) hS, c14_batchGet_mem (c14_keys_nodup hok.2.1) hit]

/-- **later writes take precedence.** Continue the run after the ingestion by any guarded history `ops2`. A key
    written again by `ops2` (a write batch or a later ingestion: `lastWrite14 t' ops2 k = some e`) reads that later
    entry, even if the ingestion held an item for it; an ingested key NOT written again keeps reading the ingested
    entry; any other key reads what the history before the ingestion wrote (`Option.or`: first `some` wins). -/
theorem c14_later_write_wins (n : Nat) (ops1 ops2 : List (Op K)) (t t' t2 : TreeState K)
    (m : Nat) (fcuts cuts : List (Nat × Nat)) (items : List (Entry K))
    (hr : Reach14 (TreeState.init n none) ops1 t) (hok : okIngest t m fcuts items cuts)
    (ha : t.applyOp (.ingest m fcuts items cuts) = some t') (h2 : Reach14 t' ops2 t2)
    (k : K) (S : Nat) (hS : t2.seqCtr ≤ S) :
    ∃ t1, (t.rotate m).flushSealed 0 fcuts false = some t1 ∧
      t2.getAt k S = some (live ((lastWrite14 t' ops2 k).or
        (((batchGet items k).map (fun it => { it with seqno := t1.seqCtr })).or
          (lastWrite14 (TreeState.init n none) ops1 k)))) := by
  obtain ⟨t1, hf, _⟩ := (c14_ingest_split ha).2
  refine ⟨t1, hf, ?_⟩
  have hall : Reach14 (TreeState.init n none) (ops1 ++ (.ingest m fcuts items cuts :: ops2)) t2 :=
    hr.append (.step hok ha h2)
  rw [c14_reads_after_ingest n _ t2 hall k S hS, lastWrite14_append hr.run, lastWrite14_cons ha]
  simp only [Op.lastWriteOf14, hf]
  cases lastWrite14 t' ops2 k with
  | some e => rfl
  | none =>
    cases batchGet items k <;> rfl

/-- later writes take precedence, plainly: a key written again after the ingestion reads the later entry, whether or
    not the ingestion held an item for it -/
theorem c14_later_write_precedence (n : Nat) (ops1 ops2 : List (Op K)) (t t' t2 : TreeState K)
    (m : Nat) (fcuts cuts : List (Nat × Nat)) (items : List (Entry K))
    (hr : Reach14 (TreeState.init n none) ops1 t) (hok : okIngest t m fcuts items cuts)
    (ha : t.applyOp (.ingest m fcuts items cuts) = some t') (h2 : Reach14 t' ops2 t2)
    (k : K) (e : Entry K) (hw : lastWrite14 t' ops2 k = some e) (S : Nat) (hS : t2.seqCtr ≤ S) :
    t2.getAt k S = some (live (some e)) := by
  obtain ⟨t1, _, h⟩ := c14_later_write_wins n ops1 ops2 t t' t2 m fcuts cuts items hr hok ha h2 k S hS
  rw [h, hw]
  rfl

/-- … and an ingested key that is not written again keeps reading the ingested entry, through all later rotations,
    flushes, compactions, moves, reopens-after-flush and writes / ingestions of other keys -/
theorem c14_ingested_until_overwritten (n : Nat) (ops1 ops2 : List (Op K)) (t t' t2 : TreeState K)
    (m : Nat) (fcuts cuts : List (Nat × Nat)) (items : List (Entry K))
    (hr : Reach14 (TreeState.init n none) ops1 t) (hok : okIngest t m fcuts items cuts)
    (ha : t.applyOp (.ingest m fcuts items cuts) = some t') (h2 : Reach14 t' ops2 t2)
    (it : Entry K) (hit : it ∈ items) (hw : lastWrite14 t' ops2 it.key = none) (S : Nat) (hS : t2.seqCtr ≤ S) :
    ∃ t1, (t.rotate m).flushSealed 0 fcuts false = some t1 ∧
      t2.getAt it.key S = some (live (some { it with seqno := t1.seqCtr })) := by
  obtain ⟨t1, hf, h⟩ := c14_later_write_wins n ops1 ops2 t t' t2 m fcuts cuts items hr hok ha h2 it.key S hS
  refine ⟨t1, hf, ?_⟩
  rw [h, hw, c14_batchGet_mem (c14_keys_nodup hok.2.1) hit]
  rfl

/-- **memtable data present at `finish` stays readable.** A key that is not ingested reads after the ingestion
    exactly what it read before — the last write of the preceding history — wherever that entry was stored when
    `finish` ran (active memtable, sealed memtables — both are flushed by the ingestion — or tables). -/
theorem c14_memtable_data_stays (n : Nat) (ops : List (Op K)) (t t' : TreeState K)
    (m : Nat) (fcuts cuts : List (Nat × Nat)) (items : List (Entry K))
    (hr : Reach14 (TreeState.init n none) ops t) (hok : okIngest t m fcuts items cuts)
    (ha : t.applyOp (.ingest m fcuts items cuts) = some t')
    (k : K) (hk : ∀ it ∈ items, it.key ≠ k) (S S' : Nat) (hS : t.seqCtr ≤ S) (hS' : t'.seqCtr ≤ S') :
    t'.getAt k S' = t.getAt k S ∧
    t'.getAt k S' = some (live (lastWrite14 (TreeState.init n none) ops k)) := by
  obtain ⟨_, t1, hf, hc, _, hrd, _⟩ := ingest_getAt (c14_good_invariant n ops t hr) ha hok
  have h1 : t'.getAt k S' = t.getAt k S := by
    rw [hrd k S S' hS hS', c14_batchGet_of_not_mem hk]
  exact ⟨h1, by rw [h1, c14_reads_after_ingest n ops t hr k S hS]⟩

/-- **invisible to earlier snapshots** (instance of C02; no invariant beyond `WF`, no side condition on the
    ingestion): a snapshot `0 < S ≤ t.seqCtr` taken before the ingestion reads — point reads of all keys and all
    scans — exactly the same after it. -/
theorem c14_invisible_to_earlier_snapshots (t t' : TreeState K) (m : Nat) (fcuts cuts : List (Nat × Nat))
    (items : List (Entry K)) (hwf : t.WF) (ha : t.applyOp (.ingest m fcuts items cuts) = some t')
    (S : Nat) (hS0 : 0 < S) (hS : S ≤ t.seqCtr) :
    (∀ k, t'.getAt k S = t.getAt k S) ∧
    (∀ lo hi w overlay, t'.scanAt S lo hi w overlay = t.scanAt S lo hi w overlay) :=
  ⟨applyOp_getAt_stable t t' _ hwf ha rfl S hS0 hS (Nat.zero_le _),
   applyOp_scanAt_stable t t' _ hwf ha rfl S hS0 hS (Nat.zero_le _)⟩

/-- no read at a snapshot `S ≤ g` returns an entry with seqno `g` — the seqno every ingested entry carries — on any
    state and for any accepted ingestion: what a point read returns is visible at its snapshot -/
theorem c14_no_ingested_entry_below (t t' : TreeState K) (m : Nat) (fcuts cuts : List (Nat × Nat))
    (items : List (Entry K)) (ha : t.applyOp (.ingest m fcuts items cuts) = some t') :
    ∃ t1, (t.rotate m).flushSealed 0 fcuts false = some t1 ∧
      ∀ k S e, S ≤ t1.seqCtr → t'.getAt k S = some (some e) → e.key = k ∧ e.seqno < t1.seqCtr := by
  obtain ⟨t1, hf, _⟩ := (c14_ingest_split ha).2
  refine ⟨t1, hf, fun k S e hS hget => ?_⟩
  obtain ⟨h1, h2⟩ := c14_getAt_visible t' k S e hget
  exact ⟨h1, by omega⟩

/-- **atomicity.** There is no snapshot that sees some but not all of the ingested entries: the ingestion becomes
    visible by ONE install that moves the counter from `g` to `g + 1`. For every positive `S`: either `S ≤ g` and
    every key reads exactly what it read before the ingestion (no ingested entry is visible), or `S ≥ g + 1`
    (`= t'.seqCtr`) and every item is visible. -/
theorem c14_atomic (t t' : TreeState K) (m : Nat) (fcuts cuts : List (Nat × Nat)) (items : List (Entry K))
    (hg : Good t) (hok : okIngest t m fcuts items cuts) (ha : t.applyOp (.ingest m fcuts items cuts) = some t') :
    ∃ t1, (t.rotate m).flushSealed 0 fcuts false = some t1 ∧ t'.seqCtr = t1.seqCtr + 1 ∧
      ∀ S, 0 < S →
        (S ≤ t1.seqCtr ∧ ∀ k, t'.getAt k S = t.getAt k S) ∨
        (t'.seqCtr ≤ S ∧ ∀ it ∈ items, t'.getAt it.key S = some (live (some { it with seqno := t1.seqCtr }))) := by
  obtain ⟨_, t1, hf, hc, _, hrd, hbelow⟩ := ingest_getAt hg ha hok
  refine ⟨t1, hf, hc, fun S hS0 => ?_⟩
  by_cases hle : S ≤ t1.seqCtr
  · exact Or.inl ⟨hle, hbelow S hS0 hle⟩
  · right
    have hS : t'.seqCtr ≤ S := by omega
    refine ⟨hS, fun it hit => ?_⟩
    rw [hrd it.key t.seqCtr S (Nat.le_refl _) hS, c14_batchGet_mem (c14_keys_nodup hok.2.1) hit]

/-! ### Non-vacuity: a concrete run on `K := Nat` (two levels)

write the batch `1 ↦ [10], 4 ↦ [40]` (seqno 0); write `2 ↦ [20]` (seqno 1); ingest `1 ↦ [11], 3 ↦ [30], delete 4`
(internal flush: one table `100`, installs at seqno 2; `g = 3`; two ingested tables `101`, `102`; counter 4); then
write `1 ↦ [12]` (seqno 4). The flush stream is computed by `simp` (`cstream` / `merge2` are well-founded
recursions), everything else is evaluated by the kernel. -/
namespace C14Example

def a0 : Entry Nat := ⟨1, 0, .value, [10]⟩
def d0 : Entry Nat := ⟨4, 0, .value, [40]⟩
def b1 : Entry Nat := ⟨2, 1, .value, [20]⟩
def c4 : Entry Nat := ⟨1, 4, .value, [12]⟩

/-- the ingested items as `Ingestion::write` / `write_tombstone` produce them (local seqno 0) -/
def items : List (Entry Nat) := [⟨1, 0, .value, [11]⟩, ⟨3, 0, .value, [30]⟩, ⟨4, 0, .tomb, []⟩]
/-- … and as stored, stamped with `g = 3` -/
def i1 : Entry Nat := ⟨1, 3, .value, [11]⟩
def i3 : Entry Nat := ⟨3, 3, .value, [30]⟩
def i4 : Entry Nat := ⟨4, 3, .tomb, []⟩

def v0 : Version Nat := Version.empty 0 2
def t100 : TableM Nat := ⟨100, 1, 4, [a0, b1, d0], 0⟩
def t101 : TableM Nat := ⟨101, 1, 3, [i1, i3], 3⟩
def t102 : TableM Nat := ⟨102, 4, 4, [i4], 3⟩
def v1 : Version Nat := ⟨1, [[[t100]], []]⟩
def v2 : Version Nat := ⟨2, [[[t101, t102], [t100]], []]⟩

def s0 : TreeState Nat := TreeState.init 2 none
def s2 : TreeState Nat :=
  { hist := [⟨0, [], v0, 0⟩], mems := [⟨0, [a0, b1, d0]⟩], seqCtr := 2, visible := 2, levelCount := 2 }
def s2r : TreeState Nat :=
  { hist := [⟨1, [0], v0, 0⟩], mems := [⟨0, [a0, b1, d0]⟩, ⟨1, []⟩], seqCtr := 2, visible := 2, levelCount := 2 }
/-- after the internal flush (`t1`) -/
def s3 : TreeState Nat :=
  { hist := [⟨1, [0], v0, 0⟩, ⟨1, [], v1, 2⟩], mems := [⟨0, [a0, b1, d0]⟩, ⟨1, []⟩], seqCtr := 3, visible := 3,
    levelCount := 2 }
/-- after the ingestion -/
def s4 : TreeState Nat :=
  { hist := [⟨1, [0], v0, 0⟩, ⟨1, [], v1, 2⟩, ⟨1, [], v2, 3⟩], mems := [⟨0, [a0, b1, d0]⟩, ⟨1, []⟩], seqCtr := 4,
    visible := 4, levelCount := 2 }
/-- after the later write -/
def s5 : TreeState Nat := { s4 with mems := [⟨0, [a0, b1, d0]⟩, ⟨1, [c4]⟩], seqCtr := 5, visible := 5 }

abbrev ing : Op Nat := .ingest 1 [(100, 3)] items [(101, 2), (102, 1)]

theorem step12 : s0.run [.write [a0, d0], .write [b1]] = some s2 := rfl
theorem rot2 : s2.rotate 1 = s2r := rfl

theorem stream2 : s2r.flushStream ⟨1, [0], v0, 0⟩ 0 = ([a0, b1, d0], []) := by
  have hm : mergeAll [[a0, b1, d0]] = [a0, b1, d0] := by simp [mergeAll, merge2]
  show cstream 0 false noFilter (mergeAll [[a0, b1, d0]]) = _
  rw [hm]
  simp [cstream, filterHead, noFilter, a0, b1, d0, Entry.isTomb]

theorem flush2 : s2r.flushSealed 0 [(100, 3)] false = some s3 := by
  have hl : s2r.latest? = some ⟨1, [0], v0, 0⟩ := rfl
  simp only [TreeState.flushSealed, hl, stream2]
  rfl

theorem commit3 : s3.ingestCommit items [(101, 2), (102, 1)] = some s4 := rfl

theorem step3 : s2.applyOp ing = some s4 := by
  have hf : s2.freshMem 1 = true := rfl
  simp only [TreeState.applyOp, hf, if_true, rot2, flush2]
  rfl

theorem step4 : s4.applyOp (.write [c4]) = some s5 := rfl

theorem ok3 : okIngest s2 1 [(100, 3)] items [(101, 2), (102, 1)] := by
  refine ⟨by decide, by decide, by decide, fun sv hsv => ?_, fun t1 sv1 hf hl1 => ?_⟩
  · rw [rot2] at hsv ⊢
    obtain rfl : sv = ⟨1, [0], v0, 0⟩ := Option.some.inj (hsv.symm.trans (rfl : s2r.latest? = _))
    rw [stream2]
    refine ⟨by decide, by decide, fun ts hts => ?_⟩
    cases hts; rfl
  · rw [rot2, flush2] at hf
    cases hf
    obtain rfl : sv1 = ⟨1, [], v1, 2⟩ := Option.some.inj (hl1.symm.trans (rfl : s3.latest? = _))
    refine ⟨by decide, by decide, fun ts hts => ?_⟩
    cases hts; rfl

/-- the run up to the ingestion -/
theorem reach2 : Reach14 s0 [.write [a0, d0], .write [b1]] s2 := by
  refine .step (t' := _) ?_ rfl (.step (t' := s2) ?_ rfl (.refl _))
  · exact ⟨by decide, by decide⟩
  · exact ⟨by decide, by decide⟩

/-- the later write -/
theorem reach45 : Reach14 s4 [.write [c4]] s5 := by
  refine .step ?_ step4 (.refl _)
  exact ⟨by decide, by decide⟩

/-- the whole run: two writes, the ingestion, a later write over the ingested key 1 -/
theorem reach5 : Reach14 s0 [.write [a0, d0], .write [b1], ing, .write [c4]] s5 :=
  reach2.append (.step ok3 step3 reach45)

/-- the write oracle of the run, key by key: the later write for 1, the old write for 2, the ingested entries
    (stamped `g = 3`) for 3 and 4, nothing for 5 -/
theorem oracle5 :
    lastWrite14 s0 [.write [a0, d0], .write [b1], ing, .write [c4]] 1 = some c4 ∧
    lastWrite14 s0 [.write [a0, d0], .write [b1], ing, .write [c4]] 2 = some b1 ∧
    lastWrite14 s0 [.write [a0, d0], .write [b1], ing, .write [c4]] 3 = some i3 ∧
    lastWrite14 s0 [.write [a0, d0], .write [b1], ing, .write [c4]] 4 = some i4 ∧
    lastWrite14 s0 [.write [a0, d0], .write [b1], ing, .write [c4]] 5 = none := by
  have e1 : s0.applyOp (.write [a0, d0]) = some ⟨[⟨0, [], v0, 0⟩], [⟨0, [a0, d0]⟩], 1, 1, 2, none⟩ := rfl
  have e2 : (⟨[⟨0, [], v0, 0⟩], [⟨0, [a0, d0]⟩], 1, 1, 2, none⟩ : TreeState Nat).applyOp (.write [b1]) = some s2 := rfl
  simp only [lastWrite14_cons e1, lastWrite14_cons e2, lastWrite14_cons step3, lastWrite14_cons step4,
    lastWrite14_nil, Op.lastWriteOf14, rot2, flush2]
  decide

/-- what `c14_reads_after_ingest` says about this run (snapshot 5 = the final counter): key 1 reads the LATER write,
    key 2 the value that was only in the memtable at `finish`, key 3 the ingested value, key 4 is deleted by the
    ingested tombstone (it had the value `[40]` before), key 5 was never written -/
example : s5.getAt 1 5 = some (some c4) ∧ s5.getAt 2 5 = some (some b1) ∧ s5.getAt 3 5 = some (some i3) ∧
    s5.getAt 4 5 = some none ∧ s5.getAt 5 5 = some none := by
  have h : ∀ k S, s5.seqCtr ≤ S → s5.getAt k S =
      some (live (lastWrite14 s0 [.write [a0, d0], .write [b1], ing, .write [c4]] k)) :=
    c14_reads_after_ingest 2 _ s5 reach5
  obtain ⟨o1, o2, o3, o4, o5⟩ := oracle5
  refine ⟨?_, ?_, ?_, ?_, ?_⟩
  · rw [h 1 5 (by decide), o1]; rfl
  · rw [h 2 5 (by decide), o2]; rfl
  · rw [h 3 5 (by decide), o3]; rfl
  · rw [h 4 5 (by decide), o4]; rfl
  · rw [h 5 5 (by decide), o5]; rfl

/-- the same reads evaluated directly on the model -/
example : s5.getAt 1 5 = some (some c4) ∧ s5.getAt 2 5 = some (some b1) ∧ s5.getAt 3 5 = some (some i3) ∧
    s5.getAt 4 5 = some none ∧ s5.getAt 5 5 = some none := by decide

/-- `c14_ingested_visible_after` on this run: right after the ingestion every item is visible, stamped `g = 3`, at
    every snapshot `≥ 4` … -/
example : ∀ it ∈ items, ∀ S, 4 ≤ S → s4.getAt it.key S = some (live (some { it with seqno := 3 })) := by
  obtain ⟨t1, hf, _, hv⟩ := c14_ingested_visible_after 2 _ s2 s4 1 [(100, 3)] [(101, 2), (102, 1)] items reach2 ok3 step3
  rw [rot2, flush2] at hf
  cases hf
  exact hv

/-- … evaluated: the ingested value wins over the older write of key 1, key 3 is new, key 4 is deleted; key 2 —
    only in the memtable when `finish` ran — still reads its value (`c14_memtable_data_stays`) -/
example : s4.getAt 1 4 = some (some i1) ∧ s4.getAt 3 4 = some (some i3) ∧ s4.getAt 4 4 = some none ∧
    s4.getAt 2 4 = some (some b1) := by decide

example : s4.getAt 2 4 = s2.getAt 2 2 :=
  (c14_memtable_data_stays 2 _ s2 s4 1 [(100, 3)] [(101, 2), (102, 1)] items reach2 ok3 step3 2 (by decide) 2 4
    (by decide) (by decide)).1

/-- `c14_later_write_wins` on this run (`ops2 = [write 1 ↦ [12]]`) -/
example (k : Nat) : ∃ t1, (s2.rotate 1).flushSealed 0 [(100, 3)] false = some t1 ∧
    s5.getAt k 5 = some (live ((lastWrite14 s4 [.write [c4]] k).or
      (((batchGet items k).map (fun it => { it with seqno := t1.seqCtr })).or
        (lastWrite14 (TreeState.init 2 none) [.write [a0, d0], .write [b1]] k)))) :=
  c14_later_write_wins 2 _ _ s2 s4 s5 1 [(100, 3)] [(101, 2), (102, 1)] items reach2 ok3 step3
    reach45 k 5 (by decide)

/-- … for key 1 (ingested AND written later) the later write wins; key 3 (ingested, not written again) keeps the
    ingested entry -/
example : s5.getAt 1 5 = some (live (some c4)) :=
  c14_later_write_precedence 2 _ _ s2 s4 s5 1 [(100, 3)] [(101, 2), (102, 1)] items reach2 ok3 step3 reach45 1 c4
    (by simp only [lastWrite14_cons step4, lastWrite14_nil]; rfl) 5 (by decide)

example : s5.getAt 3 5 = some (some i3) := by
  obtain ⟨t1, hf, h⟩ := c14_ingested_until_overwritten 2 _ _ s2 s4 s5 1 [(100, 3)] [(101, 2), (102, 1)] items reach2
    ok3 step3 reach45 ⟨3, 0, .value, [30]⟩ (by decide)
    (by simp only [lastWrite14_cons step4, lastWrite14_nil]; rfl) 5 (by decide)
  rw [rot2, flush2] at hf
  cases hf
  exact h

/-- `c14_atomic` / `c14_invisible_to_earlier_snapshots` on this run: snapshots 1, 2 (taken before) and 3 (`= g`, the
    value between the old counter and `g` created by the internal flush) read the OLD state for every key, snapshot 4
    reads all three items -/
example : ∀ S, 0 < S → (S ≤ 3 ∧ ∀ k, s4.getAt k S = s2.getAt k S) ∨
    (4 ≤ S ∧ ∀ it ∈ items, s4.getAt it.key S = some (live (some { it with seqno := 3 }))) := by
  obtain ⟨t1, hf, _, hv⟩ := c14_atomic s2 s4 1 [(100, 3)] [(101, 2), (102, 1)] items
    (c14_good_invariant 2 _ s2 reach2) ok3 step3
  rw [rot2, flush2] at hf
  cases hf
  exact hv

example : (s4.getAt 1 3, s4.getAt 3 3, s4.getAt 4 3) = (some (some a0), some none, some (some d0)) ∧
    (s4.getAt 1 2, s4.getAt 2 2, s4.getAt 2 1) = (some (some a0), some (some b1), some none) := by decide

/-! #### the internal flush cannot be dropped -/

/-- `ingestCommit` applied directly to `s2` (memtable `[a0, b1, d0]` NOT flushed; `g = 2`): the ingested entries
    carry the largest seqno, yet the memtable is read first — the OLD value of key 1 shadows the ingested one and the
    ingested tombstone of key 4 does not delete; only the new key 3 is visible. The ingestion would be neither ordered
    after the earlier writes nor atomic. -/
example : ∃ t, s2.ingestCommit items [(101, 2), (102, 1)] = some t ∧ t.seqCtr = 3 ∧
    t.getAt 1 3 = some (some a0) ∧ t.getAt 4 3 = some (some d0) ∧ t.getAt 3 3 = some (some ⟨3, 2, .value, [30]⟩) :=
  ⟨_, rfl, rfl, by decide, by decide, by decide⟩

end C14Example

end Lsm
