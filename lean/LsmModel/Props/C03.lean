import LsmModel.Lemmas.PrefixLemmas
import LsmModel.Lemmas.ScanLemmas
/-!
# C03 — range and prefix scans, from both ends

"For every snapshot and every pair of range bounds (inclusive, exclusive or unbounded on either side, including
empty and inverted ranges), a scan yields exactly the live key-value pairs inside the bounds, each once, in
ascending order from the front and descending order from the back, for any interleaving of next and next_back.
prefix(p) equals the scan restricted to keys starting with p."

Model: `TreeState.scanAt` (sources of the super version chosen for the snapshot, each restricted to the bounds and
the snapshot; k-way merge; `MvccStream`; `.filter(!tombstone)`), driven by a word `w : List Dir` of `next` (`F`) and
`next_back` (`B`) calls. `bothEnds l w` is the reference: consume the list `l` from both ends, `none` once exhausted.

Hypotheses of the scan theorems: the snapshot resolves to a super version; every (restricted) source is sorted by
internal key (`IsSource`, invariant SORT / RUN); no two sources hold an entry with the same `(key, seqno)`
(`DistinctAcross`, a consequence of ORD). The overlay memtable of a transaction is an optional extra source with its
own snapshot.
-/
namespace Lsm

section
variable {K : Type} [LT K] [DecidableLT K] [DecidableEq K]
variable [LE K] [Std.IsLinearOrder K] [Std.LawfulOrderLT K]

/-! ### the scan as a double-ended iterator -/

/-- Any word of `next` / `next_back` calls consumes one fixed list — `liveList` of the merged sources — from both
    ends. -/
theorem c03_scan_both_ends (t : TreeState K) (S : Nat) (lo hi : Bound K) (w : List Dir)
    (overlay : Option (List (Entry K) × Nat)) (sv : SuperVersion K)
    (hv : getVersionForSnapshot t.hist S = some sv)
    (hs : ∀ s ∈ t.scanSources sv lo hi S overlay, IsSource s)
    (hd : DistinctAcross (t.scanSources sv lo hi S overlay)) :
    t.scanAt S lo hi w overlay =
      some (bothEnds (liveList (mergeAll (t.scanSources sv lo hi S overlay))) w) :=
  (scanAt_spec t S lo hi w overlay sv hv hs hd).1

/-- That list is strictly ascending by user key: no key and no entry occurs twice. -/
theorem c03_scan_sorted_unique (t : TreeState K) (S : Nat) (lo hi : Bound K)
    (overlay : Option (List (Entry K) × Nat)) (sv : SuperVersion K)
    (hs : ∀ s ∈ t.scanSources sv lo hi S overlay, IsSource s)
    (hd : DistinctAcross (t.scanSources sv lo hi S overlay)) :
    (liveList (mergeAll (t.scanSources sv lo hi S overlay))).Pairwise (fun a b => a.key < b.key) ∧
    (liveList (mergeAll (t.scanSources sv lo hi S overlay))).Nodup ∧
    ((liveList (mergeAll (t.scanSources sv lo hi S overlay))).map (·.key)).Nodup :=
  have h := liveList_keys_lt (mergeAll_source hs hd)
  ⟨h, keys_lt_nodup h, keys_lt_keys_nodup h⟩

/-- Exactly the live pairs inside the bounds: an entry is in the list iff its key is inside the bounds, some source
    offers it at the snapshot (`scanCandidate`), no candidate of the same key is newer, and it is not a tombstone. -/
theorem c03_scan_exact (t : TreeState K) (S : Nat) (lo hi : Bound K)
    (overlay : Option (List (Entry K) × Nat)) (sv : SuperVersion K)
    (hs : ∀ s ∈ t.scanSources sv lo hi S overlay, IsSource s)
    (hd : DistinctAcross (t.scanSources sv lo hi S overlay)) (e : Entry K) :
    e ∈ liveList (mergeAll (t.scanSources sv lo hi S overlay)) ↔
      (inBounds lo hi e.key = true ∧ t.scanCandidate sv S overlay e ∧
        (∀ x, t.scanCandidate sv S overlay x → x.key = e.key → x.seqno ≤ e.seqno) ∧ e.isTomb = false) :=
  mem_scan_iff t S lo hi overlay sv hs hd e

/-- Per key: what the scan shows for `k` is the newest version of `k` over all sources (`maxVersion`), unless that
    is a tombstone; `maxVersion` is a member of a source and dominates every version of `k` in every source. -/
theorem c03_scan_per_key (t : TreeState K) (S : Nat) (lo hi : Bound K)
    (overlay : Option (List (Entry K) × Nat)) (sv : SuperVersion K)
    (hs : ∀ s ∈ t.scanSources sv lo hi S overlay, IsSource s)
    (hd : DistinctAcross (t.scanSources sv lo hi S overlay)) (k : K) :
    (liveList (mergeAll (t.scanSources sv lo hi S overlay))).find? (fun e => decide (e.key = k)) =
        live (maxVersion (t.scanSources sv lo hi S overlay) k) ∧
    (∀ e, maxVersion (t.scanSources sv lo hi S overlay) k = some e ↔
        ((∃ s ∈ t.scanSources sv lo hi S overlay, e ∈ s) ∧ e.key = k ∧
          ∀ s ∈ t.scanSources sv lo hi S overlay, ∀ x ∈ s, x.key = k → x.seqno ≤ e.seqno)) ∧
    (maxVersion (t.scanSources sv lo hi S overlay) k = none ↔
        ∀ s ∈ t.scanSources sv lo hi S overlay, ∀ x ∈ s, x.key ≠ k) :=
  ⟨liveList_mergeAll_find? hs hd k, fun _ => maxVersion_eq_some_iff hs hd, maxVersion_eq_none_iff _ k⟩

/-- Bounds only restrict: the list of a bounded scan is the list of the unbounded scan filtered by the bounds
    (inclusive, exclusive, unbounded, empty or inverted alike). -/
theorem c03_scan_within_bounds (t : TreeState K) (S : Nat) (lo hi : Bound K)
    (overlay : Option (List (Entry K) × Nat)) (sv : SuperVersion K)
    (hraw : ∀ r ∈ t.rawSources sv, IsSource r) (hov : ∀ l s, overlay = some (l, s) → IsSource l)
    (hd : DistinctAcross (t.rawSources sv ++ overlaySource overlay)) :
    liveList (mergeAll (t.scanSources sv lo hi S overlay)) =
      (liveList (mergeAll (t.scanSources sv .unb .unb S overlay))).filter (fun e => inBounds lo hi e.key) :=
  scan_bounds_filter t S lo hi overlay sv hraw hov hd

/-! ### what consuming a list from both ends means -/

/-- Closed form of the `i`-th answer: after `f` calls of `next` and `b` calls of `next_back` (`f + b = i`), `next`
    returns `l[f]`, `next_back` returns `l[|l| - 1 - b]`, and from the `|l|`-th call on the answer is `none`. -/
theorem c03_both_ends_closed_form {α : Type} (l : List α) (w : List Dir) (i : Nat) (d : Dir)
    (hd : w[i]? = some d) :
    (bothEnds l w)[i]? = some (if i < l.length then
        (match d with
         | .F => l[(w.take i).count .F]?
         | .B => l[l.length - 1 - (w.take i).count .B]?)
      else none) :=
  bothEnds_getElem? l w i d hd

/-- The answers to the `next` calls, in call order, are a prefix of the list: ascending from the front. -/
theorem c03_both_ends_front {α : Type} (l : List α) (w : List Dir) :
    answersOf .F (bothEnds l w) w <+: l :=
  bothEnds_front_prefix l w

/-- The answers to the `next_back` calls, in call order, are a prefix of the reversed list: descending from the
    back. -/
theorem c03_both_ends_back {α : Type} (l : List α) (w : List Dir) :
    answersOf .B (bothEnds l w) w <+: l.reverse :=
  bothEnds_back_prefix l w

/-- The two ends never cross: front answers, an untouched middle and the reversed back answers make up the list;
    the middle is empty once there were at least `|l|` calls. -/
theorem c03_both_ends_split {α : Type} (l : List α) (w : List Dir) :
    ∃ mid, l = answersOf .F (bothEnds l w) w ++ mid ++ (answersOf .B (bothEnds l w) w).reverse ∧
      (l.length ≤ w.length → mid = []) :=
  bothEnds_split l w

/-- Each once: every answer is a member of the list, and no element is returned twice. -/
theorem c03_both_ends_each_once {α : Type} (l : List α) (w : List Dir) (hnd : l.Nodup) :
    (∀ a, some a ∈ bothEnds l w → a ∈ l) ∧ ((bothEnds l w).filterMap id).Nodup :=
  ⟨bothEnds_mem l w, bothEnds_nodup l w hnd⟩

/-- With at least `|l|` calls, every element has been returned exactly once. -/
theorem c03_both_ends_exhaust {α : Type} (l : List α) (w : List Dir) (hlen : l.length ≤ w.length) :
    ((bothEnds l w).filterMap id).Perm l :=
  bothEnds_exhaust l w hlen

/-- `none` exactly from the `|l|`-th call on; once `none`, always `none`. -/
theorem c03_both_ends_none_forever {α : Type} (l : List α) (w : List Dir) (i : Nat) (hi : i < w.length) :
    ((bothEnds l w)[i]? = some none ↔ l.length ≤ i) ∧
    ((bothEnds l w)[i]? = some none → ∀ j, i ≤ j → j < w.length → (bothEnds l w)[j]? = some none) :=
  ⟨bothEnds_none_iff l w i hi, fun h j hij hj => bothEnds_none_stays l w i j hij hj h⟩

/-! ### empty and inverted bounds -/

/-- Bounds no key satisfies: the scan is empty from either end, for every snapshot and every word. -/
theorem c03_empty_or_inverted_bounds (t : TreeState K) (S : Nat) (lo hi : Bound K) (w : List Dir)
    (overlay : Option (List (Entry K) × Nat)) (h : ∀ k, inBounds lo hi k = false) :
    t.scanAt S lo hi w overlay = (getVersionForSnapshot t.hist S).map (fun _ => w.map (fun _ => none)) :=
  scan_inverted_empty t S lo hi w overlay h

/-- In particular inverted ranges (upper end below the lower end — the `is_empty` flag of
    `range_bounds_to_owned_bounds`) and ranges meeting in an excluded point (`[a, a)`, `(a, a]`, `(a, a)`). -/
theorem c03_inverted_bounds_no_key (lo hi : Bound K) :
    (boundsInverted lo hi = true → boundsEmpty lo hi) ∧ (boundsEmpty lo hi → ∀ k, inBounds lo hi k = false) :=
  ⟨boundsEmpty_of_inverted, fun h k => boundsEmpty_no_key h k⟩

/-! ### the overlay memtable -/

/-- The overlay is one more source: an overlay entry inside the bounds, visible at the overlay's snapshot and at
    least as new as every other candidate of its key is what the scan shows for that key; if it is a tombstone the
    key is hidden. -/
theorem c03_overlay_shadows (t : TreeState K) (S : Nat) (lo hi : Bound K) (sv : SuperVersion K)
    (ol : List (Entry K)) (os : Nat)
    (hs : ∀ s ∈ t.scanSources sv lo hi S (some (ol, os)), IsSource s)
    (hd : DistinctAcross (t.scanSources sv lo hi S (some (ol, os))))
    (e : Entry K) (he : e ∈ ol) (hb : inBounds lo hi e.key = true) (hvis : e.seqno < os)
    (hraw : ∀ r ∈ t.rawSources sv, ∀ x ∈ r, x.key = e.key → x.seqno < S → x.seqno ≤ e.seqno)
    (hol : ∀ x ∈ ol, x.key = e.key → x.seqno < os → x.seqno ≤ e.seqno) :
    (liveList (mergeAll (t.scanSources sv lo hi S (some (ol, os))))).find? (fun x => decide (x.key = e.key)) =
      (if e.isTomb then none else some e) :=
  overlay_shadows t S lo hi sv ol os hs hd e he hb hvis hraw hol

end

/-! ### prefix scans (byte-string keys) -/

/-- `prefix_to_range p` lets through exactly the keys that start with `p` — for the empty prefix (unbounded), for
    prefixes ending in `0xFF` bytes (carry into the byte before) and for all-`0xFF` prefixes (no upper bound). -/
theorem c03_prefix (p k : ByteKey) :
    inBounds (prefixToRange p).1 (prefixToRange p).2 k = startsWith k p :=
  prefix_range_iff p k

/-- `prefix(p)` is the full scan restricted to the keys starting with `p`. -/
theorem c03_prefix_scan (t : TreeState ByteKey) (S : Nat) (p : ByteKey)
    (overlay : Option (List (Entry ByteKey) × Nat)) (sv : SuperVersion ByteKey)
    (hraw : ∀ r ∈ t.rawSources sv, IsSource r) (hov : ∀ l s, overlay = some (l, s) → IsSource l)
    (hd : DistinctAcross (t.rawSources sv ++ overlaySource overlay)) :
    liveList (mergeAll (t.scanSources sv (prefixToRange p).1 (prefixToRange p).2 S overlay)) =
      (liveList (mergeAll (t.scanSources sv .unb .unb S overlay))).filter (fun e => startsWith e.key p) := by
  rw [scan_bounds_filter t S _ _ overlay sv hraw hov hd]
  simp only [prefix_range_iff]

/-! ### non-vacuity -/

/-- one table `{1@0, 4@0}`, a sealed memtable `{1@2, 2@3, 3@1}`, the active memtable `{1@5, 2@4 (tombstone)}` -/
def c03Table : TableM Nat :=
  { id := 7, lo := 1, hi := 4, entries := [⟨1, 0, .value, [9]⟩, ⟨4, 0, .value, [13]⟩] }

def c03Sv : SuperVersion Nat :=
  { active := 1, sealed := [0], version := { id := 0, levels := [[[c03Table]]] }, seqno := 0 }

def c03T : TreeState Nat :=
  { hist := [c03Sv],
    mems := [{ id := 0, entries := [⟨1, 2, .value, [11]⟩, ⟨2, 3, .value, [14]⟩, ⟨3, 1, .value, [12]⟩] },
             { id := 1, entries := [⟨1, 5, .value, [10]⟩, ⟨2, 4, .tomb, []⟩] }],
    seqCtr := 6, visible := 6 }

def c03Srcs : List (List (Entry Nat)) :=
  [[⟨1, 0, .value, [9]⟩, ⟨4, 0, .value, [13]⟩],
   [⟨1, 2, .value, [11]⟩, ⟨2, 3, .value, [14]⟩, ⟨3, 1, .value, [12]⟩],
   [⟨1, 5, .value, [10]⟩, ⟨2, 4, .tomb, []⟩]]

def c03Merged : List (Entry Nat) :=
  [⟨1, 5, .value, [10]⟩, ⟨1, 2, .value, [11]⟩, ⟨1, 0, .value, [9]⟩, ⟨2, 4, .tomb, []⟩, ⟨2, 3, .value, [14]⟩,
   ⟨3, 1, .value, [12]⟩, ⟨4, 0, .value, [13]⟩]

def c03Overlay : List (Entry Nat) × Nat := ([⟨3, 7, .tomb, []⟩, ⟨4, 8, .value, [99]⟩], 9)

def c03MergedOverlay : List (Entry Nat) :=
  [⟨1, 5, .value, [10]⟩, ⟨1, 2, .value, [11]⟩, ⟨1, 0, .value, [9]⟩, ⟨2, 4, .tomb, []⟩, ⟨2, 3, .value, [14]⟩,
   ⟨3, 7, .tomb, []⟩, ⟨3, 1, .value, [12]⟩, ⟨4, 8, .value, [99]⟩, ⟨4, 0, .value, [13]⟩]

example : getVersionForSnapshot c03T.hist 6 = some c03Sv := rfl

/-- the sources of the unbounded scan at snapshot 6 … -/
example : c03T.scanSources c03Sv .unb .unb 6 none = c03Srcs := by decide

/-- … satisfy the hypotheses of the scan theorems … -/
example : (∀ s ∈ c03T.scanSources c03Sv .unb .unb 6 none, IsSource s) ∧
    DistinctAcross (c03T.scanSources c03Sv .unb .unb 6 none) := by
  unfold IsSource DistinctAcross DistinctAcross2
  decide

/-- … their merge … -/
example : mergeAll c03Srcs = c03Merged := by
  simp [c03Srcs, c03Merged, mergeAll, merge2, ikLt]

/-- … and the live list: key 1 at its newest version, key 2 hidden by the tombstone -/
example : liveList c03Merged = [⟨1, 5, .value, [10]⟩, ⟨3, 1, .value, [12]⟩, ⟨4, 0, .value, [13]⟩] := by
  simp [c03Merged, liveList, newestPerKey, Entry.isTomb]

/-- the scan itself, an interleaving of `next` and `next_back` that runs past the end -/
example : c03T.scanAt 6 .unb .unb [.F, .B, .F, .B, .B, .F] =
    some [some ⟨1, 5, .value, [10]⟩, some ⟨4, 0, .value, [13]⟩, some ⟨3, 1, .value, [12]⟩, none, none, none] := by
  have hv : getVersionForSnapshot c03T.hist 6 = some c03Sv := rfl
  have hsrc : c03T.scanSources c03Sv .unb .unb 6 none = c03Srcs := by decide
  have hm : mergeAll c03Srcs = c03Merged := by simp [c03Srcs, c03Merged, mergeAll, merge2, ikLt]
  simp only [TreeState.scanAt, hv, Option.map_some, hsrc, hm]
  decide

/-- the same through the theorem: the answers are `bothEnds` of the live list -/
example : c03T.scanAt 6 .unb .unb [.F, .B, .F, .B, .B, .F] =
    some (bothEnds (liveList (mergeAll (c03T.scanSources c03Sv .unb .unb 6 none))) [.F, .B, .F, .B, .B, .F]) :=
  c03_scan_both_ends c03T 6 .unb .unb _ none c03Sv rfl
    (by unfold IsSource; decide) (by unfold DistinctAcross DistinctAcross2; decide)

/-- an older snapshot (3) sees key 1 at seqno 2 and only key 3 inside `[2, 4)` (key 2 was written at seqno 3) -/
example : c03T.scanAt 3 (.incl 2) (.excl 4) [.B, .F, .F] =
    some [some ⟨3, 1, .value, [12]⟩, none, none] := by
  have hv : getVersionForSnapshot c03T.hist 3 = some c03Sv := rfl
  have hsrc : c03T.scanSources c03Sv (.incl 2) (.excl 4) 3 none = [[], [⟨3, 1, .value, [12]⟩], []] := by decide
  have hm : mergeAll ([[], [⟨3, 1, .value, [12]⟩], []] : List (List (Entry Nat))) = [⟨3, 1, .value, [12]⟩] := by
    simp [mergeAll, merge2]
  simp only [TreeState.scanAt, hv, Option.map_some, hsrc, hm]
  decide

/-- an inverted range: nothing from either end -/
example : c03T.scanAt 6 (.incl 4) (.incl 1) [.F, .B] = some [none, none] :=
  c03_empty_or_inverted_bounds c03T 6 (.incl 4) (.incl 1) [.F, .B] none
    ((c03_inverted_bounds_no_key _ _).2 ((c03_inverted_bounds_no_key (.incl 4) (.incl 1)).1 (by decide)))

/-- `[3, 3)` is empty although not inverted -/
example : c03T.scanAt 6 (.incl 3) (.excl 3) [.F, .B] = some [none, none] :=
  c03_empty_or_inverted_bounds c03T 6 (.incl 3) (.excl 3) [.F, .B] none
    ((c03_inverted_bounds_no_key (.incl 3) (.excl 3)).2 (by simp [boundsEmpty]))

/-- an overlay (transaction write set, snapshot 9) deleting key 3 and overwriting key 4 -/
example : c03T.scanAt 6 .unb .unb [.F, .F, .F] (some c03Overlay) =
    some [some ⟨1, 5, .value, [10]⟩, some ⟨4, 8, .value, [99]⟩, none] := by
  have hv : getVersionForSnapshot c03T.hist 6 = some c03Sv := rfl
  have hsrc : c03T.scanSources c03Sv .unb .unb 6 (some c03Overlay) = c03Srcs ++ [c03Overlay.1] := by decide
  have hm : mergeAll (c03Srcs ++ [c03Overlay.1]) = c03MergedOverlay := by
    simp [c03Srcs, c03Overlay, c03MergedOverlay, mergeAll, merge2, ikLt]
  simp only [TreeState.scanAt, hv, Option.map_some, hsrc, hm]
  decide

/-- `bothEnds` on a concrete word -/
example : bothEnds [1, 2, 3] [.F, .B, .B, .F, .B] = [some 1, some 3, some 2, none, none] := by decide
example : answersOf .F (bothEnds [1, 2, 3] [.F, .B, .B, .F, .B]) [.F, .B, .B, .F, .B] = [1] := by decide
example : answersOf .B (bothEnds [1, 2, 3] [.F, .B, .B, .F, .B]) [.F, .B, .B, .F, .B] = [3, 2] := by decide

/-- a byte-keyed tree: one memtable with keys `[0,255]`, `[0,255,9]`, `[1]` -/
def c03B : TreeState ByteKey :=
  { hist := [{ active := 0, sealed := [], version := Version.empty 0 1, seqno := 0 }],
    mems := [{ id := 0, entries := [⟨[0, 255], 1, .value, [1]⟩, ⟨[0, 255, 9], 2, .value, [2]⟩, ⟨[1], 3, .value, [3]⟩] }],
    seqCtr := 4, visible := 4 }

/-- `prefix([0,255])` — upper bound `Excluded([1])` by carry — returns the two keys starting with `[0,255]` -/
example : c03B.scanAt 4 (prefixToRange [0, 255]).1 (prefixToRange [0, 255]).2 [.F, .B, .F] =
    some [some ⟨[0, 255], 1, .value, [1]⟩, some ⟨[0, 255, 9], 2, .value, [2]⟩, none] := by
  have hv : getVersionForSnapshot c03B.hist 4 =
      some { active := 0, sealed := [], version := Version.empty 0 1, seqno := 0 } := rfl
  have hsrc : c03B.scanSources { active := 0, sealed := [], version := Version.empty 0 1, seqno := 0 }
      (prefixToRange [0, 255]).1 (prefixToRange [0, 255]).2 4 none =
      [[⟨[0, 255], 1, .value, [1]⟩, ⟨[0, 255, 9], 2, .value, [2]⟩]] := by decide
  have hm : mergeAll ([[⟨[0, 255], 1, .value, [1]⟩, ⟨[0, 255, 9], 2, .value, [2]⟩]] : List (List (Entry ByteKey))) =
      [⟨[0, 255], 1, .value, [1]⟩, ⟨[0, 255, 9], 2, .value, [2]⟩] := by
    simp [mergeAll, merge2]
  simp only [TreeState.scanAt, hv, Option.map_some, hsrc, hm]
  decide

/-- prefix ranges with carry -/
example : prefixToRange [0, 255] = (.incl [0, 255], .excl [1]) := by decide
example : prefixToRange [255, 255] = (.incl [255, 255], .unb) := by decide
example : prefixToRange [] = (.unb, .unb) := by decide
example : inBounds (prefixToRange [0, 255]).1 (prefixToRange [0, 255]).2 [0, 255, 255, 7] = true := by decide
example : inBounds (prefixToRange [0, 255]).1 (prefixToRange [0, 255]).2 [1] = false := by decide
example : inBounds (prefixToRange [255, 255]).1 (prefixToRange [255, 255]).2 [255, 255, 0] = true := by decide
example : inBounds (prefixToRange [255, 255]).1 (prefixToRange [255, 255]).2 [255, 254, 255] = false := by decide

end Lsm
