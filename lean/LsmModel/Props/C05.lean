import LsmModel.Lemmas.FsLemmas
/-!
# C05 — a crash at any instant recovers to the state before or after the interrupted operation

Model: `LsmModel/Fs/Install.lean` (adversarial POSIX: unsynced content may be cut to any prefix containing the synced
prefix, directory entries that were not `fsyncDir`ed may vanish, a pending rename has or has not happened).
`acceptsFrom old new fs as = none` says the traced action list `as` of the operation installing `new` over `old`
obeys the install protocol (`guardB`); the syscall-level instrument checks this for every observed operation, and the
theorems below close the quantifiers: every accepted action list, every crash point, every crash outcome.
`Inv old new fs` includes `old.id ≠ new.id` (version numbers are allocated from a counter).
-/
namespace Lsm
open Fs

/-- Crash atomicity of one operation: at every action boundary of an accepted action list every adversarial crash
outcome recovers to the old or to the new version — never to less, never to an unopenable directory. -/
theorem c05_crash_atomic (old new : Ver) (fs : Fs) (as : List Act) (hinv : Inv old new fs)
    (hacc : acceptsFrom old new fs as = none) :
    ∀ i ≤ as.length, ∀ d, Crash (run fs (as.take i)) d → RecoversTo d old ∨ RecoversTo d new :=
  accepted_install_atomic old new fs as hinv hacc

/-- … starting from the quiescent state of any well-formed version. -/
theorem c05_crash_atomic_from_version (old new : Ver) (as : List Act) (hwf : old.wfB = true)
    (hne : old.id ≠ new.id) (hacc : acceptsFrom old new (Fs.ofVersion old) as = none) :
    ∀ i ≤ as.length, ∀ d, Crash (run (Fs.ofVersion old) (as.take i)) d → RecoversTo d old ∨ RecoversTo d new :=
  accepted_install_atomic old new _ as (ofVersion_inv (wfB_iff.mp hwf) hne) hacc

/-- Once the operation has returned (`completedB`), a later crash — in that state or anywhere in an accepted
continuation such as the reclamation of the old files — recovers to the new version only. -/
theorem c05_completed_only_new (old new : Ver) (fs : Fs) (as : List Act) (hinv : Inv old new fs)
    (hacc : acceptsFrom old new fs as = none) (hdone : completedB old new (run fs as) = true)
    (ext : List Act) (hext : acceptsFrom old new (run fs as) ext = none) :
    ∀ i ≤ ext.length, ∀ d, Crash (run (run fs as) (ext.take i)) d → RecoversTo d new :=
  accepted_completed_only_new old new fs as hinv hacc hdone ext hext

/-- Whole histories `v₀ → v₁ → v₂ → …`: each operation accepted from the state the previous one left, each one that
is followed by another completed.  A crash anywhere inside the operation after `pre` recovers to the version `pre`
left or to that operation's target. -/
theorem c05_history_crash_atomic (v0 : Ver) (fs : Fs) (pre post : List (Ver × List Act)) (v' : Ver)
    (as : List Act) (hq : Quiescent v0 fs) (hok : historyFrom v0 fs (pre ++ (v', as) :: post) = none) :
    ∀ i ≤ as.length, ∀ d, Crash (run (runOps fs pre) (as.take i)) d →
      RecoversTo d (lastVer v0 pre) ∨ RecoversTo d v' :=
  history_crash_atomic_at v0 fs pre post v' as hq (historyFrom_none_iff.mp hok)

/-- the same, by recursion over the history -/
theorem c05_history_atomic (v0 : Ver) (fs : Fs) (ops : List (Ver × List Act)) (hq : Quiescent v0 fs)
    (hok : historyFrom v0 fs ops = none) : HistoryAtomic v0 fs ops :=
  history_crash_atomic ops v0 fs hq (historyFrom_none_iff.mp hok)

/-- The executable recovery function agrees: on every crash outcome it returns the old or the new version number,
never `none`; and every image the executable enumerator produces is such an outcome. -/
theorem c05_recover_total (old new : Ver) (fs : Fs) (as : List Act) (hinv : Inv old new fs)
    (hacc : acceptsFrom old new fs as = none) (i : Nat) (hi : i ≤ as.length) :
    (∀ d, Crash (run fs (as.take i)) d →
      recover d [old, new] = some old.id ∨ recover d [old, new] = some new.id) ∧
    (∀ d ∈ crashOutcomes (run fs (as.take i)),
      recover d [old, new] = some old.id ∨ recover d [old, new] = some new.id) := by
  have h : ∀ d, Crash (run fs (as.take i)) d →
      recover d [old, new] = some old.id ∨ recover d [old, new] = some new.id := by
    intro d hc
    rcases accepted_install_atomic old new fs as hinv hacc i hi d hc with h | h
    · exact Or.inl ((recover_of_recoversTo hinv.1).1 h)
    · exact Or.inr ((recover_of_recoversTo hinv.1).2 h)
  exact ⟨h, fun d hd => h d (crashOutcomes_sound hd)⟩

/-! ### non-vacuity: a concrete flush, and four ways of getting it wrong -/

private def vOld : Ver := ⟨1, [((0, 1), [10])]⟩
private def vNew : Ver := ⟨2, [((0, 2), [20]), ((1, 7), [30])]⟩

/-- table 7 written and made durable, version file `v2` written and made durable, `current` switched -/
private def flushSeq : List Act :=
  [.create (1, 7), .append (1, 7) 30, .fsyncFile (1, 7), .fsyncDir 1,
   .create (0, 2), .append (0, 2) 20, .fsyncFile (0, 2), .fsyncDir 0,
   .writeTmp 2, .fsyncTmp, .rename, .fsyncDir 0]

example : vOld.wfB = true ∧ vOld.id ≠ vNew.id := by decide
/-- the 12-action flush is accepted and completes -/
example : acceptsFrom vOld vNew (Fs.ofVersion vOld) flushSeq = none := by decide
example : completedB vOld vNew (run (Fs.ofVersion vOld) flushSeq) = true := by decide
/-- before the rename every enumerated crash image recovers to 1; between rename and directory sync to 1 or 2;
after the return to 2 -/
example : (crashOutcomes (run (Fs.ofVersion vOld) (flushSeq.take 10))).map (recover · [vOld, vNew])
    = [some 1] := by decide
example : (crashOutcomes (run (Fs.ofVersion vOld) (flushSeq.take 11))).map (recover · [vOld, vNew])
    = [some 1, some 2] := by decide
example : (crashOutcomes (run (Fs.ofVersion vOld) flushSeq)).map (recover · [vOld, vNew])
    = [some 2] := by decide
/-- reclaiming the old version file afterwards is accepted; doing it before the final directory sync is not -/
example : acceptsFrom vOld vNew (Fs.ofVersion vOld) (flushSeq ++ [.unlink (0, 1)]) = none := by decide
example : acceptsFrom vOld vNew (Fs.ofVersion vOld) (flushSeq.take 11 ++ [.unlink (0, 1), .fsyncDir 0])
    = some 11 := by decide

/-- (i) the table file is not fsynced: rejected at the rename -/
example : acceptsFrom vOld vNew (Fs.ofVersion vOld) (flushSeq.eraseIdx 2) = some 9 := by decide
/-- (ii) `tables/` is not fsynced: rejected at the rename … -/
example : acceptsFrom vOld vNew (Fs.ofVersion vOld) (flushSeq.eraseIdx 3) = some 9 := by decide
/-- … and rightly so: after that sequence has run to its end and "returned", there is a crash image — `current`
names version 2, the directory entry of table 7 is gone — that recovers to neither version -/
example : (⟨[((0, 2), [20]), ((0, 1), [10])], some 2⟩ : Disk)
      ∈ crashOutcomes (run (Fs.ofVersion vOld) (flushSeq.eraseIdx 3)) ∧
    recover ⟨[((0, 2), [20]), ((0, 1), [10])], some 2⟩ [vOld, vNew] = none := by decide
example : ∃ d ∈ crashOutcomes (run (Fs.ofVersion vOld) (flushSeq.eraseIdx 3)),
    recover d [vOld, vNew] = none := by decide
/-- the same for (i): the table file can come back empty -/
example : ∃ d ∈ crashOutcomes (run (Fs.ofVersion vOld) (flushSeq.eraseIdx 2)),
    recover d [vOld, vNew] = none := by decide
/-- (iii) the temp file is not fsynced: rejected at the rename; `current` can come back unreadable -/
example : acceptsFrom vOld vNew (Fs.ofVersion vOld) (flushSeq.eraseIdx 9) = some 9 := by decide
example : ∃ d ∈ crashOutcomes (run (Fs.ofVersion vOld) ((flushSeq.eraseIdx 9).take 10)),
    recover d [vOld, vNew] = none := by decide
/-- (iv) `current` is switched before the version file is durable: rejected at the rename -/
example : acceptsFrom vOld vNew (Fs.ofVersion vOld)
    [.create (1, 7), .append (1, 7) 30, .fsyncFile (1, 7), .fsyncDir 1,
     .create (0, 2), .append (0, 2) 20,
     .writeTmp 2, .fsyncTmp, .rename, .fsyncDir 0,
     .fsyncFile (0, 2), .fsyncDir 0] = some 8 := by decide
example : ∃ d ∈ crashOutcomes (run (Fs.ofVersion vOld)
    [.create (1, 7), .append (1, 7) 30, .fsyncFile (1, 7), .fsyncDir 1,
     .create (0, 2), .append (0, 2) 20,
     .writeTmp 2, .fsyncTmp, .rename, .fsyncDir 0]),
    recover d [vOld, vNew] = none := by decide
/-- a two-operation history (flush, then an install of version 3 that drops table 7) passes the history acceptor -/
example : historyFrom vOld (Fs.ofVersion vOld)
    [(vNew, flushSeq ++ [.unlink (0, 1)]),
     (⟨3, [((0, 3), [40])]⟩,
      [.create (0, 3), .append (0, 3) 40, .fsyncFile (0, 3), .fsyncDir 0, .writeTmp 3, .fsyncTmp, .rename,
       .fsyncDir 0, .unlink (1, 7), .unlink (0, 2)])] = none := by decide

end Lsm
