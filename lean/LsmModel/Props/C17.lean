import LsmModel.Lemmas.CStreamLemmas
/-!
# C17 — Compaction filters act exactly as their verdicts say and spare old snapshots

`filterHead` / `cstream` transcribe how `CompactionStream::next` consults the `StreamFilter`; the adapter maps the user
verdicts Keep / ReplaceValue / Remove / RemoveWeak / Destroy to keep / replace value / replace tomb / replace weak / drop.
The statements are about the version list of one key inside a compaction input, newest first (`e :: rest`);
`cstream_key_indep` lifts them to multi-key inputs. Old snapshots are spared by super-version pinning (C02).
-/
set_option linter.unusedSectionVars false
namespace Lsm
variable {K : Type} [LT K] [DecidableLT K] [DecidableEq K] [LE K] [Std.IsLinearOrder K] [Std.LawfulOrderLT K]

/-- Keep: the newest entry is emitted unchanged (any watermark, last level or not). -/
theorem c17_keep (wm : Nat) (ev : Bool) (f : Entry K → Verdict) (k : K) (e : Entry K) (rest : List (Entry K))
    (hk : SingleKey k (e :: rest)) (hnt : e.isTomb = false) (hv : f e = .keep) :
    (cstream wm ev f (e :: rest)).1.head? = some e :=
  cstream_filter_keep wm ev f k e rest hk hnt hv

/-- ReplaceValue: new snapshots read the replacement, under the SAME key and sequence number (so it shadows exactly
    what the original entry shadowed). -/
theorem c17_replace (wm : Nat) (ev : Bool) (f : Entry K → Verdict) (k : K) (e : Entry K) (rest : List (Entry K)) (v : Val)
    (hk : SingleKey k (e :: rest)) (hnt : e.isTomb = false) (hv : f e = .replace .value v) :
    (cstream wm ev f (e :: rest)).1.head? = some { e with vt := .value, val := v } :=
  cstream_filter_replace_value wm ev f k e rest v hk hnt hv

/-- ReplaceValue crossing the separation threshold (the adapter stores an indirection): same statement for any
    non-tombstone replacement type. -/
theorem c17_replace_any_type (wm : Nat) (ev : Bool) (f : Entry K → Verdict) (k : K) (e : Entry K) (rest : List (Entry K))
    (vt : VT) (v : Val) (hk : SingleKey k (e :: rest)) (hnt : e.isTomb = false) (hv : f e = .replace vt v)
    (hvt : vt = .value ∨ vt = .indir) :
    (cstream wm ev f (e :: rest)).1.head? = some { e with vt := vt, val := v } := by
  have hf : filterHead f e = (some { e with vt := vt, val := v }, [e]) := filterHead_replace hnt hv
  have hnt' : ({ e with vt := vt, val := v } : Entry K).isTomb = false := by
    rcases hvt with rfl | rfl <;> simp [Entry.isTomb]
  exact cstream_head_of_nontomb wm ev f k e _ rest [e] hk hf hnt'

/-- Remove: the key reads as absent at new snapshots. -/
theorem c17_remove (wm : Nat) (ev : Bool) (f : Entry K → Verdict) (k : K) (e : Entry K) (rest : List (Entry K)) (v : Val)
    (hk : SingleKey k (e :: rest)) (hnt : e.isTomb = false) (hv : f e = .replace .tomb v) :
    live (cstream wm ev f (e :: rest)).1.head? = none :=
  cstream_filter_replace_tomb wm ev f k e rest v hk hnt hv

/-- Destroy on a key written only once: nothing of the key is left, and the entry is reported as dropped
    (which is what keeps the blob statistics exact, C09). -/
theorem c17_destroy_written_once (wm : Nat) (ev : Bool) (f : Entry K → Verdict) (e : Entry K)
    (hnt : e.isTomb = false) (hv : f e = .drop) :
    cstream wm ev f [e] = ([], [e]) :=
  cstream_filter_drop_single wm ev f e hnt hv

/-- The filter is never shown a tombstone: the stream's result does not depend on what the filter would answer on
    tombstones. -/
theorem c17_never_shown_tombstone (wm : Nat) (ev : Bool) (f g : Entry K → Verdict) (l : List (Entry K))
    (h : ∀ e ∈ l, e.isTomb = false → f e = g e) : cstream wm ev f l = cstream wm ev g l :=
  filter_never_sees_tombstone wm ev f g l h

/-- Keys the filter is not shown are untouched: the stream treats user keys independently. -/
theorem c17_other_keys_untouched (wm : Nat) (ev : Bool) (f : Entry K → Verdict) (k : K) (l : List (Entry K))
    (hs : IsSource l) : keyOf k (cstream wm ev f l).1 = (cstream wm ev f (keyOf k l)).1 :=
  (cstream_key_indep wm ev f k l hs.keysSorted).1

/-- The output is still a source (sorted, one entry per (key, seqno)): a verdict never changes key or seqno. -/
theorem c17_output_sorted (wm : Nat) (ev : Bool) (f : Entry K → Verdict) (l : List (Entry K)) (hs : IsSource l) :
    IsSource (cstream wm ev f l).1 :=
  cstream_sorted_filter wm ev f l hs

end Lsm
