import LsmModel.Lemmas.FrameLemmas
/-!
# C10 — corrupted bytes on disk are reported, never served as data (frame level)

Model: `LsmModel/Table/Frame.lean` (read its MODELLING NOTES first).  `H : Bytes → Bytes` is the 128-bit hash
(16 little-endian bytes); the 32-bit header hash is `first4 (H ·)`.  Nothing is assumed about `H` beyond its
output width: every "corruption is detected" statement carries its escape clause — an explicit collision witness
`∃ x y, x ≠ y ∧ first4 (H x) = first4 (H y)` (32-bit) or `∃ x y, x ≠ y ∧ H x = H y` (128-bit) — in the statement.

Which check covers which bytes of a block frame (offsets within the frame):
  0..4    magic                     compared literally, and part of the hashed prefix
  4       block type                `TryFrom` (≤ 3), hashed prefix, and `load_block`'s expected type
  5..21   payload checksum          hashed prefix
  21..25  data_length               hashed prefix   (used by `from_reader`; NOT used by `from_file`)
  25..29  uncompressed_length       hashed prefix   (used only by a debug assertion)
  29..33  header hash field         compared with `first4 (H (bytes 0..29))`
  33..    payload                   `H payload` compared with bytes 5..21
A change confined to 0..29 or confined to 29.. is caught unless a collision is exhibited; a change that touches
BOTH the prefix and the hash field can produce another well-formed frame (no checksum scheme can exclude that):
this is the first disjunct of `c10_block_collision`.

Blob frame: 0..4 magic (literal); 4..20 checksum; 20..28 seqno, 30..34 real_val_len, 34..38 on_disk_val_len
(covered by NOTHING in a release build, and not used for the returned value); 28..30 key_len (not hashed, but
it selects what is hashed); 38.. key ++ value (hashed).  The reader never compares the stored key with the
requested key.

`current`/`v<N>`: /repo/src/version/recovery.rs does not verify the version file at present
(`c10_version_unverified_now`, finding F1); `checkVersionFile` is the repair.
-/
namespace Lsm
open Frame

/-! ## little-endian integers -/

theorem c10_u16le_roundtrip {n : Nat} (h : n < 2 ^ 16) : leNat (u16le n) = n := u16le_roundtrip h
theorem c10_u32le_roundtrip {n : Nat} (h : n < 2 ^ 32) : leNat (u32le n) = n := u32le_roundtrip h
theorem c10_u64le_roundtrip {n : Nat} (h : n < 2 ^ 64) : leNat (u64le n) = n := u64le_roundtrip h
theorem c10_u128le_roundtrip {n : Nat} (h : n < 2 ^ 128) : leNat (u128le n) = n := u128le_roundtrip h
/-- and back: `w` bytes are the `w`-byte encoding of the number they denote -/
theorem c10_le_bytes_roundtrip (bs : Bytes) : leBytes bs.length (leNat bs) = bs := leBytes_leNat bs

/-! ## block frames -/

/-- Round trip through `from_reader` + type check; bytes after the frame are ignored. (`ty ≤ 3`: a `BlockType`.) -/
theorem c10_block_roundtrip {H : Bytes → Bytes} (hH : ∀ x, (H x).length = 16) {ty : UInt8} {payload : Bytes}
    (hty : ty ≤ 3) (hp : payload.length < 2 ^ 32) (rest : Bytes) :
    decodeBlock H (some ty) (encodeBlock H ty payload ++ rest) = .ok (ty, payload) :=
  block_roundtrip hH hty hp rest

/-- Round trip through `load_block` (`file::read_exact` of `handle.size()` bytes, `from_file`, type check). -/
theorem c10_blockfile_roundtrip {H : Bytes → Bytes} (hH : ∀ x, (H x).length = 16) {ty : UInt8} {payload : Bytes}
    (hty : ty ≤ 3) (hp : payload.length < 2 ^ 32) (rest : Bytes) :
    decodeBlockFile H (some ty) (encodeBlock H ty payload ++ rest) (33 + payload.length) = .ok (ty, payload) ∧
    decodeBlockExact H (some ty) (encodeBlock H ty payload) = .ok (ty, payload) :=
  ⟨blockFile_roundtrip hH hty hp rest, blockExact_roundtrip hH hty hp⟩

/-- Frame soundness, `from_reader`: whatever decodes IS the encoder's frame for the returned type and payload
(with the stored `uncompressed_length`, which a release build never checks), followed by unread bytes; the
stored header hash is the hash of the stored prefix and the stored payload checksum is the hash of the payload. -/
theorem c10_block_frame_sound {H : Bytes → Bytes} {exp : Option UInt8} {bytes' p' : Bytes} {ty' : UInt8}
    (hd : decodeBlock H exp bytes' = .ok (ty', p')) :
    ∃ ul rest, bytes' = encodeHeader H { blockType := ty', checksum := H p', dataLength := p'.length,
                                          uncompressedLength := ul } ++ p' ++ rest ∧
      ty' ≤ 3 ∧ (∀ t, exp = some t → ty' = t) ∧ p'.length < 2 ^ 32 ∧ ul < 2 ^ 32 ∧ (H p').length = 16 ∧
      hdrHashFieldOf bytes' = first4 (H (hdrPrefixOf bytes')) ∧ (bytes'.drop 5).take 16 = H p' :=
  block_frame_sound hd

/-- Debug builds: what decodes is exactly `encodeBlock` of the result, followed by unread bytes. -/
theorem c10_block_frame_sound_dbg {H : Bytes → Bytes} {exp : Option UInt8} {bytes' p' : Bytes} {ty' : UInt8}
    (hd : decodeBlockDbg H exp bytes' = .ok (ty', p')) :
    ∃ rest, bytes' = encodeBlock H ty' p' ++ rest ∧ ty' ≤ 3 ∧ (∀ t, exp = some t → ty' = t) ∧
      p'.length < 2 ^ 32 :=
  blockDbg_frame_sound hd

/-- Frame soundness, `from_file`: the buffer is header ++ payload for the returned type and payload; the
`data_length` and `uncompressed_length` fields are arbitrary (neither is consulted). -/
theorem c10_blockfile_frame_sound {H : Bytes → Bytes} {exp : Option UInt8} {buf' p' : Bytes} {ty' : UInt8}
    (hd : decodeBlockExact H exp buf' = .ok (ty', p')) :
    ∃ dl ul, buf' = encodeHeader H { blockType := ty', checksum := H p', dataLength := dl,
                                      uncompressedLength := ul } ++ p' ∧
      ty' ≤ 3 ∧ (∀ t, exp = some t → ty' = t) ∧ dl < 2 ^ 32 ∧ ul < 2 ^ 32 ∧ (H p').length = 16 :=
  blockExact_frame_sound hd

/-- Collision form, `from_reader`: a byte string of the same length as a written frame, different from it, that
still decodes (to anything) either was rewritten in BOTH the hashed prefix (bytes 0..29) and the header hash
field (bytes 29..33), or exhibits a 32-bit or a 128-bit collision. -/
theorem c10_block_collision {H : Bytes → Bytes} (hH : ∀ x, (H x).length = 16) {ty : UInt8} {p : Bytes}
    (hty : ty ≤ 3) (hp : p.length < 2 ^ 32) {exp : Option UInt8} {bytes' : Bytes} {r : UInt8 × Bytes}
    (hlen : bytes'.length = (encodeBlock H ty p).length)
    (hne : bytes' ≠ encodeBlock H ty p) (hd : decodeBlock H exp bytes' = .ok r) :
    (hdrPrefixOf bytes' ≠ hdrPrefixOf (encodeBlock H ty p) ∧
      hdrHashFieldOf bytes' ≠ hdrHashFieldOf (encodeBlock H ty p)) ∨
    (∃ x y : Bytes, x ≠ y ∧ first4 (H x) = first4 (H y)) ∨ (∃ x y : Bytes, x ≠ y ∧ H x = H y) :=
  block_corruption_cases hH hty hp hlen hne hd

/-- … hence any change that leaves bytes 0..29 intact, or leaves bytes 29..33 intact, is caught or exhibits a
collision. -/
theorem c10_block_region_collision {H : Bytes → Bytes} (hH : ∀ x, (H x).length = 16) {ty : UInt8} {p : Bytes}
    (hty : ty ≤ 3) (hp : p.length < 2 ^ 32) {exp : Option UInt8} {bytes' : Bytes} {r : UInt8 × Bytes}
    (hlen : bytes'.length = (encodeBlock H ty p).length)
    (hne : bytes' ≠ encodeBlock H ty p) (hd : decodeBlock H exp bytes' = .ok r)
    (hreg : hdrPrefixOf bytes' = hdrPrefixOf (encodeBlock H ty p) ∨
      hdrHashFieldOf bytes' = hdrHashFieldOf (encodeBlock H ty p)) :
    (∃ x y : Bytes, x ≠ y ∧ first4 (H x) = first4 (H y)) ∨ (∃ x y : Bytes, x ≠ y ∧ H x = H y) :=
  block_region_collision hH hty hp hlen hne hd hreg

/-- … in particular EVERY single-byte alteration of a written frame (any position, any new value), read
through `from_reader` or through `from_file`. -/
theorem c10_block_single_byte {H : Bytes → Bytes} (hH : ∀ x, (H x).length = 16) {ty : UInt8} {p : Bytes}
    (hty : ty ≤ 3) (hp : p.length < 2 ^ 32) {exp : Option UInt8} {i : Nat} {b : UInt8} {r : UInt8 × Bytes}
    (hi : i < (encodeBlock H ty p).length) (hb : b ≠ (encodeBlock H ty p)[i])
    (hd : decodeBlock H exp ((encodeBlock H ty p).set i b) = .ok r ∨
          decodeBlockExact H exp ((encodeBlock H ty p).set i b) = .ok r) :
    (∃ x y : Bytes, x ≠ y ∧ first4 (H x) = first4 (H y)) ∨ (∃ x y : Bytes, x ≠ y ∧ H x = H y) :=
  hd.elim (block_single_byte hH hty hp hi hb) (blockExact_single_byte hH hty hp hi hb)

/-- Collision form, `from_file`: ANY buffer (any length) other than the written frame. -/
theorem c10_blockfile_collision {H : Bytes → Bytes} (hH : ∀ x, (H x).length = 16) {ty : UInt8} {p : Bytes}
    (hty : ty ≤ 3) (hp : p.length < 2 ^ 32) {exp : Option UInt8} {buf' : Bytes} {r : UInt8 × Bytes}
    (hne : buf' ≠ encodeBlock H ty p) (hd : decodeBlockExact H exp buf' = .ok r) :
    (hdrPrefixOf buf' ≠ hdrPrefixOf (encodeBlock H ty p) ∧
      hdrHashFieldOf buf' ≠ hdrHashFieldOf (encodeBlock H ty p)) ∨
    (∃ x y : Bytes, x ≠ y ∧ first4 (H x) = first4 (H y)) ∨ (∃ x y : Bytes, x ≠ y ∧ H x = H y) :=
  blockExact_corruption_cases hH hty hp hne hd

/-- Truncation, `from_reader`: every strict prefix of a written frame fails with `truncated` (UnexpectedEof);
trailing bytes are ignored (`c10_block_roundtrip`). -/
theorem c10_truncation_detected {H : Bytes → Bytes} (hH : ∀ x, (H x).length = 16) {ty : UInt8} {p : Bytes}
    (hty : ty ≤ 3) (hp : p.length < 2 ^ 32) {exp : Option UInt8} {q : Bytes}
    (hq : q <+: encodeBlock H ty p) (hl : q.length < (encodeBlock H ty p).length) :
    decodeBlock H exp q = .error .truncated :=
  block_truncation hH hty hp hq hl

/-- Truncation, `load_block`: a file with fewer than `handle.size()` bytes after `handle.offset()` fails with
`truncated`, whatever the bytes. If instead the HANDLE is wrong — the buffer is a strict prefix of the frame, or
the frame plus extra bytes — `from_file` fails, or a 128-bit collision is exhibited. -/
theorem c10_blockfile_truncation_detected {H : Bytes → Bytes} (hH : ∀ x, (H x).length = 16) {ty : UInt8}
    {p : Bytes} (hty : ty ≤ 3) (hp : p.length < 2 ^ 32) {exp : Option UInt8} :
    (∀ fileTail size, fileTail.length < size → decodeBlockFile H exp fileTail size = .error .truncated) ∧
    (∀ q, q <+: encodeBlock H ty p → q.length < (encodeBlock H ty p).length →
      decodeBlockExact H exp q = .error .truncated ∨ decodeBlockExact H exp q = .error .payloadChecksum ∨
        ∃ x y : Bytes, x ≠ y ∧ H x = H y) ∧
    (∀ extra, extra ≠ [] →
      decodeBlockExact H exp (encodeBlock H ty p ++ extra) = .error .payloadChecksum ∨
        ∃ x y : Bytes, x ≠ y ∧ H x = H y) :=
  ⟨fun _ _ h => blockFile_truncation h, fun _ hq hl => blockExact_truncation hH hty hp hq hl,
   fun _ hx => blockExact_extension hH hty hp hx⟩

/-- Type confusion: a well-formed block of type `ty'` requested as type `ty ≠ ty'` is rejected (both paths). -/
theorem c10_type_confusion_detected {H : Bytes → Bytes} (hH : ∀ x, (H x).length = 16) {ty ty' : UInt8} {p : Bytes}
    (hty : ty' ≤ 3) (hp : p.length < 2 ^ 32) (hne : ty ≠ ty') (rest : Bytes) :
    decodeBlock H (some ty) (encodeBlock H ty' p ++ rest) = .error .blockTypeMismatch ∧
    decodeBlockExact H (some ty) (encodeBlock H ty' p) = .error .blockTypeMismatch :=
  ⟨block_type_confusion hH hty hp hne rest, blockExact_type_confusion hH hty hp hne⟩

/-- A type byte that is no `BlockType` is rejected before any checksum is looked at. -/
theorem c10_invalid_tag_detected {h32 : Bytes → Bytes} {ty : UInt8} (hty : 3 < ty) (tail : Bytes) :
    decodeHeaderCore h32 (blockMagic ++ ty :: tail) = .error .invalidTag :=
  block_invalid_tag hty tail

/-- Correspondence harness: the decoder driven by hash VALUES equals the decoder driven by the hash FUNCTION when
the values are the function's values on `hdrPrefixOf bytes` / `payloadOf bytes` (resp. `payloadOfExact buf`). -/
theorem c10_decodeBlockWith_eq (H : Bytes → Bytes) (exp : Option UInt8) (bytes : Bytes) :
    decodeBlockWith (first4 (H (hdrPrefixOf bytes))) (H (payloadOf bytes)) exp bytes = decodeBlock H exp bytes ∧
    decodeBlockExactWith (first4 (H (hdrPrefixOf bytes))) (H (payloadOfExact bytes)) exp bytes =
      decodeBlockExact H exp bytes :=
  ⟨decodeBlockWith_eq H exp bytes, decodeBlockExactWith_eq H exp bytes⟩

/-! ## blob frames -/

/-- Round trip through `Reader::get` with the handle's `on_disk_size` and the key's length. -/
theorem c10_blob_roundtrip {H : Bytes → Bytes} (hH : ∀ x, (H x).length = 16) {key value : Bytes} {seqno : Nat}
    (hk : key.length < 2 ^ 16) (hv : value.length < 2 ^ 32) (hs : seqno < 2 ^ 64) (after : Bytes) :
    decodeBlob H key.length value.length (encodeBlob H key seqno value ++ after) = .ok value :=
  blob_roundtrip hH hk hv hs after

/-- Frame soundness: the bytes of an accepted blob are magic, the hash of (stored key ++ returned value),
four uncovered fields, and a body of `keyLen + onDiskSize` bytes whose tail is the returned value. -/
theorem c10_blob_frame_sound {H : Bytes → Bytes} {kl sz : Nat} {tail' v' : Bytes}
    (hd : decodeBlob H kl sz tail' = .ok v') :
    ∃ seqno klen real disk body after,
      tail' = blobMagic ++ H (body.take klen ++ v') ++ u64le seqno ++ u16le klen ++ u32le real ++ u32le disk
                ++ body ++ after ∧
      body.length = kl + sz ∧ klen ≤ body.length ∧ v' = body.drop kl ∧ v'.length = sz ∧
      v' = (tail'.take (sz + (38 + kl))).drop (38 + kl) ∧
      blobChecksumFieldOf tail' = H (body.take klen ++ v') ∧ (H (body.take klen ++ v')).length = 16 :=
  blob_frame_sound hd

/-- Collision form: if the read of possibly altered bytes succeeds, it returns the original value, or a
128-bit collision is exhibited, or BOTH the checksum field (bytes 4..20) and the value region were altered. -/
theorem c10_blob_collision {H : Bytes → Bytes} (hH : ∀ x, (H x).length = 16) {key value after tail' v' : Bytes}
    {seqno : Nat} (hd : decodeBlob H key.length value.length tail' = .ok v') :
    v' = value ∨ (∃ x y : Bytes, x ≠ y ∧ H x = H y) ∨
      (blobChecksumFieldOf tail' ≠ blobChecksumFieldOf (encodeBlob H key seqno value ++ after) ∧
        (tail'.take (value.length + (38 + key.length))).drop (38 + key.length) ≠
          ((encodeBlob H key seqno value ++ after).take (value.length + (38 + key.length))).drop
            (38 + key.length)) :=
  blob_corruption_cases hH hd

/-- … in particular for EVERY single-byte alteration: error, the original value, or a collision. -/
theorem c10_blob_single_byte {H : Bytes → Bytes} (hH : ∀ x, (H x).length = 16) {key value after v' : Bytes}
    {seqno i : Nat} {b : UInt8}
    (hd : decodeBlob H key.length value.length ((encodeBlob H key seqno value ++ after).set i b) = .ok v') :
    v' = value ∨ ∃ x y : Bytes, x ≠ y ∧ H x = H y :=
  blob_single_byte hH hd

/-- Truncation: fewer bytes than header + key + on-disk size ⇒ `truncated`; so for every strict prefix of a frame. -/
theorem c10_blob_truncation_detected {H : Bytes → Bytes} (hH : ∀ x, (H x).length = 16) :
    (∀ kl sz tail, tail.length < sz + (38 + kl) → decodeBlob H kl sz tail = .error .truncated) ∧
    (∀ key value seqno q, q.length < (encodeBlob H key seqno value).length →
      decodeBlob H key.length value.length q = .error .truncated) :=
  ⟨fun _ _ _ h => blob_truncation h, fun _ _ _ _ h => blob_prefix_truncated hH h⟩

/-- NOT covered: seqno, real_val_len, on_disk_val_len of a blob frame can be anything (in range); a release
build accepts the frame and returns the value. -/
theorem c10_blob_uncovered_fields {H : Bytes → Bytes} (hH : ∀ x, (H x).length = 16) {f : BlobFrame}
    (hck : f.checksum = H (f.key ++ f.value)) (hkl : f.keyLen = f.key.length) (hk : f.key.length < 2 ^ 16)
    (hs : f.seqno < 2 ^ 64) (hr : f.realLen < 2 ^ 32) (ho : f.onDiskLen < 2 ^ 32) (after : Bytes) :
    decodeBlob H f.key.length f.value.length (encodeBlobRaw f ++ after) = .ok f.value :=
  blob_uncovered_fields hH hck hkl hk hs hr ho after

theorem c10_decodeBlobWith_eq (H : Bytes → Bytes) (kl sz : Nat) (tail : Bytes) :
    decodeBlobWith (H (blobHashInputOf kl sz tail)) kl sz tail = decodeBlob H kl sz tail :=
  decodeBlobWith_eq H kl sz tail

/-! ## `current` and the version file -/

theorem c10_version_roundtrip {H : Bytes → Bytes} (hH : ∀ x, (H x).length = 16) {id : Nat} (hid : id < 2 ^ 64)
    (v : Bytes) : checkVersionFile H (encodeCurrent H id v) v = .ok id :=
  version_roundtrip hH hid v

/-- Repaired recovery: under the `current` written for `v`, only `v` is accepted — or a collision is exhibited. -/
theorem c10_version_file_covered {H : Bytes → Bytes} (hH : ∀ x, (H x).length = 16) {v v' : Bytes} {id id' : Nat}
    (hd : checkVersionFile H (encodeCurrent H id v) v' = .ok id') :
    v' = v ∨ ∃ x y : Bytes, x ≠ y ∧ H x = H y :=
  version_file_covered (currentChecksumFieldOf_encode hH id v) hd

/-- The same when `current` itself was altered outside its checksum field (bytes 8..24) — e.g. its id now names
another file `v'`. -/
theorem c10_version_file_covered' {H : Bytes → Bytes} {cur v v' : Bytes} {id' : Nat}
    (hf : currentChecksumFieldOf cur = H v) (hd : checkVersionFile H cur v' = .ok id') :
    v' = v ∨ ∃ x y : Bytes, x ≠ y ∧ H x = H y :=
  version_file_covered hf hd

/-- What the repaired check establishes about `current`. -/
theorem c10_version_check_sound {H : Bytes → Bytes} {cur v' : Bytes} {id : Nat}
    (hd : checkVersionFile H cur v' = .ok id) :
    25 ≤ cur.length ∧ id = leNat (cur.take 8) ∧ currentChecksumFieldOf cur = H v' ∧ (cur.drop 24).take 1 = [0] :=
  version_check_sound hd

/-- F1 — /repo/src/version/recovery.rs as it is NOW: every version file is accepted. -/
theorem c10_version_unverified_now (H : Bytes → Bytes) {id : Nat} (hid : id < 2 ^ 64) (v v' : Bytes) :
    recoverVersionIdNow (encodeCurrent H id v) v' = .ok id :=
  version_unverified_now H hid v v'

/-! ## non-vacuity (toy hash `sumH`: wrap-around byte sum, replicated 16 times) -/

theorem sumH_width : ∀ x, (sumH x).length = 16 := by intro x; simp [sumH]

-- the frame itself
example : encodeBlock sumH 0 [1, 2, 3] =
    [76, 83, 77, 3, 0, 6, 6, 6, 6, 6, 6, 6, 6, 6, 6, 6, 6, 6, 6, 6, 6, 3, 0, 0, 0, 3, 0, 0, 0, 85, 85, 85, 85,
     1, 2, 3] := by decide
example : decodeBlock sumH (some 0) (encodeBlock sumH 0 [1, 2, 3] ++ [9, 9]) = .ok (0, [1, 2, 3]) := by decide
example : decodeBlockFile sumH (some 0) (encodeBlock sumH 0 [1, 2, 3] ++ [9, 9]) 36 = .ok (0, [1, 2, 3]) := by
  decide
-- each check fires
example : decodeBlock sumH none ((encodeBlock sumH 0 [1, 2, 3]).set 0 9) = .error .invalidMagic := by decide
example : decodeBlock sumH none ((encodeBlock sumH 0 [1, 2, 3]).set 4 9) = .error .invalidTag := by decide
example : decodeBlock sumH none ((encodeBlock sumH 0 [1, 2, 3]).set 4 1) = .error .headerChecksum := by decide
example : decodeBlock sumH none ((encodeBlock sumH 0 [1, 2, 3]).set 30 9) = .error .headerChecksum := by decide
example : decodeBlock sumH none ((encodeBlock sumH 0 [1, 2, 3]).set 34 9) = .error .payloadChecksum := by decide
example : decodeBlock sumH (some 1) (encodeBlock sumH 0 [1, 2, 3]) = .error .blockTypeMismatch := by decide
example : decodeBlock sumH none ((encodeBlock sumH 0 [1, 2, 3]).take 35) = .error .truncated := by decide
example : decodeBlock sumH none ((encodeBlock sumH 0 [1, 2, 3]).take 20) = .error .truncated := by decide
example : decodeBlockFile sumH none ((encodeBlock sumH 0 [1, 2, 3]).take 35) 36 = .error .truncated := by decide
-- THE DISJUNCTS ARE NOT DECORATIVE.  128-bit collision of the weak hash ([1,2,3] vs [2,1,3]): a corrupted
-- payload is served.
example : decodeBlock sumH (some 0) (((encodeBlock sumH 0 [1, 2, 3]).set 33 2).set 34 1) = .ok (0, [2, 1, 3]) := by
  decide
-- 32-bit collision (type 0→1 compensated by uncompressed_length 3→2, header hash field untouched): a Data
-- block is served as an Index block when no expected type is given; the expected-type check still catches it;
-- so does the debug assertion.
example : decodeBlock sumH none (((encodeBlock sumH 0 [1, 2, 3]).set 4 1).set 25 2) = .ok (1, [1, 2, 3]) := by
  decide
example : decodeBlock sumH (some 0) (((encodeBlock sumH 0 [1, 2, 3]).set 4 1).set 25 2)
    = .error .blockTypeMismatch := by decide
example : decodeBlockDbg sumH none (((encodeBlock sumH 0 [1, 2, 3]).set 4 1).set 25 2)
    = .error .panicDebugAssert := by decide
-- `from_file` does not consult data_length (compensating change in bytes 4 and 21): accepted by from_file,
-- rejected by from_reader
example : decodeBlockExact sumH none (((encodeBlock sumH 0 [1, 2, 3]).set 4 1).set 21 2) = .ok (1, [1, 2, 3]) := by
  decide
example : decodeBlock sumH none (((encodeBlock sumH 0 [1, 2, 3]).set 4 1).set 21 2)
    = .error .payloadChecksum := by decide
-- `from_file` with a too-short buffer and a collision (H [1,2] = H [1,2,0]): a truncated payload is served
example : decodeBlockExact sumH none ((encodeBlock sumH 0 [1, 2, 0]).take 35) = .ok (0, [1, 2]) := by decide
-- the first disjunct of `c10_block_collision` is not decorative either: rewriting prefix AND hash field gives
-- another valid frame, with no collision involved
example : encodeBlock sumH 0 [1, 2, 4] ≠ encodeBlock sumH 0 [1, 2, 3] ∧
    decodeBlock sumH (some 0) (encodeBlock sumH 0 [1, 2, 4]) = .ok (0, [1, 2, 4]) := by decide
-- hash values supplied as data
example : decodeBlockWith [85, 85, 85, 85] (List.replicate 16 6) (some 0) (encodeBlock sumH 0 [1, 2, 3])
    = .ok (0, [1, 2, 3]) := by decide
example : decodeBlockWith [85, 85, 85, 84] (List.replicate 16 6) (some 0) (encodeBlock sumH 0 [1, 2, 3])
    = .error .headerChecksum := by decide

-- blobs
example : encodeBlob sumH [7] 5 [1, 2, 3] =
    [66, 76, 79, 66, 13, 13, 13, 13, 13, 13, 13, 13, 13, 13, 13, 13, 13, 13, 13, 13, 5, 0, 0, 0, 0, 0, 0, 0,
     1, 0, 3, 0, 0, 0, 3, 0, 0, 0, 7, 1, 2, 3] := by decide
example : decodeBlob sumH 1 3 (encodeBlob sumH [7] 5 [1, 2, 3] ++ [8, 8]) = .ok [1, 2, 3] := by decide
example : decodeBlob sumH 1 3 ((encodeBlob sumH [7] 5 [1, 2, 3]).set 0 0) = .error .invalidMagic := by decide
example : decodeBlob sumH 1 3 ((encodeBlob sumH [7] 5 [1, 2, 3]).set 39 9) = .error .payloadChecksum := by decide
example : decodeBlob sumH 1 3 ((encodeBlob sumH [7] 5 [1, 2, 3]).set 5 9) = .error .payloadChecksum := by decide
example : decodeBlob sumH 1 3 ((encodeBlob sumH [7] 5 [1, 2, 3]).set 38 9) = .error .payloadChecksum := by decide
example : decodeBlob sumH 1 3 ((encodeBlob sumH [7] 5 [1, 2, 3]).set 28 2) = .error .payloadChecksum := by decide
example : decodeBlob sumH 1 3 ((encodeBlob sumH [7] 5 [1, 2, 3]).set 28 9) = .error .truncated := by decide
example : decodeBlob sumH 1 3 ((encodeBlob sumH [7] 5 [1, 2, 3]).take 41) = .error .truncated := by decide
-- collision: corrupted value served (within the value; and across the key/value boundary)
example : decodeBlob sumH 1 3 (((encodeBlob sumH [7] 5 [1, 2, 3]).set 39 2).set 40 1) = .ok [2, 1, 3] := by decide
example : decodeBlob sumH 1 3 (((encodeBlob sumH [7] 5 [1, 2, 3]).set 38 8).set 39 0) = .ok [0, 2, 3] := by decide
-- uncovered fields: seqno (byte 20) and real_val_len (byte 30) altered, release build does not notice
example : decodeBlob sumH 1 3 ((encodeBlob sumH [7] 5 [1, 2, 3]).set 20 99) = .ok [1, 2, 3] := by decide
example : decodeBlob sumH 1 3 ((encodeBlob sumH [7] 5 [1, 2, 3]).set 30 99) = .ok [1, 2, 3] := by decide
example : decodeBlobDbg sumH 1 3 ((encodeBlob sumH [7] 5 [1, 2, 3]).set 30 99) = .error .panicDebugAssert := by
  decide

-- current / version file
example : encodeCurrent sumH 7 [1, 2, 3] =
    [7, 0, 0, 0, 0, 0, 0, 0, 6, 6, 6, 6, 6, 6, 6, 6, 6, 6, 6, 6, 6, 6, 6, 6, 0] := by decide
example : checkVersionFile sumH (encodeCurrent sumH 7 [1, 2, 3]) [1, 2, 3] = .ok 7 := by decide
example : checkVersionFile sumH (encodeCurrent sumH 7 [1, 2, 3]) [1, 2, 4] = .error .versionChecksum := by decide
example : checkVersionFile sumH ((encodeCurrent sumH 7 [1, 2, 3]).set 24 1) [1, 2, 3]
    = .error .invalidChecksumType := by decide
example : checkVersionFile sumH ((encodeCurrent sumH 7 [1, 2, 3]).take 24) [1, 2, 3] = .error .truncated := by
  decide
example : checkVersionFile sumH (encodeCurrent sumH 7 [1, 2, 3]) [3, 2, 1] = .ok 7 := by decide  -- collision
example : recoverVersionIdNow (encodeCurrent sumH 7 [1, 2, 3]) [1, 2, 4] = .ok 7 := by decide     -- F1

end Lsm
