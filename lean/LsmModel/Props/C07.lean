import LsmModel.Props.C01
import LsmModel.Lemmas.StructLemmas
import LsmModel.Lemmas.FrameLemmas
/-!
# C07 — every published version is structurally sound

In every published version each run consists of tables with pairwise disjoint key ranges in ascending order, with all
versions of one key inside one table; wherever two tables in different runs or levels both contain a key, the one
consulted first holds only newer sequence numbers for it; each table's recorded key range equals its actual contents;
the version decodes to the same structure.

Formalisation (definitions in `LsmModel.Lemmas.{RunLemmas, VersionLemmas, ContentLemmas2, StructLemmas}`):
* a *published version* is the `version` of a history entry `sv ∈ t.hist` of a state `t` (`t.latest?` is the newest);
* `RunOk r`        — RUN: `r ≠ []`, every table `lo ≤ hi`, and `a.hi < b.lo` for every `a` before `b` in `r`;
* `Version.WF v`   — every run `RunOk`, table ids pairwise distinct, every table's recorded range COVERS the keys of
                     its entries (`meta_ok`), every table's entries strictly ascend in internal-key order (`src`);
* `tabHist v k`    — all versions of `k` in the tables of `v`, in read order (levels → runs → tables);
  `keyHist t sv k` — the same for a super version: active memtable, sealed memtables newest first, then `tabHist`;
  `Desc l`         — strictly descending seqnos (ORD for one key);
* `before l a b`   — `a` occurs before `b` in `l` (`l = l₁ ++ a :: l₂ ++ b :: l₃`); with `l := v.tables` this is "`a` is
                     consulted before `b`";
* `tableMetaOk tb` — META, exact form: `tb.lo` / `tb.hi` are the keys of the first / last entry (so `tb` is non-empty);
  `c07Tight v`     — every table of `v` satisfies `tableMetaOk`;
* `C07Sound v`     — `v.WF ∧ (∀ k, Desc (tabHist v k)) ∧ c07Tight v`: everything C07 says about one version;
* `Reach t ops t'` — a guarded run (C01's alphabet: write / rotate / flush / concurrent flush commit / admissible merge /
                     admissible move / reopen-after-flush, side conditions `okStep`, see `Props/C01.lean`);
  `Good t`, `GoodSv t sv` — C01's invariant (`c01_good_invariant`).

Hypotheses and where they come from:
* RUN, the covering range, sortedness and ORD are part of C01's invariant, hence they hold for the LATEST super version
  of every `Reach`-able state (`c07_reachable_structurally_sound`) and — because versions are immutable once
  installed — for EVERY history entry (`c07_every_published_version_sound`). ORD needs the admissibility side
  condition of merges/moves (see the counterexample in `Props/C01.lean`), so these theorems are about `Reach`.
* The EXACT recorded range needs no side condition at all: it is kept by every operation of the model, including
  `drop`, `clear`, bulk ingestion and key-value separated trees (`c07_exact_range_any_run`), because tables only ever
  come out of `cutTables` and the version transformations only move or remove tables (`c07_with_*_tables`).
* `cutsBetweenKeys` (the `is_next_key` guard of the multi-writer) is what makes the cut tables of one stream a RUN
  (`c07_cut_between_keys`); without it two output tables share a boundary key (counterexample below).
* F7: `with_moved` as at the pinned commit built ONE run from the moved tables as they came; moving a multi-run level
  gives an overlapping run (counterexample `withMovedLegacy` below). The model (`Version.withMoved`) uses the repair.

NOT covered — "the version decodes to the same structure": the model has no codec for the CONTENT of a version file
(level/run/table-id lists inside the sfa archive, `LsmModel/Table/Frame.lean` note N14). What exists is the frame-level
statement of C10 that the `current` pointer written for a version file (opaque bytes) is accepted by the repaired
recovery check and yields the same version id; it is restated here as `c07_version_roundtrip_partial`.
-/
namespace Lsm
variable {K : Type} [LT K] [DecidableLT K] [DecidableEq K] [LE K] [Std.IsLinearOrder K] [Std.LawfulOrderLT K]

/-! ## reachable states -/

/-- **C07 (latest version).** In every state of a guarded run from the empty tree the latest super version exists,
    its version is well formed (RUN, distinct ids, covering ranges, sorted tables) and, for every key, the seqnos of
    its versions strictly descend along the read order memtables → levels → runs → tables. -/
theorem c07_reachable_structurally_sound (n : Nat) (ops : List (Op K)) (t : TreeState K)
    (h : Reach (TreeState.init n none) ops t) :
    ∃ sv, t.latest? = some sv ∧ sv.version.WF ∧ ∀ k, Desc (keyHist t sv k) := by
  obtain ⟨sv, hl, hg, _⟩ := (c01_good_invariant n ops t h).sv
  exact ⟨sv, hl, hg.vwf, hg.ord⟩

/-- **C07 (every published version).** Every history entry of a reachable state carries a sound version: well formed,
    per-key descending seqnos along the read order of its tables, exact recorded key ranges. -/
theorem c07_every_published_version_sound (n : Nat) (ops : List (Op K)) (t : TreeState K)
    (h : Reach (TreeState.init n none) ops t) : ∀ sv ∈ t.hist, C07Sound sv.version :=
  c07_reach_hist_sound h (good_init n) (c07_init_hist_sound n none)

/-- one guarded step from ANY state satisfying the invariants keeps them -/
theorem c07_step (t t' : TreeState K) (op : Op K) (hg : Good t) (hok : okStep t op)
    (ha : t.applyOp op = some t') (hh : ∀ sv ∈ t.hist, C07Sound sv.version) :
    Good t' ∧ ∀ sv ∈ t'.hist, C07Sound sv.version :=
  ⟨(applyOp_good hg hok ha).1, c07_step_hist_sound hg hok ha hh⟩

/-- the harness's executable invariant (`TreeState.invOf`: SORT(table), SORT(memtable), META, RUN, ORD) reports no
    violation on the latest super version of a reachable state -/
theorem c07_reachable_inv_none (n : Nat) (ops : List (Op K)) (t : TreeState K)
    (h : Reach (TreeState.init n none) ops t) : ∃ sv, t.latest? = some sv ∧ t.invOf sv = none := by
  have hg := c01_good_invariant n ops t h
  obtain ⟨sv, hl, hgs, _⟩ := hg.sv
  exact ⟨sv, hl, c07_invOf_none hg.wf hgs
    (c07_every_published_version_sound n ops t h sv (latest_mem_hist hl)).tight⟩

/-- a good super version with tight tables carries a sound version -/
theorem c07_goodSv_sound {t : TreeState K} {sv : SuperVersion K} (hg : GoodSv t sv) (ht : c07Tight sv.version) :
    C07Sound sv.version :=
  ⟨hg.vwf, c07_goodSv_tab_ord hg, ht⟩

/-! ## (i) each run: pairwise disjoint key ranges in ascending order -/

/-- **(i)** every run of a well-formed version (in particular of `GoodSv t sv`, via `GoodSv.vwf`) is non-empty, every
    table has `lo ≤ hi`, and for ANY two tables `a` before `b` of the run (not only consecutive ones):
    `a.hi < b.lo` (disjoint, ascending), hence `a.lo < b.lo` and `a.hi < b.hi`; the two never `overlap`; and every
    key stored in `a` is smaller than every key stored in `b`. -/
theorem c07_runs_disjoint_ascending {v : Version K} (hv : v.WF) {r : Run K} (hr : r ∈ v.runs) :
    r ≠ [] ∧ (∀ tb ∈ r, ¬ tb.hi < tb.lo) ∧
    r.Pairwise (fun a b => a.hi < b.lo ∧ a.lo < b.lo ∧ a.hi < b.hi) ∧
    r.Pairwise (fun a b => a.overlaps b = false ∧ b.overlaps a = false) ∧
    r.Pairwise (fun a b => ∀ x ∈ a.entries, ∀ y ∈ b.entries, x.key < y.key) := by
  have hok := hv.runs_ok r hr
  obtain ⟨h1, h2, h3⟩ := c07_runOk_spelled hok
  exact ⟨h1, h2, h3, c07_run_no_overlap hok.sorted,
    c07_run_keys_ascending hok.sorted (fun t ht => hv.meta_ok t (c07_mem_tables_of_run hr ht))⟩

/-- the same for the latest super version of a good state -/
theorem c07_runs_disjoint_ascending_sv {t : TreeState K} {sv : SuperVersion K} (hg : GoodSv t sv) {r : Run K}
    (hr : r ∈ sv.version.runs) :
    r ≠ [] ∧ (∀ tb ∈ r, ¬ tb.hi < tb.lo) ∧
    r.Pairwise (fun a b => a.hi < b.lo ∧ a.lo < b.lo ∧ a.hi < b.hi) ∧
    r.Pairwise (fun a b => a.overlaps b = false ∧ b.overlaps a = false) ∧
    r.Pairwise (fun a b => ∀ x ∈ a.entries, ∀ y ∈ b.entries, x.key < y.key) :=
  c07_runs_disjoint_ascending hg.vwf hr

/-- RUN as the `Bool` the harness evaluates -/
theorem c07_runOkB_iff {r : Run K} : runOkB r = true ↔ RunOk r := runOkB_iff

/-! ## (iii) all versions of one key inside one table of a run -/

/-- **(iii)** at most one table of a run can hold a given key: two tables of one run whose ranges both contain `k`
    are the same table -/
theorem c07_key_in_one_table_per_run {v : Version K} (hv : v.WF) {r : Run K} (hr : r ∈ v.runs)
    {a b : TableM K} (ha : a ∈ r) (hb : b ∈ r) {k : K} (hak : a.containsKey k = true)
    (hbk : b.containsKey k = true) : a = b :=
  c07_run_one_table_per_key (hv.runs_ok r hr).sorted ha hb hak hbk

/-- **(iii)**, on contents: two entries with the same user key stored in tables of one run are stored in the SAME
    table (all versions of a key a run holds are inside one table) -/
theorem c07_key_versions_in_one_table {v : Version K} (hv : v.WF) {r : Run K} (hr : r ∈ v.runs)
    {a b : TableM K} (ha : a ∈ r) (hb : b ∈ r) {x y : Entry K} (hx : x ∈ a.entries) (hy : y ∈ b.entries)
    (hk : x.key = y.key) : a = b :=
  c07_run_key_versions_one_table hv hr ha hb hx hy hk

/-- the point-read path relies on exactly this: the tables of a run that may hold `k` are at most one -/
theorem c07_at_most_one_candidate_per_run {v : Version K} (hv : v.WF) {r : Run K} (hr : r ∈ v.runs) (k : K) :
    (r.filter (fun t => t.containsKey k)).length ≤ 1 :=
  filter_containsKey_length_le_one (hv.runs_ok r hr).sorted k

/-- inside one table the versions of a key are stored newest first -/
theorem c07_table_versions_descending {v : Version K} (hv : v.WF) {tb : TableM K} (htb : tb ∈ v.tables) (k : K) :
    Desc (keyOf k tb.entries) :=
  (hv.src tb htb).desc_keyOf k

/-! ## (ii) the source consulted first holds only newer sequence numbers -/

/-- **(ii)** tables of the latest super version of a good state: if `A` is consulted before `B` and both hold an
    entry of the same user key, the entry in `A` has the larger seqno -/
theorem c07_read_order_newer {t : TreeState K} {sv : SuperVersion K} (hg : GoodSv t sv) {A B : TableM K}
    (hb : before sv.version.tables A B) {x y : Entry K} (hx : x ∈ A.entries) (hy : y ∈ B.entries)
    (hk : x.key = y.key) : y.seqno < x.seqno :=
  c07_version_read_order (c07_goodSv_tab_ord hg) hb hx hy hk

/-- **(ii)** for any sound version (any history entry of a reachable state) -/
theorem c07_read_order_newer_version {v : Version K} (hs : C07Sound v) {A B : TableM K}
    (hb : before v.tables A B) {x y : Entry K} (hx : x ∈ A.entries) (hy : y ∈ B.entries)
    (hk : x.key = y.key) : y.seqno < x.seqno :=
  c07_version_read_order hs.ord hb hx hy hk

/-- **(ii)** as the harness evaluates it: `newerThan A.entries B.entries` for `A` consulted before `B` -/
theorem c07_read_order_newerThan {v : Version K} (hs : C07Sound v) {A B : TableM K}
    (hb : before v.tables A B) : newerThan A.entries B.entries = true :=
  (c07_newerThan_iff _ _).2 (fun _ hx _ hy hk => c07_version_read_order hs.ord hb hx hy hk)

/-- two different tables of a sound version sharing a key: one is consulted before the other (never both ways), and
    that one holds only newer versions of EVERY key the two share; they sit in different runs -/
theorem c07_shared_key_tables_ordered {v : Version K} (hs : C07Sound v) {A B : TableM K}
    (hA : A ∈ v.tables) (hB : B ∈ v.tables) (hne : A ≠ B) :
    (before v.tables A B ∧ ¬ before v.tables B A ∧ newerThan A.entries B.entries = true) ∨
    (before v.tables B A ∧ ¬ before v.tables A B ∧ newerThan B.entries A.entries = true) := by
  rcases c07_before_total hA hB hne with h | h
  · exact Or.inl ⟨h, fun h' => c07_before_asymm hs.wf.tables_nodup h h', c07_read_order_newerThan hs h⟩
  · exact Or.inr ⟨h, fun h' => c07_before_asymm hs.wf.tables_nodup h' h, c07_read_order_newerThan hs h⟩

/-- **(ii)** memtables against tables: every memtable of the super version holds only newer versions of a key than
    any table -/
theorem c07_memtable_newer_than_tables {t : TreeState K} {sv : SuperVersion K} (hg : GoodSv t sv) {id : Nat}
    (hid : id ∈ sv.active :: sv.sealed) {tb : TableM K} (htb : tb ∈ sv.version.tables) {x y : Entry K}
    (hx : x ∈ t.mem id) (hy : y ∈ tb.entries) (hk : x.key = y.key) : y.seqno < x.seqno :=
  c07_goodSv_mem_vs_table hg hid htb hx hy hk

/-- **(ii)** the active memtable holds only newer versions of a key than any sealed memtable -/
theorem c07_active_newer_than_sealed {t : TreeState K} {sv : SuperVersion K} (hg : GoodSv t sv) {id : Nat}
    (hid : id ∈ sv.sealed) {x y : Entry K} (hx : x ∈ t.mem sv.active) (hy : y ∈ t.mem id)
    (hk : x.key = y.key) : y.seqno < x.seqno :=
  c07_goodSv_active_vs_sealed hg hid hx hy hk

/-- **(ii)** of two sealed memtables the one sealed later (`sealed` is oldest first) holds the newer versions -/
theorem c07_later_sealed_newer {t : TreeState K} {sv : SuperVersion K} (hg : GoodSv t sv)
    {l1 l2 l3 : List Nat} {a b : Nat} (hl : sv.sealed = l1 ++ a :: l2 ++ b :: l3) {x y : Entry K}
    (hx : x ∈ t.mem b) (hy : y ∈ t.mem a) (hk : x.key = y.key) : y.seqno < x.seqno :=
  c07_goodSv_sealed_order hg hl hx hy hk

/-! ## (iv) the recorded key range equals the actual contents -/

/-- **(iv)** a table of a sound version is non-empty, its recorded `lo` / `hi` are the keys of its first / last
    entry — in particular keys that ARE stored in it — and every stored key lies in `[lo, hi]` -/
theorem c07_recorded_range_exact {v : Version K} (hs : C07Sound v) {tb : TableM K} (htb : tb ∈ v.tables) :
    (∃ f la, tb.entries.head? = some f ∧ tb.entries.getLast? = some la ∧ f.key = tb.lo ∧ la.key = tb.hi) ∧
    tb.entries ≠ [] ∧ (∃ e ∈ tb.entries, e.key = tb.lo) ∧ (∃ e ∈ tb.entries, e.key = tb.hi) ∧
    ∀ e ∈ tb.entries, ¬ e.key < tb.lo ∧ ¬ tb.hi < e.key :=
  ⟨(c07_tableMetaOk_iff tb).1 (hs.tight tb htb), c07_tight_exact (hs.tight tb htb) (hs.wf.src tb htb)⟩

/-- **(iv)** the recorded range is the smallest range covering the contents -/
theorem c07_recorded_range_minimal {v : Version K} (hs : C07Sound v) {tb : TableM K} (htb : tb ∈ v.tables)
    {lo' hi' : K} (hc : ∀ e ∈ tb.entries, ¬ e.key < lo' ∧ ¬ hi' < e.key) : ¬ tb.lo < lo' ∧ ¬ hi' < tb.hi :=
  c07_tight_minimal (hs.tight tb htb) (hs.wf.src tb htb) hc

/-- **(iv)** for every table of every history entry of a reachable state -/
theorem c07_reachable_recorded_range_exact (n : Nat) (ops : List (Op K)) (t : TreeState K)
    (h : Reach (TreeState.init n none) ops t) {sv : SuperVersion K} (hsv : sv ∈ t.hist) {tb : TableM K}
    (htb : tb ∈ sv.version.tables) :
    tb.entries ≠ [] ∧ (∃ e ∈ tb.entries, e.key = tb.lo) ∧ (∃ e ∈ tb.entries, e.key = tb.hi) ∧
    ∀ e ∈ tb.entries, ¬ e.key < tb.lo ∧ ¬ tb.hi < e.key :=
  (c07_recorded_range_exact (c07_every_published_version_sound n ops t h sv hsv) htb).2

/-- **(iv)** without any side condition: after ANY history the model accepts (`TreeState.run`: arbitrary merges, moves,
    `drop`, `clear`, bulk ingestion, with or without key-value separation) every table of the latest version records
    first key / last key of its content -/
theorem c07_exact_range_any_run (n : Nat) (b : Option Nat) (ops : List (Op K)) (t : TreeState K)
    (h : (TreeState.init n b).run ops = some t) {sv : SuperVersion K} (hl : t.latest? = some sv) {tb : TableM K}
    (htb : tb ∈ sv.version.tables) : tableMetaOk tb = true :=
  c07_run_latest_tight h (c07_init_latest_tight n b) sv hl tb htb

/-- the exact range is kept by every single operation -/
theorem c07_exact_range_step (t t' : TreeState K) (op : Op K) (ha : t.applyOp op = some t')
    (h : ∀ sv, t.latest? = some sv → ∀ tb ∈ sv.version.tables, tableMetaOk tb = true) :
    ∀ sv, t'.latest? = some sv → ∀ tb ∈ sv.version.tables, tableMetaOk tb = true :=
  c07_applyOp_latest_tight ha h

/-- exact ⇒ covering: `tableMetaOk` (with sorted content) implies the `meta_ok` clause of `Version.WF` -/
theorem c07_exact_implies_covering {tb : TableM K} (h : tableMetaOk tb = true) (hs : IsSource tb.entries) :
    ∀ e ∈ tb.entries, tb.containsKey e.key = true :=
  c07_tight_covers h hs

/-! ## the building blocks, in the property's words -/

/-- what the multi-writer produces: the contents of the output tables concatenate to the stream, the table ids are the
    observed ones in order, and every output table is non-empty with recorded range = first key / last key -/
theorem c07_cut_tables_content {cuts : List (Nat × Nat)} {l : List (Entry K)} {g : Nat} {ts : List (TableM K)}
    (h : cutTables cuts l g = some ts) :
    ts.flatMap (·.entries) = l ∧ ts.map (·.id) = cuts.map (·.1) ∧
    (∀ tb ∈ ts, ∃ f la, tb.entries.head? = some f ∧ tb.entries.getLast? = some la ∧ tb.lo = f.key ∧ tb.hi = la.key) ∧
    ∀ tb ∈ ts, tableMetaOk tb = true :=
  ⟨cutTables_entries h, cutTables_ids h, cutTables_meta h, c07_cutTables_tight h⟩

/-- a sorted stream cut only BETWEEN distinct user keys (`is_next_key`) gives tables with pairwise disjoint ascending
    ranges (`a.hi < b.lo` for `a` before `b`), each sorted and covering its keys -/
theorem c07_cut_between_keys {cuts : List (Nat × Nat)} {l : List (Entry K)} {g : Nat} {ts : List (TableM K)}
    (hs : IsSource l) (h : cutTables cuts l g = some ts) (hc : cutsBetweenKeys ts = true) :
    RunSorted ts ∧ (∀ tb ∈ ts, IsSource tb.entries) ∧ (∀ tb ∈ ts, ∀ e ∈ tb.entries, tb.containsKey e.key = true) :=
  cutTables_run hs h hc

omit [LE K] [Std.IsLinearOrder K] [Std.LawfulOrderLT K] in
/-- `optimize_runs` loses and invents no table -/
theorem c07_optimize_keeps_tables (runs : List (Run K)) : (optimizeRuns runs).flatten.Perm runs.flatten :=
  optimize_perm runs

/-- `optimize_runs` outputs RUNs (disjoint ascending tables) -/
theorem c07_optimize_runs_ok (runs : List (Run K)) (hl : ∀ t ∈ runs.flatten, ¬ t.hi < t.lo)
    (h : ∀ r ∈ runs, RunOk r) : ∀ r ∈ optimizeRuns runs, RunOk r :=
  optimize_runs_ok runs hl h

/-- `optimize_runs` keeps the relative read order of the tables that may hold a key `k` -/
theorem c07_optimize_keeps_key_order (runs : List (Run K)) (h : ∀ r ∈ runs, RunOk r) (hnd : runs.flatten.Nodup)
    (k : K) : (optimizeRuns runs).flatten.filter (fun t => t.containsKey k)
      = runs.flatten.filter (fun t => t.containsKey k) :=
  optimize_keyOrder runs h hnd k

omit [LE K] [Std.IsLinearOrder K] [Std.LawfulOrderLT K] in
/-- `optimize_runs` puts an overlapping table that came earlier in read order into an earlier run -/
theorem c07_optimize_keeps_overlap_order (runs : List (Run K)) (h2 : 2 ≤ runs.length) (hnd : runs.flatten.Nodup)
    (a b : TableM K) (hb : before runs.flatten a b) (ho : a.overlaps b = true) :
    ∃ i j, runIdx (optimizeRuns runs) a = some i ∧ runIdx (optimizeRuns runs) b = some j ∧ i < j :=
  optimize_order runs h2 hnd a b hb ho

/-- `with_merge` keeps a version well formed when the output tables are a sorted run of sorted, covering tables with
    fresh distinct ids -/
theorem c07_with_merge_wf {v : Version K} (hv : v.WF) (ids : List Nat) (nt : Run K) (dest : Nat)
    (hnt : RunSorted nt) (hid : (nt.map (·.id)).Nodup) (hfresh : ∀ t ∈ nt, t.id ∉ v.tables.map (·.id))
    (hmeta : ∀ t ∈ nt, ∀ e ∈ t.entries, t.containsKey e.key = true)
    (hsrc : ∀ t ∈ nt, IsSource t.entries) : (v.withMerge ids nt dest).WF :=
  withMerge_WF hv ids nt dest hnt hid hfresh hmeta hsrc

/-- `with_moved` (repaired, F7) keeps a version well formed -/
theorem c07_with_moved_wf {v : Version K} (hv : v.WF) (ids : List Nat) (dest : Nat) : (v.withMoved ids dest).WF :=
  withMoved_WF hv ids dest

/-- `with_dropped` keeps a version well formed -/
theorem c07_with_dropped_wf {v : Version K} (hv : v.WF) (ids : List Nat) : (v.withDropped ids).WF :=
  withDropped_WF hv ids

/-- `with_new_l0_run` keeps a version well formed (same conditions on the new run as for `with_merge`) -/
theorem c07_with_new_l0_run_wf {v : Version K} (hv : v.WF) (nt : Run K)
    (hnt : RunSorted nt) (hid : (nt.map (·.id)).Nodup) (hfresh : ∀ t ∈ nt, t.id ∉ v.tables.map (·.id))
    (hmeta : ∀ t ∈ nt, ∀ e ∈ t.entries, t.containsKey e.key = true)
    (hsrc : ∀ t ∈ nt, IsSource t.entries) : (v.withNewL0Run nt).WF :=
  withNewL0Run_WF hv nt hnt hid hfresh hmeta hsrc

/-- `with_merge`: exactly the inputs leave and the outputs enter -/
theorem c07_with_merge_tables (v : Version K) (ids : List Nat) (nt : Run K) (dest : Nat)
    (hdest : dest < v.levels.length) :
    (v.withMerge ids nt dest).tables.Perm (v.tables.filter (fun t => !ids.contains t.id) ++ nt) :=
  withMerge_tables_perm v ids nt dest hdest

/-- `with_moved`: the table set is unchanged -/
theorem c07_with_moved_tables (v : Version K) (ids : List Nat) (dest : Nat) (hdest : dest < v.levels.length) :
    (v.withMoved ids dest).tables.Perm v.tables :=
  withMoved_tables_perm v ids dest hdest

/-- `with_dropped`: exactly the tables with the given ids disappear -/
theorem c07_with_dropped_tables (v : Version K) (ids : List Nat) :
    (v.withDropped ids).tables.Perm (v.tables.filter (fun t => !ids.contains t.id)) :=
  withDropped_tables_perm v ids

/-- `with_new_l0_run`: the new tables are added, nothing else changes -/
theorem c07_with_new_l0_run_tables (v : Version K) (nt : Run K) (h0 : 0 < v.levels.length) :
    (v.withNewL0Run nt).tables.Perm (nt ++ v.tables) :=
  withNewL0Run_tables_perm v nt h0

/-- no transformation invents a table (no side condition) -/
theorem c07_transformations_invent_no_table (v : Version K) (ids : List Nat) (nt : Run K) (dest : Nat)
    (tb : TableM K) :
    (tb ∈ (v.withNewL0Run nt).tables → tb ∈ nt ∨ tb ∈ v.tables) ∧
    (tb ∈ (v.withMerge ids nt dest).tables → tb ∈ nt ∨ tb ∈ v.tables) ∧
    (tb ∈ (v.withMoved ids dest).tables → tb ∈ v.tables) ∧
    (tb ∈ (v.withDropped ids).tables → tb ∈ v.tables) :=
  ⟨c07_mem_withNewL0Run, c07_mem_withMerge, c07_mem_withMoved, c07_mem_withDropped⟩

/-! ## "decodes to the same structure" — what exists -/

/-- PARTIAL. The model has no codec for the content of a version file; the only roundtrip statement about version
    files is C10's frame-level one: the `current` file written for the version file bytes `v` with id `id` is accepted
    by the (repaired) recovery check together with `v` and yields `id`. -/
theorem c07_version_roundtrip_partial {H : Frame.Bytes → Frame.Bytes} (hH : ∀ x, (H x).length = 16) {id : Nat}
    (hid : id < 2 ^ 64) (v : Frame.Bytes) :
    Frame.checkVersionFile H (Frame.encodeCurrent H id v) v = .ok id :=
  Frame.version_roundtrip hH hid v

/-! ## Non-vacuity and counterexamples (`K := Nat`) -/
namespace C07Example
open C01Example

/-- the first five steps of `C01Example.reach7`: two L0 runs `[t101]`, `[t100]`, both holding key 1 -/
theorem reach5 : Reach s0
    [.write [a0], .write [b1], .flush 0 1 [(100, 2)], .write [d3], .flush 0 2 [(101, 1)]] s5 := by
  refine .step (t' := _) ?_ rfl (.step (t' := s2) ?_ rfl (.step ok3 step3 (.step ?_ step4 (.step ok5 step5
    (.refl _)))))
  · exact ⟨by decide, by decide⟩
  · exact ⟨by decide, by decide⟩
  · exact ⟨by decide, by decide⟩

theorem good5 : GoodSv s5 ⟨2, [], v2, 4⟩ := c07_good_latest (c01_good_invariant 2 _ s5 reach5) rfl

/-- the main theorem on `s5` and on the final state `s7` of `C01Example.reach7` -/
example : ∃ sv, s5.latest? = some sv ∧ sv.version.WF ∧ ∀ k, Desc (keyHist s5 sv k) :=
  c07_reachable_structurally_sound 2 _ s5 reach5
example : ∃ sv, s7.latest? = some sv ∧ sv.version.WF ∧ ∀ k, Desc (keyHist s7 sv k) :=
  c07_reachable_structurally_sound 2 _ s7 reach7

theorem sound_v2 : C07Sound v2 :=
  c07_every_published_version_sound 2 _ s5 reach5 ⟨2, [], v2, 4⟩ (by simp [s5])

/-- all three published versions of `s5` (`v0`, `v1`, `v2`) are sound -/
example : C07Sound v0 ∧ C07Sound v1 ∧ C07Sound v2 :=
  ⟨c07_every_published_version_sound 2 _ s5 reach5 ⟨1, [0], v0, 0⟩ (by simp [s5]),
   c07_every_published_version_sound 2 _ s5 reach5 ⟨2, [1], v1, 2⟩ (by simp [s5]),
   c07_every_published_version_sound 2 _ s5 reach5 ⟨2, [], v2, 4⟩ (by simp [s5])⟩

/-- the harness invariant on `s5`, by the theorem and by evaluation -/
example : ∃ sv, s5.latest? = some sv ∧ s5.invOf sv = none := c07_reachable_inv_none 2 _ s5 reach5
example : s5.inv = none := by decide

/-- (ii) on `s5`: `t101 = [d3]` is consulted before `t100 = [a0, b1]`; both hold key 1; the tombstone `d3` (seqno 3)
    in the table read first is newer than the value `a0` (seqno 0) -/
example : a0.seqno < d3.seqno :=
  c07_read_order_newer good5 (A := t101) (B := t100) ⟨[], [], [], rfl⟩ (x := d3) (y := a0)
    (by decide) (by decide) rfl

example : newerThan t101.entries t100.entries = true :=
  c07_read_order_newerThan sound_v2 ⟨[], [], [], rfl⟩

/-- … and the two tables are in different runs, ordered one way only -/
example : before v2.tables t101 t100 ∧ ¬ before v2.tables t100 t101 := by
  rcases c07_shared_key_tables_ordered (c07_goodSv_sound good5 sound_v2.tight) (A := t101) (B := t100)
    (by decide) (by decide) (by decide) with h | h
  · exact ⟨h.1, h.2.1⟩
  · exact absurd h.2.2 (by decide)

/-- (ii) memtable against tables: state `s4` (`d3` still in the active memtable 1, `a0` in table `t100`) -/
theorem reach4 : Reach s0 [.write [a0], .write [b1], .flush 0 1 [(100, 2)], .write [d3]] s4 := by
  refine .step (t' := _) ?_ rfl (.step (t' := s2) ?_ rfl (.step ok3 step3 (.step ?_ step4 (.refl _))))
  · exact ⟨by decide, by decide⟩
  · exact ⟨by decide, by decide⟩
  · exact ⟨by decide, by decide⟩

example : a0.seqno < d3.seqno :=
  c07_memtable_newer_than_tables (t := s4) (sv := ⟨1, [], v1, 2⟩)
    (c07_good_latest (c01_good_invariant 2 _ s4 reach4) rfl) (id := 1) (by decide) (tb := t100) (by decide)
    (x := d3) (y := a0) (by decide) (by decide) rfl

/-- (ii) active against sealed: `s4` after a rotation (`d3` sealed in memtable 1) and a re-insert of key 1 -/
def e4 : Entry Nat := ⟨1, 4, .value, [11]⟩
def s4w : TreeState Nat := { s4r with mems := [⟨0, [a0, b1]⟩, ⟨1, [d3]⟩, ⟨2, [e4]⟩], seqCtr := 5, visible := 5 }

theorem reach4w : Reach s0
    [.write [a0], .write [b1], .flush 0 1 [(100, 2)], .write [d3], .rotate 2, .write [e4]] s4w := by
  refine .step (t' := _) ?_ rfl (.step (t' := s2) ?_ rfl (.step ok3 step3 (.step ?_ step4
    (.step (t' := s4r) trivial rfl (.step (t' := s4w) ?_ rfl (.refl _))))))
  · exact ⟨by decide, by decide⟩
  · exact ⟨by decide, by decide⟩
  · exact ⟨by decide, by decide⟩
  · exact ⟨by decide, by decide⟩

example : d3.seqno < e4.seqno :=
  c07_active_newer_than_sealed (t := s4w) (sv := ⟨2, [1], v1, 2⟩)
    (c07_good_latest (c01_good_invariant 2 _ s4w reach4w) rfl) (id := 1) (by decide)
    (x := e4) (y := d3) (by decide) (by decide) rfl

/-- (i), (iii), (iv) on a reachable state whose L0 run has TWO tables: the flush of `[a0, b1]` cut after `a0` -/
def u100 : TableM Nat := ⟨100, 1, 1, [a0], 0⟩
def u101 : TableM Nat := ⟨101, 2, 2, [b1], 0⟩
def w1 : Version Nat := ⟨1, [[[u100, u101]], []]⟩
def q3 : TreeState Nat :=
  { hist := [⟨1, [0], v0, 0⟩, ⟨1, [], w1, 2⟩], mems := [⟨0, [a0, b1]⟩, ⟨1, []⟩], seqCtr := 3, visible := 3,
    levelCount := 2 }

theorem step3q : s2.applyOp (.flush 0 1 [(100, 1), (101, 1)]) = some q3 := by
  show s2r.flushSealed 0 [(100, 1), (101, 1)] = some q3
  have hl : s2r.latest? = some ⟨1, [0], v0, 0⟩ := rfl
  simp only [TreeState.flushSealed, hl, stream2]
  rfl

theorem ok3q : okStep s2 (.flush 0 1 [(100, 1), (101, 1)]) := by
  refine ⟨by decide, fun sv hsv => ?_⟩
  rw [rot2] at hsv ⊢
  obtain rfl : sv = ⟨1, [0], v0, 0⟩ := Option.some.inj (hsv.symm.trans (rfl : s2r.latest? = _))
  rw [stream2]
  refine ⟨by decide, by decide, fun ts hts => ?_⟩
  cases hts; rfl

theorem reach3q : Reach s0 [.write [a0], .write [b1], .flush 0 1 [(100, 1), (101, 1)]] q3 := by
  refine .step (t' := _) ?_ rfl (.step (t' := s2) ?_ rfl (.step ok3q step3q (.refl _)))
  · exact ⟨by decide, by decide⟩
  · exact ⟨by decide, by decide⟩

theorem sound_w1 : C07Sound w1 :=
  c07_every_published_version_sound 2 _ q3 reach3q ⟨1, [], w1, 2⟩ (by simp [q3])

/-- (i): the run `[u100, u101]` is non-empty, `u100.hi < u101.lo`, and key 1 of `u100` < key 2 of `u101` -/
example : u100.hi < u101.lo ∧ a0.key < b1.key := by
  obtain ⟨_, _, h3, _, h5⟩ := c07_runs_disjoint_ascending sound_w1.wf (r := [u100, u101]) (by decide)
  rw [List.pairwise_pair] at h3 h5
  exact ⟨h3.1, h5 a0 (by decide) b1 (by decide)⟩

/-- (iii): a table of that run containing key 2 can only be `u101` -/
example (tb : TableM Nat) (h : tb ∈ [u100, u101]) (hk : tb.containsKey 2 = true) : tb = u101 :=
  c07_key_in_one_table_per_run sound_w1.wf (r := [u100, u101]) (by decide) h (by decide) hk (by decide)

/-- (iv): the recorded range of `u101` is exactly the range of its contents -/
example : u101.entries ≠ [] ∧ (∃ e ∈ u101.entries, e.key = u101.lo) ∧ (∃ e ∈ u101.entries, e.key = u101.hi) ∧
    ∀ e ∈ u101.entries, ¬ e.key < u101.lo ∧ ¬ u101.hi < e.key :=
  c07_reachable_recorded_range_exact 2 _ q3 reach3q (sv := ⟨1, [], w1, 2⟩) (by simp [q3]) (tb := u101) (by decide)

/-- (iv) for an unguarded history (`TreeState.run`): the same flush followed by a `drop` of table 100 (`drop` is
    outside C01's alphabet) -/
def q4 : TreeState Nat := q3.install ⟨1, [], w1.withDropped [100], 2⟩ 0

theorem run4q :
    s0.run [.write [a0], .write [b1], .flush 0 1 [(100, 1), (101, 1)], .drop [100] 0] = some q4 := by
  show (TreeState.run s2 [.flush 0 1 [(100, 1), (101, 1)], .drop [100] 0]) = some q4
  simp only [TreeState.run, step3q]
  rfl

example : (w1.withDropped [100]).tables = [u101] ∧ ∀ tb ∈ (w1.withDropped [100]).tables, tableMetaOk tb = true :=
  ⟨by decide, fun _ htb => c07_exact_range_any_run 2 none _ q4 run4q (sv := ⟨1, [], w1.withDropped [100], 3⟩) rfl htb⟩

/-- (i), (iii) on the three-level version `exV` of `VersionLemmas` (run `[3: 0..4, 4: 6..20]` in level 2) -/
example : (mkTE 3 0 4 [(4, 1)]).hi < (mkTE 4 6 20 [(6, 2), (20, 3)]).lo := by
  obtain ⟨_, _, h3, _, _⟩ := c07_runs_disjoint_ascending exV_WF
    (r := [mkTE 3 0 4 [(4, 1)], mkTE 4 6 20 [(6, 2), (20, 3)]]) (by decide)
  rw [List.pairwise_pair] at h3
  exact h3.1

/-- `Version.WF` (covering ranges) does NOT imply exact ranges: table 0 of `exV` records `0..5` but holds only key 4 -/
example : exV.WF ∧ tableMetaOk (mkTE 0 0 5 [(4, 9)]) = false := ⟨exV_WF, by decide⟩

/-! #### `cutsBetweenKeys` cannot be dropped -/

def k5 : Entry Nat := ⟨1, 5, .value, [1]⟩
def k3 : Entry Nat := ⟨1, 3, .value, [2]⟩
def k2 : Entry Nat := ⟨2, 2, .value, [3]⟩

/-- a cut between the two versions of key 1 gives two tables sharing the boundary key (`a.hi = b.lo`):
    `cutsBetweenKeys` is false, the output is not a RUN, and key 1 has candidates in two tables of the "run" -/
example : ∃ ts, cutTables [(100, 1), (101, 2)] [k5, k3, k2] 0 = some ts ∧ IsSource [k5, k3, k2] ∧
    cutsBetweenKeys ts = false ∧ runOkB ts = false ∧ (ts.filter (fun t => t.containsKey 1)).length = 2 :=
  ⟨[⟨100, 1, 1, [k5], 0⟩, ⟨101, 1, 2, [k3, k2], 0⟩], rfl, (isSourceB_iff _).1 (by decide), by decide, by decide,
    by decide⟩

/-- the same stream cut between keys 1 and 2: `c07_cut_between_keys` applies -/
example : RunSorted [(⟨100, 1, 1, [k5, k3], 0⟩ : TableM Nat), ⟨101, 2, 2, [k2], 0⟩] :=
  (c07_cut_between_keys (cuts := [(100, 2), (101, 1)]) (g := 0) ((isSourceB_iff [k5, k3, k2]).1 (by decide)) rfl
    (by decide)).1

/-! #### F7: `with_moved` at the pinned commit -/

/-- level 0 holds two overlapping single-table runs (`5..9` over `0..6`), level 1 is empty -/
def vF7 : Version Nat := ⟨0, [[[mkTE 0 5 9 [(5, 9), (9, 8)]], [mkTE 1 0 6 [(0, 6), (3, 7), (6, 5)]]], []]⟩

/-- MoveDown of the whole level 0 into level 1: the legacy code builds ONE run from both tables — overlapping, not a
    RUN — while the repaired `with_moved` keeps two runs in read order -/
example : (vF7.withMovedLegacy [0, 1] 1).runs.all runOkB = false ∧
    (vF7.withMoved [0, 1] 1).runs.all runOkB = true ∧
    (vF7.withMoved [0, 1] 1).runs.map (fun r => r.map (·.id)) = [[0], [1]] ∧
    (vF7.withMovedLegacy [0, 1] 1).runs.map (fun r => r.map (·.id)) = [[0, 1]] := by decide

/-- … and key 3 is LOST for point reads in the legacy result: `get_for_key` on the malformed run `[5..9, 0..6]` stops at
    table 0 and never looks at table 1, which holds the key -/
example : versionGet (vF7.withMovedLegacy [0, 1] 1) 3 10 = none ∧
    (versionGet (vF7.withMoved [0, 1] 1) 3 10).map (·.seqno) = some 7 ∧
    (versionGet vF7 3 10).map (·.seqno) = some 7 := by decide

/-- the partial codec statement is not vacuous: toy hash = 16 zero bytes -/
example : Frame.checkVersionFile (fun _ => List.replicate 16 0) (Frame.encodeCurrent (fun _ => List.replicate 16 0) 7 [1, 2, 3])
    [1, 2, 3] = .ok 7 :=
  c07_version_roundtrip_partial (by intro x; simp) (by decide) [1, 2, 3]

end C07Example

end Lsm
