import LsmModel.Lemmas.DropClearLemmas
import LsmModel.Props.C01
/-!
# C15 — `drop_range` and `clear` are precise

`drop_range(R)` never changes the result of any read for keys outside `R`, and leaves every snapshot taken before it
untouched for all keys; an empty or inverted `R` changes nothing. `clear()` makes the tree empty for every snapshot
taken afterwards while earlier snapshots keep their full view; later writes are unaffected.

Formalisation (model: `LsmModel.Tree.Ops`, `LsmModel.Tree.Strategy`; lemmas: `LsmModel.Lemmas.DropClearLemmas`):

* `Tree::drop_range(R)` = `range_bounds_to_owned_bounds` (flag `is_empty` = `boundsInverted lo hi`; when set the call
  returns WITHOUT issuing any operation), then one compaction run with `drop_range::Strategy`, whose choice is
  `dropRangeChoose lo hi v hidden` on the current version `v` (`hidden` = tables hidden by running compactions):
  `.doNothing` (no operation) or `.drop ids`, committed by `Op.drop ids wm` = `TreeState.dropCommit`
  (installs `v.withDropped ids`; `wm` = the GC watermark handed to `maintenance`).
* `Tree::clear()` = `Op.clear m` = `TreeState.clear` (`m` = the id of the new active memtable, `t.freshMem m`: ids
  come from a counter): a new super version with an EMPTY version, no sealed memtables and the fresh memtable.
* Reads: `t.getAt k S` (point read of `k` at snapshot `S`; outer `none` = the real code would panic, inner `none` =
  key absent), `t.scanAt S lo hi w overlay` (range scan).
* "the newest snapshots": every `S ≥ t.seqCtr` (`seqCtr` = next seqno to be handed out; in particular `visible` once
  all writes returned, and `SeqNo::MAX`). "a snapshot taken before the operation": `0 < S ≤ t.seqCtr` with `S` at
  least the operation's GC watermark (a snapshot below the watermark is not protected by the real code either:
  its super version may be freed).
* Hypothesis `Good t` (ContentLemmas2): the C01 invariant — structural well-formedness of the state and of the latest
  version (RUN, META, sorted tables, distinct table ids), no key-value separation, stored seqnos below the counter,
  no weak tombstones, per-key descending seqnos in read order. It holds in every state reachable by C01's alphabet
  (`c01_good_invariant`) and — proved here — is PRESERVED by `drop` (any ids) and by `clear`
  (`c15_drop_range_outside_untouched`, `c15_clear_empties`, `c15_run_good`), so the theorems chain.
* "key outside `R`": `inBounds lo hi k = false`.

Main statements
* `c15_drop_range_outside_untouched` — newest-snapshot reads of keys outside `R` are unchanged by the drop chosen by
  the strategy, `Good` is kept.
* `c15_drop_range_old_snapshots` — every earlier snapshot reads (point and scan) the same for ALL keys.
* `c15_drop_range_empty_noop`, `c15_drop_range_inverted_noop` — a range without keys (in particular an inverted one,
  `boundsInverted`, for which the real API does not even run the strategy) selects NO table (`ids = []`) and even if
  the (empty) drop is committed, no read of any key at any snapshot changes.
* `c15_clear_empties`, `c15_clear_old_snapshots`, `c15_clear_then_write`.
* `c15_run`, `c15_run_noclear` — run level: C01's alphabet extended by `drop` (chosen by `dropRangeChoose` for bounds
  avoiding a set `P` of protected keys) and `clear` (`okStep15`, `Reach15`): every protected key reads what the
  ordered-map replay `c15_replay` (writes set, `clear` resets, everything else is the identity) gives; without
  `clear` this is `live (lastWrite ops k)` as in C01.

That the restriction "outside `R`" matters is witnessed by `C15Example`: dropping the table holding the tombstone of
key 1 makes the older value of key 1 (in a table only PARTIALLY inside `R`, hence kept) visible again —
`drop_range` is not a range delete.
-/
namespace Lsm
variable {K : Type} [LT K] [DecidableLT K] [DecidableEq K] [LE K] [Std.IsLinearOrder K] [Std.LawfulOrderLT K]

/-! ### drop_range -/

/-- **C15 (drop_range, keys outside the range).** If the drop_range strategy chooses `.drop ids` for the bounds
    `(lo, hi)` on the latest version of a `Good` state and the drop is committed, then the invariant is kept and every
    key outside the bounds reads at the newest snapshots of the new state exactly what it read at the newest
    snapshots of the old state. -/
theorem c15_drop_range_outside_untouched (t t' : TreeState K) (hg : Good t) (sv : SuperVersion K)
    (hl : t.latest? = some sv) (lo hi : Bound K) (hidden ids : List Nat) (wm : Nat)
    (hch : dropRangeChoose lo hi sv.version hidden = .drop ids) (ha : t.applyOp (.drop ids wm) = some t') :
    Good t' ∧ ∀ k, inBounds lo hi k = false → ∀ S S', t.seqCtr ≤ S → t'.seqCtr ≤ S' →
      t'.getAt k S' = t.getAt k S := by
  obtain ⟨sv0, hl0, hgsv, _⟩ := hg.sv
  have hsv : sv0 = sv := Option.some.inj (hl0.symm.trans hl)
  subst hsv
  obtain ⟨hg', hr⟩ := dropCommit_good_outside hg (show t.dropCommit ids wm = some t' from ha) lo hi
    (fun sv' hl' => by
      have : sv' = sv0 := Option.some.inj (hl'.symm.trans hl)
      subst this
      exact dropc_choose_contained hgsv.vwf hch)
  refine ⟨hg', fun k hk S S' hS hS' => ?_⟩
  rw [good_getAt hg' k S' hS', good_getAt hg k S hS, hr k hk]

/-- the same for ANY committed drop of tables that all lie inside the bounds (whoever chose them) -/
theorem c15_drop_contained_outside_untouched (t t' : TreeState K) (hg : Good t) (lo hi : Bound K) (ids : List Nat)
    (wm : Nat)
    (hc : ∀ sv, t.latest? = some sv → ∀ tb ∈ sv.version.tables, tb.id ∈ ids → boundsContain lo hi tb = true)
    (ha : t.applyOp (.drop ids wm) = some t') :
    Good t' ∧ ∀ k, inBounds lo hi k = false → ∀ S S', t.seqCtr ≤ S → t'.seqCtr ≤ S' →
      t'.getAt k S' = t.getAt k S := by
  obtain ⟨hg', hr⟩ := dropCommit_good_outside hg (show t.dropCommit ids wm = some t' from ha) lo hi hc
  refine ⟨hg', fun k hk S S' hS hS' => ?_⟩
  rw [good_getAt hg' k S' hS', good_getAt hg k S hS, hr k hk]

/-- **C15 (drop_range, earlier snapshots).** A snapshot taken before the drop (positive, at most the counter, not
    below the GC watermark of the drop) reads the same afterwards — ALL keys, inside the range or not, point reads
    and scans (any bounds, any next/next_back word, any overlay). Only `TreeState.WF` is needed. -/
theorem c15_drop_range_old_snapshots (t t' : TreeState K) (hwf : t.WF) (ids : List Nat) (wm : Nat)
    (ha : t.applyOp (.drop ids wm) = some t') (S : Nat) (hS0 : 0 < S) (hS : S ≤ t.seqCtr) (hwm : wm ≤ S) :
    (∀ k, t'.getAt k S = t.getAt k S) ∧
    (∀ lo hi w overlay, t'.scanAt S lo hi w overlay = t.scanAt S lo hi w overlay) :=
  ⟨applyOp_getAt_stable t t' _ hwf ha rfl S hS0 hS hwm, applyOp_scanAt_stable t t' _ hwf ha rfl S hS0 hS hwm⟩

/-- **C15 (empty range).** If no key lies inside the bounds, the strategy selects no table at all, and committing
    the empty drop changes no newest-snapshot read of ANY key (and keeps the invariant). -/
theorem c15_drop_range_empty_noop (t t' : TreeState K) (hg : Good t) (sv : SuperVersion K)
    (hl : t.latest? = some sv) (lo hi : Bound K) (hempty : ∀ k, inBounds lo hi k = false)
    (hidden ids : List Nat) (wm : Nat)
    (hch : dropRangeChoose lo hi sv.version hidden = .drop ids) (ha : t.applyOp (.drop ids wm) = some t') :
    ids = [] ∧ Good t' ∧ ∀ k S S', t.seqCtr ≤ S → t'.seqCtr ≤ S' → t'.getAt k S' = t.getAt k S := by
  obtain ⟨sv0, hl0, hgsv, _⟩ := hg.sv
  have hsv : sv0 = sv := Option.some.inj (hl0.symm.trans hl)
  subst hsv
  obtain ⟨hg', hr⟩ := c15_drop_range_outside_untouched t t' hg sv0 hl lo hi hidden ids wm hch ha
  exact ⟨dropc_choose_empty_range hgsv.vwf hch hempty, hg', fun k S S' hS hS' => hr k (hempty k) S S' hS hS'⟩

/-- **C15 (inverted range).** `boundsInverted lo hi` is the `is_empty` flag of `range_bounds_to_owned_bounds`; when it
    is set `Tree::drop_range` returns before running the strategy (no operation: nothing changes, trivially). Even
    at the level of the strategy: no key is inside such bounds, it selects no table, and the empty drop changes no
    read. -/
theorem c15_drop_range_inverted_noop (t t' : TreeState K) (hg : Good t) (sv : SuperVersion K)
    (hl : t.latest? = some sv) (lo hi : Bound K) (hinv : boundsInverted lo hi = true)
    (hidden ids : List Nat) (wm : Nat)
    (hch : dropRangeChoose lo hi sv.version hidden = .drop ids) (ha : t.applyOp (.drop ids wm) = some t') :
    (∀ k, inBounds lo hi k = false) ∧ ids = [] ∧ Good t' ∧
      ∀ k S S', t.seqCtr ≤ S → t'.seqCtr ≤ S' → t'.getAt k S' = t.getAt k S :=
  ⟨boundsInverted_empty lo hi hinv,
   c15_drop_range_empty_noop t t' hg sv hl lo hi (boundsInverted_empty lo hi hinv) hidden ids wm hch ha⟩

/-! ### clear -/

/-- **C15 (clear, later snapshots).** After `clear` the invariant holds and every key is absent at every snapshot at
    or above the new counter. -/
theorem c15_clear_empties (t t' : TreeState K) (hg : Good t) (m : Nat) (ha : t.applyOp (.clear m) = some t') :
    Good t' ∧ ∀ k S, t'.seqCtr ≤ S → t'.getAt k S = some none := by
  simp only [TreeState.applyOp] at ha
  split at ha
  · next hf =>
    obtain ⟨hg', hr⟩ := clear_good hg hf ha
    refine ⟨hg', fun k S hS => ?_⟩
    rw [good_getAt hg' k S hS, hr k]
  · cases ha

/-- **C15 (clear, earlier snapshots).** Every snapshot taken before the `clear` (positive, at most the counter)
    keeps its full view: all point reads and all scans are unchanged (the watermark of `clear` is 0). -/
theorem c15_clear_old_snapshots (t t' : TreeState K) (hwf : t.WF) (m : Nat)
    (ha : t.applyOp (.clear m) = some t') (S : Nat) (hS0 : 0 < S) (hS : S ≤ t.seqCtr) :
    (∀ k, t'.getAt k S = t.getAt k S) ∧
    (∀ lo hi w overlay, t'.scanAt S lo hi w overlay = t.scanAt S lo hi w overlay) :=
  ⟨applyOp_getAt_stable t t' _ hwf ha rfl S hS0 hS (Nat.zero_le _),
   applyOp_scanAt_stable t t' _ hwf ha rfl S hS0 hS (Nat.zero_le _)⟩

/-- **C15 (clear, later writes).** A write batch (plain values / tombstones, one entry per key) after a `clear` is
    read back exactly: a key of the batch reads its entry (absent if it is a tombstone), every other key is absent. -/
theorem c15_clear_then_write (t t1 t2 : TreeState K) (hg : Good t) (m : Nat) (es : List (Entry K))
    (hc : t.applyOp (.clear m) = some t1) (hw : t1.applyOp (.write es) = some t2)
    (hvt : ∀ e ∈ es, e.vt = .value ∨ e.vt = .tomb) (hnd : (es.map (·.key)).Nodup) :
    Good t2 ∧ ∀ k S, t2.seqCtr ≤ S → t2.getAt k S = some (live (batchGet es k)) := by
  simp only [TreeState.applyOp] at hc
  split at hc
  · next hf =>
    obtain ⟨hg1, hr1⟩ := clear_good hg hf hc
    obtain ⟨hg2, hr2⟩ := write_good hg1 (show t1.write es = some t2 from hw) hvt hnd
    refine ⟨hg2, fun k S hS => ?_⟩
    rw [good_getAt hg2 k S hS, hr2 k, hr1 k]
    cases batchGet es k <;> rfl
  · cases hc

/-! ### runs -/

/-- the invariant survives every run over C01's alphabet extended by strategy-chosen drops and `clear` -/
theorem c15_run_good (P : K → Prop) (n : Nat) (ops : List (Op K)) (t : TreeState K)
    (h : Reach15 P (TreeState.init n none) ops t) : Good t :=
  (reach15_good h (good_init n)).1

/-- **C15 (run level).** In a run from the empty tree over the extended alphabet, a key that never lies inside a
    dropped range (`P k`) reads, at every snapshot at or above the counter, what the ordered-map replay gives:
    the last write after the last `clear`. -/
theorem c15_run (P : K → Prop) (n : Nat) (ops : List (Op K)) (t : TreeState K)
    (h : Reach15 P (TreeState.init n none) ops t) (k : K) (hk : P k) (S : Nat) (hS : t.seqCtr ≤ S) :
    t.getAt k S = some (c15_replay k ops none) := by
  obtain ⟨hg, hr⟩ := reach15_good h (good_init n)
  rw [good_getAt hg k S hS, hr k hk, readOf_init]

/-- without `clear`: exactly C01's statement, now with `drop_range` in the alphabet -/
theorem c15_run_noclear (P : K → Prop) (n : Nat) (ops : List (Op K)) (t : TreeState K)
    (h : Reach15 P (TreeState.init n none) ops t) (hno : ∀ op ∈ ops, op.c15_isClear = false)
    (k : K) (hk : P k) (S : Nat) (hS : t.seqCtr ≤ S) :
    t.getAt k S = some (live (lastWrite ops k)) := by
  rw [c15_run P n ops t h k hk S hS, c15_replay_noclear k ops hno]
  cases lastWrite ops k <;> rfl

/-! ### Non-vacuity (on `K := Nat`, continuing the run of `C01Example`)

`C01Example.s5`: L0 holds the runs `[t101]` (the tombstone `d3` of key 1, range `[1,1]`) over `[t100]` (`a0` = key 1,
`b1` = key 2, range `[1,2]`); counter 5. -/
namespace C15Example
open C01Example

/-- the first five steps of `C01Example.reach7` -/
theorem reach5 : Reach s0
    [.write [a0], .write [b1], .flush 0 1 [(100, 2)], .write [d3], .flush 0 2 [(101, 1)]] s5 := by
  refine .step (t' := _) ?_ rfl (.step (t' := s2) ?_ rfl (.step ok3 step3 (.step ?_ step4 (.step ok5 step5
    (.refl _)))))
  · exact ⟨by decide, by decide⟩
  · exact ⟨by decide, by decide⟩
  · exact ⟨by decide, by decide⟩

theorem good5 : Good s5 := c01_good_invariant 2 _ s5 reach5

def sv5 : SuperVersion Nat := ⟨2, [], v2, 4⟩
theorem latest5 : s5.latest? = some sv5 := rfl

/-! #### drop_range over `[1, 1]` drops `t101` only -/

theorem choose11 : dropRangeChoose (.incl 1) (.incl 1) v2 [] = .drop [101] := by decide

def v2d : Version Nat := ⟨3, [[[t100]], []]⟩
def s5d : TreeState Nat :=
  { hist := [⟨1, [0], v0, 0⟩, ⟨2, [1], v1, 2⟩, ⟨2, [], v2, 4⟩, ⟨2, [], v2d, 5⟩],
    mems := [⟨0, [a0, b1]⟩, ⟨1, [d3]⟩, ⟨2, []⟩], seqCtr := 6, visible := 6, levelCount := 2 }

theorem drop5 : s5.applyOp (.drop [101] 0) = some s5d := rfl

/-- key 2 is outside `[1,1]`: same read before (snapshot 5) and after (snapshot 6) — by the theorem -/
example : s5d.getAt 2 6 = s5.getAt 2 5 :=
  (c15_drop_range_outside_untouched s5 s5d good5 sv5 latest5 (.incl 1) (.incl 1) [] [101] 0 choose11 drop5).2
    2 (by decide) 5 6 (by decide) (by decide)

/-- … and that read is informative: the flushed value -/
example : s5.getAt 2 5 = some (some b1) ∧ s5d.getAt 2 6 = some (some b1) := by decide

/-- the invariant is kept, so the theorems can be applied again to `s5d` -/
theorem good5d : Good s5d :=
  (c15_drop_range_outside_untouched s5 s5d good5 sv5 latest5 (.incl 1) (.incl 1) [] [101] 0 choose11 drop5).1

/-- the restriction to keys OUTSIDE the range matters: key 1 (inside) was deleted before the drop and reads the old
    value `a0` afterwards (the tombstone table was dropped, the table `t100` is only partially inside and stays) -/
example : inBounds (.incl 1) (.incl 1) (1 : Nat) = true ∧
    s5.getAt 1 5 = some none ∧ s5d.getAt 1 6 = some (some a0) := by decide

/-- the snapshot 5 taken before the drop still sees key 1 deleted (and key 2) afterwards — by the theorem -/
example : s5d.getAt 1 5 = s5.getAt 1 5 ∧ s5d.getAt 2 5 = s5.getAt 2 5 :=
  have h := (c15_drop_range_old_snapshots s5 s5d good5.wf [101] 0 drop5 5 (by decide) (by decide) (by decide)).1
  ⟨h 1, h 2⟩

example : s5d.getAt 1 5 = some none := by decide

/-- the scan at the old snapshot is unchanged as well (full range, two `next` calls) -/
example : s5d.scanAt 5 .unb .unb [.F, .F] = s5.scanAt 5 .unb .unb [.F, .F] :=
  (c15_drop_range_old_snapshots s5 s5d good5.wf [101] 0 drop5 5 (by decide) (by decide) (by decide)).2 _ _ _ _

/-! #### an inverted range `[2, 1]` -/

theorem choose21 : dropRangeChoose (.incl 2) (.incl 1) v2 [] = .drop [] := by decide

def s5e : TreeState Nat :=
  { hist := [⟨1, [0], v0, 0⟩, ⟨2, [1], v1, 2⟩, ⟨2, [], v2, 4⟩, ⟨2, [], ⟨3, [[[t101], [t100]], []]⟩, 5⟩],
    mems := [⟨0, [a0, b1]⟩, ⟨1, [d3]⟩, ⟨2, []⟩], seqCtr := 6, visible := 6, levelCount := 2 }

theorem drop5e : s5.applyOp (.drop [] 0) = some s5e := rfl

example : ([] : List Nat) = [] ∧ Good s5e ∧ ∀ (k : Nat) S S', 5 ≤ S → 6 ≤ S' → s5e.getAt k S' = s5.getAt k S :=
  (c15_drop_range_inverted_noop s5 s5e good5 sv5 latest5 (.incl 2) (.incl 1) (by decide) [] [] 0 choose21 drop5e).2

/-- an empty but not inverted range `(1, 1)` (both bounds excluded) — not caught by the `is_empty` flag -/
example : boundsInverted (.excl 1) (.excl (1 : Nat)) = false ∧
    dropRangeChoose (.excl 1) (.excl 1) v2 [] = .drop [] := by decide

/-! #### clear -/

def s5c : TreeState Nat :=
  { hist := [⟨1, [0], v0, 0⟩, ⟨2, [1], v1, 2⟩, ⟨2, [], v2, 4⟩, ⟨3, [], Version.empty 3 2, 5⟩],
    mems := [⟨0, [a0, b1]⟩, ⟨1, [d3]⟩, ⟨2, []⟩, ⟨3, []⟩], seqCtr := 6, visible := 6, levelCount := 2 }

theorem clear5 : s5.applyOp (.clear 3) = some s5c := rfl

/-- after the clear every key is absent at the new snapshots — by the theorem -/
example : s5c.getAt 2 6 = some none ∧ s5c.getAt 1 7 = some none :=
  have h := (c15_clear_empties s5 s5c good5 3 clear5).2
  ⟨h 2 6 (by decide), h 1 7 (by decide)⟩

/-- the snapshot 5 taken before the clear keeps its view: key 2 is still there (theorem + evaluation) -/
example : s5c.getAt 2 5 = s5.getAt 2 5 ∧ s5.getAt 2 5 = some (some b1) :=
  ⟨(c15_clear_old_snapshots s5 s5c good5.wf 3 clear5 5 (by decide) (by decide)).1 2, by decide⟩

def w6 : Entry Nat := ⟨2, 6, .value, [30]⟩
def s5cw : TreeState Nat :=
  { s5c with mems := [⟨0, [a0, b1]⟩, ⟨1, [d3]⟩, ⟨2, []⟩, ⟨3, [w6]⟩], seqCtr := 7, visible := 7 }

theorem write6 : s5c.applyOp (.write [w6]) = some s5cw := rfl

/-- a write after the clear is read back; the other keys stay absent -/
example : s5cw.getAt 2 7 = some (some w6) ∧ s5cw.getAt 1 7 = some none :=
  have h := (c15_clear_then_write s5 s5c s5cw good5 3 [w6] clear5 write6 (by decide) (by decide)).2
  ⟨h 2 7 (by decide), h 1 7 (by decide)⟩

/-! #### the run-level statement: protected keys `P k := k ≠ 1` -/

theorem reach5d : Reach15 (fun k : Nat => k ≠ 1) s0
    [.write [a0], .write [b1], .flush 0 1 [(100, 2)], .write [d3], .flush 0 2 [(101, 1)], .drop [101] 0] s5d := by
  refine (reach15_of_reach _ reach5).append (.step ?_ drop5 (.refl _))
  refine ⟨.incl 1, .incl 1, [], ?_, ?_⟩
  · intro k hk
    simp only [inBounds, Bound.okLo, Bound.okHi]
    have : k < 1 ∨ 1 < k := by omega
    rcases this with h | h <;> simp [h]
  · intro sv hsv
    obtain rfl : sv = sv5 := Option.some.inj (hsv.symm.trans latest5)
    exact choose11

example : s5d.getAt 2 6 = some (some b1) :=
  c15_run_noclear _ 2 _ s5d reach5d (by decide) 2 (by decide) 6 (by decide)

/-- with a `clear` and a later write in the run -/
theorem reach5cw : Reach15 (fun _ : Nat => True) s0
    [.write [a0], .write [b1], .flush 0 1 [(100, 2)], .write [d3], .flush 0 2 [(101, 1)], .clear 3, .write [w6]]
    s5cw := by
  refine (reach15_of_reach _ reach5).append (.step ?_ clear5 (.step ?_ write6 (.refl _)))
  · show s5.freshMem 3 = true
    decide
  · exact ⟨by decide, by decide⟩

example : s5cw.getAt 2 7 = some (some w6) ∧ s5cw.getAt 1 7 = some none :=
  ⟨c15_run _ 2 _ s5cw reach5cw 2 trivial 7 (by decide), c15_run _ 2 _ s5cw reach5cw 1 trivial 7 (by decide)⟩

end C15Example

end Lsm
