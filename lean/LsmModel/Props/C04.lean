import LsmModel.Props.C01
import LsmModel.Lemmas.ReopenLemmas
/-!
# C04 — a reopened tree contains exactly the flushed writes and is fully usable again

Informal property: *a reopened tree contains exactly the writes that had been flushed, arranged so that all read
properties continue to hold, and it can immediately be written, flushed and compacted again.*

Model of drop + reopen (`Tree::recover` / `recover_levels` in `/repo/src/tree/mod.rs`): `TreeState.reopen` /
`Op.reopen` (`LsmModel/Tree/Ops.lean`). The memtables are gone (there is no journal at this level), the history of
super versions restarts with ONE entry holding the recovered version (same tables, same levels, same run order) and
version seqno `0`, a fresh empty active memtable with id `0`, nothing sealed; the sequence counters are kept
(protocol P4: the harness restores the counters after a reopen), and so are the level count and the
key-value-separation setting.

Formalisation (definitions in `LsmModel.Lemmas.ContentLemmas2`, reopen-specific lemmas in
`LsmModel.Lemmas.ReopenLemmas`):
* `Good t` — C01's invariant (well-formed state and latest version: RUN, META, sorted tables, distinct ids; every
  stored seqno below the counter; no weak tombstone; per key strictly descending seqnos in read order (ORD); every
  snapshot at or above the counter resolves to the latest super version). Every state reached by a guarded run from the
  empty tree is `Good` (`c01_good_invariant`). `Good` is what "all read properties continue to hold" rests on:
  it is the hypothesis of `c01_step` / `applyOp_good`, so C01 continues from the reopened state.
* `t.latest? = some sv` — `sv` is the newest super version; `sv.version` is what `recover_levels` reads back.
* `versionGet v k S` — the point lookup in the tables of `v` only (no memtable); `live` hides tombstones.
  "Exactly the flushed writes" is: after reopen, `getAt k S = some (live (versionGet sv.version k S))`.
* `memHist t sv k` — the versions of `k` held by the memtables (active and sealed) of `sv`; `memHist t sv k = []` means
  key `k` has no unflushed write.
* `t.seqCtr ≤ S` — the snapshot is at or above the counter (the newest snapshot: `visible = seqCtr` once all writes
  returned, or `SeqNo::MAX`). Reopen keeps `seqCtr`, so the same `S` is admissible before and after.
* `okStep t .reopen` — C01's side condition for a reopen inside a guarded run: every memtable of the latest super
  version is empty (reopen-after-flush). It is needed ONLY for the statements that relate reads to the LAST WRITE of
  the whole history (`c04_continue_after_reopen`, `c04_reads_across_reopens`): with unflushed writes the reopened tree
  reads the last FLUSHED write instead (`c04_reopen_flushed_only`, `c04_lost_unflushed_example`).
* `Reach t ops t'` — a guarded run; `lastWrite ops k` — the ordered-map replay of the history.

The hypothesis `∀ tb ∈ sv.version.tables, tb.id < c` of the id-freshness clause is the counter condition the harness
checks after `recover` (the table id counter is restored to at least max id + 1).
-/
namespace Lsm
variable {K : Type} [LT K] [DecidableLT K] [DecidableEq K] [LE K] [Std.IsLinearOrder K] [Std.LawfulOrderLT K]

/-- **C04 (nothing unflushed).** If every memtable of the latest super version is empty, the reopened tree satisfies
    the invariant again and every newest-snapshot read is unchanged. -/
theorem c04_reopen_exact (t t' : TreeState K) (hg : Good t) (hr : t.reopen = some t')
    (hempty : ∀ sv, t.latest? = some sv → ∀ id ∈ sv.active :: sv.sealed, t.mem id = [])
    (k : K) (S : Nat) (hS : t.seqCtr ≤ S) :
    Good t' ∧ t'.seqCtr = t.seqCtr ∧ t'.getAt k S = t.getAt k S := by
  obtain ⟨hg', hread⟩ := reopen_good hg hr hempty
  have hc := (reopen_counters hr).1
  refine ⟨hg', hc, ?_⟩
  rw [good_getAt hg' k S (by rw [hc]; exact hS), good_getAt hg k S hS, hread k]

/-- **C04 (general case: exactly the flushed writes).** Whatever the memtables hold, the reopened tree satisfies the
    invariant, and a newest-snapshot read of any key returns exactly what the TABLES of the recovered version hold
    for it: the unflushed writes are gone, every flushed write is where it was. -/
theorem c04_reopen_flushed_only (t t' : TreeState K) (sv : SuperVersion K) (hg : Good t)
    (hl : t.latest? = some sv) (hr : t.reopen = some t') (k : K) (S : Nat) (hS : t.seqCtr ≤ S) :
    Good t' ∧ t'.getAt k S = some (live (versionGet sv.version k S)) := by
  obtain ⟨hg', hread⟩ := reopen_good_general hg hl hr
  have hc := (reopen_counters hr).1
  refine ⟨hg', ?_⟩
  rw [good_getAt hg' k S (by rw [hc]; exact hS), hread k, c04_good_versionGet hg hl k S hS]

/-- per key: a key without unflushed writes (nothing for it in the active or a sealed memtable) reads the same before
    and after the reopen — even if OTHER keys lose writes -/
theorem c04_reopen_key_unchanged (t t' : TreeState K) (sv : SuperVersion K) (hg : Good t)
    (hl : t.latest? = some sv) (hr : t.reopen = some t') (k : K) (hm : memHist t sv k = [])
    (S : Nat) (hS : t.seqCtr ≤ S) :
    t'.getAt k S = t.getAt k S := by
  obtain ⟨hg', hread⟩ := reopen_good_general hg hl hr
  have hc := (reopen_counters hr).1
  rw [good_getAt hg' k S (by rw [hc]; exact hS), good_getAt hg k S hS, hread k, c04_readOf_of_memHist_nil hl k hm]

/-- in ordered-map words, for a tree built by a guarded run from the empty tree: a key whose writes are all flushed
    still reads its last write after the reopen -/
theorem c04_reopen_reads_last_flushed_write (n : Nat) (ops : List (Op K)) (t t' : TreeState K)
    (sv : SuperVersion K) (h : Reach (TreeState.init n none) ops t) (hl : t.latest? = some sv)
    (hr : t.reopen = some t') (k : K) (hm : memHist t sv k = []) (S : Nat) (hS : t.seqCtr ≤ S) :
    t'.getAt k S = some (live (lastWrite ops k)) := by
  rw [c04_reopen_key_unchanged t t' sv (c01_good_invariant n ops t h) hl hr k hm S hS]
  exact c01_point_read_refines_map n ops t h k S hS

/-- **C04 (structure).** The reopened state, field by field: the latest (and only) super version carries the SAME
    version (same tables, same levels and run order, same ids), version seqno `0`, active memtable `0`, nothing
    sealed; the only memtable is the empty memtable `0`; the counters and the configuration are unchanged; the state is
    well-formed; and every table id is below any bound `c` the old ids were below, so every id `≥ c` is fresh —
    the freshness clause of `cutsOk` needed to flush / compact again. -/
theorem c04_reopen_keeps_structure (t t' : TreeState K) (sv : SuperVersion K) (hwf : t.WF)
    (hl : t.latest? = some sv) (hr : t.applyOp .reopen = some t') :
    ∃ sv', t'.latest? = some sv' ∧ t'.hist = [sv'] ∧ t'.hist.length = 1 ∧
      sv'.version = sv.version ∧ sv'.seqno = 0 ∧ sv'.active = 0 ∧ sv'.sealed = [] ∧
      t'.mems = [{ id := 0, entries := [] }] ∧ t'.mem 0 = [] ∧
      t'.seqCtr = t.seqCtr ∧ t'.visible = t.visible ∧ t'.levelCount = t.levelCount ∧ t'.blobTh = t.blobTh ∧
      t'.WF ∧
      ∀ c, (∀ tb ∈ sv.version.tables, tb.id < c) →
        (∀ tb ∈ sv'.version.tables, tb.id < c) ∧ ∀ id, c ≤ id → id ∉ sv'.version.tableIds := by
  have hr' : t.reopen = some t' := hr
  obtain ⟨hh, hm, hl', hc, hv, hlc, hb⟩ := c04_reopen_shape hl hr'
  refine ⟨_, hl', hh, by rw [hh]; rfl, rfl, rfl, rfl, rfl, hm, ?_, hc, hv, hlc, hb, applyOp_WF hwf hr, ?_⟩
  · rw [TreeState.mem, hm]; rfl
  · intro c hlt
    refine ⟨hlt, fun id hid hmem => ?_⟩
    simp only [Version.tableIds, List.mem_map] at hmem
    obtain ⟨tb, htb, rfl⟩ := hmem
    have := hlt tb htb
    omega

/-- a well-formed tree can always be reopened, and after the reopen every memtable id except `0` is fresh -/
theorem c04_reopen_defined_and_fresh (t : TreeState K) (hwf : t.WF) :
    ∃ t', t.applyOp .reopen = some t' ∧ ∀ m, t'.freshMem m = true ↔ m ≠ 0 := by
  obtain ⟨t', ht'⟩ := c04_reopen_defined hwf
  exact ⟨t', ht', c04_reopen_freshMem ht'⟩

/-- **C04 (immediately usable, one step).** From the reopened state every guarded operation (write, rotate, flush,
    concurrent flush commit, merge, move — `okStep`) keeps the invariant and changes the newest-snapshot read of
    every key exactly by what it wrote: C01's step theorem applies to the reopened tree as to any other. -/
theorem c04_step_after_reopen (t t' t'' : TreeState K) (hg : Good t) (hr : t.reopen = some t') (op : Op K)
    (hok : okStep t' op) (ha : t'.applyOp op = some t'') (k : K) (S S' : Nat) (hS : t'.seqCtr ≤ S)
    (hS' : t''.seqCtr ≤ S') :
    Good t'' ∧ t''.getAt k S' = match op.lastWriteOf k with
      | some e => some (live (some e))
      | none => t'.getAt k S := by
  obtain ⟨sv, hl, _, _⟩ := hg.sv
  exact c01_step t' t'' op (reopen_good_general hg hl hr).1 hok ha k S S' hS hS'

/-- a write drawing its seqno from the (kept) counter is accepted right after the reopen -/
theorem c04_write_accepted_after_reopen (t t' : TreeState K) (hwf : t.WF) (hr : t.reopen = some t')
    (es : List (Entry K)) (hes : ∀ e ∈ es, e.seqno = t.seqCtr) :
    ∃ t'', t'.applyOp (.write es) = some t'' := by
  obtain ⟨sv, hl⟩ : ∃ sv, t.latest? = some sv := by
    cases hl : t.latest? with
    | some sv => exact ⟨sv, rfl⟩
    | none => exact absurd (List.getLast?_eq_none_iff.1 hl) hwf.hist_ne
  obtain ⟨_, _, hl', hc, _⟩ := c04_reopen_shape hl hr
  have : es.all (fun e => e.seqno == t'.seqCtr) = true := by
    rw [List.all_eq_true]; intro e he; rw [hc]; simpa using hes e he
  simp [TreeState.applyOp, TreeState.write, hl', this]

/-- **C04 (runs continue across a reopen).** A guarded run, a reopen-after-flush, and a further guarded run from the
    reopened state form one guarded run. -/
theorem c04_continue_after_reopen (t₀ t t' t'' : TreeState K) (ops₁ ops₂ : List (Op K))
    (h1 : Reach t₀ ops₁ t) (hok : okStep t (.reopen : Op K)) (ha : t.applyOp .reopen = some t')
    (h2 : Reach t' ops₂ t'') :
    Reach t₀ (ops₁ ++ .reopen :: ops₂) t'' :=
  c04_reach_reopen h1 hok ha h2

/-- **C04 (all read properties continue to hold).** Hence C01 covers histories with any number of reopens: after
    `ops₁`, a reopen-after-flush and `ops₂`, a point read of any key at or above the counter returns the last write
    of the key in the WHOLE history — the writes of `ops₂` if there is one, otherwise the last write of `ops₁`,
    carried across the reopen. The invariant holds in the final state as well. -/
theorem c04_reads_across_reopens (n : Nat) (t t' t'' : TreeState K) (ops₁ ops₂ : List (Op K))
    (h1 : Reach (TreeState.init n none) ops₁ t) (hok : okStep t (.reopen : Op K))
    (ha : t.applyOp .reopen = some t') (h2 : Reach t' ops₂ t'') (k : K) (S : Nat) (hS : t''.seqCtr ≤ S) :
    Good t'' ∧
    t''.getAt k S = some (live (lastWrite (ops₁ ++ .reopen :: ops₂) k)) ∧
    lastWrite (ops₁ ++ .reopen :: ops₂) k = (match lastWrite ops₂ k with
      | some e => some e
      | none => lastWrite ops₁ k) := by
  have hreach := c04_continue_after_reopen _ t t' t'' ops₁ ops₂ h1 hok ha h2
  exact ⟨c01_good_invariant n _ t'' hreach, c01_point_read_refines_map n _ t'' hreach k S hS,
    c04_lastWrite_reopen ops₁ ops₂ k⟩

/-! ### Non-vacuity: two reopens, and write + flush + compaction right after the first one

The run continues `C01Example.reach7` (… major compaction, reopen = `s7`): write `1 ↦ [11]` and delete `2` in one
batch, flush (fresh memtable id 1, fresh table id 103), major compaction of the recovered table 102 with the new
table 103 into the last level (fresh table id 104; the tombstone of key 2 is evicted together with the value it
shadows), reopen again, and one more write. `cstream` / `mergeAll` are evaluated by `simp`. -/
namespace C04Example
open C01Example

def c6 : Entry Nat := ⟨1, 6, .value, [11]⟩
def e6 : Entry Nat := ⟨2, 6, .tomb, []⟩
def f9 : Entry Nat := ⟨3, 9, .value, [30]⟩

def t103 : TableM Nat := ⟨103, 1, 2, [c6, e6], 0⟩
def t104 : TableM Nat := ⟨104, 1, 1, [c6], 0⟩
def v4 : Version Nat := ⟨4, [[[t103]], [[t102]]]⟩
def v5 : Version Nat := ⟨5, [[], [[t104]]]⟩

def s8 : TreeState Nat :=
  { hist := [⟨0, [], v3, 0⟩], mems := [⟨0, [c6, e6]⟩], seqCtr := 7, visible := 7, levelCount := 2 }
def s8r : TreeState Nat :=
  { hist := [⟨1, [0], v3, 0⟩], mems := [⟨0, [c6, e6]⟩, ⟨1, []⟩], seqCtr := 7, visible := 7, levelCount := 2 }
def s9 : TreeState Nat :=
  { hist := [⟨1, [0], v3, 0⟩, ⟨1, [], v4, 7⟩], mems := [⟨0, [c6, e6]⟩, ⟨1, []⟩], seqCtr := 8, visible := 8,
    levelCount := 2 }
def s10 : TreeState Nat :=
  { hist := [⟨1, [], v5, 8⟩], mems := [⟨1, []⟩], seqCtr := 9, visible := 9, levelCount := 2 }
def s11 : TreeState Nat :=
  { hist := [⟨0, [], v5, 0⟩], mems := [⟨0, []⟩], seqCtr := 9, visible := 9, levelCount := 2 }
def s12 : TreeState Nat :=
  { hist := [⟨0, [], v5, 0⟩], mems := [⟨0, [f9]⟩], seqCtr := 10, visible := 10, levelCount := 2 }

theorem c04_step8 : s7.applyOp (.write [c6, e6]) = some s8 := rfl
theorem c04_rot8 : s8.rotate 1 = s8r := rfl

theorem c04_stream8 : s8r.flushStream ⟨1, [0], v3, 0⟩ 0 = ([c6, e6], []) := by
  have hm : mergeAll [[c6, e6]] = [c6, e6] := by simp [mergeAll, merge2]
  show cstream 0 false noFilter (mergeAll [[c6, e6]]) = _
  rw [hm]
  simp [cstream, filterHead, noFilter, c6, e6, Entry.isTomb]

theorem c04_step9 : s8.applyOp (.flush 0 1 [(103, 2)]) = some s9 := by
  show s8r.flushSealed 0 [(103, 2)] = some s9
  have hl : s8r.latest? = some ⟨1, [0], v3, 0⟩ := rfl
  simp only [TreeState.flushSealed, hl, c04_stream8]
  rfl

theorem c04_ok9 : okStep s8 (.flush 0 1 [(103, 2)]) := by
  refine ⟨by decide, fun sv hsv => ?_⟩
  rw [c04_rot8] at hsv ⊢
  obtain rfl : sv = ⟨1, [0], v3, 0⟩ := Option.some.inj (hsv.symm.trans (rfl : s8r.latest? = _))
  rw [c04_stream8]
  refine ⟨by decide, by decide, fun ts hts => ?_⟩
  cases hts; rfl

theorem c04_inputs10 : mergeInputs v4 [102, 103] = [c6, e6, b1] := by
  simp [mergeInputs, v4, Version.runs, t102, t103, mergeAll, merge2, ikLt, b1, c6, e6]

theorem c04_stream10 : cstream 10 true noFilter [c6, e6, b1] = ([c6], [b1]) := by
  simp [cstream, filterHead, noFilter, drainKey, b1, c6, e6, Entry.isTomb]

theorem c04_step10 : s9.applyOp (.merge [102, 103] 1 10 noFilter [(104, 1)]) = some s10 := by
  show s9.mergeCommit [102, 103] 1 10 noFilter [(104, 1)] = some s10
  have hl : s9.latest? = some ⟨1, [], v4, 7⟩ := rfl
  have he : (1 + 1 == s9.levelCount) = true := rfl
  simp only [TreeState.mergeCommit, hl, he, c04_inputs10, c04_stream10]
  rfl

theorem c04_ok10 : okStep s9 (.merge [102, 103] 1 10 noFilter [(104, 1)]) := by
  intro sv hsv
  obtain rfl : sv = ⟨1, [], v4, 7⟩ := Option.some.inj (hsv.symm.trans (rfl : s9.latest? = _))
  have he : (1 + 1 == s9.levelCount) = true := rfl
  rw [he, c04_inputs10, c04_stream10]
  refine ⟨by decide, by decide, fun _ _ _ => rfl, by decide, by decide, fun ts hts => ?_⟩
  cases hts; rfl

theorem c04_step11 : s10.applyOp .reopen = some s11 := rfl
theorem c04_step12 : s11.applyOp (.write [f9]) = some s12 := rfl

theorem c04_ok11 : okStep s10 (.reopen : Op Nat) := by
  intro sv hsv
  obtain rfl : sv = ⟨1, [], v5, 8⟩ := Option.some.inj (hsv.symm.trans (rfl : s10.latest? = _))
  decide

/-- the part of the run after the first reopen: written, flushed and compacted again, reopened again, written again -/
theorem c04_reach_tail : Reach s7
    [.write [c6, e6], .flush 0 1 [(103, 2)], .merge [102, 103] 1 10 noFilter [(104, 1)], .reopen, .write [f9]]
    s12 := by
  refine .step ?_ c04_step8 (.step c04_ok9 c04_step9 (.step c04_ok10 c04_step10 (.step c04_ok11 c04_step11
    (.step ?_ c04_step12 (.refl _)))))
  · exact ⟨by decide, by decide⟩
  · exact ⟨by decide, by decide⟩

/-- `reach7` without its final reopen -/
theorem c04_reach6 : Reach s0
    [.write [a0], .write [b1], .flush 0 1 [(100, 2)], .write [d3], .flush 0 2 [(101, 1)],
      .merge [100, 101] 1 10 noFilter [(102, 1)]] s6 := by
  refine .step (t' := _) ?_ rfl (.step (t' := s2) ?_ rfl (.step ok3 step3 (.step ?_ step4 (.step ok5 step5
    (.step ok6 step6 (.refl _))))))
  · exact ⟨by decide, by decide⟩
  · exact ⟨by decide, by decide⟩
  · exact ⟨by decide, by decide⟩

theorem c04_ok7 : okStep s6 (.reopen : Op Nat) := by
  intro sv hsv
  obtain rfl : sv = ⟨2, [], v3, 5⟩ := Option.some.inj (hsv.symm.trans (rfl : s6.latest? = _))
  decide

/-- `c04_continue_after_reopen` glues the two parts at the first reopen: a guarded run with TWO reopens, with a
    write, a flush and a compaction between them -/
theorem c04_reach12 : Reach s0
    ([.write [a0], .write [b1], .flush 0 1 [(100, 2)], .write [d3], .flush 0 2 [(101, 1)],
      .merge [100, 101] 1 10 noFilter [(102, 1)]] ++ .reopen ::
     [.write [c6, e6], .flush 0 1 [(103, 2)], .merge [102, 103] 1 10 noFilter [(104, 1)], .reopen, .write [f9]])
    s12 :=
  c04_continue_after_reopen s0 s6 s7 s12 _ _ c04_reach6 c04_ok7 step7 c04_reach_tail

/-- what `c04_reads_across_reopens` says about the final state: key 1 reads the value written after the first
    reopen, key 2 (deleted after the first reopen, tombstone evicted by the compaction) stays absent after the
    second reopen, key 3 reads the value written after the second reopen, key 4 was never written -/
example : s12.getAt 1 10 = some (some c6) ∧ s12.getAt 2 10 = some none ∧ s12.getAt 3 10 = some (some f9) ∧
    s12.getAt 4 10 = some none :=
  ⟨(c04_reads_across_reopens 2 s6 s7 s12 _ _ c04_reach6 c04_ok7 step7 c04_reach_tail 1 10 (by decide)).2.1,
   (c04_reads_across_reopens 2 s6 s7 s12 _ _ c04_reach6 c04_ok7 step7 c04_reach_tail 2 10 (by decide)).2.1,
   (c04_reads_across_reopens 2 s6 s7 s12 _ _ c04_reach6 c04_ok7 step7 c04_reach_tail 3 10 (by decide)).2.1,
   (c04_reads_across_reopens 2 s6 s7 s12 _ _ c04_reach6 c04_ok7 step7 c04_reach_tail 4 10 (by decide)).2.1⟩

/-- the same reads evaluated directly on the model, and the reads right after each of the two reopens -/
example : s12.getAt 1 10 = some (some c6) ∧ s12.getAt 2 10 = some none ∧ s12.getAt 3 10 = some (some f9) ∧
    s12.getAt 4 10 = some none := by decide
example : s7.getAt 1 6 = some none ∧ s7.getAt 2 6 = some (some b1) := by decide
example : s11.getAt 1 9 = some (some c6) ∧ s11.getAt 2 9 = some none := by decide

/-- a write from before the reopen is carried across it (`ops₂ = []`): in `s7`, right after the first reopen, key 2
    still reads `b1`, its last write in the whole history — written and flushed BEFORE the reopen -/
example : s7.getAt 2 6 = some (live (lastWrite
    ([.write [a0], .write [b1], .flush 0 1 [(100, 2)], .write [d3], .flush 0 2 [(101, 1)],
      .merge [100, 101] 1 10 noFilter [(102, 1)]] ++ .reopen :: ([] : List (Op Nat))) 2)) ∧
    live (lastWrite
    ([.write [a0], .write [b1], .flush 0 1 [(100, 2)], .write [d3], .flush 0 2 [(101, 1)],
      .merge [100, 101] 1 10 noFilter [(102, 1)]] ++ .reopen :: ([] : List (Op Nat))) 2) = some b1 :=
  ⟨(c04_reads_across_reopens 2 s6 s7 s7 _ [] c04_reach6 c04_ok7 step7 (.refl _) 2 6 (by decide)).2.1, rfl⟩

/-- `c04_reopen_exact` on the first reopen (`s6`: all memtables empty): hypotheses hold, reads are kept -/
example : Good s7 ∧ s7.seqCtr = s6.seqCtr ∧ s7.getAt 2 6 = s6.getAt 2 6 :=
  c04_reopen_exact s6 s7 (c01_good_invariant 2 _ s6 c04_reach6) step7 c04_ok7 2 6 (by decide)

/-- `c04_reopen_keeps_structure` on the second reopen: version `v5` (table 104 in the last level) is recovered as is,
    counters stay at 9, and with the table-id counter at 105 every id `≥ 105` is fresh -/
example : ∃ sv', s11.latest? = some sv' ∧ s11.hist = [sv'] ∧ sv'.version = v5 ∧ sv'.seqno = 0 ∧
    s11.seqCtr = 9 ∧ s11.visible = 9 ∧ s11.WF ∧ ∀ id, 105 ≤ id → id ∉ sv'.version.tableIds := by
  have hwf : s10.WF := (c01_good_invariant 2 _ s10
    (c04_reach6.append (.step c04_ok7 step7 (.step (by exact ⟨by decide, by decide⟩) c04_step8
      (.step c04_ok9 c04_step9 (.step c04_ok10 c04_step10 (.refl _))))))).wf
  obtain ⟨sv', h1, h2, _, h4, h5, _, _, _, _, h6, h7, _, _, h8, h9⟩ :=
    c04_reopen_keeps_structure s10 s11 ⟨1, [], v5, 8⟩ hwf rfl c04_step11
  exact ⟨sv', h1, h2, h4, h5, h6, h7, h8, (h9 105 (by decide)).2⟩

/-- `c04_step_after_reopen` / `c04_write_accepted_after_reopen`: the write right after the first reopen -/
example : Good s8 ∧ s8.getAt 1 7 = some (some c6) := by
  have h := c04_step_after_reopen s6 s7 s8 (c01_good_invariant 2 _ s6 c04_reach6) step7 (.write [c6, e6])
    ⟨by decide, by decide⟩ c04_step8 1 6 7 (by decide) (by decide)
  exact h

example : ∃ t'', s7.applyOp (.write [c6, e6]) = some t'' :=
  c04_write_accepted_after_reopen s6 s7 (c01_good_invariant 2 _ s6 c04_reach6).wf step7 [c6, e6] (by decide)

/-! #### the qualifier "flushed" matters: an unflushed write is lost

`C01Example.s4`: table 100 holds `1 ↦ [10]`, `2 ↦ [20]` (flushed); the delete of key 1 (`d3`) is still in the active
memtable. -/

def s4lost : TreeState Nat :=
  { hist := [⟨0, [], v1, 0⟩], mems := [⟨0, []⟩], seqCtr := 4, visible := 4, levelCount := 2 }

theorem c04_reach4 : Reach s0 [.write [a0], .write [b1], .flush 0 1 [(100, 2)], .write [d3]] s4 := by
  refine .step (t' := _) ?_ rfl (.step (t' := s2) ?_ rfl (.step ok3 step3 (.step ?_ step4 (.refl _))))
  · exact ⟨by decide, by decide⟩
  · exact ⟨by decide, by decide⟩
  · exact ⟨by decide, by decide⟩

/-- **the unflushed write is lost, the flushed ones survive** (all by evaluation): before the reopen key 1 is deleted;
    the reopen is not a reopen-after-flush (`okStepB` rejects it); after it the delete is gone and key 1 reads the
    FLUSHED value `a0` again, key 2 (flushed, no pending write) is unchanged -/
theorem c04_lost_unflushed_example :
    s4.applyOp .reopen = some s4lost ∧ okStepB s4 (.reopen : Op Nat) = false ∧
    s4.getAt 1 4 = some none ∧ s4lost.getAt 1 4 = some (some a0) ∧
    s4.getAt 2 4 = some (some b1) ∧ s4lost.getAt 2 4 = some (some b1) := ⟨rfl, by decide⟩

/-- `c04_reopen_flushed_only` on this state: its hypotheses hold (`s4` is reachable, hence `Good`), and the read of
    key 1 after the reopen is the table lookup `versionGet v1 1 4 = a0` — not the last write `d3` -/
example : Good s4lost ∧ s4lost.getAt 1 4 = some (live (versionGet v1 1 4)) ∧
    live (versionGet v1 1 4) = some a0 ∧ live (lastWrite [.write [a0], .write [b1], .flush 0 1 [(100, 2)],
      (.write [d3] : Op Nat)] 1) = none := by
  obtain ⟨h1, h2⟩ := c04_reopen_flushed_only s4 s4lost ⟨1, [], v1, 2⟩ (c01_good_invariant 2 _ s4 c04_reach4) rfl
    rfl 1 4 (by decide)
  exact ⟨h1, h2, by decide, by decide⟩

/-- `c04_reopen_key_unchanged` / `c04_reopen_reads_last_flushed_write` on this state: key 2 has no memtable history,
    so it still reads its last write `b1` after the lossy reopen -/
example : s4lost.getAt 2 4 = s4.getAt 2 4 ∧ s4lost.getAt 2 4 = some (some b1) :=
  ⟨c04_reopen_key_unchanged s4 s4lost ⟨1, [], v1, 2⟩ (c01_good_invariant 2 _ s4 c04_reach4) rfl rfl 2 (by decide)
      4 (by decide),
   c04_reopen_reads_last_flushed_write 2 _ s4 s4lost ⟨1, [], v1, 2⟩ c04_reach4 rfl rfl 2 (by decide) 4
      (by decide)⟩

/-- a plain lost insert: an empty tree with one unflushed insert reopens to the empty tree -/
example : ((TreeState.init 2 none : TreeState Nat).run [.write [a0], .reopen]).map (fun t => t.getAt 1 1)
      = some (some none) ∧
    ((TreeState.init 2 none : TreeState Nat).run [.write [a0]]).map (fun t => t.getAt 1 1)
      = some (some (some a0)) := by decide

end C04Example

end Lsm
