import LsmModel.Lemmas.BlockLemmas
import LsmModel.Lemmas.BlockRangeLemmas
import LsmModel.Lemmas.CodecLemmas
/-
  LsmModel.Props.C12 — the table (SSTable) writer and its read paths return exactly the stream written.

  "For any strictly ordered stream of versioned entries written into a table with any writer settings, a full scan,
   a ranged scan from either end with any bounds, and a point lookup of any key at any sequence number each return
   exactly the entries the stream contained; keys that were written are never rejected by the filter, and the stored
   metadata equals the stream's."

  Model: LsmModel/Table/Blocks.lean (item granularity; see its MODELLING NOTES).
  Everything below holds for every block size `bs` and every size measure `sizeOf`
  (the real one is `realSizeOf e = e.key.length + e.val.length`, tested AFTER pushing the item, with `>=`).
-/
namespace Lsm.Blocks
open Lsm
set_option linter.unusedSectionVars false
variable {K : Type}
variable [LT K] [DecidableLT K] [DecidableEq K] [LE K] [Std.IsLinearOrder K] [Std.LawfulOrderLT K]

/-- The blocks partition the stream, none is empty, `data_block_count` is their number, and the `Scanner` returns
    the stream. (No ordering hypothesis needed.) -/
theorem c12_scan (bs : Nat) (sizeOf : Entry K → Nat) (items : List (Entry K)) :
    (writeTable bs sizeOf items).blocks.flatten = items ∧
    (∀ b ∈ (writeTable bs sizeOf items).blocks, b ≠ []) ∧
    (writeTable bs sizeOf items).dataBlockCount = (writeTable bs sizeOf items).blocks.length ∧
    scan (writeTable bs sizeOf items) = items := by
  have hf := writeTable_flatten bs sizeOf items
  have hc := (writeTable_structure bs sizeOf items).2.2
  refine ⟨hf, writeTable_nonempty bs sizeOf items, hc, ?_⟩
  simp [scan, hc, hf]

/-- Each index entry is the (user key, seqno) of the last item of its block (one entry per block), and the index is
    strictly ascending in internal-key order (key ascending, seqno descending). -/
theorem c12_index (bs : Nat) (sizeOf : Entry K → Nat) (items : List (Entry K)) (hs : IsSource items) :
    (writeTable bs sizeOf items).index.map some
      = (writeTable bs sizeOf items).blocks.map
          (fun b => b.getLast?.map (fun l => (⟨l.key, l.seqno⟩ : IndexEntry K))) ∧
    (writeTable bs sizeOf items).index.Pairwise
      (fun a b => a.endKey < b.endKey ∨ (a.endKey = b.endKey ∧ b.seqno < a.seqno)) := by
  have hi := (writeTable_structure bs sizeOf items).2.1
  constructor
  · rw [hi]; exact index_is_last _ (writeTable_nonempty bs sizeOf items)
  · rw [hi]
    exact index_ascending _ (by rw [writeTable_flatten]; exact hs)

/-- `Table::point_read` returns the newest visible version — also when the versions of one key span several blocks.
    The seek rule proved correct is the code's: first block whose end `(ek, es)` satisfies
    `ek > k ∨ (ek = k ∧ es < S)`. -/
theorem c12_point (bs : Nat) (sizeOf : Entry K → Nat) (items : List (Entry K)) (hs : IsSource items)
    (k : K) (S : Nat) :
    pointRead (writeTable bs sizeOf items) k S = newest items k S := by
  have hst := writeTable_structure bs sizeOf items
  have hne := writeTable_nonempty bs sizeOf items
  have hf := writeTable_flatten bs sizeOf items
  rw [pointRead_eq_loop _ _ rfl hst.2.1 hne, pointLoop_handles _ hne (by rw [hf]; exact hs), hf]

/-- The `continue` branch of the loop in `Table::point_read` (mod.rs:322-337) is dead for written tables: the first
    block after the seek already decides. -/
theorem c12_point_first_block (bs : Nat) (sizeOf : Entry K → Nat) (items : List (Entry K)) (hs : IsSource items)
    (k : K) (S : Nat) :
    let t := writeTable bs sizeOf items
    newest items k S =
      match seekLowerIdx t.index k S with
      | none => none
      | some i => match (t.index.zip t.blocks)[i]? with
        | some (_, b) => blockPointRead k S b
        | none => none := by
  intro t
  rw [← c12_point bs sizeOf items hs k S]
  show pointRead t k S = _
  unfold pointRead
  cases hi : seekLowerIdx t.index k S with
  | none => rfl
  | some i =>
    simp only []
    have hp := c12_point bs sizeOf items hs k S
    -- the loop result equals the first block's result
    have hst := writeTable_structure bs sizeOf items
    have hne := writeTable_nonempty bs sizeOf items
    have hf := writeTable_flatten bs sizeOf items
    have hz : t.index.zip t.blocks = handles t.blocks := by
      show (writeTable bs sizeOf items).index.zip _ = _
      rw [hst.2.1]; exact zip_handles _ hne
    rw [hz]
    -- drop i = dropWhile pred
    have hdrop : (handles t.blocks).drop i = (handles t.blocks).dropWhile (fun h => idxPred k S h.1) := by
      unfold seekLowerIdx at hi
      simp only [] at hi
      split at hi
      · exact absurd hi (by simp)
      · simp only [Option.some.injEq] at hi
        rw [← hi, show t.index = (handles t.blocks).map (·.1) from by
          rw [handles_map_fst]; exact hst.2.1]
        exact drop_ppoint_map _ _ _
    cases hd : (handles t.blocks).drop i with
    | nil =>
      have : (handles t.blocks)[i]? = none := by
        rw [List.getElem?_eq_none_iff]
        have := List.drop_eq_nil_iff.mp hd; exact this
      simp [this, pointLoop]
    | cons h rest =>
      obtain ⟨ie, b⟩ := h
      have hget : (handles t.blocks)[i]? = some (ie, b) := by
        have := List.getElem?_drop (xs := handles t.blocks) (i := i) (j := 0)
        rw [hd] at this; simpa using this.symm
      rw [hget]
      simp only [pointLoop]
      cases hb : blockPointRead k S b with
      | some e => rfl
      | none =>
        simp only []
        -- either the end key is above `k` (stop) or the block's last item is visible (contradiction)
        by_cases hke : k < ie.endKey
        · simp [hke]
        · exfalso
          have hmem : (ie, b) ∈ handles t.blocks := List.mem_of_getElem? hget
          obtain ⟨b', hb', l, hl, heq⟩ := mem_handles hmem
          simp only [Prod.mk.injEq] at heq
          obtain ⟨rfl, rfl⟩ := heq
          have hhead : idxPred k S (endIe l) = false := by
            have : ((handles t.blocks).dropWhile (fun h => idxPred k S h.1)).head? = some (endIe l, b) := by
              rw [← hdrop, hd]; rfl
            have := List.head?_dropWhile_not (fun h : IndexEntry K × Block K => idxPred k S h.1) (handles t.blocks)
            rw [‹((handles t.blocks).dropWhile _).head? = _›] at this
            simpa using this
          have hsb : IsSource b := IsSource.sublist (List.sublist_flatten_of_mem hb') (by rw [hf]; exact hs)
          rw [blockPointRead_eq_newest hsb, newest_eq_none] at hb
          have := hb l (List.mem_of_getLast? hl)
          simp only [idxPred, endIe, Bool.or_eq_false_iff, Bool.and_eq_false_imp] at hhead
          simp only [endIe] at hke
          have h1 : ¬ l.key < k := of_decide_eq_false hhead.1
          have hk : l.key = k := by grind
          have h2 := hhead.2 (decide_eq_true hk)
          have h3 : ¬ S ≤ l.seqno := of_decide_eq_false h2
          exact this hk (by omega)

/-- `Table::get`: seqno translation by the global seqno, early exit on the recorded minimum seqno, filter (any filter
    without false negatives on the registered keys), point read. -/
theorem c12_get (bs : Nat) (sizeOf : Entry K → Nat) (items : List (Entry K)) (hs : IsSource items)
    (gseq : Nat) (filterOk : K → Bool)
    (hfilter : ∀ k ∈ (writeTable bs sizeOf items).filterKeys, filterOk k = true) (k : K) (S : Nat) :
    tableGet (writeTable bs sizeOf items) gseq filterOk k S
      = (newest items k (S - gseq)).map (fun e => { e with seqno := e.seqno + gseq }) := by
  unfold tableGet
  simp only []
  rw [(writeTable_meta bs sizeOf items).1]
  by_cases h1 : (writerMeta items).minSeqno ≥ S - gseq
  · rw [if_pos h1]
    have : newest items k (S - gseq) = none := by
      rw [newest_eq_none]
      intro x hx _
      have := (writerMeta_seqno_bounds items x hx).1
      omega
    simp [this]
  · rw [if_neg h1]
    by_cases h2 : filterOk k = true
    · simp only [h2, Bool.not_true, Bool.false_eq_true, if_false]
      rw [c12_point bs sizeOf items hs]
    · have h2' : filterOk k = false := by simpa using h2
      simp only [h2', Bool.not_false, if_true]
      have : newest items k (S - gseq) = none := by
        rw [newest_eq_none]
        intro x hx hxk
        exfalso
        apply h2
        apply hfilter
        rw [(writeTable_meta bs sizeOf items).2, writerFilterKeys_eq items hs, mem_dedupKeys_iff]
        exact List.mem_map.mpr ⟨x, hx, hxk⟩
      simp [this]

/-- `Table::range((lo, hi))` consumed from both ends by any word returns exactly the in-range part of the stream
    (any bounds, including empty / inverted ones). Seqnos are assumed `< u64::MAX` (see R2). -/
theorem c12_range_both_ends (bs : Nat) (sizeOf : Entry K → Nat) (items : List (Entry K)) (hs : IsSource items)
    (hmax : ∀ e ∈ items, e.seqno < u64Max) (lo hi : Bound K) (w : List Dir) :
    rangeRun (writeTable bs sizeOf items) lo hi w
      = bothEnds (items.filter (fun e => inBounds lo hi e.key)) w := by
  have hst := writeTable_structure bs sizeOf items
  have hne := writeTable_nonempty bs sizeOf items
  have hf := writeTable_flatten bs sizeOf items
  unfold rangeRun
  rw [hst.2.1, zip_handles _ hne]
  have hsf : IsSource (writeTable bs sizeOf items).blocks.flatten := by rw [hf]; exact hs
  rw [rRun_spec]
  · congr 1
    simp only [remaining, Bool.false_eq_true, if_false]
    rw [rInit_spec lo hi _ hne hsf (by rw [hf]; exact hmax), hf]
  · constructor
    · intro h hm
      obtain ⟨b, hb, l, hl, rfl⟩ := mem_handles hm
      exact IsSource.sublist (List.sublist_flatten_of_mem hb) hsf
    · intro _; exact ⟨rfl, rfl⟩

/-- full double-ended iteration (`Table::iter` = `range(..)`) -/
theorem c12_iter_both_ends (bs : Nat) (sizeOf : Entry K → Nat) (items : List (Entry K)) (hs : IsSource items)
    (hmax : ∀ e ∈ items, e.seqno < u64Max) (w : List Dir) :
    rangeRun (writeTable bs sizeOf items) .unb .unb w = bothEnds items w := by
  rw [c12_range_both_ends bs sizeOf items hs hmax]
  congr 1
  exact List.filter_eq_self.mpr (by simp [inBounds, Bound.okLo, Bound.okHi])

/-- The metadata the writer accumulates while streaming equals the declarative metadata of the stream
    (first/last key, item count, distinct-key count, tombstone counts, reclaimable weak tombstones, min/max seqno). -/
theorem c12_meta (items : List (Entry K)) (hs : IsSource items) : writerMeta items = declMeta items :=
  writerMeta_eq_declMeta items hs

/-- … and that is what ends up in the table, whatever the block size. -/
theorem c12_meta_table (bs : Nat) (sizeOf : Entry K → Nat) (items : List (Entry K)) (hs : IsSource items) :
    (writeTable bs sizeOf items).mdata = declMeta items := by
  rw [(writeTable_meta bs sizeOf items).1, c12_meta items hs]

/-- for real (u64) seqnos the recorded minimum is the minimum of the stream -/
theorem c12_meta_min (items : List (Entry K)) (hs : IsSource items) (hne : items ≠ [])
    (hmax : ∀ e ∈ items, e.seqno ≤ u64Max) :
    (∃ e ∈ items, e.seqno = (writerMeta items).minSeqno) ∧ (∀ e ∈ items, (writerMeta items).minSeqno ≤ e.seqno) ∧
    (∃ e ∈ items, e.seqno = (writerMeta items).maxSeqno) ∧ (∀ e ∈ items, e.seqno ≤ (writerMeta items).maxSeqno) := by
  have hb := writerMeta_seqno_bounds items
  refine ⟨?_, fun e he => (hb e he).1, ?_, fun e he => (hb e he).2⟩
  · rw [c12_meta items hs]
    simp only [declMeta]
    cases hm : (items.map (·.seqno)).min? with
    | none => simp [List.min?_eq_none_iff] at hm; exact absurd hm hne
    | some m =>
      have hmem := List.min?_mem hm
      obtain ⟨e, he, rfl⟩ := List.mem_map.mp hmem
      exact ⟨e, he, by have := hmax e he; simp only []; omega⟩
  · rw [c12_meta items hs]
    simp only [declMeta]
    cases hm : (items.map (·.seqno)).max? with
    | none => simp [List.max?_eq_none_iff] at hm; exact absurd hm hne
    | some m =>
      have hmem := List.max?_mem hm
      obtain ⟨e, he, rfl⟩ := List.mem_map.mp hmem
      exact ⟨e, he, rfl⟩

/-- One filter registration per distinct user key (not per item), and every user key of the stream is registered;
    so a filter without false negatives on its registered keys (C11) never rejects a written key. -/
theorem c12_filter_complete (bs : Nat) (sizeOf : Entry K → Nat) (items : List (Entry K)) (hs : IsSource items) :
    (writeTable bs sizeOf items).filterKeys = dedupKeys (items.map (·.key)) ∧
    (∀ e ∈ items, e.key ∈ (writeTable bs sizeOf items).filterKeys) ∧
    (writeTable bs sizeOf items).filterKeys.length = (writeTable bs sizeOf items).mdata.keyCount := by
  have h1 : (writeTable bs sizeOf items).filterKeys = dedupKeys (items.map (·.key)) := by
    rw [(writeTable_meta bs sizeOf items).2, writerFilterKeys_eq items hs]
  refine ⟨h1, ?_, ?_⟩
  · intro e he
    rw [h1, mem_dedupKeys_iff]
    exact List.mem_map.mpr ⟨e, he, rfl⟩
  · rw [h1, c12_meta_table bs sizeOf items hs]; rfl

/-- The binary searches of the index seeks (`partition_point_2`, decoder.rs:226-245) compute the partition points the
    model uses (`ppoint`): the seek predicates are monotone on the index of a written table. -/
theorem c12_index_bsearch (bs : Nat) (sizeOf : Entry K → Nat) (items : List (Entry K)) (hs : IsSource items)
    (k : K) (S : Nat) :
    let index := (writeTable bs sizeOf items).index
    bsearch (idxPred k S) index index.length 0 index.length = ppoint (idxPred k S) index ∧
    bsearch (idxPredUpper k) index index.length 0 index.length = ppoint (idxPredUpper k) index := by
  intro index
  have hasc : index.Pairwise ieLt := (c12_index bs sizeOf items hs).2
  exact ⟨bsearch_full _ _ (idxPred_mono index hasc k S), bsearch_full _ _ (idxPredUpper_mono index hasc k)⟩

/-- Inside a data block, the restart-interval jump of `point_read` (binary search over the restart heads for the last
    head `< needle`, any restart interval `ri ≥ 1`, then a linear scan) gives the same answer as the plain
    left-to-right walk `blockPointRead`, i.e. the newest visible version in the block. -/
theorem c12_block_seek (ri : Nat) (hri : 1 ≤ ri) (b : Block K) (hs : IsSource b) (k : K) (S : Nat) :
    blockPointRead k S (blockSeekRi ri k b) = newest b k S ∧
    bsearch (fun h : Entry K => decide (h.key < k)) (restartHeads ri b) (restartHeads ri b).length 0
        (restartHeads ri b).length = ppoint (fun h : Entry K => decide (h.key < k)) (restartHeads ri b) := by
  constructor
  · rw [blockSeekRi_dropWhile ri (by omega) b hs k, ← blockPointRead_eq_newest hs]
    clear hs
    induction b with
    | nil => rfl
    | cons e t ih =>
      by_cases h : e.key < k
      · simp [h, blockPointRead, ih]
      · simp [h]
  · apply bsearch_full
    have hsub : (restartHeads ri b).Sublist b := by
      unfold restartHeads
      generalize (b.length + ri - 1) / ri = m
      -- heads are picked at increasing positions
      have : ∀ m, ((List.range m).filterMap (fun i => b[i * ri]?)).Sublist (b.take ((m - 1) * ri + 1)) := by
        intro m
        induction m with
        | zero => simp
        | succ m ih =>
          rw [List.range_succ, List.filterMap_append]
          simp only [List.filterMap_cons, List.filterMap_nil, Nat.add_sub_cancel]
          cases m with
          | zero =>
            cases b with
            | nil => simp
            | cons x xs => simp
          | succ m =>
            simp only [Nat.add_sub_cancel] at ih
            cases hg : b[(m + 1) * ri]? with
            | none =>
              simp only [List.append_nil]
              exact ih.trans (List.take_sublist_take_left (by
                have : m * ri ≤ (m + 1) * ri := Nat.mul_le_mul_right ri (by omega)
                omega))
            | some x =>
              simp only []
              have hlt : (m + 1) * ri < b.length := by
                rcases Nat.lt_or_ge ((m + 1) * ri) b.length with h | h
                · exact h
                · rw [List.getElem?_eq_none_iff.mpr h] at hg; exact absurd hg (by simp)
              have hsplit : b.take ((m + 1) * ri + 1) = b.take (m * ri + 1) ++ (b.drop (m * ri + 1)).take ((m + 1) * ri - m * ri) := by
                have : (m + 1) * ri + 1 = (m * ri + 1) + ((m + 1) * ri - m * ri) := by
                  have : m * ri ≤ (m + 1) * ri := Nat.mul_le_mul_right ri (by omega)
                  omega
                rw [this, List.take_add]
              rw [hsplit]
              apply List.Sublist.append ih
              apply List.singleton_sublist.mpr
              rw [List.mem_take_iff_getElem]
              have hstep : (m + 1) * ri = m * ri + ri := by rw [Nat.add_mul, Nat.one_mul]
              refine ⟨(m + 1) * ri - (m * ri + 1), by simp; omega, ?_⟩
              rw [List.getElem_drop]
              have : m * ri + 1 + ((m + 1) * ri - (m * ri + 1)) = (m + 1) * ri := by omega
              simp only [this]
              rw [List.getElem?_eq_getElem hlt] at hg
              exact Option.some.inj hg
      exact (this m).trans (List.take_sublist _ _)
    exact List.Pairwise.sublist hsub (headPred_mono b hs k)

/-- C12 (byte level, one data block): forward decoding of an encoded block returns exactly the items, for every
    restart interval `1 ≤ ri ≤ 255` (`u8`), provided tombstones carry no value bytes (the encoder does not store them).
    `encodeBlock` is byte-identical to `DataBlock::encode_into_vec(items, ri, 0.0)` on the differential corpus. -/
theorem c12_block_codec_roundtrip (ri : Nat) (h1 : 1 ≤ ri) (h2 : ri < 256) (items : List (Entry Codec.Bytes))
    (hw : ∀ e ∈ items, Codec.WfEntry e) :
    Codec.decodeBlock (Codec.encodeBlock ri items) = some items :=
  Codec.block_roundtrip ri h1 h2 items hw

theorem c12_varint_roundtrip (n : Nat) (tail : Codec.Bytes) :
    Codec.decodeVarint (Codec.encodeVarint n ++ tail) = some (n, tail) := Codec.varint_roundtrip n tail

theorem c12_entry_roundtrip (e : Entry Codec.Bytes) (hw : Codec.WfEntry e) (base tail : Codec.Bytes) :
    Codec.decodeFull (Codec.encodeFull e ++ tail) = some (e, tail) ∧
    Codec.decodeTrunc base (Codec.encodeTrunc (Codec.sharedPrefixLen base e.key) e ++ tail) = some (e, tail) :=
  Codec.entry_roundtrip e hw base tail

/-! ### Non-vacuity: concrete instances (`K := Nat`) -/
section Examples

/-- five items; the three versions of key 2 are cut across two blocks by a block size of 2 (size measure 1/item) -/
def exItems : List (Entry Nat) :=
  [⟨1, 9, .value, [1]⟩, ⟨2, 7, .value, [2]⟩, ⟨2, 5, .weak, []⟩, ⟨2, 3, .value, [4]⟩, ⟨3, 2, .tomb, []⟩]

def exTable : TableImage Nat := writeTable 2 (fun _ => 1) exItems

example : IsSource exItems := (isSourceB_iff _).mp (by decide)

example : exTable.blocks =
    [[⟨1, 9, .value, [1]⟩, ⟨2, 7, .value, [2]⟩], [⟨2, 5, .weak, []⟩, ⟨2, 3, .value, [4]⟩], [⟨3, 2, .tomb, []⟩]] := by
  decide

example : exTable.index = [⟨2, 7⟩, ⟨2, 3⟩, ⟨3, 2⟩] := by decide

example : exTable.mdata =
    { itemCount := 5, keyCount := 3, tombstoneCount := 2, weakTombstoneCount := 1, weakTombstoneReclaimable := 1,
      firstKey := some 1, lastKey := some 3, minSeqno := 2, maxSeqno := 9 } := by decide

example : exTable.filterKeys = [1, 2, 3] := by decide

/-- point reads of key 2 at every snapshot 0..10: blocks 0 and 1 are both needed -/
example : (List.range 11).map (fun S => (pointRead exTable 2 S).map (·.seqno))
    = [none, none, none, none, some 3, some 3, some 5, some 5, some 7, some 7, some 7] := by decide

example : (List.range 11).map (fun S => pointRead exTable 2 S) = (List.range 11).map (fun S => newest exItems 2 S) := by
  decide

/-- the seek for `(2, S = 6)` skips block 0 (it ends in `(2, 7)`, `7 ≥ 6`) and lands on block 1 -/
example : seekLowerIdx exTable.index 2 6 = some 1 := by decide
example : seekLowerIdx exTable.index 2 8 = some 0 := by decide
example : seekLowerIdx exTable.index 2 3 = some 2 := by decide
example : seekLowerIdx exTable.index 4 100 = none := by decide
example : pointRead exTable 4 100 = none := by decide
example : pointRead exTable 0 100 = none := by decide

/-- ranged scan `[2, 3)` consumed Front, Back, Front, Back, Front -/
example : (rangeRun exTable (.incl 2) (.excl 3) [.F, .B, .F, .B, .F]).map (·.map (·.seqno))
    = [some 7, some 3, some 5, none, none] := by decide

example : rangeRun exTable (.incl 2) (.excl 3) [.F, .B, .F, .B, .F]
    = bothEnds (exItems.filter (fun e => inBounds (.incl 2) (.excl 3) e.key)) [.F, .B, .F, .B, .F] := by decide

/-- inverted bounds give nothing -/
example : rangeRun exTable (.incl 3) (.incl 1) [.F, .B] = [none, none] := by decide

/-- full double-ended iteration -/
example : (rangeRun exTable .unb .unb [.B, .F, .B, .F, .B, .F]).map (·.map (·.seqno))
    = [some 2, some 9, some 3, some 7, some 5, none] := by decide

/-- with block size 0 every item is its own block -/
example : (writeTable 0 (fun _ => 0) exItems).blocks.length = 5 := by decide

/-- R2: the hypothesis `seqno < u64::MAX` of `c12_range_both_ends` is needed: a block ending in
    `(k, u64::MAX)` is skipped by the lower-bound index seek `seek_lower(k, u64::MAX)`. -/
theorem example_seqno_max :
    let items : List (Entry Nat) := [⟨1, u64Max, .value, [1]⟩]
    IsSource items ∧
    rangeRun (writeTable 4096 (fun _ => 1) items) (.incl 1) .unb [.F] = [none] ∧
    bothEnds (items.filter (fun e => inBounds (.incl 1) .unb e.key)) [.F] = [some ⟨1, u64Max, .value, [1]⟩] := by
  refine ⟨(isSourceB_iff _).mp (by decide), by decide, by decide⟩

/-- byte-level: three items, restart interval 2: head, truncated (shared prefix "ab" with the head), head.
    The bytes are those produced by `DataBlock::encode_into_vec` (checked against the Rust encoder). -/
def exBlock : List (Entry Codec.Bytes) :=
  [⟨[97, 98, 99], 300, .value, [1, 2]⟩, ⟨[97, 98, 100], 7, .tomb, []⟩, ⟨[97, 99], 5, .value, [9]⟩]

example : Codec.encodeBlock 2 exBlock =
    [0, 172, 2, 3, 97, 98, 99, 2, 1, 2,          -- head: type, seqno 300, key len 3, "abc", val len 2, val
     1, 7, 2, 1, 100,                            -- truncated tombstone: type, seqno 7, shared 2, rest 1, "d"
     0, 5, 2, 97, 99, 1, 9,                      -- head: type, seqno 5, key len 2, "ac", val len 1, val
     255,                                        -- trailer start marker
     0, 0, 15, 0,                                -- binary index: offsets 0 and 15 (u16 LE)
     2, 2, 2, 0, 0, 0, 23, 0, 0, 0,              -- restart interval, step size, index len, index offset
     0, 0, 0, 0, 0, 0, 0, 0, 1, 0, 0, 0, 0, 0, 0, 0, 0, 3, 0, 0, 0] := by decide

example : Codec.decodeBlock (Codec.encodeBlock 2 exBlock) = some exBlock := by decide
example : Codec.encodeVarint 300 = [172, 2] := by decide
example : Codec.encodeVarint 0 = [0] := by decide
example : Codec.decodeVarint [172, 2, 77] = some (300, [77]) := by decide

/-- a tombstone carrying value bytes does NOT round-trip (the value is not stored): `WfEntry` is needed -/
example : Codec.decodeBlock (Codec.encodeBlock 1 [⟨[97], 1, .tomb, [5]⟩]) = some [⟨[97], 1, .tomb, []⟩] := by decide

end Examples

end Lsm.Blocks
