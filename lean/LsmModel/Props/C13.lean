import LsmModel.Lemmas.CStreamLemmas
import LsmModel.Lemmas.CStreamLegacy
/-!
# C13 — A weak delete behaves like a delete for keys written once

Reads only ever see the *newest visible* version of a key, so a weak tombstone and a strong one read alike; what can
break the property is garbage collection in `CompactionStream`: it lets a weak tombstone annihilate with the value
it deletes. The theorems below are about the version list of ONE key as the whole tree sees it (newest first):
`pre ++ mid ++ post`, where `mid` is the part inside the flush / compaction input (contiguous by admissibility of
the choice, see C01/C07), `pre` the newer versions outside it and `post` the older ones in lower levels.
`WeakSafe` is the single-delete discipline of the property statement: no strong delete, no overwritten value.
`cstream_key_indep` (C01) reduces a multi-key stream to these single-key lists.
-/
namespace Lsm
variable {K : Type} [LT K] [DecidableLT K] [DecidableEq K] [LE K] [Std.IsLinearOrder K] [Std.LawfulOrderLT K]

/-- Flush or compaction above the last level (`evict = false`), EVERY watermark: the discipline is preserved and the
    value a reader sees for the key (tombstone ↦ absent) is unchanged — the key neither stays visible nor comes back. -/
theorem c13_weak_delete_gc_safe (wm : Nat) (k : K) (pre mid post : List (Entry K))
    (hk : SingleKey k mid) (hd : WeakSafe (pre ++ mid ++ post)) :
    WeakSafe (pre ++ (cstream wm false noFilter mid).1 ++ post) ∧
    live (pre ++ (cstream wm false noFilter mid).1 ++ post).head? = live (pre ++ mid ++ post).head? :=
  cstream_weakSafe_noevict wm k pre mid post hk hd

/-- Compaction into the last level (`evict = true`; nothing older lives outside the input), every watermark. -/
theorem c13_weak_delete_gc_safe_last_level (wm : Nat) (k : K) (pre mid : List (Entry K))
    (hk : SingleKey k mid) (hd : WeakSafe (pre ++ mid)) :
    WeakSafe (pre ++ (cstream wm true noFilter mid).1) ∧
    live (pre ++ (cstream wm true noFilter mid).1).head? = live (pre ++ mid).head? :=
  cstream_weakSafe_evict wm k pre mid hk hd

/-- The stream treats user keys independently, so the single-key theorems apply to every key of a real input. -/
theorem c13_per_key_reduction (wm : Nat) (ev : Bool) (k : K) (l : List (Entry K)) (hs : IsSource l) :
    keyOf k (cstream wm ev noFilter l).1 = (cstream wm ev noFilter (keyOf k l)).1 :=
  (cstream_key_indep wm ev noFilter k l hs.keysSorted).1

/-- Record of finding F5: the stream as it was at the pinned commit violates the property on a discipline-respecting
    history (insert@1 in a lower level; weak delete@3, insert@5, weak delete@9 in the flushed memtable). -/
theorem c13_legacy_stream_violates :
    ∃ pre mid post : List (Entry Nat), WeakSafe (pre ++ mid ++ post) ∧
      live (pre ++ (cstreamLegacy 10 false noFilter mid).1 ++ post).head? ≠ live (pre ++ mid ++ post).head? :=
  legacy_breaks_weakSafe_read

/-- non-vacuity: the same history satisfies the hypotheses, and the repaired stream keeps the shielding tombstone -/
example : WeakSafe (([] : List (Entry Nat)) ++ f5mid ++ f5post) ∧ (cstream 10 false noFilter f5mid).1 = [⟨1, 3, .weak, []⟩] :=
  ⟨f5_weakSafe, f5_fixed_out⟩

end Lsm
