import LsmModel.Lemmas.MetaLemmas
import LsmModel.Lemmas.BlockLemmas
/-!
# C12m — the META block of a table file (what `table.metadata` / recovery read back)

C12 says a table's recorded metadata (item count, tombstone counts, key range, seqno range) equals what was written; C04 / C18 rely on
recovery reading the very same numbers back after a reopen. `c12_meta*` (Props/C12) prove that the numbers the writer ACCUMULATES
are the declarative facts of the stream; this module proves the other half for the model of `writer/mod.rs:417-513` and
`meta.rs:78-224`: what the writer RECORDS in the meta block is what `ParsedMeta::load_with_handle` returns, at item level and at byte
level (through the data-block codec of Props/C12), for every value of every field within the widths of the Rust types.
The tie to the code is `ia tables`: the real meta block of every generated table is parsed by the model and re-encoded from the real
field values, and both must match the implementation exactly (`tables.meta.*` counters).
-/
namespace Lsm.Meta
open Lsm

/-- **Round trip, item level.** For every metadata record within the field widths, parsing the 29 items the writer lists returns
    exactly the recorded id, creation time, block counts, key range, seqno range, sizes, counts and compression types. -/
theorem c12m_meta_roundtrip (m : TableMeta) (h : m.Bounded) : parseMeta (metaItems m) = some m.view :=
  parseMeta_metaItems m h

/-- **Round trip, byte level.** The meta block payload the writer emits (one data block, restart interval 1) decodes and parses
    back to the recorded fields. -/
theorem c12m_meta_block_roundtrip (m : TableMeta) (h : m.Bounded) : parseMetaBlock (encodeMetaBlock m) = some m.view :=
  parseMetaBlock_encode m h

/-- The writer's sortedness assertion can never fire: the property names are strictly ascending for every record. -/
theorem c12m_names_ascending (m : TableMeta) : ascending ((metaItems m).map (·.key)) = true := names_ascending m

/-- Recovery rejects (panics on) a meta block of another table version, hash type, checksum type or index restart interval. -/
theorem c12m_guards (items : List (Entry Bytes)) (p : Parsed) (h : parseMeta items = some p) :
    lookup kTableVersion items = some [3] ∧ lookup kFilterHashType items = some [0] ∧
    lookup kChecksumType items = some [0] ∧ readField 1 kRestartIntervalIndex items = some 1 :=
  parseMeta_guards items p h

/-- Whatever items a meta block holds, the id, seqno range, key range and counts recovery reports are those of the FIRST item of
    the respective name — nothing else in the block can influence them. -/
theorem c12m_fields_determined (items : List (Entry Bytes)) (p : Parsed) (h : parseMeta items = some p) :
    readField 8 kTableId items = some p.id ∧ readField 8 kSeqnoMin items = some p.seqnoMin ∧
    readField 8 kSeqnoMax items = some p.seqnoMax ∧ lookup kKeyMin items = some p.keyMin ∧
    lookup kKeyMax items = some p.keyMax ∧ readField 8 kItemCount items = some p.itemCount ∧
    readField 8 kTombstoneCount items = some p.tombstoneCount ∧ readField 8 kFileSize items = some p.fileSize :=
  parseMeta_fields items p h

/-- the physical facts the writer adds to the streaming bookkeeping -/
structure Phys where
  tableId : Nat
  createdAt : Nat
  fileSize : Nat
  dataBlockCount : Nat
  indexBlockCount : Nat
  filterBlockCount : Nat
  dataCompression : Nat
  indexCompression : Nat
  initialLevel : Nat
  riData : Nat
  userDataSize : Nat
  crateVersion : Bytes
  hashRatio : Bytes

/-- `Writer::finish`: the record built from the streaming bookkeeping `w` (Blocks.Meta) and the physical facts -/
def ofWriter (w : Blocks.Meta Bytes) (p : Phys) : TableMeta :=
  { dataBlockCount := p.dataBlockCount, filterBlockCount := p.filterBlockCount, indexBlockCount := p.indexBlockCount,
    dataCompression := p.dataCompression, indexCompression := p.indexCompression, crateVersion := p.crateVersion,
    createdAt := p.createdAt, hashRatio := p.hashRatio, fileSize := p.fileSize, initialLevel := p.initialLevel,
    itemCount := w.itemCount, keyMax := w.lastKey.getD [], keyMin := w.firstKey.getD [], keyCount := w.keyCount,
    riData := p.riData, riIndex := 1, seqnoMax := w.maxSeqno, seqnoMin := w.minSeqno, tableId := p.tableId,
    tombstoneCount := w.tombstoneCount, userDataSize := p.userDataSize, weakTombstoneCount := w.weakTombstoneCount,
    weakReclaimable := w.weakTombstoneReclaimable }

def Phys.Bounded (p : Phys) : Prop :=
  p.tableId < 2 ^ 64 ∧ p.createdAt < 2 ^ 128 ∧ p.fileSize < 2 ^ 64 ∧ p.dataBlockCount < 2 ^ 64 ∧ p.indexBlockCount < 2 ^ 64 ∧
  p.filterBlockCount < 2 ^ 64 ∧ p.dataCompression < 2 ∧ p.indexCompression < 2

theorem reclaimablePairs_le_length {K : Type} [DecidableEq K] : ∀ l : List (Entry K), Blocks.reclaimablePairs l ≤ l.length
  | [] => by simp [Blocks.reclaimablePairs]
  | [_] => by simp [Blocks.reclaimablePairs]
  | a :: b :: t => by
    have ih := reclaimablePairs_le_length (b :: t)
    simp only [Blocks.reclaimablePairs, List.length_cons] at ih ⊢
    split <;> omega

/-- **Recovered metadata = declarative facts of the written stream.** For every non-empty stream of fewer than 2^64 items with u64
    seqnos, the meta block written from the declarative metadata (which is what the writer accumulates: `c12_meta_table`) is read
    back by recovery as: item count = length, tombstone count = number of tombstones, weak tombstone count, reclaimable pairs, key
    range = first / last key, seqno range = min / max of the stream — the numbers C04, C07 and C18 rely on after a reopen. -/
theorem c12m_recovered_meta_declarative (items : List (Entry Bytes)) (p : Phys) (hp : p.Bounded)
    (hne : items ≠ []) (hlen : items.length < 2 ^ 64) (hseq : ∀ e ∈ items, e.seqno < 2 ^ 64) :
    ∃ r, parseMetaBlock (encodeMetaBlock (ofWriter (Blocks.declMeta items) p)) = some r ∧
      r.id = p.tableId ∧ r.itemCount = items.length ∧ r.tombstoneCount = items.countP (·.isTomb) ∧
      r.weakTombstoneCount = items.countP (fun e => e.vt = .weak) ∧
      r.weakReclaimable = Blocks.reclaimablePairs items ∧
      some r.keyMin = items.head?.map (·.key) ∧ some r.keyMax = items.getLast?.map (·.key) ∧
      (∃ e ∈ items, e.seqno = r.seqnoMax) ∧ (∀ e ∈ items, e.seqno ≤ r.seqnoMax) ∧
      (∃ e ∈ items, e.seqno = r.seqnoMin) ∧ (∀ e ∈ items, r.seqnoMin ≤ e.seqno) := by
  obtain ⟨hp1, hp2, hp3, hp4, hp5, hp6, hp7, hp8⟩ := hp
  -- facts about min / max of the seqnos
  have hmapne : items.map (·.seqno) ≠ [] := by simpa using hne
  obtain ⟨mx, hmx⟩ : ∃ mx, (items.map (·.seqno)).max? = some mx := by
    cases h : (items.map (·.seqno)).max? with
    | none => exact absurd (List.max?_eq_none_iff.mp h) hmapne
    | some v => exact ⟨v, rfl⟩
  obtain ⟨mn, hmn⟩ : ∃ mn, (items.map (·.seqno)).min? = some mn := by
    cases h : (items.map (·.seqno)).min? with
    | none => exact absurd (List.min?_eq_none_iff.mp h) hmapne
    | some v => exact ⟨v, rfl⟩
  have hmxmem := List.max?_mem hmx
  have hmnmem := List.min?_mem hmn
  obtain ⟨emx, hemx, hemxs⟩ := List.mem_map.mp hmxmem
  obtain ⟨emn, hemn, hemns⟩ := List.mem_map.mp hmnmem
  have hmxle : ∀ e ∈ items, e.seqno ≤ mx := fun e he =>
    (List.max?_eq_some_iff.mp hmx).2 _ (List.mem_map.mpr ⟨e, he, rfl⟩)
  have hmnle : ∀ e ∈ items, mn ≤ e.seqno := fun e he =>
    (List.min?_eq_some_iff.mp hmn).2 _ (List.mem_map.mpr ⟨e, he, rfl⟩)
  have hmxlt : mx < 2 ^ 64 := hemxs ▸ hseq emx hemx
  have hmnlt : mn < 2 ^ 64 := hemns ▸ hseq emn hemn
  have hminu : min Blocks.u64Max mn = mn := by
    have : mn ≤ Blocks.u64Max := by unfold Blocks.u64Max; omega
    omega
  have hcp1 : items.countP (·.isTomb) ≤ items.length := List.countP_le_length
  have hcp2 : items.countP (fun e => e.vt = .weak) ≤ items.length := List.countP_le_length
  have hrec : Blocks.reclaimablePairs items ≤ items.length := reclaimablePairs_le_length items
  have hb : (ofWriter (Blocks.declMeta items) p).Bounded := by
    simp only [TableMeta.Bounded, ofWriter, Blocks.declMeta, hmx, hmn, hminu]
    exact ⟨hp4, hp6, hp5, hp7, hp8, hp2, hp3, hlen, hmxlt, hmnlt, hp1, by omega, by omega, by omega, trivial⟩
  refine ⟨_, parseMetaBlock_encode _ hb, ?_⟩
  obtain ⟨a, l, rfl⟩ := List.exists_cons_of_ne_nil hne
  have hlast : ∃ z, (a :: l).getLast? = some z := ⟨(a :: l).getLast (by simp), List.getLast?_eq_some_getLast (by simp)⟩
  obtain ⟨z, hz⟩ := hlast
  simp only [TableMeta.view, ofWriter, Blocks.declMeta, hmx, hmn, hminu, List.head?_cons, Option.map_some, Option.getD_some,
    hz, List.length_cons, true_and]
  exact ⟨⟨emx, hemx, hemxs⟩, hmxle, ⟨emn, hemn, hemns⟩, hmnle⟩

/-! ### Non-vacuity -/

/-- a concrete record: table 7 with 3 items, keys `a`..`c`, seqnos 4..9 -/
def exMeta : TableMeta :=
  { dataBlockCount := 1, filterBlockCount := 1, indexBlockCount := 1, dataCompression := 0, indexCompression := 0,
    crateVersion := [51, 46, 49, 46, 57], createdAt := 1700000000000000000, hashRatio := [0, 0, 0, 0], fileSize := 512,
    initialLevel := 0, itemCount := 3, keyMax := [99], keyMin := [97], keyCount := 3, riData := 16, riIndex := 1, seqnoMax := 9,
    seqnoMin := 4, tableId := 7, tombstoneCount := 1, userDataSize := 30, weakTombstoneCount := 0, weakReclaimable := 0 }

example : exMeta.Bounded := by decide
example : (parseMeta (metaItems exMeta)).map (·.seqnoMax) = some 9 := by
  rw [c12m_meta_roundtrip exMeta (by decide)]; rfl
/-- a different index restart interval is written but refused by recovery (the `assert_eq!` of meta.rs) -/
example : parseMeta (metaItems { exMeta with riIndex := 2 }) = none := by decide

end Lsm.Meta
