import LsmModel.Lemmas.CodecBackEnc
import LsmModel.Lemmas.CodecBackWalk
import LsmModel.Lemmas.CodecBackSeekFwd
import LsmModel.Lemmas.CodecBackSeekBwd
import LsmModel.Lemmas.BlockLemmas
/-
  LsmModel.Props.C12back — the byte-level DOUBLE-ENDED data-block decoder returns exactly the items encoded.

  "For every restart interval 1 ≤ ri ≤ 255 and every non-empty list of well-formed entries, decoding the bytes produced
   by the block encoder from the back yields the entries in reverse order, and any interleaving of front and back pulls
   yields exactly what consuming the entry list from both ends yields: the two cursors never cross, never duplicate
   and never lose an entry, and once exhausted every further pull from either end answers `None`."

  Model: LsmModel/Table/CodecBack.lean (transcription of table/block/decoder.rs, binary_index/reader.rs,
  data_block/{mod,iter}.rs, double_ended_peekable.rs; see its MODELLING NOTES B1-B10), on the byte lists of
  LsmModel/Table/Codec.lean (`encodeBlock`).  Hypotheses: `WfEntry` (tombstones carry no value, Codec note C2),
  `ri < 256` (the trailer stores it as u8) and block length `< 2^32` (the trailer stores offsets as u32).
  NO ordering hypothesis is needed for iteration.  Proof structure: `layout_encodeBlock` (CodecBackEnc.lean: the bytes
  of an encoded block satisfy `Layout` — trailer fields, binary index entries, item offsets, parse results) and the
  state-machine lemmas over `Layout` (CodecBackLemmas.lean, CodecBackWalk.lean).
-/
namespace Lsm.CodecBack
open Lsm Lsm.Codec

/-- non-vacuity of the hypotheses: a two-interval block with a tombstone -/
example : ∃ items : List (Entry Bytes), items ≠ [] ∧ (∀ e ∈ items, WfEntry e) ∧ (encodeBlock 2 items).length < 2 ^ 32 :=
  ⟨[⟨[97], 5, .value, [1, 2]⟩, ⟨[97], 3, .tomb, []⟩, ⟨[97, 98], 9, .value, [255]⟩], by simp,
    by intro e he; simp at he; rcases he with rfl | rfl | rfl <;> simp [WfEntry, Entry.isTomb], by decide⟩

/-- Backward iteration (`DataBlock::iter().rev()`) over the bytes of an encoded block yields the items reversed. -/
theorem c12back_reverse (ri : Nat) (h1 : 1 ≤ ri) (h2 : ri < 256) (items : List (Entry Bytes)) (hne : items ≠ [])
    (hw : ∀ e ∈ items, WfEntry e) (hsz : (encodeBlock ri items).length < 2 ^ 32) :
    decodeBlockBack (encodeBlock ri items) = some items.reverse := by
  obtain ⟨off, kOff, d0, L⟩ := layout_encodeBlock ri h1 h2 items hne hw hsz
  exact decodeBlockBack_of_layout L

/-- Any word of front (`next`) and back (`next_back`) pulls on a fresh `DataBlock::iter()` over the bytes of an encoded
    block yields exactly what consuming the item list from both ends yields (`bothEnds`, LsmModel/Basic.lean):
    no crossing, no duplicate, no loss, `None` forever once the items are used up; the decoder never panics. -/
theorem c12back_both_ends (ri : Nat) (h1 : 1 ≤ ri) (h2 : ri < 256) (items : List (Entry Bytes)) (hne : items ≠ [])
    (hw : ∀ e ∈ items, WfEntry e) (hsz : (encodeBlock ri items).length < 2 ^ 32) (w : List Dir) :
    (Iter.new (encodeBlock ri items)).bind (fun it => Iter.run it w) = some (bothEnds items w) := by
  obtain ⟨off, kOff, d0, L⟩ := layout_encodeBlock ri h1 h2 items hne hw hsz
  exact run_of_layout L w

/-- Forward and backward decoding of the same bytes agree: the new double-ended decoder run from the back returns the
    reverse of what the forward decoder of Codec.lean (`decodeBlock`, theorem `block_roundtrip`) returns. -/
theorem c12back_agrees_with_forward (ri : Nat) (h1 : 1 ≤ ri) (h2 : ri < 256) (items : List (Entry Bytes)) (hne : items ≠ [])
    (hw : ∀ e ∈ items, WfEntry e) (hsz : (encodeBlock ri items).length < 2 ^ 32) :
    decodeBlockBack (encodeBlock ri items) = (decodeBlock (encodeBlock ri items)).map List.reverse := by
  rw [c12back_reverse ri h1 h2 items hne hw hsz, block_roundtrip ri h1 h2 items hw]
  rfl

/-- non-vacuity of the ordering hypothesis of the seek theorems: the block above is a source -/
example : IsSource ([⟨[97], 5, .value, [1, 2]⟩, ⟨[97], 3, .tomb, []⟩, ⟨[97, 98], 9, .value, [255]⟩] : List (Entry Bytes)) := by
  unfold IsSource; decide

/-- user keys of a source (strictly ascending internal keys: key ascending, seqno descending) never decrease -/
theorem keys_sorted_of_source (items : List (Entry Bytes)) (hs : IsSource items) :
    ∀ (a b : Nat) (ea eb : Entry Bytes), a ≤ b → items[a]? = some ea → items[b]? = some eb → ¬ eb.key < ea.key := by
  intro a b ea eb hab ha hb
  by_cases h : a = b
  · subst h
    rw [ha] at hb
    cases hb
    exact List.lt_irrefl _
  · have hlt : a < b := by omega
    obtain ⟨hal, hae⟩ := List.getElem?_eq_some_iff.mp ha
    obtain ⟨hbl, hbe⟩ := List.getElem?_eq_some_iff.mp hb
    have := (List.pairwise_iff_getElem.mp hs) a b hal hbl hlt
    rw [hae, hbe] at this
    simp only [ikLt, Bool.or_eq_true, Bool.and_eq_true, decide_eq_true_eq] at this
    rcases this with h1 | ⟨h1, _⟩
    · exact List.not_lt.mpr (List.le_of_lt h1)
    · rw [h1]; exact List.lt_irrefl _

/-- `seek k` on a fresh `DataBlock::iter()` over the bytes of an encoded block of a source (entries strictly ascending
    in internal-key order), followed by forward iteration, yields exactly the suffix of the items whose USER key is
    ≥ k — the seqno plays no role in `Iter::seek` (the restart-head predicate is `|head_key, _| head_key < needle`);
    the Boolean returned says whether the first item of that suffix has user key = k.  (`point_read(k, seqno)` then
    skips, inside this suffix, the versions with `item.seqno >= seqno`, see `pointRead`.)  The binary search over the
    byte-level binary index (u16 or u32 entries) is covered in full generality (`bsearch_spec`). -/
theorem c12back_seek (ri : Nat) (h1 : 1 ≤ ri) (h2 : ri < 256) (items : List (Entry Bytes)) (hne : items ≠ [])
    (hw : ∀ e ∈ items, WfEntry e) (hsz : (encodeBlock ri items).length < 2 ^ 32) (hs : IsSource items) (k : Bytes) :
    ∃ it' b, (Iter.new (encodeBlock ri items)).bind (fun it => it.seek k false) = some (it', b) ∧
      Iter.drainFwd ((encodeBlock ri items).length + 2) it' = some (items.dropWhile (fun e => decide (e.key < k))) ∧
      b = ((items.dropWhile (fun e => decide (e.key < k))).head?.map (fun e => decide (e.key = k))).getD false := by
  obtain ⟨off, kOff, d0, L⟩ := layout_encodeBlock ri h1 h2 items hne hw hsz
  exact seek_forward L (keys_sorted_of_source items hs) k

/-- `seek_upper k` on a fresh `DataBlock::iter()` over the bytes of an encoded block of a source, followed by backward
    iteration, yields exactly the reverse of the prefix of the items whose USER key is ≤ k (all versions, whatever the
    seqnos); the Boolean returned says whether the last item of that prefix has user key = k. -/
theorem c12back_seek_upper (ri : Nat) (h1 : 1 ≤ ri) (h2 : ri < 256) (items : List (Entry Bytes)) (hne : items ≠ [])
    (hw : ∀ e ∈ items, WfEntry e) (hsz : (encodeBlock ri items).length < 2 ^ 32) (hs : IsSource items) (k : Bytes) :
    ∃ it' b, (Iter.new (encodeBlock ri items)).bind (fun it => it.seekUpper k false) = some (it', b) ∧
      Iter.drainBack ((encodeBlock ri items).length + 2) it' =
        some ((items.takeWhile (fun e => !decide (k < e.key))).reverse) ∧
      b = ((items.takeWhile (fun e => !decide (k < e.key))).getLast?.map (fun e => decide (e.key = k))).getD false := by
  obtain ⟨off, kOff, d0, L⟩ := layout_encodeBlock ri h1 h2 items hne hw hsz
  exact seekUpper_backward L (keys_sorted_of_source items hs) k

/-- Seek by BYTES agrees with the ITEM-level seek of LsmModel/Table/Blocks.lean (`blockSeekRi`, the model the C12
    table theorems are stated on): after `seek k` the byte-level iterator yields exactly `blockSeekRi ri k items`, so
    the C12 point-read / range theorems about `blockSeekRi` transfer to the encoded bytes. -/
theorem c12back_seek_agrees_with_blocks (ri : Nat) (h1 : 1 ≤ ri) (h2 : ri < 256) (items : List (Entry Bytes))
    (hne : items ≠ []) (hw : ∀ e ∈ items, WfEntry e) (hsz : (encodeBlock ri items).length < 2 ^ 32)
    (hs : IsSource items) (k : Bytes) :
    ∃ it' b, (Iter.new (encodeBlock ri items)).bind (fun it => it.seek k false) = some (it', b) ∧
      Iter.drainFwd ((encodeBlock ri items).length + 2) it' = some (Blocks.blockSeekRi ri k items) := by
  obtain ⟨it', b, h, hd, _⟩ := c12back_seek ri h1 h2 items hne hw hsz hs k
  refine ⟨it', b, h, ?_⟩
  rw [Blocks.blockSeekRi_dropWhile ri (by omega) items hs k]
  exact hd

/-- executable sanity check of the statement on a concrete block (the model is computable) -/
example : decodeBlockBack (encodeBlock 2 [⟨[97], 5, .value, [1, 2]⟩, ⟨[97], 3, .tomb, []⟩, ⟨[97, 98], 9, .value, [255]⟩])
    = some [⟨[97, 98], 9, .value, [255]⟩, ⟨[97], 3, .tomb, []⟩, ⟨[97], 5, .value, [1, 2]⟩] := by decide

#print axioms c12back_reverse
#print axioms c12back_both_ends
#print axioms c12back_agrees_with_forward
#print axioms c12back_seek
#print axioms c12back_seek_upper
#print axioms c12back_seek_agrees_with_blocks

end Lsm.CodecBack
