import LsmModel.Lemmas.SnapshotLemmas
/-!
# C02 — a snapshot keeps seeing the same answers

A reader that fixes a snapshot sequence number `S` keeps seeing exactly the same answers for as long as it uses
`S`. Later writes, memtable rotations, flushes and compactions with any GC watermark `≤ S`, compaction filters,
moves, bulk ingestion, drop_range (`drop`) and `clear` never change what `S` observes — neither for point reads
(`TreeState.getAt`) nor for range scans in either direction (`TreeState.scanAt`, any bounds, any word of
`next`/`next_back` calls, with or without a write-batch overlay).

The mechanism is super-version pinning: every version-changing operation appends a history entry stamped with the
current counter value (`≥ S`), `maintenance wm` with `wm ≤ S` keeps the entry `S` resolves to, and writes only add
entries with seqno `= seqCtr ≥ S` to a (possibly shared) memtable.

Hypotheses:
* `0 < S`              — `S = 0` is the degenerate snapshot that sees no entry at all and resolves differently
                         (to the OLDEST history entry); it is excluded;
* `S ≤ t₁.seqCtr`      — `S` was handed out no later than the state `t₁` it is first used on
                         (`S := t₁.visible` qualifies: `c02_visible_is_valid_snapshot`);
* watermarks `≤ S`     — the GC watermark of every later flush/compaction does not exceed the snapshot
                         (the snapshot tracker's guarantee for open snapshots);
* no `reopen`          — a reopen restarts the history (memtables are gone; there are no snapshots across it).
The last three cannot be dropped: see the counterexamples at the end of this file.

The scan theorem is proved at FULL strength: no distinctness hypothesis on the sources is needed, because `rotate`
keeps the relative order of the memtable sources and only adds an empty one.
-/
namespace Lsm
variable {K : Type}

section
variable [LT K] [DecidableLT K] [DecidableEq K]

/-- The published counter `visible` never exceeds the counter: `S := t.visible` is a legal snapshot of `t`. -/
theorem c02_visible_is_valid_snapshot (t : TreeState K) (h : t.WF) : t.visible ≤ t.seqCtr := h.vis_le

/-- Both counters only grow, whatever the operation (so a snapshot stays `≤ seqCtr` forever). -/
theorem c02_counters_monotone (t t' : TreeState K) (op : Op K) (h : t.applyOp op = some t') :
    t.seqCtr ≤ t'.seqCtr ∧ t.visible ≤ t'.visible :=
  ⟨applyOp_seqCtr_mono h, applyOp_visible_mono h⟩

variable [LE K] [Std.IsLinearOrder K] [Std.LawfulOrderLT K]

/-- Every state reachable from the initial one satisfies the invariant `TreeState.WF`. -/
theorem c02_reachable_wf (n : Nat) (b : Option Nat) (ops : List (Op K)) (t : TreeState K)
    (h : (TreeState.init n b).run ops = some t) : t.WF :=
  run_WF (WF_init n b) h

/-- One step, point reads: a single operation with watermark `≤ S` does not change any point read at `S`. -/
theorem c02_step_point (t t' : TreeState K) (op : Op K) (hwf : t.WF) (h : t.applyOp op = some t')
    (hop : op.isReopen = false) (S : Nat) (hS0 : 0 < S) (hS : S ≤ t.seqCtr) (hwm : op.watermark ≤ S) :
    ∀ k, t'.getAt k S = t.getAt k S :=
  applyOp_getAt_stable t t' op hwf h hop S hS0 hS hwm

/-- One step, range scans. -/
theorem c02_step_scan (t t' : TreeState K) (op : Op K) (hwf : t.WF) (h : t.applyOp op = some t')
    (hop : op.isReopen = false) (S : Nat) (hS0 : 0 < S) (hS : S ≤ t.seqCtr) (hwm : op.watermark ≤ S) :
    ∀ lo hi w overlay, t'.scanAt S lo hi w overlay = t.scanAt S lo hi w overlay :=
  applyOp_scanAt_stable t t' op hwf h hop S hS0 hS hwm

/-- **C02, point reads.** Take any reachable state `t₁` and any snapshot `0 < S ≤ t₁.seqCtr`. After ANY later
    sequence of operations (no reopen) whose GC watermarks are `≤ S`, every point read at `S` returns exactly what
    it returned on `t₁` (including whether it resolves at all). -/
theorem c02_snapshot_stable_point (n : Nat) (b : Option Nat) (S : Nat)
    (ops₁ ops₂ : List (Op K)) (t₁ t₂ : TreeState K)
    (h₁ : (TreeState.init n b).run ops₁ = some t₁) (h₂ : t₁.run ops₂ = some t₂)
    (hops : ∀ op ∈ ops₂, op.isReopen = false ∧ op.watermark ≤ S) (hS0 : 0 < S) (hS : S ≤ t₁.seqCtr) :
    ∀ k, t₂.getAt k S = t₁.getAt k S :=
  run_getAt_stable (run_WF (WF_init n b) h₁) h₂ S hops hS0 hS

/-- **C02, range scans** (no additional hypothesis): same statement for every scan at `S` — any bounds, any word
    of `next` / `next_back` calls, with or without an overlay. -/
theorem c02_snapshot_stable_scan (n : Nat) (b : Option Nat) (S : Nat)
    (ops₁ ops₂ : List (Op K)) (t₁ t₂ : TreeState K)
    (_h₁ : (TreeState.init n b).run ops₁ = some t₁) (h₂ : t₁.run ops₂ = some t₂)
    (hops : ∀ op ∈ ops₂, op.isReopen = false ∧ op.watermark ≤ S) (hS0 : 0 < S) (hS : S ≤ t₁.seqCtr) :
    ∀ lo hi w overlay, t₂.scanAt S lo hi w overlay = t₁.scanAt S lo hi w overlay :=
  run_scanAt_stable h₂ S hops hS0 hS

/-- The snapshot a reader actually gets, `S := visible` at the time it is opened (positive once anything was
    written or installed), is stable for point reads and scans. -/
theorem c02_visible_snapshot_stable (n : Nat) (b : Option Nat)
    (ops₁ ops₂ : List (Op K)) (t₁ t₂ : TreeState K)
    (h₁ : (TreeState.init n b).run ops₁ = some t₁) (h₂ : t₁.run ops₂ = some t₂)
    (hops : ∀ op ∈ ops₂, op.isReopen = false ∧ op.watermark ≤ t₁.visible) (hpos : 0 < t₁.visible) :
    (∀ k, t₂.getAt k t₁.visible = t₁.getAt k t₁.visible) ∧
    (∀ lo hi w overlay, t₂.scanAt t₁.visible lo hi w overlay = t₁.scanAt t₁.visible lo hi w overlay) :=
  have hwf := run_WF (WF_init n b) h₁
  ⟨run_getAt_stable hwf h₂ _ hops hpos hwf.vis_le, run_scanAt_stable h₂ _ hops hpos hwf.vis_le⟩

/-- No panic: on a well-formed state a positive snapshot above the seqno of some history entry resolves; in
    particular every `S > 0` resolves as long as the entry with seqno 0 the tree was created with is still there. -/
theorem c02_resolves (t : TreeState K) (_h : t.WF) (k : K) (S : Nat) (hS0 : 0 < S)
    (hex : ∃ sv ∈ t.hist, sv.seqno < S) : (t.getAt k S).isSome = true :=
  getAt_isSome t k S hS0 hex

end

/-- What `maintenance wm` removes, exactly: the result is the history with its `n` oldest entries cut off, their
    version files are the ones unlinked, and entry `i` survives iff NO entry strictly newer (by position) than it
    has a seqno below the watermark — i.e. everything older than the last entry below the watermark goes, that
    entry itself (what every snapshot in `[wm, next seqno]` resolves to) stays. -/
theorem c02_maintenance_exact (h : History K) (wm : Nat) :
    ∃ n, (maintenance h wm).1 = h.drop n ∧ (maintenance h wm).2 = (h.take n).map (·.version.id) ∧
      ∀ i (_ : i < h.length), n ≤ i ↔ ¬ ∃ j, i < j ∧ ∃ hj : j < h.length, (h[j]).seqno < wm :=
  maintenance_exact' h wm

/-- ... and it never changes what a snapshot at or above the watermark resolves to. -/
theorem c02_maintenance_keeps_snapshot (h : History K) (wm S : Nat) (hwS : wm ≤ S) :
    getVersionForSnapshot (maintenance h wm).1 S = getVersionForSnapshot h S :=
  maintenance_resolve h wm S hwS

/-! ### non-vacuity: a concrete history on `K := Nat` -/
namespace C02Example

def e1 : Entry Nat := ⟨1, 0, .value, [10]⟩
def e2 : Entry Nat := ⟨1, 2, .value, [20]⟩
def e3 : Entry Nat := ⟨1, 1, .tomb, []⟩

/-- (a) Operations that avoid the well-founded `cstream` / `merge2`, fully evaluated by the kernel:
    write `k1@0`; snapshot `S = 1`; then rotate, delete `k1@1`, `clear`. Before: `S = 1` reads the first value.
    After: `S = 1` still reads it, `S = 2` sees the tombstone, `S = 3` sees the cleared tree; the hypotheses of
    `c02_snapshot_stable_point` hold (`0 < 1 ≤ seqCtr = 1`, no reopen, all watermarks `0`). -/
example :
    ∃ t₁ t₂ : TreeState Nat,
      (TreeState.init : TreeState Nat).run [.write [e1]] = some t₁ ∧
      t₁.run [.rotate 1, .write [e3], .clear 2] = some t₂ ∧
      t₁.seqCtr = 1 ∧ t₁.visible = 1 ∧
      t₁.getAt 1 1 = some (some e1) ∧
      t₂.getAt 1 1 = some (some e1) ∧ t₂.getAt 1 2 = some none ∧ t₂.getAt 1 3 = some none ∧
      t₂.hist.map (·.seqno) = [0, 2] :=
  ⟨_, _, rfl, rfl, by decide⟩

example : ∀ op ∈ ([.rotate 1, .write [e3], .clear 2] : List (Op Nat)), op.isReopen = false ∧ op.watermark ≤ 1 := by
  simp [Op.isReopen, Op.watermark]

/-- (b) With a flush whose GC watermark equals the snapshot (`wm = 1 = S`): write `k1@0`; snapshot `S = 1`;
    flush (rotate to memtable 1, one table of one entry, `maintenance 1`); write `k1@2`.
    `#eval` of the same run with two more operations (`.flush 1 2 [(101, 1)]`, `.clear 3`):
    `getAt 1 1 = some (some e1)`, `getAt 1 3 = some (some e2)`, `getAt 1 5 = some none`, history seqnos `[0,1,3,4]`. -/
def s1 : TreeState Nat :=
  { hist := [⟨0, [], Version.empty 0 7, 0⟩], mems := [⟨0, [e1]⟩], seqCtr := 1, visible := 1 }

def sv1r : SuperVersion Nat := ⟨1, [0], Version.empty 0 7, 0⟩

/-- `s1` after the rotate inside the flush -/
def s1r : TreeState Nat := { hist := [sv1r], mems := [⟨0, [e1]⟩, ⟨1, []⟩], seqCtr := 1, visible := 1 }

/-- after the flush: the rotated entry (seqno 0) and the flushed one (seqno 1); both memtables still referenced -/
def s2 : TreeState Nat :=
  { hist := [sv1r, ⟨1, [], ⟨1, [[[⟨100, 1, 1, [e1], 0⟩]], [], [], [], [], [], []]⟩, 1⟩],
    mems := [⟨0, [e1]⟩, ⟨1, []⟩], seqCtr := 2, visible := 2 }

/-- after the second write (`k1@2` into the new active memtable 1) -/
def s3 : TreeState Nat := { s2 with mems := [⟨0, [e1]⟩, ⟨1, [e2]⟩], seqCtr := 3, visible := 3 }

theorem write1 : (TreeState.init : TreeState Nat).run [.write [e1]] = some s1 := rfl

theorem flush1 : s1.applyOp (.flush 1 1 [(100, 1)]) = some s2 := by
  have hc : cstream 1 false noFilter [e1] = ([e1], []) := by
    simp [cstream, filterHead, noFilter, e1, Entry.isTomb]
  have hs : s1r.flushStream sv1r 1 = ([e1], []) := by
    have hm : mergeAll [[e1]] = [e1] := by simp [mergeAll, merge2]
    exact (congrArg (cstream 1 false noFilter) hm).trans hc
  show s1r.flushSealed 1 [(100, 1)] = some s2
  have hl : s1r.latest? = some sv1r := rfl
  have he : sv1r.sealed.isEmpty = false := rfl
  simp only [TreeState.flushSealed, hl, he, hs, Bool.false_eq_true, if_false]
  rfl

example :
    ∃ t₁ t₂ : TreeState Nat,
      (TreeState.init : TreeState Nat).run [.write [e1]] = some t₁ ∧
      t₁.run [.flush 1 1 [(100, 1)], .write [e2]] = some t₂ ∧
      t₁.seqCtr = 1 ∧
      t₁.getAt 1 1 = some (some e1) ∧
      t₂.getAt 1 1 = some (some e1) ∧ t₂.getAt 1 3 = some (some e2) := by
  refine ⟨s1, s3, write1, ?_, rfl, by decide, by decide⟩
  simp only [TreeState.run, flush1]
  rfl

/-- the general theorem applied to this run (its hypotheses are satisfiable) -/
example (t₂ : TreeState Nat) (h₂ : s1.run [.flush 1 1 [(100, 1)], .write [e2]] = some t₂) (k : Nat) :
    t₂.getAt k 1 = s1.getAt k 1 :=
  c02_snapshot_stable_point 7 none 1 [.write [e1]] [.flush 1 1 [(100, 1)], .write [e2]] s1 t₂ write1 h₂
    (by simp [Op.isReopen, Op.watermark]) (by decide) (by decide) k

/-- (c) scans on the same states: at `S = 1` the scan (forward, then backward) yields the first value before
    (`s1`) and after (`s3`) the flush + second write; at `S = 3` it yields the second value. -/
example :
    s1.scanAt 1 .unb .unb [.F, .B] none = some [some e1, none] ∧
    s3.scanAt 1 .unb .unb [.F, .B] none = some [some e1, none] ∧
    s3.scanAt 3 .unb .unb [.F, .B] none = some [some e2, none] := by
  simp [TreeState.scanAt, s3, s2, s1, sv1r, getVersionForSnapshot, TreeState.scanSources, TreeState.mem,
    Version.runs, Version.empty, inBounds, Bound.okLo, Bound.okHi, visible, e1, e2, mergeAll, merge2, ikLt,
    liveRun, liveStep, mvccNext, mvccNextBack, mvccNextBackRev, Entry.isTomb]

/-! #### the hypotheses cannot be dropped -/

/-- a GC watermark ABOVE the snapshot (`wm = 2 > S = 1`): the pinned super version is collected and the read at
    `S` no longer resolves (the real code would panic) -/
example : ∃ t₁ t₂ : TreeState Nat,
    (TreeState.init : TreeState Nat).run [.write [e1]] = some t₁ ∧
    t₁.run [.drop [] 0, .drop [] 2] = some t₂ ∧ t₁.seqCtr = 1 ∧
    t₁.getAt 1 1 = some (some e1) ∧ t₂.getAt 1 1 = none :=
  ⟨_, _, rfl, rfl, by decide⟩

/-- a "snapshot" beyond the counter (`S = 1 > seqCtr = 0`) is not a snapshot: the next write lands below it -/
example : ∃ t₂ : TreeState Nat,
    (TreeState.init : TreeState Nat).run [.write [e1]] = some t₂ ∧
    (TreeState.init : TreeState Nat).getAt 1 1 = some none ∧ t₂.getAt 1 1 = some (some e1) :=
  ⟨_, rfl, by decide⟩

/-- `reopen` drops the memtables (the model of drop + recover without a journal) -/
example : ∃ t₁ t₂ : TreeState Nat,
    (TreeState.init : TreeState Nat).run [.write [e1]] = some t₁ ∧ t₁.run [.reopen] = some t₂ ∧
    t₁.getAt 1 1 = some (some e1) ∧ t₂.getAt 1 1 = some none :=
  ⟨_, _, rfl, rfl, by decide⟩

end C02Example

end Lsm
