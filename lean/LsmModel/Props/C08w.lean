import LsmModel.Lemmas.WeakHistory2
import LsmModel.Lemmas.SepLemmas
/-!
# C08 with weak deletes — reads of a key-value separated tree still refine the ordered map

`Props/C08.lean` proves that a key-value separated tree and a standard tree fed the same history have EQUAL states
up to `eraseIndir`, for histories without weak tombstones, and shows that this state equation fails once weak
tombstones are allowed (`c08_weak_breaks_simulation`): the GC stream pairs a weak tombstone only with
`ValueType::Value`, never with an indirection, so in the separated tree the weak tombstone simply stays.
"Whether READS alone still agree in the presence of weak tombstones is not settled here."

This file settles it, under the single-delete discipline of C13 (`Discipline`, `Props/C13h.lean`): the point reads
of a separated tree (threshold `some th`, any `th`) refine the ordered map of the write history, exactly as those of
the standard tree do (`c13_history`) — after resolving indirections (`eraseIndir`: same key, seqno, value bytes).
Hence the reads of the two trees agree although their physical states differ.

The alphabet is `okStepS` (`ReachS`): that of `c13_history`, with the output-table guards of `flush` / `flushCommit`
stated on the stream as it is written to the tables (after `separate`); for a standard tree it is `okStepW`.
-/
namespace Lsm
variable {K : Type} [LT K] [DecidableLT K] [DecidableEq K] [LE K] [Std.IsLinearOrder K] [Std.LawfulOrderLT K]

omit [LT K] [DecidableLT K] [DecidableEq K] [LE K] [Std.IsLinearOrder K] [Std.LawfulOrderLT K] in
theorem erOk_eraseIndir (th : Option Nat) : ErOk (eraseIndir : Entry K → Entry K) th :=
  ⟨eraseIndir_separate th, eraseIndir_vt_weak, eraseIndir_isTomb,
    fun e he => by unfold eraseIndir; rw [if_neg he]⟩

/-- **C08 with weak deletes.** After any guarded run from the empty key-value separated tree whose write history
    obeys the single-delete discipline, a point read of any key at any snapshot at or above the counter returns —
    up to the representation of the value as an indirection — exactly the last write of that key. -/
theorem c08_reads_agree_with_weak (n : Nat) (th : Option Nat) (ops : List (Op K)) (t : TreeState K)
    (h : ReachS (TreeState.init n th) ops t) (hdisc : Discipline ops) (k : K) (S : Nat) (hS : t.seqCtr ≤ S) :
    (t.getAt k S).map (Option.map eraseIndir) = some (live (lastWrite ops k)) := by
  have hg := reachS_goodW (erOk_eraseIndir th) h [] (goodW_init _ n th) (by simpa using hdisc)
  rw [List.nil_append] at hg
  rw [str_getAt hg.1 k S hS, Option.map_some, (hg.2 k).2.2, lastWrite_eq_head]

/-- reads of a separated and of a standard tree that executed the same writes agree (their maintenance operations,
    observed ids, cuts and watermarks may differ arbitrarily — only the write histories must coincide) -/
theorem c08_separated_reads_eq_standard (n n' : Nat) (th : Option Nat) (ops ops' : List (Op K))
    (t t' : TreeState K) (h : ReachS (TreeState.init n th) ops t) (h' : ReachS (TreeState.init n' none) ops' t')
    (hdisc : Discipline ops) (hdisc' : Discipline ops') (k : K) (hw : lastWrite ops k = lastWrite ops' k)
    (S S' : Nat) (hS : t.seqCtr ≤ S) (hS' : t'.seqCtr ≤ S') :
    (t.getAt k S).map (Option.map eraseIndir) = (t'.getAt k S').map (Option.map eraseIndir) := by
  rw [c08_reads_agree_with_weak n th ops t h hdisc k S hS, c08_reads_agree_with_weak n' none ops' t' h' hdisc' k S' hS', hw]

/-- the state-level consequence for the separated tree: every key's version list is disciplined in every reachable
    state (`weakSafeStateB`, executable) -/
theorem c08_state_disciplined (n : Nat) (th : Option Nat) (ops : List (Op K)) (t : TreeState K)
    (h : ReachS (TreeState.init n th) ops t) (hdisc : Discipline ops) : weakSafeStateB t = true := by
  have hg := reachS_goodW (erOk_eraseIndir th) h [] (goodW_init _ n th) (by simpa using hdisc)
  rw [List.nil_append] at hg
  exact (weakSafeStateB_iff t).2 (fun k => (hg.2 k).keyDisc (erOk_eraseIndir th) (hdisc k))

/-- the executable side condition implies the propositional one -/
theorem c08_okStepSB_sound (t : TreeState K) (op : Op K) (h : okStepSB t op = true) : okStepS t op :=
  okStepSB_sound h

/-! ### Non-vacuity: a separated tree (threshold 1 byte) — insert, flush (the value is written as an indirection),
weak delete, flush, major compaction into the last level with GC watermark 10. The weak tombstone is NOT paired with
the indirection: the indirection is dropped as shadowed, the weak tombstone stays (in the standard tree both vanish,
`C13hExample`); the key reads as absent either way. -/
namespace C08wExample

def a0 : Entry Nat := ⟨1, 0, .value, [10]⟩
def i0 : Entry Nat := ⟨1, 0, .indir, [10]⟩
def w2 : Entry Nat := ⟨1, 2, .weak, []⟩
def v0 : Version Nat := Version.empty 0 2
def t100 : TableM Nat := ⟨100, 1, 1, [i0], 0⟩
def t101 : TableM Nat := ⟨101, 1, 1, [w2], 0⟩
def t102 : TableM Nat := ⟨102, 1, 1, [w2], 0⟩
def v1 : Version Nat := ⟨1, [[[t100]], []]⟩
def v2 : Version Nat := ⟨2, [[[t101], [t100]], []]⟩
def v3 : Version Nat := ⟨3, [[], [[t102]]]⟩

def s0 : TreeState Nat := TreeState.init 2 (some 1)
def s1 : TreeState Nat :=
  { hist := [⟨0, [], v0, 0⟩], mems := [⟨0, [a0]⟩], seqCtr := 1, visible := 1, levelCount := 2, blobTh := some 1 }
def s1r : TreeState Nat :=
  { hist := [⟨1, [0], v0, 0⟩], mems := [⟨0, [a0]⟩, ⟨1, []⟩], seqCtr := 1, visible := 1, levelCount := 2,
    blobTh := some 1 }
def s2 : TreeState Nat :=
  { hist := [⟨1, [0], v0, 0⟩, ⟨1, [], v1, 1⟩], mems := [⟨0, [a0]⟩, ⟨1, []⟩], seqCtr := 2, visible := 2,
    levelCount := 2, blobTh := some 1 }
def s3 : TreeState Nat := { s2 with mems := [⟨0, [a0]⟩, ⟨1, [w2]⟩], seqCtr := 3, visible := 3 }
def s3r : TreeState Nat :=
  { hist := [⟨1, [0], v0, 0⟩, ⟨2, [1], v1, 1⟩], mems := [⟨0, [a0]⟩, ⟨1, [w2]⟩, ⟨2, []⟩], seqCtr := 3, visible := 3,
    levelCount := 2, blobTh := some 1 }
def s4 : TreeState Nat :=
  { hist := [⟨1, [0], v0, 0⟩, ⟨2, [1], v1, 1⟩, ⟨2, [], v2, 3⟩], mems := [⟨0, [a0]⟩, ⟨1, [w2]⟩, ⟨2, []⟩],
    seqCtr := 4, visible := 4, levelCount := 2, blobTh := some 1 }
def s5 : TreeState Nat :=
  { hist := [⟨2, [], v3, 4⟩], mems := [⟨2, []⟩], seqCtr := 5, visible := 5, levelCount := 2, blobTh := some 1 }

def ops : List (Op Nat) :=
  [.write [a0], .flush 0 1 [(100, 1)], .write [w2], .flush 0 2 [(101, 1)], .merge [100, 101] 1 10 noFilter [(102, 1)]]

theorem rot1 : s1.rotate 1 = s1r := rfl
theorem rot3 : s3.rotate 2 = s3r := rfl

theorem stream2 : s1r.flushStream ⟨1, [0], v0, 0⟩ 0 = ([a0], []) := by
  have hm : mergeAll [[a0]] = [a0] := by simp [mergeAll, merge2]
  show cstream 0 false noFilter (mergeAll [[a0]]) = _
  rw [hm]
  simp [cstream, filterHead, noFilter, a0, Entry.isTomb]

theorem stream4 : s3r.flushStream ⟨2, [1], v1, 1⟩ 0 = ([w2], []) := by
  have hm : mergeAll [[w2]] = [w2] := by simp [mergeAll, merge2]
  show cstream 0 false noFilter (mergeAll [[w2]]) = _
  rw [hm]
  simp [cstream, filterHead, w2, Entry.isTomb]

theorem inputs5 : mergeInputs v2 [100, 101] = [w2, i0] := by
  simp [mergeInputs, v2, Version.runs, t100, t101, mergeAll, merge2, ikLt, i0, w2]

/-- the weak tombstone is not paired with the indirection: it stays, the indirection is dropped as shadowed -/
theorem stream5 : cstream 10 true noFilter [w2, i0] = ([w2], [i0]) := by
  simp [cstream, filterHead, drainKey, i0, w2, Entry.isTomb]

theorem step2 : s1.applyOp (.flush 0 1 [(100, 1)]) = some s2 := by
  show s1r.flushSealed 0 [(100, 1)] = some s2
  have hl : s1r.latest? = some ⟨1, [0], v0, 0⟩ := rfl
  simp only [TreeState.flushSealed, hl, stream2]
  rfl

theorem step4 : s3.applyOp (.flush 0 2 [(101, 1)]) = some s4 := by
  show s3r.flushSealed 0 [(101, 1)] = some s4
  have hl : s3r.latest? = some ⟨2, [1], v1, 1⟩ := rfl
  simp only [TreeState.flushSealed, hl, stream4]
  rfl

theorem step5 : s4.applyOp (.merge [100, 101] 1 10 noFilter [(102, 1)]) = some s5 := by
  show s4.mergeCommit [100, 101] 1 10 noFilter [(102, 1)] = some s5
  have hl : s4.latest? = some ⟨2, [], v2, 3⟩ := rfl
  have he : (1 + 1 == s4.levelCount) = true := rfl
  simp only [TreeState.mergeCommit, hl, he, inputs5, stream5]
  rfl

theorem ok2 : okStepS s1 (.flush 0 1 [(100, 1)]) := by
  refine ⟨by decide, fun sv hsv => ?_⟩
  rw [rot1] at hsv ⊢
  obtain rfl : sv = ⟨1, [0], v0, 0⟩ := Option.some.inj (hsv.symm.trans (rfl : s1r.latest? = _))
  rw [stream2]
  refine ⟨by decide, by decide, fun ts hts => ?_⟩
  cases hts; rfl

theorem ok4 : okStepS s3 (.flush 0 2 [(101, 1)]) := by
  refine ⟨by decide, fun sv hsv => ?_⟩
  rw [rot3] at hsv ⊢
  obtain rfl : sv = ⟨2, [1], v1, 1⟩ := Option.some.inj (hsv.symm.trans (rfl : s3r.latest? = _))
  rw [stream4]
  refine ⟨by decide, by decide, fun ts hts => ?_⟩
  cases hts; rfl

theorem ok5 : okStepS s4 (.merge [100, 101] 1 10 noFilter [(102, 1)]) := by
  intro sv hsv
  obtain rfl : sv = ⟨2, [], v2, 3⟩ := Option.some.inj (hsv.symm.trans (rfl : s4.latest? = _))
  have he : (1 + 1 == s4.levelCount) = true := rfl
  rw [he, inputs5, stream5]
  refine ⟨by decide, by decide, fun _ _ _ => rfl, by decide, by decide, fun ts hts => ?_⟩
  cases hts; rfl

theorem reach5 : ReachS s0 ops s5 := by
  refine .step (t' := s1) ?_ rfl (.step ok2 step2 (.step (t' := s3) ?_ rfl (.step ok4 step4 (.step ok5 step5 (.refl _)))))
  all_goals exact ⟨by decide, by decide⟩

theorem reach2 : ReachS s0 (ops.take 2) s2 := by
  refine .step (t' := s1) ?_ rfl (.step ok2 step2 (.refl _))
  exact ⟨by decide, by decide⟩

/-- what the theorem says: after the flush the key reads its value — stored as the indirection `i0`, `eraseIndir i0 = a0`;
    after weak delete, flush and compaction it is absent although the weak tombstone is still stored in the last level -/
example : (s2.getAt 1 2).map (Option.map eraseIndir) = some (some a0) ∧
    (s5.getAt 1 5).map (Option.map eraseIndir) = some none :=
  ⟨c08_reads_agree_with_weak 2 (some 1) _ s2 reach2 ((disciplineB_iff _).1 (by decide)) 1 2 (by decide),
   c08_reads_agree_with_weak 2 (some 1) _ s5 reach5 ((disciplineB_iff _).1 (by decide)) 1 5 (by decide)⟩

/-- evaluated directly: the stored entry IS an indirection, and the weak tombstone is still there after the compaction -/
example : s2.getAt 1 2 = some (some i0) ∧ s5.getAt 1 5 = some none ∧ curHist s5 1 = [w2] ∧
    weakSafeStateB s5 = true := by decide

end C08wExample

end Lsm

section AxiomAudit
open Lsm
#print axioms c08_reads_agree_with_weak
#print axioms c08_separated_reads_eq_standard
#print axioms c08_state_disciplined
#print axioms c08_okStepSB_sound
#print axioms C08wExample.reach5
end AxiomAudit
