import LsmModel.Lemmas.StrategyLemmas
/-!
# C19 — FIFO compaction drops only the oldest tables and leaves the rest readable

`fifoChoose` is the transcription of `fifo::Strategy::choose` (src/compaction/fifo.rs); the correspondence check
compares it with the real strategy's decisions on real trees (instrument I-B, profile `fifo`).
The quantifiers are closed here: every size limit, every TTL, every clock value, every list of L0 tables.
-/
namespace Lsm

/-- (b) Within the size limit and without an active TTL, FIFO removes nothing. -/
theorem c19_within_limit_nothing (limit : Nat) (ttl : Option Nat) (now dbSize : Nat) (l0 : List FifoTable)
    (hle : dbSize ≤ limit) (httl : ttl = none ∨ ttl = some 0) :
    fifoChoose limit ttl now dbSize l0 = .doNothing :=
  fifo_within_limit_nothing limit ttl now dbSize l0 hle httl

/-- (a) No removed table is newer than a retained one, unless the removed one exceeded the TTL. -/
theorem c19_dropped_not_newer_than_retained (limit : Nat) (ttl : Option Nat) (now dbSize : Nat)
    (l0 : List FifoTable) (hnd : (l0.map (·.id)).Nodup) (ids : List Nat)
    (hc : fifoChoose limit ttl now dbSize l0 = .drop ids)
    (d : FifoTable) (hd : d ∈ l0) (hdi : d.id ∈ ids) (r : FifoTable) (hr : r ∈ l0) (hri : r.id ∉ ids) :
    d.createdAt ≤ r.createdAt ∨ fifoExpired ttl now d :=
  fifo_ttl_or_oldest limit ttl now dbSize l0 hnd ids hc d hd hdi r hr hri

/-- (a'), TTL disabled: the removed tables are exactly a prefix of the tables sorted by creation time. -/
theorem c19_no_ttl_drops_oldest_prefix (limit now dbSize : Nat) (l0 : List FifoTable) (ids : List Nat)
    (hc : fifoChoose limit none now dbSize l0 = .drop ids) :
    ∃ n, ids = idSet (((sortByCreated l0).take n).map (·.id)) :=
  fifo_none_ids_prefix limit now dbSize l0 ids hc

/-- Only tables of L0 are ever chosen. -/
theorem c19_drops_only_listed (limit : Nat) (ttl : Option Nat) (now dbSize : Nat) (l0 : List FifoTable)
    (ids : List Nat) (hc : fifoChoose limit ttl now dbSize l0 = .drop ids) :
    ∀ i ∈ ids, ∃ t ∈ l0, t.id = i := by
  intro i hi
  have h := fifoChoose_drop hc
  subst h
  unfold fifoIds at hi
  rw [mem_idSet] at hi
  rcases List.mem_append.mp hi with h | h
  · obtain ⟨t, ht, rfl⟩ := List.mem_map.mp h
    exact ⟨t, (List.mem_filter.mp ht).1, rfl⟩
  · obtain ⟨n, hn⟩ := fifoExtra_prefix limit (fifoCutoff ttl now) dbSize l0
    rw [hn] at h
    obtain ⟨t, ht, rfl⟩ := List.mem_map.mp h
    have : t ∈ sortByCreated (l0.filter (fun t => !fifoExpiredB (fifoCutoff ttl now) t)) := List.mem_of_mem_take ht
    exact ⟨t, (List.mem_filter.mp (mem_sortByCreated.mp this)).1, rfl⟩

/-- non-vacuity: a concrete three-table L0 over its limit — the oldest table goes, the newer ones stay -/
example : fifoChoose 250 none 0 300 [⟨0, 10, 100, 0⟩, ⟨1, 20, 100, 0⟩, ⟨2, 30, 100, 0⟩] = .drop [0] := by decide

end Lsm
