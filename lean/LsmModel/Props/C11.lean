import LsmModel.Lemmas.FilterLemmas
/-!
# C11 — filters and indexes never hide an existing key; cache keys never alias

Three read-path shortcuts may answer "absent" or pick a place to look WITHOUT consulting the data itself:
the table's Bloom filter, the data block's hash index, and the block/blob cache.  Each is transcribed from the Rust
code (`LsmModel/Table/Bloom.lean`, `LsmModel/Table/HashIndex.lean`, modelling notes there) and shown here to be
safe for EVERY parameter choice, every 64-bit hash value (xxh3 itself is not modelled: the theorems hold for
arbitrary hash values, hence for whatever xxh3 returns) and every sequence of insertions.

The correspondence check feeds real xxh3 values of real keys to `Bloom.build`/`containsHash`/`toBytes` and
`HashIndex.buildH`/`getH`/`encode` and compares with the Rust structures byte for byte.
-/
namespace Lsm

/-! ## Bloom filter -/

/-- The builder loop and the reader loop probe the same bit indices, in the same order. -/
theorem c11_bloom_same_probe_sequence (f : Bloom.Filter) (h : UInt64) :
    (Bloom.setWithHash f h).bits = (Bloom.probes f.m f.k h).foldl (fun b i => b.set i true) f.bits ∧
    Bloom.containsHash f h = (Bloom.probes f.m f.k h).all (fun i => f.bits.getD i false) :=
  ⟨Bloom.setWithHash_bits f h, Bloom.containsHash_eq f h⟩

/-- Bits are only ever set: inserting a hash keeps the size and every bit that was set. -/
theorem c11_bloom_monotone (f : Bloom.Filter) (h : UInt64) :
    (Bloom.setWithHash f h).bits.length = f.bits.length ∧
    ∀ i, f.bits.getD i false = true → (Bloom.setWithHash f h).bits.getD i false = true :=
  ⟨(Bloom.setWithHash_mono f h).1.symm, (Bloom.setWithHash_mono f h).2⟩

/-- NO FALSE NEGATIVES, for every bit count m > 0, every number of probes k (0 included), every list of inserted
    64-bit hashes, wrap-around cases included. -/
theorem c11_bloom_no_false_negative (m k : Nat) (hm : 0 < m) (hashes : List UInt64) (h : UInt64) (hh : h ∈ hashes) :
    Bloom.containsHash (Bloom.build m k hashes) h = true :=
  Bloom.build_no_false_negative m k hm hashes h hh

/-- What the reader answers on a built filter, exactly: "maybe" iff every probe of the needle is a probe of some
    inserted hash.  (So a "no" is always justified, and a false positive needs all k probes covered.) -/
theorem c11_bloom_contains_iff (m k : Nat) (hm : 0 < m) (hashes : List UInt64) (h : UInt64) :
    Bloom.containsHash (Bloom.build m k hashes) h = true ↔
      ∀ i ∈ Bloom.probes m k h, ∃ h' ∈ hashes, i ∈ Bloom.probes m k h' :=
  Bloom.containsHash_build_iff m k hm hashes h

/-- Edge case k = 0 (not producible by `with_bpk`/`with_fp_rate`, which force k ≥ 1; a reader would accept it from a
    file header): nothing is ever set and the reader says "maybe" to everything — useless but safe. -/
theorem c11_bloom_k_zero (f : Bloom.Filter) (hk : f.k = 0) (h : UInt64) :
    Bloom.containsHash f h = true ∧ Bloom.setWithHash f h = f :=
  ⟨Bloom.containsHash_k_zero f hk h, Bloom.setWithHash_k_zero f hk h⟩

/-- A filter without insertions rejects every hash (k ≥ 1, m > 0). -/
theorem c11_bloom_empty_rejects (m k : Nat) (hm : 0 < m) (hk : 0 < k) (h : UInt64) :
    Bloom.containsHash (Bloom.empty m k) h = false :=
  Bloom.containsHash_empty m k hk h hm

/-- The byte layout (bit i in byte i/8 under mask 0x80 >> (i%8)) read back by `BitArrayReader::get` gives the
    modelled bit. -/
theorem c11_bloom_bytes_roundtrip (bits : List Bool) (i : Nat) :
    Bloom.readBit (Bloom.toBytes bits) i = bits.getD i false :=
  Bloom.readBit_toBytes bits i

/-! ## Hash index of a data block -/

/-- Marker values never collide with positions: a position is not a marker iff it is below 254
    (`MAX_POINTERS_FOR_HASH_INDEX`); the encoder registers only such positions (`restart_idx < 254`, encoder.rs:148). -/
theorem c11_hash_index_marker_bound (p : UInt8) :
    (p ≠ HashIndex.MARKER_FREE ∧ p ≠ HashIndex.MARKER_CONFLICT) ↔ p.toNat < HashIndex.MAX_POINTERS :=
  HashIndex.validPos_iff p

section
variable {Key : Type} (n : Nat) (hn : 0 < n) (hashOf : Key → UInt64) (entries : List (Key × UInt8))
  (hv : ∀ e ∈ entries, e.2.toNat < HashIndex.MAX_POINTERS)
include hn hv

/-- SOUNDNESS, for any hash function and any bucket count > 0: a registered (key, pos) is looked up as
    `found pos` or `conflicted` — never `notFound`, never another position. -/
theorem c11_hash_index_sound (k : Key) (p : UInt8) (hmem : (k, p) ∈ entries) :
    HashIndex.get (HashIndex.build n hashOf entries) hashOf k = .found p ∨
    HashIndex.get (HashIndex.build n hashOf entries) hashOf k = .conflicted :=
  HashIndex.get_registered hn hashOf entries (fun e he => (HashIndex.validPos_iff _).mpr (hv e he)) k p hmem

/-- `notFound` ⇒ no registered key shares the needle's bucket, in particular the needle was not registered:
    answering "absent" is right. -/
theorem c11_hash_index_notFound_absent (k : Key) (p : UInt8)
    (hget : HashIndex.get (HashIndex.build n hashOf entries) hashOf k = .notFound) : (k, p) ∉ entries := by
  intro hmem
  exact HashIndex.get_notFound hn hashOf entries (fun e he => (HashIndex.validPos_iff _).mpr (hv e he)) k hget
    (k, p) hmem rfl

/-- `found q` ⇒ q is a genuine position (< 254), some registration produced it, and EVERY registration
    (k', p') whose key falls into the same bucket has p' = q.  (Two keys with different positions in one bucket make the
    bucket CONFLICT, so `found` cannot point to the wrong interval.) -/
theorem c11_hash_index_found_unique (k : Key) (q : UInt8)
    (hget : HashIndex.get (HashIndex.build n hashOf entries) hashOf k = .found q) :
    q.toNat < HashIndex.MAX_POINTERS ∧
    (∀ e ∈ entries, HashIndex.bucketOf n (hashOf e.1) = HashIndex.bucketOf n (hashOf k) → e.2 = q) ∧
    (∃ e ∈ entries, HashIndex.bucketOf n (hashOf e.1) = HashIndex.bucketOf n (hashOf k) ∧ e.2 = q) := by
  obtain ⟨h1, h2, h3⟩ :=
    HashIndex.get_found hn hashOf entries (fun e he => (HashIndex.validPos_iff _).mpr (hv e he)) k q hget
  exact ⟨(HashIndex.validPos_iff _).mp h1, h2, h3⟩

/-- `conflicted` is reported only for a genuine conflict: two registrations in the bucket with different positions. -/
theorem c11_hash_index_conflict_genuine (k : Key)
    (hget : HashIndex.get (HashIndex.build n hashOf entries) hashOf k = .conflicted) :
    ∃ e1 ∈ entries, ∃ e2 ∈ entries, HashIndex.bucketOf n (hashOf e1.1) = HashIndex.bucketOf n (hashOf k) ∧
      HashIndex.bucketOf n (hashOf e2.1) = HashIndex.bucketOf n (hashOf k) ∧ e1.2 ≠ e2.2 :=
  HashIndex.get_conflicted hn hashOf entries (fun e he => (HashIndex.validPos_iff _).mpr (hv e he)) k hget

end

/-! ### the encoder's use of the index (every item registered; index dropped when positions would not fit) -/

/-- The hash index is omitted from the block iff there are no buckets (ratio 0) or more than 254 restart
    intervals; then `point_read` does a binary search. -/
theorem c11_hash_index_not_built (n interval : Nat) (itemHashes : List UInt64) (h : UInt64) :
    (HashIndex.blockIndex (HashIndex.encode n interval itemHashes) = none ↔
      (n = 0 ∨ HashIndex.MAX_POINTERS < (HashIndex.encode n interval itemHashes).restartCount)) ∧
    (HashIndex.blockIndex (HashIndex.encode n interval itemHashes) = none →
      HashIndex.pointReadPlan (HashIndex.blockIndex (HashIndex.encode n interval itemHashes)) h = .binarySearch) :=
  ⟨HashIndex.blockIndex_none_iff n interval itemHashes, fun hnone => by rw [hnone]; rfl⟩

/-- The encoder's counters in closed form: after c items there are ⌈c / interval⌉ restart intervals. -/
theorem c11_encoder_counts (n : Nat) (hn : 0 < n) (interval : Nat) (itemHashes : List UInt64) :
    (HashIndex.encode n interval itemHashes).itemCount = itemHashes.length ∧
    (HashIndex.encode n interval itemHashes).restartCount = HashIndex.restartsAfter interval itemHashes.length :=
  HashIndex.encode_counts hn interval itemHashes

/-- If the index is written, the `restart_idx < 254` guard never skipped an item: the stored index is the one built
    from ALL items, item number i registered with its restart interval i / interval. -/
theorem c11_encoder_registers_every_item (n interval : Nat) (itemHashes : List UInt64)
    (hw : HashIndex.indexWritten (HashIndex.encode n interval itemHashes) = true) :
    (HashIndex.encode n interval itemHashes).buckets = HashIndex.buildH n (HashIndex.regs8 interval itemHashes) ∧
    ∀ e ∈ HashIndex.idealRegs interval itemHashes, e.2 < HashIndex.MAX_POINTERS :=
  ⟨(HashIndex.encode_written_all_registered hw).1, (HashIndex.encode_written_all_registered hw).2.1⟩

/-- `point_read` answering "absent" from the hash index alone: the needle's key is not in the block.
    (All bucket counts, all restart intervals, all block contents, all hash values.) -/
theorem c11_point_read_absent_sound (n interval : Nat) (itemHashes : List UInt64) (h : UInt64)
    (hplan : HashIndex.pointReadPlan (HashIndex.blockIndex (HashIndex.encode n interval itemHashes)) h = .absent) :
    h ∉ itemHashes :=
  HashIndex.pointRead_absent_sound n interval itemHashes h hplan

/-- `point_read` jumping to restart interval q: q exists in the binary index, and every item whose key hashes into
    the needle's bucket — so every version of the needle's key — lies in interval q; the forward scan from the
    head of interval q therefore meets all of them. -/
theorem c11_point_read_jump_sound (n interval : Nat) (itemHashes : List UInt64) (h : UInt64) (q : Nat)
    (hplan : HashIndex.pointReadPlan (HashIndex.blockIndex (HashIndex.encode n interval itemHashes)) h = .scanFrom q) :
    q < (HashIndex.encode n interval itemHashes).restartCount ∧
    ∀ i, ∀ hi : i < itemHashes.length,
      HashIndex.bucketOf n itemHashes[i] = HashIndex.bucketOf n h → i / interval = q :=
  HashIndex.pointRead_scanFrom_sound n interval itemHashes h q hplan

/-! ## Cache key -/

/-- Distinct (kind, tree id, file id, offset) give distinct cache keys: a block and a blob never share a key, two
    blocks (two blobs) share one only if tree, file and offset all agree. -/
theorem c11_cache_key_injective (a b : Cache.Ref) (h : a.key = b.key) : a = b :=
  Cache.key_injective a b h

theorem c11_cache_key_block_ne_blob (t f o t' f' o' : UInt64) :
    (Cache.Ref.block t f o).key ≠ (Cache.Ref.blob t' f' o').key := by
  intro h; cases Cache.key_injective _ _ h

/-! ## Non-vacuity -/
section Examples
open Bloom HashIndex

/-- wrap-around: h1 = 2^64 - 1; the additions and the multiplication overflow (without wrapping the
    sequence would be [1, 4, 0, 6, 3]) -/
example : probes 7 5 0xFFFFFFFFFFFFFFFF = [1, 2, 3, 5, 6] := by decide
example : secondaryHash 0xFFFFFFFFFFFFFFFF = 15394791018899305835 := by decide
example : probes 16 4 0xFFFFFFFFFFFFFFF0 = [0, 11, 6, 12] := by decide
/-- hashes below 2^32 have secondary hash 0: all k probes coincide (as in the code) -/
example : probes 16 3 20 = [4, 4, 4] := by decide
/-- members are found, a non-member is rejected, another non-member is a false positive -/
example : containsHash (build 16 3 [0xFFFFFFFFFFFFFFFF, 0x8000000000000001]) 0xFFFFFFFFFFFFFFFF = true := by decide
example : containsHash (build 16 3 [0xFFFFFFFFFFFFFFFF, 0x8000000000000001]) 0x8000000000000001 = true := by decide
example : containsHash (build 16 3 [0xFFFFFFFFFFFFFFFF, 0x8000000000000001]) 2 = false := by decide
example : containsHash (build 16 3 [0xFFFFFFFFFFFFFFFF, 0x8000000000000001]) 17 = true := by decide
/-- MSB-first packing -/
example : toBytes (build 16 3 [0xFFFFFFFFFFFFFFFF, 0x8000000000000001]).bits = [68, 33] := by decide
/-- k = 0 -/
example : containsHash (build 8 0 []) 12345 = true := by decide

/-- the unit tests of hash_index/mod.rs with one bucket: conflict, same offset, mix -/
example : buildH 1 [(1, 5), (2, 8)] = [255] := by decide
example : getH (buildH 1 [(1, 5), (2, 8)]) 3 = .conflicted := by decide
example : buildH 1 [(1, 5), (2, 5)] = [5] := by decide
example : getH (buildH 1 [(1, 5), (2, 5)]) 1 = .found 5 := by decide
example : buildH 1 [(1, 5), (2, 5), (3, 6)] = [255] := by decide
/-- two keys colliding in bucket 2 of 4 with different positions; the others stay exact; bucket 3 is free -/
example : buildH 4 [(2, 0), (5, 0), (6, 1), (8, 1)] = [1, 0, 255, 254] := by decide
example : getH (buildH 4 [(2, 0), (5, 0), (6, 1), (8, 1)]) 6 = .conflicted := by decide
example : getH (buildH 4 [(2, 0), (5, 0), (6, 1), (8, 1)]) 8 = .found 1 := by decide
example : getH (buildH 4 [(2, 0), (5, 0), (6, 1), (8, 1)]) 7 = .notFound := by decide
/-- why the `restart_idx < 254` guard is needed (release builds only `debug_assert`): a position 254 would be
    stored as FREE and its key reported absent -/
example : getH (buildH 1 [(7, 254)]) 7 = .notFound := by decide
/-- the encoder: 5 items, restart interval 2, 4 buckets -/
example : encode 4 2 [10, 11, 12, 13, 14] = { itemCount := 5, restartCount := 3, buckets := [1, 1, 255, 0] } := by
  decide
example : pointReadPlan (blockIndex (encode 4 2 [10, 11, 12, 13, 14])) 12 = .scanFrom 1 := by decide
example : pointReadPlan (blockIndex (encode 4 2 [10, 11, 12, 13, 14])) 14 = .binarySearch := by decide
example : pointReadPlan (blockIndex (encode 5 2 [10, 11, 12, 13])) 14 = .absent := by decide
/-- ratio 0 (no buckets): no index -/
example : blockIndex (encode 0 2 [10, 11, 12]) = none := by decide
-- 255 restart intervals: registrations beyond position 253 are skipped and the index is not written
set_option maxRecDepth 8192 in
example : blockIndex (encode 3 1 (List.replicate 255 9)) = none := by decide
set_option maxRecDepth 8192 in
example : (blockIndex (encode 3 1 (List.replicate 254 9))).isSome = true := by decide

example : (Cache.Ref.block 1 2 3).key ≠ (Cache.Ref.blob 1 2 3).key := by decide
example : (Cache.Ref.block 1 2 3).key = ⟨0, 1, 2, 3⟩ := rfl
example : (Cache.Ref.blob 1 2 3).key = ⟨1, 1, 2, 3⟩ := rfl

end Examples

end Lsm
