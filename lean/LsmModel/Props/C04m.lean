import LsmModel.Lemmas.ManifestLemmas
/-!
# C04 / C07 (manifest part) — the version file decodes to the structure that was written

C04: "A reopened tree contains exactly the writes that had been flushed … arranged so that all read properties continue
      to hold" — the arrangement (levels / runs / table order, global seqnos, blob files, gc statistics) reaches the next
      session only through the version file `v<N>`.
C07: "… and the version file on disk decodes to the same structure."

Model: `LsmModel/Tree/Manifest.lean` — the payloads of the sections "tables", "blob_files", "blob_gc_stats" exactly as
`Version::encode_into` / `FragmentationMap::encode_into` write and `version::recovery::recover` /
`FragmentationMap::decode_from` read them.  The instrument `lsmverif ia manifest` ties the definitions to the code:
for versions of real trees the real section bytes decode (by `decodeTablesPrefix` …) to what the tree reports,
`encodeTables` … of what the tree reports are the real bytes, and a reopened tree reports the same image.

The statements close the quantifier over ALL structures within the width bounds of the format
(`LevelsBounded`: < 256 levels, < 256 runs per level, < 2^32 tables per run, ids < 2^64, checksums < 2^128, global seqnos < 2^64).
-/
namespace Lsm.Manifest
open Lsm.Frame (Bytes)

/-! ## round trip: what recovery reads is what was written -/

/-- "tables": levels, runs and tables come back in the same order with the same ids, checksums and global seqnos,
    and nothing of the section is left unread. -/
theorem c04m_tables_roundtrip (lv : Levels) (h : LevelsBounded lv) :
    decodeTables (encodeTables lv) = some lv :=
  decodeTables_encodeTables lv h

/-- … also as the code reads it (a prefix reader that ignores what follows), with any bytes after the payload. -/
theorem c04m_tables_roundtrip_prefix (lv : Levels) (h : LevelsBounded lv) (rest : Bytes) :
    decodeTablesPrefix (encodeTables lv ++ rest) = some (lv, rest) :=
  decodeTablesPrefix_encodeTables lv h rest

/-- "blob_files" (in file order) -/
theorem c04m_blobs_roundtrip (l : List BlobRef) (h : BlobsBounded l) :
    decodeBlobs (encodeBlobs l) = some l :=
  decodeBlobs_encodeBlobs l h

theorem c04m_blobs_roundtrip_prefix (l : List BlobRef) (h : BlobsBounded l) (rest : Bytes) :
    decodeBlobsPrefix (encodeBlobs l ++ rest) = some (l, rest) :=
  decodeBlobsPrefix_encodeBlobs l h rest

/-- "blob_gc_stats" (in file order) -/
theorem c04m_frag_roundtrip (l : List FragEntry) (h : FragBounded l) :
    decodeFrag (encodeFrag l) = some l :=
  decodeFrag_encodeFrag l h

theorem c04m_frag_roundtrip_prefix (l : List FragEntry) (h : FragBounded l) (rest : Bytes) :
    decodeFragPrefix (encodeFrag l ++ rest) = some (l, rest) :=
  decodeFragPrefix_encodeFrag l h rest

/-- the three sections together -/
theorem c04m_image_roundtrip (v : VersionImage) (h : v.Bounded) : decodeImage (encodeImage v) = some v :=
  decodeImage_encodeImage v h

/-! ## injectivity: different structures ⇒ different bytes -/

theorem c07m_tables_inj (a b : Levels) (ha : LevelsBounded a) (hb : LevelsBounded b) (hne : a ≠ b) :
    encodeTables a ≠ encodeTables b :=
  fun h => hne (encodeTables_inj a b ha hb h)

theorem c07m_blobs_inj (a b : List BlobRef) (ha : BlobsBounded a) (hb : BlobsBounded b) (hne : a ≠ b) :
    encodeBlobs a ≠ encodeBlobs b :=
  fun h => hne (encodeBlobs_inj a b ha hb h)

theorem c07m_frag_inj (a b : List FragEntry) (ha : FragBounded a) (hb : FragBounded b) (hne : a ≠ b) :
    encodeFrag a ≠ encodeFrag b :=
  fun h => hne (encodeFrag_inj a b ha hb h)

theorem c07m_image_inj (a b : VersionImage) (ha : a.Bounded) (hb : b.Bounded) (hne : a ≠ b) :
    encodeImage a ≠ encodeImage b :=
  fun h => hne (encodeImage_inj a b ha hb h)

/-! ## the decoder accepts nothing but the writer's images -/

/-- Whatever section content `recover` reads successfully is the writer's image of the structure it returns, followed
    by the bytes it left unread; the structure is within the width bounds. -/
theorem c07m_tables_decode_sound (bs : Bytes) (lv : Levels) (rest : Bytes)
    (h : decodeTablesPrefix bs = some (lv, rest)) : bs = encodeTables lv ++ rest ∧ LevelsBounded lv :=
  decodeTablesPrefix_sound bs lv rest h

theorem c07m_blobs_decode_sound (bs : Bytes) (l : List BlobRef) (rest : Bytes)
    (h : decodeBlobsPrefix bs = some (l, rest)) : bs = encodeBlobs l ++ rest ∧ BlobsBounded l :=
  decodeBlobsPrefix_sound bs l rest h

theorem c07m_frag_decode_sound (bs : Bytes) (l : List FragEntry) (rest : Bytes)
    (h : decodeFragPrefix bs = some (l, rest)) : bs = encodeFrag l ++ rest ∧ FragBounded l :=
  decodeFragPrefix_sound bs l rest h

/-- strict form for the whole image: decoding succeeds on exactly the images of bounded structures -/
theorem c07m_image_decode_iff (s : Sections) (v : VersionImage) :
    decodeImage s = some v ↔ s = encodeImage v ∧ v.Bounded := by
  constructor
  · exact decodeImage_sound s v
  · rintro ⟨rfl, hb⟩
    exact decodeImage_encodeImage v hb

/-! ## map-valued sections: the file order is irrelevant

`BlobFileList` and `FragmentationMap` are `HashMap`s: the writer emits their records in an arbitrary order, and
recovery rebuilds maps (`lastWins`).  For record lists without duplicate ids — which is what iterating a map yields —
every permutation of the records is read back as the same map, and the map holds exactly the records of the list. -/

theorem c04m_frag_order_irrelevant (a b : List FragEntry) (hp : a.Perm b) (hb : FragBounded a)
    (hd : a.Pairwise (fun x y => x.id ≠ y.id)) :
    ∃ a' b', decodeFrag (encodeFrag a) = some a' ∧ decodeFrag (encodeFrag b) = some b' ∧
      ∀ i, fragMap a' i = fragMap b' i := by
  have hbb : FragBounded b := ⟨by rw [← hp.length_eq]; exact hb.1, fun e he => hb.2 e (hp.mem_iff.2 he)⟩
  exact ⟨a, b, decodeFrag_encodeFrag a hb, decodeFrag_encodeFrag b hbb,
    fun i => lastWins_perm (fun x : FragEntry => x.id) a b hp hd i⟩

theorem c04m_blobs_order_irrelevant (a b : List BlobRef) (hp : a.Perm b) (hb : BlobsBounded a)
    (hd : a.Pairwise (fun x y => x.id ≠ y.id)) :
    ∃ a' b', decodeBlobs (encodeBlobs a) = some a' ∧ decodeBlobs (encodeBlobs b) = some b' ∧
      ∀ i, blobMap a' i = blobMap b' i := by
  have hbb : BlobsBounded b := ⟨by rw [← hp.length_eq]; exact hb.1, fun e he => hb.2 e (hp.mem_iff.2 he)⟩
  exact ⟨a, b, decodeBlobs_encodeBlobs a hb, decodeBlobs_encodeBlobs b hbb,
    fun i => lastWins_perm (fun x : BlobRef => x.id) a b hp hd i⟩

/-- the recovered gc map holds exactly the records written -/
theorem c04m_frag_map_exact (l : List FragEntry) (hd : l.Pairwise (fun x y => x.id ≠ y.id)) (i : Nat) (e : FragEntry) :
    fragMap l i = some e ↔ e ∈ l ∧ e.id = i :=
  fragMap_spec l hd i e

theorem c04m_blob_map_exact (l : List BlobRef) (hd : blobIdsDistinct l = true) (i : Nat) (e : BlobRef) :
    blobMap l i = some e ↔ e ∈ l ∧ e.id = i :=
  blobMap_spec l ((blobIdsDistinct_iff l).1 hd) i e

/-- Two version files describe the same version (`VersionImage.Equiv`) when their "tables" payloads are equal and the
    map-valued sections are permutations of one another. -/
theorem c07m_equiv_of_perm (a b : VersionImage) (hl : a.levels = b.levels)
    (hbp : a.blobs.Perm b.blobs) (hbd : a.blobs.Pairwise (fun x y => x.id ≠ y.id))
    (hfp : a.frag.Perm b.frag) (hfd : a.frag.Pairwise (fun x y => x.id ≠ y.id)) : a.Equiv b :=
  ⟨hl, fun i => lastWins_perm (fun x : BlobRef => x.id) _ _ hbp hbd i,
    fun i => lastWins_perm (fun x : FragEntry => x.id) _ _ hfp hfd i⟩

end Lsm.Manifest
