import LsmModel.Lemmas.ConcLemmas
/-!
# C06 — concurrent writers, flushes, compactions and readers

While one thread writes and other threads concurrently rotate, flush, run any number of compactions, major-compact
and read, every read at a snapshot the writer has already published returns exactly the model value for that
snapshot, every acknowledged write is present once all threads have finished, no operation returns an error, and
the final tree reopens to the flushed state. The outcome does not depend on how the threads are scheduled.

Formalisation. The real code serialises every state change in a critical section: a write appends to the active
memtable under the version read lock; `rotate_memtable`, the commit of a flush (`register_tables`), the commit of a
compaction (`with_merge` on the CURRENT version), `move_tables` and `drop_tables` run under the version write lock.
An execution of concurrent threads is therefore a sequence of atomic labels — `Op`s — in commit order, to which each
thread contributes its labels in program order:

* `Interleaving threads l` (`LsmModel.Lemmas.ConcLemmas`) — `l` is a shuffle of the threads' programs that keeps each
  thread's order (`c06_schedule_is_complete_and_ordered`; interleavings exist: `Interleaving.flatten`);
* `Op.flushCommit ids wm cuts` — the commit step of a flush that ran CONCURRENTLY: the flusher snapshotted the sealed
  memtables `ids` earlier, wrote their merged stream without a lock, and registers the tables on the CURRENT state
  (memtables sealed meanwhile stay sealed; the result is discarded if a snapshotted memtable is gone). The
  synchronous `Op.flush` is the special case rotate + commit in one critical section;
* `Reach t l t'` — the run `l` from `t` to `t'` in which every label satisfies C01's side condition `okStep` on the
  state it COMMITS on; the per-step theorems quantify over the state before the step and therefore hold at every
  point of every interleaving, whatever the other threads did before;
* `lastWrite l k` — the ordered-map replay of the writes of `l` IN COMMIT ORDER.

A read is not a label (it changes nothing): a reader at some point of the execution evaluates `TreeState.getAt` on
the state reached by the prefix executed so far, or — for a snapshot `S` taken earlier — on any later state
(`c06_reads_at_published_snapshots_stable`). The outer `some` of `getAt` is "no panic".

A `write` label carries the seqno it drew from the shared counter inside its critical section, so the label itself
depends on how many version installs were committed before it; `c06_schedule_independent` compares two schedules of
literally the same labels, `c06_schedule_independent_up_to_seqno` two schedules of the same programs up to those
seqnos.
-/
namespace Lsm
set_option linter.unusedSectionVars false
variable {K : Type} [LT K] [DecidableLT K] [DecidableEq K] [LE K] [Std.IsLinearOrder K] [Std.LawfulOrderLT K]

/-- an interleaving executes every label of every thread, nothing else, and each thread's labels in program order -/
theorem c06_schedule_is_complete_and_ordered {α : Type} (threads : List (List α)) (l : List α)
    (hi : Interleaving threads l) :
    l.Perm threads.flatten ∧ ∀ th ∈ threads, th.Sublist l :=
  ⟨hi.perm, hi.sublist⟩

/-- **C06, reads refine the map for EVERY schedule.** Whatever the thread programs and however they are interleaved:
    if the interleaving is an admissible run from the empty tree, a point read of any key at any snapshot at or
    above the counter returns the last write of that key in commit order. -/
theorem c06_any_schedule_refines_map (n : Nat) (threads : List (List (Op K))) (l : List (Op K))
    (_hi : Interleaving threads l) (t : TreeState K) (h : Reach (TreeState.init n none) l t) (k : K) (S : Nat)
    (hS : t.seqCtr ≤ S) :
    t.getAt k S = some (live (lastWrite l k)) :=
  reach_getAt n h k S hS

/-- **Acknowledged writes are present.** If some thread's program contains `write es` with `e ∈ es`, that label
    occurs in every interleaving, and wherever it occurs: if no later label (in commit order) writes `e.key`, then
    once all threads have finished the read of `e.key` returns `e` (`live`: nothing if `e` is a delete). -/
theorem c06_acknowledged_writes_present (n : Nat) (threads : List (List (Op K))) (l : List (Op K))
    (hi : Interleaving threads l) (t : TreeState K) (h : Reach (TreeState.init n none) l t)
    (th : List (Op K)) (hth : th ∈ threads) (es : List (Entry K)) (hw : Op.write es ∈ th)
    (e : Entry K) (he : e ∈ es) :
    (∃ pre post, l = pre ++ Op.write es :: post) ∧
    ∀ pre post, l = pre ++ Op.write es :: post → lastWrite post e.key = none →
      ∀ S, t.seqCtr ≤ S → t.getAt e.key S = some (live (some e)) := by
  refine ⟨List.append_of_mem (hi.mem hth hw), ?_⟩
  intro pre post hl hpost S hS
  subst hl
  obtain ⟨t₁, t₂, _, hok, _, _⟩ := h.at
  rw [reach_getAt n h _ S hS, lastWrite_append, lastWrite_cons, hpost]
  simp only [Op.lastWriteOf]
  rw [batchGet_of_mem hok.2 he]

/-- … in particular an acknowledged insert that is not overwritten later reads back exactly -/
theorem c06_acknowledged_insert_present (n : Nat) (threads : List (List (Op K))) (l : List (Op K))
    (hi : Interleaving threads l) (t : TreeState K) (h : Reach (TreeState.init n none) l t)
    (th : List (Op K)) (hth : th ∈ threads) (es : List (Entry K)) (hw : Op.write es ∈ th)
    (e : Entry K) (he : e ∈ es) (hv : e.vt = .value)
    (pre post : List (Op K)) (hl : l = pre ++ Op.write es :: post) (hpost : lastWrite post e.key = none)
    (S : Nat) (hS : t.seqCtr ≤ S) :
    t.getAt e.key S = some (some e) := by
  rw [(c06_acknowledged_writes_present n threads l hi t h th hth es hw e he).2 pre post hl hpost S hS, live_some]
  simp [Entry.isTomb, hv]

/-- **Reads at published snapshots are stable, for every schedule.** Cut any interleaving at any point (`l₁` has been
    committed, `l₂` is still to come). A reader that took its snapshot `0 < S ≤ counter` at that point reads, at every
    later point and for every key, exactly what it read then — whatever the other threads commit in between
    (writes, rotations, flush commits, compactions with GC watermark `≤ S`). Instance of C02; no side condition on
    the labels is needed, and the tree may be key-value separated. -/
theorem c06_reads_at_published_snapshots_stable (n : Nat) (b : Option Nat) (threads : List (List (Op K)))
    (l₁ l₂ : List (Op K)) (_hi : Interleaving threads (l₁ ++ l₂)) (t₁ t₂ : TreeState K)
    (h₁ : (TreeState.init n b).run l₁ = some t₁) (h₂ : t₁.run l₂ = some t₂)
    (S : Nat) (hS0 : 0 < S) (hS : S ≤ t₁.seqCtr)
    (hops : ∀ op ∈ l₂, op.isReopen = false ∧ op.watermark ≤ S) :
    ∀ k, t₂.getAt k S = t₁.getAt k S :=
  run_getAt_stable (run_WF (WF_init n b) h₁) h₂ S hops hS0 hS

/-- **… and return the model value for that snapshot.** The snapshot published at the cut (`S = counter` there) reads,
    at every later point of every admissible schedule, the ordered map as it was at the cut: the last write of the
    key among the labels committed BEFORE the cut. -/
theorem c06_published_snapshot_reads_model_value (n : Nat) (threads : List (List (Op K)))
    (l₁ l₂ : List (Op K)) (_hi : Interleaving threads (l₁ ++ l₂)) (t₁ t₂ : TreeState K)
    (h₁ : Reach (TreeState.init n none) l₁ t₁) (h₂ : Reach t₁ l₂ t₂) (hpos : 0 < t₁.seqCtr)
    (hops : ∀ op ∈ l₂, op.isReopen = false ∧ op.watermark ≤ t₁.seqCtr) (k : K) :
    t₂.getAt k t₁.seqCtr = some (live (lastWrite l₁ k)) := by
  rw [run_getAt_stable (run_WF (WF_init n none) h₁.run) h₂.run t₁.seqCtr hops hpos (Nat.le_refl _) k]
  exact reach_getAt n h₁ k _ (Nat.le_refl _)

/-- **Schedule independence.** Two interleavings of the SAME thread programs, both admissible runs; at most one
    thread writes (single writer: the order of the writes is then the writer's program order in both). Then both
    final states answer every point read (at or above their counters) identically. -/
theorem c06_schedule_independent (n : Nat) (threads : List (List (Op K))) (l₁ l₂ : List (Op K))
    (hi₁ : Interleaving threads l₁) (hi₂ : Interleaving threads l₂)
    (hsingle : threads.Pairwise (fun x y => (∀ op ∈ x, op.isWrite = false) ∨ (∀ op ∈ y, op.isWrite = false)))
    (t₁ t₂ : TreeState K) (h₁ : Reach (TreeState.init n none) l₁ t₁) (h₂ : Reach (TreeState.init n none) l₂ t₂)
    (k : K) (S₁ S₂ : Nat) (hS₁ : t₁.seqCtr ≤ S₁) (hS₂ : t₂.seqCtr ≤ S₂) :
    t₁.getAt k S₁ = t₂.getAt k S₂ := by
  rw [reach_getAt n h₁ k S₁ hS₁, reach_getAt n h₂ k S₂ hS₂, hi₁.lastWrite_eq hi₂ hsingle k]

/-- **Schedule independence up to seqnos.** A write draws its seqno from the shared counter, so two schedules of the
    same PROGRAMS produce labels that differ in the seqnos of the written entries. If the thread programs of two
    admissible schedules agree up to those seqnos (`Op.eraseSeq`) and at most one thread writes, both final states
    answer every point read identically up to the seqno of the returned entry (same key, kind and value). -/
theorem c06_schedule_independent_up_to_seqno (n : Nat) (threads₁ threads₂ : List (List (Op K)))
    (l₁ l₂ : List (Op K)) (hi₁ : Interleaving threads₁ l₁) (hi₂ : Interleaving threads₂ l₂)
    (hsame : threads₁.map (List.map Op.eraseSeq) = threads₂.map (List.map Op.eraseSeq))
    (hsingle : threads₁.Pairwise (fun x y => (∀ op ∈ x, op.isWrite = false) ∨ (∀ op ∈ y, op.isWrite = false)))
    (t₁ t₂ : TreeState K) (h₁ : Reach (TreeState.init n none) l₁ t₁) (h₂ : Reach (TreeState.init n none) l₂ t₂)
    (k : K) (S₁ S₂ : Nat) (hS₁ : t₁.seqCtr ≤ S₁) (hS₂ : t₂.seqCtr ≤ S₂) :
    (t₁.getAt k S₁).map (Option.map Entry.eraseSeq) = (t₂.getAt k S₂).map (Option.map Entry.eraseSeq) := by
  have hs' : (threads₁.map (List.map Op.eraseSeq)).Pairwise
      (fun x y => (∀ op ∈ x, op.isWrite = false) ∨ (∀ op ∈ y, op.isWrite = false)) := by
    rw [List.pairwise_map]
    refine hsingle.imp ?_
    have key : ∀ x : List (Op K), (∀ op ∈ x, op.isWrite = false) →
        ∀ op ∈ x.map Op.eraseSeq, op.isWrite = false := by
      intro x hx op hop
      obtain ⟨op0, h0, rfl⟩ := List.mem_map.1 hop
      rw [Op.isWrite_eraseSeq]; exact hx op0 h0
    intro x y hxy
    exact hxy.imp (key x) (key y)
  have hi₂' := hi₂.map Op.eraseSeq
  rw [← hsame] at hi₂'
  rw [reach_getAt n h₁ k S₁ hS₁, reach_getAt n h₂ k S₂ hS₂, Option.map_some, Option.map_some,
    ← live_eraseSeq, ← live_eraseSeq, ← lastWrite_eraseSeq, ← lastWrite_eraseSeq,
    (hi₁.map Op.eraseSeq).lastWrite_eq hi₂' hs' k]

/-- **The commit of a concurrent flush is sound.**
    (a) Discarded branch: if a snapshotted memtable is no longer sealed, the commit succeeds and leaves the state
        unchanged (nothing is registered, nothing is unsealed).
    (b) Committing branch (and the discarded one): under C01's side condition the invariant is kept and no read
        changes — the flushed data moved from the oldest sealed memtables into the new L0 run, memtables sealed
        after the flusher's snapshot are still in front of it. -/
theorem c06_flush_commit_discard_sound (t : TreeState K) (ids : List Nat) (wm : Nat) (cuts : List (Nat × Nat)) :
    (∀ sv, t.latest? = some sv → ids ≠ [] → (∃ i ∈ ids, i ∉ sv.sealed) →
      t.applyOp (.flushCommit ids wm cuts) = some t) ∧
    (∀ t', Good t → okStep t (.flushCommit ids wm cuts) → t.applyOp (.flushCommit ids wm cuts) = some t' →
      Good t' ∧ ∀ k S S', t.seqCtr ≤ S → t'.seqCtr ≤ S' → t'.getAt k S' = t.getAt k S) := by
  constructor
  · intro sv hl hne ⟨i, hi, hns⟩
    have h1 : ids.isEmpty = false := by
      cases ids with
      | nil => exact absurd rfl hne
      | cons _ _ => rfl
    have h2 : ids.all (fun i => sv.sealed.contains i) = false := by
      rw [List.all_eq_false]
      exact ⟨i, hi, by simpa using hns⟩
    show t.flushCommit ids wm cuts = some t
    unfold TreeState.flushCommit
    rw [hl]
    simp only [h1, h2, Bool.false_eq_true, if_false, Bool.not_false, if_true]
  · intro t' hg hok ha
    refine ⟨(applyOp_good hg hok ha).1, fun k S S' hS hS' => ?_⟩
    exact (applyOp_good_getAt hg hok ha rfl k S S' hS hS').2

/-- **The final tree reopens to the flushed state.** After all threads have finished and the final flush(es) have
    emptied every memtable of the latest super version, `reopen` (drop + recover) keeps every read: it still
    returns the last write of the key in commit order. -/
theorem c06_final_reopen (n : Nat) (threads : List (List (Op K))) (l : List (Op K))
    (_hi : Interleaving threads l) (t : TreeState K) (h : Reach (TreeState.init n none) l t)
    (hflushed : ∀ sv, t.latest? = some sv → ∀ id ∈ sv.active :: sv.sealed, t.mem id = [])
    (t' : TreeState K) (hr : t.applyOp .reopen = some t') (k : K) (S S' : Nat) (hS : t.seqCtr ≤ S)
    (hS' : t'.seqCtr ≤ S') :
    t'.getAt k S' = t.getAt k S ∧ t'.getAt k S' = some (live (lastWrite l k)) := by
  have hg := (reach_good h (good_init n)).1
  have h1 := (applyOp_good_getAt hg (op := .reopen) hflushed hr rfl k S S' hS hS').2
  exact ⟨h1, h1.trans (reach_getAt n h k S hS)⟩

/-- **No operation returns an error.** On every well-formed state (in particular every state reached by any
    schedule): a write whose entries carry the seqno drawn from the counter is accepted, a rotation to a fresh
    memtable id is accepted, a move / drop commit is accepted; and in every state reached by an admissible schedule
    every read at or above the counter resolves (no panic). -/
theorem c06_no_error (t : TreeState K) (hwf : t.WF) :
    (∀ es : List (Entry K), (∀ e ∈ es, e.seqno = t.seqCtr) → ∃ t', t.applyOp (.write es) = some t') ∧
    (∀ m, t.freshMem m = true → ∃ t', t.applyOp (.rotate m) = some t') ∧
    (∀ ids dest wm, ∃ t', t.applyOp (.move ids dest wm) = some t') ∧
    (∀ ids wm, ∃ t', t.applyOp (.drop ids wm) = some t') := by
  obtain ⟨sv, hsv⟩ : ∃ sv, t.latest? = some sv := by
    cases hl : t.latest? with
    | some sv => exact ⟨sv, rfl⟩
    | none => exact absurd (List.getLast?_eq_none_iff.1 hl) hwf.hist_ne
  refine ⟨fun es hes => ?_, fun m hm => ?_, fun ids dest wm => ?_, fun ids wm => ?_⟩
  · have : es.all (fun e => e.seqno == t.seqCtr) = true := by
      rw [List.all_eq_true]; intro e he; simpa using hes e he
    simp [TreeState.applyOp, TreeState.write, hsv, this]
  · simp [TreeState.applyOp, hm]
  · simp [TreeState.applyOp, TreeState.moveCommit, hsv]
  · simp [TreeState.applyOp, TreeState.dropCommit, hsv]

/-- reads never panic in a state reached by an admissible schedule -/
theorem c06_reads_never_panic (n : Nat) (threads : List (List (Op K))) (l : List (Op K))
    (hi : Interleaving threads l) (t : TreeState K) (h : Reach (TreeState.init n none) l t) (k : K) (S : Nat)
    (hS : t.seqCtr ≤ S) : (t.getAt k S).isSome = true := by
  rw [c06_any_schedule_refines_map n threads l hi t h k S hS]; rfl

/-! ### Non-vacuity: two threads on `K := Nat` (two levels), two schedules

Writer `[write 1 ↦ [10] @0, write 2 ↦ [20] @1]`; flusher `[rotate 1, flushCommit [0] 0 [(100, 1)]]` (it intends to
flush memtable 0 into one table `100` of one entry).

* schedule A: `write a · rotate · write b · flushCommit` — the flusher seals memtable 0 (holding `a`), the writer's
  second write lands in the new active memtable 1, the commit registers table `100` and unseals memtable 0;
* schedule B: `rotate · write a · write b · flushCommit` — the rotation finds an empty active memtable and does
  nothing, so memtable 0 is never sealed and the commit is DISCARDED (identity).

Both are admissible runs of the same labels; the final states differ (`sA`: `a` in table `100`, `b` in memtable 1;
`sB`: both in memtable 0) but read identically. -/
namespace C06Example

def a0 : Entry Nat := ⟨1, 0, .value, [10]⟩
def b1 : Entry Nat := ⟨2, 1, .value, [20]⟩

def wa : Op Nat := .write [a0]
def wb : Op Nat := .write [b1]
def rot : Op Nat := .rotate 1
def fc : Op Nat := .flushCommit [0] 0 [(100, 1)]

def writer : List (Op Nat) := [wa, wb]
def flusher : List (Op Nat) := [rot, fc]

def schedA : List (Op Nat) := [wa, rot, wb, fc]
def schedB : List (Op Nat) := [rot, wa, wb, fc]

def v0 : Version Nat := Version.empty 0 2
def t100 : TableM Nat := ⟨100, 1, 1, [a0], 0⟩
def v1 : Version Nat := ⟨1, [[[t100]], []]⟩

def s0 : TreeState Nat := TreeState.init 2 none
def s1 : TreeState Nat :=
  { hist := [⟨0, [], v0, 0⟩], mems := [⟨0, [a0]⟩], seqCtr := 1, visible := 1, levelCount := 2 }
def s1r : TreeState Nat :=
  { hist := [⟨1, [0], v0, 0⟩], mems := [⟨0, [a0]⟩, ⟨1, []⟩], seqCtr := 1, visible := 1, levelCount := 2 }
def s2 : TreeState Nat :=
  { hist := [⟨1, [0], v0, 0⟩], mems := [⟨0, [a0]⟩, ⟨1, [b1]⟩], seqCtr := 2, visible := 2, levelCount := 2 }
/-- final state of schedule A -/
def sA : TreeState Nat :=
  { hist := [⟨1, [0], v0, 0⟩, ⟨1, [], v1, 2⟩], mems := [⟨0, [a0]⟩, ⟨1, [b1]⟩], seqCtr := 3, visible := 3,
    levelCount := 2 }
/-- final state of schedule B -/
def sB : TreeState Nat :=
  { hist := [⟨0, [], v0, 0⟩], mems := [⟨0, [a0, b1]⟩], seqCtr := 2, visible := 2, levelCount := 2 }

theorem interA : Interleaving [writer, flusher] schedA :=
  .cons (pre := []) (.cons (pre := [[wb]]) (.cons (pre := []) (.cons (pre := [[]]) (.nil (by simp)))))

theorem interB : Interleaving [writer, flusher] schedB :=
  .cons (pre := [writer]) (.cons (pre := []) (.cons (pre := []) (.cons (pre := [[]]) (.nil (by simp)))))

theorem single_writer : [writer, flusher].Pairwise
    (fun x y => (∀ op ∈ x, op.isWrite = false) ∨ (∀ op ∈ y, op.isWrite = false)) := by
  simp [writer, flusher, rot, fc, Op.isWrite]

theorem streamA : cstream 0 false noFilter (mergeAll (List.map s2.mem [0])) = ([a0], []) := by
  have hm : mergeAll [[a0]] = [a0] := by simp [mergeAll, merge2]
  show cstream 0 false noFilter (mergeAll [[a0]]) = _
  rw [hm]
  simp [cstream, filterHead, noFilter, a0, Entry.isTomb]

theorem stepA4 : s2.applyOp fc = some sA := by
  show s2.flushCommit [0] 0 [(100, 1)] = some sA
  have hl : s2.latest? = some ⟨1, [0], v0, 0⟩ := rfl
  simp only [TreeState.flushCommit, hl, streamA]
  rfl

theorem okA4 : okStep s2 fc := by
  refine ⟨by decide, by decide, fun sv hsv => Or.inr ?_⟩
  obtain rfl : sv = ⟨1, [0], v0, 0⟩ := Option.some.inj (hsv.symm.trans (rfl : s2.latest? = _))
  refine ⟨⟨[], rfl⟩, ?_⟩
  rw [streamA]
  refine ⟨by decide, by decide, fun ts hts => ?_⟩
  cases hts; rfl

/-- in schedule B the snapshotted memtable 0 is not sealed: the side condition holds by the discard disjunct -/
theorem okB4 : okStep sB fc := by
  refine ⟨by decide, by decide, fun sv hsv => Or.inl ?_⟩
  obtain rfl : sv = ⟨0, [], v0, 0⟩ := Option.some.inj (hsv.symm.trans (rfl : sB.latest? = _))
  rfl

theorem reachA : Reach s0 schedA sA :=
  .step (t' := s1) ⟨by decide, by decide⟩ rfl (.step (t' := s1r) trivial rfl
    (.step (t' := s2) ⟨by decide, by decide⟩ rfl (.step okA4 stepA4 (.refl _))))

theorem reachB : Reach s0 schedB sB :=
  .step (t' := s0) trivial rfl (.step (t' := s1) ⟨by decide, by decide⟩ rfl
    (.step (t' := sB) ⟨by decide, by decide⟩ rfl (.step okB4 rfl (.refl _))))

/-- the commit of schedule B is the discarded branch: instance of `c06_flush_commit_discard_sound` (a) -/
example : sB.applyOp fc = some sB :=
  (c06_flush_commit_discard_sound sB [0] 0 [(100, 1)]).1 _ rfl (by decide) ⟨0, by decide, by decide⟩

/-- what C06 says about the two schedules: every key reads the same in both final states -/
example (k : Nat) : sA.getAt k 3 = sB.getAt k 2 :=
  c06_schedule_independent 2 [writer, flusher] schedA schedB interA interB single_writer sA sB reachA reachB k 3 2
    (by decide) (by decide)

/-- the same reads evaluated directly on the model: both writes are present in both, key 3 was never written -/
example : sA.getAt 1 3 = some (some a0) ∧ sA.getAt 2 3 = some (some b1) ∧ sA.getAt 3 3 = some none ∧
    sB.getAt 1 2 = some (some a0) ∧ sB.getAt 2 2 = some (some b1) ∧ sB.getAt 3 2 = some none := by decide

/-- acknowledged writes (schedule A): `a0` is written by the writer thread and never overwritten -/
example : sA.getAt 1 3 = some (some a0) :=
  c06_acknowledged_insert_present 2 [writer, flusher] schedA interA sA reachA writer (by simp) [a0]
    (by simp [writer, wa]) a0 (by simp) rfl [] [rot, wb, fc] rfl rfl 3 (by decide)

/-- a published snapshot (schedule A, cut after `write a · rotate`, `S = 1`): at the end it still reads the map as
    it was at the cut — key 1 present, key 2 (written later) absent -/
example (k : Nat) : sA.getAt k 1 = some (live (lastWrite [wa, rot] k)) :=
  c06_published_snapshot_reads_model_value 2 [writer, flusher] [wa, rot] [wb, fc] interA s1r sA
    (.step (t' := s1) ⟨by decide, by decide⟩ rfl (.step (t' := s1r) trivial rfl (.refl _)))
    (.step (t' := s2) ⟨by decide, by decide⟩ rfl (.step okA4 stepA4 (.refl _)))
    (by decide) (by simp [wb, fc, Op.isReopen, Op.watermark]) k

example : sA.getAt 1 1 = some (some a0) ∧ sA.getAt 2 1 = some none := by decide

/-! #### a third thread: memtables sealed after the flusher's snapshot stay sealed

Rotator `[rotate 2]`. Schedule C: `write a · rotate 1 · write b · rotate 2 · flushCommit [0]` — when the flush
commits, memtables `[0, 1]` are sealed; `[0]` is a prefix, memtable 1 (holding `b`) stays sealed in front of the new
table. Schedule D commits the flush before the second rotation. -/

def rot2 : Op Nat := .rotate 2
def schedC : List (Op Nat) := [wa, rot, wb, rot2, fc]
def schedD : List (Op Nat) := [wa, rot, wb, fc, rot2]

def s2r : TreeState Nat :=
  { hist := [⟨2, [0, 1], v0, 0⟩], mems := [⟨0, [a0]⟩, ⟨1, [b1]⟩, ⟨2, []⟩], seqCtr := 2, visible := 2,
    levelCount := 2 }
def sC : TreeState Nat :=
  { hist := [⟨2, [0, 1], v0, 0⟩, ⟨2, [1], v1, 2⟩], mems := [⟨0, [a0]⟩, ⟨1, [b1]⟩, ⟨2, []⟩], seqCtr := 3,
    visible := 3, levelCount := 2 }
def sD : TreeState Nat :=
  { hist := [⟨1, [0], v0, 0⟩, ⟨2, [1], v1, 2⟩], mems := [⟨0, [a0]⟩, ⟨1, [b1]⟩, ⟨2, []⟩], seqCtr := 3,
    visible := 3, levelCount := 2 }

theorem interC : Interleaving [writer, flusher, [rot2]] schedC :=
  .cons (pre := []) (.cons (pre := [[wb]]) (.cons (pre := []) (.cons (pre := [[], [fc]])
    (.cons (pre := [[]]) (.nil (by simp))))))

theorem interD : Interleaving [writer, flusher, [rot2]] schedD :=
  .cons (pre := []) (.cons (pre := [[wb]]) (.cons (pre := []) (.cons (pre := [[]])
    (.cons (pre := [[], []]) (.nil (by simp))))))

theorem streamC : cstream 0 false noFilter (mergeAll (List.map s2r.mem [0])) = ([a0], []) := streamA

theorem stepC5 : s2r.applyOp fc = some sC := by
  show s2r.flushCommit [0] 0 [(100, 1)] = some sC
  have hl : s2r.latest? = some ⟨2, [0, 1], v0, 0⟩ := rfl
  simp only [TreeState.flushCommit, hl, streamC]
  rfl

/-- `[0]` is a proper prefix of the sealed list `[0, 1]` -/
theorem okC5 : okStep s2r fc := by
  refine ⟨by decide, by decide, fun sv hsv => Or.inr ?_⟩
  obtain rfl : sv = ⟨2, [0, 1], v0, 0⟩ := Option.some.inj (hsv.symm.trans (rfl : s2r.latest? = _))
  refine ⟨⟨[1], rfl⟩, ?_⟩
  rw [streamC]
  refine ⟨by decide, by decide, fun ts hts => ?_⟩
  cases hts; rfl

theorem reachC : Reach s0 schedC sC :=
  .step (t' := s1) ⟨by decide, by decide⟩ rfl (.step (t' := s1r) trivial rfl
    (.step (t' := s2) ⟨by decide, by decide⟩ rfl (.step (t' := s2r) trivial rfl
      (.step okC5 stepC5 (.refl _)))))

theorem reachD : Reach s0 schedD sD :=
  .step (t' := s1) ⟨by decide, by decide⟩ rfl (.step (t' := s1r) trivial rfl
    (.step (t' := s2) ⟨by decide, by decide⟩ rfl (.step okA4 stepA4
      (.step (t' := sD) trivial rfl (.refl _)))))

example (k : Nat) : sC.getAt k 3 = sD.getAt k 3 :=
  c06_schedule_independent 2 [writer, flusher, [rot2]] schedC schedD interC interD
    (by simp [writer, flusher, rot, rot2, fc, Op.isWrite]) sC sD reachC reachD k 3 3 (by decide) (by decide)

/-- in `sC` the read of key 2 is served by the still-sealed memtable 1, the read of key 1 by the new table -/
example : sC.getAt 1 3 = some (some a0) ∧ sC.getAt 2 3 = some (some b1) ∧
    (sC.hist.getLast?.map (·.sealed)) = some [1] := by decide

/-! #### the prefix condition cannot be dropped

Committing a flush of the NEWER sealed memtable only (`[1]`, not a prefix of `[0, 1]`) puts its data behind the
older sealed memtable 0 in read order: with an overwrite of key 1 in memtable 1 the old value resurfaces. -/

def a1 : Entry Nat := ⟨1, 1, .value, [11]⟩
def t101 : TableM Nat := ⟨101, 1, 1, [a1], 0⟩

def p2r : TreeState Nat :=
  { hist := [⟨2, [0, 1], v0, 0⟩], mems := [⟨0, [a0]⟩, ⟨1, [a1]⟩, ⟨2, []⟩], seqCtr := 2, visible := 2,
    levelCount := 2 }
def pBad : TreeState Nat :=
  { hist := [⟨2, [0, 1], v0, 0⟩, ⟨2, [0], ⟨1, [[[t101]], []]⟩, 2⟩], mems := [⟨0, [a0]⟩, ⟨1, [a1]⟩, ⟨2, []⟩],
    seqCtr := 3, visible := 3, levelCount := 2 }

example : p2r.getAt 1 2 = some (some a1) ∧
    p2r.applyOp (.flushCommit [1] 0 [(101, 1)]) = some pBad ∧ pBad.getAt 1 3 = some (some a0) := by
  refine ⟨by decide, ?_, by decide⟩
  show p2r.flushCommit [1] 0 [(101, 1)] = some pBad
  have hl : p2r.latest? = some ⟨2, [0, 1], v0, 0⟩ := rfl
  have hs : cstream 0 false noFilter (mergeAll (List.map p2r.mem [1])) = ([a1], []) := by
    have hm : mergeAll [[a1]] = [a1] := by simp [mergeAll, merge2]
    show cstream 0 false noFilter (mergeAll [[a1]]) = _
    rw [hm]
    simp [cstream, filterHead, noFilter, a1, Entry.isTomb]
  simp only [TreeState.flushCommit, hl, hs]
  rfl

end C06Example

end Lsm
