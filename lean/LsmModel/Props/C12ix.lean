import LsmModel.Lemmas.IndexBlockLemmas
import LsmModel.Lemmas.TwoLevelFlatLemmas
import LsmModel.Lemmas.VolatileLemmas
import LsmModel.Lemmas.BlockLemmas
/-
  LsmModel.Props.C12ix — index blocks (byte level) and the two-level (partitioned) block index.
  Model: LsmModel.Table.IndexBlock, LsmModel.Table.TwoLevel.  Correspondence: `lsmverif ia ixb`.
-/
namespace Lsm.Props.TwoLevel
open Lsm Lsm.Codec Lsm.Blocks Lsm.IndexBlock Lsm.TwoLevel

/-- IX1. One `KeyedBlockHandle` survives `encode_full_into` / `parse_full` + `materialize`, whatever follows it. -/
theorem ix_handle_roundtrip (h : KHandle) (tail : Bytes) : decodeHandle (encodeHandle h ++ tail) = some (h, tail) :=
  decodeHandle_encodeHandle h tail

/-- IX2. Forward iteration over `IndexBlock::encode_into(handles)` returns exactly the handles, for EVERY non-empty handle
    list (no bound on offsets, sizes, seqnos, key lengths or block size is needed); the empty list is the writer's panic. -/
theorem ix_block_roundtrip (hs : List KHandle) :
    (hs = [] → encodeIndexBlock hs = none) ∧
    (hs ≠ [] → ∃ bytes, encodeIndexBlock hs = some bytes ∧ decodeFwd bytes = some hs ∧
      blockLen bytes = some (hs.length % 4294967296)) := by
  constructor
  · intro h; subst h; rfl
  · intro h
    refine ⟨encodeIndexBlock' hs, ?_, indexBlock_roundtrip_fwd hs, indexBlock_len hs⟩
    unfold encodeIndexBlock
    cases hs with
    | nil => exact absurd rfl h
    | cons x t => rfl

/-- non-vacuity / well-formedness is inhabited: a handle with maximal fields -/
example : WfHandle ⟨[1, 2, 3], 2 ^ 64 - 1, 2 ^ 64 - 1, 2 ^ 32 - 1⟩ := by decide

/-- the backward decoder through the binary index on a concrete block (the general theorem is not proved, see NOTES) -/
example : decodeBwd (encodeIndexBlock' [⟨[98], 0, 0, 6000⟩, ⟨[98, 99], 5, 6000, 7000⟩, ⟨[100], 1, 13000, 5000⟩])
    = some [⟨[100], 1, 13000, 5000⟩, ⟨[98, 99], 5, 6000, 7000⟩, ⟨[98], 0, 0, 6000⟩] := by decide

/-- TL1. The partitions cut by `PartitionedIndexWriter` (any partition size, any positive per-handle size accounting) are
    consecutive and non-empty: they concatenate to the registered handle list. -/
theorem tl_cut_rule (hsz psize : Nat) (h0 : 0 < hsz) (hs : List KHandle) :
    (cutPartitions (handleSize hsz) psize hs).flatten = hs ∧
    ∀ p ∈ cutPartitions (handleSize hsz) psize hs, p ≠ [] :=
  cutPartitions_spec (handleSize hsz) (fun h => by unfold handleSize; omega) psize hs

/-- TL2. The top-level entry of a (non-empty) partition carries the end key and seqno of its LAST handle. -/
theorem tl_top_entry (p : List KHandle) (hne : p ≠ []) :
    ∃ h, p.getLast? = some h ∧ tliEntry p = some ⟨h.endKey, h.seqno⟩ := by
  cases hl : p.getLast? with
  | none => exact absurd (List.getLast?_eq_none_iff.mp hl) hne
  | some h => exact ⟨h, rfl, by simp [tliEntry, hl, KHandle.toIE]⟩

/-- TL3 (state machine). For EVERY top-level block `top` (each entry paired with the partition it points to), all
    bounds and EVERY F/B pull word: if `init_tli` leaves the entries `T` and every remaining partition has a non-empty
    window (or exactly one partition remains and its window is empty), `two_level::Iter` delivers the concatenation
    of the partition windows, consumed from both ends.  No sortedness, no assumption on how the list was cut. -/
theorem tl_run_concat {α : Type} (pLo pHi : Option (α → Bool)) (top T : List (α × List α))
    (hT : windowP (onTop pLo) (onTop pHi) top = some T)
    (hg : Good pLo pHi T ∨ ∃ e, T = [e] ∧ windowP pLo pHi e.2 = some []) (w : List Dir) :
    TLIter.run pLo pHi { top := top } w = bothEnds (T.flatMap (winOf pLo pHi)) w :=
  twoLevel_run_concat pLo pHi top T hT hg w

/-- TL4 (two-level = flat, lower bound / `forward_reader(needle, seqno)`).  For EVERY cut of a handle list into
    non-empty partitions (`top` is observed data: the cut points are not computed) whose top-level entries agree with the
    last handle of their partition on (end key, seqno), every needle `(k, S)` whose seek predicate is true on a prefix of
    the concatenated handle list (which `Lsm.Blocks.idxPred_mono` proves for every ascending index), and every pull
    word, the two-level index returns exactly what the flat index over the concatenation returns. -/
theorem tl_eq_flat_lower (top : List (KHandle × List KHandle)) (k : Bytes) (S : Nat)
    (hne : ∀ e ∈ top, e.2 ≠ [])
    (hkey : ∀ e ∈ top, ∃ x, e.2.getLast? = some x ∧ e.1.toIE = x.toIE)
    (hmono : (top.flatMap (·.2)).Pairwise (fun a b => predLo k S b = true → predLo k S a = true))
    (w : List Dir) :
    twoLevelRun top (some (k, S)) none w = flatRun (top.flatMap (·.2)) (some (k, S)) none w := by
  unfold twoLevelRun flatRun
  simp only [loPred, hiPred, Option.map_some, Option.map_none]
  apply twoLevel_eq_flat_lo (predLo k S) top hne ?_ hmono w
  intro e he
  obtain ⟨x, hx, hie⟩ := hkey e he
  exact ⟨x, hx, by simp [predLo, hie]⟩

/-- TL4' = TL4 for an ASCENDING index (internal-key order of (end key, seqno): `Lsm.Blocks.ieLt`, which `c12_index` proves
    for every written table): the monotonicity hypothesis is discharged by `idxPred_mono`. -/
theorem tl_eq_flat_lower_asc (top : List (KHandle × List KHandle)) (k : Bytes) (S : Nat)
    (hne : ∀ e ∈ top, e.2 ≠ [])
    (hkey : ∀ e ∈ top, ∃ x, e.2.getLast? = some x ∧ e.1.toIE = x.toIE)
    (hasc : ((top.flatMap (·.2)).map KHandle.toIE).Pairwise ieLt)
    (w : List Dir) :
    twoLevelRun top (some (k, S)) none w = flatRun (top.flatMap (·.2)) (some (k, S)) none w := by
  apply tl_eq_flat_lower top k S hne hkey ?_ w
  have := idxPred_mono _ hasc k S
  rw [List.pairwise_map] at this
  exact this

/-- TL6. The volatile (lazily loaded) full index delivers exactly what the pinned full index delivers: every block, all
    bounds, every pull word, no hypothesis. -/
theorem tl_volatile_eq_flat (hs : List KHandle) (lo : Option (Bytes × Nat)) (hi : Option Bytes) (w : List Dir) :
    volatileRun hs lo hi w = flatRun hs lo hi w :=
  volatile_eq_flat (loPred lo) (hiPred hi) hs w

/-- non-vacuity of TL4: two partitions, needle inside the second -/
example :
    twoLevelRun [(⟨[2], 7, 100, 10⟩, [⟨[1], 3, 0, 5⟩, ⟨[2], 7, 5, 5⟩]), (⟨[4], 1, 110, 10⟩, [⟨[3], 2, 10, 5⟩, ⟨[4], 1, 15, 5⟩])]
      (some ([3], 9)) none [.F, .B, .F]
    = [some ⟨[3], 2, 10, 5⟩, some ⟨[4], 1, 15, 5⟩, none] := by decide

/- TL5 (NOT PROVED — statement kept): the same with an upper bound as well.
theorem tl_eq_flat (top : List (KHandle × List KHandle)) (lo : Option (Bytes × Nat)) (hi : Option Bytes)
    (hne : ∀ e ∈ top, e.2 ≠ [])
    (hkey : ∀ e ∈ top, ∃ x, e.2.getLast? = some x ∧ e.1.toIE = x.toIE)
    (hasc : ((top.flatMap (·.2)).map KHandle.toIE).Pairwise ieLt) (w : List Dir) :
    twoLevelRun top lo hi w = flatRun (top.flatMap (·.2)) lo hi w
   `tl_run_concat` reduces it to a statement about lists (the concatenation of the partition windows over the top-level
   window equals the flat window); `tl_eq_flat_lower` is the case `hi = none`.  The executable cross-check
   `ixtwo` (fields `items=` vs `flat=`) evaluates both sides on every generated case. -/

#print axioms ix_handle_roundtrip
#print axioms ix_block_roundtrip
#print axioms tl_cut_rule
#print axioms tl_top_entry
#print axioms tl_run_concat
#print axioms tl_eq_flat_lower
#print axioms tl_eq_flat_lower_asc
#print axioms tl_volatile_eq_flat

end Lsm.Props.TwoLevel
