import LsmModel.Lemmas.FsLemmas
/-!
# C20 — obsolete files are reclaimed and nothing live is ever deleted (file-system half)

Safety of reclamation in the install protocol: the guard lets `unlink p` through only for a file the new version does not
name, and — if the old version names it — only once the install is durable.  Hence whichever version `current`
names, durably or through a rename still awaiting its directory sync, has all its files.  Leftovers (files named by
neither version: partial outputs of failed or crashed operations) may be deleted at any time, in the running system
and in a crash image, without affecting recovery.
-/
namespace Lsm
open Fs

/-- In an accepted action list:
(1) every `unlink p` is of a file the new version does not name, and it happens when the install is durable
    (phase `installed`) or on a file the old version does not name either;
(2) every `create` / `append` is on a file the old version does not name;
(3) at every action boundary, whichever of the two versions `current` could name (`CouldBeCurrent`: durably, or
    through the pending rename) has every one of its files present, complete and durable — and one of them is
    always such a version. -/
theorem c20_live_files_never_unlinked (old new : Ver) (fs : Fs) (as : List Act) (hinv : Inv old new fs)
    (hacc : acceptsFrom old new fs as = none) :
    (∀ i (hi : i < as.length) p, as[i] = .unlink p →
        ¬ names new p ∧ (phaseOf old new (run fs (as.take i)) = .installed ∨ ¬ names old p)) ∧
    (∀ i (hi : i < as.length) p, (as[i] = .create p ∨ ∃ c, as[i] = .append p c) → ¬ names old p) ∧
    (∀ i ≤ as.length,
        (CouldBeCurrent (run fs (as.take i)) old → ∀ pf ∈ old.files, Durable (run fs (as.take i)) pf) ∧
        (CouldBeCurrent (run fs (as.take i)) new → ∀ pf ∈ new.files, Durable (run fs (as.take i)) pf) ∧
        (CouldBeCurrent (run fs (as.take i)) old ∨ CouldBeCurrent (run fs (as.take i)) new)) :=
  accepted_never_unlinks_live old new fs as hinv hacc

/-- After recovery to `v`, deleting files `v` does not name (orphan cleanup) leaves recovery to `v` intact. -/
theorem c20_cleanup_safe (d : Disk) (v : Ver) (ps : List Path) (h : RecoversTo d v)
    (hn : ∀ p ∈ ps, ¬ names v p) : RecoversTo (ps.foldl Disk.remove d) v :=
  recovery_cleanup_safe_all ps hn h

/-- one file -/
theorem c20_cleanup_safe_one (d : Disk) (v : Ver) (p : Path) (h : RecoversTo d v) (hn : ¬ names v p) :
    RecoversTo (d.remove p) v :=
  recovery_cleanup_safe h hn

/-- In the running system: unlinking a leftover is accepted in every phase of an install, and in a quiescent state
it leaves the state quiescent for the same version. -/
theorem c20_leftover_unlink (old new : Ver) (fs : Fs) (p : Path) (ho : ¬ names old p) (hn : ¬ names new p) :
    guardB old new fs (.unlink p) = true ∧
    (Quiescent old fs → Quiescent old (apply fs (.unlink p))) :=
  ⟨leftover_unlink_accepted ho hn, fun hq => quiescent_unlink hq ho⟩

/-- The files a failed operation created or wrote before its rename are not named by the old version, and unlinking
any of them from the state the failure left keeps that state quiescent for the old version. -/
theorem c20_leftovers_after_failure (old new : Ver) (fs : Fs) (as : List Act) (j : Nat)
    (hinv : Inv old new fs) (hph : phaseOf old new fs = .before)
    (hacc : acceptsFrom old new fs (as.take j) = none) (hnr : ∀ a ∈ as.take j, a ≠ .rename) :
    ∀ i (hi : i < (as.take j).length) p,
      ((as.take j)[i] = .create p ∨ ∃ c, (as.take j)[i] = .append p c) →
      ¬ names old p ∧ Quiescent old (apply (runOutcomes fs (failAt as j)) (.unlink p)) :=
  leftovers_after_failure old new fs as j hinv hph hacc hnr

/-! ### non-vacuity -/

private def vOld : Ver := ⟨1, [((0, 1), [10]), ((1, 5), [50])]⟩
private def vNew : Ver := ⟨2, [((0, 2), [20]), ((1, 7), [30])]⟩
/-- a compaction-like install: table 5 is replaced by table 7, then `v1` and table 5 are reclaimed -/
private def compactSeq : List Act :=
  [.create (1, 7), .append (1, 7) 30, .fsyncFile (1, 7), .fsyncDir 1,
   .create (0, 2), .append (0, 2) 20, .fsyncFile (0, 2), .fsyncDir 0,
   .writeTmp 2, .fsyncTmp, .rename, .fsyncDir 0,
   .unlink (1, 5), .unlink (0, 1)]

example : vOld.wfB = true := by decide
example : acceptsFrom vOld vNew (Fs.ofVersion vOld) compactSeq = none := by decide
/-- all crash images of the final state recover to 2 although the files of 1 are gone -/
example : (crashOutcomes (run (Fs.ofVersion vOld) compactSeq)).map (recover · [vOld, vNew]) = [some 2] := by
  decide
/-- unlinking the old table before the install is durable (between rename and directory sync) is rejected, and a
crash image of that state recovers to neither version -/
example : acceptsFrom vOld vNew (Fs.ofVersion vOld)
    (compactSeq.take 11 ++ [.unlink (1, 5), .fsyncDir 0]) = some 11 := by decide
example : ∃ d ∈ crashOutcomes (run (Fs.ofVersion vOld) (compactSeq.take 11 ++ [.unlink (1, 5)])),
    recover d [vOld, vNew] = none := by decide
/-- unlinking a file the new version names is rejected in every phase -/
example : acceptsFrom vOld vNew (Fs.ofVersion vOld) (compactSeq ++ [.unlink (1, 7)]) = some 14 := by decide
/-- a leftover (table 9, written by an operation that failed) can be removed from a crash image: recovery unchanged -/
example : recover ⟨[((1, 9), [1, 2]), ((0, 1), [10]), ((1, 5), [50])], some 1⟩ [vOld, vNew] = some 1 ∧
    recover ((⟨[((1, 9), [1, 2]), ((0, 1), [10]), ((1, 5), [50])], some 1⟩ : Disk).remove (1, 9)) [vOld, vNew]
      = some 1 := by decide
/-- … whereas removing a named file breaks it (the hypothesis of `c20_cleanup_safe` is needed) -/
example : recover ((⟨[((1, 9), [1, 2]), ((0, 1), [10]), ((1, 5), [50])], some 1⟩ : Disk).remove (1, 5)) [vOld, vNew]
      = none := by decide

end Lsm
