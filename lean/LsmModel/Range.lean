import LsmModel.Basic
/-
  LsmModel.Range — `prefix_to_range` / `prefix_upper_range` (src/range.rs) on byte-string keys.
-/
namespace Lsm

abbrev ByteKey := List UInt8

/-- on the REVERSED prefix: bump the last byte below 255 and cut everything after it -/
def incLastRev : List UInt8 → Option (List UInt8)
  | [] => none
  | b :: rest => if b < 255 then some ((b + 1) :: rest) else incLastRev rest

/-- `prefix_upper_range` -/
def prefixUpper (p : ByteKey) : Bound ByteKey :=
  match incLastRev p.reverse with
  | some r => .excl r.reverse
  | none => .unb

/-- `prefix_to_range` -/
def prefixToRange (p : ByteKey) : Bound ByteKey × Bound ByteKey :=
  if p.isEmpty then (.unb, .unb) else (.incl p, prefixUpper p)

/-- `starts_with` -/
def startsWith : ByteKey → ByteKey → Bool
  | _, [] => true
  | [], _ :: _ => false
  | k :: ks, p :: ps => k == p && startsWith ks ps

end Lsm
