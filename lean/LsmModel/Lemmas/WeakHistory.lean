import LsmModel.Lemmas.ContentLemmas2
/-
  LsmModel.Lemmas.WeakHistory — C13 at HISTORY level, part 1: the STRUCTURAL layer.

  MODELLING NOTES. No new model code: the state machine is `LsmModel.Tree.Ops` (`TreeState.applyOp`, transcribing
  src/tree/mod.rs, src/abstract_tree.rs, src/compaction/worker.rs) and the GC stream is `LsmModel.Stream.Compaction`
  (`cstream`, src/compaction/stream.rs AFTER the F5 repair: a weak tombstone is paired only with `ValueType::Value`
  below the watermark, `drain_key` stops in front of a weak tombstone when tombstones are not evicted).

  C01's invariant `Good` (ContentLemmas2) demands "no weak tombstone anywhere", which makes it useless for C13.
  This file splits the C01 argument in two:
    * `Str th t` — the part of `Good` that does not care about value types (WF, RUN/META/SORT, seqnos below the
                 counter, per key strictly descending seqnos along the read order, snapshot resolution), for a tree
                 with separation threshold `th` (`t.blobTh = th`; `Good` is the case `th = none`), and
    * `KeyStep th k l l'` — the SHAPE of what a maintenance operation does to the version list of one key as the reader
                 of the latest super version meets it (`curHist t k`): `l = A ++ mid ++ B`,
                 `l' = A ++ (GC(mid)).map (separate th) ++ B`, where `mid` is the part inside the flush / compaction
                 input (contiguous by admissibility), `B = []` if tombstones are evicted and `mid ≠ []`, and
                 `separate th` is the key-value separation a FLUSH applies to what it writes (src/blob_tree/mod.rs
                 `flush_to_tables`; the model's `mergeCommit` does not separate: `KeyStep none`).
  `maint_step` : every operation of the alphabet other than `write` keeps `Str` and acts as a `KeyStep` on every key;
  `write_str`  : a write batch keeps `Str` and pushes its entry of `k` (if any) on top of `curHist t k`.
  Neither statement mentions value types. The value-type dependent per-key reasoning is in `WeakHistory2`.
  The proofs are adaptations of `rotate_good` … `moveCommit_good` of ContentLemmas2.
-/
namespace Lsm
set_option linter.unusedSectionVars false
set_option linter.unusedVariables false
variable {K : Type} [LT K] [DecidableLT K] [DecidableEq K] [LE K] [Std.IsLinearOrder K] [Std.LawfulOrderLT K]
variable {th : Option Nat}

/-! ## the structural invariant -/

/-- `GoodSv` without the clause "no weak tombstone" -/
structure StrSv (t : TreeState K) (sv : SuperVersion K) : Prop where
  vwf : sv.version.WF
  lvl : sv.version.levels.length = t.levelCount
  act : ∀ id ∈ sv.active :: sv.sealed, ∃ m ∈ t.mems, m.id = id
  nin : sv.active ∉ sv.sealed
  below : ∀ k, ∀ e ∈ keyHist t sv k, e.seqno < t.seqCtr
  ord : ∀ k, Desc (keyHist t sv k)

/-- `Good` without the clause "no weak tombstone" -/
structure Str (th : Option Nat) (t : TreeState K) : Prop where
  wf : t.WF
  blob : t.blobTh = th
  sv : ∃ sv, t.latest? = some sv ∧ StrSv t sv ∧ (sv.seqno < t.seqCtr ∨ (t.seqCtr = 0 ∧ t.hist = [sv]))

/-- the version list of `k` a reader of the latest super version meets, newest first (read order) -/
def curHist (t : TreeState K) (k : K) : List (Entry K) :=
  match t.latest? with
  | some sv => keyHist t sv k
  | none => []

theorem curHist_of {t : TreeState K} {sv : SuperVersion K} (h : t.latest? = some sv) (k : K) :
    curHist t k = keyHist t sv k := by
  simp only [curHist, h]

theorem readOf_eq_curHist (t : TreeState K) (k : K) : readOf t k = live (curHist t k).head? := by
  unfold readOf curHist
  cases t.latest? <;> rfl

/-- what one maintenance step does to one key's version list: the contiguous part `mid` is run through the GC stream -/
def KeyStep (th : Option Nat) (k : K) (l l' : List (Entry K)) : Prop :=
  ∃ (wm : Nat) (ev : Bool) (A mid B : List (Entry K)), SingleKey k mid ∧ (ev = true → mid ≠ [] → B = []) ∧
    l = A ++ mid ++ B ∧ l' = A ++ (cstream wm ev noFilter mid).1.map (separate th) ++ B

theorem KeyStep.refl (th : Option Nat) (k : K) (l : List (Entry K)) : KeyStep th k l l :=
  ⟨0, false, l, [], [], (fun _ h => nomatch h), (fun h => nomatch h), by simp, by simp [cstream_nil]⟩

theorem separate_seqno (th : Option Nat) (e : Entry K) : (separate th e).seqno = e.seqno := by
  unfold separate
  cases th with
  | none => rfl
  | some n => simp only; split <;> rfl

theorem separate_key (th : Option Nat) (e : Entry K) : (separate th e).key = e.key := by
  unfold separate
  cases th with
  | none => rfl
  | some n => simp only; split <;> rfl

theorem keyOf_map_separate (th : Option Nat) (k : K) (l : List (Entry K)) :
    keyOf k (l.map (separate th)) = (keyOf k l).map (separate th) := by
  induction l with
  | nil => rfl
  | cons a l ih =>
    rw [List.map_cons, keyOf_cons, keyOf_cons, separate_key, ih]
    split <;> rfl

theorem isSource_map_separate (th : Option Nat) {l : List (Entry K)} (h : IsSource l) :
    IsSource (l.map (separate th)) := by
  unfold IsSource at *
  rw [List.pairwise_map]
  refine h.imp ?_
  intro a b hab
  simpa only [ikLt, separate_key, separate_seqno] using hab

theorem KeyStep.seqnos {k : K} {l l' : List (Entry K)} (h : KeyStep th k l l') :
    (l'.map (·.seqno)).Sublist (l.map (·.seqno)) := by
  obtain ⟨wm, ev, A, mid, B, _, _, rfl, rfl⟩ := h
  have hc : (fun (e : Entry K) => e.seqno) ∘ separate th = fun (e : Entry K) => e.seqno := by
    funext e; exact separate_seqno th e
  simp only [List.map_append, List.map_map, hc]
  exact ((List.Sublist.refl _).append ((cstream_sub wm ev _).map _)).append (List.Sublist.refl _)

theorem StrSv.transfer {t t' : TreeState K} {sv sv' : SuperVersion K} (h : StrSv t sv)
    (hk : ∀ k, keyHist t' sv' k = keyHist t sv k) (hv : sv'.version = sv.version)
    (hl : t'.levelCount = t.levelCount) (hc : t.seqCtr ≤ t'.seqCtr)
    (hact : ∀ id ∈ sv'.active :: sv'.sealed, ∃ m ∈ t'.mems, m.id = id) (hnin : sv'.active ∉ sv'.sealed) :
    StrSv t' sv' where
  vwf := hv ▸ h.vwf
  lvl := by rw [hv, hl]; exact h.lvl
  act := hact
  nin := hnin
  below := fun k e he => Nat.lt_of_lt_of_le (h.below k e (hk k ▸ he)) hc
  ord := fun k => hk k ▸ h.ord k

theorem StrSv.of_seqnos {t : TreeState K} {sv sv' : SuperVersion K} (h : StrSv t sv)
    (hsub : ∀ k, ((keyHist t sv' k).map (·.seqno)).Sublist ((keyHist t sv k).map (·.seqno))) (hv : sv'.version.WF)
    (hl : sv'.version.levels.length = t.levelCount)
    (hact : ∀ id ∈ sv'.active :: sv'.sealed, ∃ m ∈ t.mems, m.id = id) (hnin : sv'.active ∉ sv'.sealed) :
    StrSv t sv' where
  vwf := hv
  lvl := hl
  act := hact
  nin := hnin
  below := fun k e he => by
    have : e.seqno ∈ (keyHist t sv k).map (·.seqno) := (hsub k).subset (List.mem_map.2 ⟨e, he, rfl⟩)
    obtain ⟨e', he', hs⟩ := List.mem_map.1 this
    rw [← hs]; exact h.below k e' he'
  ord := fun k => by
    have h1 := h.ord k
    unfold Desc at h1 ⊢
    have h2 : ((keyHist t sv k).map (·.seqno)).Pairwise (fun a b => b < a) := List.pairwise_map.2 h1
    exact List.pairwise_map.1 (h2.sublist (hsub k))

/-- installing a `StrSv` super version gives a `Str` state whose key histories are those of the installed version -/
theorem install_str {t : TreeState K} (hwf : t.WF) (hb : t.blobTh = th) (sv : SuperVersion K) (wm : Nat)
    (h : StrSv t sv) :
    Str th (t.install sv wm) ∧ ∀ k, curHist (t.install sv wm) k = keyHist t sv k := by
  have hl := latest_install t sv wm
  refine ⟨⟨install_WF hwf sv wm, hb, _, hl, ?_, Or.inl ?_⟩, ?_⟩
  · apply h.transfer (install_keyHist t sv wm) rfl rfl
    · rw [install_seqCtr]; omega
    · intro id hid
      obtain ⟨m, hm, hmid⟩ := h.act id hid
      refine ⟨m, ?_, hmid⟩
      rw [install_mems, List.mem_filter]
      refine ⟨hm, ?_⟩
      rw [List.contains_iff_mem, List.mem_flatMap]
      exact ⟨_, latest_mem_hist hl, by rw [hmid]; exact hid⟩
    · exact h.nin
  · rw [install_seqCtr]; exact Nat.lt_succ_self _
  · intro k
    rw [curHist_of hl, install_keyHist]

/-! ## rotate -/

theorem rotate_str {t : TreeState K} (h : Str th t) (n : Nat) (hf : t.freshMem n = true) :
    Str th (t.rotate n) ∧ ∀ k, curHist (t.rotate n) k = curHist t k := by
  rcases rotate_cases t n with he | ⟨r, sv, hr, he⟩
  · rw [he]; exact ⟨h, fun _ => rfl⟩
  · obtain ⟨sv0, hl0, hg, hseq⟩ := h.sv
    have hl : t.latest? = some sv := by simp [TreeState.latest?, hr]
    have : sv0 = sv := Option.some.inj (hl0.symm.trans hl)
    subst this
    let sv' : SuperVersion K := { sv0 with active := n, sealed := sv0.sealed ++ [sv0.active] }
    have hl' : (t.rotate n).latest? = some sv' := by rw [he]; simp [TreeState.latest?, sv']
    have hmem : ∀ id, (t.rotate n).mem id = t.mem id := by
      intro id; rw [he]; exact memOf_append_empty t.mems n id
    have hk : ∀ k, keyHist (t.rotate n) sv' k = keyHist t sv0 k := by
      intro k
      rw [keyHist_eq, keyHist_eq, memHist, memHist]
      simp only [sv', hmem, mem_fresh t n hf, keyOf_nil, List.nil_append, List.reverse_append,
        List.reverse_cons, List.reverse_nil, List.flatMap_append, List.flatMap_cons, List.flatMap_nil,
        List.append_nil]
    refine ⟨⟨rotate_WF h.wf n hf, by rw [he]; exact h.blob, sv', hl', ?_, ?_⟩, ?_⟩
    · apply hg.transfer hk rfl (by rw [he]) (by rw [he]; exact Nat.le_refl _)
      · intro id hid
        rw [he]
        simp only [sv', List.mem_cons, List.mem_append, List.not_mem_nil, or_false] at hid
        rcases hid with rfl | hid
        · exact ⟨_, List.mem_append_right _ List.mem_cons_self, rfl⟩
        · obtain ⟨m, hm, hmid⟩ := hg.act id (by
            rcases hid with hid | rfl
            · exact List.mem_cons_of_mem _ hid
            · exact List.mem_cons_self)
          exact ⟨m, List.mem_append_left _ hm, hmid⟩
      · intro hn
        simp only [sv', List.mem_append, List.mem_cons, List.not_mem_nil, or_false] at hn
        obtain ⟨m, hm, hmid⟩ := hg.act n (by
          rcases hn with hn | hn
          · exact List.mem_cons_of_mem _ hn
          · rw [hn]; exact List.mem_cons_self)
        exact (freshMem_iff t n).1 hf m hm hmid
    · rw [he]
      rcases hseq with h1 | ⟨h1, h2⟩
      · exact Or.inl h1
      · right
        refine ⟨h1, ?_⟩
        rw [hr] at h2
        have : r = [] := by
          cases r with
          | nil => rfl
          | cons a r => simp at h2
        simp [this, sv']
    · intro k
      rw [curHist_of hl', curHist_of hl0, hk]

/-! ## write -/

theorem write_str {t t' : TreeState K} (h : Str th t) {es : List (Entry K)} (hw : t.write es = some t')
    (hnd : (es.map (·.key)).Nodup) :
    Str th t' ∧ ∀ k, curHist t' k = keyOf k es ++ curHist t k := by
  obtain ⟨sv, hl, hg, hseq⟩ := h.sv
  have hwf' := write_WF h.wf hw
  unfold TreeState.write at hw
  rw [hl] at hw
  simp only at hw
  split at hw
  · next hall =>
    cases hw
    have hseqno : ∀ e ∈ es, e.seqno = t.seqCtr := by simpa using hall
    generalize ht' : ({ t with
        mems := t.mems.map (fun m => if m.id == sv.active then
          { m with entries := es.foldl (fun acc e => memInsert e acc) m.entries } else m),
        seqCtr := t.seqCtr + 1, visible := max t.visible (t.seqCtr + 1) } : TreeState K) = t' at hwf'
    have hmem_ne : ∀ id, id ≠ sv.active → t'.mem id = t.mem id := by
      intro id hne; subst ht'
      exact memOf_map_ne sv.active (fun l => es.foldl (fun acc e => memInsert e acc) l) t.mems id hne
    have hmem_eq : t'.mem sv.active = es.foldl (fun acc e => memInsert e acc) (t.mem sv.active) := by
      subst ht'
      exact memOf_map_eq sv.active (fun l => es.foldl (fun acc e => memInsert e acc) l) t.mems
        (hg.act _ List.mem_cons_self)
    have hl' : t'.latest? = some sv := by subst ht'; exact hl
    have hk : ∀ k, keyHist t' sv k = keyOf k es ++ keyHist t sv k := by
      intro k
      rw [keyHist_eq, keyHist_eq, memHist, memHist, hmem_eq, keyOf_foldl_memInsert k es _ hnd]
      · rw [List.append_assoc, List.append_assoc, List.append_assoc]
        congr 3
        apply flatMap_congr'
        intro id hid
        rw [hmem_ne]
        intro he
        exact hg.nin (he ▸ List.mem_reverse.1 hid)
      · intro e he x hx hxk
        rw [hseqno e he]
        apply hg.below x.key x
        rw [keyHist_eq, List.mem_append, mem_memHist]
        exact Or.inl ⟨rfl, Or.inl hx⟩
    have hes : ∀ k, ∀ e ∈ keyOf k es, e.seqno = t.seqCtr := by
      intro k e he
      exact hseqno e (mem_keyOf.1 he).1
    have hctr : t'.seqCtr = t.seqCtr + 1 := by subst ht'; rfl
    refine ⟨⟨hwf', by subst ht'; exact h.blob, sv, hl', ?_, ?_⟩, ?_⟩
    · refine ⟨hg.vwf, by subst ht'; exact hg.lvl, ?_, hg.nin, ?_, ?_⟩
      · intro id hid
        obtain ⟨m, hm, hmid⟩ := hg.act id hid
        subst ht'
        refine ⟨_, List.mem_map.2 ⟨m, hm, rfl⟩, ?_⟩
        split <;> exact hmid
      · intro k e he
        rw [hk, List.mem_append] at he
        rw [hctr]
        rcases he with he | he
        · have := hes k e he; omega
        · have := hg.below k e he; omega
      · intro k
        rw [hk, Desc, List.pairwise_append]
        refine ⟨?_, hg.ord k, ?_⟩
        · have hlen := keyOf_length_le_one k es hnd
          match hm : keyOf k es, hlen with
          | [], _ => exact List.Pairwise.nil
          | [a], _ => exact List.pairwise_singleton _ _
        · intro a ha b hb
          have := hes k a ha
          have := hg.below k b hb
          omega
    · rw [hctr]
      rcases hseq with h1 | ⟨h1, h2⟩
      · left; omega
      · left; have := h.wf.below sv (latest_mem_hist hl); omega
    · intro k
      rw [curHist_of hl', curHist_of hl, hk]
  · cases hw

/-! ## reopen -/

theorem reopen_str {t t' : TreeState K} (h : Str th t) (hr : t.reopen = some t')
    (hempty : ∀ sv, t.latest? = some sv → ∀ id ∈ sv.active :: sv.sealed, t.mem id = []) :
    Str th t' ∧ ∀ k, curHist t' k = curHist t k := by
  obtain ⟨sv, hl, hg, hseq⟩ := h.sv
  have hwf' := reopen_WF hr h.wf
  simp only [TreeState.reopen, hl, Option.map_some, Option.some.injEq] at hr
  let sv' : SuperVersion K := { active := 0, sealed := [], version := sv.version, seqno := 0 }
  have hl' : t'.latest? = some sv' := by subst hr; rfl
  have hmem0 : t'.mem 0 = [] := by subst hr; rfl
  have hk : ∀ k, keyHist t' sv' k = keyHist t sv k := by
    intro k
    rw [keyHist_eq, keyHist_eq, memHist, memHist]
    have h1 : keyOf k (t.mem sv.active) = [] := by rw [hempty sv hl _ List.mem_cons_self]; rfl
    have h2 : sv.sealed.reverse.flatMap (fun id => keyOf k (t.mem id)) = [] := by
      rw [List.flatMap_eq_nil_iff]
      intro id hid
      rw [hempty sv hl id (List.mem_cons_of_mem _ (List.mem_reverse.1 hid))]; rfl
    rw [h1, h2]
    simp [sv', hmem0, keyOf_nil]
  refine ⟨⟨hwf', by subst hr; exact h.blob, sv', hl', ?_, ?_⟩, ?_⟩
  · apply hg.transfer hk rfl (by subst hr; rfl) (by subst hr; exact Nat.le_refl _)
    · intro id hid
      simp only [sv', List.mem_cons, List.not_mem_nil, or_false] at hid
      subst hr; subst hid
      exact ⟨_, List.mem_cons_self, rfl⟩
    · simp [sv']
  · by_cases hc : t'.seqCtr = 0
    · right; subst hr; exact ⟨hc, rfl⟩
    · left; show 0 < t'.seqCtr; omega
  · intro k
    rw [curHist_of hl', curHist_of hl, hk]

/-! ## flush -/

theorem sealed_desc' {t : TreeState K} {sv : SuperVersion K} (hg : StrSv t sv) (k : K) :
    Desc (sv.sealed.reverse.flatMap (fun id => keyOf k (t.mem id))) := by
  have h := hg.ord k
  rw [keyHist_eq, memHist, Desc, List.pairwise_append] at h
  exact (List.pairwise_append.1 h.1).2.1

theorem flushSealed_str {t t' : TreeState K} (h : Str th t) {wm : Nat} {cuts : List (Nat × Nat)}
    (hf : t.flushSealed wm cuts = some t') (hlc : 0 < t.levelCount)
    (hok : ∀ sv, t.latest? = some sv → cutsOk cuts ((t.flushStream sv wm).1.map (separate th)) sv.version) :
    Str th t' ∧ ∀ k, KeyStep th k (curHist t k) (curHist t' k) := by
  obtain ⟨sv, hl, hg, hseq⟩ := h.sv
  unfold TreeState.flushSealed at hf
  rw [hl] at hf
  simp only at hf
  split at hf
  · split at hf
    · cases hf; exact ⟨h, fun k => KeyStep.refl th k _⟩
    · cases hf
  · simp only [if_true, h.blob] at hf
    split at hf
    · cases hf
    · next tables hcut =>
      cases hf
      obtain ⟨hsrcM, hkM⟩ := mems_merge h.wf sv.sealed (sealed_desc' hg)
      have hstream : IsSource (t.flushStream sv wm).1 := cstream_sorted wm false _ hsrcM
      have hnt := newTables_of_cut (v := sv.version) (isSource_map_separate th hstream) hcut (hok sv hl)
      have h0 : 0 < sv.version.levels.length := by rw [hg.lvl]; exact hlc
      let sv' : SuperVersion K := { sv with version := sv.version.withNewL0Run tables, sealed := [] }
      have hmid : ∀ k, SingleKey k (sv.sealed.reverse.flatMap (fun id => keyOf k (t.mem id))) := by
        intro k e he
        obtain ⟨id, _, he⟩ := List.mem_flatMap.1 he
        exact (mem_keyOf.1 he).2
      have hold : ∀ k, keyHist t sv k = keyOf k (t.mem sv.active)
          ++ sv.sealed.reverse.flatMap (fun id => keyOf k (t.mem id)) ++ tabHist sv.version k := by
        intro k; rw [keyHist_eq, memHist]
      have hnew : ∀ k, keyHist t sv' k = keyOf k (t.mem sv.active)
          ++ (cstream wm false noFilter (sv.sealed.reverse.flatMap (fun id => keyOf k (t.mem id)))).1.map (separate th)
          ++ tabHist sv.version k := by
        intro k
        have hv' : (sv.version.withNewL0Run tables).WF :=
          withNewL0Run_WF hg.vwf tables hnt.sorted hnt.ids hnt.fresh hnt.meta_ok hnt.src
        rw [keyHist_eq, memHist]
        simp only [sv', List.reverse_nil, List.flatMap_nil, List.append_nil]
        rw [tabHist_eq_keyTables hv', withNewL0Run_keyTables hg.vwf tables h0 hnt.sorted hnt.ids hnt.fresh,
          List.flatMap_append, hnt.keyOf_filter, keyOf_map_separate, ← tabHist_eq_keyTables hg.vwf, TreeState.flushStream,
          (cstream_key_indep wm false noFilter k _ hsrcM.keysSorted).1, hkM, List.append_assoc]
      have hstep : ∀ k, KeyStep th k (keyHist t sv k) (keyHist t sv' k) := fun k =>
        ⟨wm, false, _, _, _, hmid k, (fun hc => nomatch hc), hold k, hnew k⟩
      have hg' : StrSv t sv' := by
        apply hg.of_seqnos (fun k => (hstep k).seqnos)
        · exact withNewL0Run_WF hg.vwf tables hnt.sorted hnt.ids hnt.fresh hnt.meta_ok hnt.src
        · simp only [sv']; rw [withNewL0Run_length]; exact hg.lvl
        · intro id hid
          simp only [sv', List.mem_cons, List.not_mem_nil, or_false] at hid
          exact hg.act id (hid ▸ List.mem_cons_self)
        · simp [sv']
      obtain ⟨hgood, hread⟩ := install_str h.wf h.blob sv' wm hg'
      refine ⟨hgood, fun k => ?_⟩
      rw [hread k, curHist_of hl]
      exact hstep k

/-! ## the commit of a concurrent flush -/

theorem flushCommit_str {t t' : TreeState K} (h : Str th t) {ids : List Nat} {wm : Nat} {cuts : List (Nat × Nat)}
    (hf : t.flushCommit ids wm cuts = some t') (hlc : 0 < t.levelCount)
    (hok : ∀ sv, t.latest? = some sv → ids.all (fun i => sv.sealed.contains i) = false ∨
      (ids <+: sv.sealed ∧
        cutsOk cuts ((cstream wm false noFilter (mergeAll (ids.map t.mem))).1.map (separate th)) sv.version)) :
    Str th t' ∧ ∀ k, KeyStep th k (curHist t k) (curHist t' k) := by
  obtain ⟨sv, hl, hg, hseq⟩ := h.sv
  unfold TreeState.flushCommit at hf
  rw [hl] at hf
  simp only at hf
  split at hf
  · cases hf
  · split at hf
    · cases hf; exact ⟨h, fun k => KeyStep.refl th k _⟩
    · next hall =>
      rcases hok sv hl with hno | ⟨⟨rest, hrest⟩, hcuts⟩
      · rw [hno] at hall; exact absurd rfl hall
      · simp only [h.blob] at hf
        split at hf
        · cases hf
        · next tables hcut =>
          cases hf
          have hsd : ∀ k, Desc (rest.reverse.flatMap (fun id => keyOf k (t.mem id))
              ++ ids.reverse.flatMap (fun id => keyOf k (t.mem id))) := by
            intro k
            have := sealed_desc' hg k
            rw [← hrest, List.reverse_append, List.flatMap_append] at this
            exact this
          have hidsDesc : ∀ k, Desc (ids.reverse.flatMap (fun id => keyOf k (t.mem id))) :=
            fun k => (List.pairwise_append.1 (hsd k)).2.1
          have hdup : ∀ id ∈ rest, id ∈ ids → ∀ k, keyOf k (t.mem id) = [] := by
            intro id hr hi k
            rw [List.eq_nil_iff_forall_not_mem]
            intro e he
            have := (List.pairwise_append.1 (hsd k)).2.2 e
              (List.mem_flatMap.2 ⟨id, List.mem_reverse.2 hr, he⟩) e
              (List.mem_flatMap.2 ⟨id, List.mem_reverse.2 hi, he⟩)
            omega
          have hfil : sv.sealed.filter (fun i => !ids.contains i) = rest.filter (fun i => !ids.contains i) := by
            rw [← hrest, List.filter_append]
            have : ids.filter (fun i => !ids.contains i) = [] := by
              rw [List.filter_eq_nil_iff]
              intro a ha
              simp [ha]
            rw [this, List.nil_append]
          have hnewSealed : ∀ k, (sv.sealed.filter (fun i => !ids.contains i)).reverse.flatMap
              (fun id => keyOf k (t.mem id)) = rest.reverse.flatMap (fun id => keyOf k (t.mem id)) := by
            intro k
            rw [hfil, ← List.filter_reverse]
            apply flatMap_filter_of_nil
            intro id hid hp
            have hi : id ∈ ids := by simpa using hp
            exact hdup id (List.mem_reverse.1 hid) hi k
          obtain ⟨hsrcM, hkM⟩ := mems_merge h.wf ids hidsDesc
          have hstream : IsSource (cstream wm false noFilter (mergeAll (ids.map t.mem))).1 :=
            cstream_sorted wm false _ hsrcM
          have hnt := newTables_of_cut (v := sv.version) (isSource_map_separate th hstream) hcut hcuts
          have h0 : 0 < sv.version.levels.length := by rw [hg.lvl]; exact hlc
          let sv' : SuperVersion K := { sv with version := sv.version.withNewL0Run tables,
                                                sealed := sv.sealed.filter (fun i => !ids.contains i) }
          have hmid : ∀ k, SingleKey k (ids.reverse.flatMap (fun id => keyOf k (t.mem id))) := by
            intro k e he
            obtain ⟨id, _, he⟩ := List.mem_flatMap.1 he
            exact (mem_keyOf.1 he).2
          have hold : ∀ k, keyHist t sv k = (keyOf k (t.mem sv.active)
              ++ rest.reverse.flatMap (fun id => keyOf k (t.mem id)))
              ++ ids.reverse.flatMap (fun id => keyOf k (t.mem id)) ++ tabHist sv.version k := by
            intro k
            rw [keyHist_eq, memHist, ← hrest, List.reverse_append, List.flatMap_append]
            simp only [List.append_assoc]
          have hv' : (sv.version.withNewL0Run tables).WF :=
            withNewL0Run_WF hg.vwf tables hnt.sorted hnt.ids hnt.fresh hnt.meta_ok hnt.src
          have hnew : ∀ k, keyHist t sv' k = (keyOf k (t.mem sv.active)
              ++ rest.reverse.flatMap (fun id => keyOf k (t.mem id)))
              ++ (cstream wm false noFilter (ids.reverse.flatMap (fun id => keyOf k (t.mem id)))).1.map (separate th)
              ++ tabHist sv.version k := by
            intro k
            rw [keyHist_eq, memHist]
            simp only [sv']
            rw [hnewSealed k, tabHist_eq_keyTables hv',
              withNewL0Run_keyTables hg.vwf tables h0 hnt.sorted hnt.ids hnt.fresh,
              List.flatMap_append, hnt.keyOf_filter, keyOf_map_separate, ← tabHist_eq_keyTables hg.vwf,
              (cstream_key_indep wm false noFilter k _ hsrcM.keysSorted).1, hkM]
            simp only [List.append_assoc]
          have hstep : ∀ k, KeyStep th k (keyHist t sv k) (keyHist t sv' k) := fun k =>
            ⟨wm, false, _, _, _, hmid k, (fun hc => nomatch hc), hold k, hnew k⟩
          have hg' : StrSv t sv' := by
            apply hg.of_seqnos (fun k => (hstep k).seqnos) hv'
            · simp only [sv']; rw [withNewL0Run_length]; exact hg.lvl
            · intro id hid
              simp only [sv', List.mem_cons, List.mem_filter] at hid
              rcases hid with rfl | ⟨hid, _⟩
              · exact hg.act _ List.mem_cons_self
              · exact hg.act id (List.mem_cons_of_mem _ hid)
            · intro hmem
              exact hg.nin (List.mem_filter.1 hmem).1
          obtain ⟨hgood, hread⟩ := install_str h.wf h.blob sv' wm hg'
          refine ⟨hgood, fun k => ?_⟩
          rw [hread k, curHist_of hl]
          exact hstep k

/-! ## merge and move -/

theorem mergeCommit_str {t t' : TreeState K} (h : Str th t) {ids : List Nat} {dest wm : Nat}
    {f : Entry K → Verdict} {cuts : List (Nat × Nat)} (hm : t.mergeCommit ids dest wm f cuts = some t')
    (hok : ∀ sv, t.latest? = some sv →
      dest < t.levelCount ∧ admissible sv.version ids dest (dest + 1 == t.levelCount) = true ∧
      (∀ e ∈ mergeInputs sv.version ids, e.isTomb = false → f e = .keep) ∧
      cutsOk cuts (cstream wm (dest + 1 == t.levelCount) noFilter (mergeInputs sv.version ids)).1 sv.version) :
    Str th t' ∧ ∀ k, KeyStep none k (curHist t k) (curHist t' k) := by
  obtain ⟨sv, hl, hg, hseq⟩ := h.sv
  obtain ⟨hdest, hadm, hfil, hcuts⟩ := hok sv hl
  unfold TreeState.mergeCommit at hm
  rw [hl] at hm
  simp only at hm
  rw [filter_never_sees_tombstone wm _ f noFilter _ hfil] at hm
  generalize hev : (dest + 1 == t.levelCount) = ev at hm hadm hcuts
  split at hm
  · cases hm
  · next tables hcut =>
    cases hm
    have hsplit := admissible_split sv.version ids dest ev hadm
    have hdescMid : ∀ k, Desc ((sv.version.tables.filter (fun t => ids.contains t.id)).flatMap
        (fun t => keyOf k t.entries)) := by
      intro k
      have h1 := hg.ord k
      rw [keyHist_eq, Desc, List.pairwise_append] at h1
      have h2 := h1.2.1
      rw [tabHist, hsplit k, List.pairwise_append, List.pairwise_append] at h2
      exact h2.1.2.1
    obtain ⟨hsrcM, hkM⟩ := mergeInputs_spec hg.vwf ids hdescMid
    have hstream : IsSource (cstream wm ev noFilter (mergeInputs sv.version ids)).1 :=
      cstream_sorted wm ev _ hsrcM
    have hnt := newTables_of_cut (v := sv.version) hstream hcut hcuts
    have hdest' : dest < sv.version.levels.length := by rw [hg.lvl]; exact hdest
    let sv' : SuperVersion K := { sv with version := sv.version.withMerge ids tables dest }
    have hmid : ∀ k, SingleKey k ((sv.version.tables.filter (fun t => ids.contains t.id)).flatMap
        (fun t => keyOf k t.entries)) := by
      intro k e he
      obtain ⟨tb, _, he⟩ := List.mem_flatMap.1 he
      exact (mem_keyOf.1 he).2
    have hold : ∀ k, keyHist t sv k = (memHist t sv k
        ++ ((sv.version.tablesAbove dest).filter (fun t => !ids.contains t.id)).flatMap (fun t => keyOf k t.entries))
        ++ (sv.version.tables.filter (fun t => ids.contains t.id)).flatMap (fun t => keyOf k t.entries)
        ++ ((sv.version.tablesFrom dest).filter (fun t => !ids.contains t.id)).flatMap
            (fun t => keyOf k t.entries) := by
      intro k; rw [keyHist_eq, tabHist, hsplit k]; simp only [List.append_assoc]
    have hnew : ∀ k, keyHist t sv' k = (memHist t sv k
        ++ ((sv.version.tablesAbove dest).filter (fun t => !ids.contains t.id)).flatMap (fun t => keyOf k t.entries))
        ++ (cstream wm ev noFilter ((sv.version.tables.filter (fun t => ids.contains t.id)).flatMap
              (fun t => keyOf k t.entries))).1
        ++ ((sv.version.tablesFrom dest).filter (fun t => !ids.contains t.id)).flatMap
            (fun t => keyOf k t.entries) := by
      intro k
      rw [keyHist_eq]
      have : memHist t sv' k = memHist t sv k := rfl
      rw [this]
      simp only [sv']
      rw [tabHist_withMerge hg.vwf ids dest hdest' hnt k,
        (cstream_key_indep wm ev noFilter k _ hsrcM.keysSorted).1, hkM]
      simp only [List.append_assoc]
    have hstep : ∀ k, KeyStep none k (keyHist t sv k) (keyHist t sv' k) := fun k =>
      ⟨wm, ev, _, _, _, hmid k, (fun hc hne => by
        subst hc; exact admissible_evict_tail sv.version ids dest hadm k hne), hold k,
        by rw [map_separate_none]; exact hnew k⟩
    have hg' : StrSv t sv' := by
      apply hg.of_seqnos (fun k => (hstep k).seqnos)
      · exact withMerge_WF hg.vwf ids tables dest hnt.sorted hnt.ids hnt.fresh hnt.meta_ok hnt.src
      · simp only [sv']; rw [withMerge_length]; exact hg.lvl
      · exact hg.act
      · exact hg.nin
    obtain ⟨hgood, hread⟩ := install_str h.wf h.blob sv' wm hg'
    refine ⟨hgood, fun k => ?_⟩
    rw [hread k, curHist_of hl]
    exact hstep k

theorem moveCommit_str {t t' : TreeState K} (h : Str th t) {ids : List Nat} {dest wm : Nat}
    (hm : t.moveCommit ids dest wm = some t')
    (hok : ∀ sv, t.latest? = some sv →
      dest < t.levelCount ∧ admissible sv.version ids dest false = true) :
    Str th t' ∧ ∀ k, curHist t' k = curHist t k := by
  obtain ⟨sv, hl, hg, hseq⟩ := h.sv
  obtain ⟨hdest, hadm⟩ := hok sv hl
  simp only [TreeState.moveCommit, hl, Option.map_some, Option.some.injEq] at hm
  subst hm
  have hdest' : dest < sv.version.levels.length := by rw [hg.lvl]; exact hdest
  let sv' : SuperVersion K := { sv with version := sv.version.withMoved ids dest }
  have hk : ∀ k, keyHist t sv' k = keyHist t sv k := by
    intro k
    rw [keyHist_eq, keyHist_eq]
    have : memHist t sv' k = memHist t sv k := rfl
    rw [this]
    simp only [sv']
    rw [tabHist_withMoved hg.vwf ids dest hdest' k, tabHist, admissible_split sv.version ids dest false hadm k]
  have hg' : StrSv t sv' := by
    apply hg.of_seqnos (fun k => by rw [hk k]; exact List.Sublist.refl _)
    · exact withMoved_WF hg.vwf ids dest
    · simp only [sv']; rw [withMoved_length]; exact hg.lvl
    · exact hg.act
    · exact hg.nin
  obtain ⟨hgood, hread⟩ := install_str h.wf h.blob sv' wm hg'
  refine ⟨hgood, fun k => ?_⟩
  rw [hread k, curHist_of hl, hk]

/-! ## initial state and the read path -/

theorem str_init (n : Nat) (th : Option Nat) : Str th (TreeState.init n th : TreeState K) := by
  let sv : SuperVersion K := { active := 0, sealed := [], version := Version.empty 0 n, seqno := 0 }
  have hk : ∀ k, keyHist (TreeState.init n th : TreeState K) sv k = [] := by
    intro k
    rw [keyHist_eq, memHist, tabHist]
    have : (TreeState.init n th : TreeState K).mem 0 = [] := rfl
    simp only [sv, this, version_empty_tables]
    rfl
  refine ⟨WF_init n th, rfl, sv, rfl, ?_, Or.inr ⟨rfl, rfl⟩⟩
  refine ⟨version_empty_WF 0 n, ?_, ?_, ?_, ?_, ?_⟩
  · simp [sv, Version.empty, TreeState.init]
  · intro id hid
    simp only [sv, List.mem_cons, List.not_mem_nil, or_false] at hid
    subst hid
    exact ⟨_, List.mem_cons_self, rfl⟩
  · simp [sv]
  · intro k e he; rw [hk] at he; cases he
  · intro k; rw [hk]; exact List.Pairwise.nil

theorem curHist_init (n : Nat) (th : Option Nat) (k : K) : curHist (TreeState.init n th : TreeState K) k = [] := by
  simp only [curHist, TreeState.init, TreeState.latest?, List.getLast?_singleton]
  rw [keyHist_eq, memHist, tabHist]
  simp only [version_empty_tables]
  rfl

/-- in a `Str` state every snapshot at or above the counter reads the live head of the key's version list -/
theorem str_getAt {t : TreeState K} (h : Str th t) (k : K) (S : Nat) (hS : t.seqCtr ≤ S) :
    t.getAt k S = some (live (curHist t k).head?) := by
  obtain ⟨sv, hl, hg, hseq⟩ := h.sv
  have hres : getVersionForSnapshot t.hist S = some sv := by
    unfold getVersionForSnapshot
    split
    · next h0 =>
      rcases hseq with h1 | ⟨h1, h2⟩
      · omega
      · rw [h2]; rfl
    · next h0 =>
      obtain ⟨r, hr⟩ := List.getLast?_eq_some_iff.1 hl
      have hlt : sv.seqno < S := by
        rcases hseq with h1 | ⟨h1, h2⟩
        · omega
        · have := h.wf.below sv (latest_mem_hist hl); omega
      rw [hr, List.reverse_append, List.reverse_singleton, List.singleton_append, List.find?_cons]
      simp [hlt]
  rw [TreeState.getAt, hres, Option.map_some, curHist_of hl]
  rw [svGet_eq_head t sv h.wf.mem_source hg.vwf k S]
  intro e he
  exact Nat.lt_of_lt_of_le (hg.below k e he) hS

end Lsm
