import LsmModel.Tree.Ops
import LsmModel.Lemmas.MergeLemmas
import LsmModel.Lemmas.MvccLemmas
import LsmModel.Lemmas.OrderLemmas
/-
  LsmModel.Lemmas.ScanLemmas — range scans: merge, MVCC, tombstone filter, consumed from both ends.
-/
namespace Lsm
set_option linter.unusedSectionVars false
variable {K : Type}

/-! ### generic facts about `bothEnds` -/

section BothEnds
variable {α : Type}

theorem bothEnds_nil_word (l : List α) : bothEnds l [] = [] := by
  simp [bothEnds]

theorem bothEnds_F (l : List α) (w : List Dir) : bothEnds l (.F :: w) = l.head? :: bothEnds l.tail w := by
  cases l <;> simp [bothEnds]

theorem bothEnds_B (l : List α) (w : List Dir) : bothEnds l (.B :: w) = l.getLast? :: bothEnds l.dropLast w := by
  rcases List.eq_nil_or_concat l with rfl | ⟨t, h, rfl⟩
  · simp [bothEnds]
  · simp [bothEnds, List.concat_eq_append]

theorem bothEnds_length (l : List α) (w : List Dir) : (bothEnds l w).length = w.length := by
  induction w generalizing l with
  | nil => simp [bothEnds]
  | cons d w ih =>
    cases d
    · rw [bothEnds_F, List.length_cons, ih, List.length_cons]
    · rw [bothEnds_B, List.length_cons, ih, List.length_cons]

theorem bothEnds_nil (w : List Dir) : bothEnds ([] : List α) w = w.map (fun _ => none) := by
  induction w with
  | nil => simp [bothEnds]
  | cons d w ih =>
    cases d
    · rw [bothEnds_F]; simpa using ih
    · rw [bothEnds_B]; simpa using ih

/-- closed form of the `i`-th answer: with `f` earlier `next` calls and `b` earlier `next_back` calls
    (`f + b = i`), a `next` returns `l[f]`, a `next_back` returns `l[|l| - 1 - b]`, and every call from
    the `|l|`-th on returns `none`. -/
theorem bothEnds_getElem? (l : List α) (w : List Dir) (i : Nat) (d : Dir) (hd : w[i]? = some d) :
    (bothEnds l w)[i]? = some (if i < l.length then
        (match d with
         | .F => l[(w.take i).count .F]?
         | .B => l[l.length - 1 - (w.take i).count .B]?)
      else none) := by
  induction w generalizing l i with
  | nil => simp at hd
  | cons d0 w ih =>
    cases i with
    | zero =>
      simp at hd; subst hd
      cases d0
      · rw [bothEnds_F]
        cases l <;> simp
      · rw [bothEnds_B]
        cases l with
        | nil => simp
        | cons a t => simp [List.getLast?_eq_getElem?]
    | succ i =>
      rw [List.getElem?_cons_succ] at hd
      have hcF : (w.take i).count Dir.F ≤ i :=
        Nat.le_trans List.count_le_length (by rw [List.length_take]; omega)
      have hcB : (w.take i).count Dir.B ≤ i :=
        Nat.le_trans List.count_le_length (by rw [List.length_take]; omega)
      cases d0
      · rw [bothEnds_F, List.getElem?_cons_succ, ih l.tail i hd]
        simp only [List.length_tail, List.take_succ_cons, List.count_cons_self, List.getElem?_tail]
        by_cases hlt : i + 1 < l.length
        · have h1 : i < l.length - 1 := by omega
          rw [if_pos hlt, if_pos h1]
          cases d
          · rfl
          · simp only
            rw [List.count_cons_of_ne (by decide)]
            congr 2
            omega
        · have h1 : ¬ i < l.length - 1 := by omega
          rw [if_neg hlt, if_neg h1]
      · rw [bothEnds_B, List.getElem?_cons_succ, ih l.dropLast i hd]
        simp only [List.length_dropLast, List.take_succ_cons, List.count_cons_self]
        by_cases hlt : i + 1 < l.length
        · have h1 : i < l.length - 1 := by omega
          rw [if_pos hlt, if_pos h1]
          cases d
          · simp only
            rw [List.count_cons_of_ne (by decide), List.getElem?_dropLast]
            rw [if_pos (by omega)]
          · simp only
            rw [List.getElem?_dropLast, if_pos (by omega)]
            congr 2
            omega
        · have h1 : ¬ i < l.length - 1 := by omega
          rw [if_neg hlt, if_neg h1]

/-- a call answers `none` exactly when at least `|l|` calls came before it -/
theorem bothEnds_none_iff (l : List α) (w : List Dir) (i : Nat) (hi : i < w.length) :
    (bothEnds l w)[i]? = some none ↔ l.length ≤ i := by
  obtain ⟨d, hd⟩ : ∃ d, w[i]? = some d := ⟨w[i], List.getElem?_eq_getElem hi⟩
  rw [bothEnds_getElem? l w i d hd]
  have hcF : (w.take i).count Dir.F ≤ i :=
    Nat.le_trans List.count_le_length (by rw [List.length_take]; omega)
  by_cases hlt : i < l.length
  · rw [if_pos hlt]
    have : ¬ l.length ≤ i := by omega
    simp only [this, iff_false]
    cases d
    · simp only
      rw [List.getElem?_eq_getElem (by omega)]
      simp
    · simp only
      rw [List.getElem?_eq_getElem (by omega)]
      simp
  · rw [if_neg hlt]
    simp; omega

/-- once exhausted, always exhausted -/
theorem bothEnds_none_stays (l : List α) (w : List Dir) (i j : Nat) (hij : i ≤ j) (hj : j < w.length)
    (h : (bothEnds l w)[i]? = some none) : (bothEnds l w)[j]? = some none := by
  rw [bothEnds_none_iff l w i (by omega)] at h
  rw [bothEnds_none_iff l w j hj]
  omega

/-- the answers given to the calls of direction `d`, in call order -/
def answersOf (d : Dir) (as : List (Option α)) (w : List Dir) : List α :=
  (as.zip w).filterMap (fun p => if p.2 = d then p.1 else none)

theorem answersOf_nil (d : Dir) : answersOf d ([] : List (Option α)) [] = [] := rfl

theorem answersOf_cons_none (d d' : Dir) (as : List (Option α)) (w : List Dir) :
    answersOf d (none :: as) (d' :: w) = answersOf d as w := by
  simp [answersOf]

theorem answersOf_cons_same (d : Dir) (a : α) (as : List (Option α)) (w : List Dir) :
    answersOf d (some a :: as) (d :: w) = a :: answersOf d as w := by
  simp [answersOf]

theorem answersOf_cons_other (d d' : Dir) (hne : d' ≠ d) (a : Option α) (as : List (Option α)) (w : List Dir) :
    answersOf d (a :: as) (d' :: w) = answersOf d as w := by
  simp [answersOf, hne]

/-- the list splits into: what `next` returned (in order), an untouched middle, and what `next_back`
    returned (reversed). The middle is empty once there were at least `|l|` calls. -/
theorem bothEnds_split (l : List α) (w : List Dir) :
    ∃ mid, l = answersOf .F (bothEnds l w) w ++ mid ++ (answersOf .B (bothEnds l w) w).reverse ∧
      (l.length ≤ w.length → mid = []) := by
  induction w generalizing l with
  | nil =>
    refine ⟨l, by simp [bothEnds, answersOf], ?_⟩
    intro h; exact List.eq_nil_of_length_eq_zero (by simpa using h)
  | cons d w ih =>
    cases d
    · cases l with
      | nil =>
        obtain ⟨mid, h1, h2⟩ := ih []
        refine ⟨mid, ?_, fun _ => h2 (by simp)⟩
        rw [bothEnds_F]
        simp only [List.head?_nil, List.tail_nil, answersOf_cons_none]
        exact h1
      | cons h t =>
        obtain ⟨mid, h1, h2⟩ := ih t
        refine ⟨mid, ?_, fun hl => h2 (by simpa using hl)⟩
        rw [bothEnds_F]
        simp only [List.head?_cons, List.tail_cons, answersOf_cons_same,
          answersOf_cons_other Dir.B Dir.F (by decide)]
        rw [List.cons_append, List.cons_append, ← h1]
    · rcases List.eq_nil_or_concat l with rfl | ⟨t, h, rfl⟩
      · obtain ⟨mid, h1, h2⟩ := ih []
        refine ⟨mid, ?_, fun _ => h2 (by simp)⟩
        rw [bothEnds_B]
        simp only [List.getLast?_nil, List.dropLast_nil, answersOf_cons_none]
        exact h1
      · obtain ⟨mid, h1, h2⟩ := ih t
        refine ⟨mid, ?_, fun hl => h2 (by simpa using hl)⟩
        rw [bothEnds_B]
        simp only [List.concat_eq_append, List.getLast?_append, List.getLast?_singleton, Option.some_or,
          List.dropLast_concat, answersOf_cons_same, answersOf_cons_other Dir.F Dir.B (by decide),
          List.reverse_cons]
        rw [← List.append_assoc, ← h1]

/-- `next` answers, in order, form a prefix of the list -/
theorem bothEnds_front_prefix (l : List α) (w : List Dir) : answersOf .F (bothEnds l w) w <+: l := by
  obtain ⟨mid, h1, _⟩ := bothEnds_split l w
  exact ⟨mid ++ (answersOf .B (bothEnds l w) w).reverse, by rw [← List.append_assoc]; exact h1.symm⟩

/-- `next_back` answers, in order, form a prefix of the reversed list -/
theorem bothEnds_back_prefix (l : List α) (w : List Dir) : answersOf .B (bothEnds l w) w <+: l.reverse := by
  obtain ⟨mid, h1, _⟩ := bothEnds_split l w
  refine ⟨mid.reverse ++ (answersOf .F (bothEnds l w) w).reverse, ?_⟩
  conv => rhs; rw [h1]
  simp

/-- all answers, as a multiset, are the `next` answers plus the `next_back` answers -/
theorem answers_perm (as : List (Option α)) (w : List Dir) (hlen : as.length = w.length) :
    (as.filterMap id).Perm (answersOf .F as w ++ answersOf .B as w) := by
  induction as generalizing w with
  | nil =>
    cases w with
    | nil => simp [answersOf]
    | cons _ _ => simp at hlen
  | cons a as ih =>
    cases w with
    | nil => simp at hlen
    | cons d w =>
      have ih' := ih w (by simpa using hlen)
      cases a with
      | none =>
        rw [answersOf_cons_none, answersOf_cons_none, show List.filterMap id (none :: as) = List.filterMap id as from rfl]
        exact ih'
      | some x =>
        rw [show List.filterMap id (some x :: as) = x :: List.filterMap id as from rfl]
        cases d
        · rw [answersOf_cons_same, answersOf_cons_other Dir.B Dir.F (by decide), List.cons_append]
          exact List.Perm.cons x ih'
        · rw [answersOf_cons_same, answersOf_cons_other Dir.F Dir.B (by decide)]
          exact (List.Perm.cons x ih').trans List.perm_middle.symm

/-- everything returned is a sub-multiset of the list … -/
theorem bothEnds_answers_subperm (l : List α) (w : List Dir) :
    ∃ l', ((bothEnds l w).filterMap id).Perm l' ∧ l'.Sublist l := by
  obtain ⟨mid, h1, _⟩ := bothEnds_split l w
  refine ⟨answersOf .F (bothEnds l w) w ++ (answersOf .B (bothEnds l w) w).reverse, ?_, ?_⟩
  · refine (answers_perm _ w (bothEnds_length l w)).trans ?_
    exact List.Perm.append_left _ (List.reverse_perm _).symm
  · conv => rhs; rw [h1]
    rw [List.append_assoc]
    exact List.Sublist.append_left (List.sublist_append_right _ _) _

/-- … so no element is returned twice (when the list has no duplicates) … -/
theorem bothEnds_nodup (l : List α) (w : List Dir) (hnd : l.Nodup) : ((bothEnds l w).filterMap id).Nodup := by
  obtain ⟨l', h1, h2⟩ := bothEnds_answers_subperm l w
  exact h1.nodup_iff.mpr (hnd.sublist h2)

/-- … every answer is a member of the list … -/
theorem bothEnds_mem (l : List α) (w : List Dir) (a : α) (h : some a ∈ bothEnds l w) : a ∈ l := by
  obtain ⟨l', h1, h2⟩ := bothEnds_answers_subperm l w
  apply h2.subset
  rw [← h1.mem_iff, List.mem_filterMap]
  exact ⟨some a, h, rfl⟩

/-- … and with at least `|l|` calls every element is returned exactly once. -/
theorem bothEnds_exhaust (l : List α) (w : List Dir) (hlen : l.length ≤ w.length) :
    ((bothEnds l w).filterMap id).Perm l := by
  obtain ⟨mid, h1, h2⟩ := bothEnds_split l w
  have hm := h2 hlen
  subst hm
  refine (answers_perm _ w (bothEnds_length l w)).trans ?_
  conv => rhs; rw [h1]
  rw [List.append_nil]
  exact List.Perm.append_left _ (List.reverse_perm _).symm

end BothEnds

/-! ### the live list: newest version per key, tombstones dropped -/

section
variable [DecidableEq K]

/-- what a scan over the (merged, sorted) stream `l` must produce: per key the newest version, unless a tombstone -/
def liveList (l : List (Entry K)) : List (Entry K) := (newestPerKey l).filter (fun e => !e.isTomb)

theorem liveList_nil : liveList ([] : List (Entry K)) = [] := by
  simp [liveList, newestPerKey_nil]

theorem liveList_cons (h : Entry K) (t : List (Entry K)) :
    liveList (h :: t) =
      if h.isTomb then liveList (t.dropWhile (fun e => decide (e.key = h.key)))
      else h :: liveList (t.dropWhile (fun e => decide (e.key = h.key))) := by
  unfold liveList
  rw [newestPerKey_cons, List.filter_cons]
  cases h.isTomb <;> simp

theorem liveList_sublist (l : List (Entry K)) : (liveList l).Sublist l :=
  List.filter_sublist.trans (newestPerKey_sublist l)

theorem live_eq_some_iff (o : Option (Entry K)) (e : Entry K) :
    live o = some e ↔ o = some e ∧ e.isTomb = false := by
  cases o with
  | none => simp [live]
  | some x =>
    simp only [live]
    split
    · rename_i h
      constructor
      · intro h'; cases h'
      · rintro ⟨h1, h2⟩; cases h1; rw [h2] at h; cases h
    · rename_i h
      constructor
      · intro h'; cases h'; exact ⟨rfl, by simpa using h⟩
      · rintro ⟨h1, _⟩; cases h1; rfl

theorem live_eq_none_iff (o : Option (Entry K)) :
    live o = none ↔ o = none ∨ ∃ e, o = some e ∧ e.isTomb = true := by
  cases o with
  | none => simp [live]
  | some x =>
    simp only [live]
    split
    · rename_i h; simp [h]
    · rename_i h; simp [h]

end

section
variable [LT K] [DecidableLT K] [DecidableEq K]
variable [LE K] [Std.IsLinearOrder K] [Std.LawfulOrderLT K]

theorem filter_source {l : List (Entry K)} (hs : IsSource l) (p : Entry K → Bool) : IsSource (l.filter p) :=
  hs.sublist List.filter_sublist

theorem liveList_keys_lt {l : List (Entry K)} (hs : IsSource l) :
    (liveList l).Pairwise (fun a b => a.key < b.key) :=
  (newestPerKey_keys_lt hs).sublist List.filter_sublist

theorem keys_lt_nodup {L : List (Entry K)} (h : L.Pairwise (fun a b => a.key < b.key)) : L.Nodup := by
  refine List.Pairwise.imp ?_ h
  intro a b hab heq
  subst heq
  have : ¬ a.key < a.key := by grind
  exact this hab

theorem keys_lt_keys_nodup {L : List (Entry K)} (h : L.Pairwise (fun a b => a.key < b.key)) :
    (L.map (·.key)).Nodup := by
  rw [List.Nodup, List.pairwise_map]
  refine List.Pairwise.imp ?_ h
  intro a b hab heq
  have : ¬ a.key < a.key := by grind
  rw [← heq] at hab
  exact this hab

/-- in a list with strictly ascending keys, membership is lookup by key -/
theorem mem_iff_find?_of_keys_lt {L : List (Entry K)} (h : L.Pairwise (fun a b => a.key < b.key)) (e : Entry K) :
    e ∈ L ↔ L.find? (fun x => decide (x.key = e.key)) = some e := by
  constructor
  · intro he
    induction L with
    | nil => cases he
    | cons a t ih =>
      rw [List.find?_cons]
      rcases List.mem_cons.mp he with rfl | he'
      · simp
      · have hlt := (List.pairwise_cons.mp h).1 e he'
        have hne : ¬ a.key = e.key := by grind
        simp only [hne, decide_false]
        exact ih (List.pairwise_cons.mp h).2 he'
  · intro hf
    exact List.mem_of_find?_eq_some hf

theorem find?_filter_live {N : List (Entry K)} (hN : N.Pairwise (fun a b => a.key < b.key)) (k : K) :
    (N.filter (fun e => !e.isTomb)).find? (fun e => decide (e.key = k)) =
      live (N.find? (fun e => decide (e.key = k))) := by
  induction N with
  | nil => rfl
  | cons a t ih =>
    have ih' := ih (List.pairwise_cons.mp hN).2
    rw [List.filter_cons, List.find?_cons]
    by_cases hk : a.key = k
    · simp only [hk, decide_true]
      cases ht : a.isTomb with
      | true =>
        simp only [Bool.not_true, Bool.false_eq_true, if_false, live, ht, if_true]
        rw [List.find?_eq_none]
        intro x hx
        have hx' := (List.mem_filter.mp hx).1
        have hlt := (List.pairwise_cons.mp hN).1 x hx'
        have : ¬ x.key = k := by grind
        simpa using this
      | false =>
        simp only [Bool.not_false, if_true, live, ht, Bool.false_eq_true, if_false, List.find?_cons, hk,
          decide_true]
    · simp only [hk, decide_false]
      cases ht : a.isTomb with
      | true => simpa using ih'
      | false =>
        simp only [Bool.not_false, if_true, List.find?_cons, hk, decide_false]
        exact ih'

/-- per key: the newest version of the key in the source, if it is not a tombstone -/
theorem liveList_find? {l : List (Entry K)} (hs : IsSource l) (k : K) :
    (liveList l).find? (fun e => decide (e.key = k)) = live (l.find? (fun e => decide (e.key = k))) := by
  unfold liveList
  rw [find?_filter_live (newestPerKey_keys_lt hs), newestPerKey_find?]

theorem liveList_mem_iff {l : List (Entry K)} (hs : IsSource l) (e : Entry K) :
    e ∈ liveList l ↔ (l.find? (fun x => decide (x.key = e.key)) = some e ∧ e.isTomb = false) := by
  rw [mem_iff_find?_of_keys_lt (liveList_keys_lt hs), liveList_find? hs, live_eq_some_iff]

/-- specification of `liveList` on a source: strictly ascending keys (hence each key at most once), and
    per key exactly the newest version — the first entry of that key in internal-key order — unless it is a
    tombstone -/
theorem liveList_spec {l : List (Entry K)} (hs : IsSource l) :
    (liveList l).Pairwise (fun a b => a.key < b.key) ∧
    (∀ k, (liveList l).find? (fun e => decide (e.key = k)) = live (l.find? (fun e => decide (e.key = k)))) ∧
    (∀ e, e ∈ liveList l ↔ (l.find? (fun x => decide (x.key = e.key)) = some e ∧ e.isTomb = false)) ∧
    (∀ k, (∃ e ∈ liveList l, e.key = k) ↔
      ∃ e, l.find? (fun x => decide (x.key = k)) = some e ∧ e.isTomb = false) := by
  refine ⟨liveList_keys_lt hs, liveList_find? hs, liveList_mem_iff hs, ?_⟩
  intro k
  constructor
  · rintro ⟨e, he, rfl⟩
    exact ⟨e, (liveList_mem_iff hs e).mp he⟩
  · rintro ⟨e, h1, h2⟩
    have hk : e.key = k := by simpa using List.find?_some h1
    subst hk
    exact ⟨e, (liveList_mem_iff hs e).mpr ⟨h1, h2⟩, rfl⟩

/-! ### the tombstone filter around the MVCC stream -/

theorem liveStep_front {l : List (Entry K)} (hs : IsSource l) (fuel : Nat)
    (hf : (newestPerKey l).length < fuel) :
    IsSource (liveStep fuel .F l).2 ∧ (liveStep fuel .F l).1 = (liveList l).head? ∧
      liveList (liveStep fuel .F l).2 = (liveList l).tail := by
  induction fuel generalizing l with
  | zero => omega
  | succ fuel ih =>
    cases l with
    | nil =>
      simp only [liveStep, mvccNext, liveList_nil]
      exact ⟨isSource_nil, rfl, rfl⟩
    | cons h t =>
      have hs' : IsSource (t.dropWhile (fun e => decide (e.key = h.key))) := hs.tail.dropWhile _
      rw [newestPerKey_cons, List.length_cons] at hf
      simp only [liveStep, mvccNext]
      rw [liveList_cons]
      cases ht : h.isTomb with
      | true =>
        simp only [if_true]
        exact ih hs' (by omega)
      | false =>
        simp only [Bool.false_eq_true, if_false, List.head?_cons, List.tail_cons]
        exact ⟨hs', trivial, trivial⟩

theorem liveList_of_back {l rest : List (Entry K)} {x : Entry K}
    (h : newestPerKey l = newestPerKey rest ++ [x]) :
    liveList l = if x.isTomb then liveList rest else liveList rest ++ [x] := by
  unfold liveList
  rw [h, List.filter_append]
  cases hx : x.isTomb <;> simp [hx]

theorem liveStep_back {l : List (Entry K)} (hs : IsSource l) (fuel : Nat)
    (hf : (newestPerKey l).length < fuel) :
    IsSource (liveStep fuel .B l).2 ∧ (liveStep fuel .B l).1 = (liveList l).getLast? ∧
      liveList (liveStep fuel .B l).2 = (liveList l).dropLast := by
  induction fuel generalizing l with
  | zero => omega
  | succ fuel ih =>
    by_cases hne : l = []
    · subst hne
      simp only [liveStep, (mvccNextBack_source (K := K) isSource_nil).1 rfl, liveList_nil]
      exact ⟨isSource_nil, rfl, rfl⟩
    · obtain ⟨x, rest, h1, h2, h3⟩ := (mvccNextBack_source hs).2 hne
      rw [h3, List.length_append, List.length_singleton] at hf
      simp only [liveStep, h1]
      rw [liveList_of_back h3]
      cases ht : x.isTomb with
      | true =>
        simp only [if_true]
        exact ih h2 (by omega)
      | false =>
        simp only [Bool.false_eq_true, if_false, List.getLast?_append, List.getLast?_singleton, Option.some_or,
          List.dropLast_concat]
        exact ⟨h2, trivial, trivial⟩

/-- `.filter(!tombstone)` around `MvccStream` over a source, driven by any word of `next` / `next_back`:
    the live list consumed from both ends -/
theorem liveRun_both_ends {l : List (Entry K)} (hs : IsSource l) (w : List Dir) :
    liveRun l w = bothEnds (liveList l) w := by
  induction w generalizing l with
  | nil => simp [liveRun, bothEnds]
  | cons d w ih =>
    have hf : (newestPerKey l).length < l.length + 1 := by
      have := (newestPerKey_sublist l).length_le
      omega
    cases d
    · obtain ⟨h1, h2, h3⟩ := liveStep_front hs _ hf
      simp only [liveRun]
      rw [bothEnds_F, ih h1, h2, h3]
    · obtain ⟨h1, h2, h3⟩ := liveStep_back hs _ hf
      simp only [liveRun]
      rw [bothEnds_B, ih h1, h2, h3]

end

/-! ### content of a scan: per key, the newest version over all sources -/

section
variable [LT K] [DecidableLT K] [DecidableEq K]

/-- the version of `k` a scan sees: the first entry of `k` in the ordered merge of all sources -/
def maxVersion (srcs : List (List (Entry K))) (k : K) : Option (Entry K) :=
  (mergeAll srcs).find? (fun e => decide (e.key = k))

/-- the unrestricted sources of a super version, in the order `TreeIter::create_range` merges them -/
def TreeState.rawSources (t : TreeState K) (sv : SuperVersion K) : List (List (Entry K)) :=
  (sv.version.runs.map (fun r => r.flatMap (·.entries))) ++ (sv.sealed.map (fun id => t.mem id)) ++
    [t.mem sv.active]

/-- restriction of one source to the bounds and a snapshot -/
def boundsFilter (lo hi : Bound K) (S : Nat) (l : List (Entry K)) : List (Entry K) :=
  l.filter (fun e => inBounds lo hi e.key && Lsm.visible S e)

/-- an entry some source offers to the scan (before the bounds): in a table or memtable and visible at `S`,
    or in the overlay memtable and visible at the overlay's snapshot -/
def TreeState.scanCandidate (t : TreeState K) (sv : SuperVersion K) (S : Nat)
    (overlay : Option (List (Entry K) × Nat)) (x : Entry K) : Prop :=
  ((∃ r ∈ t.rawSources sv, x ∈ r) ∧ x.seqno < S) ∨ (∃ l s, overlay = some (l, s) ∧ x ∈ l ∧ x.seqno < s)

/-- the unrestricted overlay memtable as a list of sources (none or one) -/
def overlaySource (overlay : Option (List (Entry K) × Nat)) : List (List (Entry K)) :=
  match overlay with
  | some (l, _) => [l]
  | none => []

/-- bounds that no key satisfies: the upper end lies below the lower end, or they meet in an excluded point -/
def boundsEmpty (lo hi : Bound K) : Prop :=
  match lo, hi with
  | .incl a, .incl b => b < a
  | .incl a, .excl b => ¬ a < b
  | .excl a, .incl b => ¬ a < b
  | .excl a, .excl b => ¬ a < b
  | .unb, _ => False
  | _, .unb => False

end

section
variable [LT K] [DecidableLT K] [DecidableEq K]
variable [LE K] [Std.IsLinearOrder K] [Std.LawfulOrderLT K]

theorem scanSources_eq (t : TreeState K) (sv : SuperVersion K) (lo hi : Bound K) (S : Nat)
    (overlay : Option (List (Entry K) × Nat)) :
    t.scanSources sv lo hi S overlay =
      (t.rawSources sv).map (boundsFilter lo hi S) ++
        (match overlay with
         | some (l, s) => [boundsFilter lo hi s l]
         | none => []) := by
  simp only [TreeState.scanSources, TreeState.rawSources, boundsFilter, List.map_append, List.map_map,
    List.map_cons, List.map_nil]
  rfl

theorem mem_boundsFilter {lo hi : Bound K} {S : Nat} {l : List (Entry K)} {x : Entry K} :
    x ∈ boundsFilter lo hi S l ↔ x ∈ l ∧ inBounds lo hi x.key = true ∧ x.seqno < S := by
  simp [boundsFilter, Lsm.visible]

theorem mem_scanSources (t : TreeState K) (sv : SuperVersion K) (lo hi : Bound K) (S : Nat)
    (overlay : Option (List (Entry K) × Nat)) (x : Entry K) :
    (∃ s ∈ t.scanSources sv lo hi S overlay, x ∈ s) ↔
      (inBounds lo hi x.key = true ∧ t.scanCandidate sv S overlay x) := by
  rw [scanSources_eq]
  unfold TreeState.scanCandidate
  constructor
  · rintro ⟨s, hs, hx⟩
    rcases List.mem_append.mp hs with hs | hs
    · obtain ⟨r, hr, rfl⟩ := List.mem_map.mp hs
      obtain ⟨h1, h2, h3⟩ := mem_boundsFilter.mp hx
      exact ⟨h2, Or.inl ⟨⟨r, hr, h1⟩, h3⟩⟩
    · cases overlay with
      | none => cases hs
      | some ls =>
        obtain ⟨l, s0⟩ := ls
        simp only [List.mem_singleton] at hs
        subst hs
        obtain ⟨h1, h2, h3⟩ := mem_boundsFilter.mp hx
        exact ⟨h2, Or.inr ⟨l, s0, rfl, h1, h3⟩⟩
  · rintro ⟨hb, ⟨⟨r, hr, hx⟩, hv⟩ | ⟨l, s0, rfl, hx, hv⟩⟩
    · exact ⟨boundsFilter lo hi S r, List.mem_append_left _ (List.mem_map.mpr ⟨r, hr, rfl⟩),
        mem_boundsFilter.mpr ⟨hx, hb, hv⟩⟩
    · exact ⟨boundsFilter lo hi s0 l, List.mem_append_right _ (by simp), mem_boundsFilter.mpr ⟨hx, hb, hv⟩⟩

theorem maxVersion_eq_none_iff (srcs : List (List (Entry K))) (k : K) :
    maxVersion srcs k = none ↔ ∀ s ∈ srcs, ∀ x ∈ s, x.key ≠ k := by
  unfold maxVersion
  rw [List.find?_eq_none]
  constructor
  · intro h s hs x hx
    have := h x ((mergeAll_perm srcs).mem_iff.mpr (List.mem_flatten.mpr ⟨s, hs, hx⟩))
    simpa using this
  · intro h x hx
    obtain ⟨s, hs, hxs⟩ := List.mem_flatten.mp ((mergeAll_perm srcs).mem_iff.mp hx)
    simpa using h s hs x hxs

theorem exists_seqno_bound (l : List (Entry K)) : ∃ S, ∀ x ∈ l, x.seqno < S := by
  induction l with
  | nil => exact ⟨0, fun x hx => by cases hx⟩
  | cons a t ih =>
    obtain ⟨S, hS⟩ := ih
    refine ⟨max S (a.seqno + 1), ?_⟩
    intro x hx
    rcases List.mem_cons.mp hx with rfl | hx
    · omega
    · have := hS x hx; omega

theorem find?_key_eq_newest {l : List (Entry K)} {S : Nat} (hS : ∀ x ∈ l, x.seqno < S) (k : K) :
    l.find? (fun e => decide (e.key = k)) = newest l k S := by
  induction l with
  | nil => rfl
  | cons a t ih =>
    have ha := hS a List.mem_cons_self
    simp only [newest, List.find?_cons, Lsm.visible, ha, decide_true, Bool.and_true]
    split
    · rfl
    · exact ih (fun x hx => hS x (List.mem_cons_of_mem _ hx))

theorem mergeAll_all_nil (srcs : List (List (Entry K))) (h : ∀ s ∈ srcs, s = []) : mergeAll srcs = [] := by
  induction srcs with
  | nil => rfl
  | cons s srcs ih =>
    rw [show mergeAll (s :: srcs) = merge2 s (mergeAll srcs) from rfl, h s List.mem_cons_self,
      ih (fun s' hs' => h s' (List.mem_cons_of_mem _ hs'))]
    simp [merge2]

theorem DistinctAcross2.mono {xs ys xs' ys' : List (Entry K)} (h : DistinctAcross2 xs ys)
    (hx : ∀ x ∈ xs', x ∈ xs) (hy : ∀ y ∈ ys', y ∈ ys) : DistinctAcross2 xs' ys' :=
  fun x hx' y hy' => h x (hx x hx') y (hy y hy')

/-- restricting every source keeps the sources `(key, seqno)`-disjoint -/
theorem scanSources_distinct (t : TreeState K) (sv : SuperVersion K) (lo hi : Bound K) (S : Nat)
    (overlay : Option (List (Entry K) × Nat))
    (hd : DistinctAcross (t.rawSources sv ++ overlaySource overlay)) :
    DistinctAcross (t.scanSources sv lo hi S overlay) := by
  rw [scanSources_eq]
  unfold DistinctAcross overlaySource at *
  rw [List.pairwise_append] at hd ⊢
  obtain ⟨h1, h2, h3⟩ := hd
  refine ⟨?_, ?_, ?_⟩
  · rw [List.pairwise_map]
    refine List.Pairwise.imp ?_ h1
    intro a b hab
    exact hab.mono (fun x hx => (mem_boundsFilter.mp hx).1) (fun x hx => (mem_boundsFilter.mp hx).1)
  · cases overlay with
    | none => exact List.Pairwise.nil
    | some ls => exact List.pairwise_singleton _ _
  · intro a ha b hb
    obtain ⟨r, hr, rfl⟩ := List.mem_map.mp ha
    cases overlay with
    | none => cases hb
    | some ls =>
      obtain ⟨l, s0⟩ := ls
      simp only [List.mem_singleton] at hb
      subst hb
      exact (h3 r hr l (by simp)).mono (fun x hx => (mem_boundsFilter.mp hx).1)
        (fun x hx => (mem_boundsFilter.mp hx).1)

/-- the first entry of a key in a source is the one with the greatest seqno -/
theorem find?_key_source_iff {l : List (Entry K)} (hs : IsSource l) {k : K} {e : Entry K} :
    l.find? (fun x => decide (x.key = k)) = some e ↔
      (e ∈ l ∧ e.key = k ∧ ∀ x ∈ l, x.key = k → x.seqno ≤ e.seqno) := by
  obtain ⟨S, hS⟩ := exists_seqno_bound l
  rw [find?_key_eq_newest hS, newest_eq_some_iff hs]
  constructor
  · rintro ⟨h1, h2, _, h4⟩
    exact ⟨h1, h2, fun x hx hk => h4 x hx hk (hS x hx)⟩
  · rintro ⟨h1, h2, h4⟩
    exact ⟨h1, h2, hS e h1, fun x hx hk _ => h4 x hx hk⟩

/-- `maxVersion srcs k` is a member of some source, has key `k`, and its seqno dominates every entry of `k` in
    every source — and it is the only such entry -/
theorem maxVersion_eq_some_iff {srcs : List (List (Entry K))} (hs : ∀ s ∈ srcs, IsSource s)
    (hd : DistinctAcross srcs) {k : K} {e : Entry K} :
    maxVersion srcs k = some e ↔
      ((∃ s ∈ srcs, e ∈ s) ∧ e.key = k ∧ ∀ s ∈ srcs, ∀ x ∈ s, x.key = k → x.seqno ≤ e.seqno) := by
  unfold maxVersion
  rw [find?_key_source_iff (mergeAll_source hs hd), mem_mergeAll]
  constructor
  · rintro ⟨h1, h2, h3⟩
    exact ⟨h1, h2, fun s hs' x hx hk => h3 x (mem_mergeAll.mpr ⟨s, hs', hx⟩) hk⟩
  · rintro ⟨h1, h2, h3⟩
    refine ⟨h1, h2, fun x hx hk => ?_⟩
    obtain ⟨s, hs', hxs⟩ := mem_mergeAll.mp hx
    exact h3 s hs' x hxs hk

theorem filtered_sources_isSource (t : TreeState K) (sv : SuperVersion K) (lo hi : Bound K) (S : Nat)
    (overlay : Option (List (Entry K) × Nat))
    (hraw : ∀ r ∈ t.rawSources sv, IsSource r) (hov : ∀ l s, overlay = some (l, s) → IsSource l) :
    ∀ s ∈ t.scanSources sv lo hi S overlay, IsSource s := by
  rw [scanSources_eq]
  intro s hs
  rcases List.mem_append.mp hs with hs | hs
  · obtain ⟨r, hr, rfl⟩ := List.mem_map.mp hs
    exact filter_source (hraw r hr) _
  · cases overlay with
    | none => cases hs
    | some ls =>
      obtain ⟨l, s0⟩ := ls
      simp only [List.mem_singleton] at hs
      subst hs
      exact filter_source (hov l s0 rfl) _

/-- per key, a scan shows the newest version over all sources, unless that is a tombstone -/
theorem liveList_mergeAll_find? {srcs : List (List (Entry K))} (hs : ∀ s ∈ srcs, IsSource s)
    (hd : DistinctAcross srcs) (k : K) :
    (liveList (mergeAll srcs)).find? (fun e => decide (e.key = k)) = live (maxVersion srcs k) :=
  liveList_find? (mergeAll_source hs hd) k

/-- a scan at snapshot `S` with bounds `lo`, `hi`, driven by any word of `next` / `next_back` calls -/
theorem scanAt_spec (t : TreeState K) (S : Nat) (lo hi : Bound K) (w : List Dir)
    (overlay : Option (List (Entry K) × Nat)) (sv : SuperVersion K)
    (hv : getVersionForSnapshot t.hist S = some sv)
    (hs : ∀ s ∈ t.scanSources sv lo hi S overlay, IsSource s)
    (hd : DistinctAcross (t.scanSources sv lo hi S overlay)) :
    t.scanAt S lo hi w overlay =
        some (bothEnds (liveList (mergeAll (t.scanSources sv lo hi S overlay))) w) ∧
    (liveList (mergeAll (t.scanSources sv lo hi S overlay))).Pairwise (fun a b => a.key < b.key) ∧
    (∀ k, (liveList (mergeAll (t.scanSources sv lo hi S overlay))).find? (fun e => decide (e.key = k)) =
        live (maxVersion (t.scanSources sv lo hi S overlay) k)) := by
  have hm := mergeAll_source hs hd
  refine ⟨?_, liveList_keys_lt hm, liveList_mergeAll_find? hs hd⟩
  unfold TreeState.scanAt
  rw [hv, Option.map_some, liveRun_both_ends hm]

/-- the entry a scan sees for key `k`, in terms of the unrestricted sources: the candidate of `k` with the
    greatest seqno, provided `k` lies inside the bounds -/
theorem scan_maxVersion_iff (t : TreeState K) (S : Nat) (lo hi : Bound K)
    (overlay : Option (List (Entry K) × Nat)) (sv : SuperVersion K)
    (hs : ∀ s ∈ t.scanSources sv lo hi S overlay, IsSource s)
    (hd : DistinctAcross (t.scanSources sv lo hi S overlay)) (k : K) (e : Entry K) :
    maxVersion (t.scanSources sv lo hi S overlay) k = some e ↔
      (inBounds lo hi k = true ∧ e.key = k ∧ t.scanCandidate sv S overlay e ∧
        ∀ x, t.scanCandidate sv S overlay x → x.key = k → x.seqno ≤ e.seqno) := by
  rw [maxVersion_eq_some_iff hs hd, mem_scanSources]
  constructor
  · rintro ⟨⟨hb, hc⟩, hk, hmax⟩
    subst hk
    refine ⟨hb, rfl, hc, ?_⟩
    intro x hx hxk
    obtain ⟨s, hs', hxs⟩ := (mem_scanSources t sv lo hi S overlay x).mpr ⟨by rw [hxk]; exact hb, hx⟩
    exact hmax s hs' x hxs hxk
  · rintro ⟨hb, hk, hc, hmax⟩
    subst hk
    refine ⟨⟨hb, hc⟩, rfl, ?_⟩
    intro s hs' x hxs hxk
    exact hmax x ((mem_scanSources t sv lo hi S overlay x).mp ⟨s, hs', hxs⟩).2 hxk

theorem scan_maxVersion_none_iff (t : TreeState K) (S : Nat) (lo hi : Bound K)
    (overlay : Option (List (Entry K) × Nat)) (sv : SuperVersion K) (k : K) :
    maxVersion (t.scanSources sv lo hi S overlay) k = none ↔
      (inBounds lo hi k = false ∨ ∀ x, t.scanCandidate sv S overlay x → x.key ≠ k) := by
  rw [maxVersion_eq_none_iff]
  constructor
  · intro h
    cases hb : inBounds lo hi k with
    | false => exact Or.inl rfl
    | true =>
      refine Or.inr (fun x hx hxk => ?_)
      obtain ⟨s, hs', hxs⟩ := (mem_scanSources t sv lo hi S overlay x).mpr ⟨by rw [hxk]; exact hb, hx⟩
      exact h s hs' x hxs hxk
  · intro h s hs' x hxs hxk
    obtain ⟨hb, hc⟩ := (mem_scanSources t sv lo hi S overlay x).mp ⟨s, hs', hxs⟩
    rcases h with h | h
    · rw [hxk, h] at hb; cases hb
    · exact h x hc hxk

/-- the overlay memtable is one more source: an overlay entry that is in bounds, visible at the overlay snapshot and
    at least as new as every other candidate of its key is what the scan shows for that key — or hides the key if
    it is a tombstone -/
theorem overlay_shadows (t : TreeState K) (S : Nat) (lo hi : Bound K) (sv : SuperVersion K)
    (ol : List (Entry K)) (os : Nat)
    (hs : ∀ s ∈ t.scanSources sv lo hi S (some (ol, os)), IsSource s)
    (hd : DistinctAcross (t.scanSources sv lo hi S (some (ol, os))))
    (e : Entry K) (he : e ∈ ol) (hb : inBounds lo hi e.key = true) (hvis : e.seqno < os)
    (hraw : ∀ r ∈ t.rawSources sv, ∀ x ∈ r, x.key = e.key → x.seqno < S → x.seqno ≤ e.seqno)
    (hol : ∀ x ∈ ol, x.key = e.key → x.seqno < os → x.seqno ≤ e.seqno) :
    (liveList (mergeAll (t.scanSources sv lo hi S (some (ol, os))))).find? (fun x => decide (x.key = e.key)) =
      (if e.isTomb then none else some e) := by
  rw [liveList_mergeAll_find? hs hd]
  have : maxVersion (t.scanSources sv lo hi S (some (ol, os))) e.key = some e := by
    rw [scan_maxVersion_iff t S lo hi (some (ol, os)) sv hs hd]
    refine ⟨hb, rfl, Or.inr ⟨ol, os, rfl, he, hvis⟩, ?_⟩
    rintro x (⟨⟨r, hr, hx⟩, hv⟩ | ⟨l, s0, heq, hx, hv⟩) hxk
    · exact hraw r hr x hx hxk hv
    · cases heq
      exact hol x hx hxk hv
  rw [this]
  rfl

/-! ### empty and inverted bounds -/

theorem liveRun_nil (w : List Dir) : liveRun ([] : List (Entry K)) w = w.map (fun _ => none) := by
  rw [liveRun_both_ends isSource_nil, liveList_nil, bothEnds_nil]

theorem boundsEmpty_of_inverted {lo hi : Bound K} (h : boundsInverted lo hi = true) : boundsEmpty lo hi := by
  cases lo <;> cases hi <;> simp only [boundsInverted, decide_eq_true_eq, Bool.false_eq_true] at h <;>
    simp only [boundsEmpty] <;> grind

theorem boundsEmpty_no_key {lo hi : Bound K} (h : boundsEmpty lo hi) (k : K) : inBounds lo hi k = false := by
  cases lo <;> cases hi <;> simp only [boundsEmpty] at h <;>
    simp only [inBounds, Bound.okLo, Bound.okHi, Bool.and_eq_false_iff, decide_eq_true_eq,
      decide_eq_false_iff_not, Bool.not_eq_eq_eq_not, Bool.not_false] <;> grind

/-- bounds that no key satisfies: every restricted source is empty and every call answers `none` -/
theorem scan_inverted_empty (t : TreeState K) (S : Nat) (lo hi : Bound K) (w : List Dir)
    (overlay : Option (List (Entry K) × Nat)) (h : ∀ k, inBounds lo hi k = false) :
    t.scanAt S lo hi w overlay = (getVersionForSnapshot t.hist S).map (fun _ => w.map (fun _ => none)) := by
  unfold TreeState.scanAt
  cases getVersionForSnapshot t.hist S with
  | none => rfl
  | some sv =>
    simp only [Option.map_some]
    rw [mergeAll_all_nil, liveRun_nil]
    intro s hs
    rw [scanSources_eq] at hs
    have hf : ∀ (S' : Nat) (l : List (Entry K)), boundsFilter lo hi S' l = [] := by
      intro S' l
      unfold boundsFilter
      rw [List.filter_eq_nil_iff]
      intro a _
      simp [h a.key]
    rcases List.mem_append.mp hs with hs | hs
    · obtain ⟨r, _, rfl⟩ := List.mem_map.mp hs
      exact hf S r
    · cases overlay with
      | none => cases hs
      | some ls =>
        obtain ⟨l, s0⟩ := ls
        simp only [List.mem_singleton] at hs
        rw [hs]; exact hf s0 l

end

/-! ### a bounded scan is the unbounded scan restricted to the bounds -/

section
variable [LT K] [DecidableLT K] [DecidableEq K]
variable [LE K] [Std.IsLinearOrder K] [Std.LawfulOrderLT K]

/-- two lists with strictly ascending keys and the same members are equal -/
theorem keys_lt_ext {L1 L2 : List (Entry K)} (h1 : L1.Pairwise (fun a b => a.key < b.key))
    (h2 : L2.Pairwise (fun a b => a.key < b.key)) (h : ∀ e, e ∈ L1 ↔ e ∈ L2) : L1 = L2 := by
  induction L1 generalizing L2 with
  | nil =>
    cases L2 with
    | nil => rfl
    | cons b u => exact absurd ((h b).mpr List.mem_cons_self) (by simp)
  | cons a t ih =>
    cases L2 with
    | nil => exact absurd ((h a).mp List.mem_cons_self) (by simp)
    | cons b u =>
      have ha := List.pairwise_cons.mp h1
      have hb := List.pairwise_cons.mp h2
      have hab : a = b := by
        rcases List.mem_cons.mp ((h a).mp List.mem_cons_self) with hab | hau
        · exact hab
        · rcases List.mem_cons.mp ((h b).mpr List.mem_cons_self) with hba | hbt
          · exact hba.symm
          · have := ha.1 b hbt
            have := hb.1 a hau
            grind
      subst hab
      congr 1
      refine ih ha.2 hb.2 (fun e => ?_)
      have hirr : ¬ a.key < a.key := by grind
      constructor
      · intro he
        rcases List.mem_cons.mp ((h e).mp (List.mem_cons_of_mem _ he)) with rfl | h'
        · exact absurd (ha.1 e he) hirr
        · exact h'
      · intro he
        rcases List.mem_cons.mp ((h e).mpr (List.mem_cons_of_mem _ he)) with rfl | h'
        · exact absurd (hb.1 e he) hirr
        · exact h'

/-- membership in the result list of a scan, in terms of the unrestricted sources -/
theorem mem_scan_iff (t : TreeState K) (S : Nat) (lo hi : Bound K)
    (overlay : Option (List (Entry K) × Nat)) (sv : SuperVersion K)
    (hs : ∀ s ∈ t.scanSources sv lo hi S overlay, IsSource s)
    (hd : DistinctAcross (t.scanSources sv lo hi S overlay)) (e : Entry K) :
    e ∈ liveList (mergeAll (t.scanSources sv lo hi S overlay)) ↔
      (inBounds lo hi e.key = true ∧ t.scanCandidate sv S overlay e ∧
        (∀ x, t.scanCandidate sv S overlay x → x.key = e.key → x.seqno ≤ e.seqno) ∧ e.isTomb = false) := by
  rw [liveList_mem_iff (mergeAll_source hs hd)]
  have := scan_maxVersion_iff t S lo hi overlay sv hs hd e.key e
  unfold maxVersion at this
  rw [this]
  constructor
  · rintro ⟨⟨h1, _, h3, h4⟩, h5⟩; exact ⟨h1, h3, h4, h5⟩
  · rintro ⟨h1, h3, h4, h5⟩; exact ⟨⟨h1, rfl, h3, h4⟩, h5⟩

/-- the result list of a scan with bounds = the result list of the unbounded scan, restricted to the bounds -/
theorem scan_bounds_filter (t : TreeState K) (S : Nat) (lo hi : Bound K)
    (overlay : Option (List (Entry K) × Nat)) (sv : SuperVersion K)
    (hraw : ∀ r ∈ t.rawSources sv, IsSource r) (hov : ∀ l s, overlay = some (l, s) → IsSource l)
    (hd : DistinctAcross (t.rawSources sv ++ overlaySource overlay)) :
    liveList (mergeAll (t.scanSources sv lo hi S overlay)) =
      (liveList (mergeAll (t.scanSources sv .unb .unb S overlay))).filter (fun e => inBounds lo hi e.key) := by
  have hs1 := filtered_sources_isSource t sv lo hi S overlay hraw hov
  have hd1 := scanSources_distinct t sv lo hi S overlay hd
  have hs2 := filtered_sources_isSource t sv .unb .unb S overlay hraw hov
  have hd2 := scanSources_distinct t sv .unb .unb S overlay hd
  refine keys_lt_ext (liveList_keys_lt (mergeAll_source hs1 hd1))
    ((liveList_keys_lt (mergeAll_source hs2 hd2)).sublist List.filter_sublist) (fun e => ?_)
  rw [List.mem_filter, mem_scan_iff t S lo hi overlay sv hs1 hd1, mem_scan_iff t S .unb .unb overlay sv hs2 hd2]
  have : inBounds (Bound.unb : Bound K) Bound.unb e.key = true := rfl
  constructor
  · rintro ⟨h1, h2, h3, h4⟩; exact ⟨⟨this, h2, h3, h4⟩, h1⟩
  · rintro ⟨⟨_, h2, h3, h4⟩, h1⟩; exact ⟨h1, h2, h3, h4⟩

end

end Lsm

#print axioms Lsm.bothEnds_getElem?
#print axioms Lsm.bothEnds_none_stays
#print axioms Lsm.bothEnds_split
#print axioms Lsm.bothEnds_front_prefix
#print axioms Lsm.bothEnds_back_prefix
#print axioms Lsm.bothEnds_nodup
#print axioms Lsm.bothEnds_mem
#print axioms Lsm.bothEnds_exhaust
#print axioms Lsm.filter_source
#print axioms Lsm.liveList_spec
#print axioms Lsm.liveStep_front
#print axioms Lsm.liveStep_back
#print axioms Lsm.liveRun_both_ends
#print axioms Lsm.maxVersion_eq_some_iff
#print axioms Lsm.maxVersion_eq_none_iff
#print axioms Lsm.mem_scanSources
#print axioms Lsm.scanSources_distinct
#print axioms Lsm.filtered_sources_isSource
#print axioms Lsm.scanAt_spec
#print axioms Lsm.scan_maxVersion_iff
#print axioms Lsm.scan_maxVersion_none_iff
#print axioms Lsm.overlay_shadows
#print axioms Lsm.boundsEmpty_no_key
#print axioms Lsm.boundsEmpty_of_inverted
#print axioms Lsm.scan_inverted_empty
#print axioms Lsm.mem_scan_iff
#print axioms Lsm.scan_bounds_filter
