import LsmModel.Stream.Merge
import LsmModel.Lemmas.OrderLemmas
/-
  LsmModel.Lemmas.MergeLemmas — ordered merge of sources (`merge2`, `mergeAll`), point lookups in the merge,
  and the heap-based double-ended `Merger`.
-/
namespace Lsm
set_option linter.unusedSectionVars false
variable {K : Type}

section
variable [LT K] [DecidableLT K] [DecidableEq K]

/-- no entry of `xs` has the same `(key, seqno)` as an entry of `ys` -/
def DistinctAcross2 (xs ys : List (Entry K)) : Prop := ∀ x ∈ xs, ∀ y ∈ ys, ikEq x y = false

/-- pairwise: no `ikEq`-equal entries across different sources -/
def DistinctAcross (srcs : List (List (Entry K))) : Prop := srcs.Pairwise DistinctAcross2

variable [LE K] [Std.IsLinearOrder K] [Std.LawfulOrderLT K]

/-! ### `merge2` -/

theorem merge2_nil_left (ys : List (Entry K)) : merge2 [] ys = ys := by
  simp [merge2]

theorem merge2_nil_right (xs : List (Entry K)) : merge2 xs [] = xs := by
  cases xs <;> simp [merge2]

theorem merge2_perm (xs ys : List (Entry K)) : (merge2 xs ys).Perm (xs ++ ys) := by
  fun_induction merge2 xs ys with
  | case1 ys => simp
  | case2 xs _ => simp
  | case3 x xs y ys h ih =>
    refine (List.Perm.cons y ih).trans ?_
    exact (List.perm_middle (a := y) (l₁ := x :: xs) (l₂ := ys)).symm
  | case4 x xs y ys h ih =>
    exact List.Perm.cons x ih

theorem mem_merge2 {xs ys : List (Entry K)} {z : Entry K} : z ∈ merge2 xs ys ↔ z ∈ xs ∨ z ∈ ys := by
  rw [(merge2_perm xs ys).mem_iff, List.mem_append]

theorem merge2_sorted {xs ys : List (Entry K)} (hx : IsSource xs) (hy : IsSource ys)
    (hd : DistinctAcross2 xs ys) : IsSource (merge2 xs ys) := by
  fun_induction merge2 xs ys with
  | case1 ys => exact hy
  | case2 xs _ => exact hx
  | case3 x xs y ys h ih =>
    refine IsSource.cons ?_ (ih hx hy.tail ?_)
    · intro z hz
      rcases mem_merge2.mp hz with hz | hz
      · rcases List.mem_cons.mp hz with rfl | hz
        · exact h
        · exact ikLt_trans h (hx.head_lt z hz)
      · exact hy.head_lt z hz
    · intro a ha b hb
      exact hd a ha b (List.mem_cons_of_mem _ hb)
  | case4 x xs y ys h ih =>
    have hxy : ikLt x y = true := by
      rcases ikLt_total x y with h1 | h1 | h1
      · exact h1
      · rw [hd x List.mem_cons_self y List.mem_cons_self] at h1; cases h1
      · exact absurd h1 h
    refine IsSource.cons ?_ (ih hx.tail hy ?_)
    · intro z hz
      rcases mem_merge2.mp hz with hz | hz
      · exact hx.head_lt z hz
      · rcases List.mem_cons.mp hz with rfl | hz
        · exact hxy
        · exact ikLt_trans hxy (hy.head_lt z hz)
    · intro a ha b hb
      exact hd a (List.mem_cons_of_mem _ ha) b hb

/-! ### `mergeAll` -/

theorem mergeAll_nil : mergeAll ([] : List (List (Entry K))) = [] := rfl

theorem mergeAll_cons (s : List (Entry K)) (srcs : List (List (Entry K))) :
    mergeAll (s :: srcs) = merge2 s (mergeAll srcs) := rfl

theorem mergeAll_perm (srcs : List (List (Entry K))) : (mergeAll srcs).Perm srcs.flatten := by
  induction srcs with
  | nil => simp [mergeAll]
  | cons s srcs ih =>
    rw [mergeAll_cons, List.flatten_cons]
    exact (merge2_perm _ _).trans (List.Perm.append_left s ih)

theorem mem_mergeAll {srcs : List (List (Entry K))} {z : Entry K} : z ∈ mergeAll srcs ↔ ∃ s ∈ srcs, z ∈ s := by
  rw [(mergeAll_perm srcs).mem_iff, List.mem_flatten]

theorem mergeAll_source {srcs : List (List (Entry K))} (hs : ∀ s ∈ srcs, IsSource s)
    (hd : DistinctAcross srcs) : IsSource (mergeAll srcs) := by
  induction srcs with
  | nil => exact isSource_nil
  | cons s srcs ih =>
    rw [mergeAll_cons]
    have hd' := List.pairwise_cons.mp hd
    refine merge2_sorted (hs s List.mem_cons_self) (ih (fun s' h' => hs s' (List.mem_cons_of_mem _ h')) hd'.2) ?_
    intro x hx y hy
    obtain ⟨s', hs', hy'⟩ := mem_mergeAll.mp hy
    exact hd'.1 s' hs' x hx y hy'

/-- point lookup in the merge = the newest among the per-source lookups -/
theorem newest_mergeAll {srcs : List (List (Entry K))} (hs : ∀ s ∈ srcs, IsSource s)
    (hd : DistinctAcross srcs) (k : K) (S : Nat) :
    (newest (mergeAll srcs) k S = none ↔ ∀ s ∈ srcs, newest s k S = none) ∧
    (∀ e, newest (mergeAll srcs) k S = some e →
      (∃ s ∈ srcs, newest s k S = some e) ∧
      ∀ s ∈ srcs, ∀ e', newest s k S = some e' → e'.seqno ≤ e.seqno) := by
  have hm := mergeAll_source hs hd
  constructor
  · simp only [newest_eq_none, mem_mergeAll]
    constructor
    · intro h s hs' x hx; exact h x ⟨s, hs', hx⟩
    · rintro h x ⟨s, hs', hx⟩; exact h s hs' x hx
  · intro e he
    obtain ⟨h1, h2, h3, h4⟩ := newest_spec hm he
    obtain ⟨s, hs', hes⟩ := mem_mergeAll.mp h1
    constructor
    · refine ⟨s, hs', (newest_eq_some_iff (hs s hs')).mpr ⟨hes, h2, h3, ?_⟩⟩
      intro x hx; exact h4 x (mem_mergeAll.mpr ⟨s, hs', hx⟩)
    · intro s' hs'' e' he'
      obtain ⟨g1, g2, g3⟩ := newest_some_basic he'
      exact h4 e' (mem_mergeAll.mpr ⟨s', hs'', g1⟩) g2 g3

end

/-! ### the heap `Merger`: generic list facts -/

theorem flatten_set_perm {α : Type} (srcs : List (List α)) (i : Nat) (l l' : List α) (y : α)
    (hi : srcs[i]? = some l) (hp : l.Perm (y :: l')) :
    srcs.flatten.Perm (y :: (srcs.set i l').flatten) := by
  induction srcs generalizing i with
  | nil => simp at hi
  | cons s rest ih =>
    cases i with
    | zero =>
      simp at hi; subst hi
      simp only [List.set_cons_zero, List.flatten_cons]
      exact List.Perm.append_right _ hp
    | succ i =>
      simp at hi
      simp only [List.set_cons_succ, List.flatten_cons]
      exact (List.Perm.append_left s (ih i hi)).trans List.perm_middle

section
variable [LT K] [DecidableLT K] [DecidableEq K]

/-- `initialize_lo` as a separate step -/
def Merger.ensureLo (m : Merger K) : Merger K :=
  if m.initLo then m else { Merger.pushFronts m m.srcs.length with initLo := true }

/-- `initialize_hi` as a separate step -/
def Merger.ensureHi (m : Merger K) : Merger K :=
  if m.initHi then m else { Merger.pushBacks m m.srcs.length with initHi := true }

/-- `next` after initialisation -/
def Merger.popFront (m : Merger K) : Option (Entry K) × Merger K :=
  match heapMin m.heap with
  | none => (none, m)
  | some (i, x) =>
    let heap' := m.heap.erase (i, x)
    match m.srcs[i]? with
    | some (y :: ys) => (some x, { m with heap := (i, y) :: heap', srcs := m.srcs.set i ys })
    | _ => (some x, { m with heap := heap' })

/-- `next_back` after initialisation -/
def Merger.popBack (m : Merger K) : Option (Entry K) × Merger K :=
  match heapMax m.heap with
  | none => (none, m)
  | some (i, x) =>
    let heap' := m.heap.erase (i, x)
    match m.srcs[i]? with
    | some l =>
      match l.reverse with
      | y :: ys => (some x, { m with heap := (i, y) :: heap', srcs := m.srcs.set i ys.reverse })
      | [] => (some x, { m with heap := heap' })
    | none => (some x, { m with heap := heap' })

theorem Merger.next_eq (m : Merger K) : m.next = m.ensureLo.popFront := rfl
theorem Merger.nextBack_eq (m : Merger K) : m.nextBack = m.ensureHi.popBack := rfl

/-- every item still inside source `j` is guarded by a heap item of the same source that is `r`-before it -/
def Guard (r : Entry K → Entry K → Bool) (heap : List (Nat × Entry K)) (srcs : List (List (Entry K))) : Prop :=
  ∀ j s, srcs[j]? = some s → ∀ y ∈ s, ∃ g, (j, g) ∈ heap ∧ r g y = true

theorem Guard.refill {r : Entry K → Entry K → Bool} {heap : List (Nat × Entry K)} {srcs : List (List (Entry K))}
    (hg : Guard r heap srcs) {i : Nat} {x y : Entry K} {l l' : List (Entry K)}
    (hi : srcs[i]? = some l) (hsub : ∀ y' ∈ l', y' ∈ l)
    (hc : ∀ y' ∈ l', r y y' = true ∨ r x y' = false) :
    Guard r ((i, y) :: heap.erase (i, x)) (srcs.set i l') := by
  intro j s hj y' hy'
  rw [List.getElem?_set] at hj
  split at hj
  · rename_i hij; subst hij
    split at hj
    · cases hj
      rcases hc y' hy' with h | h
      · exact ⟨y, List.mem_cons_self, h⟩
      · obtain ⟨g, hg1, hg2⟩ := hg i l hi y' (hsub y' hy')
        refine ⟨g, List.mem_cons_of_mem _ ((List.mem_erase_of_ne ?_).mpr hg1), hg2⟩
        intro he; cases he; rw [hg2] at h; cases h
    · cases hj
  · rename_i hij
    obtain ⟨g, hg1, hg2⟩ := hg j s hj y' hy'
    refine ⟨g, List.mem_cons_of_mem _ ((List.mem_erase_of_ne ?_).mpr hg1), hg2⟩
    intro he; cases he; exact hij rfl

theorem Guard.norefill {r : Entry K → Entry K → Bool} {heap : List (Nat × Entry K)} {srcs : List (List (Entry K))}
    (hg : Guard r heap srcs) {i : Nat} {x : Entry K} (hi : srcs[i]? = none ∨ srcs[i]? = some []) :
    Guard r (heap.erase (i, x)) srcs := by
  intro j s hj y' hy'
  obtain ⟨g, hg1, hg2⟩ := hg j s hj y' hy'
  refine ⟨g, (List.mem_erase_of_ne ?_).mpr hg1, hg2⟩
  intro he; cases he
  rcases hi with hi | hi <;> rw [hi] at hj <;> cases hj
  cases hy'

/-- a guard survives when the heap grows and the sources shrink -/
theorem Guard.mono {r : Entry K → Entry K → Bool} {heap heap' : List (Nat × Entry K)}
    {srcs srcs' : List (List (Entry K))} (hg : Guard r heap srcs)
    (hh : ∀ e ∈ heap, e ∈ heap')
    (hs : ∀ (j : Nat) (s' : List (Entry K)), srcs'[j]? = some s' → ∃ s, srcs[j]? = some s ∧ List.Sublist s' s) :
    Guard r heap' srcs' := by
  intro j s' hj y hy
  obtain ⟨s, h1, h2⟩ := hs j s' hj
  obtain ⟨g, hg1, hg2⟩ := hg j s h1 y (h2.subset hy)
  exact ⟨g, hh _ hg1, hg2⟩

theorem perm_step_refill {L L' : List (Entry K)} {heap : List (Nat × Entry K)} {srcs : List (List (Entry K))}
    {i : Nat} {x y : Entry K} {l l' : List (Entry K)}
    (hp : L.Perm (heap.map (·.2) ++ srcs.flatten)) (hmem : (i, x) ∈ heap)
    (hi : srcs[i]? = some l) (hl : l.Perm (y :: l')) (hL : L.Perm (x :: L')) :
    L'.Perm (((i, y) :: heap.erase (i, x)).map (·.2) ++ (srcs.set i l').flatten) := by
  have h1 : (heap.map (·.2)).Perm (x :: (heap.erase (i, x)).map (·.2)) :=
    (List.perm_cons_erase hmem).map (·.2)
  have h2 := flatten_set_perm srcs i l l' y hi hl
  have h3 : (x :: L').Perm (x :: ((heap.erase (i, x)).map (·.2) ++ y :: (srcs.set i l').flatten)) :=
    hL.symm.trans (hp.trans (List.Perm.append h1 h2))
  have h4 := List.Perm.cons_inv h3
  simp only [List.map_cons, List.cons_append]
  exact h4.trans List.perm_middle

theorem perm_step_norefill {L L' : List (Entry K)} {heap : List (Nat × Entry K)} {srcs : List (List (Entry K))}
    {i : Nat} {x : Entry K}
    (hp : L.Perm (heap.map (·.2) ++ srcs.flatten)) (hmem : (i, x) ∈ heap) (hL : L.Perm (x :: L')) :
    L'.Perm ((heap.erase (i, x)).map (·.2) ++ srcs.flatten) := by
  have h1 : (heap.map (·.2)).Perm (x :: (heap.erase (i, x)).map (·.2)) :=
    (List.perm_cons_erase hmem).map (·.2)
  have h3 : (x :: L').Perm (x :: ((heap.erase (i, x)).map (·.2) ++ srcs.flatten)) :=
    hL.symm.trans (hp.trans (List.Perm.append_right _ h1))
  exact List.Perm.cons_inv h3

/-! ### heap extrema -/

theorem heapMin_none {h : List (Nat × Entry K)} (hn : heapMin h = none) : h = [] := by
  cases h with
  | nil => rfl
  | cons a as =>
    unfold heapMin at hn
    split at hn
    · cases hn
    · split at hn <;> cases hn

theorem heapMin_mem {h : List (Nat × Entry K)} {a : Nat × Entry K} (hs : heapMin h = some a) : a ∈ h := by
  induction h generalizing a with
  | nil => simp [heapMin] at hs
  | cons c cs ih =>
    unfold heapMin at hs
    split at hs
    · cases hs; exact List.mem_cons_self
    · rename_i b hb
      split at hs
      · cases hs; exact List.mem_cons_of_mem _ (ih hb)
      · cases hs; exact List.mem_cons_self

theorem heapMax_none {h : List (Nat × Entry K)} (hn : heapMax h = none) : h = [] := by
  cases h with
  | nil => rfl
  | cons a as =>
    unfold heapMax at hn
    split at hn
    · cases hn
    · split at hn <;> cases hn

theorem heapMax_mem {h : List (Nat × Entry K)} {a : Nat × Entry K} (hs : heapMax h = some a) : a ∈ h := by
  induction h generalizing a with
  | nil => simp [heapMax] at hs
  | cons c cs ih =>
    unfold heapMax at hs
    split at hs
    · cases hs; exact List.mem_cons_self
    · rename_i b hb
      split at hs
      · cases hs; exact List.mem_cons_of_mem _ (ih hb)
      · cases hs; exact List.mem_cons_self

end

section
variable [LT K] [DecidableLT K] [DecidableEq K]
variable [LE K] [Std.IsLinearOrder K] [Std.LawfulOrderLT K]

/-- transitivity of the weak order `¬ (· > ·)` -/
theorem ikLt_false_trans {a b c : Entry K} (h1 : ikLt b a = false) (h2 : ikLt c b = false) : ikLt c a = false := by
  have e1 := ikLt_iff b a
  have e2 := ikLt_iff c b
  have e3 := ikLt_iff c a
  grind

theorem heapMin_le {h : List (Nat × Entry K)} {a : Nat × Entry K} (hs : heapMin h = some a) :
    ∀ b ∈ h, ikLt b.2 a.2 = false := by
  induction h generalizing a with
  | nil => simp [heapMin] at hs
  | cons c cs ih =>
    unfold heapMin at hs
    intro b hb
    split at hs
    · rename_i hn
      cases hs
      rw [heapMin_none hn] at hb
      simp at hb; subst hb
      exact ikLt_irrefl _
    · rename_i m0 hm
      split at hs
      · rename_i hlt
        cases hs
        rcases List.mem_cons.mp hb with rfl | hb
        · exact ikLt_asymm hlt
        · exact ih hm b hb
      · rename_i hlt
        cases hs
        rcases List.mem_cons.mp hb with rfl | hb
        · exact ikLt_irrefl _
        · have h1 := ih hm b hb
          have h2 : ikLt m0.2 c.2 = false := by simpa using hlt
          exact ikLt_false_trans h2 h1

theorem heapMax_ge {h : List (Nat × Entry K)} {a : Nat × Entry K} (hs : heapMax h = some a) :
    ∀ b ∈ h, ikLt a.2 b.2 = false := by
  induction h generalizing a with
  | nil => simp [heapMax] at hs
  | cons c cs ih =>
    unfold heapMax at hs
    intro b hb
    split at hs
    · rename_i hn
      cases hs
      rw [heapMax_none hn] at hb
      simp at hb; subst hb
      exact ikLt_irrefl _
    · rename_i m0 hm
      split at hs
      · rename_i hlt
        cases hs
        rcases List.mem_cons.mp hb with rfl | hb
        · exact ikLt_asymm hlt
        · exact ih hm b hb
      · rename_i hlt
        cases hs
        rcases List.mem_cons.mp hb with rfl | hb
        · exact ikLt_irrefl _
        · have h1 := ih hm b hb
          have h2 : ikLt c.2 m0.2 = false := by simpa using hlt
          exact ikLt_false_trans h1 h2

theorem min_is_head {L : List (Entry K)} (hs : IsSource L) {x : Entry K} (hx : x ∈ L)
    (hmin : ∀ z ∈ L, ikLt z x = false) : ∃ t, L = x :: t := by
  cases L with
  | nil => cases hx
  | cons h t =>
    rcases List.mem_cons.mp hx with rfl | hx'
    · exact ⟨t, rfl⟩
    · have h1 := hs.head_lt x hx'
      rw [hmin h List.mem_cons_self] at h1; cases h1

theorem max_is_last {L : List (Entry K)} (hs : IsSource L) {x : Entry K} (hx : x ∈ L)
    (hmax : ∀ z ∈ L, ikLt x z = false) : ∃ t, L = t ++ [x] := by
  rcases List.eq_nil_or_concat L with rfl | ⟨t, b, rfl⟩
  · cases hx
  · rw [List.concat_eq_append] at hx hs hmax ⊢
    rcases List.mem_append.mp hx with hx' | hx'
    · have h1 : ikLt x b = true := (List.pairwise_append.mp hs).2.2 x hx' b (by simp)
      rw [hmax b (by simp)] at h1; cases h1
    · simp at hx'; subst hx'; exact ⟨t, rfl⟩

end

/-! ### invariant of the `Merger` -/

section
variable [LT K] [DecidableLT K] [DecidableEq K]
variable [LE K] [Std.IsLinearOrder K] [Std.LawfulOrderLT K]

/-- `L` is the sorted list of all items still to be emitted (heap + sources);
    front guard once `initLo`, back guard once `initHi`. -/
structure MInv (m : Merger K) (L : List (Entry K)) : Prop where
  srcs : ∀ (j : Nat) (s : List (Entry K)), m.srcs[j]? = some s → IsSource s
  sorted : IsSource L
  perm : L.Perm (m.heap.map (·.2) ++ m.srcs.flatten)
  front : m.initLo = true → Guard (fun a b => ikLt a b) m.heap m.srcs
  back : m.initHi = true → Guard (fun a b => ikLt b a) m.heap m.srcs

theorem MInv.mem_iff {m : Merger K} {L : List (Entry K)} (inv : MInv m L) (z : Entry K) :
    z ∈ L ↔ (∃ i, (i, z) ∈ m.heap) ∨ (∃ (j : Nat) (s : List (Entry K)), m.srcs[j]? = some s ∧ z ∈ s) := by
  rw [inv.perm.mem_iff, List.mem_append, List.mem_map, List.mem_flatten]
  constructor
  · rintro (⟨⟨i, z'⟩, h1, rfl⟩ | ⟨s, h1, h2⟩)
    · exact Or.inl ⟨i, h1⟩
    · obtain ⟨j, hj⟩ := List.mem_iff_getElem?.mp h1
      exact Or.inr ⟨j, s, hj, h2⟩
  · rintro (⟨i, h⟩ | ⟨j, s, h1, h2⟩)
    · exact Or.inl ⟨(i, z), h, rfl⟩
    · exact Or.inr ⟨s, List.mem_iff_getElem?.mpr ⟨j, h1⟩, h2⟩

theorem MInv.new {srcs : List (List (Entry K))} (hs : ∀ s ∈ srcs, IsSource s) (hd : DistinctAcross srcs) :
    MInv (Merger.new srcs) (mergeAll srcs) where
  srcs := fun j s hj => hs s (List.mem_iff_getElem?.mpr ⟨j, hj⟩)
  sorted := mergeAll_source hs hd
  perm := by simpa [Merger.new] using mergeAll_perm srcs
  front := by intro h; cases h
  back := by intro h; cases h

/-! ### initialisation -/

theorem pushFronts_spec (m : Merger K) (hsrc : ∀ (j : Nat) (s : List (Entry K)), m.srcs[j]? = some s → IsSource s)
    (k : Nat) :
    (m.pushFronts k).initLo = m.initLo ∧ (m.pushFronts k).initHi = m.initHi ∧
    (m.heap.map (·.2) ++ m.srcs.flatten).Perm ((m.pushFronts k).heap.map (·.2) ++ (m.pushFronts k).srcs.flatten) ∧
    (∀ (j : Nat), j < k → ∀ (s : List (Entry K)), (m.pushFronts k).srcs[j]? = some s →
        ∀ y ∈ s, ∃ g, (j, g) ∈ (m.pushFronts k).heap ∧ ikLt g y = true) ∧
    (∀ e ∈ m.heap, e ∈ (m.pushFronts k).heap) ∧
    (∀ (j : Nat) (s' : List (Entry K)), (m.pushFronts k).srcs[j]? = some s' →
        ∃ s, m.srcs[j]? = some s ∧ List.Sublist s' s) := by
  induction k with
  | zero =>
    refine ⟨rfl, rfl, List.Perm.refl _, ?_, fun e h => h, fun j s' h => ⟨s', h, List.Sublist.refl _⟩⟩
    intro j hj; omega
  | succ k ih =>
    obtain ⟨hlo, hhi, hperm, hguard, hheap, hsub⟩ := ih
    simp only [Merger.pushFronts]
    generalize m.pushFronts k = m' at *
    split
    · rename_i x xs hk
      have hxs : IsSource (x :: xs) := by
        obtain ⟨s, h1, h2⟩ := hsub k _ hk
        exact (hsrc k s h1).sublist h2
      refine ⟨hlo, hhi, ?_, ?_, ?_, ?_⟩
      · refine hperm.trans ?_
        have h2 := flatten_set_perm m'.srcs k (x :: xs) xs x hk (List.Perm.refl _)
        simp only [List.map_cons, List.cons_append]
        exact (List.Perm.append_left _ h2).trans List.perm_middle
      · intro j hj s hs y hy
        simp only at hs
        rw [List.getElem?_set] at hs
        split at hs
        · rename_i hkj; subst hkj
          split at hs
          · cases hs
            exact ⟨x, List.mem_cons_self, hxs.head_lt y hy⟩
          · cases hs
        · rename_i hkj
          obtain ⟨g, h1, h2⟩ := hguard j (by omega) s hs y hy
          exact ⟨g, List.mem_cons_of_mem _ h1, h2⟩
      · intro e he; exact List.mem_cons_of_mem _ (hheap e he)
      · intro j s' hs
        simp only at hs
        rw [List.getElem?_set] at hs
        split at hs
        · rename_i hkj; subst hkj
          split at hs
          · cases hs
            obtain ⟨s, h1, h2⟩ := hsub k _ hk
            exact ⟨s, h1, (List.sublist_cons_self x _).trans h2⟩
          · cases hs
        · exact hsub j s' hs
    · rename_i hk
      refine ⟨hlo, hhi, hperm, ?_, hheap, hsub⟩
      intro j hj s hs y hy
      by_cases hjk : j = k
      · subst hjk
        cases s with
        | nil => cases hy
        | cons x xs => exact absurd hs (hk x xs)
      · exact hguard j (by omega) s hs y hy

theorem pushBacks_spec (m : Merger K) (hsrc : ∀ (j : Nat) (s : List (Entry K)), m.srcs[j]? = some s → IsSource s)
    (k : Nat) :
    (m.pushBacks k).initLo = m.initLo ∧ (m.pushBacks k).initHi = m.initHi ∧
    (m.heap.map (·.2) ++ m.srcs.flatten).Perm ((m.pushBacks k).heap.map (·.2) ++ (m.pushBacks k).srcs.flatten) ∧
    (∀ (j : Nat), j < k → ∀ (s : List (Entry K)), (m.pushBacks k).srcs[j]? = some s →
        ∀ y ∈ s, ∃ g, (j, g) ∈ (m.pushBacks k).heap ∧ ikLt y g = true) ∧
    (∀ e ∈ m.heap, e ∈ (m.pushBacks k).heap) ∧
    (∀ (j : Nat) (s' : List (Entry K)), (m.pushBacks k).srcs[j]? = some s' →
        ∃ s, m.srcs[j]? = some s ∧ List.Sublist s' s) := by
  induction k with
  | zero =>
    refine ⟨rfl, rfl, List.Perm.refl _, ?_, fun e h => h, fun j s' h => ⟨s', h, List.Sublist.refl _⟩⟩
    intro j hj; omega
  | succ k ih =>
    obtain ⟨hlo, hhi, hperm, hguard, hheap, hsub⟩ := ih
    simp only [Merger.pushBacks]
    generalize m.pushBacks k = m' at *
    split
    · rename_i l hk
      split
      · rename_i x xs hrev
        have hl : l = xs.reverse ++ [x] := by
          have := congrArg List.reverse hrev
          simpa using this
        subst hl
        have hxs : IsSource (xs.reverse ++ [x]) := by
          obtain ⟨s, h1, h2⟩ := hsub k _ hk
          exact (hsrc k s h1).sublist h2
        refine ⟨hlo, hhi, ?_, ?_, ?_, ?_⟩
        · refine hperm.trans ?_
          have h2 := flatten_set_perm m'.srcs k _ xs.reverse x hk (List.perm_append_singleton x xs.reverse)
          simp only [List.map_cons, List.cons_append]
          exact (List.Perm.append_left _ h2).trans List.perm_middle
        · intro j hj s hs y hy
          simp only at hs
          rw [List.getElem?_set] at hs
          split at hs
          · rename_i hkj; subst hkj
            split at hs
            · cases hs
              exact ⟨x, List.mem_cons_self, (List.pairwise_append.mp hxs).2.2 y hy x (by simp)⟩
            · cases hs
          · rename_i hkj
            obtain ⟨g, h1, h2⟩ := hguard j (by omega) s hs y hy
            exact ⟨g, List.mem_cons_of_mem _ h1, h2⟩
        · intro e he; exact List.mem_cons_of_mem _ (hheap e he)
        · intro j s' hs
          simp only at hs
          rw [List.getElem?_set] at hs
          split at hs
          · rename_i hkj; subst hkj
            split at hs
            · cases hs
              obtain ⟨s, h1, h2⟩ := hsub k _ hk
              exact ⟨s, h1, (List.sublist_append_left _ _).trans h2⟩
            · cases hs
          · exact hsub j s' hs
      · rename_i hrev
        have hl : l = [] := by simpa using hrev
        subst hl
        refine ⟨hlo, hhi, hperm, ?_, hheap, hsub⟩
        intro j hj s hs y hy
        by_cases hjk : j = k
        · subst hjk
          rw [hk] at hs; cases hs; cases hy
        · exact hguard j (by omega) s hs y hy
    · rename_i hk
      refine ⟨hlo, hhi, hperm, ?_, hheap, hsub⟩
      intro j hj s hs y hy
      by_cases hjk : j = k
      · subst hjk
        rw [hk] at hs; cases hs
      · exact hguard j (by omega) s hs y hy

theorem ensureLo_spec {m : Merger K} {L : List (Entry K)} (inv : MInv m L) :
    MInv m.ensureLo L ∧ m.ensureLo.initLo = true := by
  unfold Merger.ensureLo
  by_cases hlo : m.initLo = true
  · simp only [hlo, if_true]; exact ⟨inv, trivial⟩
  · simp only [hlo]
    obtain ⟨_, hhi, hperm, hguard, hheap, hsub⟩ := pushFronts_spec m inv.srcs m.srcs.length
    refine ⟨⟨?_, inv.sorted, inv.perm.trans hperm, ?_, ?_⟩, rfl⟩
    · intro j s' hs
      obtain ⟨s, h1, h2⟩ := hsub j s' hs
      exact (inv.srcs j s h1).sublist h2
    · intro _ j s hs y hy
      obtain ⟨s0, h1, _⟩ := hsub j s hs
      have hj : j < m.srcs.length := by
        obtain ⟨h, _⟩ := List.getElem?_eq_some_iff.mp h1
        exact h
      exact hguard j hj s hs y hy
    · intro h
      have h' : m.initHi = true := by rw [← hhi]; exact h
      exact (inv.back h').mono hheap hsub

theorem ensureHi_spec {m : Merger K} {L : List (Entry K)} (inv : MInv m L) :
    MInv m.ensureHi L ∧ m.ensureHi.initHi = true := by
  unfold Merger.ensureHi
  by_cases hhi : m.initHi = true
  · simp only [hhi, if_true]; exact ⟨inv, trivial⟩
  · simp only [hhi]
    obtain ⟨hlo, _, hperm, hguard, hheap, hsub⟩ := pushBacks_spec m inv.srcs m.srcs.length
    refine ⟨⟨?_, inv.sorted, inv.perm.trans hperm, ?_, ?_⟩, rfl⟩
    · intro j s' hs
      obtain ⟨s, h1, h2⟩ := hsub j s' hs
      exact (inv.srcs j s h1).sublist h2
    · intro h
      have h' : m.initLo = true := by rw [← hlo]; exact h
      exact (inv.front h').mono hheap hsub
    · intro _ j s hs y hy
      obtain ⟨s0, h1, _⟩ := hsub j s hs
      have hj : j < m.srcs.length := by
        obtain ⟨h, _⟩ := List.getElem?_eq_some_iff.mp h1
        exact h
      exact hguard j hj s hs y hy

end

/-! ### one step from either end -/

section
variable [LT K] [DecidableLT K] [DecidableEq K]
variable [LE K] [Std.IsLinearOrder K] [Std.LawfulOrderLT K]

theorem popFront_spec {m : Merger K} {L : List (Entry K)} (inv : MInv m L) (hlo : m.initLo = true) :
    (L = [] → m.popFront = (none, m)) ∧
    (∀ h t, L = h :: t → (m.popFront).1 = some h ∧ MInv (m.popFront).2 t) := by
  have hfront := inv.front hlo
  unfold Merger.popFront
  cases hmin : heapMin m.heap with
  | none =>
    have hnil := heapMin_none hmin
    refine ⟨fun _ => rfl, ?_⟩
    rintro h t rfl
    exfalso
    rcases (inv.mem_iff h).mp List.mem_cons_self with ⟨i, hi⟩ | ⟨j, s, hj, hs⟩
    · rw [hnil] at hi; cases hi
    · obtain ⟨g, hg, _⟩ := hfront j s hj h hs
      rw [hnil] at hg; cases hg
  | some ix =>
    obtain ⟨i, x⟩ := ix
    have hmem := heapMin_mem hmin
    have hle := heapMin_le hmin
    have hxL : x ∈ L := (inv.mem_iff x).mpr (Or.inl ⟨i, hmem⟩)
    have hminAll : ∀ z ∈ L, ikLt z x = false := by
      intro z hz
      rcases (inv.mem_iff z).mp hz with ⟨j, hj⟩ | ⟨j, s, hj, hs⟩
      · exact hle (j, z) hj
      · obtain ⟨g, hg, hgz⟩ := hfront j s hj z hs
        have h1 := hle (j, g) hg
        cases hzx : ikLt z x with
        | false => rfl
        | true =>
          have h2 : ikLt g x = true := ikLt_trans hgz hzx
          simp only at h1
          rw [h2] at h1; cases h1
    obtain ⟨t0, hL⟩ := min_is_head inv.sorted hxL hminAll
    refine ⟨fun h => (by rw [h] at hxL; cases hxL), ?_⟩
    intro h t hLt
    rw [hL] at hLt; cases hLt
    have hst : IsSource t0 := (hL ▸ inv.sorted).tail
    have hLp : L.Perm (x :: t0) := by rw [hL]
    dsimp only
    split
    · rename_i y ys hi
      refine ⟨rfl, ⟨?_, hst, perm_step_refill inv.perm hmem hi (List.Perm.refl _) hLp, ?_, ?_⟩⟩
      · intro j s hs
        simp only at hs
        rw [List.getElem?_set] at hs
        split at hs
        · split at hs
          · cases hs; exact (inv.srcs i _ hi).tail
          · cases hs
        · exact inv.srcs j s hs
      · intro _
        exact hfront.refill hi (fun y' h' => List.mem_cons_of_mem _ h')
          (fun y' h' => Or.inl ((inv.srcs i _ hi).head_lt y' h'))
      · intro hhi
        refine (inv.back hhi).refill hi (fun y' h' => List.mem_cons_of_mem _ h') (fun y' h' => Or.inr ?_)
        exact hminAll y' ((inv.mem_iff y').mpr (Or.inr ⟨i, _, hi, List.mem_cons_of_mem _ h'⟩))
    · rename_i hi
      have hi' : m.srcs[i]? = none ∨ m.srcs[i]? = some [] := by
        cases h : m.srcs[i]? with
        | none => exact Or.inl rfl
        | some l =>
          cases l with
          | nil => exact Or.inr rfl
          | cons y ys => exact absurd h (hi y ys)
      exact ⟨rfl, ⟨inv.srcs, hst, perm_step_norefill inv.perm hmem hLp,
        fun _ => hfront.norefill hi', fun hhi => (inv.back hhi).norefill hi'⟩⟩

theorem popBack_spec {m : Merger K} {L : List (Entry K)} (inv : MInv m L) (hhi : m.initHi = true) :
    (L = [] → m.popBack = (none, m)) ∧
    (∀ t h, L = t ++ [h] → (m.popBack).1 = some h ∧ MInv (m.popBack).2 t) := by
  have hback := inv.back hhi
  unfold Merger.popBack
  cases hmax : heapMax m.heap with
  | none =>
    have hnil := heapMax_none hmax
    refine ⟨fun _ => rfl, ?_⟩
    rintro t h rfl
    exfalso
    rcases (inv.mem_iff h).mp (by simp) with ⟨i, hi⟩ | ⟨j, s, hj, hs⟩
    · rw [hnil] at hi; cases hi
    · obtain ⟨g, hg, _⟩ := hback j s hj h hs
      rw [hnil] at hg; cases hg
  | some ix =>
    obtain ⟨i, x⟩ := ix
    have hmem := heapMax_mem hmax
    have hge := heapMax_ge hmax
    have hxL : x ∈ L := (inv.mem_iff x).mpr (Or.inl ⟨i, hmem⟩)
    have hmaxAll : ∀ z ∈ L, ikLt x z = false := by
      intro z hz
      rcases (inv.mem_iff z).mp hz with ⟨j, hj⟩ | ⟨j, s, hj, hs⟩
      · exact hge (j, z) hj
      · obtain ⟨g, hg, hgz⟩ := hback j s hj z hs
        have h1 := hge (j, g) hg
        cases hzx : ikLt x z with
        | false => rfl
        | true =>
          have h2 : ikLt x g = true := ikLt_trans hzx hgz
          simp only at h1
          rw [h2] at h1; cases h1
    obtain ⟨t0, hL⟩ := max_is_last inv.sorted hxL hmaxAll
    refine ⟨fun h => (by rw [h] at hxL; cases hxL), ?_⟩
    intro t h hLt
    rw [hL] at hLt
    obtain ⟨e1, e2⟩ := List.append_inj' hLt rfl
    cases e2; subst e1
    have hst : IsSource t0 := (List.pairwise_append.mp (hL ▸ inv.sorted)).1
    have hLp : L.Perm (x :: t0) := by rw [hL]; exact List.perm_append_singleton x t0
    dsimp only
    split
    · rename_i l hi
      split
      · rename_i y ys hrev
        have hl : l = ys.reverse ++ [y] := by
          have := congrArg List.reverse hrev
          simpa using this
        subst hl
        have hsl := inv.srcs i _ hi
        refine ⟨rfl, ⟨?_, hst,
          perm_step_refill inv.perm hmem hi (List.perm_append_singleton y ys.reverse) hLp, ?_, ?_⟩⟩
        · intro j s hs
          simp only at hs
          rw [List.getElem?_set] at hs
          split at hs
          · split at hs
            · cases hs; exact (List.pairwise_append.mp hsl).1
            · cases hs
          · exact inv.srcs j s hs
        · intro hlo
          refine (inv.front hlo).refill hi (fun y' h' => List.mem_append_left _ h') (fun y' h' => Or.inr ?_)
          exact hmaxAll y' ((inv.mem_iff y').mpr (Or.inr ⟨i, _, hi, List.mem_append_left _ h'⟩))
        · intro _
          exact hback.refill hi (fun y' h' => List.mem_append_left _ h')
            (fun y' h' => Or.inl ((List.pairwise_append.mp hsl).2.2 y' h' y (by simp)))
      · rename_i hrev
        have hl : l = [] := by simpa using hrev
        subst hl
        exact ⟨rfl, ⟨inv.srcs, hst, perm_step_norefill inv.perm hmem hLp,
          fun hlo => (inv.front hlo).norefill (Or.inr hi), fun _ => hback.norefill (Or.inr hi)⟩⟩
    · rename_i hi
      exact ⟨rfl, ⟨inv.srcs, hst, perm_step_norefill inv.perm hmem hLp,
        fun hlo => (inv.front hlo).norefill (Or.inl hi), fun _ => hback.norefill (Or.inl hi)⟩⟩

/-! ### main theorems -/

theorem merger_run_spec {m : Merger K} {L : List (Entry K)} (inv : MInv m L) (w : List Dir) :
    m.run w = bothEnds L w := by
  induction w generalizing m L with
  | nil => simp [Merger.run, bothEnds]
  | cons d w ih =>
    cases d with
    | F =>
      obtain ⟨inv1, hlo1⟩ := ensureLo_spec inv
      obtain ⟨h1, h2⟩ := popFront_spec inv1 hlo1
      simp only [Merger.run, Merger.next_eq]
      cases L with
      | nil =>
        rw [h1 rfl]; simp only [bothEnds]; rw [ih inv1]
      | cons h t =>
        obtain ⟨e1, inv2⟩ := h2 h t rfl
        simp only [bothEnds]; rw [e1, ih inv2]
    | B =>
      obtain ⟨inv1, hhi1⟩ := ensureHi_spec inv
      obtain ⟨h1, h2⟩ := popBack_spec inv1 hhi1
      simp only [Merger.run, Merger.nextBack_eq]
      rcases List.eq_nil_or_concat L with rfl | ⟨t, h, rfl⟩
      · rw [h1 rfl]; simp only [bothEnds, List.reverse_nil]; rw [ih inv1]
      · rw [List.concat_eq_append] at inv1 h2 ⊢
        obtain ⟨e1, inv2⟩ := h2 t h rfl
        simp only [bothEnds, List.reverse_append, List.reverse_cons, List.reverse_nil, List.nil_append,
          List.singleton_append, List.reverse_reverse]
        rw [e1, ih inv2]

/-- the full double-ended statement: the interval-heap merger emits the sorted merge from both ends -/
theorem merger_both_ends {srcs : List (List (Entry K))} (hs : ∀ s ∈ srcs, IsSource s)
    (hd : DistinctAcross srcs) (w : List Dir) :
    (Merger.new srcs).run w = bothEnds (mergeAll srcs) w :=
  merger_run_spec (MInv.new hs hd) w

/-- front side only: the min-heap k-way merge emits the sorted merge, then `none` forever -/
theorem merger_front {srcs : List (List (Entry K))} (hs : ∀ s ∈ srcs, IsSource s)
    (hd : DistinctAcross srcs) (n : Nat) :
    (Merger.new srcs).run (List.replicate n .F) = bothEnds (mergeAll srcs) (List.replicate n .F) :=
  merger_both_ends hs hd _

end

end Lsm

#print axioms Lsm.merge2_perm
#print axioms Lsm.merge2_sorted
#print axioms Lsm.mergeAll_perm
#print axioms Lsm.mergeAll_source
#print axioms Lsm.newest_mergeAll
#print axioms Lsm.merger_front
#print axioms Lsm.merger_both_ends
