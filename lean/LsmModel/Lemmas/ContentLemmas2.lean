import LsmModel.Tree.Ops
import LsmModel.Lemmas.OrderLemmas
import LsmModel.Lemmas.MergeLemmas
import LsmModel.Lemmas.CStreamLemmas
import LsmModel.Lemmas.RunLemmas
import LsmModel.Lemmas.VersionLemmas
import LsmModel.Lemmas.SnapshotLemmas
import LsmModel.Lemmas.SuperLemmas
import LsmModel.Lemmas.ContentLemmas
/-
  LsmModel.Lemmas.ContentLemmas2 — the per-key version history `keyHist` of a super version (all versions of one
  user key a reader can meet, in READ order), the read path expressed through it (Step A), and what every
  operation of C01's alphabet does to it (Steps B, C).
-/
namespace Lsm
set_option linter.unusedSectionVars false
set_option linter.unusedVariables false
variable {K : Type} [LT K] [DecidableLT K] [DecidableEq K] [LE K] [Std.IsLinearOrder K] [Std.LawfulOrderLT K]

/-! ## definitions -/

/-- all versions of `k` a reader of `sv` can meet, in read order: active memtable, sealed memtables newest first,
    then the tables level by level, run by run -/
def keyHist (t : TreeState K) (sv : SuperVersion K) (k : K) : List (Entry K) :=
  ((t.sources sv).map (·.2)).flatMap (keyOf k)

/-- strictly descending seqnos (the per-key read-order invariant ORD) -/
def Desc (l : List (Entry K)) : Prop := l.Pairwise (fun a b => b.seqno < a.seqno)

/-- the memtable part of `keyHist` -/
def memHist (t : TreeState K) (sv : SuperVersion K) (k : K) : List (Entry K) :=
  keyOf k (t.mem sv.active) ++ sv.sealed.reverse.flatMap (fun id => keyOf k (t.mem id))

/-- the table part of `keyHist` -/
def tabHist (v : Version K) (k : K) : List (Entry K) := v.tables.flatMap (fun t => keyOf k t.entries)

theorem levels_sources_snd (L : List (List (Run K))) :
    ((L.mapIdx (fun i lvl => lvl.map (fun r => (i, r.flatMap (·.entries))))).flatten).map (·.2)
      = L.flatten.map (fun r => r.flatMap (·.entries)) := by
  rw [List.map_flatten, map_mapIdx']
  have : (fun (i : Nat) (x : List (Run K)) =>
      List.map (fun (x : Nat × List (Entry K)) => x.2) (List.map (fun r => (i, List.flatMap (·.entries) r)) x))
      = fun _ x => x.map (fun r => r.flatMap (·.entries)) := by
    funext i x; simp [List.map_map, Function.comp_def]
  rw [this, mapIdx_const, ← List.map_flatten]

theorem sources_snd (t : TreeState K) (sv : SuperVersion K) :
    (t.sources sv).map (·.2) = [t.mem sv.active] ++ sv.sealed.reverse.map (fun id => t.mem id)
      ++ sv.version.runs.map (fun r => r.flatMap (·.entries)) := by
  simp only [TreeState.sources, List.map_append, levels_sources_snd, Version.runs]
  simp [List.map_map, Function.comp_def]

theorem keyHist_eq (t : TreeState K) (sv : SuperVersion K) (k : K) :
    keyHist t sv k = memHist t sv k ++ tabHist sv.version k := by
  simp only [keyHist, sources_snd, memHist, tabHist, List.flatMap_append, List.flatMap_cons, List.flatMap_nil,
    List.append_nil, List.flatMap_map, Version.tables, Version.runs]
  congr 1
  generalize sv.version.levels.flatten = rs
  induction rs with
  | nil => rfl
  | cons r rs ih =>
    simp only [List.flatMap_cons, List.flatten_cons, List.flatMap_append, ih]
    congr 1
    simp [keyOf, List.filter_flatMap]

theorem mem_keyOf {k : K} {l : List (Entry K)} {e : Entry K} : e ∈ keyOf k l ↔ e ∈ l ∧ e.key = k := by
  simp [keyOf]

theorem mem_tabHist {v : Version K} {k : K} {e : Entry K} :
    e ∈ tabHist v k ↔ e.key = k ∧ ∃ tb ∈ v.tables, e ∈ tb.entries := by
  simp only [tabHist, List.mem_flatMap, mem_keyOf]
  constructor
  · rintro ⟨tb, h1, h2, h3⟩; exact ⟨h3, tb, h1, h2⟩
  · rintro ⟨h3, tb, h1, h2⟩; exact ⟨tb, h1, h2, h3⟩

theorem mem_memHist {t : TreeState K} {sv : SuperVersion K} {k : K} {e : Entry K} :
    e ∈ memHist t sv k ↔ e.key = k ∧ (e ∈ t.mem sv.active ∨ ∃ id ∈ sv.sealed, e ∈ t.mem id) := by
  simp only [memHist, List.mem_append, List.mem_flatMap, mem_keyOf, List.mem_reverse]
  constructor
  · rintro (⟨h1, h2⟩ | ⟨id, h1, h2, h3⟩)
    · exact ⟨h2, Or.inl h1⟩
    · exact ⟨h3, Or.inr ⟨id, h1, h2⟩⟩
  · rintro ⟨h3, h1 | ⟨id, h1, h2⟩⟩
    · exact Or.inl ⟨h1, h3⟩
    · exact Or.inr ⟨id, h1, h2, h3⟩

theorem keyHist_key {t : TreeState K} {sv : SuperVersion K} {k : K} {e : Entry K} (h : e ∈ keyHist t sv k) :
    e.key = k := by
  rw [keyHist_eq, List.mem_append, mem_memHist, mem_tabHist] at h
  rcases h with h | h <;> exact h.1

/-! ## Step A: the read path through `keyHist` -/

theorem find?_congr_mem' {α : Type} {p q : α → Bool} {l : List α} (h : ∀ x ∈ l, p x = q x) :
    l.find? p = l.find? q := by
  induction l with
  | nil => rfl
  | cons x xs ih =>
    simp only [List.find?_cons, h x List.mem_cons_self, ih (fun y hy => h y (List.mem_cons_of_mem _ hy))]

theorem newest_eq_head {l : List (Entry K)} {k : K} {S : Nat} (h : ∀ e ∈ keyOf k l, e.seqno < S) :
    newest l k S = (keyOf k l).head? := by
  simp only [newest, keyOf, List.head?_filter]
  apply find?_congr_mem'
  intro x hx
  by_cases hk : x.key = k
  · have := h x (mem_keyOf.2 ⟨hx, hk⟩)
    simp [hk, visible, this]
  · simp [hk]

/-- Step A: above every seqno of `k`, a point read returns the live head of the key's history -/
theorem svGet_eq_head (t : TreeState K) (sv : SuperVersion K) (hm : ∀ id, IsSource (t.mem id))
    (hv : sv.version.WF) (k : K) (S : Nat) (hS : ∀ e ∈ keyHist t sv k, e.seqno < S) :
    t.svGet sv k S = live (keyHist t sv k).head? := by
  have hmem : ∀ id, (id = sv.active ∨ id ∈ sv.sealed) → memGet (t.mem id) k S = (keyOf k (t.mem id)).head? := by
    intro id hid
    rw [memGet_eq_newest (hm id)]
    apply newest_eq_head
    intro e he
    apply hS
    rw [keyHist_eq, List.mem_append, mem_memHist]
    rw [mem_keyOf] at he
    rcases hid with rfl | hid
    · exact Or.inl ⟨he.2, Or.inl he.1⟩
    · exact Or.inl ⟨he.2, Or.inr ⟨id, hid, he.1⟩⟩
  have htab : versionGet sv.version k S = (tabHist sv.version k).head? := by
    rw [versionGet_eq_tables hv, tabHist, List.head?_flatMap]
    apply findSome?_congr'
    intro tb htb
    simp only [tableGet]
    apply newest_eq_head
    intro e he
    apply hS
    rw [keyHist_eq, List.mem_append, mem_tabHist]
    rw [mem_keyOf] at he
    exact Or.inr ⟨he.2, tb, htb, he.1⟩
  have hsealed : sv.sealed.reverse.findSome? (fun id => memGet (t.mem id) k S)
      = (sv.sealed.reverse.flatMap (fun id => keyOf k (t.mem id))).head? := by
    rw [List.head?_flatMap]
    apply findSome?_congr'
    intro id hid
    exact hmem id (Or.inr (List.mem_reverse.1 hid))
  unfold TreeState.svGet
  rw [keyHist_eq, memHist, hmem sv.active (Or.inl rfl), hsealed, htab, List.head?_append, List.head?_append]
  cases (keyOf k (t.mem sv.active)).head? with
  | some e => simp
  | none =>
    simp only [Option.none_or]
    cases (sv.sealed.reverse.flatMap (fun id => keyOf k (t.mem id))).head? with
    | some e => simp
    | none => simp

/-! ## generic list facts -/

theorem desc_perm_eq {l₁ l₂ : List (Entry K)} (h1 : Desc l₁) (h2 : Desc l₂) (hp : l₁.Perm l₂) : l₁ = l₂ := by
  refine List.Perm.eq_of_pairwise (le := fun (a b : Entry K) => b.seqno < a.seqno) ?_ h1 h2 hp
  intro a b _ _ hab hba
  omega

theorem Desc.sublist {l l' : List (Entry K)} (hs : List.Sublist l' l) (h : Desc l) : Desc l' :=
  List.Pairwise.sublist hs h

theorem pairwise_forall {α ι : Type} (R : ι → α → α → Prop) (l : List α) (h : ∀ k, l.Pairwise (R k)) :
    l.Pairwise (fun a b => ∀ k, R k a b) := by
  induction l with
  | nil => exact List.Pairwise.nil
  | cons x xs ih =>
    rw [List.pairwise_cons]
    constructor
    · intro y hy k
      exact (List.pairwise_cons.1 (h k)).1 y hy
    · exact ih (fun k => (List.pairwise_cons.1 (h k)).2)

theorem flatMap_congr' {α β : Type} {f g : α → List β} {l : List α} (h : ∀ x ∈ l, f x = g x) :
    l.flatMap f = l.flatMap g := by
  induction l with
  | nil => rfl
  | cons x xs ih =>
    simp only [List.flatMap_cons, h x List.mem_cons_self, ih (fun y hy => h y (List.mem_cons_of_mem _ hy))]

theorem keyOf_flatten (k : K) (L : List (List (Entry K))) : keyOf k L.flatten = L.flatMap (keyOf k) := by
  induction L with
  | nil => rfl
  | cons l L ih => simp only [List.flatten_cons, keyOf_append, ih, List.flatMap_cons]

theorem keyOf_flatMap {α : Type} (k : K) (f : α → List (Entry K)) (l : List α) :
    keyOf k (l.flatMap f) = l.flatMap (fun a => keyOf k (f a)) := by
  simp only [keyOf, List.filter_flatMap]

theorem keyOf_sublist (k : K) (l : List (Entry K)) : (keyOf k l).Sublist l := List.filter_sublist

theorem IsSource.desc_keyOf {l : List (Entry K)} (h : IsSource l) (k : K) : Desc (keyOf k l) := by
  have h1 : IsSource (keyOf k l) := h.sublist (keyOf_sublist k l)
  refine List.Pairwise.imp_of_mem ?_ h1
  intro a b ha hb hab
  rw [ikLt_iff] at hab
  have hka := (mem_keyOf.1 ha).2
  have hkb := (mem_keyOf.1 hb).2
  have := lt_irrefl_key k
  grind

theorem distinctAcross2_symm {xs ys : List (Entry K)} (h : DistinctAcross2 xs ys) : DistinctAcross2 ys xs := by
  intro y hy x hx
  have := h x hx y hy
  have h1 := ikEq_iff x y
  have h2 := ikEq_iff y x
  grind

theorem DistinctAcross.reverse {srcs : List (List (Entry K))} (h : DistinctAcross srcs.reverse) :
    DistinctAcross srcs := by
  unfold DistinctAcross at *
  rw [List.pairwise_reverse] at h
  exact h.imp distinctAcross2_symm

/-- per-key strictly descending seqnos over a concatenation of sources ⇒ no `(key, seqno)` occurs in two sources -/
theorem distinctAcross_of_desc {ι : Type} (ids : List ι) (f : ι → List (Entry K))
    (h : ∀ k, Desc (ids.flatMap (fun i => keyOf k (f i)))) : DistinctAcross (ids.map f) := by
  unfold DistinctAcross
  rw [List.pairwise_map]
  have h2 := pairwise_forall (fun k a b => ∀ x ∈ keyOf k (f a), ∀ y ∈ keyOf k (f b), y.seqno < x.seqno) ids
    (fun k => (List.pairwise_flatMap.1 (h k)).2)
  refine h2.imp ?_
  intro a b hab x hx y hy
  cases he : ikEq x y with
  | false => rfl
  | true =>
    rw [ikEq_iff] at he
    have := hab x.key x (mem_keyOf.2 ⟨hx, rfl⟩) y (mem_keyOf.2 ⟨hy, he.1.symm⟩)
    omega

/-- the merge of ORD-ordered sources lists the versions of a key exactly as the concatenation in read order does -/
theorem keyOf_mergeAll_eq {srcs : List (List (Entry K))} (hs : ∀ s ∈ srcs, IsSource s) (hd : DistinctAcross srcs)
    (k : K) (L : List (Entry K)) (hL : Desc L) (hp : L.Perm (keyOf k srcs.flatten)) :
    keyOf k (mergeAll srcs) = L := by
  apply desc_perm_eq ((mergeAll_source hs hd).desc_keyOf k) hL
  exact ((mergeAll_perm srcs).filter _).trans hp.symm

/-! ## Step C: the GC stream keeps the live head of a key's history -/

theorem live_head_replace (wm : Nat) (ev : Bool) (k : K) (A mid B : List (Entry K))
    (hk : SingleKey k mid) (hw : ∀ e ∈ mid, e.vt ≠ .weak) (hB : ev = true → mid ≠ [] → B = []) :
    live (A ++ (cstream wm ev noFilter mid).1 ++ B).head? = live (A ++ mid ++ B).head? := by
  rw [List.append_assoc, List.append_assoc]
  apply live_head_append_congr
  by_cases hne : mid = []
  · subst hne; rw [cstream_nil]
  · cases ev with
    | false =>
      have h := cstream_nonempty_noevict wm k mid hk hw hne
      rw [List.head?_append, List.head?_append, h]
    | true =>
      rw [hB rfl hne, List.append_nil, List.append_nil]
      exact cstream_head_noweak wm true k mid hk hw

/-! ## memtable inserts -/

theorem keyOf_memInsert (k : K) (e : Entry K) (l : List (Entry K))
    (htop : ∀ x ∈ l, x.key = e.key → x.seqno < e.seqno) :
    keyOf k (memInsert e l) = if e.key = k then e :: keyOf k l else keyOf k l := by
  induction l with
  | nil => simp [memInsert, keyOf_cons]
  | cons x xs ih =>
    have ih := ih (fun y hy => htop y (List.mem_cons_of_mem _ hy))
    have hx := htop x List.mem_cons_self
    unfold memInsert
    split
    · rw [keyOf_cons]
    · next h1 =>
      have h1' := ikLt_iff e x
      split
      · next h2 =>
        rw [ikEq_iff] at h2
        have := hx h2.1.symm
        omega
      · next h2 =>
        rw [keyOf_cons, ih, keyOf_cons]
        by_cases hxk : x.key = k
        · have hne : ¬ e.key = k := by
            intro hek
            have := hx (hxk.trans hek.symm)
            grind
          simp [hxk, hne]
        · simp [hxk]

theorem keyOf_foldl_memInsert (k : K) (es l : List (Entry K)) (hnd : (es.map (·.key)).Nodup)
    (htop : ∀ e ∈ es, ∀ x ∈ l, x.key = e.key → x.seqno < e.seqno) :
    keyOf k (es.foldl (fun acc e => memInsert e acc) l) = keyOf k es ++ keyOf k l := by
  induction es generalizing l with
  | nil => simp [keyOf]
  | cons e es ih =>
    rw [List.map_cons, List.nodup_cons] at hnd
    rw [List.foldl_cons, ih (memInsert e l) hnd.2]
    · rw [keyOf_memInsert k e l (htop e List.mem_cons_self), keyOf_cons]
      by_cases hek : e.key = k
      · have : keyOf k es = [] := by
          apply keyOf_eq_nil
          intro x hx hxk
          exact hnd.1 (List.mem_map.2 ⟨x, hx, hxk.trans hek.symm⟩)
        simp [hek, this]
      · simp [hek]
    · intro e' he' x hx hk
      rcases mem_memInsert hx with rfl | hx
      · exact absurd (List.mem_map.2 ⟨e', he', hk.symm⟩) hnd.1
      · exact htop e' (List.mem_cons_of_mem _ he') x hx hk

theorem keyOf_length_le_one (k : K) (es : List (Entry K)) (hnd : (es.map (·.key)).Nodup) :
    (keyOf k es).length ≤ 1 := by
  induction es with
  | nil => simp [keyOf]
  | cons e es ih =>
    rw [List.map_cons, List.nodup_cons] at hnd
    rw [keyOf_cons]
    split
    · next hek =>
      have : keyOf k es = [] := by
        apply keyOf_eq_nil
        intro x hx hxk
        exact hnd.1 (List.mem_map.2 ⟨x, hx, hxk.trans hek.symm⟩)
      simp [this]
    · exact ih hnd.2

/-! ## the invariant -/

/-- what C01 needs to know about one super version of a state -/
structure GoodSv (t : TreeState K) (sv : SuperVersion K) : Prop where
  vwf : sv.version.WF
  lvl : sv.version.levels.length = t.levelCount
  act : ∀ id ∈ sv.active :: sv.sealed, ∃ m ∈ t.mems, m.id = id
  nin : sv.active ∉ sv.sealed
  below : ∀ k, ∀ e ∈ keyHist t sv k, e.seqno < t.seqCtr
  noweak : ∀ k, ∀ e ∈ keyHist t sv k, e.vt ≠ .weak
  ord : ∀ k, Desc (keyHist t sv k)

/-- the C01 invariant of a state: structural well-formedness, no key-value separation, and the latest super
    version is `GoodSv` and is the one every snapshot at or above the counter resolves to -/
structure Good (t : TreeState K) : Prop where
  wf : t.WF
  blob : t.blobTh = none
  sv : ∃ sv, t.latest? = some sv ∧ GoodSv t sv ∧ (sv.seqno < t.seqCtr ∨ (t.seqCtr = 0 ∧ t.hist = [sv]))

/-- what a reader of the latest super version gets for `k` (above every seqno) -/
def readOf (t : TreeState K) (k : K) : Option (Entry K) :=
  match t.latest? with
  | some sv => live (keyHist t sv k).head?
  | none => none

theorem keyHist_congr (t t' : TreeState K) (sv sv' : SuperVersion K) (ha : sv'.active = sv.active)
    (hs : sv'.sealed = sv.sealed) (hv : sv'.version = sv.version)
    (hm : ∀ id ∈ sv.active :: sv.sealed, t'.mem id = t.mem id) (k : K) :
    keyHist t' sv' k = keyHist t sv k := by
  rw [keyHist_eq, keyHist_eq, memHist, memHist, ha, hs, hv, hm sv.active List.mem_cons_self]
  congr 2
  apply flatMap_congr'
  intro id hid
  rw [hm id (List.mem_cons_of_mem _ (List.mem_reverse.1 hid))]

theorem GoodSv.transfer {t t' : TreeState K} {sv sv' : SuperVersion K} (h : GoodSv t sv)
    (hk : ∀ k, keyHist t' sv' k = keyHist t sv k) (hv : sv'.version = sv.version)
    (hl : t'.levelCount = t.levelCount) (hc : t.seqCtr ≤ t'.seqCtr)
    (hact : ∀ id ∈ sv'.active :: sv'.sealed, ∃ m ∈ t'.mems, m.id = id) (hnin : sv'.active ∉ sv'.sealed) :
    GoodSv t' sv' where
  vwf := hv ▸ h.vwf
  lvl := by rw [hv, hl]; exact h.lvl
  act := hact
  nin := hnin
  below := fun k e he => Nat.lt_of_lt_of_le (h.below k e (hk k ▸ he)) hc
  noweak := fun k e he => h.noweak k e (hk k ▸ he)
  ord := fun k => hk k ▸ h.ord k

theorem latest_install (t : TreeState K) (sv : SuperVersion K) (wm : Nat) :
    (t.install sv wm).latest? = some { sv with seqno := t.seqCtr } := by
  have h := maintenance_latest (t.hist ++ [{ sv with seqno := t.seqCtr }]) wm (by simp)
  simp only [latest] at h
  rw [TreeState.latest?, install_hist, h]
  simp

theorem install_blobTh (t : TreeState K) (sv : SuperVersion K) (wm : Nat) :
    (t.install sv wm).blobTh = t.blobTh := rfl

theorem install_levelCount (t : TreeState K) (sv : SuperVersion K) (wm : Nat) :
    (t.install sv wm).levelCount = t.levelCount := rfl

theorem latest_mem_hist {t : TreeState K} {sv : SuperVersion K} (h : t.latest? = some sv) : sv ∈ t.hist :=
  List.mem_of_getLast? h

theorem install_keyHist (t : TreeState K) (sv : SuperVersion K) (wm : Nat) (k : K) :
    keyHist (t.install sv wm) { sv with seqno := t.seqCtr } k = keyHist t sv k := by
  apply keyHist_congr _ _ _ _ rfl rfl rfl
  intro id hid
  exact install_mem t sv wm _ (latest_mem_hist (latest_install t sv wm)) id hid

/-- installing a `GoodSv` super version gives a `Good` state whose reads are those of the installed version -/
theorem install_good {t : TreeState K} (hwf : t.WF) (hb : t.blobTh = none) (sv : SuperVersion K) (wm : Nat)
    (h : GoodSv t sv) :
    Good (t.install sv wm) ∧ ∀ k, readOf (t.install sv wm) k = live (keyHist t sv k).head? := by
  have hl := latest_install t sv wm
  refine ⟨⟨install_WF hwf sv wm, hb, _, hl, ?_, Or.inl ?_⟩, ?_⟩
  · apply h.transfer (install_keyHist t sv wm) rfl rfl
    · rw [install_seqCtr]; omega
    · intro id hid
      obtain ⟨m, hm, hmid⟩ := h.act id hid
      refine ⟨m, ?_, hmid⟩
      rw [install_mems, List.mem_filter]
      refine ⟨hm, ?_⟩
      rw [List.contains_iff_mem, List.mem_flatMap]
      exact ⟨_, latest_mem_hist hl, by rw [hmid]; exact hid⟩
    · exact h.nin
  · rw [install_seqCtr]; exact Nat.lt_succ_self _
  · intro k
    rw [readOf, hl]
    simp only
    rw [install_keyHist]

/-! ## Step B: rotate -/

theorem rotate_good {t : TreeState K} (h : Good t) (n : Nat) (hf : t.freshMem n = true) :
    Good (t.rotate n) ∧ ∀ k, readOf (t.rotate n) k = readOf t k := by
  rcases rotate_cases t n with he | ⟨r, sv, hr, he⟩
  · rw [he]; exact ⟨h, fun _ => rfl⟩
  · obtain ⟨sv0, hl0, hg, hseq⟩ := h.sv
    have hl : t.latest? = some sv := by simp [TreeState.latest?, hr]
    have : sv0 = sv := Option.some.inj (hl0.symm.trans hl)
    subst this
    let sv' : SuperVersion K := { sv0 with active := n, sealed := sv0.sealed ++ [sv0.active] }
    have hl' : (t.rotate n).latest? = some sv' := by rw [he]; simp [TreeState.latest?, sv']
    have hmem : ∀ id, (t.rotate n).mem id = t.mem id := by
      intro id; rw [he]; exact memOf_append_empty t.mems n id
    have hk : ∀ k, keyHist (t.rotate n) sv' k = keyHist t sv0 k := by
      intro k
      rw [keyHist_eq, keyHist_eq, memHist, memHist]
      simp only [sv', hmem, mem_fresh t n hf, keyOf_nil, List.nil_append, List.reverse_append,
        List.reverse_cons, List.reverse_nil, List.flatMap_append, List.flatMap_cons, List.flatMap_nil,
        List.append_nil]
    refine ⟨⟨rotate_WF h.wf n hf, by rw [he]; exact h.blob, sv', hl', ?_, ?_⟩, ?_⟩
    · apply hg.transfer hk rfl (by rw [he]) (by rw [he]; exact Nat.le_refl _)
      · intro id hid
        rw [he]
        simp only [sv', List.mem_cons, List.mem_append, List.not_mem_nil, or_false] at hid
        rcases hid with rfl | hid
        · exact ⟨_, List.mem_append_right _ List.mem_cons_self, rfl⟩
        · obtain ⟨m, hm, hmid⟩ := hg.act id (by
            rcases hid with hid | rfl
            · exact List.mem_cons_of_mem _ hid
            · exact List.mem_cons_self)
          exact ⟨m, List.mem_append_left _ hm, hmid⟩
      · intro hn
        simp only [sv', List.mem_append, List.mem_cons, List.not_mem_nil, or_false] at hn
        obtain ⟨m, hm, hmid⟩ := hg.act n (by
          rcases hn with hn | hn
          · exact List.mem_cons_of_mem _ hn
          · rw [hn]; exact List.mem_cons_self)
        exact (freshMem_iff t n).1 hf m hm hmid
    · rw [he]
      rcases hseq with h1 | ⟨h1, h2⟩
      · exact Or.inl h1
      · right
        refine ⟨h1, ?_⟩
        rw [hr] at h2
        have : r = [] := by
          cases r with
          | nil => rfl
          | cons a r => simp at h2
        simp [this, sv']
    · intro k
      rw [readOf, readOf, hl', hl0]
      simp only
      rw [hk]

/-! ## Step B: write -/

theorem memOf_map_ne (a : Nat) (F : List (Entry K) → List (Entry K)) (ms : List (MemtableM K)) (id : Nat)
    (hne : id ≠ a) :
    memOf (ms.map (fun m => if m.id == a then { m with entries := F m.entries } else m)) id = memOf ms id := by
  induction ms with
  | nil => rfl
  | cons m ms ih =>
    rw [List.map_cons, memOf_cons, memOf_cons, ih]
    by_cases hm : m.id = a
    · have : ¬ a = id := by omega
      simp [hm, this]
    · simp [hm]

theorem memOf_map_eq (a : Nat) (F : List (Entry K) → List (Entry K)) (ms : List (MemtableM K))
    (hex : ∃ m ∈ ms, m.id = a) :
    memOf (ms.map (fun m => if m.id == a then { m with entries := F m.entries } else m)) a = F (memOf ms a) := by
  induction ms with
  | nil => simp at hex
  | cons m ms ih =>
    rw [List.map_cons, memOf_cons, memOf_cons]
    by_cases hm : m.id = a
    · simp [hm]
    · have hex' : ∃ m ∈ ms, m.id = a := by
        obtain ⟨m', hm', hid⟩ := hex
        rcases List.mem_cons.1 hm' with rfl | hm'
        · exact absurd hid hm
        · exact ⟨m', hm', hid⟩
      have ih' := ih hex'
      simp only [hm, beq_iff_eq, if_false] at ih' ⊢
      exact ih' 

/-- the last entry a write batch holds for `k` -/
def batchGet (es : List (Entry K)) (k : K) : Option (Entry K) := es.find? (fun e => decide (e.key = k))

theorem batchGet_eq_head (es : List (Entry K)) (k : K) : batchGet es k = (keyOf k es).head? := by
  rw [batchGet, keyOf, List.head?_filter]

theorem write_good {t t' : TreeState K} (h : Good t) {es : List (Entry K)} (hw : t.write es = some t')
    (hvt : ∀ e ∈ es, e.vt = .value ∨ e.vt = .tomb) (hnd : (es.map (·.key)).Nodup) :
    Good t' ∧ ∀ k, readOf t' k = match batchGet es k with
      | some e => live (some e)
      | none => readOf t k := by
  obtain ⟨sv, hl, hg, hseq⟩ := h.sv
  have hwf' := write_WF h.wf hw
  unfold TreeState.write at hw
  rw [hl] at hw
  simp only at hw
  split at hw
  · next hall =>
    cases hw
    have hseqno : ∀ e ∈ es, e.seqno = t.seqCtr := by simpa using hall
    generalize ht' : ({ t with
        mems := t.mems.map (fun m => if m.id == sv.active then
          { m with entries := es.foldl (fun acc e => memInsert e acc) m.entries } else m),
        seqCtr := t.seqCtr + 1, visible := max t.visible (t.seqCtr + 1) } : TreeState K) = t' at hwf'
    have hmem_ne : ∀ id, id ≠ sv.active → t'.mem id = t.mem id := by
      intro id hne; subst ht'
      exact memOf_map_ne sv.active (fun l => es.foldl (fun acc e => memInsert e acc) l) t.mems id hne
    have hmem_eq : t'.mem sv.active = es.foldl (fun acc e => memInsert e acc) (t.mem sv.active) := by
      subst ht'
      exact memOf_map_eq sv.active (fun l => es.foldl (fun acc e => memInsert e acc) l) t.mems
        (hg.act _ List.mem_cons_self)
    have hl' : t'.latest? = some sv := by subst ht'; exact hl
    have hk : ∀ k, keyHist t' sv k = keyOf k es ++ keyHist t sv k := by
      intro k
      rw [keyHist_eq, keyHist_eq, memHist, memHist, hmem_eq, keyOf_foldl_memInsert k es _ hnd]
      · rw [List.append_assoc, List.append_assoc, List.append_assoc]
        congr 3
        apply flatMap_congr'
        intro id hid
        rw [hmem_ne]
        intro he
        exact hg.nin (he ▸ List.mem_reverse.1 hid)
      · intro e he x hx hxk
        rw [hseqno e he]
        apply hg.below x.key x
        rw [keyHist_eq, List.mem_append, mem_memHist]
        exact Or.inl ⟨rfl, Or.inl hx⟩
    have hes : ∀ k, ∀ e ∈ keyOf k es, e.seqno = t.seqCtr ∧ e.vt ≠ .weak := by
      intro k e he
      have he' := (mem_keyOf.1 he).1
      refine ⟨hseqno e he', ?_⟩
      rcases hvt e he' with h1 | h1 <;> rw [h1] <;> decide
    have hctr : t'.seqCtr = t.seqCtr + 1 := by subst ht'; rfl
    refine ⟨⟨hwf', by subst ht'; exact h.blob, sv, hl', ?_, ?_⟩, ?_⟩
    · refine ⟨hg.vwf, by subst ht'; exact hg.lvl, ?_, hg.nin, ?_, ?_, ?_⟩
      · intro id hid
        obtain ⟨m, hm, hmid⟩ := hg.act id hid
        subst ht'
        refine ⟨_, List.mem_map.2 ⟨m, hm, rfl⟩, ?_⟩
        split <;> exact hmid
      · intro k e he
        rw [hk, List.mem_append] at he
        rw [hctr]
        rcases he with he | he
        · have := (hes k e he).1; omega
        · have := hg.below k e he; omega
      · intro k e he
        rw [hk, List.mem_append] at he
        rcases he with he | he
        · exact (hes k e he).2
        · exact hg.noweak k e he
      · intro k
        rw [hk, Desc, List.pairwise_append]
        refine ⟨?_, hg.ord k, ?_⟩
        · have hlen := keyOf_length_le_one k es hnd
          match hm : keyOf k es, hlen with
          | [], _ => exact List.Pairwise.nil
          | [a], _ => exact List.pairwise_singleton _ _
        · intro a ha b hb
          have := (hes k a ha).1
          have := hg.below k b hb
          omega
    · rw [hctr]
      rcases hseq with h1 | ⟨h1, h2⟩
      · left; omega
      · left; have := h.wf.below sv (latest_mem_hist hl); omega
    · intro k
      rw [readOf, readOf, hl', hl]
      simp only
      rw [hk, batchGet_eq_head, List.head?_append]
      cases (keyOf k es).head? with
      | some e => simp
      | none => simp
  · cases hw

/-! ## Step B: reopen (after a flush: every memtable of the latest super version is empty) -/

theorem reopen_good {t t' : TreeState K} (h : Good t) (hr : t.reopen = some t')
    (hempty : ∀ sv, t.latest? = some sv → ∀ id ∈ sv.active :: sv.sealed, t.mem id = []) :
    Good t' ∧ ∀ k, readOf t' k = readOf t k := by
  obtain ⟨sv, hl, hg, hseq⟩ := h.sv
  have hwf' := reopen_WF hr h.wf
  simp only [TreeState.reopen, hl, Option.map_some, Option.some.injEq] at hr
  let sv' : SuperVersion K := { active := 0, sealed := [], version := sv.version, seqno := 0 }
  have hl' : t'.latest? = some sv' := by subst hr; rfl
  have hmem0 : t'.mem 0 = [] := by subst hr; rfl
  have hk : ∀ k, keyHist t' sv' k = keyHist t sv k := by
    intro k
    rw [keyHist_eq, keyHist_eq, memHist, memHist]
    have h1 : keyOf k (t.mem sv.active) = [] := by rw [hempty sv hl _ List.mem_cons_self]; rfl
    have h2 : sv.sealed.reverse.flatMap (fun id => keyOf k (t.mem id)) = [] := by
      rw [List.flatMap_eq_nil_iff]
      intro id hid
      rw [hempty sv hl id (List.mem_cons_of_mem _ (List.mem_reverse.1 hid))]; rfl
    rw [h1, h2]
    simp [sv', hmem0, keyOf_nil]
  refine ⟨⟨hwf', by subst hr; exact h.blob, sv', hl', ?_, ?_⟩, ?_⟩
  · apply hg.transfer hk rfl (by subst hr; rfl) (by subst hr; exact Nat.le_refl _)
    · intro id hid
      simp only [sv', List.mem_cons, List.not_mem_nil, or_false] at hid
      subst hr; subst hid
      exact ⟨_, List.mem_cons_self, rfl⟩
    · simp [sv']
  · by_cases hc : t'.seqCtr = 0
    · right; subst hr; exact ⟨hc, rfl⟩
    · left; show 0 < t'.seqCtr; omega
  · intro k
    rw [readOf, readOf, hl', hl]
    simp only
    rw [hk]

/-! ## new tables, and the table part of the history through `keyTables` -/

theorem flatMap_keyOf_filter_contains (k : K) (l : List (TableM K))
    (hmeta : ∀ t ∈ l, ∀ e ∈ t.entries, t.containsKey e.key = true) :
    (l.filter (fun t => t.containsKey k)).flatMap (fun t => keyOf k t.entries)
      = l.flatMap (fun t => keyOf k t.entries) := by
  induction l with
  | nil => rfl
  | cons x xs ih =>
    have ih := ih (fun t ht => hmeta t (List.mem_cons_of_mem _ ht))
    rw [List.filter_cons]
    split
    · rw [List.flatMap_cons, List.flatMap_cons, ih]
    · next hc =>
      have : keyOf k x.entries = [] := by
        apply keyOf_eq_nil
        intro e he hek
        exact hc (hek ▸ hmeta x List.mem_cons_self e he)
      rw [List.flatMap_cons, this, List.nil_append, ih]

theorem tabHist_eq_keyTables {v : Version K} (hv : v.WF) (k : K) :
    tabHist v k = (keyTables v k).flatMap (fun t => keyOf k t.entries) := by
  rw [tabHist, keyTables, flatMap_keyOf_filter_contains k v.tables hv.meta_ok]

/-- the observed cuts are consistent: fresh pairwise distinct table ids, and tables end between distinct user keys -/
def cutsOk (cuts : List (Nat × Nat)) (stream : List (Entry K)) (v : Version K) : Prop :=
  (cuts.map (·.1)).Nodup ∧ (∀ c ∈ cuts, c.1 ∉ v.tableIds) ∧
    ∀ ts, cutTables cuts stream 0 = some ts → cutsBetweenKeys ts = true

structure NewTables (v : Version K) (stream : List (Entry K)) (ts : List (TableM K)) : Prop where
  sorted : RunSorted ts
  ids : (ts.map (·.id)).Nodup
  fresh : ∀ t ∈ ts, t.id ∉ v.tables.map (·.id)
  meta_ok : ∀ t ∈ ts, ∀ e ∈ t.entries, t.containsKey e.key = true
  src : ∀ t ∈ ts, IsSource t.entries
  entries : ts.flatMap (·.entries) = stream

theorem newTables_of_cut {cuts : List (Nat × Nat)} {stream : List (Entry K)} {v : Version K}
    {ts : List (TableM K)} (hs : IsSource stream) (hc : cutTables cuts stream 0 = some ts)
    (hok : cutsOk cuts stream v) : NewTables v stream ts := by
  obtain ⟨h1, h2, h3⟩ := cutTables_run hs hc (hok.2.2 ts hc)
  refine ⟨h1, ?_, ?_, h3, h2, cutTables_entries hc⟩
  · rw [cutTables_ids hc]; exact hok.1
  · intro t ht hmem
    have : t.id ∈ cuts.map (·.1) := by rw [← cutTables_ids hc]; exact List.mem_map.2 ⟨t, ht, rfl⟩
    obtain ⟨c, hc', hce⟩ := List.mem_map.1 this
    exact hok.2.1 c hc' (by rw [hce]; exact hmem)

theorem NewTables.keyOf_filter {v : Version K} {stream : List (Entry K)} {ts : List (TableM K)}
    (h : NewTables v stream ts) (k : K) :
    (ts.filter (fun t => t.containsKey k)).flatMap (fun t => keyOf k t.entries) = keyOf k stream := by
  rw [flatMap_keyOf_filter_contains k ts h.meta_ok, ← keyOf_flatMap, h.entries]

theorem GoodSv.of_sublist {t : TreeState K} {sv sv' : SuperVersion K} (h : GoodSv t sv)
    (hsub : ∀ k, (keyHist t sv' k).Sublist (keyHist t sv k)) (hv : sv'.version.WF)
    (hl : sv'.version.levels.length = t.levelCount)
    (hact : ∀ id ∈ sv'.active :: sv'.sealed, ∃ m ∈ t.mems, m.id = id) (hnin : sv'.active ∉ sv'.sealed) :
    GoodSv t sv' where
  vwf := hv
  lvl := hl
  act := hact
  nin := hnin
  below := fun k e he => h.below k e ((hsub k).subset he)
  noweak := fun k e he => h.noweak k e ((hsub k).subset he)
  ord := fun k => (h.ord k).sublist (hsub k)

/-! ## Step B: flush -/

theorem map_separate_none (l : List (Entry K)) : l.map (separate none) = l := by
  induction l with
  | nil => rfl
  | cons x xs ih => rw [List.map_cons, ih]; rfl

theorem sealed_desc {t : TreeState K} {sv : SuperVersion K} (hg : GoodSv t sv) (k : K) :
    Desc (sv.sealed.reverse.flatMap (fun id => keyOf k (t.mem id))) := by
  have h := hg.ord k
  rw [keyHist_eq, memHist, Desc, List.pairwise_append] at h
  exact (List.pairwise_append.1 h.1).2.1

/-- the merge of the sealed memtables lists every key's versions as the reader meets them (newest memtable first) -/
theorem sealed_merge {t : TreeState K} {sv : SuperVersion K} (hwf : t.WF) (hg : GoodSv t sv) :
    IsSource (mergeAll (sv.sealed.map t.mem)) ∧
    ∀ k, keyOf k (mergeAll (sv.sealed.map t.mem)) = sv.sealed.reverse.flatMap (fun id => keyOf k (t.mem id)) := by
  have hs : ∀ s ∈ sv.sealed.map t.mem, IsSource s := by
    intro s hs
    obtain ⟨id, _, rfl⟩ := List.mem_map.1 hs
    exact hwf.mem_source id
  have hd : DistinctAcross (sv.sealed.map t.mem) := by
    apply DistinctAcross.reverse
    rw [← List.map_reverse]
    exact distinctAcross_of_desc sv.sealed.reverse t.mem (sealed_desc hg)
  refine ⟨mergeAll_source hs hd, fun k => ?_⟩
  apply keyOf_mergeAll_eq hs hd k _ (sealed_desc hg k)
  rw [keyOf_flatten, List.flatMap_map]
  exact (List.reverse_perm sv.sealed).flatMap_right _

theorem withNewL0Run_length (v : Version K) (nt : Run K) : (v.withNewL0Run nt).levels.length = v.levels.length := by
  unfold Version.withNewL0Run
  split
  · next h => simp [h]
  · next l0 rest h => simp [h]

theorem flushSealed_good {t t' : TreeState K} (h : Good t) {wm : Nat} {cuts : List (Nat × Nat)}
    (hf : t.flushSealed wm cuts = some t') (hlc : 0 < t.levelCount)
    (hok : ∀ sv, t.latest? = some sv → cutsOk cuts (t.flushStream sv wm).1 sv.version) :
    Good t' ∧ ∀ k, readOf t' k = readOf t k := by
  obtain ⟨sv, hl, hg, hseq⟩ := h.sv
  unfold TreeState.flushSealed at hf
  rw [hl] at hf
  simp only at hf
  split at hf
  · split at hf
    · cases hf; exact ⟨h, fun _ => rfl⟩
    · cases hf
  · simp only [if_true, h.blob, map_separate_none] at hf
    split at hf
    · cases hf
    · next tables hcut =>
      cases hf
      obtain ⟨hsrcM, hkM⟩ := sealed_merge h.wf hg
      have hstream : IsSource (t.flushStream sv wm).1 := cstream_sorted wm false _ hsrcM
      have hnt := newTables_of_cut (v := sv.version) hstream hcut (hok sv hl)
      have h0 : 0 < sv.version.levels.length := by rw [hg.lvl]; exact hlc
      let sv' : SuperVersion K := { sv with version := sv.version.withNewL0Run tables, sealed := [] }
      -- the history before and after
      have hmid : ∀ k, SingleKey k (sv.sealed.reverse.flatMap (fun id => keyOf k (t.mem id))) := by
        intro k e he
        obtain ⟨id, _, he⟩ := List.mem_flatMap.1 he
        exact (mem_keyOf.1 he).2
      have hold : ∀ k, keyHist t sv k = keyOf k (t.mem sv.active)
          ++ sv.sealed.reverse.flatMap (fun id => keyOf k (t.mem id)) ++ tabHist sv.version k := by
        intro k; rw [keyHist_eq, memHist]
      have hnew : ∀ k, keyHist t sv' k = keyOf k (t.mem sv.active)
          ++ (cstream wm false noFilter (sv.sealed.reverse.flatMap (fun id => keyOf k (t.mem id)))).1
          ++ tabHist sv.version k := by
        intro k
        have hv' : (sv.version.withNewL0Run tables).WF :=
          withNewL0Run_WF hg.vwf tables hnt.sorted hnt.ids hnt.fresh hnt.meta_ok hnt.src
        rw [keyHist_eq, memHist]
        simp only [sv', List.reverse_nil, List.flatMap_nil, List.append_nil]
        rw [tabHist_eq_keyTables hv', withNewL0Run_keyTables hg.vwf tables h0 hnt.sorted hnt.ids hnt.fresh,
          List.flatMap_append, hnt.keyOf_filter, ← tabHist_eq_keyTables hg.vwf, TreeState.flushStream,
          (cstream_key_indep wm false noFilter k _ hsrcM.keysSorted).1, hkM, List.append_assoc]
      have hsub : ∀ k, (keyHist t sv' k).Sublist (keyHist t sv k) := by
        intro k
        rw [hold, hnew]
        exact ((List.Sublist.refl _).append (cstream_sub wm false _)).append (List.Sublist.refl _)
      have hg' : GoodSv t sv' := by
        apply hg.of_sublist hsub
        · exact withNewL0Run_WF hg.vwf tables hnt.sorted hnt.ids hnt.fresh hnt.meta_ok hnt.src
        · simp only [sv']; rw [withNewL0Run_length]; exact hg.lvl
        · intro id hid
          simp only [sv', List.mem_cons, List.not_mem_nil, or_false] at hid
          exact hg.act id (hid ▸ List.mem_cons_self)
        · simp [sv']
      obtain ⟨hgood, hread⟩ := install_good h.wf h.blob sv' wm hg'
      refine ⟨hgood, fun k => ?_⟩
      rw [hread k, readOf, hl]
      simp only
      rw [hold, hnew]
      apply live_head_replace wm false k _ _ _ (hmid k)
      · intro e he
        apply hg.noweak k e
        rw [hold]; exact List.mem_append_left _ (List.mem_append_right _ he)
      · intro hc; cases hc

/-! ## Step B: the commit of a concurrent flush -/

theorem flatMap_filter_of_nil {α β : Type} (l : List α) (p : α → Bool) (f : α → List β)
    (h : ∀ a ∈ l, p a = false → f a = []) : (l.filter p).flatMap f = l.flatMap f := by
  induction l with
  | nil => rfl
  | cons a l ih =>
    have ih := ih (fun x hx => h x (List.mem_cons_of_mem _ hx))
    rw [List.filter_cons]
    cases hp : p a with
    | true => simp only [if_true, List.flatMap_cons, ih]
    | false =>
      simp only [Bool.false_eq_true, if_false, List.flatMap_cons, ih, h a List.mem_cons_self hp, List.nil_append]

/-- the merge of any list of memtables whose per-key versions descend in read order (newest memtable first) lists
    every key's versions as the reader meets them (`sealed_merge` for a sub-list of the sealed memtables) -/
theorem mems_merge {t : TreeState K} (hwf : t.WF) (ids : List Nat)
    (hdesc : ∀ k, Desc (ids.reverse.flatMap (fun id => keyOf k (t.mem id)))) :
    IsSource (mergeAll (ids.map t.mem)) ∧
    ∀ k, keyOf k (mergeAll (ids.map t.mem)) = ids.reverse.flatMap (fun id => keyOf k (t.mem id)) := by
  have hs : ∀ s ∈ ids.map t.mem, IsSource s := by
    intro s hs
    obtain ⟨id, _, rfl⟩ := List.mem_map.1 hs
    exact hwf.mem_source id
  have hd : DistinctAcross (ids.map t.mem) := by
    apply DistinctAcross.reverse
    rw [← List.map_reverse]
    exact distinctAcross_of_desc ids.reverse t.mem hdesc
  refine ⟨mergeAll_source hs hd, fun k => ?_⟩
  apply keyOf_mergeAll_eq hs hd k _ (hdesc k)
  rw [keyOf_flatten, List.flatMap_map]
  exact (List.reverse_perm ids).flatMap_right _

/-- `register_tables` of a flush that ran concurrently: either the result is discarded (a snapshotted memtable is no
    longer sealed; the state is unchanged), or the flushed memtables `ids` are the OLDEST sealed ones — in read order
    the LAST memtable segment, directly in front of the tables — and the new L0 run takes exactly their place; the
    memtables sealed after the flusher's snapshot stay in front. -/
theorem flushCommit_good {t t' : TreeState K} (h : Good t) {ids : List Nat} {wm : Nat} {cuts : List (Nat × Nat)}
    (hf : t.flushCommit ids wm cuts = some t') (hlc : 0 < t.levelCount)
    (hok : ∀ sv, t.latest? = some sv → ids.all (fun i => sv.sealed.contains i) = false ∨
      (ids <+: sv.sealed ∧ cutsOk cuts (cstream wm false noFilter (mergeAll (ids.map t.mem))).1 sv.version)) :
    Good t' ∧ ∀ k, readOf t' k = readOf t k := by
  obtain ⟨sv, hl, hg, hseq⟩ := h.sv
  unfold TreeState.flushCommit at hf
  rw [hl] at hf
  simp only at hf
  split at hf
  · cases hf
  · split at hf
    · cases hf; exact ⟨h, fun _ => rfl⟩
    · next hall =>
      rcases hok sv hl with hno | ⟨⟨rest, hrest⟩, hcuts⟩
      · rw [hno] at hall; exact absurd rfl hall
      · simp only [h.blob, map_separate_none] at hf
        split at hf
        · cases hf
        · next tables hcut =>
          cases hf
          -- the sealed memtables in read order: the later ones (`rest`), then the flushed ones (`ids`)
          have hsd : ∀ k, Desc (rest.reverse.flatMap (fun id => keyOf k (t.mem id))
              ++ ids.reverse.flatMap (fun id => keyOf k (t.mem id))) := by
            intro k
            have := sealed_desc hg k
            rw [← hrest, List.reverse_append, List.flatMap_append] at this
            exact this
          have hidsDesc : ∀ k, Desc (ids.reverse.flatMap (fun id => keyOf k (t.mem id))) :=
            fun k => (List.pairwise_append.1 (hsd k)).2.1
          -- an id occurring in both parts names an empty memtable
          have hdup : ∀ id ∈ rest, id ∈ ids → ∀ k, keyOf k (t.mem id) = [] := by
            intro id hr hi k
            rw [List.eq_nil_iff_forall_not_mem]
            intro e he
            have := (List.pairwise_append.1 (hsd k)).2.2 e
              (List.mem_flatMap.2 ⟨id, List.mem_reverse.2 hr, he⟩) e
              (List.mem_flatMap.2 ⟨id, List.mem_reverse.2 hi, he⟩)
            omega
          have hfil : sv.sealed.filter (fun i => !ids.contains i) = rest.filter (fun i => !ids.contains i) := by
            rw [← hrest, List.filter_append]
            have : ids.filter (fun i => !ids.contains i) = [] := by
              rw [List.filter_eq_nil_iff]
              intro a ha
              simp [ha]
            rw [this, List.nil_append]
          have hnewSealed : ∀ k, (sv.sealed.filter (fun i => !ids.contains i)).reverse.flatMap
              (fun id => keyOf k (t.mem id)) = rest.reverse.flatMap (fun id => keyOf k (t.mem id)) := by
            intro k
            rw [hfil, ← List.filter_reverse]
            apply flatMap_filter_of_nil
            intro id hid hp
            have hi : id ∈ ids := by simpa using hp
            exact hdup id (List.mem_reverse.1 hid) hi k
          obtain ⟨hsrcM, hkM⟩ := mems_merge h.wf ids hidsDesc
          have hstream : IsSource (cstream wm false noFilter (mergeAll (ids.map t.mem))).1 :=
            cstream_sorted wm false _ hsrcM
          have hnt := newTables_of_cut (v := sv.version) hstream hcut hcuts
          have h0 : 0 < sv.version.levels.length := by rw [hg.lvl]; exact hlc
          let sv' : SuperVersion K := { sv with version := sv.version.withNewL0Run tables,
                                                sealed := sv.sealed.filter (fun i => !ids.contains i) }
          have hmid : ∀ k, SingleKey k (ids.reverse.flatMap (fun id => keyOf k (t.mem id))) := by
            intro k e he
            obtain ⟨id, _, he⟩ := List.mem_flatMap.1 he
            exact (mem_keyOf.1 he).2
          have hold : ∀ k, keyHist t sv k = (keyOf k (t.mem sv.active)
              ++ rest.reverse.flatMap (fun id => keyOf k (t.mem id)))
              ++ ids.reverse.flatMap (fun id => keyOf k (t.mem id)) ++ tabHist sv.version k := by
            intro k
            rw [keyHist_eq, memHist, ← hrest, List.reverse_append, List.flatMap_append]
            simp only [List.append_assoc]
          have hv' : (sv.version.withNewL0Run tables).WF :=
            withNewL0Run_WF hg.vwf tables hnt.sorted hnt.ids hnt.fresh hnt.meta_ok hnt.src
          have hnew : ∀ k, keyHist t sv' k = (keyOf k (t.mem sv.active)
              ++ rest.reverse.flatMap (fun id => keyOf k (t.mem id)))
              ++ (cstream wm false noFilter (ids.reverse.flatMap (fun id => keyOf k (t.mem id)))).1
              ++ tabHist sv.version k := by
            intro k
            rw [keyHist_eq, memHist]
            simp only [sv']
            rw [hnewSealed k, tabHist_eq_keyTables hv',
              withNewL0Run_keyTables hg.vwf tables h0 hnt.sorted hnt.ids hnt.fresh,
              List.flatMap_append, hnt.keyOf_filter, ← tabHist_eq_keyTables hg.vwf,
              (cstream_key_indep wm false noFilter k _ hsrcM.keysSorted).1, hkM]
            simp only [List.append_assoc]
          have hsub : ∀ k, (keyHist t sv' k).Sublist (keyHist t sv k) := by
            intro k
            rw [hold, hnew]
            exact ((List.Sublist.refl _).append (cstream_sub wm false _)).append (List.Sublist.refl _)
          have hg' : GoodSv t sv' := by
            apply hg.of_sublist hsub hv'
            · simp only [sv']; rw [withNewL0Run_length]; exact hg.lvl
            · intro id hid
              simp only [sv', List.mem_cons, List.mem_filter] at hid
              rcases hid with rfl | ⟨hid, _⟩
              · exact hg.act _ List.mem_cons_self
              · exact hg.act id (List.mem_cons_of_mem _ hid)
            · intro hmem
              exact hg.nin (List.mem_filter.1 hmem).1
          obtain ⟨hgood, hread⟩ := install_good h.wf h.blob sv' wm hg'
          refine ⟨hgood, fun k => ?_⟩
          rw [hread k, readOf, hl]
          simp only
          rw [hold, hnew]
          apply live_head_replace wm false k _ _ _ (hmid k)
          · intro e he
            apply hg.noweak k e
            rw [hold]; exact List.mem_append_left _ (List.mem_append_right _ he)
          · intro hc; cases hc

/-! ## Step B: merge and move -/

theorem runs_flatMap_filter (rs : List (Run K)) (p : TableM K → Bool) (k : K) :
    rs.flatMap (fun r => keyOf k ((r.filter p).flatMap (·.entries)))
      = (rs.flatten.filter p).flatMap (fun t => keyOf k t.entries) := by
  induction rs with
  | nil => rfl
  | cons r rs ih =>
    rw [List.flatMap_cons, List.flatten_cons, List.filter_append, List.flatMap_append, ih, keyOf_flatMap]

theorem filter_filter_contains_flatMap {v : Version K} (hv : v.WF) (l : List (TableM K)) (hsub : ∀ t ∈ l, t ∈ v.tables)
    (q : TableM K → Bool) (k : K) :
    ((l.filter (fun t => t.containsKey k)).filter q).flatMap (fun t => keyOf k t.entries)
      = (l.filter q).flatMap (fun t => keyOf k t.entries) := by
  rw [filter_comm']
  apply flatMap_keyOf_filter_contains
  intro t ht
  exact hv.meta_ok t (hsub t (List.mem_filter.1 ht).1)

theorem mem_tables_of_above {v : Version K} {dest : Nat} {t : TableM K} (h : t ∈ v.tablesAbove dest) :
    t ∈ v.tables := by
  rw [v.tables_split dest]; exact List.mem_append_left _ h

theorem mem_tables_of_from {v : Version K} {dest : Nat} {t : TableM K} (h : t ∈ v.tablesFrom dest) :
    t ∈ v.tables := by
  rw [v.tables_split dest]; exact List.mem_append_right _ h

theorem tabHist_withMerge {v : Version K} (hv : v.WF) (ids : List Nat) (dest : Nat) (hdest : dest < v.levels.length)
    {stream : List (Entry K)} {ts : List (TableM K)} (hnt : NewTables v stream ts) (k : K) :
    tabHist (v.withMerge ids ts dest) k
      = ((v.tablesAbove dest).filter (fun t => !ids.contains t.id)).flatMap (fun t => keyOf k t.entries)
        ++ keyOf k stream
        ++ ((v.tablesFrom dest).filter (fun t => !ids.contains t.id)).flatMap (fun t => keyOf k t.entries) := by
  have hv' : (v.withMerge ids ts dest).WF :=
    withMerge_WF hv ids ts dest hnt.sorted hnt.ids hnt.fresh hnt.meta_ok hnt.src
  rw [tabHist_eq_keyTables hv', withMerge_keyTables hv ids ts dest hdest hnt.sorted hnt.ids hnt.fresh,
    List.flatMap_append, List.flatMap_append, hnt.keyOf_filter,
    filter_filter_contains_flatMap hv _ (fun t => mem_tables_of_above),
    filter_filter_contains_flatMap hv _ (fun t => mem_tables_of_from)]

theorem tabHist_withMoved {v : Version K} (hv : v.WF) (ids : List Nat) (dest : Nat) (hdest : dest < v.levels.length)
    (k : K) :
    tabHist (v.withMoved ids dest) k
      = ((v.tablesAbove dest).filter (fun t => !ids.contains t.id)).flatMap (fun t => keyOf k t.entries)
        ++ (v.tables.filter (fun t => ids.contains t.id)).flatMap (fun t => keyOf k t.entries)
        ++ ((v.tablesFrom dest).filter (fun t => !ids.contains t.id)).flatMap (fun t => keyOf k t.entries) := by
  rw [tabHist_eq_keyTables (withMoved_WF hv ids dest), withMoved_keyTables hv ids dest hdest,
    List.flatMap_append, List.flatMap_append,
    filter_filter_contains_flatMap hv _ (fun t => mem_tables_of_above),
    filter_filter_contains_flatMap hv _ (fun t => mem_tables_of_from)]
  congr 2
  rw [Version.affected]
  apply flatMap_keyOf_filter_contains
  intro t ht
  exact hv.meta_ok t (List.mem_filter.1 ht).1

theorem withMerge_length (v : Version K) (ids : List Nat) (nt : Run K) (dest : Nat) :
    (v.withMerge ids nt dest).levels.length = v.levels.length := by
  simp [Version.withMerge]

theorem withMoved_length (v : Version K) (ids : List Nat) (dest : Nat) :
    (v.withMoved ids dest).levels.length = v.levels.length := by
  simp [Version.withMoved]

/-- the compaction inputs, merged, list every key's versions as the reader meets them in the input tables -/
theorem mergeInputs_spec {v : Version K} (hv : v.WF) (ids : List Nat)
    (hdesc : ∀ k, Desc ((v.tables.filter (fun t => ids.contains t.id)).flatMap (fun t => keyOf k t.entries))) :
    IsSource (mergeInputs v ids) ∧
    ∀ k, keyOf k (mergeInputs v ids)
      = (v.tables.filter (fun t => ids.contains t.id)).flatMap (fun t => keyOf k t.entries) := by
  have hs : ∀ s ∈ v.runs.map (fun r => (r.filter (fun t => ids.contains t.id)).flatMap (·.entries)),
      IsSource s := by
    intro s hs
    obtain ⟨r, hr, rfl⟩ := List.mem_map.1 hs
    have hin : ∀ t ∈ r.filter (fun t => ids.contains t.id), t ∈ v.tables := by
      intro t ht
      exact List.mem_flatten.2 ⟨r, hr, (List.mem_filter.1 ht).1⟩
    exact run_entries_source ((hv.runs_ok r hr).sorted.sublist List.filter_sublist)
      (fun t ht => hv.src t (hin t ht)) (fun t ht => hv.meta_ok t (hin t ht))
  have heq : ∀ k, v.runs.flatMap (fun r => keyOf k ((r.filter (fun t => ids.contains t.id)).flatMap (·.entries)))
      = (v.tables.filter (fun t => ids.contains t.id)).flatMap (fun t => keyOf k t.entries) := by
    intro k; exact runs_flatMap_filter v.runs _ k
  have hd : DistinctAcross (v.runs.map (fun r => (r.filter (fun t => ids.contains t.id)).flatMap (·.entries))) := by
    apply distinctAcross_of_desc
    intro k; rw [heq]; exact hdesc k
  refine ⟨mergeAll_source hs hd, fun k => ?_⟩
  apply keyOf_mergeAll_eq hs hd k _ (hdesc k)
  rw [keyOf_flatten, List.flatMap_map, heq]

theorem mergeCommit_good {t t' : TreeState K} (h : Good t) {ids : List Nat} {dest wm : Nat}
    {f : Entry K → Verdict} {cuts : List (Nat × Nat)} (hm : t.mergeCommit ids dest wm f cuts = some t')
    (hok : ∀ sv, t.latest? = some sv →
      dest < t.levelCount ∧ admissible sv.version ids dest (dest + 1 == t.levelCount) = true ∧
      (∀ e ∈ mergeInputs sv.version ids, e.isTomb = false → f e = .keep) ∧
      cutsOk cuts (cstream wm (dest + 1 == t.levelCount) noFilter (mergeInputs sv.version ids)).1 sv.version) :
    Good t' ∧ ∀ k, readOf t' k = readOf t k := by
  obtain ⟨sv, hl, hg, hseq⟩ := h.sv
  obtain ⟨hdest, hadm, hfil, hcuts⟩ := hok sv hl
  unfold TreeState.mergeCommit at hm
  rw [hl] at hm
  simp only at hm
  rw [filter_never_sees_tombstone wm _ f noFilter _ hfil] at hm
  generalize hev : (dest + 1 == t.levelCount) = ev at hm hadm hcuts
  split at hm
  · cases hm
  · next tables hcut =>
    cases hm
    have hsplit := admissible_split sv.version ids dest ev hadm
    have hdescMid : ∀ k, Desc ((sv.version.tables.filter (fun t => ids.contains t.id)).flatMap
        (fun t => keyOf k t.entries)) := by
      intro k
      have h1 := hg.ord k
      rw [keyHist_eq, Desc, List.pairwise_append] at h1
      have h2 := h1.2.1
      rw [tabHist, hsplit k, List.pairwise_append, List.pairwise_append] at h2
      exact h2.1.2.1
    obtain ⟨hsrcM, hkM⟩ := mergeInputs_spec hg.vwf ids hdescMid
    have hstream : IsSource (cstream wm ev noFilter (mergeInputs sv.version ids)).1 :=
      cstream_sorted wm ev _ hsrcM
    have hnt := newTables_of_cut (v := sv.version) hstream hcut hcuts
    have hdest' : dest < sv.version.levels.length := by rw [hg.lvl]; exact hdest
    let sv' : SuperVersion K := { sv with version := sv.version.withMerge ids tables dest }
    have hmid : ∀ k, SingleKey k ((sv.version.tables.filter (fun t => ids.contains t.id)).flatMap
        (fun t => keyOf k t.entries)) := by
      intro k e he
      obtain ⟨tb, _, he⟩ := List.mem_flatMap.1 he
      exact (mem_keyOf.1 he).2
    have hold : ∀ k, keyHist t sv k = (memHist t sv k
        ++ ((sv.version.tablesAbove dest).filter (fun t => !ids.contains t.id)).flatMap (fun t => keyOf k t.entries))
        ++ (sv.version.tables.filter (fun t => ids.contains t.id)).flatMap (fun t => keyOf k t.entries)
        ++ ((sv.version.tablesFrom dest).filter (fun t => !ids.contains t.id)).flatMap
            (fun t => keyOf k t.entries) := by
      intro k; rw [keyHist_eq, tabHist, hsplit k]; simp only [List.append_assoc]
    have hnew : ∀ k, keyHist t sv' k = (memHist t sv k
        ++ ((sv.version.tablesAbove dest).filter (fun t => !ids.contains t.id)).flatMap (fun t => keyOf k t.entries))
        ++ (cstream wm ev noFilter ((sv.version.tables.filter (fun t => ids.contains t.id)).flatMap
              (fun t => keyOf k t.entries))).1
        ++ ((sv.version.tablesFrom dest).filter (fun t => !ids.contains t.id)).flatMap
            (fun t => keyOf k t.entries) := by
      intro k
      rw [keyHist_eq]
      have : memHist t sv' k = memHist t sv k := rfl
      rw [this]
      simp only [sv']
      rw [tabHist_withMerge hg.vwf ids dest hdest' hnt k,
        (cstream_key_indep wm ev noFilter k _ hsrcM.keysSorted).1, hkM]
      simp only [List.append_assoc]
    have hsub : ∀ k, (keyHist t sv' k).Sublist (keyHist t sv k) := by
      intro k
      rw [hold, hnew]
      exact ((List.Sublist.refl _).append (cstream_sub wm ev _)).append (List.Sublist.refl _)
    have hg' : GoodSv t sv' := by
      apply hg.of_sublist hsub
      · exact withMerge_WF hg.vwf ids tables dest hnt.sorted hnt.ids hnt.fresh hnt.meta_ok hnt.src
      · simp only [sv']; rw [withMerge_length]; exact hg.lvl
      · exact hg.act
      · exact hg.nin
    obtain ⟨hgood, hread⟩ := install_good h.wf h.blob sv' wm hg'
    refine ⟨hgood, fun k => ?_⟩
    rw [hread k, readOf, hl]
    simp only
    rw [hold, hnew]
    apply live_head_replace wm ev k _ _ _ (hmid k)
    · intro e he
      apply hg.noweak k e
      rw [hold]; exact List.mem_append_left _ (List.mem_append_right _ he)
    · intro hc hne
      subst hc
      exact admissible_evict_tail sv.version ids dest hadm k hne

theorem moveCommit_good {t t' : TreeState K} (h : Good t) {ids : List Nat} {dest wm : Nat}
    (hm : t.moveCommit ids dest wm = some t')
    (hok : ∀ sv, t.latest? = some sv →
      dest < t.levelCount ∧ admissible sv.version ids dest false = true) :
    Good t' ∧ ∀ k, readOf t' k = readOf t k := by
  obtain ⟨sv, hl, hg, hseq⟩ := h.sv
  obtain ⟨hdest, hadm⟩ := hok sv hl
  simp only [TreeState.moveCommit, hl, Option.map_some, Option.some.injEq] at hm
  subst hm
  have hdest' : dest < sv.version.levels.length := by rw [hg.lvl]; exact hdest
  let sv' : SuperVersion K := { sv with version := sv.version.withMoved ids dest }
  have hk : ∀ k, keyHist t sv' k = keyHist t sv k := by
    intro k
    rw [keyHist_eq, keyHist_eq]
    have : memHist t sv' k = memHist t sv k := rfl
    rw [this]
    simp only [sv']
    rw [tabHist_withMoved hg.vwf ids dest hdest' k, tabHist, admissible_split sv.version ids dest false hadm k]
  have hg' : GoodSv t sv' := by
    apply hg.of_sublist (fun k => by rw [hk k]; exact List.Sublist.refl _)
    · exact withMoved_WF hg.vwf ids dest
    · simp only [sv']; rw [withMoved_length]; exact hg.lvl
    · exact hg.act
    · exact hg.nin
  obtain ⟨hgood, hread⟩ := install_good h.wf h.blob sv' wm hg'
  refine ⟨hgood, fun k => ?_⟩
  rw [hread k, readOf, hl]
  simp only
  rw [hk]

/-! ## the guarded run (Step D, definitions and the step theorem) -/

/-- the entry a single operation writes for `k` (only `write` writes) -/
def Op.lastWriteOf (k : K) : Op K → Option (Entry K)
  | .write es => batchGet es k
  | _ => none

/-- the last entry written for `k` by a history (later operations win; batches have distinct keys) -/
def lastWrite : List (Op K) → K → Option (Entry K)
  | [], _ => none
  | op :: ops, k =>
    match lastWrite ops k with
    | some e => some e
    | none => op.lastWriteOf k

/-- C01's alphabet with its side conditions, evaluated on the state the operation is applied to:
    * `write`: plain values and (strong) tombstones only, one entry per key in a batch
    * `rotate`: no condition
    * `flush`: the tree has a level 0; the observed output tables have fresh distinct ids and end between distinct keys
    * `flushCommit ids`: the commit of a flush that ran concurrently. The tree has a level 0, `ids ≠ []`, and either
       some snapshotted memtable is no longer sealed (the result is discarded, the step is the identity), or `ids`
       is a PREFIX of the sealed list of the latest super version (the flusher snapshots the oldest sealed
       memtables; `sealed` is oldest first) and the output cuts are as for `flush`
    * `merge`: destination is a level of the tree, the choice is `admissible` (tombstones are evicted exactly when the
       destination is the last level), the compaction filter keeps every input entry it is shown, output cuts as
       for `flush`
    * `move`: destination is a level of the tree, the choice is `admissible` (no eviction)
    * `reopen`: only when every memtable of the latest super version is empty (reopen-after-flush)
    * `drop`, `clear`, `ingest` are not part of the alphabet -/
def okStep (t : TreeState K) : Op K → Prop
  | .write es => (∀ e ∈ es, e.vt = .value ∨ e.vt = .tomb) ∧ (es.map (·.key)).Nodup
  | .rotate _ => True
  | .flush wm m cuts =>
    0 < t.levelCount ∧
    ∀ sv, (t.rotate m).latest? = some sv → cutsOk cuts ((t.rotate m).flushStream sv wm).1 sv.version
  | .flushCommit ids wm cuts =>
    0 < t.levelCount ∧ ids ≠ [] ∧
    ∀ sv, t.latest? = some sv → ids.all (fun i => sv.sealed.contains i) = false ∨
      (ids <+: sv.sealed ∧ cutsOk cuts (cstream wm false noFilter (mergeAll (ids.map t.mem))).1 sv.version)
  | .merge ids dest wm f cuts =>
    ∀ sv, t.latest? = some sv →
      dest < t.levelCount ∧ admissible sv.version ids dest (dest + 1 == t.levelCount) = true ∧
      (∀ e ∈ mergeInputs sv.version ids, e.isTomb = false → f e = .keep) ∧
      cutsOk cuts (cstream wm (dest + 1 == t.levelCount) noFilter (mergeInputs sv.version ids)).1 sv.version
  | .move ids dest _ =>
    ∀ sv, t.latest? = some sv → dest < t.levelCount ∧ admissible sv.version ids dest false = true
  | .reopen => ∀ sv, t.latest? = some sv → ∀ id ∈ sv.active :: sv.sealed, t.mem id = []
  | .drop _ _ => False
  | .clear _ => False
  | .ingest _ _ _ _ => False

/-- a run in which every operation satisfies its side condition on the state it is applied to -/
inductive Reach : TreeState K → List (Op K) → TreeState K → Prop
  | refl (t : TreeState K) : Reach t [] t
  | step {t t' t'' : TreeState K} {op : Op K} {ops : List (Op K)} :
      okStep t op → t.applyOp op = some t' → Reach t' ops t'' → Reach t (op :: ops) t''

theorem rotate_levelCount (t : TreeState K) (n : Nat) : (t.rotate n).levelCount = t.levelCount := by
  rcases rotate_cases t n with he | ⟨r, sv, hr, he⟩ <;> rw [he]

/-- one guarded step keeps the invariant; reads change exactly by what the step wrote -/
theorem applyOp_good {t t' : TreeState K} {op : Op K} (h : Good t) (hok : okStep t op)
    (ha : t.applyOp op = some t') :
    Good t' ∧ ∀ k, readOf t' k = match op.lastWriteOf k with
      | some e => live (some e)
      | none => readOf t k := by
  cases op with
  | write es => exact write_good h ha hok.1 hok.2
  | rotate m =>
    simp only [TreeState.applyOp] at ha
    split at ha
    · next hf => cases ha; exact rotate_good h m hf
    · cases ha
  | flush wm m cuts =>
    simp only [TreeState.applyOp] at ha
    split at ha
    · next hf =>
      obtain ⟨h1, hr1⟩ := rotate_good h m hf
      obtain ⟨h2, hr2⟩ := flushSealed_good h1 ha (by rw [rotate_levelCount]; exact hok.1) hok.2
      exact ⟨h2, fun k => by simp only [Op.lastWriteOf]; rw [hr2, hr1]⟩
    · cases ha
  | flushCommit ids wm cuts => exact flushCommit_good h ha hok.1 hok.2.2
  | merge ids dest wm f cuts => exact mergeCommit_good h ha hok
  | move ids dest wm => exact moveCommit_good h ha hok
  | drop ids wm => exact hok.elim
  | clear m => exact hok.elim
  | ingest m fc items cuts => exact hok.elim
  | reopen => exact reopen_good h ha hok

theorem reach_good {t t' : TreeState K} {ops : List (Op K)} (hr : Reach t ops t') (h : Good t) :
    Good t' ∧ ∀ k, readOf t' k = match lastWrite ops k with
      | some e => live (some e)
      | none => readOf t k := by
  induction hr with
  | refl t => exact ⟨h, fun _ => rfl⟩
  | step hok ha _ ih =>
    obtain ⟨h1, hr1⟩ := applyOp_good h hok ha
    obtain ⟨h2, hr2⟩ := ih h1
    refine ⟨h2, fun k => ?_⟩
    rw [hr2 k, lastWrite]
    cases lastWrite _ k with
    | some e => rfl
    | none => exact hr1 k

theorem version_empty_tables (id n : Nat) : (Version.empty id n : Version K).tables = [] := by
  simp [Version.empty, Version.tables]

theorem version_empty_WF (id n : Nat) : (Version.empty id n : Version K).WF := by
  have hr : (Version.empty id n : Version K).runs = [] := by simp [Version.empty, Version.runs]
  have ht := version_empty_tables (K := K) id n
  refine ⟨?_, ?_, ?_, ?_⟩
  · rw [hr]; intro r hr; cases hr
  · rw [ht]; exact List.nodup_nil
  · rw [ht]; intro t ht; cases ht
  · rw [ht]; intro t ht; cases ht

theorem good_init (n : Nat) : Good (TreeState.init n none : TreeState K) := by
  let sv : SuperVersion K := { active := 0, sealed := [], version := Version.empty 0 n, seqno := 0 }
  have hk : ∀ k, keyHist (TreeState.init n none : TreeState K) sv k = [] := by
    intro k
    rw [keyHist_eq, memHist, tabHist]
    have : (TreeState.init n none : TreeState K).mem 0 = [] := rfl
    simp only [sv, this, version_empty_tables]
    rfl
  refine ⟨WF_init n none, rfl, sv, rfl, ?_, Or.inr ⟨rfl, rfl⟩⟩
  refine ⟨version_empty_WF 0 n, ?_, ?_, ?_, ?_, ?_, ?_⟩
  · simp [sv, Version.empty, TreeState.init]
  · intro id hid
    simp only [sv, List.mem_cons, List.not_mem_nil, or_false] at hid
    subst hid
    exact ⟨_, List.mem_cons_self, rfl⟩
  · simp [sv]
  · intro k e he; rw [hk] at he; cases he
  · intro k e he; rw [hk] at he; cases he
  · intro k; rw [hk]; exact List.Pairwise.nil

theorem readOf_init (n : Nat) (k : K) : readOf (TreeState.init n none : TreeState K) k = none := by
  simp only [readOf, TreeState.init, TreeState.latest?, List.getLast?_singleton]
  rw [keyHist_eq, memHist, tabHist]
  simp only [version_empty_tables]
  rfl

/-- in a `Good` state every snapshot at or above the counter reads the live head of the key's history -/
theorem good_getAt {t : TreeState K} (h : Good t) (k : K) (S : Nat) (hS : t.seqCtr ≤ S) :
    t.getAt k S = some (readOf t k) := by
  obtain ⟨sv, hl, hg, hseq⟩ := h.sv
  have hres : getVersionForSnapshot t.hist S = some sv := by
    unfold getVersionForSnapshot
    split
    · next h0 =>
      rcases hseq with h1 | ⟨h1, h2⟩
      · omega
      · rw [h2]; rfl
    · next h0 =>
      obtain ⟨r, hr⟩ := List.getLast?_eq_some_iff.1 hl
      have hlt : sv.seqno < S := by
        rcases hseq with h1 | ⟨h1, h2⟩
        · omega
        · have := h.wf.below sv (latest_mem_hist hl); omega
      rw [hr, List.reverse_append, List.reverse_singleton, List.singleton_append, List.find?_cons]
      simp [hlt]
  rw [TreeState.getAt, hres, Option.map_some, readOf, hl]
  simp only
  rw [svGet_eq_head t sv h.wf.mem_source hg.vwf k S]
  intro e he
  exact Nat.lt_of_lt_of_le (hg.below k e he) hS

/-! ## executable side conditions -/

def cutsOkB (cuts : List (Nat × Nat)) (stream : List (Entry K)) (v : Version K) : Bool :=
  decide ((cuts.map (·.1)).Nodup) && cuts.all (fun c => !v.tableIds.contains c.1) &&
    (match cutTables cuts stream 0 with
     | some ts => cutsBetweenKeys ts
     | none => true)

theorem cutsOkB_sound {cuts : List (Nat × Nat)} {stream : List (Entry K)} {v : Version K}
    (h : cutsOkB cuts stream v = true) : cutsOk cuts stream v := by
  simp only [cutsOkB, Bool.and_eq_true, decide_eq_true_eq, List.all_eq_true, Bool.not_eq_true'] at h
  refine ⟨h.1.1, fun c hc hmem => ?_, ?_⟩
  · have := h.1.2 c hc
    rw [List.contains_iff_mem.2 hmem] at this
    cases this
  intro ts hts
  have := h.2
  rw [hts] at this
  exact this

/-- `okStep` as a Bool (for an executable check of an observed history) -/
def okStepB (t : TreeState K) : Op K → Bool
  | .write es => es.all (fun e => e.vt == .value || e.vt == .tomb) && decide ((es.map (·.key)).Nodup)
  | .rotate _ => true
  | .flush wm m cuts =>
    decide (0 < t.levelCount) &&
      (match (t.rotate m).latest? with
       | some sv => cutsOkB cuts ((t.rotate m).flushStream sv wm).1 sv.version
       | none => true)
  | .flushCommit ids wm cuts =>
    decide (0 < t.levelCount) && !ids.isEmpty &&
      (match t.latest? with
       | some sv => !(ids.all (fun i => sv.sealed.contains i)) ||
          (ids.isPrefixOf sv.sealed &&
            cutsOkB cuts (cstream wm false noFilter (mergeAll (ids.map t.mem))).1 sv.version)
       | none => true)
  | .merge ids dest wm f cuts =>
    match t.latest? with
    | some sv =>
      decide (dest < t.levelCount) && admissible sv.version ids dest (dest + 1 == t.levelCount) &&
        (mergeInputs sv.version ids).all (fun e => e.isTomb || f e == .keep) &&
        cutsOkB cuts (cstream wm (dest + 1 == t.levelCount) noFilter (mergeInputs sv.version ids)).1 sv.version
    | none => true
  | .move ids dest _ =>
    match t.latest? with
    | some sv => decide (dest < t.levelCount) && admissible sv.version ids dest false
    | none => true
  | .reopen =>
    match t.latest? with
    | some sv => (sv.active :: sv.sealed).all (fun id => (t.mem id).isEmpty)
    | none => true
  | .drop _ _ => false
  | .clear _ => false
  | .ingest _ _ _ _ => false

theorem okStepB_sound {t : TreeState K} {op : Op K} (h : okStepB t op = true) : okStep t op := by
  cases op with
  | write es =>
    simp only [okStepB, Bool.and_eq_true, List.all_eq_true, Bool.or_eq_true, beq_iff_eq,
      decide_eq_true_eq] at h
    exact h
  | rotate m => trivial
  | flush wm m cuts =>
    simp only [okStepB, Bool.and_eq_true, decide_eq_true_eq] at h
    refine ⟨h.1, fun sv hsv => ?_⟩
    have := h.2
    rw [hsv] at this
    exact cutsOkB_sound this
  | flushCommit ids wm cuts =>
    simp only [okStepB, Bool.and_eq_true, decide_eq_true_eq, Bool.not_eq_true', List.isEmpty_eq_false_iff] at h
    refine ⟨h.1.1, h.1.2, fun sv hsv => ?_⟩
    have := h.2
    rw [hsv] at this
    simp only [Bool.or_eq_true, Bool.not_eq_true', Bool.and_eq_true, List.isPrefixOf_iff_prefix] at this
    rcases this with h1 | ⟨h1, h2⟩
    · exact Or.inl h1
    · exact Or.inr ⟨h1, cutsOkB_sound h2⟩
  | merge ids dest wm f cuts =>
    intro sv hsv
    simp only [okStepB, hsv, Bool.and_eq_true, decide_eq_true_eq, List.all_eq_true, Bool.or_eq_true,
      beq_iff_eq] at h
    refine ⟨h.1.1.1, h.1.1.2, ?_, cutsOkB_sound h.2⟩
    intro e he hnt
    rcases h.1.2 e he with h1 | h1
    · rw [hnt] at h1; cases h1
    · exact h1
  | move ids dest wm =>
    intro sv hsv
    simp only [okStepB, hsv, Bool.and_eq_true, decide_eq_true_eq] at h
    exact h
  | drop ids wm => cases h
  | clear m => cases h
  | ingest m fc items cuts => cases h
  | reopen =>
    intro sv hsv id hid
    simp only [okStepB, hsv, List.all_eq_true, List.isEmpty_iff] at h
    exact h id hid

end Lsm
