import LsmModel.Range
/-
  LsmModel.Lemmas.PrefixLemmas — `prefix_to_range p` selects exactly the keys that start with `p`.
-/
namespace Lsm

/-! ### `startsWith` -/

theorem startsWith_nil (k : ByteKey) : startsWith k [] = true := by
  cases k <;> rfl

theorem startsWith_cons_cons (c : UInt8) (ks : ByteKey) (b : UInt8) (ps : ByteKey) :
    startsWith (c :: ks) (b :: ps) = (c == b && startsWith ks ps) := rfl

theorem startsWith_nil_cons (b : UInt8) (ps : ByteKey) : startsWith [] (b :: ps) = false := rfl

theorem startsWith_iff_append (k p : ByteKey) : startsWith k p = true ↔ ∃ s, k = p ++ s := by
  induction p generalizing k with
  | nil => simp [startsWith_nil]
  | cons b ps ih =>
    cases k with
    | nil => simp [startsWith_nil_cons]
    | cons c ks =>
      rw [startsWith_cons_cons, Bool.and_eq_true, ih]
      simp only [beq_iff_eq, List.cons_append, List.cons.injEq]
      constructor
      · rintro ⟨rfl, s, rfl⟩; exact ⟨s, rfl, rfl⟩
      · rintro ⟨s, rfl, rfl⟩; exact ⟨rfl, s, rfl⟩

theorem startsWith_iff_prefix (k p : ByteKey) : startsWith k p = true ↔ p <+: k := by
  rw [startsWith_iff_append]
  constructor
  · rintro ⟨s, rfl⟩; exact List.prefix_append _ _
  · rintro ⟨s, rfl⟩; exact ⟨s, rfl⟩

/-! ### the upper bound, computed front to back -/

/-- forward version of `incLastRev`: bump the last byte below 255, cut everything after it -/
def incLast : List UInt8 → Option (List UInt8)
  | [] => none
  | b :: rest =>
    match incLast rest with
    | some r => some (b :: r)
    | none => if b < 255 then some [b + 1] else none

theorem incLastRev_append_singleton (r : List UInt8) (b : UInt8) :
    incLastRev (r ++ [b]) =
      match incLastRev r with
      | some x => some (x ++ [b])
      | none => if b < 255 then some [b + 1] else none := by
  induction r with
  | nil => simp [incLastRev]
  | cons a r ih =>
    simp only [List.cons_append, incLastRev]
    split
    · rfl
    · rw [ih]

theorem incLastRev_reverse (p : List UInt8) : (incLastRev p.reverse).map List.reverse = incLast p := by
  induction p with
  | nil => rfl
  | cons b rest ih =>
    rw [List.reverse_cons, incLastRev_append_singleton, incLast, ← ih]
    cases incLastRev rest.reverse with
    | none =>
      simp only [Option.map_none]
      split <;> simp
    | some x => simp

theorem incLast_none_shape {p : List UInt8} (h : incLast p = none) : p = List.replicate p.length 255 := by
  induction p with
  | nil => rfl
  | cons a t iht =>
    rw [incLast] at h
    split at h
    · cases h
    · rename_i ht
      split at h
      · cases h
      · rename_i ha
        have : a = 255 := by
          apply UInt8.toNat_inj.mp
          have h1 := a.toNat_lt
          rw [UInt8.lt_iff_toNat_lt] at ha
          simp at ha ⊢
          omega
        rw [List.length_cons, List.replicate_succ, ← iht ht, this]

/-- shape of the prefix when there is an upper bound: `p = q ++ [b] ++ 0xFF…0xFF`, bound `q ++ [b+1]` -/
theorem incLast_some_shape {p u : List UInt8} (h : incLast p = some u) :
    ∃ q b n, p = q ++ [b] ++ List.replicate n 255 ∧ b < 255 ∧ u = q ++ [b + 1] := by
  induction p generalizing u with
  | nil => simp [incLast] at h
  | cons c rest ih =>
    rw [incLast] at h
    split at h
    · rename_i r hr
      cases h
      obtain ⟨q, b, n, h1, h2, h3⟩ := ih hr
      exact ⟨c :: q, b, n, by rw [h1]; rfl, h2, by rw [h3]; rfl⟩
    · rename_i hr
      split at h
      · rename_i hb
        cases h
        exact ⟨[], c, rest.length, by rw [← incLast_none_shape hr]; rfl, hb, rfl⟩
      · cases h


/-! ### the same shapes, stated on `incLastRev` as the code computes it -/

theorem incLastRev_some_shape {p r : List UInt8} (h : incLastRev p.reverse = some r) :
    ∃ q b n, p = q ++ [b] ++ List.replicate n 255 ∧ b < 255 ∧ r.reverse = q ++ [b + 1] := by
  have h' : incLast p = some r.reverse := by rw [← incLastRev_reverse, h]; rfl
  exact incLast_some_shape h'

theorem incLastRev_none_shape {p : List UInt8} (h : incLastRev p.reverse = none) :
    p = List.replicate p.length 255 := by
  have h' : incLast p = none := by rw [← incLastRev_reverse, h]; rfl
  exact incLast_none_shape h'

/-! ### order characterisations -/

private theorem u8_trichotomy (c b : UInt8) : c < b ∨ c = b ∨ b < c := by
  rw [UInt8.lt_iff_toNat_lt, UInt8.lt_iff_toNat_lt, ← UInt8.toNat_inj]
  omega

private theorem u8_lt_irrefl (c : UInt8) : ¬ c < c := by
  rw [UInt8.lt_iff_toNat_lt]; omega

private theorem u8_lt_asymm {c b : UInt8} (h : c < b) : ¬ b < c := by
  rw [UInt8.lt_iff_toNat_lt] at *; omega

private theorem u8_not_lt_255 {c : UInt8} : ¬ c < 255 ↔ c = 255 := by
  rw [UInt8.lt_iff_toNat_lt, ← UInt8.toNat_inj]
  have := c.toNat_lt
  simp
  omega

private theorem u8_lt_succ {c b : UInt8} (hb : b < 255) : c < b + 1 ↔ (c < b ∨ c = b) := by
  rw [UInt8.lt_iff_toNat_lt] at hb
  rw [UInt8.lt_iff_toNat_lt, UInt8.lt_iff_toNat_lt, ← UInt8.toNat_inj, UInt8.toNat_add]
  simp at hb ⊢
  omega

private theorem u8_succ_ne {b : UInt8} (hb : b < 255) : b < b + 1 := (u8_lt_succ hb).mpr (Or.inr rfl)

/-- all-0xFF prefix: the keys not below it are exactly those that start with it -/
theorem not_lt_iff_startsWith_of_none {p : ByteKey} (h : incLast p = none) (k : ByteKey) :
    ¬ k < p ↔ startsWith k p = true := by
  induction p generalizing k with
  | nil => simp [startsWith_nil]
  | cons b rest ih =>
    rw [incLast] at h
    split at h
    · cases h
    · rename_i hr
      split at h
      · cases h
      · rename_i hb
        have hb' : b = 255 := u8_not_lt_255.mp hb
        subst hb'
        cases k with
        | nil => simp [startsWith_nil_cons]
        | cons c ks =>
          rw [startsWith_cons_cons, Bool.and_eq_true, ← ih hr ks, List.cons_lt_cons_iff, beq_iff_eq]
          constructor
          · intro hn
            have hc : c = 255 := u8_not_lt_255.mp (fun hc => hn (Or.inl hc))
            exact ⟨hc, fun hlt => hn (Or.inr ⟨hc, hlt⟩)⟩
          · rintro ⟨rfl, hks⟩ (hc | ⟨_, hlt⟩)
            · exact u8_lt_irrefl _ hc
            · exact hks hlt

/-- prefix with an upper bound `u`: `p ≤ k < u` iff `k` starts with `p` -/
theorem range_iff_startsWith_of_some {p u : ByteKey} (h : incLast p = some u) (k : ByteKey) :
    (¬ k < p ∧ k < u) ↔ startsWith k p = true := by
  induction p generalizing k u with
  | nil => simp [incLast] at h
  | cons b rest ih =>
    rw [incLast] at h
    split at h
    · rename_i r hr
      cases h
      cases k with
      | nil => simp [startsWith_nil_cons]
      | cons c ks =>
        rw [startsWith_cons_cons, Bool.and_eq_true, ← ih hr ks, List.cons_lt_cons_iff, List.cons_lt_cons_iff,
          beq_iff_eq]
        constructor
        · rintro ⟨hn, hc | ⟨rfl, hlt⟩⟩
          · exact absurd (Or.inl hc) hn
          · exact ⟨rfl, fun h' => hn (Or.inr ⟨rfl, h'⟩), hlt⟩
        · rintro ⟨rfl, h1, h2⟩
          refine ⟨?_, Or.inr ⟨rfl, h2⟩⟩
          rintro (hc | ⟨_, hlt⟩)
          · exact u8_lt_irrefl _ hc
          · exact h1 hlt
    · rename_i hr
      split at h
      · rename_i hb
        cases h
        cases k with
        | nil => simp [startsWith_nil_cons]
        | cons c ks =>
          rw [startsWith_cons_cons, Bool.and_eq_true, ← not_lt_iff_startsWith_of_none hr ks,
            List.cons_lt_cons_iff, List.cons_lt_cons_iff, beq_iff_eq, u8_lt_succ hb]
          constructor
          · rintro ⟨hn, (hc | rfl) | ⟨_, hlt⟩⟩
            · exact absurd (Or.inl hc) hn
            · exact ⟨rfl, fun h' => hn (Or.inr ⟨rfl, h'⟩)⟩
            · exact absurd hlt (List.not_lt_nil _)
          · rintro ⟨rfl, h1⟩
            refine ⟨?_, Or.inl (Or.inr rfl)⟩
            rintro (hc | ⟨_, hlt⟩)
            · exact u8_lt_irrefl _ hc
            · exact h1 hlt
      · cases h

/-! ### main theorem -/

theorem prefixUpper_eq (p : ByteKey) :
    prefixUpper p = match incLast p with
      | some u => .excl u
      | none => .unb := by
  unfold prefixUpper
  rw [← incLastRev_reverse]
  cases incLastRev p.reverse <;> rfl

/-- `prefix_to_range p` contains exactly the keys that start with `p` -/
theorem prefix_range_iff (p k : ByteKey) :
    inBounds (prefixToRange p).1 (prefixToRange p).2 k = startsWith k p := by
  unfold prefixToRange
  cases p with
  | nil => simp [inBounds, Bound.okLo, Bound.okHi, startsWith_nil]
  | cons b rest =>
    simp only [List.isEmpty_cons, Bool.false_eq_true, if_false]
    rw [prefixUpper_eq, Bool.eq_iff_iff]
    cases hu : incLast (b :: rest) with
    | none =>
      rw [← not_lt_iff_startsWith_of_none hu k]
      simp [inBounds, Bound.okLo, Bound.okHi]
    | some u =>
      rw [← range_iff_startsWith_of_some hu k]
      simp [inBounds, Bound.okLo, Bound.okHi]

/-- reading of the bounds as order statements -/
theorem prefix_range_order (p k : ByteKey) :
    startsWith k p = true ↔
      (¬ k < p ∧ match incLast p with
        | some u => k < u
        | none => True) := by
  cases hu : incLast p with
  | none => simp [← not_lt_iff_startsWith_of_none hu k]
  | some u => simp [← range_iff_startsWith_of_some hu k]

/-! ### the carry cases, concretely -/

example : prefixToRange [0, 255] = (.incl [0, 255], .excl [1]) := by decide
example : prefixToRange [255, 255] = (.incl [255, 255], .unb) := by decide
example : prefixToRange [] = (.unb, .unb) := by decide
example : prefixToRange [7, 255, 255] = (.incl [7, 255, 255], .excl [8]) := by decide
example : prefixToRange [1, 2] = (.incl [1, 2], .excl [1, 3]) := by decide

end Lsm

#print axioms Lsm.startsWith_iff_append
#print axioms Lsm.incLastRev_reverse
#print axioms Lsm.incLast_some_shape
#print axioms Lsm.incLastRev_some_shape
#print axioms Lsm.incLastRev_none_shape
#print axioms Lsm.incLast_none_shape
#print axioms Lsm.not_lt_iff_startsWith_of_none
#print axioms Lsm.range_iff_startsWith_of_some
#print axioms Lsm.prefix_range_iff
#print axioms Lsm.prefix_range_order
