import LsmModel.Stream.CompactionLegacy
import LsmModel.Lemmas.CStreamLemmas
/-
  LsmModel.Lemmas.CStreamLegacy — the formal record of finding F5: the GC stream as it was before the repair
  (`cstreamLegacy`) breaks reads under the weak-delete discipline; the repaired `cstream` does not.
-/
namespace Lsm

/-- the 3-entry witness: `weak@9, value@5, weak@3` below the watermark 10 — the legacy stream drains the
    whole key, i.e. it also removes the weak tombstone @3 -/
example : (cstreamLegacy 10 false noFilter
    [(⟨1, 9, .weak, []⟩ : Entry Nat), ⟨1, 5, .value, [7]⟩, ⟨1, 3, .weak, []⟩]).1 = [] := by
  simp [cstreamLegacy, filterHead, drainKey, Entry.isTomb]

/-- the three versions of key `1` taking part in the compaction -/
def f5mid : List (Entry Nat) := [⟨1, 9, .weak, []⟩, ⟨1, 5, .value, [7]⟩, ⟨1, 3, .weak, []⟩]

/-- an older value in a lower level, still shadowed by the weak tombstone @3 -/
def f5post : List (Entry Nat) := [⟨1, 1, .value, [1]⟩]

theorem f5_weakSafe : WeakSafe (([] : List (Entry Nat)) ++ f5mid ++ f5post) := by
  simp [f5mid, f5post, WeakSafe, isValueLike]

theorem f5_legacy_out : (cstreamLegacy 10 false noFilter f5mid).1 = [] := by
  simp [f5mid, cstreamLegacy, filterHead, drainKey, Entry.isTomb]

theorem f5_legacy_dropped :
    (cstreamLegacy 10 false noFilter f5mid).2 = [⟨1, 5, .value, [7]⟩, ⟨1, 3, .weak, []⟩] := by
  simp [f5mid, cstreamLegacy, filterHead, drainKey, Entry.isTomb]

/-- the repaired stream drops exactly the pair `(weak@9, value@5)` and keeps the weak tombstone @3 -/
theorem f5_fixed_out : (cstream 10 false noFilter f5mid).1 = [⟨1, 3, .weak, []⟩] := by
  simp [f5mid, cstream, filterHead, Entry.isTomb]

/-- **F5.** Under the weak-delete discipline the legacy stream changes what a reader sees: before the
    compaction key `1` is deleted (`weak@9`), afterwards the old `value@1` of a lower level is visible again. -/
theorem legacy_breaks_weakSafe_read :
    ∃ pre mid post : List (Entry Nat),
      WeakSafe (pre ++ mid ++ post) ∧
      live ((pre ++ (cstreamLegacy 10 false noFilter mid).1 ++ post).head?) ≠ live ((pre ++ mid ++ post).head?) := by
  refine ⟨[], f5mid, f5post, f5_weakSafe, ?_⟩
  rw [f5_legacy_out]
  simp [f5mid, f5post, live, Entry.isTomb]

/-- legacy: the resurrected value, explicitly -/
example : live (([] ++ (cstreamLegacy 10 false noFilter f5mid).1 ++ f5post).head?)
    = some ⟨1, 1, .value, [1]⟩ := by
  rw [f5_legacy_out]; simp [f5post, live, Entry.isTomb]

/-- positive counterpart: the repaired stream on the same data preserves the read (the key stays deleted) … -/
example : live (([] ++ (cstream 10 false noFilter f5mid).1 ++ f5post).head?)
    = live (([] ++ f5mid ++ f5post).head?) := by
  rw [f5_fixed_out]; simp [f5mid, f5post, live, Entry.isTomb]

/-- … and the discipline (instance of `cstream_weakSafe_noevict`). -/
example : WeakSafe ([] ++ (cstream 10 false noFilter f5mid).1 ++ f5post) :=
  (cstream_weakSafe_noevict 10 1 [] f5mid f5post (by simp [SingleKey, f5mid]) f5_weakSafe).1

end Lsm

#print axioms Lsm.legacy_breaks_weakSafe_read
#print axioms Lsm.f5_fixed_out
