import LsmModel.Lemmas.CodecBackLayout
/-
  LsmModel.Lemmas.CodecBackEnc — the byte-level facts (`Layout`) about `encodeBlock ri items`.
-/
namespace Lsm.CodecBack
open Lsm Lsm.Codec
set_option linter.unusedSimpArgs false
set_option linter.unusedVariables false

/-! ### splitting `encItems` -/

/-- decoder-side state (`rem`, `base`) after the items `a` -/
def stAfter (ri : Nat) : Nat → Bytes → List (Entry Bytes) → Nat × Bytes
  | rem, base, [] => (rem, base)
  | rem, base, e :: t => if rem = 0 then stAfter ri (ri - 1) e.key t else stAfter ri (rem - 1) base t

/-- the bytes of one item in state (`rem`, `base`) -/
def encOne (rem : Nat) (base : Bytes) (e : Entry Bytes) : Bytes :=
  if rem = 0 then encodeFull e else encodeTrunc (sharedPrefixLen base e.key) e

theorem encItems_append (ri : Nat) (a b : List (Entry Bytes)) (rem : Nat) (base : Bytes) :
    encItems ri rem base (a ++ b)
      = encItems ri rem base a ++ encItems ri (stAfter ri rem base a).1 (stAfter ri rem base a).2 b := by
  induction a generalizing rem base with
  | nil => simp [encItems, stAfter]
  | cons e t ih =>
    simp only [List.cons_append, encItems, stAfter]
    split <;> simp [ih]

theorem stAfter_append (ri : Nat) (a b : List (Entry Bytes)) (rem : Nat) (base : Bytes) :
    stAfter ri rem base (a ++ b) = stAfter ri (stAfter ri rem base a).1 (stAfter ri rem base a).2 b := by
  induction a generalizing rem base with
  | nil => simp [stAfter]
  | cons e t ih =>
    simp only [List.cons_append, stAfter]
    split <;> simp [ih]

/-- byte offset of item `i` -/
def offE (ri : Nat) (items : List (Entry Bytes)) (i : Nat) : Nat := (encItems ri 0 [] (items.take i)).length

/-- decoder-side state before item `i` -/
def stE (ri : Nat) (items : List (Entry Bytes)) (i : Nat) : Nat × Bytes := stAfter ri 0 [] (items.take i)

theorem stE_succ (ri : Nat) (items : List (Entry Bytes)) (i : Nat) (h : i < items.length) :
    stE ri items (i + 1) = if (stE ri items i).1 = 0 then (ri - 1, items[i].key)
      else ((stE ri items i).1 - 1, (stE ri items i).2) := by
  unfold stE
  rw [List.take_succ_eq_append_getElem h, stAfter_append]
  simp only [stAfter]

theorem encOne_length_pos (rem : Nat) (base : Bytes) (e : Entry Bytes) : 0 < (encOne rem base e).length := by
  unfold encOne
  split <;> simp [encodeFull, encodeTrunc]

theorem offE_succ (ri : Nat) (items : List (Entry Bytes)) (i : Nat) (h : i < items.length) :
    offE ri items (i + 1) = offE ri items i + (encOne (stE ri items i).1 (stE ri items i).2 items[i]).length := by
  unfold offE stE
  rw [List.take_succ_eq_append_getElem h, encItems_append]
  simp only [encItems, encOne, List.length_append]
  split <;> simp

theorem offE_zero (ri : Nat) (items : List (Entry Bytes)) : offE ri items 0 = 0 := by
  simp [offE, encItems]

theorem drop_offE (ri : Nat) (items : List (Entry Bytes)) (tail : Bytes) (i : Nat) :
    (encItems ri 0 [] items ++ 255 :: tail).drop (offE ri items i)
      = encItems ri (stE ri items i).1 (stE ri items i).2 (items.drop i) ++ 255 :: tail := by
  have h := encItems_append ri (items.take i) (items.drop i) 0 []
  rw [List.take_append_drop] at h
  rw [h]
  unfold offE stE
  rw [List.append_assoc, List.drop_left]

theorem encItems_drop_step (ri : Nat) (items : List (Entry Bytes)) (i : Nat) (h : i < items.length) :
    encItems ri (stE ri items i).1 (stE ri items i).2 (items.drop i)
      = encOne (stE ri items i).1 (stE ri items i).2 items[i]
        ++ encItems ri (stE ri items (i + 1)).1 (stE ri items (i + 1)).2 (items.drop (i + 1)) := by
  rw [List.drop_eq_getElem_cons h]
  simp only [encItems, stE_succ ri items i h, encOne]
  split <;> simp

/-- the bytes at `off i` are item `i` followed by the bytes at `off (i+1)` -/
theorem drop_offE_item (ri : Nat) (items : List (Entry Bytes)) (tail : Bytes) (i : Nat) (h : i < items.length) :
    (encItems ri 0 [] items ++ 255 :: tail).drop (offE ri items i)
      = encOne (stE ri items i).1 (stE ri items i).2 items[i]
        ++ (encItems ri 0 [] items ++ 255 :: tail).drop (offE ri items (i + 1)) := by
  rw [drop_offE, drop_offE, encItems_drop_step ri items i h, List.append_assoc]

theorem drop_offE_end (ri : Nat) (items : List (Entry Bytes)) (tail : Bytes) :
    (encItems ri 0 [] items ++ 255 :: tail).drop (offE ri items items.length) = 255 :: tail := by
  rw [drop_offE]
  simp [encItems]

/-! ### the state before item `i` -/

theorem stE_inv (ri : Nat) (hri : 0 < ri) (items : List (Entry Bytes)) : ∀ i, i ≤ items.length →
    (stE ri items i).1 = remOf ri i ∧
    ∀ h, h ≤ i → h % ri = 0 → i < h + ri → i ≠ h →
      ∃ e, items[h]? = some e ∧ (stE ri items i).2 = e.key := by
  intro i
  induction i with
  | zero =>
    intro _
    refine ⟨?_, ?_⟩
    · simp [stE, stAfter, remOf, Nat.mod_self]
    · intro h h1 _ _ h4; omega
  | succ i ih =>
    intro hi
    have hlt : i < items.length := by omega
    obtain ⟨ih1, ih2⟩ := ih (by omega)
    rw [stE_succ ri items i hlt]
    by_cases h0 : i % ri = 0
    · have hz : (stE ri items i).1 = 0 := by rw [ih1]; exact (remOf_zero_iff ri i hri).mpr h0
      simp only [hz, if_true]
      refine ⟨?_, ?_⟩
      · rw [remOf_succ ri i hri]; simp [h0]
      · intro h h1 h2 h3 h4
        have hle : h ≤ i := by omega
        have hm : (i - h) % ri = 0 := Nat.sub_mod_eq_zero_of_mod_eq (by rw [h0, h2])
        have hlt' : (i - h) % ri = i - h := Nat.mod_eq_of_lt (by omega)
        have : h = i := by omega
        subst this
        exact ⟨items[h], by simp, rfl⟩
    · have hz : (stE ri items i).1 ≠ 0 := by
        rw [ih1]; exact fun hh => h0 ((remOf_zero_iff ri i hri).mp hh)
      simp only [hz, if_false]
      refine ⟨?_, ?_⟩
      · rw [remOf_succ ri i hri, ih1]; simp [h0]
      · intro h h1 h2 h3 h4
        have hne : i ≠ h := fun hh => h0 (hh ▸ h2)
        exact ih2 h (by omega) h2 (by omega) hne

theorem stE_rem_zero_iff (ri : Nat) (hri : 0 < ri) (items : List (Entry Bytes)) (i : Nat) (hi : i ≤ items.length) :
    (stE ri items i).1 = 0 ↔ i % ri = 0 := by
  rw [(stE_inv ri hri items i hi).1]
  exact remOf_zero_iff ri i hri

/-! ### generic parse lemmas -/

theorem fullKeyPos_encodeFull (e : Entry Bytes) (rest : Bytes) :
    fullKeyPos (encodeFull e ++ rest) = 1 + (encodeVarint e.seqno).length + (encodeVarint e.key.length).length := by
  unfold fullKeyPos encodeFull
  simp only [List.cons_append, List.append_assoc, varint_roundtrip]
  simp only [List.length_cons, List.length_append]
  omega

theorem parseFullAt_of_drop (data : Bytes) (o : Nat) (e : Entry Bytes) (hw : WfEntry e) (rest : Bytes)
    (h : data.drop o = encodeFull e ++ rest) :
    parseFullAt data o = some (some ⟨e, o + fullKeyPos (data.drop o), (encodeFull e).length⟩) := by
  unfold parseFullAt
  rw [h]
  obtain ⟨r, hr⟩ := encodeFull_head e rest
  rw [hr]
  simp only [vt_toByte_ne_marker, if_false]
  rw [← hr, decodeFull_encodeFull e hw]
  simp

theorem restartKeyAt_of_drop (data : Bytes) (o : Nat) (e : Entry Bytes) (rest : Bytes)
    (h : data.drop o = encodeFull e ++ rest) :
    restartKeyAt data o = some (e.key, e.seqno) := by
  unfold restartKeyAt
  rw [h]
  unfold encodeFull
  simp only [List.cons_append, List.append_assoc, vt_toByte_ne_marker, if_false, varint_roundtrip,
    takeExact_append]

/-- truncated item round trip when the base is the head key followed by arbitrary bytes -/
theorem decodeTrunc_encodeTrunc_junk (hk junk : Bytes) (e : Entry Bytes) (hw : WfEntry e) (tail : Bytes) :
    decodeTrunc (hk ++ junk) (encodeTrunc (sharedPrefixLen hk e.key) e ++ tail) = some (e, tail) := by
  unfold decodeTrunc encodeTrunc
  have hl : e.key.length - sharedPrefixLen hk e.key = (e.key.drop (sharedPrefixLen hk e.key)).length := by
    simp
  have ht : (hk ++ junk).take (sharedPrefixLen hk e.key) = hk.take (sharedPrefixLen hk e.key) :=
    List.take_append_of_le_length (sharedPrefixLen_le_left hk e.key)
  simp only [List.cons_append, List.append_assoc, vt_ofByte_toByte, varint_roundtrip]
  rw [hl]
  simp only [takeExact_append, decodeValPart_encode e hw, ht, shared_rebuild]

theorem parseTruncAt_of_drop (data : Bytes) (o b : Nat) (hk junk : Bytes) (e : Entry Bytes) (hw : WfEntry e)
    (rest : Bytes) (h : data.drop o = encodeTrunc (sharedPrefixLen hk e.key) e ++ rest)
    (hb : data.drop b = hk ++ junk) :
    parseTruncAt data o b = some (some ⟨e, 0, (encodeTrunc (sharedPrefixLen hk e.key) e).length⟩) := by
  unfold parseTruncAt
  rw [h, hb]
  obtain ⟨r, hr⟩ := encodeTrunc_head (sharedPrefixLen hk e.key) e rest
  rw [hr]
  simp only [vt_toByte_ne_marker, if_false]
  rw [← hr, decodeTrunc_encodeTrunc_junk hk junk e hw]
  simp

theorem parseFullAt_marker (data : Bytes) (o : Nat) (tail : Bytes) (h : data.drop o = 255 :: tail) :
    parseFullAt data o = some none := by
  unfold parseFullAt; rw [h]; simp

theorem parseTruncAt_marker (data : Bytes) (o b : Nat) (tail : Bytes) (h : data.drop o = 255 :: tail) :
    parseTruncAt data o b = some none := by
  unfold parseTruncAt; rw [h]; simp

/-- the key of a restart head sits at `fullKeyPos` -/
theorem drop_fullKeyPos (data : Bytes) (o : Nat) (e : Entry Bytes) (rest : Bytes)
    (h : data.drop o = encodeFull e ++ rest) :
    data.drop (o + fullKeyPos (data.drop o)) = e.key ++ (encodeValPart e ++ rest) := by
  rw [← List.drop_drop, h, fullKeyPos_encodeFull]
  have : encodeFull e ++ rest
      = (e.vt.toByte :: (encodeVarint e.seqno ++ encodeVarint e.key.length)) ++ (e.key ++ (encodeValPart e ++ rest)) := by
    simp [encodeFull]
  rw [this]
  apply List.drop_left'
  simp only [List.length_cons, List.length_append]
  omega

/-! ### the items of an encoded block -/

theorem item_full_drop (ri : Nat) (hri : 0 < ri) (items : List (Entry Bytes)) (tail : Bytes) (i : Nat)
    (e : Entry Bytes) (he : items[i]? = some e) (hm : i % ri = 0) :
    (encItems ri 0 [] items ++ 255 :: tail).drop (offE ri items i)
      = encodeFull e ++ (encItems ri 0 [] items ++ 255 :: tail).drop (offE ri items (i + 1)) ∧
    offE ri items (i + 1) - offE ri items i = (encodeFull e).length ∧
    offE ri items i < offE ri items (i + 1) := by
  obtain ⟨hi, hei⟩ := List.getElem?_eq_some_iff.mp he
  have hz : (stE ri items i).1 = 0 := (stE_rem_zero_iff ri hri items i (by omega)).mpr hm
  have h1 := drop_offE_item ri items tail i hi
  have h2 := offE_succ ri items i hi
  have h3 := encOne_length_pos (stE ri items i).1 (stE ri items i).2 items[i]
  simp only [encOne, hz, if_true, hei] at h1 h2 h3
  exact ⟨h1, by omega, by omega⟩

theorem item_trunc_drop (ri : Nat) (hri : 0 < ri) (items : List (Entry Bytes)) (tail : Bytes) (i : Nat)
    (e : Entry Bytes) (he : items[i]? = some e) (hm : i % ri ≠ 0) :
    ∃ eh, items[i / ri * ri]? = some eh ∧
    (encItems ri 0 [] items ++ 255 :: tail).drop (offE ri items i)
      = encodeTrunc (sharedPrefixLen eh.key e.key) e
        ++ (encItems ri 0 [] items ++ 255 :: tail).drop (offE ri items (i + 1)) ∧
    offE ri items (i + 1) - offE ri items i = (encodeTrunc (sharedPrefixLen eh.key e.key) e).length ∧
    offE ri items i < offE ri items (i + 1) := by
  obtain ⟨hi, hei⟩ := List.getElem?_eq_some_iff.mp he
  have hz : (stE ri items i).1 ≠ 0 := fun hh => hm ((stE_rem_zero_iff ri hri items i (by omega)).mp hh)
  have hle : i / ri * ri ≤ i := Nat.div_mul_le_self i ri
  have hmod : i / ri * ri % ri = 0 := Nat.mul_mod_left _ _
  have hlt : i < i / ri * ri + ri := Nat.lt_div_mul_add hri
  have hne : i ≠ i / ri * ri := by
    intro hh
    rw [hh] at hm
    exact hm hmod
  obtain ⟨eh, heh, hb⟩ := (stE_inv ri hri items i (by omega)).2 (i / ri * ri) hle hmod hlt hne
  have h1 := drop_offE_item ri items tail i hi
  have h2 := offE_succ ri items i hi
  have h3 := encOne_length_pos (stE ri items i).1 (stE ri items i).2 items[i]
  simp only [encOne, hz, if_false, hei, hb] at h1 h2 h3
  exact ⟨eh, heh, h1, by omega, by omega⟩

/-- all the item-level fields of `Layout`, given the `Dec.new` / binary-index facts -/
theorem layout_of_new (ri : Nat) (hri : 0 < ri) (items : List (Entry Bytes)) (hne : items ≠ [])
    (hw : ∀ e ∈ items, WfEntry e) (tail : Bytes) (d0 : Dec)
    (hnew : Dec.new (encItems ri 0 [] items ++ 255 :: tail) = some d0)
    (hd0 : d0 = { data := encItems ri 0 [] items ++ 255 :: tail, ri := ri, step := d0.step,
                  binLen := (items.length + ri - 1) / ri,
                  binOff := d0.binOff, hiPtr := some ((items.length + ri - 1) / ri) })
    (hbl : d0.binIdxLen = some ((items.length + ri - 1) / ri))
    (hbin : ∀ j, j * ri < items.length → d0.binGet j = some (offE ri items (j * ri))) :
    Layout (encItems ri 0 [] items ++ 255 :: tail) ri items (offE ri items)
      (fun j => offE ri items (j * ri)
        + fullKeyPos ((encItems ri 0 [] items ++ 255 :: tail).drop (offE ri items (j * ri)))) d0 := by
  refine
    { ri_pos := hri, nonempty := hne, new := hnew, d0_eq := hd0, binIdxLen := hbl, bin := hbin,
      off_zero := offE_zero ri items, off_mono := ?_, off_le := ?_, full := ?_, trunc := ?_,
      endFull := ?_, endTrunc := ?_, restartKey := ?_ }
  · intro i hi
    have h2 := offE_succ ri items i hi
    have h3 := encOne_length_pos (stE ri items i).1 (stE ri items i).2 items[i]
    omega
  · have : offE ri items items.length = (encItems ri 0 [] items).length := by
      simp [offE]
    rw [this]
    simp
  · intro i e he hm
    obtain ⟨h1, h2, _⟩ := item_full_drop ri hri items tail i e he hm
    have hwe : WfEntry e := hw e (List.mem_of_getElem? he)
    rw [parseFullAt_of_drop _ _ e hwe _ h1, h2]
    have : i / ri * ri = i := Nat.div_mul_cancel (Nat.dvd_of_mod_eq_zero hm)
    simp only [this]
  · intro i e he hm
    obtain ⟨eh, heh, h1, h2, _⟩ := item_trunc_drop ri hri items tail i e he hm
    have hwe : WfEntry e := hw e (List.mem_of_getElem? he)
    obtain ⟨g1, _, _⟩ := item_full_drop ri hri items tail (i / ri * ri) eh heh (Nat.mul_mod_left _ _)
    have hk := drop_fullKeyPos _ _ eh _ g1
    rw [parseTruncAt_of_drop _ _ _ eh.key _ e hwe _ h1 hk, h2]
  · exact parseFullAt_marker _ _ tail (drop_offE_end ri items tail)
  · intro b
    exact parseTruncAt_marker _ _ b tail (drop_offE_end ri items tail)
  · intro i e he hm
    obtain ⟨h1, _, _⟩ := item_full_drop ri hri items tail i e he hm
    exact restartKeyAt_of_drop _ _ e _ h1

/-! ### trailer, `Dec.new` and the binary index (`bin_off` is `offE`) -/

def bin_off (ri : Nat) (items : List (Entry Bytes)) (i : Nat) : Nat := (encItems ri 0 [] (items.take i)).length

/-! ### little endian -/

theorem bin_readLE_le32 (n : Nat) (h : n < 2 ^ 32) (t : Bytes) : readLE 4 (le32 n ++ t) = some n := by
  have e0 : (UInt8.ofNat (n % 256)).toNat = n % 256 := by rw [UInt8.toNat_ofNat']; omega
  have e1 : (UInt8.ofNat (n / 256 % 256)).toNat = n / 256 % 256 := by rw [UInt8.toNat_ofNat']; omega
  have e2 : (UInt8.ofNat (n / 65536 % 256)).toNat = n / 65536 % 256 := by rw [UInt8.toNat_ofNat']; omega
  have e3 : (UInt8.ofNat (n / 16777216 % 256)).toNat = n / 16777216 % 256 := by rw [UInt8.toNat_ofNat']; omega
  simp only [le32, List.cons_append, List.nil_append, readLE, Option.map_some, e0, e1, e2, e3]
  congr 1
  omega

theorem bin_readLE_le16 (n : Nat) (h : n < 65536) (t : Bytes) : readLE 2 (le16 n ++ t) = some n := by
  have e0 : (UInt8.ofNat (n % 256)).toNat = n % 256 := by rw [UInt8.toNat_ofNat']; omega
  have e1 : (UInt8.ofNat (n / 256 % 256)).toNat = n / 256 % 256 := by rw [UInt8.toNat_ofNat']; omega
  simp only [le16, List.cons_append, List.nil_append, readLE, Option.map_some, e0, e1]
  congr 1
  omega

theorem bin_le32_drop (n : Nat) (t : Bytes) : (le32 n ++ t).drop 4 = t := rfl

theorem bin_readLE_flatMap_le16 (offs : List Nat) (j v : Nat) (hj : offs[j]? = some v) (hv : v < 65536)
    (t : Bytes) : readLE 2 ((offs.flatMap le16 ++ t).drop (j * 2)) = some v := by
  induction offs generalizing j with
  | nil => simp at hj
  | cons a r ih =>
    cases j with
    | zero =>
      simp at hj; subst hj
      simp only [List.flatMap_cons, Nat.zero_mul, List.drop_zero, List.append_assoc]
      exact bin_readLE_le16 a hv _
    | succ j =>
      simp at hj
      have : (j + 1) * 2 = j * 2 + 1 + 1 := by omega
      rw [this]
      simp only [List.flatMap_cons, le16, List.cons_append, List.nil_append, List.drop_succ_cons]
      exact ih j hj

theorem bin_readLE_flatMap_le32 (offs : List Nat) (j v : Nat) (hj : offs[j]? = some v) (hv : v < 2 ^ 32)
    (t : Bytes) : readLE 4 ((offs.flatMap le32 ++ t).drop (j * 4)) = some v := by
  induction offs generalizing j with
  | nil => simp at hj
  | cons a r ih =>
    cases j with
    | zero =>
      simp at hj; subst hj
      simp only [List.flatMap_cons, Nat.zero_mul, List.drop_zero, List.append_assoc]
      exact bin_readLE_le32 a hv _
    | succ j =>
      simp at hj
      have : (j + 1) * 4 = j * 4 + 1 + 1 + 1 + 1 := by omega
      rw [this]
      simp only [List.flatMap_cons, le32, List.cons_append, List.nil_append, List.drop_succ_cons]
      exact ih j hj

theorem bin_flatMap_le16_length (offs : List Nat) : (offs.flatMap le16).length = offs.length * 2 := by
  induction offs with
  | nil => rfl
  | cons a r ih => simp only [List.flatMap_cons, List.length_append, ih, List.length_cons]; simp [le16]; omega

theorem bin_flatMap_le32_length (offs : List Nat) : (offs.flatMap le32).length = offs.length * 4 := by
  induction offs with
  | nil => rfl
  | cons a r ih => simp only [List.flatMap_cons, List.length_append, ih, List.length_cons]; simp [le32]; omega

/-! ### offsets -/

theorem bin_encItems_append_len (ri : Nat) (a b : List (Entry Bytes)) (rem : Nat) (base : Bytes) :
    (encItems ri rem base a).length ≤ (encItems ri rem base (a ++ b)).length := by
  induction a generalizing rem base with
  | nil => simp [encItems]
  | cons e t ih =>
    simp only [encItems, List.cons_append]
    split
    · have := ih (ri - 1) e.key
      simp only [List.length_append]; omega
    · have := ih (rem - 1) base
      simp only [List.length_append]; omega

theorem bin_off_mono (ri : Nat) (items : List (Entry Bytes)) (i j : Nat) (h : i ≤ j) :
    bin_off ri items i ≤ bin_off ri items j := by
  unfold bin_off
  have e1 : items.take i = (items.take j).take i := by
    rw [List.take_take, Nat.min_eq_left h]
  have e2 : items.take j = (items.take j).take i ++ (items.take j).drop i := (List.take_append_drop _ _).symm
  rw [e1]
  conv => rhs; rw [e2]
  exact bin_encItems_append_len ri _ _ 0 []

theorem bin_off_le_total (ri : Nat) (items : List (Entry Bytes)) (i : Nat) :
    bin_off ri items i ≤ (encItems ri 0 [] items).length := by
  unfold bin_off
  have e2 : items = items.take i ++ items.drop i := (List.take_append_drop _ _).symm
  conv => rhs; rw [e2]
  exact bin_encItems_append_len ri _ _ 0 []

theorem bin_off_zero (ri : Nat) (items : List (Entry Bytes)) : bin_off ri items 0 = 0 := by
  simp [bin_off, encItems]

/-! ### the encoder's binary index -/

theorem bin_fold_take_out (ri : Nat) (hri : 0 < ri) (items : List (Entry Bytes)) (i : Nat) (hi : i ≤ items.length) :
    ((items.take i).foldl (encStep ri) {}).out.length = bin_off ri items i ∧
    ((items.take i).foldl (encStep ri) {}).count = i := by
  obtain ⟨h1, h2⟩ := foldl_encStep_out ri hri (items.take i) ({} : EncState)
  have hz : remOf ri 0 = 0 := (remOf_zero_iff ri 0 hri).mpr (Nat.zero_mod ri)
  simp only [List.nil_append, hz] at h1
  rw [h1, h2]
  refine ⟨rfl, ?_⟩
  simp [List.length_take]; omega

theorem bin_ceil_zero (ri : Nat) (hri : 0 < ri) : (0 + ri - 1) / ri = 0 :=
  Nat.div_eq_of_lt (by omega)

theorem bin_ceil_succ_head (ri i : Nat) (hri : 0 < ri) (h : i % ri = 0) :
    (i + 1 + ri - 1) / ri = (i + ri - 1) / ri + 1 ∧ (i + ri - 1) / ri * ri = i := by
  have hd := Nat.div_add_mod i ri
  rw [h] at hd
  have hq : (i + ri - 1) / ri = i / ri := by
    apply Nat.div_eq_of_lt_le
    · rw [Nat.mul_comm]; omega
    · rw [Nat.add_mul, Nat.mul_comm]; omega
  have hq2 : (i + 1 + ri - 1) / ri = i / ri + 1 := by
    apply Nat.div_eq_of_lt_le
    · rw [Nat.add_mul, Nat.mul_comm]; omega
    · rw [Nat.add_mul, Nat.add_mul, Nat.mul_comm]; omega
  rw [hq, hq2]
  refine ⟨rfl, ?_⟩
  rw [Nat.mul_comm]; omega

theorem bin_ceil_succ_tail (ri i : Nat) (hri : 0 < ri) (h : i % ri ≠ 0) :
    (i + 1 + ri - 1) / ri = (i + ri - 1) / ri := by
  have hd := Nat.div_add_mod i ri
  have hlt := Nat.mod_lt i hri
  have hq : (i + ri - 1) / ri = i / ri + 1 := by
    apply Nat.div_eq_of_lt_le
    · rw [Nat.add_mul, Nat.mul_comm]; omega
    · rw [Nat.add_mul, Nat.add_mul, Nat.mul_comm]; omega
  have hq2 : (i + 1 + ri - 1) / ri = i / ri + 1 := by
    apply Nat.div_eq_of_lt_le
    · rw [Nat.add_mul, Nat.mul_comm]; omega
    · rw [Nat.add_mul, Nat.add_mul, Nat.mul_comm]; omega
  rw [hq, hq2]

theorem bin_fold_take_binIdx (ri : Nat) (hri : 0 < ri) (items : List (Entry Bytes)) (i : Nat)
    (hi : i ≤ items.length) :
    ((items.take i).foldl (encStep ri) {}).binIdx
      = (List.range ((i + ri - 1) / ri)).map (fun j => bin_off ri items (j * ri)) := by
  induction i with
  | zero => rw [bin_ceil_zero ri hri]; rfl
  | succ i ih =>
    have hlt : i < items.length := by omega
    obtain ⟨ho, hc⟩ := bin_fold_take_out ri hri items i (by omega)
    rw [List.take_succ_eq_append_getElem hlt, List.foldl_append]
    simp only [List.foldl_cons, List.foldl_nil]
    by_cases h0 : i % ri = 0
    · obtain ⟨a1, a2⟩ := bin_ceil_succ_head ri i hri h0
      have hri' : ri > 0 := hri
      simp only [encStep, hc, h0, if_true, hri', ho, ih (by omega)]
      rw [a1, List.range_succ, List.map_append, List.map_singleton, a2]
    · simp only [encStep, hc, h0, if_false, ih (by omega)]
      rw [bin_ceil_succ_tail ri i hri h0]

theorem bin_binIdx_eq (ri : Nat) (hri : 0 < ri) (items : List (Entry Bytes)) :
    (items.foldl (encStep ri) {}).binIdx
      = (List.range ((items.length + ri - 1) / ri)).map (fun j => bin_off ri items (j * ri)) := by
  have := bin_fold_take_binIdx ri hri items items.length (Nat.le_refl _)
  rwa [List.take_length] at this

theorem bin_out_length (ri : Nat) (hri : 0 < ri) (items : List (Entry Bytes)) :
    (items.foldl (encStep ri) {}).out.length = (encItems ri 0 [] items).length ∧
    (items.foldl (encStep ri) {}).count = items.length := by
  have := bin_fold_take_out ri hri items items.length (Nat.le_refl _)
  simpa [bin_off, List.take_length] using this

/-! ### `Dec.new`, `binIdxLen`, `binGet` on explicit data -/

theorem bin_drop_append (a b : Bytes) (k : Nat) : (a ++ b).drop (a.length + k) = b.drop k := by
  induction a with
  | nil => simp
  | cons x a ih => simp only [List.cons_append, List.length_cons, Nat.succ_add, List.drop_succ_cons]; exact ih

theorem bin_getElem?_map_range (f : Nat → Nat) (n k w : Nat) :
    ((List.range n).map f)[k]? = some w ↔ k < n ∧ f k = w := by
  by_cases hk : k < n
  · simp [hk]
  · simp [hk]

theorem bin_new_gen (A : Bytes) (ri step bl bo c : Nat) (h1 : ri < 256) (h2 : step < 256) (h3 : bl < 2 ^ 32)
    (h4 : bo < 2 ^ 32) :
    Dec.new (A ++ encodeTrailer ri step bl bo c)
      = some { data := A ++ encodeTrailer ri step bl bo c, ri := ri, step := step, binLen := bl, binOff := bo,
               hiPtr := some bl } := by
  unfold Dec.new
  have hl : (A ++ encodeTrailer ri step bl bo c).length = A.length + trailerSize := by
    simp [encodeTrailer_length]
  have hn : ¬ (A ++ encodeTrailer ri step bl bo c).length < trailerSize := by omega
  rw [if_neg hn]
  have hd : (A ++ encodeTrailer ri step bl bo c).drop ((A ++ encodeTrailer ri step bl bo c).length - trailerSize)
      = encodeTrailer ri step bl bo c := by
    rw [hl, Nat.add_sub_cancel, List.drop_left]
  rw [hd]
  have hT : encodeTrailer ri step bl bo c = UInt8.ofNat ri :: UInt8.ofNat step ::
      (le32 bl ++ (le32 bo ++ (le32 0 ++ le32 0 ++ [1, 0, 0, 0, 0, 0, 0, 0, 0] ++ le32 c))) := by
    simp [encodeTrailer]
  have e1 : (UInt8.ofNat ri).toNat = ri := by rw [UInt8.toNat_ofNat']; omega
  have e2 : (UInt8.ofNat step).toNat = step := by rw [UInt8.toNat_ofNat']; omega
  generalize hD : A ++ encodeTrailer ri step bl bo c = D
  rw [hT]
  simp only [bin_readLE_le32 _ h3, bin_le32_drop, bin_readLE_le32 _ h4, e1, e2]

theorem bin_binIdxLen_gen (A T : Bytes) (offs : List Nat) (ri : Nat) (hp : Option Nat) :
    Dec.binIdxLen { data := (A ++ (encodeBinIdx offs).2) ++ T, ri := ri, step := (encodeBinIdx offs).1,
                    binLen := offs.length, binOff := A.length, hiPtr := hp } = some offs.length := by
  unfold Dec.binIdxLen encodeBinIdx
  by_cases hc : offs.getLast?.getD 0 ≤ 65535
  · simp only [hc, if_true, List.length_append, bin_flatMap_le16_length]
    rw [if_neg (by omega)]
    simp
  · have h42 : ¬ ((4 : Nat) = 2) := by omega
    simp only [hc, h42, if_false, List.length_append, bin_flatMap_le32_length]
    rw [if_neg (by omega)]
    simp

theorem bin_binGet_gen (A T : Bytes) (offs : List Nat) (ri : Nat) (hp : Option Nat) (j v : Nat)
    (hj : offs[j]? = some v) (hlast : ∀ k w, offs[k]? = some w → j ≤ k → v ≤ w) (hv : v < 2 ^ 32) :
    Dec.binGet { data := (A ++ (encodeBinIdx offs).2) ++ T, ri := ri, step := (encodeBinIdx offs).1,
                 binLen := offs.length, binOff := A.length, hiPtr := hp } j = some v := by
  obtain ⟨hjl, _⟩ := List.getElem?_eq_some_iff.mp hj
  unfold Dec.binGet encodeBinIdx
  by_cases hc : offs.getLast?.getD 0 ≤ 65535
  · have hv2 : v < 65536 := by
      have hg := List.getLast?_eq_getElem? (l := offs)
      cases hk : offs[offs.length - 1]? with
      | none =>
        have := List.getElem?_eq_none_iff.mp hk
        omega
      | some w =>
        rw [hg, hk] at hc
        have := hlast _ w hk (by omega)
        simp at hc
        omega
    simp only [hc, if_true, List.length_append, bin_flatMap_le16_length, List.append_assoc]
    rw [if_neg (by omega), bin_drop_append]
    exact bin_readLE_flatMap_le16 offs j v hj hv2 T
  · have h42 : ¬ ((4 : Nat) = 2) := by omega
    simp only [hc, h42, if_false, List.length_append, bin_flatMap_le32_length, List.append_assoc]
    rw [if_neg (by omega), bin_drop_append]
    exact bin_readLE_flatMap_le32 offs j v hj hv T

/-! ### the encoded block -/

theorem bin_encodeBlock_eq (ri : Nat) (items : List (Entry Bytes)) :
    encodeBlock ri items
      = (((items.foldl (encStep ri) {}).out ++ [255]) ++ (encodeBinIdx (items.foldl (encStep ri) {}).binIdx).2) ++
          encodeTrailer ri (encodeBinIdx (items.foldl (encStep ri) {}).binIdx).1
            (items.foldl (encStep ri) {}).binIdx.length ((items.foldl (encStep ri) {}).out ++ [255]).length
            (items.foldl (encStep ri) {}).count := by
  unfold encodeBlock encFinish
  rfl

theorem bin_lt_ceil (ri len j : Nat) (hri : 0 < ri) (h : j * ri < len) : j < (len + ri - 1) / ri := by
  have : j + 1 ≤ (len + ri - 1) / ri := (Nat.le_div_iff_mul_le hri).mpr (by rw [Nat.add_mul]; omega)
  omega

theorem bin_step_cases (offs : List Nat) : (encodeBinIdx offs).1 = 2 ∨ (encodeBinIdx offs).1 = 4 := by
  unfold encodeBinIdx
  by_cases hc : offs.getLast?.getD 0 ≤ 65535
  · simp [hc]
  · simp [hc]

theorem bin_bin_length_ge (offs : List Nat) : offs.length ≤ (encodeBinIdx offs).2.length := by
  unfold encodeBinIdx
  by_cases hc : offs.getLast?.getD 0 ≤ 65535
  · simp only [hc, if_true, bin_flatMap_le16_length]; omega
  · have h42 : ¬ ((4 : Nat) = 2) := by omega
    simp only [hc, h42, if_false, bin_flatMap_le32_length]; omega

theorem bin_new_encodeBlock (ri : Nat) (h1 : 1 ≤ ri) (h2 : ri < 256) (items : List (Entry Bytes)) (hne : items ≠ [])
    (hsz : (encodeBlock ri items).length < 2 ^ 32) :
    ∃ d0 : Dec, Dec.new (encodeBlock ri items) = some d0 ∧
      d0 = { data := encodeBlock ri items, ri := ri, step := d0.step, binLen := (items.length + ri - 1) / ri,
             binOff := d0.binOff, hiPtr := some ((items.length + ri - 1) / ri) } ∧
      d0.binIdxLen = some ((items.length + ri - 1) / ri) ∧
      (∀ j, j * ri < items.length → d0.binGet j = some (bin_off ri items (j * ri))) := by
  have _ := hne
  have hri : 0 < ri := h1
  have heq := bin_encodeBlock_eq ri items
  have hb := bin_binIdx_eq ri hri items
  obtain ⟨hol, hcnt⟩ := bin_out_length ri hri items
  generalize items.foldl (encStep ri) {} = s at heq hb hol hcnt
  generalize s.binIdx = offs at heq hb
  have hlen : offs.length = (items.length + ri - 1) / ri := by rw [hb]; simp
  have hstep := bin_step_cases offs
  have hbl := bin_bin_length_ge offs
  rw [heq] at hsz ⊢
  simp only [List.length_append, encodeTrailer_length, trailerSize, List.length_cons, List.length_nil] at hsz
  rw [← hlen]
  refine ⟨_, bin_new_gen _ ri _ offs.length _ s.count h2 (by omega) (by omega)
    (by simp only [List.length_append, List.length_cons, List.length_nil]; omega), rfl, ?_, ?_⟩
  · exact bin_binIdxLen_gen (s.out ++ [255]) _ offs ri _
  · intro j hj
    have hjn : j < (items.length + ri - 1) / ri := bin_lt_ceil ri items.length j hri hj
    apply bin_binGet_gen (s.out ++ [255]) _ offs ri _ j
    · rw [hb]; exact (bin_getElem?_map_range _ _ _ _).mpr ⟨hjn, rfl⟩
    · intro k w hk hjk
      rw [hb] at hk
      obtain ⟨_, hw⟩ := (bin_getElem?_map_range _ _ _ _).mp hk
      rw [← hw]
      exact bin_off_mono ri items _ _ (Nat.mul_le_mul_right ri hjk)
    · have := bin_off_le_total ri items (j * ri)
      omega

/-! ### the result -/

/-- The bytes produced by the encoder satisfy the `Layout` interface of the double-ended decoder. -/
theorem layout_encodeBlock (ri : Nat) (h1 : 1 ≤ ri) (h2 : ri < 256) (items : List (Entry Bytes)) (hne : items ≠ [])
    (hw : ∀ e ∈ items, WfEntry e) (hsz : (encodeBlock ri items).length < 2 ^ 32) :
    ∃ off kOff d0, Layout (encodeBlock ri items) ri items off kOff d0 := by
  obtain ⟨bin, trailer, hl, hh, he⟩ := encodeBlock_layout ri (by omega) items
  obtain ⟨d0, hnew, hd0, hbl, hbin⟩ := bin_new_encodeBlock ri h1 h2 items hne hsz
  rw [he] at hnew hd0
  rw [he]
  exact ⟨offE ri items, _, d0, layout_of_new ri (by omega) items hne hw (bin ++ trailer) d0 hnew hd0 hbl hbin⟩

#print axioms layout_encodeBlock

end Lsm.CodecBack
