import LsmModel.Fs.Install
/-!
# Crash atomicity of the version-install protocol (proofs over `LsmModel/Fs/Install.lean`)

`Crash fs d` is the adversarial POSIX crash relation: after a crash a file whose directory entry is not durable may
be missing, of its content any prefix containing the synced prefix may survive, and `current` is the durable value
or — while a rename awaits the directory sync — either value (anything at all if the temp file was not fsynced).

`Inv old new` is the three-phase invariant (before the rename / renamed, directory not yet synced / installed);
every accepted action preserves it (`step_inv`) and every crash image of a state satisfying it recovers to the old
or to the new version (`inv_recovers`).
-/
namespace Lsm.Fs

/-! ### association lists -/

theorem lookup_del {α : Type} (l : List (Path × α)) (p q : Path) :
    lookup (del l p) q = if q = p then none else lookup l q := by
  induction l with
  | nil => simp [del, lookup]
  | cons e rest ih =>
    obtain ⟨r, x⟩ := e
    unfold del at ih ⊢
    by_cases hr : r = p
    · subst hr
      simp only [List.filter_cons, bne_self_eq_false, Bool.false_eq_true, if_false, ih]
      by_cases hq : q = r
      · simp [hq]
      · have : ¬ r = q := fun h => hq h.symm
        simp [hq, lookup, this]
    · have hb : ((r, x).1 != p) = true := by simp [hr]
      simp only [List.filter_cons, hb, if_true, lookup, ih]
      by_cases hrq : r = q
      · subst hrq; simp [hr]
      · simp [hrq]

theorem lookup_put {α : Type} (l : List (Path × α)) (p q : Path) (x : α) :
    lookup (put l p x) q = if q = p then some x else lookup l q := by
  unfold put
  by_cases hq : q = p
  · subst hq; simp [lookup]
  · have : ¬ p = q := fun h => hq h.symm
    simp [lookup, this, lookup_del, hq]

theorem lookup_upd {α : Type} (l : List (Path × α)) (p q : Path) (g : α → α) :
    lookup (upd l p g) q = if q = p then (lookup l p).map g else lookup l q := by
  induction l with
  | nil => simp [upd, lookup]
  | cons e rest ih =>
    obtain ⟨r, x⟩ := e
    unfold upd at ih ⊢
    simp only [List.map_cons]
    by_cases hr : r = p
    · subst hr
      by_cases hq : q = r
      · subst hq; simp [lookup]
      · have : ¬ r = q := fun h => hq h.symm
        simp only [if_true, lookup, this, if_false, ih, hq]
    · by_cases hq : q = p
      · subst hq
        simp only [hr, if_false, lookup, ih, if_true]
      · simp only [hr, if_false, lookup, ih, hq]

theorem lookup_linkDir (l : List (Path × File)) (dir : Nat) (q : Path) :
    lookup (linkDir l dir) q =
      (lookup l q).map (fun f => if q.1 = dir then { f with linked := true } else f) := by
  induction l with
  | nil => simp [linkDir, lookup]
  | cons e rest ih =>
    obtain ⟨r, x⟩ := e
    unfold linkDir at ih ⊢
    simp only [List.map_cons]
    by_cases hd : r.1 = dir
    · by_cases hq : r = q
      · subst hq; simp [lookup, hd]
      · simp only [hd, if_true, lookup, hq, if_false, ih]
    · by_cases hq : r = q
      · subst hq; simp [lookup, hd]
      · simp only [hd, if_false, lookup, hq, ih]

/-! ### the state after one action -/

@[simp] theorem get_create (fs : Fs) (p q : Path) :
    (apply fs (.create p)).get q = if q = p then some ⟨[], 0, false⟩ else fs.get q := by
  simp [apply, Fs.get, lookup_put]

@[simp] theorem get_append (fs : Fs) (p q : Path) (c : Nat) :
    (apply fs (.append p c)).get q =
      if q = p then (fs.get p).map (fun f => { f with data := f.data ++ [c] }) else fs.get q := by
  simp [apply, Fs.get, lookup_upd]

@[simp] theorem get_fsyncFile (fs : Fs) (p q : Path) :
    (apply fs (.fsyncFile p)).get q =
      if q = p then (fs.get p).map (fun f => { f with synced := f.data.length }) else fs.get q := by
  simp [apply, Fs.get, lookup_upd]

@[simp] theorem get_fsyncDir (fs : Fs) (dir : Nat) (q : Path) :
    (apply fs (.fsyncDir dir)).get q =
      (fs.get q).map (fun f => if q.1 = dir then { f with linked := true } else f) := by
  simp [apply, Fs.get, lookup_linkDir]

@[simp] theorem get_writeTmp (fs : Fs) (v : Nat) (q : Path) : (apply fs (.writeTmp v)).get q = fs.get q := rfl
@[simp] theorem get_fsyncTmp (fs : Fs) (q : Path) : (apply fs .fsyncTmp).get q = fs.get q := rfl
@[simp] theorem get_rename (fs : Fs) (q : Path) : (apply fs .rename).get q = fs.get q := by
  unfold apply; cases fs.tmp <;> rfl
@[simp] theorem get_unlink (fs : Fs) (p q : Path) :
    (apply fs (.unlink p)).get q = if q = p then none else fs.get q := by
  simp [apply, Fs.get, lookup_del]

theorem run_nil (fs : Fs) : run fs [] = fs := rfl
theorem run_cons (fs : Fs) (a : Act) (as : List Act) : run fs (a :: as) = run (apply fs a) as := rfl
theorem run_append (fs : Fs) (as bs : List Act) : run fs (as ++ bs) = run (run fs as) bs := by
  simp [run, List.foldl_append]

/-! ### crash outcomes and recovery -/

/-- adversarial crash outcomes -/
def Crash (fs : Fs) (d : Disk) : Prop :=
  (∀ p f, fs.get p = some f →
      (d.get p = none ∧ f.linked = false) ∨
      (∃ k, f.synced ≤ k ∧ k ≤ f.data.length ∧ d.get p = some (f.data.take k))) ∧
  (match fs.pending with
   | none            => d.current = some fs.curDur
   | some (v, true)  => d.current = some fs.curDur ∨ d.current = some v
   | some (_, false) => True)

def fileOk (d : Disk) (pf : Path × List Nat) : Prop := d.get pf.1 = some pf.2

/-- recovery succeeds and yields version `v` -/
def RecoversTo (d : Disk) (v : Ver) : Prop := d.current = some v.id ∧ ∀ pf ∈ v.files, fileOk d pf

/-- the file is complete and fully durable -/
def Durable (fs : Fs) (pf : Path × List Nat) : Prop :=
  ∃ f, fs.get pf.1 = some f ∧ f.data = pf.2 ∧ f.synced = f.data.length ∧ f.linked = true

def names (v : Ver) (p : Path) : Prop := ∃ pf ∈ v.files, pf.1 = p

/-- no path is named twice with different contents -/
def Ver.WF (v : Ver) : Prop := ∀ pf ∈ v.files, ∀ pf' ∈ v.files, pf.1 = pf'.1 → pf.2 = pf'.2

theorem durableB_iff {fs : Fs} {pf : Path × List Nat} : durableB fs pf = true ↔ Durable fs pf := by
  unfold durableB Durable
  cases h : fs.get pf.1 with
  | none => simp
  | some f => simp [and_assoc]

theorem namesB_iff {v : Ver} {p : Path} : namesB v p = true ↔ names v p := by
  simp [namesB, names]

theorem namesB_false_iff {v : Ver} {p : Path} : namesB v p = false ↔ ¬ names v p := by
  rw [← namesB_iff]; simp

theorem fileOkB_iff {d : Disk} {pf : Path × List Nat} : fileOkB d pf = true ↔ fileOk d pf := by
  simp [fileOkB, fileOk]

theorem wfB_iff {v : Ver} : v.wfB = true ↔ v.WF := by
  unfold Ver.wfB Ver.WF
  simp only [List.all_eq_true, Bool.or_eq_true, bne_iff_ne, ne_eq, beq_iff_eq]
  constructor
  · intro h pf hpf pf' hpf' he
    rcases h pf hpf pf' hpf' with h | h
    · exact absurd he h
    · exact h
  · intro h pf hpf pf' hpf'
    by_cases he : pf.1 = pf'.1
    · exact Or.inr (h pf hpf pf' hpf' he)
    · exact Or.inl he

/-- the executable enumerator only produces adversarial outcomes of the relation -/
theorem crashFiles_sound (l : List (Path × File)) :
    ∀ r ∈ crashFiles l, ∀ p f, lookup l p = some f →
      (lookup r p = none ∧ f.linked = false) ∨
      (∃ k, f.synced ≤ k ∧ k ≤ f.data.length ∧ lookup r p = some (f.data.take k)) := by
  induction l with
  | nil => intro r _ p f h; simp [lookup] at h
  | cons e rest ih =>
    obtain ⟨p0, f0⟩ := e
    intro r hr p f hl
    simp only [crashFiles, List.mem_append, List.mem_flatMap, List.mem_map, List.mem_filter,
      List.mem_range, decide_eq_true_eq] at hr
    simp only [lookup] at hl
    rcases hr with hr | ⟨r', hr', k, ⟨hk1, hk2⟩, rfl⟩
    · by_cases hlk : f0.linked = true
      · simp [hlk] at hr
      · simp only [hlk, Bool.false_eq_true, if_false, List.mem_map] at hr
        obtain ⟨r', hr', rfl⟩ := hr
        by_cases hp : p0 = p
        · subst hp
          simp only [if_true, Option.some.injEq] at hl
          subst hl
          left
          exact ⟨by simp [lookup_del], by simpa using hlk⟩
        · have hp' : ¬ p = p0 := fun h => hp h.symm
          simp only [hp, if_false] at hl
          simpa [lookup_del, hp'] using ih r' hr' p f hl
    · by_cases hp : p0 = p
      · subst hp
        simp only [if_true, Option.some.injEq] at hl
        subst hl
        right
        exact ⟨k, hk2, by omega, by simp [lookup]⟩
      · have hp' : ¬ p = p0 := fun h => hp h.symm
        simp only [hp, if_false] at hl
        simpa [lookup, hp, lookup_del, hp'] using ih r' hr' p f hl

theorem crashOutcomes_sound {fs : Fs} {d : Disk} (h : d ∈ crashOutcomes fs) : Crash fs d := by
  simp only [crashOutcomes, List.mem_flatMap, List.mem_map] at h
  obtain ⟨r, hr, c, hc, rfl⟩ := h
  refine ⟨fun p f hf => crashFiles_sound fs.files r hr p f hf, ?_⟩
  unfold crashCurrent at hc
  cases hp : fs.pending with
  | none => simpa [hp] using hc
  | some t =>
    obtain ⟨v, b⟩ := t
    cases b with
    | true => simpa [hp] using hc
    | false => trivial

/-- `recover` finds a version only if it is a candidate that `RecoversTo` -/
theorem recover_sound {d : Disk} {cands : List Ver} {n : Nat} (h : recover d cands = some n) :
    ∃ v ∈ cands, v.id = n ∧ RecoversTo d v := by
  unfold recover at h
  cases hc : d.current with
  | none => simp [hc] at h
  | some c =>
    simp only [hc] at h
    cases hf : cands.find? (fun v => v.id == c) with
    | none => simp [hf] at h
    | some v =>
      simp only [hf] at h
      by_cases ha : v.files.all (fileOkB d) = true
      · simp only [ha, if_true, Option.some.injEq] at h
        have hid : v.id = c := by simpa using List.find?_some hf
        refine ⟨v, List.mem_of_find?_eq_some hf, h, ?_, ?_⟩
        · rw [hid]; exact hc
        · intro pf hpf
          exact fileOkB_iff.mp (List.all_eq_true.mp ha pf hpf)
      · simp [ha] at h

/-- with the old and the new version as candidates, `recover` returns what `RecoversTo` says -/
theorem recover_of_recoversTo {d : Disk} {old new : Ver} (hne : old.id ≠ new.id) :
    (RecoversTo d old → recover d [old, new] = some old.id) ∧
    (RecoversTo d new → recover d [old, new] = some new.id) := by
  constructor
  · rintro ⟨hc, hf⟩
    have : old.files.all (fileOkB d) = true :=
      List.all_eq_true.mpr (fun pf hpf => fileOkB_iff.mpr (hf pf hpf))
    simp [recover, hc, List.find?, this]
  · rintro ⟨hc, hf⟩
    have : new.files.all (fileOkB d) = true :=
      List.all_eq_true.mpr (fun pf hpf => fileOkB_iff.mpr (hf pf hpf))
    have hb : (old.id == new.id) = false := by simpa using hne
    simp [recover, hc, List.find?, hb, this]

theorem durable_crash {fs : Fs} {d : Disk} {pf : Path × List Nat} (h : Durable fs pf) (hc : Crash fs d) :
    fileOk d pf := by
  obtain ⟨f, hf, hdata, hsync, hlink⟩ := h
  rcases hc.1 pf.1 f hf with ⟨_, hl⟩ | ⟨k, hk1, hk2, hd⟩
  · simp [hlink] at hl
  · have : k = f.data.length := by omega
    subst this
    simp [fileOk, hd, hdata]

/-! ### the invariant -/

/-- `current` durably names `v`, no rename is in flight, every file of `v` is durable -/
def Quiescent (v : Ver) (fs : Fs) : Prop :=
  fs.curDur = v.id ∧ fs.pending = none ∧ ∀ pf ∈ v.files, Durable fs pf

/-- the rename has happened (temp file fsynced) but the root directory is not yet synced -/
def Renamed (old new : Ver) (fs : Fs) : Prop :=
  fs.curDur = old.id ∧ fs.pending = some (new.id, true) ∧
  (∀ pf ∈ old.files, Durable fs pf) ∧ (∀ pf ∈ new.files, Durable fs pf)

/-- the three-phase invariant; the two versions carry different numbers -/
def Inv (old new : Ver) (fs : Fs) : Prop :=
  old.id ≠ new.id ∧ (Quiescent old fs ∨ Renamed old new fs ∨ Quiescent new fs)

theorem quiescent_recovers {v : Ver} {fs : Fs} {d : Disk} (hq : Quiescent v fs) (hc : Crash fs d) :
    RecoversTo d v := by
  obtain ⟨hcur, hp, hv⟩ := hq
  refine ⟨?_, fun pf hpf => durable_crash (hv pf hpf) hc⟩
  have := hc.2; simp [hp] at this; simpa [hcur] using this

/-- every crash outcome of a state satisfying the invariant recovers to the old or the new version -/
theorem inv_recovers (old new : Ver) (fs : Fs) (d : Disk) (hi : Inv old new fs) (hc : Crash fs d) :
    RecoversTo d old ∨ RecoversTo d new := by
  rcases hi.2 with hq | ⟨hcur, hp, ho, hn⟩ | hq
  · exact Or.inl (quiescent_recovers hq hc)
  · have := hc.2; simp [hp] at this
    rcases this with h | h
    · left; exact ⟨by simpa [hcur] using h, fun pf hpf => durable_crash (ho pf hpf) hc⟩
    · right; exact ⟨h, fun pf hpf => durable_crash (hn pf hpf) hc⟩
  · exact Or.inr (quiescent_recovers hq hc)

/-! ### the guard as a proposition -/

def Guard (old new : Ver) (fs : Fs) : Act → Prop
  | .create p     => ¬ names old p ∧ (phaseOf old new fs = .before ∨ ¬ names new p)
  | .append p _   => ¬ names old p ∧ (phaseOf old new fs = .before ∨ ¬ names new p)
  | .fsyncFile _  => True
  | .fsyncDir _   => True
  | .writeTmp v   => v = new.id ∧ phaseOf old new fs = .before
  | .fsyncTmp     => True
  | .rename       => phaseOf old new fs = .before ∧ fs.tmp = some (new.id, true) ∧
                     ∀ pf ∈ new.files, Durable fs pf
  | .unlink p     => ¬ names new p ∧ (phaseOf old new fs = .installed ∨ ¬ names old p)

theorem guardB_iff {old new : Ver} {fs : Fs} {a : Act} : guardB old new fs a = true ↔ Guard old new fs a := by
  cases a <;>
    simp [guardB, Guard, namesB_false_iff, durableB_iff, and_assoc]

def Accepts (old new : Ver) : Fs → List Act → Prop
  | _, [] => True
  | fs, a :: as => Guard old new fs a ∧ Accepts old new (apply fs a) as

theorem acceptsFrom_none_iff {old new : Ver} {as : List Act} :
    ∀ {fs : Fs}, acceptsFrom old new fs as = none ↔ Accepts old new fs as := by
  induction as with
  | nil => intro fs; simp [acceptsFrom, Accepts]
  | cons a as ih =>
    intro fs
    unfold acceptsFrom Accepts
    by_cases hg : guardB old new fs a = true
    · simp [hg, guardB_iff.mp hg, ih]
    · have : ¬ Guard old new fs a := fun h => hg (guardB_iff.mpr h)
      simp [hg, this]

theorem accepts_append {old new : Ver} {as bs : List Act} :
    ∀ {fs : Fs}, Accepts old new fs (as ++ bs) ↔ Accepts old new fs as ∧ Accepts old new (run fs as) bs := by
  induction as with
  | nil => intro fs; simp [Accepts, run_nil]
  | cons a as ih => intro fs; simp [Accepts, run_cons, ih, and_assoc]

theorem accepts_take {old new : Ver} {fs : Fs} {as : List Act} (h : Accepts old new fs as) (i : Nat) :
    Accepts old new fs (as.take i) := by
  have := (List.take_append_drop i as) ▸ h
  exact (accepts_append.mp this).1

theorem accepts_drop {old new : Ver} {fs : Fs} {as : List Act} (h : Accepts old new fs as) (i : Nat) :
    Accepts old new (run fs (as.take i)) (as.drop i) := by
  have := (List.take_append_drop i as) ▸ h
  exact (accepts_append.mp this).2

/-- the guard of the `i`-th action holds in the state the first `i` actions produce -/
theorem accepts_guard_at {old new : Ver} {fs : Fs} {as : List Act} (h : Accepts old new fs as)
    (i : Nat) (hi : i < as.length) : Guard old new (run fs (as.take i)) as[i] := by
  have hd := accepts_drop h i
  rw [List.drop_eq_getElem_cons hi] at hd
  exact hd.1

/-! ### the step lemma -/

theorem durable_congr {fs fs' : Fs} {pf : Path × List Nat} (h : fs'.get pf.1 = fs.get pf.1) :
    Durable fs pf → Durable fs' pf := by
  rintro ⟨f, hf, r⟩; exact ⟨f, by rw [h, hf], r⟩

theorem not_names_ne {v : Ver} {p : Path} {pf : Path × List Nat} (hpf : pf ∈ v.files) (hn : ¬ names v p) :
    pf.1 ≠ p :=
  fun h => hn ⟨pf, hpf, h⟩

theorem durable_fsyncFile {fs : Fs} {p : Path} {pf : Path × List Nat} (h : Durable fs pf) :
    Durable (apply fs (.fsyncFile p)) pf := by
  obtain ⟨f, hf, hd, hs, hl⟩ := h
  by_cases hq : pf.1 = p
  · subst hq
    exact ⟨{ f with synced := f.data.length }, by simp [hf], hd, rfl, hl⟩
  · exact ⟨f, by simp [hq, hf], hd, hs, hl⟩

theorem durable_fsyncDir {fs : Fs} {dir : Nat} {pf : Path × List Nat} (h : Durable fs pf) :
    Durable (apply fs (.fsyncDir dir)) pf := by
  obtain ⟨f, hf, hd, hs, hl⟩ := h
  by_cases hq : pf.1.1 = dir
  · exact ⟨{ f with linked := true }, by simp [hf, hq], hd, hs, rfl⟩
  · exact ⟨f, by simp [hf, hq], hd, hs, hl⟩

/-- an action that leaves the file alone keeps it durable -/
theorem durable_untouched {fs : Fs} {a : Act} {v : Ver}
    (hget : ∀ pf ∈ v.files, (apply fs a).get pf.1 = fs.get pf.1)
    (h : ∀ pf ∈ v.files, Durable fs pf) : ∀ pf ∈ v.files, Durable (apply fs a) pf :=
  fun pf hpf => durable_congr (hget pf hpf) (h pf hpf)

theorem phase_before {old new : Ver} {fs : Fs} (hne : old.id ≠ new.id) (hc : fs.curDur = old.id)
    (hp : fs.pending = none) : phaseOf old new fs = .before := by
  simp [phaseOf, hc, hp, hne]

theorem phase_renamed {old new : Ver} {fs : Fs} {t : Nat × Bool} (hne : old.id ≠ new.id)
    (hc : fs.curDur = old.id) (hp : fs.pending = some t) : phaseOf old new fs = .renamed := by
  simp [phaseOf, hc, hp, hne]

theorem phase_installed {old new : Ver} {fs : Fs} (hc : fs.curDur = new.id) :
    phaseOf old new fs = .installed := by
  simp [phaseOf, hc]

/-- the durable `current` and the pending rename are changed only by `fsyncDir 0` and `rename` -/
theorem cur_pending_unchanged (fs : Fs) (a : Act) (ha : a ≠ .rename) (hd : ∀ dir, a = .fsyncDir dir → fs.pending = none) :
    (apply fs a).curDur = fs.curDur ∧ (apply fs a).pending = fs.pending := by
  cases a with
  | rename => exact absurd rfl ha
  | fsyncDir dir =>
    have hp := hd dir rfl
    unfold apply
    by_cases h0 : dir = 0 <;> simp [h0, hp]
  | _ => exact ⟨rfl, rfl⟩

theorem step_inv (old new : Ver) (fs : Fs) (a : Act)
    (hi : Inv old new fs) (hg : Guard old new fs a) : Inv old new (apply fs a) := by
  obtain ⟨hne, hi⟩ := hi
  refine ⟨hne, ?_⟩
  cases a with
  | create p =>
    obtain ⟨hno, hnn⟩ := hg
    have keep : ∀ v : Ver, ¬ names v p → (∀ pf ∈ v.files, Durable fs pf) →
        ∀ pf ∈ v.files, Durable (apply fs (.create p)) pf := fun v hv =>
      durable_untouched (fun pf hpf => by simp [not_names_ne hpf hv])
    rcases hi with ⟨hc, hp, ho⟩ | ⟨hc, hp, ho, hn⟩ | ⟨hc, hp, hn⟩
    · exact Or.inl ⟨hc, hp, keep old hno ho⟩
    · have : ¬ names new p := by
        rcases hnn with h | h
        · rw [phase_renamed hne hc hp] at h; cases h
        · exact h
      exact Or.inr (Or.inl ⟨hc, hp, keep old hno ho, keep new this hn⟩)
    · have : ¬ names new p := by
        rcases hnn with h | h
        · rw [phase_installed hc] at h; cases h
        · exact h
      exact Or.inr (Or.inr ⟨hc, hp, keep new this hn⟩)
  | append p c =>
    obtain ⟨hno, hnn⟩ := hg
    have keep : ∀ v : Ver, ¬ names v p → (∀ pf ∈ v.files, Durable fs pf) →
        ∀ pf ∈ v.files, Durable (apply fs (.append p c)) pf := fun v hv =>
      durable_untouched (fun pf hpf => by simp [not_names_ne hpf hv])
    have hcp : (apply fs (.append p c)).curDur = fs.curDur ∧ (apply fs (.append p c)).pending = fs.pending :=
      ⟨rfl, rfl⟩
    rcases hi with ⟨hc, hp, ho⟩ | ⟨hc, hp, ho, hn⟩ | ⟨hc, hp, hn⟩
    · exact Or.inl ⟨hcp.1 ▸ hc, hcp.2 ▸ hp, keep old hno ho⟩
    · have : ¬ names new p := by
        rcases hnn with h | h
        · rw [phase_renamed hne hc hp] at h; cases h
        · exact h
      exact Or.inr (Or.inl ⟨hcp.1 ▸ hc, hcp.2 ▸ hp, keep old hno ho, keep new this hn⟩)
    · have : ¬ names new p := by
        rcases hnn with h | h
        · rw [phase_installed hc] at h; cases h
        · exact h
      exact Or.inr (Or.inr ⟨hcp.1 ▸ hc, hcp.2 ▸ hp, keep new this hn⟩)
  | fsyncFile p =>
    have hcp : (apply fs (.fsyncFile p)).curDur = fs.curDur ∧ (apply fs (.fsyncFile p)).pending = fs.pending :=
      ⟨rfl, rfl⟩
    rcases hi with ⟨hc, hp, ho⟩ | ⟨hc, hp, ho, hn⟩ | ⟨hc, hp, hn⟩
    · exact Or.inl ⟨hcp.1 ▸ hc, hcp.2 ▸ hp, fun pf hpf => durable_fsyncFile (ho pf hpf)⟩
    · exact Or.inr (Or.inl ⟨hcp.1 ▸ hc, hcp.2 ▸ hp, fun pf hpf => durable_fsyncFile (ho pf hpf),
        fun pf hpf => durable_fsyncFile (hn pf hpf)⟩)
    · exact Or.inr (Or.inr ⟨hcp.1 ▸ hc, hcp.2 ▸ hp, fun pf hpf => durable_fsyncFile (hn pf hpf)⟩)
  | fsyncDir dir =>
    rcases hi with ⟨hc, hp, ho⟩ | ⟨hc, hp, ho, hn⟩ | ⟨hc, hp, hn⟩
    · refine Or.inl ⟨?_, ?_, fun pf hpf => durable_fsyncDir (ho pf hpf)⟩ <;>
        (unfold apply; by_cases h0 : dir = 0 <;> simp [h0, hp, hc])
    · by_cases h0 : dir = 0
      · refine Or.inr (Or.inr ⟨?_, ?_, fun pf hpf => durable_fsyncDir (hn pf hpf)⟩) <;>
          (unfold apply; simp [h0, hp])
      · refine Or.inr (Or.inl ⟨?_, ?_, fun pf hpf => durable_fsyncDir (ho pf hpf),
          fun pf hpf => durable_fsyncDir (hn pf hpf)⟩) <;> (unfold apply; simp [h0, hp, hc])
    · refine Or.inr (Or.inr ⟨?_, ?_, fun pf hpf => durable_fsyncDir (hn pf hpf)⟩) <;>
        (unfold apply; by_cases h0 : dir = 0 <;> simp [h0, hp, hc])
  | writeTmp v =>
    rcases hi with ⟨hc, hp, ho⟩ | ⟨hc, hp, ho, hn⟩ | ⟨hc, hp, hn⟩
    · exact Or.inl ⟨hc, hp, fun pf hpf => durable_congr rfl (ho pf hpf)⟩
    · exact Or.inr (Or.inl ⟨hc, hp, fun pf hpf => durable_congr rfl (ho pf hpf),
        fun pf hpf => durable_congr rfl (hn pf hpf)⟩)
    · exact Or.inr (Or.inr ⟨hc, hp, fun pf hpf => durable_congr rfl (hn pf hpf)⟩)
  | fsyncTmp =>
    rcases hi with ⟨hc, hp, ho⟩ | ⟨hc, hp, ho, hn⟩ | ⟨hc, hp, hn⟩
    · exact Or.inl ⟨hc, hp, fun pf hpf => durable_congr rfl (ho pf hpf)⟩
    · exact Or.inr (Or.inl ⟨hc, hp, fun pf hpf => durable_congr rfl (ho pf hpf),
        fun pf hpf => durable_congr rfl (hn pf hpf)⟩)
    · exact Or.inr (Or.inr ⟨hc, hp, fun pf hpf => durable_congr rfl (hn pf hpf)⟩)
  | rename =>
    obtain ⟨hph, htmp, hnew⟩ := hg
    rcases hi with ⟨hc, hp, ho⟩ | ⟨hc, hp, ho, hn⟩ | ⟨hc, hp, hn⟩
    · refine Or.inr (Or.inl ⟨?_, ?_, fun pf hpf => durable_congr (get_rename fs _) (ho pf hpf),
        fun pf hpf => durable_congr (get_rename fs _) (hnew pf hpf)⟩) <;> simp [apply, htmp, hc]
    · rw [phase_renamed hne hc hp] at hph; cases hph
    · rw [phase_installed hc] at hph; cases hph
  | unlink p =>
    obtain ⟨hnn, hoo⟩ := hg
    have keep : ∀ v : Ver, ¬ names v p → (∀ pf ∈ v.files, Durable fs pf) →
        ∀ pf ∈ v.files, Durable (apply fs (.unlink p)) pf := fun v hv =>
      durable_untouched (fun pf hpf => by simp [not_names_ne hpf hv])
    rcases hi with ⟨hc, hp, ho⟩ | ⟨hc, hp, ho, hn⟩ | ⟨hc, hp, hn⟩
    · have : ¬ names old p := by
        rcases hoo with h | h
        · rw [phase_before hne hc hp] at h; cases h
        · exact h
      exact Or.inl ⟨hc, hp, keep old this ho⟩
    · have : ¬ names old p := by
        rcases hoo with h | h
        · rw [phase_renamed hne hc hp] at h; cases h
        · exact h
      exact Or.inr (Or.inl ⟨hc, hp, keep old this ho, keep new hnn hn⟩)
    · exact Or.inr (Or.inr ⟨hc, hp, keep new hnn hn⟩)

/-- the invariant holds after every accepted sequence -/
theorem run_inv {old new : Ver} {as : List Act} :
    ∀ {fs : Fs}, Inv old new fs → Accepts old new fs as → Inv old new (run fs as) := by
  induction as with
  | nil => intro fs hi _; exact hi
  | cons a as ih => intro fs hi hacc; exact ih (step_inv old new fs a hi hacc.1) hacc.2

/-- **Crash atomicity.**  At every point of an accepted action sequence, every adversarial crash outcome
recovers to the old or to the new version. -/
theorem accepted_install_atomic (old new : Ver) (fs : Fs) (as : List Act) (hinv : Inv old new fs)
    (hacc : acceptsFrom old new fs as = none) :
    ∀ i ≤ as.length, ∀ d, Crash (run fs (as.take i)) d → RecoversTo d old ∨ RecoversTo d new := by
  intro i _ d hc
  have hacc := acceptsFrom_none_iff.mp hacc
  exact inv_recovers old new _ d (run_inv hinv (accepts_take hacc i)) hc

/-! ### once the operation has returned, a later crash cannot undo it -/

theorem completedB_iff {old new : Ver} {fs : Fs} :
    completedB old new fs = true ↔ fs.curDur = new.id ∧ fs.pending = none := by
  simp [completedB]

/-- no accepted action leaves the installed phase -/
theorem step_completed {old new : Ver} {fs : Fs} {a : Act} (hc : completedB old new fs = true)
    (hg : Guard old new fs a) : completedB old new (apply fs a) = true := by
  rw [completedB_iff] at hc ⊢
  by_cases ha : a = .rename
  · subst ha
    have := hg.1
    rw [phase_installed hc.1] at this; cases this
  · have := cur_pending_unchanged fs a ha (fun _ _ => hc.2)
    exact ⟨this.1 ▸ hc.1, this.2 ▸ hc.2⟩

theorem run_completed {old new : Ver} {as : List Act} :
    ∀ {fs : Fs}, completedB old new fs = true → Accepts old new fs as → completedB old new (run fs as) = true := by
  induction as with
  | nil => intro fs hc _; exact hc
  | cons a as ih => intro fs hc hacc; exact ih (step_completed hc hacc.1) hacc.2

theorem inv_completed_quiescent {old new : Ver} {fs : Fs} (hi : Inv old new fs)
    (hc : completedB old new fs = true) : Quiescent new fs := by
  rw [completedB_iff] at hc
  obtain ⟨hne, hq | ⟨hcur, hp, _⟩ | hq⟩ := hi
  · exact absurd (hq.1.symm.trans hc.1) hne
  · rw [hc.2] at hp; cases hp
  · exact hq

/-- If the accepted sequence has completed the install, every crash outcome of the reached state and of any
accepted continuation (the reclamation of old files, for instance) recovers to the new version, never to the old. -/
theorem accepted_completed_only_new (old new : Ver) (fs : Fs) (as : List Act) (hinv : Inv old new fs)
    (hacc : acceptsFrom old new fs as = none) (hdone : completedB old new (run fs as) = true)
    (ext : List Act) (hext : acceptsFrom old new (run fs as) ext = none) :
    ∀ i ≤ ext.length, ∀ d, Crash (run (run fs as) (ext.take i)) d → RecoversTo d new := by
  intro i _ d hc
  have hacc := acceptsFrom_none_iff.mp hacc
  have hext := accepts_take (acceptsFrom_none_iff.mp hext) i
  have hi := run_inv (run_inv hinv hacc) hext
  exact quiescent_recovers (inv_completed_quiescent hi (run_completed hdone hext)) hc

/-! ### quiescent states: where operations start and where they chain -/

theorem get_ofFiles (l : List (Path × List Nat))
    (hwf : ∀ pf ∈ l, ∀ pf' ∈ l, pf.1 = pf'.1 → pf.2 = pf'.2) :
    ∀ pf ∈ l, lookup (l.foldr (fun pf acc => put acc pf.1 (⟨pf.2, pf.2.length, true⟩ : File)) []) pf.1
      = some ⟨pf.2, pf.2.length, true⟩ := by
  induction l with
  | nil => intro pf h; cases h
  | cons x xs ih =>
    intro pf hpf
    simp only [List.foldr_cons, lookup_put]
    by_cases he : pf.1 = x.1
    · have := hwf pf hpf x (List.mem_cons_self) he
      simp [he, this]
    · simp only [he, if_false]
      have hmem : pf ∈ xs := by
        rcases List.mem_cons.mp hpf with h | h
        · exact absurd (by rw [h]) he
        · exact h
      exact ih (fun a ha b hb => hwf a (List.mem_cons_of_mem _ ha) b (List.mem_cons_of_mem _ hb)) pf hmem

theorem ofVersion_quiescent {v : Ver} (hwf : v.WF) : Quiescent v (Fs.ofVersion v) := by
  refine ⟨rfl, rfl, fun pf hpf => ?_⟩
  exact ⟨⟨pf.2, pf.2.length, true⟩, get_ofFiles v.files hwf pf hpf, rfl, rfl, rfl⟩

/-- the theorem applies from the quiescent state of a well-formed version -/
theorem ofVersion_inv {v new : Ver} (hwf : v.WF) (hne : v.id ≠ new.id) : Inv v new (Fs.ofVersion v) :=
  ⟨hne, Or.inl (ofVersion_quiescent hwf)⟩

/-- in the phase before the rename the invariant does not mention the new version -/
theorem inv_before_mono {old new new' : Ver} {fs : Fs} (hi : Inv old new fs)
    (hph : phaseOf old new fs = .before) (hne : old.id ≠ new'.id) : Inv old new' fs := by
  obtain ⟨hne0, hq | ⟨hcur, hp, _⟩ | hq⟩ := hi
  · exact ⟨hne, Or.inl hq⟩
  · rw [phase_renamed hne0 hcur hp] at hph; cases hph
  · rw [phase_installed hq.1] at hph; cases hph

theorem inv_before_quiescent {old new : Ver} {fs : Fs} (hi : Inv old new fs)
    (hph : phaseOf old new fs = .before) : Quiescent old fs := by
  obtain ⟨hne0, hq | ⟨hcur, hp, _⟩ | hq⟩ := hi
  · exact hq
  · rw [phase_renamed hne0 hcur hp] at hph; cases hph
  · rw [phase_installed hq.1] at hph; cases hph

/-- after a completed install the state is a valid starting point for the next one.  Nothing else is needed:
the guard of the next operation (with `old := new`) forbids touching any file `new` names. -/
theorem inv_after_install {old new new' : Ver} {fs : Fs} (hi : Inv old new fs)
    (hc : completedB old new fs = true) (hne : new.id ≠ new'.id) : Inv new new' fs :=
  ⟨hne, Or.inl (inv_completed_quiescent hi hc)⟩

/-! ### whole histories -/

/-- `ops` is a list of installs `(target version, actions)`; each is accepted from the state the previous one
left, installs a version with a different number, and every one that is followed by another has completed -/
def HistoryOk : Ver → Fs → List (Ver × List Act) → Prop
  | _, _, [] => True
  | v, fs, (v', as) :: rest =>
    v.id ≠ v'.id ∧ acceptsFrom v v' fs as = none ∧
    (rest ≠ [] → completedB v v' (run fs as) = true) ∧ HistoryOk v' (run fs as) rest

/-- every crash inside operation `j` recovers to the version before it or to its target -/
def HistoryAtomic : Ver → Fs → List (Ver × List Act) → Prop
  | _, _, [] => True
  | v, fs, (v', as) :: rest =>
    (∀ i ≤ as.length, ∀ d, Crash (run fs (as.take i)) d → RecoversTo d v ∨ RecoversTo d v') ∧
    HistoryAtomic v' (run fs as) rest

theorem historyFrom_none_iff {ops : List (Ver × List Act)} :
    ∀ {v : Ver} {fs : Fs}, historyFrom v fs ops = none ↔ HistoryOk v fs ops := by
  induction ops with
  | nil => intro v fs; simp [historyFrom, HistoryOk]
  | cons op rest ih =>
    intro v fs
    obtain ⟨v', as⟩ := op
    unfold historyFrom HistoryOk
    by_cases hid : v.id = v'.id
    · simp [hid]
    · cases hacc : acceptsFrom v v' fs as with
      | some i => simp [hid]
      | none =>
        cases rest with
        | nil => simp [hid, HistoryOk]
        | cons op' rest' =>
          by_cases hcomp : completedB v v' (run fs as) = true
          · simp [hid, hcomp, ih]
          · simp [hid, hcomp]

theorem history_crash_atomic (ops : List (Ver × List Act)) :
    ∀ (v : Ver) (fs : Fs), Quiescent v fs → HistoryOk v fs ops → HistoryAtomic v fs ops := by
  induction ops with
  | nil => intro v fs _ _; trivial
  | cons op rest ih =>
    intro v fs hq hok
    obtain ⟨v', as⟩ := op
    obtain ⟨hne, hacc, hcomp, hrest⟩ := hok
    have hinv : Inv v v' fs := ⟨hne, Or.inl hq⟩
    refine ⟨accepted_install_atomic v v' fs as hinv hacc, ?_⟩
    cases rest with
    | nil => trivial
    | cons op' rest' =>
      have hc := hcomp (by simp)
      have hq' := inv_completed_quiescent (run_inv hinv (acceptsFrom_none_iff.mp hacc)) hc
      exact ih v' (run fs as) hq' hrest

/-- the state after the operations `pre` -/
def runOps (fs : Fs) (pre : List (Ver × List Act)) : Fs := pre.foldl (fun s op => run s op.2) fs
/-- the version installed by the last of the operations `pre` -/
def lastVer : Ver → List (Ver × List Act) → Ver
  | v, [] => v
  | _, op :: rest => lastVer op.1 rest

theorem historyAtomic_at {pre : List (Ver × List Act)} :
    ∀ {v : Ver} {fs : Fs} {post : List (Ver × List Act)} {v' : Ver} {as : List Act},
      HistoryAtomic v fs (pre ++ (v', as) :: post) →
      ∀ i ≤ as.length, ∀ d, Crash (run (runOps fs pre) (as.take i)) d →
        RecoversTo d (lastVer v pre) ∨ RecoversTo d v' := by
  induction pre with
  | nil => intro v fs post v' as h; exact h.1
  | cons op pre ih =>
    intro v fs post v' as h
    exact ih h.2

/-- indexed form: a crash anywhere inside the operation that follows the operations `pre` recovers to the version
`pre` left or to that operation's target -/
theorem history_crash_atomic_at (v0 : Ver) (fs : Fs) (pre post : List (Ver × List Act)) (v' : Ver)
    (as : List Act) (hq : Quiescent v0 fs) (hok : HistoryOk v0 fs (pre ++ (v', as) :: post)) :
    ∀ i ≤ as.length, ∀ d, Crash (run (runOps fs pre) (as.take i)) d →
      RecoversTo d (lastVer v0 pre) ∨ RecoversTo d v' :=
  historyAtomic_at (history_crash_atomic _ v0 fs hq hok)

/-! ### C16 — operations that fail part-way -/

theorem failAt_cons_succ (a : Act) (as : List Act) (j : Nat) :
    failAt (a :: as) (j + 1) = (a, true) :: failAt as j := by
  simp [failAt]

theorem runOutcomes_failAt (as : List Act) : ∀ (fs : Fs) (j : Nat), runOutcomes fs (failAt as j) = run fs (as.take j) := by
  induction as with
  | nil => intro fs j; simp [failAt, runOutcomes, run]
  | cons a as ih =>
    intro fs j
    cases j with
    | zero => simp [failAt, runOutcomes, applyOrFail, run]
    | succ j =>
      rw [failAt_cons_succ]
      simp [runOutcomes, applyOrFail, run_cons, ih]

/-- as long as the rename has not been issued, `current` durably names the old version and no rename is pending -/
theorem run_no_rename {as : List Act} :
    ∀ {fs : Fs}, fs.pending = none → (∀ a ∈ as, a ≠ .rename) →
      (run fs as).curDur = fs.curDur ∧ (run fs as).pending = none := by
  induction as with
  | nil => intro fs hp _; exact ⟨rfl, hp⟩
  | cons a as ih =>
    intro fs hp hnr
    have h1 := cur_pending_unchanged fs a (hnr a List.mem_cons_self) (fun _ _ => hp)
    have h2 := ih (fs := apply fs a) (h1.2 ▸ hp) (fun b hb => hnr b (List.mem_cons_of_mem _ hb))
    rw [run_cons]
    exact ⟨h2.1.trans h1.1, h2.2⟩

/-- **Failed operations.**  The operation `as` (accepted as far as it went: `as.take j`) stopped with an error at
action `j`.  (a) Every crash outcome recovers to the old or the new version.  (b) If the rename had not been issued,
the reached state is quiescent for the old version: `current` durably names it, its files are untouched, every
crash outcome recovers to it, and the state satisfies the invariant for ANY further target version. -/
theorem failed_op_recovers_old_or_new (old new : Ver) (fs : Fs) (as : List Act) (j : Nat)
    (hinv : Inv old new fs) (hacc : acceptsFrom old new fs (as.take j) = none) :
    (∀ d, Crash (runOutcomes fs (failAt as j)) d → RecoversTo d old ∨ RecoversTo d new) ∧
    (phaseOf old new fs = .before → (∀ a ∈ as.take j, a ≠ .rename) →
      Quiescent old (runOutcomes fs (failAt as j)) ∧
      phaseOf old new (runOutcomes fs (failAt as j)) = .before ∧
      (∀ d, Crash (runOutcomes fs (failAt as j)) d → RecoversTo d old) ∧
      (∀ new' : Ver, old.id ≠ new'.id → Inv old new' (runOutcomes fs (failAt as j)))) := by
  rw [runOutcomes_failAt]
  have hacc' := acceptsFrom_none_iff.mp hacc
  have hi := run_inv hinv hacc'
  refine ⟨fun d hc => inv_recovers old new _ d hi hc, fun hph hnr => ?_⟩
  have hq0 := inv_before_quiescent hinv hph
  have hcp := run_no_rename (fs := fs) hq0.2.1 hnr
  have hph' : phaseOf old new (run fs (as.take j)) = .before :=
    phase_before hinv.1 (hcp.1.trans hq0.1) hcp.2
  have hq := inv_before_quiescent hi hph'
  exact ⟨hq, hph', fun d hc => quiescent_recovers hq hc, fun new' hne => ⟨hne, Or.inl hq⟩⟩

/-- **Retry.**  After a failure before the rename the operation is run again towards a target `new'` (in the real
code the retry allocates fresh table ids, so `new'` names other files than `new` did; the leftovers of the failed
attempt are named by neither).  An accepted retry is crash-atomic with respect to `(old, new')`.  Freshness of the
names is not a hypothesis: a retry that reused a leftover without re-creating it would fail the `rename` guard's
exact-content check and not be accepted. -/
theorem retry_crash_atomic (old new new' : Ver) (fs : Fs) (as as' : List Act) (j : Nat)
    (hinv : Inv old new fs) (hph : phaseOf old new fs = .before)
    (hacc : acceptsFrom old new fs (as.take j) = none) (hnr : ∀ a ∈ as.take j, a ≠ .rename)
    (hne : old.id ≠ new'.id)
    (hacc' : acceptsFrom old new' (runOutcomes fs (failAt as j)) as' = none) :
    ∀ i ≤ as'.length, ∀ d, Crash (run (runOutcomes fs (failAt as j)) (as'.take i)) d →
      RecoversTo d old ∨ RecoversTo d new' :=
  accepted_install_atomic old new' _ as'
    (((failed_op_recovers_old_or_new old new fs as j hinv hacc).2 hph hnr).2.2.2 new' hne) hacc'

/-! ### C20 — reclamation never removes a live file -/

/-- `v` is the version `current` names durably, or may name after a crash -/
def CouldBeCurrent (fs : Fs) (v : Ver) : Prop := fs.curDur = v.id ∨ ∃ b, fs.pending = some (v.id, b)

theorem inv_live_durable {old new : Ver} {fs : Fs} (hi : Inv old new fs) :
    (CouldBeCurrent fs old → ∀ pf ∈ old.files, Durable fs pf) ∧
    (CouldBeCurrent fs new → ∀ pf ∈ new.files, Durable fs pf) ∧
    (CouldBeCurrent fs old ∨ CouldBeCurrent fs new) := by
  obtain ⟨hne, ⟨hc, hp, ho⟩ | ⟨hc, hp, ho, hn⟩ | ⟨hc, hp, hn⟩⟩ := hi
  · refine ⟨fun _ => ho, ?_, Or.inl (Or.inl hc)⟩
    rintro (h | ⟨b, h⟩)
    · exact absurd (hc.symm.trans h) hne
    · rw [hp] at h; cases h
  · exact ⟨fun _ => ho, fun _ => hn, Or.inl (Or.inl hc)⟩
  · refine ⟨?_, fun _ => hn, Or.inr (Or.inl hc)⟩
    rintro (h | ⟨b, h⟩)
    · exact absurd (h.symm.trans hc) hne
    · rw [hp] at h; cases h

/-- **Reclamation safety.**  In an accepted sequence, (1) every `unlink p` is of a file the new version does not
name, and happens when the install is durable or on a file the old version does not name either; (2) every
`create`/`append` is on a file the old version does not name; (3) at every point, every file of whichever version
`current` names — durably or through the pending rename — is present, complete and durable. -/
theorem accepted_never_unlinks_live (old new : Ver) (fs : Fs) (as : List Act) (hinv : Inv old new fs)
    (hacc : acceptsFrom old new fs as = none) :
    (∀ i (hi : i < as.length) p, as[i] = .unlink p →
        ¬ names new p ∧ (phaseOf old new (run fs (as.take i)) = .installed ∨ ¬ names old p)) ∧
    (∀ i (hi : i < as.length) p, (as[i] = .create p ∨ ∃ c, as[i] = .append p c) → ¬ names old p) ∧
    (∀ i ≤ as.length,
        (CouldBeCurrent (run fs (as.take i)) old → ∀ pf ∈ old.files, Durable (run fs (as.take i)) pf) ∧
        (CouldBeCurrent (run fs (as.take i)) new → ∀ pf ∈ new.files, Durable (run fs (as.take i)) pf) ∧
        (CouldBeCurrent (run fs (as.take i)) old ∨ CouldBeCurrent (run fs (as.take i)) new)) := by
  have hacc := acceptsFrom_none_iff.mp hacc
  refine ⟨?_, ?_, ?_⟩
  · intro i hi p hp
    have := accepts_guard_at hacc i hi
    rw [hp] at this
    exact this
  · intro i hi p hp
    have := accepts_guard_at hacc i hi
    rcases hp with hp | ⟨c, hp⟩ <;> (rw [hp] at this; exact this.1)
  · intro i _
    exact inv_live_durable (run_inv hinv (accepts_take hacc i))

@[simp] theorem remove_get (d : Disk) (p q : Path) : (d.remove p).get q = if q = p then none else d.get q := by
  simp [Disk.remove, Disk.get, lookup_del]

/-- after recovery to `v`, a file `v` does not name may be deleted: recovery still yields `v` -/
theorem recovery_cleanup_safe {d : Disk} {v : Ver} {p : Path} (h : RecoversTo d v) (hn : ¬ names v p) :
    RecoversTo (d.remove p) v := by
  refine ⟨h.1, fun pf hpf => ?_⟩
  have := h.2 pf hpf
  simp [fileOk, not_names_ne hpf hn] at this ⊢
  exact this

/-- the same for any set of leftovers -/
theorem recovery_cleanup_safe_all {v : Ver} (ps : List Path) (hn : ∀ p ∈ ps, ¬ names v p) :
    ∀ {d : Disk}, RecoversTo d v → RecoversTo (ps.foldl Disk.remove d) v := by
  induction ps with
  | nil => intro d h; exact h
  | cons p ps ih =>
    intro d h
    exact ih (fun q hq => hn q (List.mem_cons_of_mem _ hq))
      (recovery_cleanup_safe h (hn p List.mem_cons_self))

/-- deleting a leftover (a file neither version names) is accepted in every phase, so it keeps the invariant -/
theorem leftover_unlink_accepted {old new : Ver} {fs : Fs} {p : Path} (ho : ¬ names old p) (hn : ¬ names new p) :
    guardB old new fs (.unlink p) = true :=
  guardB_iff.mpr ⟨hn, Or.inr ho⟩

/-- and in the running file system: in a state quiescent for `v`, unlinking files `v` does not name leaves it
quiescent for `v` -/
theorem quiescent_unlink {v : Ver} {fs : Fs} {p : Path} (hq : Quiescent v fs) (hn : ¬ names v p) :
    Quiescent v (apply fs (.unlink p)) :=
  ⟨hq.1, hq.2.1, durable_untouched (fun pf hpf => by simp [not_names_ne hpf hn]) hq.2.2⟩

/-- the files a failed operation created or wrote (before the rename) are not named by the old version; unlinking
any of them from the state the failure left keeps that state quiescent for the old version -/
theorem leftovers_after_failure (old new : Ver) (fs : Fs) (as : List Act) (j : Nat)
    (hinv : Inv old new fs) (hph : phaseOf old new fs = .before)
    (hacc : acceptsFrom old new fs (as.take j) = none) (hnr : ∀ a ∈ as.take j, a ≠ .rename) :
    ∀ i (hi : i < (as.take j).length) p,
      ((as.take j)[i] = .create p ∨ ∃ c, (as.take j)[i] = .append p c) →
      ¬ names old p ∧ Quiescent old (apply (runOutcomes fs (failAt as j)) (.unlink p)) := by
  intro i hi p hp
  have hno := (accepted_never_unlinks_live old new fs (as.take j) hinv hacc).2.1 i hi p hp
  exact ⟨hno, quiescent_unlink ((failed_op_recovers_old_or_new old new fs as j hinv hacc).2 hph hnr).1 hno⟩

end Lsm.Fs
