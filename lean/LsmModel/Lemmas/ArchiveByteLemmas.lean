import LsmModel.Lemmas.ArchiveCoverLemmas
/-!
  Single-byte alterations of an archive image, composed from the region lemmas of `ArchiveCoverLemmas`.
-/
namespace Lsm.Archive
open Lsm.Frame

/-- any 38 bytes with the right 6-byte head are the trailer of their own slices -/
theorem trailer_slices {tr : Bytes} (hl : tr.length = 38) (hh : tr.take 6 = trailerMagic ++ [1, 0]) :
    tr = encodeTrailer ((tr.drop 6).take 16) (leNat ((tr.drop 22).take 8)) (leNat ((tr.drop 30).take 8)) := by
  have l1 : ((tr.drop 22).take 8).length = 8 := by simp; omega
  have l2 : ((tr.drop 30).take 8).length = 8 := by simp; omega
  unfold encodeTrailer
  rw [u64le_leNat l1, u64le_leNat l2]
  have hm : trailerMagic ++ [1] ++ [0] = tr.take 6 := by rw [hh]; rfl
  rw [hm]
  have a : tr.drop 6 = (tr.drop 6).take 16 ++ (tr.drop 6).drop 16 := (List.take_append_drop 16 _).symm
  have b : tr.drop 22 = (tr.drop 22).take 8 ++ (tr.drop 22).drop 8 := (List.take_append_drop 8 _).symm
  have c : (tr.drop 30).take 8 = tr.drop 30 := by apply List.take_of_length_le; simp; omega
  rw [List.drop_drop] at a b
  conv => lhs; rw [← List.take_append_drop 6 tr, a]
  conv => lhs; rw [show 6 + 16 = 22 from rfl, b, show 22 + 8 = 30 from rfl]
  rw [c]; simp [List.append_assoc]

section
variable {H : Bytes → Bytes} (hH : ∀ x, (H x).length = 16) {body : Bytes} {es : List Entry}
  (hv : ∀ e ∈ es, e.Valid) (hn : es.length < 2 ^ 32) (hb : body.length < 2 ^ 64)
include hH hv hn hb
set_option linter.unusedSectionVars false

/-- replacing the 38 trailer bytes by `tr'` that agrees with the written trailer on bytes 0..22 or on bytes 22..38 -/
theorem trailer_change (tl : Nat) {tr' : Bytes} (hl : tr'.length = 38)
    (hag : tr'.drop 22 = (encodeTrailer (H (encodeToc es)) body.length tl).drop 22 ∨
           tr'.take 22 = (encodeTrailer (H (encodeToc es)) body.length tl).take 22)
    {es' : List Entry} (hd : decodeArchive H (body ++ encodeToc es ++ tr') = .ok es') :
    es' = es ∨ Collision128 H := by
  by_cases hh : tr'.take 6 = trailerMagic ++ [1, 0]
  · have hs := trailer_slices hl hh
    have hpos : leNat ((tr'.drop 22).take 8) < 2 ^ 64 :=
      leNat_lt_of_length (w := 8) (by simp; omega)
    by_cases hck : (tr'.drop 6).take 16 = H (encodeToc es)
    · rw [hs, hck] at hd
      exact tocpos_change hH hv hn hb _ _ hpos hd
    · rcases hag with hag | hag
      · -- bytes 22.. agree: the position is the written one, the checksum is not
        have e1 : encodeTrailer (H (encodeToc es)) body.length tl
            = (trailerMagic ++ [1] ++ [0] ++ H (encodeToc es)) ++ (u64le body.length ++ u64le tl) := by
          simp [encodeTrailer, List.append_assoc]
        have e2 : (encodeTrailer (H (encodeToc es)) body.length tl).drop 22 = u64le body.length ++ u64le tl := by
          rw [e1]; apply List.drop_left'; simp [trailerMagic, hH]
        have : leNat ((tr'.drop 22).take 8) = body.length := by
          rw [hag, e2, List.take_left' (by simp), u64le_roundtrip hb]
        rw [hs, this] at hd
        rw [checksum_change hH hv hn hb _ (by simp; omega) hck] at hd
        cases hd
      · exfalso
        apply hck
        have e1 : encodeTrailer (H (encodeToc es)) body.length tl
            = (trailerMagic ++ [1] ++ [0]) ++ (H (encodeToc es) ++ (u64le body.length ++ u64le tl)) := by
          simp [encodeTrailer, List.append_assoc]
        have t : (tr'.drop 6).take 16 = ((tr'.take 22).drop 6) := by
          rw [List.drop_take]
        rw [t, hag, e1, List.drop_take, List.drop_left' (by rfl)]
        exact List.take_left' (hH _)
  · rcases trailer_head_change (h128 := H) (body ++ encodeToc es) hl hh with h | h | h <;>
      (rw [h] at hd; cases hd)

/-- EVERY single-byte alteration of an archive image: the reader fails, or a 128-bit collision is exhibited, or it
returns the very same entries. -/
theorem image_single_byte (tl : Nat) {p : Nat} {b : UInt8} {es' : List Entry}
    (hd : decodeArchive H ((image H body es tl).set p b) = .ok es') : es' = es ∨ Collision128 H := by
  unfold image at hd
  rw [List.set_append] at hd
  split at hd
  · rename_i h1
    rw [List.set_append] at hd
    split at hd
    · left
      have := body_change hH hv hn hb tl (body' := body.set p b) (by simp)
      unfold decodeArchive at hd
      rw [this] at hd
      simp at hd; exact hd.symm
    · rename_i h2
      by_cases e : (encodeToc es).set (p - body.length) b = encodeToc es
      · rw [e] at hd
        have := decodeArchiveTrace_image hH hv hn hb tl
        unfold decodeArchive image at *
        rw [this] at hd
        simp at hd; exact Or.inl hd.symm
      · exact Or.inr (toc_change hH hv hn hb tl (by simp) e hd)
  · rename_i h1
    refine trailer_change hH hv hn hb tl (tr' := (encodeTrailer (H (encodeToc es)) body.length tl).set _ b)
      (by simp [encodeTrailer_length (hH _)]) ?_ hd
    by_cases h22 : p - (body ++ encodeToc es).length < 22
    · left; exact List.drop_set_of_lt h22
    · right; exact List.take_set_of_le (by omega)

/-- the ToC, and the trailer's magic / version / checksum type / checksum: a single-byte alteration there is REPORTED
unless a 128-bit collision is exhibited. -/
theorem image_single_byte_detected (tl : Nat) {p : Nat} {b : UInt8} {es' : List Entry}
    (hlo : body.length ≤ p) (hhi : p < body.length + (encodeToc es).length + 22)
    (hne : (image H body es tl).set p b ≠ image H body es tl)
    (hd : decodeArchive H ((image H body es tl).set p b) = .ok es') : Collision128 H := by
  unfold image at hd hne
  rw [List.set_append] at hd hne
  split at hd
  · rename_i h1
    rw [if_pos h1] at hne
    rw [List.set_append, if_neg (by omega)] at hd hne
    refine toc_change hH hv hn hb tl (by simp) ?_ hd
    intro e; rw [e] at hne; exact hne rfl
  · rename_i h1
    rw [if_neg h1] at hne
    simp only [List.length_append] at h1 hd hne
    have hi : p - (body.length + (encodeToc es).length) < 22 := by omega
    generalize hi' : p - (body.length + (encodeToc es).length) = i at hi hd hne
    generalize htr : encodeTrailer (H (encodeToc es)) body.length tl = tr at hd hne
    have hl : tr.length = 38 := by rw [← htr]; exact encodeTrailer_length (hH _) _ _
    have hdrop : (tr.set i b).drop 22 = tr.drop 22 := List.drop_set_of_lt hi
    have hne' : tr.set i b ≠ tr := by intro e; rw [e] at hne; exact hne rfl
    have hhead : tr.take 6 = trailerMagic ++ [1, 0] := by rw [← htr]; rfl
    by_cases hh : (tr.set i b).take 6 = trailerMagic ++ [1, 0]
    · -- the head is intact, so the byte is in the checksum field
      have hs := trailer_slices (by simpa using hl) hh
      have e1 : tr = (trailerMagic ++ [1] ++ [0] ++ H (encodeToc es)) ++ (u64le body.length ++ u64le tl) := by
        rw [← htr]; simp [encodeTrailer, List.append_assoc]
      have e2 : tr.drop 22 = u64le body.length ++ u64le tl := by
        rw [e1]; apply List.drop_left'; simp [trailerMagic, hH]
      have hpos : leNat (((tr.set i b).drop 22).take 8) = body.length := by
        rw [hdrop, e2, List.take_left' (by simp), u64le_roundtrip hb]
      have hck : ((tr.set i b).drop 6).take 16 ≠ H (encodeToc es) := by
        intro e
        apply hne'
        have hs0 := trailer_slices hl hhead
        have e3 : (tr.drop 6).take 16 = H (encodeToc es) := by
          rw [e1]
          have : trailerMagic ++ [1] ++ [0] ++ H (encodeToc es) ++ (u64le body.length ++ u64le tl)
              = (trailerMagic ++ [1] ++ [0]) ++ (H (encodeToc es) ++ (u64le body.length ++ u64le tl)) := by
            simp [List.append_assoc]
          rw [this, List.drop_left' (by rfl)]; exact List.take_left' (hH _)
        have e4 : ((tr.set i b).drop 30).take 8 = (tr.drop 30).take 8 := by
          have : (tr.set i b).drop 30 = tr.drop 30 := List.drop_set_of_lt (by omega)
          rw [this]
        calc tr.set i b
            = encodeTrailer (((tr.set i b).drop 6).take 16) (leNat (((tr.set i b).drop 22).take 8))
                (leNat (((tr.set i b).drop 30).take 8)) := hs
          _ = encodeTrailer ((tr.drop 6).take 16) (leNat ((tr.drop 22).take 8)) (leNat ((tr.drop 30).take 8)) := by
                rw [e, hdrop, e4, e3]
          _ = tr := hs0.symm
      rw [hs, hpos] at hd
      rw [checksum_change hH hv hn hb _ (by simp; omega) hck] at hd
      cases hd
    · rcases trailer_head_change (h128 := H) (body ++ encodeToc es) (tr := tr.set i b) (by simpa using hl) hh
        with h | h | h <;> (rw [h] at hd; cases hd)

/-- payload bytes and the `toc_len` field (the last 8 bytes): a single-byte alteration there is NOT SEEN by the archive
reader — and changes nothing it returns. -/
theorem image_single_byte_unseen (tl : Nat) {p : Nat} {b : UInt8}
    (hreg : p < body.length ∨ body.length + (encodeToc es).length + 30 ≤ p) :
    decodeArchiveTrace H ((image H body es tl).set p b) = decodeArchiveTrace H (image H body es tl) := by
  rw [decodeArchiveTrace_image hH hv hn hb tl]
  unfold image
  rcases hreg with h | h
  · rw [List.set_append, if_pos (by simp; omega), List.set_append, if_pos h]
    exact body_change hH hv hn hb tl (by simp)
  · rw [List.set_append, if_neg (by simp; omega)]
    simp only [List.length_append]
    generalize hi' : p - (body.length + (encodeToc es).length) = i
    have hi : 30 ≤ i := by omega
    generalize htr : encodeTrailer (H (encodeToc es)) body.length tl = tr
    have hl : tr.length = 38 := by rw [← htr]; exact encodeTrailer_length (hH _) _ _
    have htake : (tr.set i b).take 30 = tr.take 30 := List.take_set_of_le hi
    have hhead0 : tr.take 6 = trailerMagic ++ [1, 0] := by rw [← htr]; rfl
    have t6 : (tr.set i b).take 6 = tr.take 6 := List.take_set_of_le (by omega)
    have hs := trailer_slices (tr := tr.set i b) (by simpa using hl) (by rw [t6, hhead0])
    have hs0 := trailer_slices hl hhead0
    have c1 : ((tr.set i b).drop 6).take 16 = (tr.drop 6).take 16 := by
      rw [List.take_drop, List.take_drop]
      have : (tr.set i b).take (6 + 16) = tr.take (6 + 16) := List.take_set_of_le (by omega)
      rw [this]
    have c2 : ((tr.set i b).drop 22).take 8 = (tr.drop 22).take 8 := by
      rw [List.take_drop, List.take_drop]
      have : (tr.set i b).take (22 + 8) = tr.take (22 + 8) := List.take_set_of_le (by omega)
      rw [this]
    have e1 : tr = (trailerMagic ++ [1] ++ [0]) ++ (H (encodeToc es) ++ (u64le body.length ++ u64le tl)) := by
      rw [← htr]; simp [encodeTrailer, List.append_assoc]
    have e3 : (tr.drop 6).take 16 = H (encodeToc es) := by
      rw [e1, List.drop_left' (by rfl)]; exact List.take_left' (hH _)
    have e1' : tr = (trailerMagic ++ [1] ++ [0] ++ H (encodeToc es)) ++ (u64le body.length ++ u64le tl) := by
      rw [← htr]; simp [encodeTrailer, List.append_assoc]
    have e2 : (tr.drop 22).take 8 = u64le body.length := by
      rw [e1', List.drop_left' (by simp [trailerMagic, hH])]; exact List.take_left' (by simp)
    rw [hs, c1, c2, e3, e2, u64le_roundtrip hb]
    have := decodeArchiveTrace_image hH hv hn hb (leNat (((tr.set i b).drop 30).take 8))
    unfold image at this
    exact this

end

end Lsm.Archive
