import LsmModel.Lemmas.ArchiveTableLemmas
/-!
  `readTableFully` on a file with one altered byte that lies outside every range the read uses.
-/
namespace Lsm.Archive
open Lsm.Frame

theorem loadEntry_outside (H : Bytes → Bytes) (ty : UInt8) (file : Bytes) {p : Nat} (b : UInt8) {e : Entry}
    (h : p < e.pos ∨ e.pos + e.len ≤ p) : loadEntry H ty (file.set p b) e = loadEntry H ty file e := by
  unfold loadEntry
  rw [blockFile_outside H (some ty) file b h]

theorem loadBlocks_outside (H : Bytes → Bytes) (ty : UInt8) (file : Bytes) {p : Nat} (b : UInt8)
    {hs : List (Nat × Nat)} (h : ∀ x ∈ hs, p < x.1 ∨ x.1 + x.2 ≤ p) :
    loadBlocks H ty (file.set p b) hs = loadBlocks H ty file hs := by
  induction hs with
  | nil => rfl
  | cons x r ih =>
    obtain ⟨off, size⟩ := x
    simp only [loadBlocks]
    rw [blockFile_outside H (some ty) file b (h (off, size) (by simp)), ih (fun y hy => h y (by simp [hy]))]

/-- the ranges `openTable` reads: the meta and tli entries; `readTableFully` adds the filter entry and the data handles -/
def OutsideUsed (H : Bytes → Bytes) (handlesOf : Bytes → Option (List (Nat × Nat))) (file : Bytes) (p : Nat) : Prop :=
  ∀ es rg, decodeArchive H file = .ok es → parseRegions es = .ok rg →
    (p < rg.metaE.pos ∨ rg.metaE.pos + rg.metaE.len ≤ p) ∧ (p < rg.tli.pos ∨ rg.tli.pos + rg.tli.len ≤ p) ∧
    (∀ fe, rg.filter = some fe → p < fe.pos ∨ fe.pos + fe.len ≤ p) ∧
    (∀ o hs, openTable H file = .ok o → handlesOf o.tliPayload = some hs → ∀ x ∈ hs, p < x.1 ∨ x.1 + x.2 ≤ p)

theorem openTable_outside {H : Bytes → Bytes} {handlesOf : Bytes → Option (List (Nat × Nat))} {file : Bytes} {p : Nat}
    {b : UInt8} (harch : decodeArchive H (file.set p b) = decodeArchive H file)
    (hout : OutsideUsed H handlesOf file p) : openTable H (file.set p b) = openTable H file := by
  unfold openTable
  rw [harch]
  cases hd : decodeArchive H file with
  | error e => rfl
  | ok es =>
    simp only
    cases hr : parseRegions es with
    | error e => rfl
    | ok rg =>
      obtain ⟨h1, h2, _, _⟩ := hout es rg hd hr
      simp only
      rw [loadEntry_outside H 3 file b h1, loadEntry_outside H 1 file b h2]

/-- UNDETECTED ⇒ SAME DATA at table level: a byte the archive reader does not see and that lies outside every block
range the read uses (meta, tli, filter entries, data handles) changes nothing `readTableFully` returns. -/
theorem readTableFully_outside {H : Bytes → Bytes} {handlesOf : Bytes → Option (List (Nat × Nat))} {file : Bytes}
    {p : Nat} {b : UInt8} (harch : decodeArchive H (file.set p b) = decodeArchive H file)
    (hout : OutsideUsed H handlesOf file p) :
    readTableFully H handlesOf (file.set p b) = readTableFully H handlesOf file := by
  unfold readTableFully
  rw [openTable_outside harch hout]
  cases ho : openTable H file with
  | error e => rfl
  | ok o =>
    simp only
    cases hh : handlesOf o.tliPayload with
    | none => rfl
    | some hs =>
      simp only
      -- recover the entries / regions behind `o`
      have hex : ∃ es rg, decodeArchive H file = .ok es ∧ parseRegions es = .ok rg ∧ o.regions = rg := by
        unfold openTable at ho
        cases hd : decodeArchive H file with
        | error e => rw [hd] at ho; cases ho
        | ok es =>
          rw [hd] at ho
          simp only at ho
          cases hr : parseRegions es with
          | error e => rw [hr] at ho; cases ho
          | ok rg =>
            rw [hr] at ho
            simp only at ho
            split at ho
            · cases ho
            · split at ho
              · cases ho
              · injection ho with ho
                exact ⟨es, rg, rfl, hr, by rw [← ho]⟩
      obtain ⟨es, rg, hd, hr, hrg⟩ := hex
      obtain ⟨_, _, h3, h4⟩ := hout es rg hd hr
      rw [loadBlocks_outside H 0 file b (h4 o hs ho hh)]
      cases hl : loadBlocks H 0 file hs with
      | error e => rfl
      | ok ds =>
        simp only
        cases hf : o.regions.filter with
        | none => rfl
        | some fe =>
          simp only
          rw [loadEntry_outside H 2 file b (h3 fe (by rw [← hrg]; exact hf))]

end Lsm.Archive
