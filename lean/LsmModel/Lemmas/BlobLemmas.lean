import LsmModel.Tree.Blob
/-!
# Lemmas about the blob garbage statistics model (`LsmModel/Tree/Blob.lean`) — support for `Props/C09.lean`

* `Frag` is a commutative monoid (componentwise);
* `lookup` / `find?` of `addEntry`, `mergeInto`, `prune`, `accumulateDropped`, `linksOf`; key-distinctness is preserved;
* `Exact blobs m R`: the map `m` records, for every blob file, exactly the blobs of the file no pointer of `R` points to;
* the counting lemma `c09_garbage_drop` (removing a duplicate-free `D ⊆ R` from the references adds exactly the
  contributions of `D` to the garbage of each file);
* `staleBytes`, `isDead`, relocation, and the decidable checkers `exactB` / `storeWFB` used by the examples.
-/
namespace Lsm.Blob

/-! ### `Frag` algebra -/

theorem c09_frag_ext {a b : Frag} (h1 : a.len = b.len) (h2 : a.bytes = b.bytes) (h3 : a.onDisk = b.onDisk) :
    a = b := by
  cases a; cases b; simp_all

@[simp] theorem c09_add_len (a b : Frag) : (a + b).len = a.len + b.len := rfl
@[simp] theorem c09_add_bytes (a b : Frag) : (a + b).bytes = a.bytes + b.bytes := rfl
@[simp] theorem c09_add_onDisk (a b : Frag) : (a + b).onDisk = a.onDisk + b.onDisk := rfl
@[simp] theorem c09_zero_len : Frag.zero.len = 0 := rfl
@[simp] theorem c09_zero_bytes : Frag.zero.bytes = 0 := rfl
@[simp] theorem c09_zero_onDisk : Frag.zero.onDisk = 0 := rfl
@[simp] theorem c09_ptr_frag_len (p : Ptr) : p.frag.len = 1 := rfl
@[simp] theorem c09_ptr_frag_bytes (p : Ptr) : p.frag.bytes = p.size := rfl
@[simp] theorem c09_ptr_frag_onDisk (p : Ptr) : p.frag.onDisk = p.onDisk := rfl

/-- closes equalities of `Frag` sums componentwise -/
macro "c09_frag" : tactic => `(tactic| (apply c09_frag_ext <;> simp <;> omega))

@[simp] theorem c09_frag_add_zero (a : Frag) : a + Frag.zero = a := by c09_frag
@[simp] theorem c09_frag_zero_add (a : Frag) : Frag.zero + a = a := by c09_frag
theorem c09_frag_add_comm (a b : Frag) : a + b = b + a := by c09_frag
theorem c09_frag_add_assoc (a b c : Frag) : a + b + c = a + (b + c) := by c09_frag
theorem c09_frag_add_left_comm (a b c : Frag) : a + (b + c) = b + (a + c) := by c09_frag
theorem c09_frag_add_right_cancel {a b c : Frag} (h : a + c = b + c) : a = b := by
  have h1 := congrArg Frag.len h
  have h2 := congrArg Frag.bytes h
  have h3 := congrArg Frag.onDisk h
  simp at h1 h2 h3
  exact c09_frag_ext h1 h2 h3

/-! ### `fragSum` -/

@[simp] theorem c09_fragSum_nil : fragSum [] = Frag.zero := rfl
@[simp] theorem c09_fragSum_cons (p : Ptr) (ps : List Ptr) : fragSum (p :: ps) = p.frag + fragSum ps := rfl

theorem c09_fragSum_append (l₁ l₂ : List Ptr) : fragSum (l₁ ++ l₂) = fragSum l₁ + fragSum l₂ := by
  induction l₁ with
  | nil => simp
  | cons p ps ih => simp [ih, c09_frag_add_assoc]

theorem c09_fragSum_perm {l₁ l₂ : List Ptr} (h : l₁.Perm l₂) : fragSum l₁ = fragSum l₂ := by
  induction h with
  | nil => rfl
  | cons x _ ih => simp [ih]
  | swap x y l => simp [c09_frag_add_left_comm]
  | trans _ _ ih₁ ih₂ => exact ih₁.trans ih₂

/-- two duplicate-free lists with the same members have the same sum -/
theorem c09_fragSum_eq_of_mem_iff {l₁ l₂ : List Ptr} (h₁ : l₁.Nodup) (h₂ : l₂.Nodup)
    (h : ∀ a, a ∈ l₁ ↔ a ∈ l₂) : fragSum l₁ = fragSum l₂ :=
  c09_fragSum_perm ((List.perm_ext_iff_of_nodup h₁ h₂).2 h)

/-- splitting a filtered sum along two mutually exclusive predicates -/
theorem c09_fragSum_filter_or (l : List Ptr) (p q : Ptr → Bool) (h : ∀ b ∈ l, ¬ (p b = true ∧ q b = true)) :
    fragSum (l.filter (fun b => p b || q b)) = fragSum (l.filter p) + fragSum (l.filter q) := by
  induction l with
  | nil => simp
  | cons b bs ih =>
    have hb := h b (by simp)
    have ih' := ih (fun c hc => h c (by simp [hc]))
    cases hp : p b <;> cases hq : q b <;> simp_all [c09_frag_add_assoc, c09_frag_add_left_comm]

theorem c09_fragSum_bytes_zero {l : List Ptr} (h0 : (fragSum l).bytes = 0) (hpos : ∀ b ∈ l, 0 < b.size) : l = [] := by
  cases l with
  | nil => rfl
  | cons b bs =>
    have := hpos b (by simp)
    simp at h0
    omega

/-! ### `find?`, `lookup`, `keys` -/

@[simp] theorem c09_find_nil (f : Nat) : find? [] f = none := rfl
@[simp] theorem c09_find_cons (g : Nat) (x : Frag) (m : FragMap) (f : Nat) :
    find? ((g, x) :: m) f = if g = f then some x else find? m f := rfl
@[simp] theorem c09_lookup_nil (f : Nat) : lookup [] f = Frag.zero := rfl
theorem c09_lookup_eq_getD (m : FragMap) (f : Nat) : lookup m f = (find? m f).getD Frag.zero := by
  unfold lookup; cases find? m f <;> rfl
theorem c09_lookup_cons (g : Nat) (x : Frag) (m : FragMap) (f : Nat) :
    lookup ((g, x) :: m) f = if g = f then x else lookup m f := by
  simp only [c09_lookup_eq_getD, c09_find_cons]; split <;> rfl
@[simp] theorem c09_keys_nil : keys [] = [] := rfl
@[simp] theorem c09_keys_cons (e : Nat × Frag) (m : FragMap) : keys (e :: m) = e.1 :: keys m := rfl

theorem c09_find_eq_none {m : FragMap} {f : Nat} : find? m f = none ↔ f ∉ keys m := by
  induction m with
  | nil => simp
  | cons e m ih =>
    obtain ⟨g, x⟩ := e
    simp only [c09_find_cons, c09_keys_cons, List.mem_cons, not_or]
    split <;> grind

theorem c09_find_isSome {m : FragMap} {f : Nat} : (find? m f).isSome = true ↔ f ∈ keys m := by
  have := @c09_find_eq_none m f
  cases h : find? m f <;> simp_all

theorem c09_lookup_of_not_mem {m : FragMap} {f : Nat} (h : f ∉ keys m) : lookup m f = Frag.zero := by
  simp [lookup, c09_find_eq_none.2 h]

theorem c09_lookup_of_find {m : FragMap} {f : Nat} {x : Frag} (h : find? m f = some x) : lookup m f = x := by
  simp [lookup, h]

/-! ### `addEntry` -/

theorem c09_find_addEntry (m : FragMap) (f : Nat) (d : Frag) (g : Nat) :
    find? (addEntry m f d) g = if g = f then some (lookup m f + d) else find? m g := by
  induction m with
  | nil => simp [addEntry]; grind
  | cons e m ih =>
    obtain ⟨h, x⟩ := e
    simp only [addEntry]
    split
    · simp only [c09_find_cons, c09_lookup_cons]; grind
    · simp only [c09_find_cons, c09_lookup_cons, ih]; grind

theorem c09_lookup_addEntry (m : FragMap) (f : Nat) (d : Frag) (g : Nat) :
    lookup (addEntry m f d) g = if g = f then lookup m f + d else lookup m g := by
  simp only [c09_lookup_eq_getD, c09_find_addEntry]
  split <;> rfl

theorem c09_keys_addEntry (m : FragMap) (f : Nat) (d : Frag) :
    keys (addEntry m f d) = if f ∈ keys m then keys m else keys m ++ [f] := by
  induction m with
  | nil => simp [addEntry]
  | cons e m ih =>
    obtain ⟨h, x⟩ := e
    simp only [addEntry]
    split
    · simp_all
    · simp only [c09_keys_cons, ih, List.mem_cons]; grind

theorem c09_keys_addEntry_nodup {m : FragMap} (h : (keys m).Nodup) (f : Nat) (d : Frag) :
    (keys (addEntry m f d)).Nodup := by
  rw [c09_keys_addEntry]
  split
  · exact h
  · rw [List.nodup_append]; grind

theorem c09_mem_keys_addEntry (m : FragMap) (f : Nat) (d : Frag) (g : Nat) :
    g ∈ keys (addEntry m f d) ↔ g ∈ keys m ∨ g = f := by
  rw [c09_keys_addEntry]; split <;> grind

/-- sum of ALL entries bound to `f` (equals `lookup` on a key-distinct map) -/
def entrySum : FragMap → Nat → Frag
  | [], _ => Frag.zero
  | (g, x) :: m, f => if g = f then x + entrySum m f else entrySum m f

theorem c09_entrySum_of_not_mem {m : FragMap} {f : Nat} (h : f ∉ keys m) : entrySum m f = Frag.zero := by
  induction m with
  | nil => rfl
  | cons e m ih =>
    obtain ⟨g, x⟩ := e
    simp only [c09_keys_cons, List.mem_cons, not_or] at h
    simp only [entrySum]; grind

theorem c09_entrySum_eq_lookup {m : FragMap} (h : (keys m).Nodup) (f : Nat) : entrySum m f = lookup m f := by
  induction m with
  | nil => rfl
  | cons e m ih =>
    obtain ⟨g, x⟩ := e
    simp only [c09_keys_cons, List.nodup_cons] at h
    simp only [entrySum, c09_lookup_cons]
    split
    · next hg => subst hg; simp [c09_entrySum_of_not_mem h.1]
    · exact ih h.2

theorem c09_entrySum_addEntry (m : FragMap) (f : Nat) (d : Frag) (g : Nat) :
    entrySum (addEntry m f d) g = entrySum m g + (if g = f then d else Frag.zero) := by
  induction m with
  | nil => simp only [addEntry, entrySum]; split <;> split <;> simp_all
  | cons e m ih =>
    obtain ⟨h, x⟩ := e
    simp only [addEntry]
    split
    · next hh =>
      subst hh
      simp only [entrySum]
      split
      · next hg => subst hg; simp [c09_frag_add_assoc, c09_frag_add_comm]
      · next hg => have : ¬ g = h := fun e => hg e.symm
                   simp [this]
    · next hh =>
      simp only [entrySum, ih]
      split
      · next hg => subst hg; simp [hh]
      · rfl

/-! ### `mergeInto`, `accumulateDropped`, `linksOf`, `onDropped` -/

theorem c09_lookup_mergeInto (diff m : FragMap) (f : Nat) :
    lookup (mergeInto diff m) f = lookup m f + entrySum diff f := by
  induction diff generalizing m with
  | nil => simp [mergeInto, entrySum]
  | cons e diff ih =>
    obtain ⟨g, d⟩ := e
    simp only [mergeInto, ih, c09_lookup_addEntry, entrySum]
    by_cases hg : g = f
    · subst hg; simp [c09_frag_add_assoc]
    · have : ¬ f = g := fun e => hg e.symm
      simp [hg, this]

/-- on key-distinct diffs (every `HashMap`) `merge_into` adds the two maps pointwise -/
theorem c09_lookup_mergeInto_nodup (diff m : FragMap) (h : (keys diff).Nodup) (f : Nat) :
    lookup (mergeInto diff m) f = lookup m f + lookup diff f := by
  rw [c09_lookup_mergeInto, c09_entrySum_eq_lookup h]

theorem c09_mem_keys_mergeInto (diff m : FragMap) (g : Nat) :
    g ∈ keys (mergeInto diff m) ↔ g ∈ keys m ∨ g ∈ keys diff := by
  induction diff generalizing m with
  | nil => simp [mergeInto]
  | cons e diff ih =>
    obtain ⟨f, d⟩ := e
    simp only [mergeInto, ih, c09_mem_keys_addEntry, c09_keys_cons, List.mem_cons]; grind

theorem c09_keys_mergeInto_nodup (diff : FragMap) {m : FragMap} (h : (keys m).Nodup) :
    (keys (mergeInto diff m)).Nodup := by
  induction diff generalizing m with
  | nil => exact h
  | cons e diff ih =>
    obtain ⟨f, d⟩ := e
    exact ih (c09_keys_addEntry_nodup h f d)

/-- the repaired `with_dropped` loop IS `merge_into` of the link summary -/
theorem c09_accumulateDropped_eq_mergeInto (m : FragMap) (links : List (Nat × Frag)) :
    accumulateDropped m links = mergeInto links m := by
  induction links generalizing m with
  | nil => rfl
  | cons e links ih => obtain ⟨f, d⟩ := e; simp [accumulateDropped, mergeInto, ih]

/-- `register_blob` and `on_dropped` build the same summaries -/
theorem c09_linksOf_eq (D : List Ptr) : linksOf D = D.foldl onDropped [] := rfl

theorem c09_entrySum_foldl_onDropped (D : List Ptr) (acc : FragMap) (f : Nat) :
    entrySum (D.foldl onDropped acc) f = entrySum acc f + fragSum (D.filter (fun p => decide (p.file = f))) := by
  induction D generalizing acc with
  | nil => simp
  | cons p D ih =>
    simp only [List.foldl_cons, ih, onDropped, c09_entrySum_addEntry, List.filter_cons]
    by_cases hp : p.file = f
    · simp [hp, c09_frag_add_assoc]
    · have : ¬ f = p.file := fun e => hp e.symm
      simp [hp, this]

theorem c09_keys_foldl_onDropped_nodup (D : List Ptr) {acc : FragMap} (h : (keys acc).Nodup) :
    (keys (D.foldl onDropped acc)).Nodup := by
  induction D generalizing acc with
  | nil => exact h
  | cons p D ih => exact ih (c09_keys_addEntry_nodup h _ _)

theorem c09_keys_linksOf_nodup (D : List Ptr) : (keys (linksOf D)).Nodup :=
  c09_keys_foldl_onDropped_nodup D (by simp)

/-- the summary of a table: per blob file, the sum over the table's pointers into that file -/
theorem c09_lookup_linksOf (D : List Ptr) (f : Nat) :
    lookup (linksOf D) f = fragSum (D.filter (fun p => decide (p.file = f))) := by
  rw [← c09_entrySum_eq_lookup (c09_keys_linksOf_nodup D), c09_linksOf_eq, c09_entrySum_foldl_onDropped]
  simp [entrySum]

/-- what merging the drop callback's diff does to one entry -/
theorem c09_lookup_merge_dropped (D : List Ptr) (base : FragMap) (f : Nat) :
    lookup (mergeInto (D.foldl onDropped []) base) f
      = lookup base f + fragSum (D.filter (fun p => decide (p.file = f))) := by
  rw [c09_lookup_mergeInto, c09_entrySum_foldl_onDropped]
  simp [entrySum]

theorem c09_lookup_accumulateDropped (m : FragMap) (D : List Ptr) (f : Nat) :
    lookup (accumulateDropped m (linksOf D)) f
      = lookup m f + fragSum (D.filter (fun p => decide (p.file = f))) := by
  rw [c09_accumulateDropped_eq_mergeInto, c09_linksOf_eq, c09_lookup_merge_dropped]

theorem c09_lookup_withDroppedStats (m : FragMap) (Ds : List (List Ptr)) (f : Nat) :
    lookup (withDroppedStats m Ds) f
      = lookup m f + fragSum (Ds.flatten.filter (fun p => decide (p.file = f))) := by
  unfold withDroppedStats
  induction Ds generalizing m with
  | nil => simp
  | cons D Ds ih =>
    simp only [List.foldl_cons, ih, c09_lookup_accumulateDropped, List.flatten_cons, List.filter_append,
      c09_fragSum_append, c09_frag_add_assoc]

theorem c09_keys_withDroppedStats_nodup (Ds : List (List Ptr)) {m : FragMap} (h : (keys m).Nodup) :
    (keys (withDroppedStats m Ds)).Nodup := by
  unfold withDroppedStats
  induction Ds generalizing m with
  | nil => exact h
  | cons D Ds ih =>
    simp only [List.foldl_cons]
    apply ih
    rw [c09_accumulateDropped_eq_mergeInto]
    exact c09_keys_mergeInto_nodup _ h

/-! ### exactness and the counting lemma -/

/-- The map `m` is exact for the value-log content `blobs` and the reference multiset `R`: for EVERY blob file id the
    recorded entry (absent = zero) is the count / uncompressed bytes / on-disk bytes of the blobs of the file that no
    pointer of `R` points to. -/
def Exact (blobs : Nat → List Ptr) (m : FragMap) (R : List Ptr) : Prop :=
  ∀ f, lookup m f = garbageOf (blobs f) R

/-- Well-formed value log content: the blobs of a file are pairwise different (they have distinct offsets) and carry
    the id of their file. -/
structure StoreWF (blobs : Nat → List Ptr) : Prop where
  nodup : ∀ f, (blobs f).Nodup
  file : ∀ f, ∀ b ∈ blobs f, b.file = f

/-- Every reference points to an existing blob of its file (no dangling pointer — property C08). -/
def RefsWF (blobs : Nat → List Ptr) (R : List Ptr) : Prop := ∀ p ∈ R, p ∈ blobs p.file

@[simp] theorem c09_garbageOf_nil (R : List Ptr) : garbageOf [] R = Frag.zero := rfl

/-- garbage + referenced = total -/
theorem c09_garbage_add_referenced (bs R : List Ptr) :
    garbageOf bs R + fragSum (bs.filter (fun b => decide (b ∈ R))) = totalOf bs := by
  unfold garbageOf totalOf
  rw [← c09_fragSum_filter_or bs _ _ (by simp)]
  congr 1
  rw [List.filter_eq_self]
  intro b _
  by_cases hb : b ∈ R <;> simp [hb]

theorem c09_garbage_unreferenced {bs R : List Ptr} (h : ∀ b ∈ bs, b ∉ R) : garbageOf bs R = totalOf bs := by
  unfold garbageOf totalOf
  congr 1
  rw [List.filter_eq_self]
  intro b hb
  simp [h b hb]

theorem c09_garbage_all_referenced {bs R : List Ptr} (h : ∀ b ∈ bs, b ∈ R) : garbageOf bs R = Frag.zero := by
  unfold garbageOf
  have : bs.filter (fun b => decide (b ∉ R)) = [] := by
    rw [List.filter_eq_nil_iff]; intro b hb; simp [h b hb]
  rw [this]; rfl

theorem c09_garbage_congr {bs R R' : List Ptr} (h : ∀ b ∈ bs, (b ∈ R ↔ b ∈ R')) :
    garbageOf bs R = garbageOf bs R' := by
  unfold garbageOf
  congr 1
  apply List.filter_congr
  intro b hb
  simp [h b hb]

/-- THE COUNTING LEMMA. `bs` = blobs of file `f` (duplicate free, all carrying file id `f`); `D` a duplicate-free list
    of references (`D ⊆ R`) whose members pointing into `f` are blobs of `f`. Removing `D` from the references increases
    the garbage of `f` by exactly the contributions of the members of `D` that point into `f`. -/
theorem c09_garbage_drop {bs R D : List Ptr} {f : Nat} (hbs : bs.Nodup) (hfile : ∀ b ∈ bs, b.file = f)
    (hD : D.Nodup) (hDR : ∀ p ∈ D, p ∈ R) (hDb : ∀ p ∈ D, p.file = f → p ∈ bs) :
    garbageOf bs (R.filter (fun p => decide (p ∉ D)))
      = garbageOf bs R + fragSum (D.filter (fun p => decide (p.file = f))) := by
  have h1 : garbageOf bs (R.filter (fun p => decide (p ∉ D)))
      = fragSum (bs.filter (fun b => decide (b ∉ R) || decide (b ∈ D))) := by
    unfold garbageOf
    congr 1
    apply List.filter_congr
    intro b _
    by_cases hR : b ∈ R <;> by_cases hd : b ∈ D <;> simp [List.mem_filter, hR, hd]
  rw [h1, c09_fragSum_filter_or bs (fun b => decide (b ∉ R)) (fun b => decide (b ∈ D))
    (by intro b _ ⟨h1, h2⟩; simp at h1 h2; exact h1 (hDR b h2))]
  unfold garbageOf
  congr 1
  apply c09_fragSum_eq_of_mem_iff (List.Nodup.sublist List.filter_sublist hbs)
    (List.Nodup.sublist List.filter_sublist hD)
  intro a
  simp only [List.mem_filter, decide_eq_true_eq]
  constructor
  · rintro ⟨ha, hd⟩; exact ⟨hd, hfile a ha⟩
  · rintro ⟨hd, ha⟩; exact ⟨hDb a hd ha, hd⟩

/-- exactness is preserved when a duplicate-free `D ⊆ R` is removed from the references and the contributions of
    `D` are added to the map (in whatever way: only the `lookup` of the new map matters) -/
theorem c09_exact_drop {blobs : Nat → List Ptr} {base m' : FragMap} {R D : List Ptr}
    (hs : StoreWF blobs) (hR : RefsWF blobs R) (hex : Exact blobs base R)
    (hD : D.Nodup) (hDR : ∀ p ∈ D, p ∈ R)
    (hm' : ∀ f, lookup m' f = lookup base f + fragSum (D.filter (fun p => decide (p.file = f)))) :
    Exact blobs m' (R.filter (fun p => decide (p ∉ D))) := by
  intro f
  rw [hm', hex f, c09_garbage_drop (hs.nodup f) (hs.file f) hD hDR]
  intro p hp hf
  have := hR p (hDR p hp)
  rwa [hf] at this

theorem c09_exact_congr {blobs : Nat → List Ptr} {m : FragMap} {R R' : List Ptr} (hex : Exact blobs m R)
    (h : ∀ b, b ∈ R ↔ b ∈ R') : Exact blobs m R' := by
  intro f
  rw [hex f]
  exact c09_garbage_congr (fun b _ => h b)

/-! ### the original `with_dropped` (finding F2): `len` and `bytes` right, `on_disk_bytes` only a lower bound -/

/-- `m` (legacy) agrees with `m'` (repaired) on `len` and `bytes` and under-counts `onDisk` -/
def LegacyRel (m m' : FragMap) : Prop :=
  ∀ f, (lookup m f).len = (lookup m' f).len ∧ (lookup m f).bytes = (lookup m' f).bytes ∧
    (lookup m f).onDisk ≤ (lookup m' f).onDisk

theorem c09_legacyRel_refl (m : FragMap) : LegacyRel m m := fun _ => ⟨rfl, rfl, Nat.le_refl _⟩

theorem c09_find_addEntryLegacy (m : FragMap) (f : Nat) (d : Frag) (g : Nat) :
    find? (addEntryLegacy m f d) g =
      if g = f then
        (match find? m f with
         | some x => some ⟨x.len + d.len, x.bytes + d.bytes, x.onDisk⟩
         | none => some d)
      else find? m g := by
  induction m with
  | nil => simp [addEntryLegacy]; grind
  | cons e m ih =>
    obtain ⟨h, x⟩ := e
    simp only [addEntryLegacy]
    split
    · simp only [c09_find_cons]; grind
    · simp only [c09_find_cons, ih]; grind

theorem c09_legacyRel_addEntry {m m' : FragMap} (h : LegacyRel m m') (f : Nat) (d : Frag) :
    LegacyRel (addEntryLegacy m f d) (addEntry m' f d) := by
  intro g
  have hg := h g
  have hf := h f
  rw [c09_lookup_addEntry]
  simp only [c09_lookup_eq_getD, c09_find_addEntryLegacy] at hf hg ⊢
  by_cases hgf : g = f
  · subst hgf
    simp only [if_true]
    cases hm : find? m g <;> simp_all <;> omega
  · simpa [hgf] using hg

theorem c09_legacyRel_accumulate {m m' : FragMap} (h : LegacyRel m m') (links : List (Nat × Frag)) :
    LegacyRel (accumulateDroppedLegacy m links) (accumulateDropped m' links) := by
  induction links generalizing m m' with
  | nil => exact h
  | cons e links ih =>
    obtain ⟨f, d⟩ := e
    exact ih (c09_legacyRel_addEntry h f d)

theorem c09_legacyRel_withDropped {m m' : FragMap} (h : LegacyRel m m') (Ds : List (List Ptr)) :
    LegacyRel (withDroppedStatsLegacy m Ds) (withDroppedStats m' Ds) := by
  unfold withDroppedStatsLegacy withDroppedStats
  induction Ds generalizing m m' with
  | nil => exact h
  | cons D Ds ih => exact ih (c09_legacyRel_accumulate h _)

/-- a list of pairwise disjoint duplicate-free lists flattens to a duplicate-free list -/
theorem c09_flatten_nodup {Ds : List (List Ptr)} (h₁ : ∀ D ∈ Ds, D.Nodup)
    (h₂ : Ds.Pairwise (fun D₁ D₂ => ∀ p ∈ D₁, p ∉ D₂)) : Ds.flatten.Nodup := by
  unfold List.Nodup
  rw [List.pairwise_flatten]
  refine ⟨h₁, h₂.imp ?_⟩
  intro D₁ D₂ h x hx y hy hxy
  subst hxy
  exact h x hx hy

/-! ### `prune` -/

theorem c09_find_prune (m : FragMap) (files : List Nat) (f : Nat) :
    find? (prune m files) f = if f ∈ files then find? m f else none := by
  induction m with
  | nil => simp [prune]
  | cons e m ih =>
    obtain ⟨g, x⟩ := e
    unfold prune at ih ⊢
    simp only [List.filter_cons]
    by_cases hg : g ∈ files
    · simp only [hg, decide_true, if_true, c09_find_cons, ih]; grind
    · simp only [hg, decide_false, c09_find_cons]; grind

theorem c09_lookup_prune (m : FragMap) (files : List Nat) (f : Nat) :
    lookup (prune m files) f = if f ∈ files then lookup m f else Frag.zero := by
  simp only [c09_lookup_eq_getD, c09_find_prune]
  split <;> rfl

theorem c09_keys_prune (m : FragMap) (files : List Nat) :
    keys (prune m files) = (keys m).filter (fun g => decide (g ∈ files)) := by
  simp [keys, prune, List.filter_map, Function.comp_def]

theorem c09_keys_prune_nodup {m : FragMap} (h : (keys m).Nodup) (files : List Nat) :
    (keys (prune m files)).Nodup := by
  rw [c09_keys_prune]; exact List.Nodup.sublist List.filter_sublist h

/-- pruning keeps exactness if the pruned files' content is forgotten as well -/
theorem c09_prune_exact' {blobs : Nat → List Ptr} {m : FragMap} {R : List Ptr} (hex : Exact blobs m R)
    (files : List Nat) : Exact (fun f => if f ∈ files then blobs f else []) (prune m files) R := by
  intro f
  show _ = garbageOf (if f ∈ files then blobs f else []) R
  rw [c09_lookup_prune]
  split
  · exact hex f
  · rfl

/-! ### `staleBytes` -/

theorem c09_staleBytes_eq_sum (m : FragMap) : staleBytes m = (m.map (fun e => e.2.onDisk)).sum := by
  induction m with
  | nil => rfl
  | cons e m ih => obtain ⟨g, x⟩ := e; simp [staleBytes, ih]

theorem c09_sum_map_ite {files : List Nat} (hn : files.Nodup) {g : Nat} (hg : g ∈ files) (c : Nat) (h : Nat → Nat)
    (h0 : h g = 0) : (files.map (fun f => if g = f then c else h f)).sum = c + (files.map h).sum := by
  induction files with
  | nil => simp at hg
  | cons a fs ih =>
    simp only [List.nodup_cons] at hn
    simp only [List.map_cons, List.sum_cons]
    by_cases ha : g = a
    · subst ha
      have : fs.map (fun f => if g = f then c else h f) = fs.map h := by
        apply List.map_congr_left
        intro f hf
        have : ¬ g = f := fun e => hn.1 (e ▸ hf)
        simp [this]
      simp [this, h0]
    · have hg' : g ∈ fs := by simpa [ha] using hg
      rw [ih hn.2 hg']
      simp [ha]; omega

/-- on a key-distinct map whose keys lie in the duplicate-free list `files`, `stale_bytes` is the sum of the
    recorded on-disk bytes over `files` -/
theorem c09_staleBytes_files {m : FragMap} (hk : (keys m).Nodup) {files : List Nat} (hn : files.Nodup)
    (hsub : ∀ g ∈ keys m, g ∈ files) :
    staleBytes m = (files.map (fun f => (lookup m f).onDisk)).sum := by
  induction m with
  | nil =>
    have : ∀ l : List Nat, (l.map (fun _ => 0)).sum = 0 := by intro l; induction l <;> simp_all
    simp [staleBytes, this]
  | cons e m ih =>
    obtain ⟨g, x⟩ := e
    simp only [c09_keys_cons, List.nodup_cons] at hk
    have ih' := ih hk.2 (fun a ha => hsub a (by simp [ha]))
    have hg : g ∈ files := hsub g (by simp)
    have : (files.map (fun f => (lookup ((g, x) :: m) f).onDisk))
        = files.map (fun f => if g = f then x.onDisk else (lookup m f).onDisk) := by
      apply List.map_congr_left
      intro f _
      rw [c09_lookup_cons]; split <;> rfl
    rw [this, c09_sum_map_ite hn hg x.onDisk (fun f => (lookup m f).onDisk)
      (by simp [c09_lookup_of_not_mem hk.1]), ← ih']
    rfl

/-! ### `isDead` -/

theorem c09_isDead_iff {m : FragMap} {f t : Nat} :
    isDead m f t = true ↔ f ∈ keys m ∧ (lookup m f).bytes = t := by
  unfold isDead lookup
  cases h : find? m f with
  | none => simp [c09_find_eq_none.1 h]
  | some x =>
    have : f ∈ keys m := c09_find_isSome.1 (by simp [h])
    simp [this]

/-! ### relocation -/

theorem c09_mem_relocRefs {old nw : Nat} {off : Ptr → Nat} {R : List Ptr} {b : Ptr} :
    b ∈ relocRefs old nw off R ↔ ∃ p ∈ R, b = if p.file = old then reloc nw off p else p := by
  simp [relocRefs, eq_comm]

theorem c09_mem_relocBlobs {old nw : Nat} {off : Ptr → Nat} {R : List Ptr} {b : Ptr} :
    b ∈ relocBlobs old nw off R ↔ ∃ p ∈ R, p.file = old ∧ b = reloc nw off p := by
  simp [relocBlobs, eq_comm, and_assoc]

/-! ### decidable checkers (for examples) -/

theorem c09_blobsOf_of_not_mem {s : Store} {f : Nat} (h : f ∉ s.map (·.1)) : blobsOf s f = [] := by
  induction s with
  | nil => rfl
  | cons e s ih =>
    obtain ⟨g, bs⟩ := e
    simp only [List.map_cons, List.mem_cons, not_or] at h
    simp only [blobsOf]; grind

theorem c09_blobsOf_mem {s : Store} {f : Nat} (h : blobsOf s f ≠ []) : (f, blobsOf s f) ∈ s := by
  induction s with
  | nil => simp [blobsOf] at h
  | cons e s ih =>
    obtain ⟨g, bs⟩ := e
    simp only [blobsOf] at h ⊢
    split
    · next hg => subst hg; simp
    · next hg => simp only [hg, if_false] at h; exact List.mem_cons_of_mem _ (ih h)

/-- soundness of the decidable exactness check -/
theorem c09_exact_of_exactB {s : Store} {m : FragMap} {R : List Ptr} (h : exactB s m R = true) :
    Exact (blobsOf s) m R := by
  intro f
  unfold exactB at h
  rw [List.all_eq_true] at h
  by_cases hf : f ∈ s.map (·.1) ++ keys m
  · simpa using h f hf
  · simp only [List.mem_append, not_or] at hf
    rw [c09_lookup_of_not_mem hf.2, c09_blobsOf_of_not_mem hf.1]; rfl

/-- decidable well-formedness check of an executable store -/
def storeWFB (s : Store) : Bool :=
  s.all (fun e => decide (e.2.Pairwise (· ≠ ·)) && e.2.all (fun b => decide (b.file = e.1)))

theorem c09_storeWF_of_storeWFB {s : Store} (h : storeWFB s = true) : StoreWF (blobsOf s) := by
  unfold storeWFB at h
  rw [List.all_eq_true] at h
  have key : ∀ f, blobsOf s f ≠ [] → (blobsOf s f).Nodup ∧ ∀ b ∈ blobsOf s f, b.file = f := by
    intro f hf
    have := h _ (c09_blobsOf_mem hf)
    simp only [Bool.and_eq_true, decide_eq_true_eq, List.all_eq_true] at this
    exact ⟨this.1, this.2⟩
  constructor
  · intro f
    by_cases hf : blobsOf s f = []
    · rw [hf]; exact List.nodup_nil
    · exact (key f hf).1
  · intro f b hb
    by_cases hf : blobsOf s f = []
    · rw [hf] at hb; simp at hb
    · exact (key f hf).2 b hb

/-- decidable check of `RefsWF` on an executable store -/
theorem c09_refsWF_of_all {s : Store} {R : List Ptr}
    (h : R.all (fun p => decide (p ∈ blobsOf s p.file)) = true) : RefsWF (blobsOf s) R := by
  rw [List.all_eq_true] at h
  intro p hp
  simpa using h p hp

end Lsm.Blob
