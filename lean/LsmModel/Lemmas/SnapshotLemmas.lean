import LsmModel.Tree.Ops
import LsmModel.Lemmas.SuperLemmas
import LsmModel.Lemmas.OrderLemmas
/-
  LsmModel.Lemmas.SnapshotLemmas — snapshot stability (C02): what a reader observes at a fixed snapshot
  seqno `S` is not changed by later operations (super-version pinning).

  Structure:
    * `memOf`            — lookup of a memtable by id (`TreeState.mem` on the list), first-match reasoning
    * `TreeState.WF`     — the well-formedness invariant of the tree state, preserved by every operation
    * `Prim` / `Steps`   — every non-reopen `applyOp` is a composition of at most three primitive steps
                           (install / rotate / add a fresh empty memtable / write); the case analysis over `Op`
                           is done once (`applyOp_steps`), every property is then proved per primitive step
    * `applyOp_getAt_stable`, `applyOp_scanAt_stable`, `run_getAt_stable`, `run_scanAt_stable`
-/
namespace Lsm
set_option linter.unusedSectionVars false
variable {K : Type}

/-- `Op.reopen` recogniser (`Op` contains functions, so `≠` is awkward) -/
def Op.isReopen : Op K → Bool
  | .reopen => true
  | _ => false

/-! ### memtable lookup by id -/

/-- `TreeState.mem` on the bare list of memtables -/
def memOf (ms : List (MemtableM K)) (id : Nat) : List (Entry K) :=
  match ms.find? (fun m => m.id == id) with
  | some m => m.entries
  | none => []

theorem TreeState.mem_eq (t : TreeState K) (id : Nat) : t.mem id = memOf t.mems id := rfl

theorem memOf_nil (id : Nat) : memOf ([] : List (MemtableM K)) id = [] := rfl

theorem memOf_cons (m : MemtableM K) (ms : List (MemtableM K)) (id : Nat) :
    memOf (m :: ms) id = if m.id = id then m.entries else memOf ms id := by
  unfold memOf
  rw [List.find?_cons]
  by_cases h : m.id = id
  · have hb : (m.id == id) = true := by simp [h]
    rw [hb, if_pos h]
  · have hb : (m.id == id) = false := by simp [h]
    rw [hb, if_neg h]

/-- an id no memtable carries resolves to the empty memtable -/
theorem memOf_fresh (ms : List (MemtableM K)) (id : Nat) (h : ms.any (fun m => m.id == id) = false) :
    memOf ms id = [] := by
  induction ms with
  | nil => rfl
  | cons m ms ih =>
    simp only [List.any_cons, Bool.or_eq_false_iff, beq_eq_false_iff_ne, ne_eq] at h
    rw [memOf_cons, if_neg h.1]
    exact ih h.2

/-- appending an EMPTY memtable never changes any lookup (first match wins; a miss reads as empty) -/
theorem memOf_append_empty (ms : List (MemtableM K)) (n id : Nat) :
    memOf (ms ++ [{ id := n, entries := [] }]) id = memOf ms id := by
  induction ms with
  | nil => simp [memOf_cons, memOf_nil]
  | cons m ms ih => simp only [List.cons_append, memOf_cons, ih]

/-- removing memtables with other ids does not change the lookup of `id` -/
theorem memOf_filter (ms : List (MemtableM K)) (q : MemtableM K → Bool) (id : Nat)
    (h : ∀ m ∈ ms, m.id = id → q m = true) : memOf (ms.filter q) id = memOf ms id := by
  induction ms with
  | nil => rfl
  | cons m ms ih =>
    have ih' := ih (fun x hx => h x (List.mem_cons_of_mem _ hx))
    rw [List.filter_cons]
    by_cases hq : q m = true
    · rw [if_pos hq, memOf_cons, memOf_cons, ih']
    · rw [if_neg hq, memOf_cons, ih']
      have : ¬ m.id = id := fun hid => hq (h m List.mem_cons_self hid)
      rw [if_neg this]

/-- a relation between old and new contents of every memtable lifts to lookups, for id-preserving updates -/
theorem memOf_map_rel (R : List (Entry K) → List (Entry K) → Prop) (f : MemtableM K → MemtableM K)
    (ms : List (MemtableM K)) (id : Nat) (hnil : R [] []) (hid : ∀ m, (f m).id = m.id)
    (hg : ∀ m ∈ ms, R (f m).entries m.entries) : R (memOf (ms.map f) id) (memOf ms id) := by
  induction ms with
  | nil => exact hnil
  | cons m ms ih =>
    rw [List.map_cons, memOf_cons, memOf_cons, hid]
    by_cases h : m.id = id
    · rw [if_pos h, if_pos h]; exact hg m List.mem_cons_self
    · rw [if_neg h, if_neg h]; exact ih (fun x hx => hg x (List.mem_cons_of_mem _ hx))

theorem memOf_pred (P : List (Entry K) → Prop) (ms : List (MemtableM K)) (id : Nat) (hnil : P [])
    (h : ∀ m ∈ ms, P m.entries) : P (memOf ms id) := by
  induction ms with
  | nil => exact hnil
  | cons m ms ih =>
    rw [memOf_cons]
    split
    · exact h m List.mem_cons_self
    · exact ih (fun x hx => h x (List.mem_cons_of_mem _ hx))

/-! ### history helpers -/

theorem replaceLatest_append (r : History K) (sv sv' : SuperVersion K) :
    replaceLatest (r ++ [sv]) sv' = r ++ [sv'] := by
  simp [replaceLatest]

theorem resolve_append_single (r : History K) (x : SuperVersion K) (S : Nat) (hS : 0 < S) :
    getVersionForSnapshot (r ++ [x]) S = if x.seqno < S then some x else getVersionForSnapshot r S := by
  have hne : ¬ S = 0 := by omega
  simp only [getVersionForSnapshot, if_neg hne, List.reverse_append, List.reverse_cons, List.reverse_nil,
    List.nil_append, List.cons_append, List.find?_cons]
  by_cases h : x.seqno < S <;> simp [h]

theorem resolve_mem {h : History K} {S : Nat} {sv : SuperVersion K}
    (hr : getVersionForSnapshot h S = some sv) : sv ∈ h := by
  unfold getVersionForSnapshot at hr
  split at hr
  · exact List.mem_of_mem_head? hr
  · simpa using List.mem_of_find?_eq_some hr

/-- `maintenance` at a watermark `≤ S` (including the no-op watermark 0) does not change what `S` resolves to -/
theorem maintenance_resolve (h : History K) (wm S : Nat) (hwS : wm ≤ S) :
    getVersionForSnapshot (maintenance h wm).1 S = getVersionForSnapshot h S := by
  by_cases h0 : wm = 0
  · subst h0; simp [maintenance]
  · exact maintenance_keeps_newest_below' h wm S hwS (by omega)

theorem maintenance_sublist (h : History K) (wm : Nat) : List.Sublist (maintenance h wm).1 h := by
  obtain ⟨n, hn, _⟩ := maintenance_suffix h wm
  rw [hn]; exact List.drop_sublist n h


/-! ### a batch of inserts at a seqno `≥ S` is invisible at `S` -/
section
variable [LT K] [DecidableLT K] [DecidableEq K]

/-- the entries a scan at `S` takes from a source are unchanged by inserting an entry with seqno `≥ S` -/
theorem filter_visible_memInsert (g : K → Bool) (e : Entry K) (l : List (Entry K)) (S : Nat) (hS : S ≤ e.seqno) :
    (memInsert e l).filter (fun x => g x.key && visible S x) = l.filter (fun x => g x.key && visible S x) := by
  have he : (g e.key && visible S e) = false := by
    simp only [visible, Bool.and_eq_false_iff, decide_eq_false_iff_not]; right; omega
  induction l with
  | nil => simp [memInsert, he]
  | cons a t ih =>
    simp only [memInsert]
    split
    · rw [List.filter_cons, he]; rfl
    · split
      · next h2 =>
        have h2' : e.key = a.key ∧ e.seqno = a.seqno := by simpa [ikEq] using h2
        have ha : (g a.key && visible S a) = false := by
          simp only [visible, Bool.and_eq_false_iff, decide_eq_false_iff_not]; right; omega
        rw [List.filter_cons, List.filter_cons, he, ha]; rfl
      · rw [List.filter_cons, List.filter_cons, ih]

theorem filter_visible_foldl_memInsert (g : K → Bool) (es : List (Entry K)) (l : List (Entry K)) (S : Nat)
    (hS : ∀ e ∈ es, S ≤ e.seqno) :
    (es.foldl (fun acc e => memInsert e acc) l).filter (fun x => g x.key && visible S x)
      = l.filter (fun x => g x.key && visible S x) := by
  induction es generalizing l with
  | nil => rfl
  | cons e es ih =>
    rw [List.foldl_cons, ih _ (fun x hx => hS x (List.mem_cons_of_mem _ hx)),
      filter_visible_memInsert g e l S (hS e List.mem_cons_self)]

variable [LE K] [Std.IsLinearOrder K] [Std.LawfulOrderLT K]

theorem foldl_memInsert_source (es : List (Entry K)) (l : List (Entry K)) (hs : IsSource l) :
    IsSource (es.foldl (fun acc e => memInsert e acc) l) := by
  induction es generalizing l with
  | nil => exact hs
  | cons e es ih => rw [List.foldl_cons]; exact ih _ (memInsert_source hs)

theorem newest_foldl_memInsert_ge (es : List (Entry K)) (l : List (Entry K)) (hs : IsSource l) (S : Nat)
    (hS : ∀ e ∈ es, S ≤ e.seqno) (k : K) :
    newest (es.foldl (fun acc e => memInsert e acc) l) k S = newest l k S := by
  induction es generalizing l with
  | nil => rfl
  | cons e es ih =>
    rw [List.foldl_cons, ih _ (memInsert_source hs) (fun x hx => hS x (List.mem_cons_of_mem _ hx)),
      newest_memInsert_ge hs (hS e List.mem_cons_self)]

/-- `Memtable::get` at `S` does not see a batch written at a seqno `≥ S` -/
theorem memGet_foldl_memInsert_ge (es : List (Entry K)) (l : List (Entry K)) (hs : IsSource l) (S : Nat)
    (hS : ∀ e ∈ es, S ≤ e.seqno) (k : K) :
    memGet (es.foldl (fun acc e => memInsert e acc) l) k S = memGet l k S := by
  rw [memGet_eq_newest (foldl_memInsert_source es l hs), memGet_eq_newest hs,
    newest_foldl_memInsert_ge es l hs S hS]

end

/-! ### reads depend on the memtables only through the ids of the resolved super version -/
section
variable [LT K] [DecidableLT K] [DecidableEq K]

theorem findSome?_congr_mem {α β : Type} (l : List α) (f g : α → Option β) (h : ∀ a ∈ l, f a = g a) :
    l.findSome? f = l.findSome? g := by
  induction l with
  | nil => rfl
  | cons a t ih =>
    rw [List.findSome?_cons, List.findSome?_cons, h a List.mem_cons_self,
      ih (fun x hx => h x (List.mem_cons_of_mem _ hx))]

theorem svGet_congr (t t' : TreeState K) (sv : SuperVersion K) (k : K) (S : Nat)
    (h : ∀ id ∈ sv.active :: sv.sealed, memGet (t'.mem id) k S = memGet (t.mem id) k S) :
    t'.svGet sv k S = t.svGet sv k S := by
  unfold TreeState.svGet
  rw [h sv.active List.mem_cons_self,
    findSome?_congr_mem sv.sealed.reverse (fun id => memGet (t'.mem id) k S) (fun id => memGet (t.mem id) k S)
      (fun id hid => h id (List.mem_cons_of_mem _ (List.mem_reverse.mp hid)))]

theorem scanSources_congr (t t' : TreeState K) (sv : SuperVersion K) (lo hi : Bound K) (S : Nat)
    (overlay : Option (List (Entry K) × Nat))
    (h : ∀ id ∈ sv.active :: sv.sealed,
      (t'.mem id).filter (fun e => inBounds lo hi e.key && Lsm.visible S e)
        = (t.mem id).filter (fun e => inBounds lo hi e.key && Lsm.visible S e)) :
    t'.scanSources sv lo hi S overlay = t.scanSources sv lo hi S overlay := by
  unfold TreeState.scanSources
  simp only
  rw [h sv.active List.mem_cons_self]
  congr 3
  exact List.map_congr_left (fun id hid => h id (List.mem_cons_of_mem _ hid))

/-- point reads: same resolved super version, same `Memtable::get` answers on its memtables -/
theorem getAt_congr (t t' : TreeState K) (k : K) (S : Nat)
    (hres : getVersionForSnapshot t'.hist S = getVersionForSnapshot t.hist S)
    (hmem : ∀ sv, getVersionForSnapshot t.hist S = some sv →
      ∀ id ∈ sv.active :: sv.sealed, memGet (t'.mem id) k S = memGet (t.mem id) k S) :
    t'.getAt k S = t.getAt k S := by
  unfold TreeState.getAt
  rw [hres]
  cases hr : getVersionForSnapshot t.hist S with
  | none => rfl
  | some sv => simp only [Option.map_some]; rw [svGet_congr t t' sv k S (hmem sv hr)]

theorem scanAt_congr (t t' : TreeState K) (S : Nat) (lo hi : Bound K) (w : List Dir)
    (overlay : Option (List (Entry K) × Nat))
    (hres : getVersionForSnapshot t'.hist S = getVersionForSnapshot t.hist S)
    (hmem : ∀ sv, getVersionForSnapshot t.hist S = some sv →
      ∀ id ∈ sv.active :: sv.sealed,
        (t'.mem id).filter (fun e => inBounds lo hi e.key && Lsm.visible S e)
          = (t.mem id).filter (fun e => inBounds lo hi e.key && Lsm.visible S e)) :
    t'.scanAt S lo hi w overlay = t.scanAt S lo hi w overlay := by
  unfold TreeState.scanAt
  rw [hres]
  cases hr : getVersionForSnapshot t.hist S with
  | none => rfl
  | some sv => simp only [Option.map_some]; rw [scanSources_congr t t' sv lo hi S overlay (hmem sv hr)]

end


/-! ### the well-formedness invariant -/
section
variable [LT K] [DecidableLT K] [DecidableEq K]

structure TreeState.WF (t : TreeState K) : Prop where
  hist_ne : t.hist ≠ []
  /-- history seqnos are non-decreasing (oldest first) -/
  sorted : SeqSorted t.hist
  /-- no super version is stamped beyond the counter -/
  below : ∀ sv ∈ t.hist, sv.seqno ≤ t.seqCtr
  /-- every memtable is sorted by internal key -/
  mems_src : ∀ m ∈ t.mems, IsSource m.entries
  mems_nodup : (t.mems.map (·.id)).Nodup
  /-- the published counter never runs ahead of the counter -/
  vis_le : t.visible ≤ t.seqCtr

theorem WF_init (n : Nat) (b : Option Nat) : (TreeState.init n b : TreeState K).WF where
  hist_ne := by simp [TreeState.init]
  sorted := by simp [TreeState.init, SeqSorted]
  below := by simp [TreeState.init]
  mems_src := by simp [TreeState.init, IsSource]
  mems_nodup := by simp [TreeState.init]
  vis_le := by simp [TreeState.init]

theorem TreeState.WF.mem_source {t : TreeState K} (h : t.WF) (id : Nat) : IsSource (t.mem id) :=
  memOf_pred IsSource t.mems id List.Pairwise.nil h.mems_src

/-! ### primitive steps -/

/-- the state with one more (empty) memtable -/
def TreeState.addMem (t : TreeState K) (n : Nat) : TreeState K :=
  { t with mems := t.mems ++ [({ id := n, entries := [] } : MemtableM K)] }

/-- the primitive state transitions every non-reopen operation is composed of; `wm` bounds the GC watermarks -/
inductive Prim (wm : Nat) : TreeState K → TreeState K → Prop
  | install (t : TreeState K) (sv : SuperVersion K) (w : Nat) : w ≤ wm → Prim wm t (t.install sv w)
  | rotate (t : TreeState K) (n : Nat) : t.freshMem n = true → Prim wm t (t.rotate n)
  | addMem (t : TreeState K) (n : Nat) : t.freshMem n = true → Prim wm t (t.addMem n)
  | write (t : TreeState K) (es : List (Entry K)) (t' : TreeState K) : t.write es = some t' → Prim wm t t'

inductive Steps (wm : Nat) : TreeState K → TreeState K → Prop
  | refl (t : TreeState K) : Steps wm t t
  | step {t t1 t2 : TreeState K} : Prim wm t t1 → Steps wm t1 t2 → Steps wm t t2

theorem Steps.one {wm : Nat} {t t' : TreeState K} (h : Prim wm t t') : Steps wm t t' := .step h (.refl _)

theorem Steps.trans {wm : Nat} {a b c : TreeState K} (h1 : Steps wm a b) (h2 : Steps wm b c) : Steps wm a c := by
  induction h1 with
  | refl => exact h2
  | step p _ ih => exact .step p (ih h2)

theorem Prim.mono {wm wm' : Nat} (hle : wm ≤ wm') {a b : TreeState K} (h : Prim wm a b) : Prim wm' a b := by
  cases h with
  | install sv w hw => exact .install _ sv w (Nat.le_trans hw hle)
  | rotate n hf => exact .rotate _ n hf
  | addMem n hf => exact .addMem _ n hf
  | write es _ hw => exact .write _ es _ hw

theorem Steps.mono {wm wm' : Nat} (hle : wm ≤ wm') {a b : TreeState K} (h : Steps wm a b) : Steps wm' a b := by
  induction h with
  | refl => exact .refl _
  | step p _ ih => exact .step (p.mono hle) ih

/-! ### every operation is a composition of primitive steps -/

theorem flushSealed_steps {t t' : TreeState K} {wm : Nat} {cuts : List (Nat × Nat)} {sep : Bool}
    (h : t.flushSealed wm cuts sep = some t') : Steps wm t t' := by
  unfold TreeState.flushSealed at h
  split at h
  · cases h
  · next sv _ =>
    split at h
    · split at h
      · cases h; exact .refl _
      · cases h
    · split at h
      · cases h
      · cases h; exact .one (.install _ _ _ (Nat.le_refl _))

/-- the commit of a concurrent flush is the identity (result discarded) or ONE `install` step -/
theorem flushCommit_steps {t t' : TreeState K} {ids : List Nat} {wm : Nat} {cuts : List (Nat × Nat)}
    (h : t.flushCommit ids wm cuts = some t') : Steps wm t t' := by
  unfold TreeState.flushCommit at h
  split at h
  · cases h
  · next sv _ =>
    split at h
    · cases h
    · split at h
      · cases h; exact .refl _
      · simp only at h
        split at h
        · cases h
        · cases h; exact .one (.install _ _ _ (Nat.le_refl _))

theorem applyOp_steps {t t' : TreeState K} {op : Op K} (h : t.applyOp op = some t') (hop : op.isReopen = false) :
    Steps op.watermark t t' := by
  cases op with
  | write es => exact .one (.write _ es _ h)
  | rotate m =>
    simp only [TreeState.applyOp] at h
    split at h
    · next hf => cases h; exact .one (.rotate _ m hf)
    · cases h
  | flush wm m cuts =>
    simp only [TreeState.applyOp] at h
    split at h
    · next hf => exact .step (.rotate _ m hf) (flushSealed_steps h)
    · cases h
  | flushCommit ids wm cuts => exact flushCommit_steps h
  | merge ids dest wm f cuts =>
    simp only [TreeState.applyOp, TreeState.mergeCommit] at h
    split at h
    · cases h
    · split at h
      · cases h
      · cases h; exact .one (.install _ _ _ (Nat.le_refl _))
  | move ids dest wm =>
    simp only [TreeState.applyOp, TreeState.moveCommit, Option.map_eq_some_iff] at h
    obtain ⟨sv, _, rfl⟩ := h
    exact .one (.install _ _ _ (Nat.le_refl _))
  | drop ids wm =>
    simp only [TreeState.applyOp, TreeState.dropCommit, Option.map_eq_some_iff] at h
    obtain ⟨sv, _, rfl⟩ := h
    exact .one (.install _ _ _ (Nat.le_refl _))
  | clear m =>
    simp only [TreeState.applyOp] at h
    split at h
    · next hf =>
      simp only [TreeState.clear, Option.map_eq_some_iff] at h
      obtain ⟨sv, _, rfl⟩ := h
      exact .step (.addMem _ m hf) (.one (.install _ _ _ (Nat.le_refl _)))
    · cases h
  | ingest m fcuts items cuts =>
    simp only [TreeState.applyOp] at h
    split at h
    · next hf =>
      split at h
      · next t1 h1 =>
        refine .step (.rotate _ m hf) ((flushSealed_steps h1).trans ?_)
        unfold TreeState.ingestCommit at h
        split at h
        · cases h
        · simp only at h
          split at h
          · cases h
          · cases h; exact .one (.install _ _ _ (Nat.le_refl _))
      · cases h
    · cases h
  | reopen => cases hop

end


/-! ### shapes of the primitive steps -/
section
variable [LT K] [DecidableLT K] [DecidableEq K]

theorem freshMem_iff (t : TreeState K) (n : Nat) : t.freshMem n = true ↔ ∀ m ∈ t.mems, m.id ≠ n := by
  simp [TreeState.freshMem]

theorem mem_fresh (t : TreeState K) (n : Nat) (h : t.freshMem n = true) : t.mem n = [] := by
  apply memOf_fresh
  simpa [TreeState.freshMem] using h

theorem install_hist (t : TreeState K) (sv : SuperVersion K) (wm : Nat) :
    (t.install sv wm).hist = (maintenance (t.hist ++ [{ sv with seqno := t.seqCtr }]) wm).1 := rfl

theorem install_seqCtr (t : TreeState K) (sv : SuperVersion K) (wm : Nat) :
    (t.install sv wm).seqCtr = t.seqCtr + 1 := rfl

theorem install_visible (t : TreeState K) (sv : SuperVersion K) (wm : Nat) :
    (t.install sv wm).visible = max t.visible (t.seqCtr + 1) := rfl

theorem install_mems (t : TreeState K) (sv : SuperVersion K) (wm : Nat) :
    (t.install sv wm).mems = t.mems.filter (fun m =>
      ((t.install sv wm).hist.flatMap (fun sv => sv.active :: sv.sealed)).contains m.id) := rfl

/-- `gcMems` keeps every memtable a surviving history entry references -/
theorem install_mem (t : TreeState K) (sv : SuperVersion K) (wm : Nat) (sv0 : SuperVersion K)
    (h0 : sv0 ∈ (t.install sv wm).hist) (id : Nat) (hid : id ∈ sv0.active :: sv0.sealed) :
    (t.install sv wm).mem id = t.mem id := by
  rw [TreeState.mem_eq, TreeState.mem_eq, install_mems]
  apply memOf_filter
  intro m _ hm
  rw [List.contains_iff_mem, List.mem_flatMap]
  exact ⟨sv0, h0, hm ▸ hid⟩

theorem install_resolve (t : TreeState K) (sv : SuperVersion K) (wm S : Nat) (hS0 : 0 < S) (hS : S ≤ t.seqCtr)
    (hwm : wm ≤ S) : getVersionForSnapshot (t.install sv wm).hist S = getVersionForSnapshot t.hist S := by
  rw [install_hist, maintenance_resolve _ _ _ hwm, resolve_append _ _ _ hS hS0]

/-- the two outcomes of `rotate_memtable`: nothing (active memtable empty), or seal + fresh active memtable,
    the latest super version being REPLACED by one with the same seqno -/
theorem rotate_cases (t : TreeState K) (n : Nat) :
    t.rotate n = t ∨ ∃ r sv, t.hist = r ++ [sv] ∧
      t.rotate n = { t with
        hist := r ++ [{ sv with active := n, sealed := sv.sealed ++ [sv.active] }],
        mems := t.mems ++ [({ id := n, entries := [] } : MemtableM K)] } := by
  unfold TreeState.rotate
  split
  · exact Or.inl rfl
  · next sv hsv =>
    split
    · exact Or.inl rfl
    · right
      obtain ⟨r, hr⟩ := List.getLast?_eq_some_iff.mp hsv
      exact ⟨r, sv, hr, by rw [hr, replaceLatest_append]⟩

/-- the per-memtable update of a write -/
def writeUpd (a : Nat) (es : List (Entry K)) (m : MemtableM K) : MemtableM K :=
  if m.id == a then { m with entries := es.foldl (fun acc e => memInsert e acc) m.entries } else m

theorem writeUpd_id (a : Nat) (es : List (Entry K)) (m : MemtableM K) : (writeUpd a es m).id = m.id := by
  unfold writeUpd; split <;> rfl

theorem write_cases {t t' : TreeState K} {es : List (Entry K)} (h : t.write es = some t') :
    ∃ a, (∀ e ∈ es, e.seqno = t.seqCtr) ∧
      t' = { t with mems := t.mems.map (writeUpd a es), seqCtr := t.seqCtr + 1,
                    visible := max t.visible (t.seqCtr + 1) } := by
  unfold TreeState.write at h
  split at h
  · cases h
  · next sv _ =>
    split at h
    · next hall =>
      cases h
      refine ⟨sv.active, ?_, rfl⟩
      simpa using hall
    · cases h

end

/-! ### `WF` is preserved -/
section
variable [LT K] [DecidableLT K] [DecidableEq K]
variable [LE K] [Std.IsLinearOrder K] [Std.LawfulOrderLT K]

theorem install_WF {t : TreeState K} (h : t.WF) (sv : SuperVersion K) (wm : Nat) : (t.install sv wm).WF := by
  have hsub := maintenance_sublist (t.hist ++ [{ sv with seqno := t.seqCtr }]) wm
  have hbel : ∀ x ∈ t.hist ++ [{ sv with seqno := t.seqCtr }], x.seqno ≤ t.seqCtr := by
    intro x hx
    rcases List.mem_append.mp hx with hx | hx
    · exact h.below x hx
    · simp only [List.mem_singleton] at hx; subst hx; exact Nat.le_refl _
  refine ⟨?_, ?_, ?_, ?_, ?_, ?_⟩
  · rw [install_hist]; exact maintenance_nonempty _ _ (by simp)
  · rw [install_hist]
    refine List.Pairwise.sublist hsub ?_
    rw [List.pairwise_append]
    refine ⟨h.sorted, by simp, ?_⟩
    intro a ha b hb
    simp only [List.mem_singleton] at hb; subst hb
    exact h.below a ha
  · intro x hx
    rw [install_hist] at hx
    rw [install_seqCtr]
    exact Nat.le_succ_of_le (hbel x (hsub.subset hx))
  · intro m hm
    rw [install_mems] at hm
    exact h.mems_src m (List.mem_filter.mp hm).1
  · rw [install_mems]
    exact List.Nodup.sublist (List.Sublist.map _ List.filter_sublist) h.mems_nodup
  · rw [install_visible, install_seqCtr]
    have := h.vis_le
    omega

theorem rotate_WF {t : TreeState K} (h : t.WF) (n : Nat) (hf : t.freshMem n = true) : (t.rotate n).WF := by
  rcases rotate_cases t n with he | ⟨r, sv, hr, he⟩
  · rw [he]; exact h
  · rw [he]
    have hs := h.sorted
    have hb := h.below
    rw [hr] at hs hb
    unfold SeqSorted at hs
    rw [List.pairwise_append] at hs
    refine ⟨by simp, ?_, ?_, ?_, ?_, h.vis_le⟩
    · show SeqSorted (r ++ [_])
      unfold SeqSorted
      rw [List.pairwise_append]
      refine ⟨hs.1, by simp, ?_⟩
      intro a ha b hb'
      simp only [List.mem_singleton] at hb'; subst hb'
      exact hs.2.2 a ha sv (by simp)
    · intro x hx
      simp only [List.mem_append, List.mem_singleton] at hx
      rcases hx with hx | hx
      · exact hb x (by simp [hx])
      · subst hx; exact hb sv (by simp)
    · intro m hm
      simp only [List.mem_append, List.mem_singleton] at hm
      rcases hm with hm | hm
      · exact h.mems_src m hm
      · subst hm; exact List.Pairwise.nil
    · simp only [List.map_append, List.map_cons, List.map_nil]
      rw [List.nodup_append]
      refine ⟨h.mems_nodup, by simp, ?_⟩
      intro a ha b hb'
      simp only [List.mem_singleton] at hb'; subst hb'
      obtain ⟨m, hm, rfl⟩ := List.mem_map.mp ha
      exact (freshMem_iff t b).mp hf m hm

theorem addMem_WF {t : TreeState K} (h : t.WF) (n : Nat) (hf : t.freshMem n = true) : (t.addMem n).WF := by
  refine ⟨h.hist_ne, h.sorted, h.below, ?_, ?_, h.vis_le⟩
  · intro m hm
    simp only [TreeState.addMem, List.mem_append, List.mem_singleton] at hm
    rcases hm with hm | hm
    · exact h.mems_src m hm
    · subst hm; exact List.Pairwise.nil
  · simp only [TreeState.addMem, List.map_append, List.map_cons, List.map_nil]
    rw [List.nodup_append]
    refine ⟨h.mems_nodup, by simp, ?_⟩
    intro a ha b hb'
    simp only [List.mem_singleton] at hb'; subst hb'
    obtain ⟨m, hm, rfl⟩ := List.mem_map.mp ha
    exact (freshMem_iff t b).mp hf m hm

theorem write_WF {t t' : TreeState K} (h : t.WF) {es : List (Entry K)} (hw : t.write es = some t') : t'.WF := by
  obtain ⟨a, _, rfl⟩ := write_cases hw
  refine ⟨h.hist_ne, h.sorted, fun x hx => Nat.le_succ_of_le (h.below x hx), ?_, ?_, ?_⟩
  · intro m hm
    obtain ⟨m0, hm0, rfl⟩ := List.mem_map.mp hm
    unfold writeUpd
    split
    · exact foldl_memInsert_source es _ (h.mems_src m0 hm0)
    · exact h.mems_src m0 hm0
  · have : (t.mems.map (writeUpd a es)).map (·.id) = t.mems.map (·.id) := by
      rw [List.map_map]
      exact List.map_congr_left (fun m _ => writeUpd_id a es m)
    show ((t.mems.map (writeUpd a es)).map (·.id)).Nodup
    rw [this]; exact h.mems_nodup
  · show max t.visible (t.seqCtr + 1) ≤ t.seqCtr + 1
    have := h.vis_le
    omega

theorem Prim.WF {wm : Nat} {t t' : TreeState K} (p : Prim wm t t') (h : t.WF) : t'.WF := by
  cases p with
  | install sv w _ => exact install_WF h sv w
  | rotate n hf => exact rotate_WF h n hf
  | addMem n hf => exact addMem_WF h n hf
  | write es _ hw => exact write_WF h hw

theorem Steps.WF {wm : Nat} {t t' : TreeState K} (s : Steps wm t t') (h : t.WF) : t'.WF := by
  induction s with
  | refl => exact h
  | step p _ ih => exact ih (p.WF h)

theorem reopen_WF {t t' : TreeState K} (hr : t.reopen = some t') (h : t.WF) : t'.WF := by
  simp only [TreeState.reopen, Option.map_eq_some_iff] at hr
  obtain ⟨sv, _, rfl⟩ := hr
  refine ⟨by simp, by simp [SeqSorted], by simp, ?_, by simp, h.vis_le⟩
  intro m hm
  simp only [List.mem_singleton] at hm
  subst hm; exact List.Pairwise.nil

/-- the invariant is preserved by every operation (including `reopen`) -/
theorem applyOp_WF {t t' : TreeState K} {op : Op K} (h : t.WF) (ha : t.applyOp op = some t') : t'.WF := by
  cases hop : op.isReopen with
  | false => exact (applyOp_steps ha hop).WF h
  | true =>
    cases op with
    | reopen => exact reopen_WF ha h
    | _ => cases hop

theorem run_WF {t t' : TreeState K} {ops : List (Op K)} (h : t.WF) (hr : t.run ops = some t') : t'.WF := by
  induction ops generalizing t with
  | nil => simp only [TreeState.run, Option.some.injEq] at hr; subst hr; exact h
  | cons op ops ih =>
    simp only [TreeState.run] at hr
    split at hr
    · next t1 h1 => exact ih (applyOp_WF h h1) hr
    · cases hr

end

/-! ### the counters only grow -/
section
variable [LT K] [DecidableLT K] [DecidableEq K]

theorem Prim.seqCtr_le {wm : Nat} {t t' : TreeState K} (p : Prim wm t t') : t.seqCtr ≤ t'.seqCtr := by
  cases p with
  | install sv w _ => rw [install_seqCtr]; exact Nat.le_succ _
  | rotate n hf =>
    rcases rotate_cases t n with he | ⟨r, sv, _, he⟩ <;> rw [he] <;> exact Nat.le_refl _
  | addMem n hf => exact Nat.le_refl _
  | write es _ hw => obtain ⟨a, _, rfl⟩ := write_cases hw; exact Nat.le_succ _

theorem Prim.visible_le {wm : Nat} {t t' : TreeState K} (p : Prim wm t t') : t.visible ≤ t'.visible := by
  cases p with
  | install sv w _ => rw [install_visible]; exact Nat.le_max_left _ _
  | rotate n hf =>
    rcases rotate_cases t n with he | ⟨r, sv, _, he⟩ <;> rw [he] <;> exact Nat.le_refl _
  | addMem n hf => exact Nat.le_refl _
  | write es _ hw => obtain ⟨a, _, rfl⟩ := write_cases hw; exact Nat.le_max_left _ _

theorem Steps.seqCtr_le {wm : Nat} {t t' : TreeState K} (s : Steps wm t t') : t.seqCtr ≤ t'.seqCtr := by
  induction s with
  | refl => exact Nat.le_refl _
  | step p _ ih => exact Nat.le_trans p.seqCtr_le ih

theorem Steps.visible_le {wm : Nat} {t t' : TreeState K} (s : Steps wm t t') : t.visible ≤ t'.visible := by
  induction s with
  | refl => exact Nat.le_refl _
  | step p _ ih => exact Nat.le_trans p.visible_le ih

theorem reopen_counters {t t' : TreeState K} (hr : t.reopen = some t') :
    t'.seqCtr = t.seqCtr ∧ t'.visible = t.visible := by
  simp only [TreeState.reopen, Option.map_eq_some_iff] at hr
  obtain ⟨sv, _, rfl⟩ := hr
  exact ⟨rfl, rfl⟩

theorem applyOp_seqCtr_mono {t t' : TreeState K} {op : Op K} (ha : t.applyOp op = some t') :
    t.seqCtr ≤ t'.seqCtr := by
  cases hop : op.isReopen with
  | false => exact (applyOp_steps ha hop).seqCtr_le
  | true =>
    cases op with
    | reopen => exact Nat.le_of_eq (reopen_counters ha).1.symm
    | _ => cases hop

theorem applyOp_visible_mono {t t' : TreeState K} {op : Op K} (ha : t.applyOp op = some t') :
    t.visible ≤ t'.visible := by
  cases hop : op.isReopen with
  | false => exact (applyOp_steps ha hop).visible_le
  | true =>
    cases op with
    | reopen => exact Nat.le_of_eq (reopen_counters ha).2.symm
    | _ => cases hop

theorem run_seqCtr_mono {t t' : TreeState K} {ops : List (Op K)} (hr : t.run ops = some t') :
    t.seqCtr ≤ t'.seqCtr := by
  induction ops generalizing t with
  | nil => simp only [TreeState.run, Option.some.injEq] at hr; subst hr; exact Nat.le_refl _
  | cons op ops ih =>
    simp only [TreeState.run] at hr
    split at hr
    · next t1 h1 => exact Nat.le_trans (applyOp_seqCtr_mono h1) (ih hr)
    · cases hr

theorem run_visible_mono {t t' : TreeState K} {ops : List (Op K)} (hr : t.run ops = some t') :
    t.visible ≤ t'.visible := by
  induction ops generalizing t with
  | nil => simp only [TreeState.run, Option.some.injEq] at hr; subst hr; exact Nat.le_refl _
  | cons op ops ih =>
    simp only [TreeState.run] at hr
    split at hr
    · next t1 h1 => exact Nat.le_trans (applyOp_visible_mono h1) (ih hr)
    · cases hr

variable [LE K] [Std.IsLinearOrder K] [Std.LawfulOrderLT K]

theorem applyOp_visible_le {t t' : TreeState K} {op : Op K} (h : t.WF) (ha : t.applyOp op = some t') :
    t'.visible ≤ t'.seqCtr := (applyOp_WF h ha).vis_le

end


/-! ### what a snapshot `S` observes is unchanged by every primitive step -/
section
variable [LT K] [DecidableLT K] [DecidableEq K]

theorem merge2_nil_left' (ys : List (Entry K)) : merge2 [] ys = ys := by
  cases ys <;> simp [merge2]

theorem memGet_nil (k : K) (S : Nat) : memGet ([] : List (Entry K)) k S = none := by
  unfold memGet; split <;> simp

/-! #### install -/

theorem install_getAt (t : TreeState K) (sv : SuperVersion K) (wm S : Nat) (hS0 : 0 < S) (hS : S ≤ t.seqCtr)
    (hwm : wm ≤ S) (k : K) : (t.install sv wm).getAt k S = t.getAt k S := by
  have hres := install_resolve t sv wm S hS0 hS hwm
  apply getAt_congr _ _ _ _ hres
  intro sv0 h0 id hid
  rw [install_mem t sv wm sv0 (resolve_mem (hres.trans h0)) id hid]

theorem install_scanAt (t : TreeState K) (sv : SuperVersion K) (wm S : Nat) (hS0 : 0 < S) (hS : S ≤ t.seqCtr)
    (hwm : wm ≤ S) (lo hi : Bound K) (w : List Dir) (overlay : Option (List (Entry K) × Nat)) :
    (t.install sv wm).scanAt S lo hi w overlay = t.scanAt S lo hi w overlay := by
  have hres := install_resolve t sv wm S hS0 hS hwm
  apply scanAt_congr _ _ _ _ _ _ _ hres
  intro sv0 h0 id hid
  rw [install_mem t sv wm sv0 (resolve_mem (hres.trans h0)) id hid]

/-! #### a fresh empty memtable -/

theorem addMem_mem (t : TreeState K) (n id : Nat) : (t.addMem n).mem id = t.mem id :=
  memOf_append_empty t.mems n id

theorem addMem_getAt (t : TreeState K) (n : Nat) (k : K) (S : Nat) : (t.addMem n).getAt k S = t.getAt k S :=
  getAt_congr _ _ _ _ rfl (fun _ _ id _ => by rw [addMem_mem])

theorem addMem_scanAt (t : TreeState K) (n : Nat) (S : Nat) (lo hi : Bound K) (w : List Dir)
    (overlay : Option (List (Entry K) × Nat)) :
    (t.addMem n).scanAt S lo hi w overlay = t.scanAt S lo hi w overlay :=
  scanAt_congr _ _ _ _ _ _ _ rfl (fun _ _ id _ => by rw [addMem_mem])

/-! #### rotate: the latest super version is replaced by one with the same seqno, the old active memtable
    becomes the newest sealed one and the new active memtable is empty -/

theorem rotate_svGet (t t' : TreeState K) (sv : SuperVersion K) (n : Nat) (k : K) (S : Nat)
    (hmem : ∀ id, t'.mem id = t.mem id) (hn : t.mem n = []) :
    t'.svGet { sv with active := n, sealed := sv.sealed ++ [sv.active] } k S = t.svGet sv k S := by
  unfold TreeState.svGet
  simp only [hmem, hn, memGet_nil, List.reverse_append, List.reverse_cons, List.reverse_nil, List.nil_append,
    List.cons_append, List.findSome?_cons]
  cases memGet (t.mem sv.active) k S <;> rfl

theorem rotate_scanSources (t t' : TreeState K) (sv : SuperVersion K) (n : Nat) (lo hi : Bound K) (S : Nat)
    (overlay : Option (List (Entry K) × Nat)) (hmem : ∀ id, t'.mem id = t.mem id) (hn : t.mem n = []) :
    mergeAll (t'.scanSources { sv with active := n, sealed := sv.sealed ++ [sv.active] } lo hi S overlay)
      = mergeAll (t.scanSources sv lo hi S overlay) := by
  unfold TreeState.scanSources
  simp only [hmem, hn, List.map_append, List.map_cons, List.map_nil, List.filter_nil]
  unfold mergeAll
  simp only [List.foldr_append, List.foldr_cons, List.foldr_nil, merge2_nil_left']

theorem rotate_getAt (t : TreeState K) (n : Nat) (hf : t.freshMem n = true) (S : Nat) (hS0 : 0 < S) (k : K) :
    (t.rotate n).getAt k S = t.getAt k S := by
  rcases rotate_cases t n with he | ⟨r, sv, hr, he⟩
  · rw [he]
  · rw [he]
    have hmem : ∀ id, TreeState.mem { t with
        hist := r ++ [{ sv with active := n, sealed := sv.sealed ++ [sv.active] }],
        mems := t.mems ++ [({ id := n, entries := [] } : MemtableM K)] } id = t.mem id :=
      fun id => memOf_append_empty t.mems n id
    unfold TreeState.getAt
    simp only [hr]
    rw [resolve_append_single _ _ _ hS0, resolve_append_single _ _ _ hS0]
    split
    · simp only [Option.map_some]
      rw [rotate_svGet t _ sv n k S hmem (mem_fresh t n hf)]
    · cases getVersionForSnapshot r S with
      | none => rfl
      | some sv0 =>
        simp only [Option.map_some]
        rw [svGet_congr t _ sv0 k S (fun id _ => by rw [hmem id])]

theorem rotate_scanAt (t : TreeState K) (n : Nat) (hf : t.freshMem n = true) (S : Nat) (hS0 : 0 < S)
    (lo hi : Bound K) (w : List Dir) (overlay : Option (List (Entry K) × Nat)) :
    (t.rotate n).scanAt S lo hi w overlay = t.scanAt S lo hi w overlay := by
  rcases rotate_cases t n with he | ⟨r, sv, hr, he⟩
  · rw [he]
  · rw [he]
    have hmem : ∀ id, TreeState.mem { t with
        hist := r ++ [{ sv with active := n, sealed := sv.sealed ++ [sv.active] }],
        mems := t.mems ++ [({ id := n, entries := [] } : MemtableM K)] } id = t.mem id :=
      fun id => memOf_append_empty t.mems n id
    unfold TreeState.scanAt
    simp only [hr]
    rw [resolve_append_single _ _ _ hS0, resolve_append_single _ _ _ hS0]
    split
    · simp only [Option.map_some]
      rw [rotate_scanSources t _ sv n lo hi S overlay hmem (mem_fresh t n hf)]
    · cases getVersionForSnapshot r S with
      | none => rfl
      | some sv0 =>
        simp only [Option.map_some]
        rw [scanSources_congr t _ sv0 lo hi S overlay (fun id _ => by rw [hmem id])]

variable [LE K] [Std.IsLinearOrder K] [Std.LawfulOrderLT K]

/-! #### write: the batch carries seqno `seqCtr ≥ S` -/

theorem write_getAt {t t' : TreeState K} (h : t.WF) {es : List (Entry K)} (hw : t.write es = some t') (S : Nat)
    (hS : S ≤ t.seqCtr) (k : K) : t'.getAt k S = t.getAt k S := by
  obtain ⟨a, hall, rfl⟩ := write_cases hw
  refine getAt_congr t _ k S rfl ?_
  intro _ _ id _
  show memGet (memOf (t.mems.map (writeUpd a es)) id) k S = memGet (memOf t.mems id) k S
  apply memOf_map_rel (fun x y => memGet x k S = memGet y k S) (writeUpd a es) t.mems id rfl (writeUpd_id a es)
  intro m hm
  unfold writeUpd
  split
  · exact memGet_foldl_memInsert_ge es _ (h.mems_src m hm) S (fun e he => by rw [hall e he]; exact hS) k
  · rfl

theorem write_scanAt {t t' : TreeState K} {es : List (Entry K)} (hw : t.write es = some t') (S : Nat)
    (hS : S ≤ t.seqCtr) (lo hi : Bound K) (w : List Dir) (overlay : Option (List (Entry K) × Nat)) :
    t'.scanAt S lo hi w overlay = t.scanAt S lo hi w overlay := by
  obtain ⟨a, hall, rfl⟩ := write_cases hw
  refine scanAt_congr t _ S lo hi w overlay rfl ?_
  intro _ _ id _
  show (memOf (t.mems.map (writeUpd a es)) id).filter _ = (memOf t.mems id).filter _
  apply memOf_map_rel (fun x y => x.filter (fun e => inBounds lo hi e.key && Lsm.visible S e)
      = y.filter (fun e => inBounds lo hi e.key && Lsm.visible S e)) (writeUpd a es) t.mems id rfl
    (writeUpd_id a es)
  intro m _
  unfold writeUpd
  split
  · exact filter_visible_foldl_memInsert (inBounds lo hi) es _ S (fun e he => by rw [hall e he]; exact hS)
  · rfl

/-! #### all primitive steps, and their compositions -/

theorem Prim.getAt_stable {wm : Nat} {t t' : TreeState K} (p : Prim wm t t') (h : t.WF) (S : Nat) (hS0 : 0 < S)
    (hS : S ≤ t.seqCtr) (hwm : wm ≤ S) (k : K) : t'.getAt k S = t.getAt k S := by
  cases p with
  | install sv w hw => exact install_getAt t sv w S hS0 hS (Nat.le_trans hw hwm) k
  | rotate n hf => exact rotate_getAt t n hf S hS0 k
  | addMem n hf => exact addMem_getAt t n k S
  | write es _ hw => exact write_getAt h hw S hS k

theorem Prim.scanAt_stable {wm : Nat} {t t' : TreeState K} (p : Prim wm t t') (S : Nat) (hS0 : 0 < S)
    (hS : S ≤ t.seqCtr) (hwm : wm ≤ S) (lo hi : Bound K) (w : List Dir)
    (overlay : Option (List (Entry K) × Nat)) :
    t'.scanAt S lo hi w overlay = t.scanAt S lo hi w overlay := by
  cases p with
  | install sv w' hw => exact install_scanAt t sv w' S hS0 hS (Nat.le_trans hw hwm) lo hi w overlay
  | rotate n hf => exact rotate_scanAt t n hf S hS0 lo hi w overlay
  | addMem n hf => exact addMem_scanAt t n S lo hi w overlay
  | write es _ hw => exact write_scanAt hw S hS lo hi w overlay

theorem Steps.getAt_stable {wm : Nat} {t t' : TreeState K} (s : Steps wm t t') (h : t.WF) (S : Nat) (hS0 : 0 < S)
    (hS : S ≤ t.seqCtr) (hwm : wm ≤ S) (k : K) : t'.getAt k S = t.getAt k S := by
  induction s with
  | refl => rfl
  | step p _ ih =>
    rw [ih (p.WF h) (Nat.le_trans hS p.seqCtr_le), p.getAt_stable h S hS0 hS hwm k]

theorem Steps.scanAt_stable {wm : Nat} {t t' : TreeState K} (s : Steps wm t t') (S : Nat) (hS0 : 0 < S)
    (hS : S ≤ t.seqCtr) (hwm : wm ≤ S) (lo hi : Bound K) (w : List Dir)
    (overlay : Option (List (Entry K) × Nat)) :
    t'.scanAt S lo hi w overlay = t.scanAt S lo hi w overlay := by
  induction s with
  | refl => rfl
  | step p _ ih =>
    rw [ih (Nat.le_trans hS p.seqCtr_le), p.scanAt_stable S hS0 hS hwm lo hi w overlay]

/-! ### the step theorems -/

/-- One operation never changes what a snapshot `S` (positive, at most the current counter, at least the
    operation's GC watermark) reads at any key. -/
theorem applyOp_getAt_stable (t t' : TreeState K) (op : Op K) (hwf : t.WF) (h : t.applyOp op = some t')
    (hop : op.isReopen = false) (S : Nat) (hS0 : 0 < S) (hS : S ≤ t.seqCtr) (hwm : op.watermark ≤ S) :
    ∀ k, t'.getAt k S = t.getAt k S :=
  fun k => (applyOp_steps h hop).getAt_stable hwf S hS0 hS hwm k

/-- The same for range scans, at full strength (all operations including rotate / flush / ingest, any bounds,
    any next/next_back word, any overlay); no distinctness hypothesis on the sources is needed. -/
theorem applyOp_scanAt_stable (t t' : TreeState K) (op : Op K) (_hwf : t.WF) (h : t.applyOp op = some t')
    (hop : op.isReopen = false) (S : Nat) (hS0 : 0 < S) (hS : S ≤ t.seqCtr) (hwm : op.watermark ≤ S) :
    ∀ lo hi w overlay, t'.scanAt S lo hi w overlay = t.scanAt S lo hi w overlay :=
  fun lo hi w overlay => (applyOp_steps h hop).scanAt_stable S hS0 hS hwm lo hi w overlay

/-- a history of non-reopen operations with watermarks `≤ S` is a composition of primitive steps bounded by `S` -/
theorem run_steps {t t' : TreeState K} {ops : List (Op K)} (S : Nat) (hr : t.run ops = some t')
    (hops : ∀ op ∈ ops, op.isReopen = false ∧ op.watermark ≤ S) : Steps S t t' := by
  induction ops generalizing t with
  | nil => simp only [TreeState.run, Option.some.injEq] at hr; subst hr; exact .refl _
  | cons op ops ih =>
    simp only [TreeState.run] at hr
    split at hr
    · next t1 h1 =>
      obtain ⟨ho, hw⟩ := hops op List.mem_cons_self
      exact ((applyOp_steps h1 ho).mono hw).trans (ih hr (fun o hmem => hops o (List.mem_cons_of_mem _ hmem)))
    · cases hr

theorem run_getAt_stable {t t' : TreeState K} {ops : List (Op K)} (hwf : t.WF) (hr : t.run ops = some t')
    (S : Nat) (hops : ∀ op ∈ ops, op.isReopen = false ∧ op.watermark ≤ S) (hS0 : 0 < S) (hS : S ≤ t.seqCtr) :
    ∀ k, t'.getAt k S = t.getAt k S :=
  fun k => (run_steps S hr hops).getAt_stable hwf S hS0 hS (Nat.le_refl _) k

theorem run_scanAt_stable {t t' : TreeState K} {ops : List (Op K)} (hr : t.run ops = some t')
    (S : Nat) (hops : ∀ op ∈ ops, op.isReopen = false ∧ op.watermark ≤ S) (hS0 : 0 < S) (hS : S ≤ t.seqCtr) :
    ∀ lo hi w overlay, t'.scanAt S lo hi w overlay = t.scanAt S lo hi w overlay :=
  fun lo hi w overlay => (run_steps S hr hops).scanAt_stable S hS0 hS (Nat.le_refl _) lo hi w overlay

/-- no panic: a positive snapshot above the seqno of some history entry resolves -/
theorem getAt_isSome (t : TreeState K) (k : K) (S : Nat) (hS0 : 0 < S) (hex : ∃ sv ∈ t.hist, sv.seqno < S) :
    (t.getAt k S).isSome = true := by
  unfold TreeState.getAt getVersionForSnapshot
  rw [if_neg (by omega), Option.isSome_map, List.find?_isSome]
  obtain ⟨sv, hsv, hlt⟩ := hex
  exact ⟨sv, List.mem_reverse.mpr hsv, by simpa using hlt⟩

end

end Lsm
