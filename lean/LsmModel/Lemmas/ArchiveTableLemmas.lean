import LsmModel.Lemmas.ArchiveByteLemmas
/-!
  Table-file level: a block read through its handle on a file with one altered byte (composition with the frame theorems of
  `FrameLemmas`), totality of the region map, truncation.
-/
namespace Lsm.Archive
open Lsm.Frame

theorem decodeBlockFile_eq (H : Bytes → Bytes) (exp : Option UInt8) (tail : Bytes) (size : Nat) :
    decodeBlockFile H exp tail size =
      if tail.length < size then .error .truncated else decodeBlockExact H exp (tail.take size) := by
  unfold decodeBlockFile readN
  by_cases h : tail.length < size
  · rw [if_pos h, if_pos h]
  · rw [if_neg h, if_neg h]

/-- a byte outside the handle's range does not influence the block read -/
theorem blockFile_outside (H : Bytes → Bytes) (exp : Option UInt8) (file : Bytes) {off size p : Nat} (b : UInt8)
    (h : p < off ∨ off + size ≤ p) :
    decodeBlockFile H exp ((file.set p b).drop off) size = decodeBlockFile H exp (file.drop off) size := by
  have hl : ((file.set p b).drop off).length = (file.drop off).length := by simp
  have ht : ((file.set p b).drop off).take size = (file.drop off).take size := by
    rcases h with h | h
    · rw [List.drop_set_of_lt h]
    · rw [List.drop_set, if_neg (by omega), List.take_set_of_le (by omega)]
  rw [decodeBlockFile_eq, decodeBlockFile_eq, hl, ht]

/-- a byte inside the range of a handle that names a written frame: the block read fails, or a collision is exhibited -/
theorem blockFile_inside {H : Bytes → Bytes} (hH : ∀ x, (H x).length = 16) {ty : UInt8} {payload : Bytes}
    (hty : ty ≤ 3) (hpl : payload.length < 2 ^ 32) {exp : Option UInt8} {file : Bytes} {off size p : Nat} {b : UInt8}
    (hfr : (file.drop off).take size = encodeBlock H ty payload) (hsz : size = (encodeBlock H ty payload).length)
    (hlo : off ≤ p) (hhi : p < off + size) (hp : p < file.length) (hb : b ≠ file[p]) {r : UInt8 × Bytes}
    (hd : decodeBlockFile H exp ((file.set p b).drop off) size = .ok r) : Collision32 H ∨ Collision128 H := by
  have hi : p - off < (encodeBlock H ty payload).length := by omega
  have hget : (encodeBlock H ty payload)[p - off]? = file[p]? := by
    rw [← hfr, List.getElem?_take_of_lt (by omega), List.getElem?_drop]
    congr 1; omega
  have hb' : b ≠ (encodeBlock H ty payload)[p - off] := by
    intro e
    apply hb
    have h1 : (encodeBlock H ty payload)[p - off]? = some b := by rw [List.getElem?_eq_getElem hi, e]
    rw [hget, List.getElem?_eq_getElem hp] at h1
    exact (Option.some.inj h1).symm
  rw [decodeBlockFile_eq] at hd
  split at hd
  · cases hd
  · rw [List.drop_set, if_neg (by omega), List.take_set, hfr] at hd
    exact blockExact_single_byte hH hty hpl hi hb' hd

/-! ## region map -/

theorem blockIndexAt_some {fs : List Bytes} {p : Nat} (h : p < (concatBlocks fs).length) :
    ∃ i, blockIndexAt fs p = some i ∧ i < fs.length := by
  induction fs generalizing p with
  | nil => simp [concatBlocks] at h
  | cons f r ih =>
    simp only [concatBlocks, List.length_append] at h
    simp only [blockIndexAt]
    split
    · exact ⟨0, rfl, by simp⟩
    · obtain ⟨i, h1, h2⟩ := ih (p := p - f.length) (by omega)
      exact ⟨i + 1, by simp [h1], by simp; omega⟩

theorem payloads_tableSections_length (t : TableParts) :
    (payloads (tableSections t)).length
      = (concatBlocks t.dataFrames).length + t.tliFrame.length + (filterBytes t).length + 1 + t.metaFrame.length := by
  unfold tableSections filterBytes
  cases t.filterFrame <;> simp [payloads] <;> omega

theorem tableFile_length {H : Bytes → Bytes} (hH : ∀ x, (H x).length = 16) (t : TableParts) :
    (tableFile H t).length = (concatBlocks t.dataFrames).length + t.tliFrame.length + (filterBytes t).length + 1
      + t.metaFrame.length + (encodeToc (tocEntries (tableSections t))).length + 38 := by
  unfold tableFile
  rw [encodeArchive_eq_image, image_length hH, payloads_tableSections_length]

/-- the region map is total on the file and undefined beyond it: every byte offset lies in exactly one region -/
theorem regionOf_isSome_iff {H : Bytes → Bytes} (hH : ∀ x, (H x).length = 16) (t : TableParts) (p : Nat) :
    (regionOf t p).isSome ↔ p < (tableFile H t).length := by
  rw [tableFile_length hH]
  unfold regionOf
  simp only
  generalize (encodeToc (tocEntries (tableSections t))).length = T
  generalize (filterBytes t).length = F
  generalize t.tliFrame.length = L
  generalize t.metaFrame.length = M
  by_cases h0 : p < (concatBlocks t.dataFrames).length
  · obtain ⟨i, h1, _⟩ := blockIndexAt_some h0
    rw [if_pos h0, h1]
    exact ⟨fun _ => by omega, fun _ => rfl⟩
  rw [if_neg h0]
  generalize (concatBlocks t.dataFrames).length = D at *
  by_cases h1 : p < D + L
  · rw [if_pos h1]; exact ⟨fun _ => by omega, fun _ => rfl⟩
  rw [if_neg h1]
  by_cases h2 : p < D + L + F
  · rw [if_pos h2]; exact ⟨fun _ => by omega, fun _ => rfl⟩
  rw [if_neg h2]
  by_cases h3 : p < D + L + F + 1
  · rw [if_pos h3]; exact ⟨fun _ => by omega, fun _ => rfl⟩
  rw [if_neg h3]
  by_cases h4 : p < D + L + F + 1 + M
  · rw [if_pos h4]; exact ⟨fun _ => by omega, fun _ => rfl⟩
  rw [if_neg h4]
  by_cases h5 : p < D + L + F + 1 + M + T
  · rw [if_pos h5]; exact ⟨fun _ => by omega, fun _ => rfl⟩
  rw [if_neg h5]
  by_cases h6 : p < D + L + F + 1 + M + T + 4
  · rw [if_pos h6]; exact ⟨fun _ => by omega, fun _ => rfl⟩
  rw [if_neg h6]
  by_cases h7 : p < D + L + F + 1 + M + T + 5
  · rw [if_pos h7]; exact ⟨fun _ => by omega, fun _ => rfl⟩
  rw [if_neg h7]
  by_cases h8 : p < D + L + F + 1 + M + T + 6
  · rw [if_pos h8]; exact ⟨fun _ => by omega, fun _ => rfl⟩
  rw [if_neg h8]
  by_cases h9 : p < D + L + F + 1 + M + T + 22
  · rw [if_pos h9]; exact ⟨fun _ => by omega, fun _ => rfl⟩
  rw [if_neg h9]
  by_cases h10 : p < D + L + F + 1 + M + T + 30
  · rw [if_pos h10]; exact ⟨fun _ => by omega, fun _ => rfl⟩
  rw [if_neg h10]
  by_cases h11 : p < D + L + F + 1 + M + T + 38
  · rw [if_pos h11]; exact ⟨fun _ => by omega, fun _ => rfl⟩
  rw [if_neg h11]
  exact ⟨fun h => by simp at h, fun _ => by omega⟩

/-! ## truncation -/

theorem take6_of_parts {tr : Bytes} (h1 : tr.take 4 = trailerMagic) (h2 : (tr.drop 4).take 1 = [1])
    (h3 : (tr.drop 5).take 1 = [0]) : tr.take 6 = trailerMagic ++ [1, 0] := by
  have e6 : tr.take 6 = tr.take 4 ++ ((tr.drop 4).take 1 ++ (tr.drop 5).take 1) := by
    have a : tr.take 6 = tr.take 4 ++ (tr.drop 4).take 2 := by
      have : (6 : Nat) = 4 + 2 := rfl
      rw [this, List.take_add]
    have b : (tr.drop 4).take 2 = (tr.drop 4).take 1 ++ ((tr.drop 4).drop 1).take 1 := by
      have : (2 : Nat) = 1 + 1 := rfl
      rw [this, List.take_add]
    rw [a, b, List.drop_drop]
  rw [e6, h1, h2, h3]; rfl

/-- whatever decodes ends in 38 bytes that start with the trailer head -/
theorem decodeArchive_ok_tail {h128 : Bytes → Bytes} {q : Bytes} {es : List Entry} (h : decodeArchive h128 q = .ok es) :
    38 ≤ q.length ∧ (q.drop (q.length - 38)).take 6 = trailerMagic ++ [1, 0] := by
  unfold decodeArchive decodeArchiveTrace at h
  split at h
  · simp at h
  · rename_i ck pos hr
    unfold readTrailer trailerLen at hr
    split at hr
    · simp at hr
    · rename_i hl
      refine ⟨by omega, ?_⟩
      simp only at hr
      split at hr
      · simp at hr
      · rename_i c1
        split at hr
        · simp at hr
        · rename_i c2
          split at hr
          · simp at hr
          · rename_i c3
            exact take6_of_parts (Decidable.not_not.mp c1) (Decidable.not_not.mp c2) (Decidable.not_not.mp c3)

/-- a file shorter than a trailer is an I/O error -/
theorem decodeArchive_short {h128 : Bytes → Bytes} {q : Bytes} (h : q.length < 38) : decodeArchive h128 q = .error .io := by
  unfold decodeArchive decodeArchiveTrace readTrailer trailerLen
  rw [if_pos h]

/-- an archive image followed by ANYTHING, cut right after the image, is the image: the cut is not detectable -/
theorem truncation_after_embedded {H : Bytes → Bytes} (hH : ∀ x, (H x).length = 16) {s : List (Bytes × Bytes)}
    (hwf : WfSections s) (rest : Bytes) :
    decodeArchive H ((encodeArchive H s ++ rest).take (encodeArchive H s).length) = .ok (tocEntries s) := by
  rw [List.take_left' rfl, decodeArchive_encode hH hwf]

end Lsm.Archive

namespace Lsm.Archive
open Lsm.Frame

/-- no proper prefix of the file ends in 38 bytes that start with the trailer head "SFA!" 01 00 -/
def NoTrailerImageBefore (file : Bytes) : Prop :=
  ∀ k, k < file.length → 38 ≤ k → ((file.take k).drop (k - 38)).take 6 ≠ trailerMagic ++ [1, 0]

instance (file : Bytes) : Decidable (NoTrailerImageBefore file) := by unfold NoTrailerImageBefore; infer_instance

theorem truncation_detected {h128 : Bytes → Bytes} {file : Bytes} (hno : NoTrailerImageBefore file) {k : Nat}
    (hk : k < file.length) : ∃ e, decodeArchive h128 (file.take k) = .error e := by
  cases hd : decodeArchive h128 (file.take k) with
  | error e => exact ⟨e, rfl⟩
  | ok es =>
    exfalso
    obtain ⟨h1, h2⟩ := decodeArchive_ok_tail hd
    have hl : (file.take k).length = k := by simp; omega
    rw [hl] at h1 h2
    exact hno k hk h1 h2

/-- F10: the count field is handed to `Vec::with_capacity` as soon as the ToC magic matched — whatever the checksum -/
theorem alloc_before_checksum (h128 : Bytes → Bytes) {t : Bytes} (ck : Bytes) (hl : 8 ≤ t.length)
    (hm : t.take 4 = tocMagic) : (readTocTrace h128 t ck).1 = some (leNat ((t.drop 4).take 4)) := by
  unfold readTocTrace
  rw [if_neg (by omega), if_neg (by simp [hm])]
  simp only
  rw [if_neg (by simp; omega)]

end Lsm.Archive
