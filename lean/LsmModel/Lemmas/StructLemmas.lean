import LsmModel.Lemmas.ContentLemmas2
/-
  LsmModel.Lemmas.StructLemmas — helper layer for C07 (every published version is structurally sound):
    part A: generic list facts (read order `before`, pairwise across a `flatMap`);
    part B: what RUN says about the tables of one run (disjoint, ascending, one table per key);
    part C: the EXACT recorded key range (`tableMetaOk`, "tight"): tables only ever come out of `cutTables`, and
            no version transformation invents a table;
    part D: the per-version soundness predicate `C07Sound` and its invariance for every history entry of a
            guarded run (`Reach`).
-/
namespace Lsm
set_option linter.unusedSectionVars false
set_option linter.unusedVariables false
variable {K : Type} [LT K] [DecidableLT K] [DecidableEq K] [LE K] [Std.IsLinearOrder K] [Std.LawfulOrderLT K]

/-! ## Part A: generic list facts -/

/-- a relation that holds pairwise along a concatenation `l.flatMap f` holds between any element of `f a` and any
    element of `f b` when `a` occurs before `b` in `l` -/
theorem c07_flatMap_pairwise_cross {α β : Type} {R : β → β → Prop} {f : α → List β} {l l1 l2 l3 : List α}
    {a b : α} (h : (l.flatMap f).Pairwise R) (hl : l = l1 ++ a :: l2 ++ b :: l3) {x y : β}
    (hx : x ∈ f a) (hy : y ∈ f b) : R x y := by
  subst hl
  rw [List.flatMap_append, List.pairwise_append] at h
  apply h.2.2 x _ y _
  · exact List.mem_flatMap.2 ⟨a, by simp, hx⟩
  · exact List.mem_flatMap.2 ⟨b, by simp, hy⟩

/-- two distinct members of a list: one occurs before the other -/
theorem c07_before_total {l : List (TableM K)} {a b : TableM K} (ha : a ∈ l) (hb : b ∈ l) (hne : a ≠ b) :
    before l a b ∨ before l b a := by
  obtain ⟨s, t, rfl⟩ := List.append_of_mem ha
  rcases List.mem_append.1 hb with h | h
  · obtain ⟨s1, s2, rfl⟩ := List.append_of_mem h
    exact Or.inr ⟨s1, s2, t, by simp⟩
  · rcases List.mem_cons.1 h with h | h
    · exact absurd h.symm hne
    · obtain ⟨t1, t2, rfl⟩ := List.append_of_mem h
      exact Or.inl ⟨s, t1, t2, by simp⟩

/-- in a duplicate-free list, `a` before `b` means a smaller position -/
theorem c07_before_idx {l : List (TableM K)} (hnd : l.Nodup) {a b : TableM K} (h : before l a b) :
    l.idxOf a < l.idxOf b := by
  obtain ⟨l1, l2, l3, rfl⟩ := h
  have hna : a ∉ l1 := by
    intro hh
    simp only [List.append_assoc, List.nodup_append] at hnd
    exact hnd.2.2 a hh a (by simp) rfl
  have hnb : b ∉ l1 ++ a :: l2 := by
    intro hh
    rw [List.nodup_append] at hnd
    exact hnd.2.2 b hh b (by simp) rfl
  have e1 : (l1 ++ a :: l2 ++ b :: l3).idxOf a = l1.length := by
    rw [List.append_assoc, List.idxOf_append, if_neg hna]
    simp
  have e2 : (l1 ++ a :: l2 ++ b :: l3).idxOf b = (l1 ++ a :: l2).length := by
    rw [List.idxOf_append, if_neg hnb]
    simp
  rw [e1, e2]
  simp

/-- in a duplicate-free list "before" is asymmetric -/
theorem c07_before_asymm {l : List (TableM K)} (hnd : l.Nodup) {a b : TableM K} (h1 : before l a b)
    (h2 : before l b a) : False := by
  have := c07_before_idx hnd h1
  have := c07_before_idx hnd h2
  omega

/-! ## Part B: the tables of one run -/

/-- RUN spelled out: non-empty, `lo ≤ hi` for every table, and for every two tables `a` before `b` of the run
    (not only consecutive ones) `a.hi < b.lo`, `a.lo < b.lo`, `a.hi < b.hi` -/
theorem c07_runOk_spelled {r : Run K} (h : RunOk r) :
    r ≠ [] ∧ (∀ t ∈ r, ¬ t.hi < t.lo) ∧
      r.Pairwise (fun a b => a.hi < b.lo ∧ a.lo < b.lo ∧ a.hi < b.hi) :=
  ⟨h.1, h.2.1, h.sorted.pairwise_strong⟩

/-- two different tables of a run never overlap (`KeyRange::overlaps_with_key_range` is false both ways) -/
theorem c07_run_no_overlap {r : Run K} (h : RunSorted r) :
    r.Pairwise (fun a b => a.overlaps b = false ∧ b.overlaps a = false) := by
  refine h.2.imp ?_
  intro a b hab
  simp [TableM.overlaps, hab]

/-- when the recorded ranges cover the contents, the CONTENTS of a run ascend: every key of an earlier table is
    smaller than every key of a later table -/
theorem c07_run_keys_ascending {r : Run K} (h : RunSorted r)
    (hmeta : ∀ t ∈ r, ∀ e ∈ t.entries, t.containsKey e.key = true) :
    r.Pairwise (fun a b => ∀ x ∈ a.entries, ∀ y ∈ b.entries, x.key < y.key) := by
  refine List.Pairwise.imp_of_mem ?_ h.2
  intro a b ha hb hab x hx y hy
  have c1 := hmeta a ha x hx
  have c2 := hmeta b hb y hy
  simp only [TableM.containsKey, Bool.and_eq_true, Bool.not_eq_eq_eq_not, Bool.not_true,
    decide_eq_false_iff_not] at c1 c2
  grind

/-- at most one table of a run can hold a given key -/
theorem c07_run_one_table_per_key {r : Run K} (h : RunSorted r) {a b : TableM K} (ha : a ∈ r) (hb : b ∈ r)
    {k : K} (hak : a.containsKey k = true) (hbk : b.containsKey k = true) : a = b := by
  have ha' : a ∈ r.filter (fun t => t.containsKey k) := List.mem_filter.2 ⟨ha, hak⟩
  have hb' : b ∈ r.filter (fun t => t.containsKey k) := List.mem_filter.2 ⟨hb, hbk⟩
  rw [filter_containsKey_of_sorted h k] at ha' hb'
  cases hf : r.find? (fun t => t.containsKey k) with
  | none => rw [hf] at ha'; simp at ha'
  | some c =>
    rw [hf] at ha' hb'
    simp only [Option.toList_some, List.mem_singleton] at ha' hb'
    rw [ha', hb']

/-- a run of a version is made of tables of the version -/
theorem c07_mem_tables_of_run {v : Version K} {r : Run K} (hr : r ∈ v.runs) {a : TableM K} (ha : a ∈ r) :
    a ∈ v.tables :=
  List.mem_flatten.2 ⟨r, hr, ha⟩

/-- every table of a version sits in one of its runs -/
theorem c07_run_of_mem_tables {v : Version K} {a : TableM K} (ha : a ∈ v.tables) : ∃ r ∈ v.runs, a ∈ r :=
  List.mem_flatten.1 ha

/-! ## Part C: the exact recorded key range -/

/-- META, exact form: the recorded range of every table of the version is first key / last key of its content -/
def c07Tight (v : Version K) : Prop := ∀ tb ∈ v.tables, tableMetaOk tb = true

theorem c07_tableMetaOk_iff (tb : TableM K) :
    tableMetaOk tb = true ↔
      ∃ f la, tb.entries.head? = some f ∧ tb.entries.getLast? = some la ∧ f.key = tb.lo ∧ la.key = tb.hi := by
  unfold tableMetaOk
  constructor
  · intro h
    split at h
    · next f la hf hla =>
      simp only [Bool.and_eq_true, decide_eq_true_eq] at h
      exact ⟨f, la, hf, hla, h.1, h.2⟩
    · cases h
  · rintro ⟨f, la, hf, hla, h1, h2⟩
    rw [hf, hla]
    simp [h1, h2]

/-- every table written by the multi-writer records exactly first key / last key (and is non-empty) -/
theorem c07_cutTables_tight {cuts : List (Nat × Nat)} {l : List (Entry K)} {g : Nat} {ts : List (TableM K)}
    (h : cutTables cuts l g = some ts) : ∀ tb ∈ ts, tableMetaOk tb = true := by
  intro tb htb
  obtain ⟨f, la, hf, hla, h1, h2⟩ := cutTables_meta h tb htb
  exact (c07_tableMetaOk_iff tb).2 ⟨f, la, hf, hla, h1.symm, h2.symm⟩

/-- a tight table with sorted content: it is non-empty, `lo` and `hi` are keys of the content, and every key of
    the content lies in `[lo, hi]` — the recorded range is exactly the range of the content -/
theorem c07_tight_exact {tb : TableM K} (h : tableMetaOk tb = true) (hs : IsSource tb.entries) :
    tb.entries ≠ [] ∧ (∃ e ∈ tb.entries, e.key = tb.lo) ∧ (∃ e ∈ tb.entries, e.key = tb.hi) ∧
      ∀ e ∈ tb.entries, ¬ e.key < tb.lo ∧ ¬ tb.hi < e.key := by
  obtain ⟨f, la, hf, hla, h1, h2⟩ := (c07_tableMetaOk_iff tb).1 h
  refine ⟨?_, ⟨f, List.mem_of_head? hf, h1⟩, ⟨la, List.mem_of_getLast? hla, h2⟩, ?_⟩
  · intro e; rw [e] at hf; cases hf
  · intro e he
    exact ⟨h1 ▸ cut_source_first hs hf e he, h2 ▸ cut_source_last hs hla e he⟩

/-- tight ⇒ covering (`Version.WF.meta_ok` is the weaker statement) -/
theorem c07_tight_covers {tb : TableM K} (h : tableMetaOk tb = true) (hs : IsSource tb.entries) :
    ∀ e ∈ tb.entries, tb.containsKey e.key = true := by
  intro e he
  have := (c07_tight_exact h hs).2.2.2 e he
  simp [TableM.containsKey, this.1, this.2]

/-- a tight range is the SMALLEST covering range: any `[lo', hi']` covering the content contains `[lo, hi]` -/
theorem c07_tight_minimal {tb : TableM K} (h : tableMetaOk tb = true) (hs : IsSource tb.entries) {lo' hi' : K}
    (hc : ∀ e ∈ tb.entries, ¬ e.key < lo' ∧ ¬ hi' < e.key) : ¬ tb.lo < lo' ∧ ¬ hi' < tb.hi := by
  obtain ⟨_, ⟨f, hf, h1⟩, ⟨la, hla, h2⟩, _⟩ := c07_tight_exact h hs
  exact ⟨h1 ▸ (hc f hf).1, h2 ▸ (hc la hla).2⟩

/-- `lo ≤ hi` follows from tightness -/
theorem c07_tight_lo_le_hi {tb : TableM K} (h : tableMetaOk tb = true) (hs : IsSource tb.entries) :
    ¬ tb.hi < tb.lo := by
  obtain ⟨_, ⟨f, hf, h1⟩, _, hall⟩ := c07_tight_exact h hs
  exact h1 ▸ (hall f hf).2

/-! ### no version transformation invents a table -/

theorem c07_mem_withNewL0Run {v : Version K} {nt : Run K} {tb : TableM K}
    (h : tb ∈ (v.withNewL0Run nt).tables) : tb ∈ nt ∨ tb ∈ v.tables := by
  match hl : v.levels with
  | [] =>
    have e : v.withNewL0Run nt = { v with id := v.id + 1 } := by simp [Version.withNewL0Run, hl]
    rw [e] at h
    exact Or.inr h
  | l0 :: rest =>
    have P := withNewL0Run_tables_perm v nt (by simp [hl])
    exact List.mem_append.1 (P.mem_iff.1 h)

theorem c07_mem_withMerge {v : Version K} {ids : List Nat} {nt : Run K} {dest : Nat} {tb : TableM K}
    (h : tb ∈ (v.withMerge ids nt dest).tables) : tb ∈ nt ∨ tb ∈ v.tables := by
  by_cases hd : dest < v.levels.length
  · rcases List.mem_append.1 ((withMerge_tables_perm v ids nt dest hd).mem_iff.1 h) with h | h
    · exact Or.inr (List.mem_filter.1 h).1
    · exact Or.inl h
  · have := (withMerge_tables_perm_of_ge v ids nt dest (by omega)).mem_iff.1 h
    exact Or.inr (List.mem_filter.1 this).1

theorem c07_mem_withMoved {v : Version K} {ids : List Nat} {dest : Nat} {tb : TableM K}
    (h : tb ∈ (v.withMoved ids dest).tables) : tb ∈ v.tables := by
  by_cases hd : dest < v.levels.length
  · exact (withMoved_tables_perm v ids dest hd).mem_iff.1 h
  · have := (withMoved_tables_perm_of_ge v ids dest (by omega)).mem_iff.1 h
    exact (List.mem_filter.1 this).1

theorem c07_mem_withDropped {v : Version K} {ids : List Nat} {tb : TableM K}
    (h : tb ∈ (v.withDropped ids).tables) : tb ∈ v.tables :=
  (List.mem_filter.1 ((withDropped_tables_perm v ids).mem_iff.1 h)).1

theorem c07_tight_withNewL0Run {v : Version K} (hv : c07Tight v) {nt : Run K}
    (hnt : ∀ tb ∈ nt, tableMetaOk tb = true) : c07Tight (v.withNewL0Run nt) := by
  intro tb htb
  rcases c07_mem_withNewL0Run htb with h | h
  · exact hnt tb h
  · exact hv tb h

theorem c07_tight_withMerge {v : Version K} (hv : c07Tight v) (ids : List Nat) {nt : Run K} (dest : Nat)
    (hnt : ∀ tb ∈ nt, tableMetaOk tb = true) : c07Tight (v.withMerge ids nt dest) := by
  intro tb htb
  rcases c07_mem_withMerge htb with h | h
  · exact hnt tb h
  · exact hv tb h

theorem c07_tight_withMoved {v : Version K} (hv : c07Tight v) (ids : List Nat) (dest : Nat) :
    c07Tight (v.withMoved ids dest) :=
  fun tb htb => hv tb (c07_mem_withMoved htb)

theorem c07_tight_withDropped {v : Version K} (hv : c07Tight v) (ids : List Nat) :
    c07Tight (v.withDropped ids) :=
  fun tb htb => hv tb (c07_mem_withDropped htb)

theorem c07_tight_empty (id n : Nat) : c07Tight (Version.empty id n : Version K) := by
  intro tb htb
  rw [version_empty_tables] at htb
  cases htb

/-! ### the latest version stays tight under EVERY operation of the model -/

/-- the tables of the latest super version carry their exact key range -/
def c07LatestTight (t : TreeState K) : Prop := ∀ sv, t.latest? = some sv → c07Tight sv.version

theorem c07_install_latest_tight (t : TreeState K) (sv : SuperVersion K) (wm : Nat) (h : c07Tight sv.version) :
    c07LatestTight (t.install sv wm) := by
  intro sv' hsv'
  rw [latest_install] at hsv'
  cases hsv'
  exact h

theorem c07_write_latest {t t' : TreeState K} {es : List (Entry K)} (h : t.write es = some t') :
    t'.hist = t.hist := by
  obtain ⟨a, _, rfl⟩ := write_cases h
  rfl

theorem c07_rotate_latest_tight {t : TreeState K} (h : c07LatestTight t) (n : Nat) :
    c07LatestTight (t.rotate n) := by
  rcases rotate_cases t n with he | ⟨r, sv, hr, he⟩
  · rw [he]; exact h
  · rw [he]
    intro sv' hsv'
    simp only [TreeState.latest?, List.getLast?_append, List.getLast?_singleton, Option.some_or,
      Option.some.injEq] at hsv'
    subst hsv'
    exact h sv (by simp [TreeState.latest?, hr])

theorem c07_flushSealed_latest_tight {t t' : TreeState K} {wm : Nat} {cuts : List (Nat × Nat)} {sep : Bool}
    (hf : t.flushSealed wm cuts sep = some t') (h : c07LatestTight t) : c07LatestTight t' := by
  unfold TreeState.flushSealed at hf
  split at hf
  · cases hf
  · next sv hl =>
    split at hf
    · split at hf
      · cases hf; exact h
      · cases hf
    · split at hf
      · cases hf
      · next tables hcut =>
        cases hf
        exact c07_install_latest_tight _ _ _ (c07_tight_withNewL0Run (h sv hl) (c07_cutTables_tight hcut))

theorem c07_flushCommit_latest_tight {t t' : TreeState K} {ids : List Nat} {wm : Nat} {cuts : List (Nat × Nat)}
    (hf : t.flushCommit ids wm cuts = some t') (h : c07LatestTight t) : c07LatestTight t' := by
  unfold TreeState.flushCommit at hf
  split at hf
  · cases hf
  · next sv hl =>
    split at hf
    · cases hf
    · split at hf
      · cases hf; exact h
      · simp only at hf
        split at hf
        · cases hf
        · next tables hcut =>
          cases hf
          exact c07_install_latest_tight _ _ _ (c07_tight_withNewL0Run (h sv hl) (c07_cutTables_tight hcut))

theorem c07_mergeCommit_latest_tight {t t' : TreeState K} {ids : List Nat} {dest wm : Nat}
    {f : Entry K → Verdict} {cuts : List (Nat × Nat)} (hm : t.mergeCommit ids dest wm f cuts = some t')
    (h : c07LatestTight t) : c07LatestTight t' := by
  unfold TreeState.mergeCommit at hm
  split at hm
  · cases hm
  · next sv hl =>
    simp only at hm
    split at hm
    · cases hm
    · next tables hcut =>
      cases hm
      exact c07_install_latest_tight _ _ _ (c07_tight_withMerge (h sv hl) ids dest (c07_cutTables_tight hcut))

theorem c07_moveCommit_latest_tight {t t' : TreeState K} {ids : List Nat} {dest wm : Nat}
    (hm : t.moveCommit ids dest wm = some t') (h : c07LatestTight t) : c07LatestTight t' := by
  unfold TreeState.moveCommit at hm
  cases hl : t.latest? with
  | none => rw [hl] at hm; cases hm
  | some sv =>
    rw [hl] at hm
    cases hm
    exact c07_install_latest_tight _ _ _ (c07_tight_withMoved (h sv hl) ids dest)

theorem c07_dropCommit_latest_tight {t t' : TreeState K} {ids : List Nat} {wm : Nat}
    (hm : t.dropCommit ids wm = some t') (h : c07LatestTight t) : c07LatestTight t' := by
  unfold TreeState.dropCommit at hm
  cases hl : t.latest? with
  | none => rw [hl] at hm; cases hm
  | some sv =>
    rw [hl] at hm
    cases hm
    exact c07_install_latest_tight _ _ _ (c07_tight_withDropped (h sv hl) ids)

theorem c07_clear_latest_tight {t t' : TreeState K} {n : Nat} (hm : t.clear n = some t') : c07LatestTight t' := by
  unfold TreeState.clear at hm
  cases hl : t.latest? with
  | none => rw [hl] at hm; cases hm
  | some sv =>
    rw [hl] at hm
    cases hm
    exact c07_install_latest_tight _ _ _ (c07_tight_empty _ _)

theorem c07_ingestCommit_latest_tight {t t' : TreeState K} {items : List (Entry K)} {cuts : List (Nat × Nat)}
    (hm : t.ingestCommit items cuts = some t') (h : c07LatestTight t) : c07LatestTight t' := by
  unfold TreeState.ingestCommit at hm
  split at hm
  · cases hm
  · next sv hl =>
    simp only at hm
    split at hm
    · cases hm
    · next tables hcut =>
      cases hm
      exact c07_install_latest_tight _ _ _ (c07_tight_withNewL0Run (h sv hl) (c07_cutTables_tight hcut))

theorem c07_reopen_latest_tight {t t' : TreeState K} (hm : t.reopen = some t') (h : c07LatestTight t) :
    c07LatestTight t' := by
  unfold TreeState.reopen at hm
  cases hl : t.latest? with
  | none => rw [hl] at hm; cases hm
  | some sv =>
    rw [hl] at hm
    cases hm
    intro sv' hsv'
    simp only [TreeState.latest?, List.getLast?_singleton, Option.some.injEq] at hsv'
    subst hsv'
    exact h sv hl

/-- **exact key ranges are kept by every operation** (no side condition at all: tables only ever come out of
    `cutTables`, and `with_new_l0_run` / `with_merge` / `with_moved` / `with_dropped` / `optimize_runs` only
    move or remove tables) -/
theorem c07_applyOp_latest_tight {t t' : TreeState K} {op : Op K} (ha : t.applyOp op = some t')
    (h : c07LatestTight t) : c07LatestTight t' := by
  cases op with
  | write es =>
    intro sv hsv
    exact h sv (by rw [TreeState.latest?, ← c07_write_latest ha]; exact hsv)
  | rotate m =>
    simp only [TreeState.applyOp] at ha
    split at ha
    · cases ha; exact c07_rotate_latest_tight h m
    · cases ha
  | flush wm m cuts =>
    simp only [TreeState.applyOp] at ha
    split at ha
    · exact c07_flushSealed_latest_tight ha (c07_rotate_latest_tight h m)
    · cases ha
  | flushCommit ids wm cuts => exact c07_flushCommit_latest_tight ha h
  | merge ids dest wm f cuts => exact c07_mergeCommit_latest_tight ha h
  | move ids dest wm => exact c07_moveCommit_latest_tight ha h
  | drop ids wm => exact c07_dropCommit_latest_tight ha h
  | clear m =>
    simp only [TreeState.applyOp] at ha
    split at ha
    · exact c07_clear_latest_tight ha
    · cases ha
  | ingest m fc items cuts =>
    simp only [TreeState.applyOp] at ha
    split at ha
    · split at ha
      · next t1 h1 =>
        exact c07_ingestCommit_latest_tight ha (c07_flushSealed_latest_tight h1 (c07_rotate_latest_tight h m))
      · cases ha
    · cases ha
  | reopen => exact c07_reopen_latest_tight ha h

theorem c07_run_latest_tight {t t' : TreeState K} {ops : List (Op K)} (hr : t.run ops = some t')
    (h : c07LatestTight t) : c07LatestTight t' := by
  induction ops generalizing t with
  | nil => simp only [TreeState.run, Option.some.injEq] at hr; subst hr; exact h
  | cons op ops ih =>
    simp only [TreeState.run] at hr
    split at hr
    · next t1 h1 => exact ih hr (c07_applyOp_latest_tight h1 h)
    · cases hr

theorem c07_init_latest_tight (n : Nat) (b : Option Nat) : c07LatestTight (TreeState.init n b : TreeState K) := by
  intro sv hsv
  simp only [TreeState.init, TreeState.latest?, List.getLast?_singleton, Option.some.injEq] at hsv
  subst hsv
  exact c07_tight_empty _ _

/-! ## Part D: soundness of every published version -/

/-- ORD between two sources as a `Bool` (`newerThan` of `Ops.lean`) and as a statement about entries -/
theorem c07_newerThan_iff (a b : List (Entry K)) :
    newerThan a b = true ↔ ∀ x ∈ a, ∀ y ∈ b, x.key = y.key → y.seqno < x.seqno := by
  simp only [newerThan, List.all_eq_true, Bool.or_eq_true, Bool.not_eq_eq_eq_not, Bool.not_true,
    decide_eq_false_iff_not, decide_eq_true_eq]
  constructor
  · intro h x hx y hy hk
    rcases h x hx y hy with h | h
    · exact absurd hk h
    · exact h
  · intro h x hx y hy
    by_cases hk : x.key = y.key
    · exact Or.inr (h x hx y hy hk)
    · exact Or.inl hk

/-- what C07 says about ONE version (no memtables involved):
    RUN / distinct ids / covering ranges / sorted tables (`Version.WF`), per key strictly descending seqnos along
    the read order of the tables (ORD), and the exact recorded range of every table (META, exact form) -/
structure C07Sound (v : Version K) : Prop where
  wf : v.WF
  ord : ∀ k, Desc (tabHist v k)
  tight : c07Tight v

theorem c07_sound_empty (id n : Nat) : C07Sound (Version.empty id n : Version K) where
  wf := version_empty_WF id n
  ord := by intro k; rw [tabHist, version_empty_tables]; exact List.Pairwise.nil
  tight := c07_tight_empty id n

/-- the table part of ORD of a good super version -/
theorem c07_goodSv_tab_ord {t : TreeState K} {sv : SuperVersion K} (hg : GoodSv t sv) (k : K) :
    Desc (tabHist sv.version k) := by
  have h := hg.ord k
  rw [keyHist_eq, Desc, List.pairwise_append] at h
  exact h.2.1

/-- ORD between two tables: the table read first holds only newer versions of a shared key -/
theorem c07_version_read_order {v : Version K} (ho : ∀ k, Desc (tabHist v k)) {A B : TableM K}
    (hb : before v.tables A B) {x y : Entry K} (hx : x ∈ A.entries) (hy : y ∈ B.entries)
    (hk : x.key = y.key) : y.seqno < x.seqno := by
  obtain ⟨l1, l2, l3, hl⟩ := hb
  have h := ho y.key
  unfold Desc tabHist at h
  exact c07_flatMap_pairwise_cross h hl (mem_keyOf.2 ⟨hx, hk⟩) (mem_keyOf.2 ⟨hy, rfl⟩)

/-- ORD between a memtable and a table -/
theorem c07_goodSv_mem_vs_table {t : TreeState K} {sv : SuperVersion K} (hg : GoodSv t sv) {id : Nat}
    (hid : id ∈ sv.active :: sv.sealed) {tb : TableM K} (htb : tb ∈ sv.version.tables) {x y : Entry K}
    (hx : x ∈ t.mem id) (hy : y ∈ tb.entries) (hk : x.key = y.key) : y.seqno < x.seqno := by
  have h := hg.ord y.key
  rw [keyHist_eq, Desc, List.pairwise_append] at h
  apply h.2.2 x _ y (mem_tabHist.2 ⟨rfl, tb, htb, hy⟩)
  rw [mem_memHist]
  refine ⟨hk, ?_⟩
  rcases List.mem_cons.1 hid with rfl | hid
  · exact Or.inl hx
  · exact Or.inr ⟨id, hid, hx⟩

/-- ORD between the active memtable and a sealed one -/
theorem c07_goodSv_active_vs_sealed {t : TreeState K} {sv : SuperVersion K} (hg : GoodSv t sv) {id : Nat}
    (hid : id ∈ sv.sealed) {x y : Entry K} (hx : x ∈ t.mem sv.active) (hy : y ∈ t.mem id)
    (hk : x.key = y.key) : y.seqno < x.seqno := by
  have h := hg.ord y.key
  rw [keyHist_eq, Desc, List.pairwise_append] at h
  have h1 := h.1
  rw [memHist, List.pairwise_append] at h1
  apply h1.2.2 x (mem_keyOf.2 ⟨hx, hk⟩) y
  exact List.mem_flatMap.2 ⟨id, List.mem_reverse.2 hid, mem_keyOf.2 ⟨hy, rfl⟩⟩

/-- ORD between two sealed memtables (`sealed` is oldest first): the one sealed later is newer -/
theorem c07_goodSv_sealed_order {t : TreeState K} {sv : SuperVersion K} (hg : GoodSv t sv)
    {l1 l2 l3 : List Nat} {a b : Nat} (hl : sv.sealed = l1 ++ a :: l2 ++ b :: l3) {x y : Entry K}
    (hx : x ∈ t.mem b) (hy : y ∈ t.mem a) (hk : x.key = y.key) : y.seqno < x.seqno := by
  have h := sealed_desc hg y.key
  unfold Desc at h
  have hl' : sv.sealed.reverse = l3.reverse ++ b :: l2.reverse ++ a :: l1.reverse := by
    rw [hl]; simp
  exact c07_flatMap_pairwise_cross h hl' (mem_keyOf.2 ⟨hx, hk⟩) (mem_keyOf.2 ⟨hy, rfl⟩)

/-! ### which versions a step leaves in the history -/

/-- every history entry of `t'` carries the version of some history entry of `t` -/
def c07VersionsFrom (t t' : TreeState K) : Prop := ∀ sv' ∈ t'.hist, ∃ sv ∈ t.hist, sv'.version = sv.version

/-- every history entry of `t'` carries an old version or is the latest super version of `t'` -/
def c07HistStep (t t' : TreeState K) : Prop :=
  ∀ sv' ∈ t'.hist, (∃ sv ∈ t.hist, sv'.version = sv.version) ∨ t'.latest? = some sv'

theorem c07_versionsFrom_refl (t : TreeState K) : c07VersionsFrom t t := fun sv h => ⟨sv, h, rfl⟩

theorem c07_versionsFrom_of_hist_eq {t t' : TreeState K} (h : t'.hist = t.hist) : c07VersionsFrom t t' :=
  fun sv hsv => ⟨sv, h ▸ hsv, rfl⟩

theorem c07_versionsFrom_rotate (t : TreeState K) (n : Nat) : c07VersionsFrom t (t.rotate n) := by
  rcases rotate_cases t n with he | ⟨r, sv, hr, he⟩
  · rw [he]; exact c07_versionsFrom_refl t
  · rw [he]
    intro sv' hsv'
    simp only [List.mem_append, List.mem_singleton] at hsv'
    rcases hsv' with h | h
    · exact ⟨sv', by rw [hr]; exact List.mem_append_left _ h, rfl⟩
    · exact ⟨sv, by rw [hr]; simp, by rw [h]⟩

theorem c07_histStep_of_versionsFrom {t t' : TreeState K} (h : c07VersionsFrom t t') : c07HistStep t t' :=
  fun sv hsv => Or.inl (h sv hsv)

theorem c07_histStep_comp {t t1 t2 : TreeState K} (h1 : c07VersionsFrom t t1) (h2 : c07HistStep t1 t2) :
    c07HistStep t t2 := by
  intro sv hsv
  rcases h2 sv hsv with ⟨sv1, hsv1, e⟩ | h
  · obtain ⟨sv0, hsv0, e0⟩ := h1 sv1 hsv1
    exact Or.inl ⟨sv0, hsv0, e.trans e0⟩
  · exact Or.inr h

theorem c07_histStep_install (t : TreeState K) (sv : SuperVersion K) (wm : Nat) :
    c07HistStep t (t.install sv wm) := by
  intro sv' hsv'
  rw [install_hist] at hsv'
  have := (maintenance_sublist _ wm).subset hsv'
  rcases List.mem_append.1 this with h | h
  · exact Or.inl ⟨sv', h, rfl⟩
  · right
    rw [latest_install]
    simp only [List.mem_singleton] at h
    rw [h]

theorem c07_flushSealed_histStep {t t' : TreeState K} {wm : Nat} {cuts : List (Nat × Nat)} {sep : Bool}
    (hf : t.flushSealed wm cuts sep = some t') : c07HistStep t t' := by
  unfold TreeState.flushSealed at hf
  split at hf
  · cases hf
  · next sv hl =>
    split at hf
    · split at hf
      · cases hf; exact c07_histStep_of_versionsFrom (c07_versionsFrom_refl t)
      · cases hf
    · split at hf
      · cases hf
      · cases hf; exact c07_histStep_install _ _ _

theorem c07_flushCommit_histStep {t t' : TreeState K} {ids : List Nat} {wm : Nat} {cuts : List (Nat × Nat)}
    (hf : t.flushCommit ids wm cuts = some t') : c07HistStep t t' := by
  unfold TreeState.flushCommit at hf
  split at hf
  · cases hf
  · next sv hl =>
    split at hf
    · cases hf
    · split at hf
      · cases hf; exact c07_histStep_of_versionsFrom (c07_versionsFrom_refl t)
      · simp only at hf
        split at hf
        · cases hf
        · cases hf; exact c07_histStep_install _ _ _

theorem c07_mergeCommit_histStep {t t' : TreeState K} {ids : List Nat} {dest wm : Nat}
    {f : Entry K → Verdict} {cuts : List (Nat × Nat)} (hm : t.mergeCommit ids dest wm f cuts = some t') :
    c07HistStep t t' := by
  unfold TreeState.mergeCommit at hm
  split at hm
  · cases hm
  · simp only at hm
    split at hm
    · cases hm
    · cases hm; exact c07_histStep_install _ _ _

theorem c07_map_install_histStep {t t' : TreeState K} {g : SuperVersion K → SuperVersion K} {wm : Nat}
    (hm : t.latest?.map (fun sv => t.install (g sv) wm) = some t') : c07HistStep t t' := by
  cases hl : t.latest? with
  | none => rw [hl] at hm; cases hm
  | some sv => rw [hl] at hm; cases hm; exact c07_histStep_install _ _ _

theorem c07_clear_histStep {t t' : TreeState K} {n : Nat} (hm : t.clear n = some t') : c07HistStep t t' := by
  unfold TreeState.clear at hm
  cases hl : t.latest? with
  | none => rw [hl] at hm; cases hm
  | some sv =>
    rw [hl] at hm
    cases hm
    exact c07_histStep_install
      { t with mems := t.mems ++ [({ id := n, entries := [] } : MemtableM K)] } _ _

theorem c07_reopen_histStep {t t' : TreeState K} (hm : t.reopen = some t') : c07HistStep t t' := by
  unfold TreeState.reopen at hm
  cases hl : t.latest? with
  | none => rw [hl] at hm; cases hm
  | some sv =>
    rw [hl] at hm
    cases hm
    intro sv' hsv'
    simp only [List.mem_singleton] at hsv'
    right
    rw [hsv']
    rfl

/-- after one operation other than a bulk ingestion (which installs twice) every history entry carries a version
    that was already in the history, or it is the new latest super version -/
theorem c07_applyOp_histStep {t t' : TreeState K} {op : Op K} (ha : t.applyOp op = some t')
    (hni : ∀ m fc items cuts, op ≠ .ingest m fc items cuts) : c07HistStep t t' := by
  cases op with
  | write es => exact c07_histStep_of_versionsFrom (c07_versionsFrom_of_hist_eq (c07_write_latest ha))
  | rotate m =>
    simp only [TreeState.applyOp] at ha
    split at ha
    · cases ha; exact c07_histStep_of_versionsFrom (c07_versionsFrom_rotate t m)
    · cases ha
  | flush wm m cuts =>
    simp only [TreeState.applyOp] at ha
    split at ha
    · exact c07_histStep_comp (c07_versionsFrom_rotate t m) (c07_flushSealed_histStep ha)
    · cases ha
  | flushCommit ids wm cuts => exact c07_flushCommit_histStep ha
  | merge ids dest wm f cuts => exact c07_mergeCommit_histStep ha
  | move ids dest wm => exact c07_map_install_histStep (g := fun sv => { sv with version := sv.version.withMoved ids dest }) ha
  | drop ids wm => exact c07_map_install_histStep (g := fun sv => { sv with version := sv.version.withDropped ids }) ha
  | clear m =>
    simp only [TreeState.applyOp] at ha
    split at ha
    · exact c07_clear_histStep ha
    · cases ha
  | ingest m fc items cuts => exact absurd rfl (hni m fc items cuts)
  | reopen => exact c07_reopen_histStep ha

/-- one guarded step: if every history entry carried a sound version, it still does -/
theorem c07_step_hist_sound {t t' : TreeState K} {op : Op K} (hg : Good t) (hok : okStep t op)
    (ha : t.applyOp op = some t') (hh : ∀ sv ∈ t.hist, C07Sound sv.version) :
    ∀ sv ∈ t'.hist, C07Sound sv.version := by
  have hg' := (applyOp_good hg hok ha).1
  have hstep : c07HistStep t t' := by
    apply c07_applyOp_histStep ha
    intro m fc items cuts e
    subst e
    exact hok
  have htight : c07LatestTight t' :=
    c07_applyOp_latest_tight ha (fun sv hsv => (hh sv (latest_mem_hist hsv)).tight)
  intro sv' hsv'
  rcases hstep sv' hsv' with ⟨sv, hsv, e⟩ | hl
  · rw [e]; exact hh sv hsv
  · obtain ⟨sv, hl2, hgs, _⟩ := hg'.sv
    rw [hl] at hl2
    cases hl2
    exact ⟨hgs.vwf, c07_goodSv_tab_ord hgs, htight sv' hl⟩

/-- along a guarded run every history entry keeps carrying a sound version -/
theorem c07_reach_hist_sound {t t' : TreeState K} {ops : List (Op K)} (hr : Reach t ops t') (hg : Good t)
    (hh : ∀ sv ∈ t.hist, C07Sound sv.version) : ∀ sv ∈ t'.hist, C07Sound sv.version := by
  induction hr with
  | refl t => exact hh
  | step hok ha _ ih => exact ih (applyOp_good hg hok ha).1 (c07_step_hist_sound hg hok ha hh)

theorem c07_init_hist_sound (n : Nat) (b : Option Nat) :
    ∀ sv ∈ (TreeState.init n b : TreeState K).hist, C07Sound sv.version := by
  intro sv hsv
  simp only [TreeState.init, List.mem_singleton] at hsv
  subst hsv
  exact c07_sound_empty 0 n

/-! ### the executable invariant `TreeState.invOf` (SORT ∧ META ∧ RUN ∧ ORD) of the harness -/

theorem c07_good_latest {t : TreeState K} {sv : SuperVersion K} (hg : Good t) (hl : t.latest? = some sv) :
    GoodSv t sv := by
  obtain ⟨sv', hl', hgs, _⟩ := hg.sv
  rw [hl] at hl'
  cases hl'
  exact hgs

theorem c07_ordOk_iff (srcs : List (List (Entry K))) :
    ordOk srcs = true ↔ srcs.Pairwise (fun a b => newerThan a b = true) := by
  induction srcs with
  | nil => simp [ordOk]
  | cons a rest ih =>
    simp only [ordOk, Bool.and_eq_true, List.all_eq_true, ih, List.pairwise_cons]

/-- per key descending seqnos along the read order ⇒ ORD between every two sources -/
theorem c07_pairwise_newer_of_desc (srcs : List (List (Entry K)))
    (h : ∀ k, Desc (srcs.flatMap (keyOf k))) : srcs.Pairwise (fun a b => newerThan a b = true) := by
  induction srcs with
  | nil => exact List.Pairwise.nil
  | cons a rest ih =>
    rw [List.pairwise_cons]
    constructor
    · intro b hb
      rw [c07_newerThan_iff]
      intro x hx y hy hk
      have hk' := h y.key
      rw [List.flatMap_cons, Desc, List.pairwise_append] at hk'
      exact hk'.2.2 x (mem_keyOf.2 ⟨hx, hk⟩) y (List.mem_flatMap.2 ⟨b, hb, mem_keyOf.2 ⟨hy, rfl⟩⟩)
    · apply ih
      intro k
      have hk' := h k
      rw [List.flatMap_cons, Desc, List.pairwise_append] at hk'
      exact hk'.2.1

/-- the harness's per-super-version check finds nothing to complain about -/
theorem c07_invOf_none {t : TreeState K} {sv : SuperVersion K} (hwf : t.WF) (hg : GoodSv t sv)
    (ht : c07Tight sv.version) : t.invOf sv = none := by
  have h1 : sv.version.tables.all (fun tb => isSourceB tb.entries) = true := by
    rw [List.all_eq_true]
    intro tb htb
    exact (isSourceB_iff _).2 (hg.vwf.src tb htb)
  have h2 : (sv.active :: sv.sealed).all (fun id => isSourceB (t.mem id)) = true := by
    rw [List.all_eq_true]
    intro id _
    exact (isSourceB_iff _).2 (hwf.mem_source id)
  have h3 : sv.version.tables.all tableMetaOk = true := by
    rw [List.all_eq_true]
    exact ht
  have h4 : sv.version.runs.all runOkB = true := by
    rw [List.all_eq_true]
    intro r hr
    exact runOkB_iff.2 (hg.vwf.runs_ok r hr)
  have h5 : ordOk ((t.sources sv).map (·.2)) = true := by
    rw [c07_ordOk_iff]
    exact c07_pairwise_newer_of_desc _ hg.ord
  simp [TreeState.invOf, h1, h2, h3, h4, h5]

/-- all versions of one key stored in one run sit in a single table -/
theorem c07_run_key_versions_one_table {v : Version K} (hv : v.WF) {r : Run K} (hr : r ∈ v.runs)
    {a b : TableM K} (ha : a ∈ r) (hb : b ∈ r) {x y : Entry K} (hx : x ∈ a.entries) (hy : y ∈ b.entries)
    (hk : x.key = y.key) : a = b := by
  have c1 := hv.meta_ok a (c07_mem_tables_of_run hr ha) x hx
  have c2 := hv.meta_ok b (c07_mem_tables_of_run hr hb) y hy
  rw [hk] at c1
  exact c07_run_one_table_per_key (hv.runs_ok r hr).sorted ha hb c1 c2

end Lsm
