import LsmModel.Tree.Manifest
import LsmModel.Lemmas.FrameLemmas
/-!
# Lemmas about the manifest codec (C04 / C07)

  * `decode…_encode…`  : reading what the writer wrote gives back the structure (and leaves nothing unread)
  * `…_sound`           : whatever the reader accepts IS the writer's image of what it returns (plus unread rest)
  * `encode…_inj`       : different structures have different bytes
  * `lastWins_perm`     : for duplicate-free record lists the recovered map does not depend on the file order
-/
namespace Lsm.Manifest
open Lsm.Frame

/-! ## fixed-width fields -/

theorem readLE_append {w n : Nat} (rest : Bytes) (h : n < 256 ^ w) :
    readLE w (leBytes w n ++ rest) = some (n, rest) := by
  have hl := leBytes_length w n
  unfold readLE
  rw [List.take_left' hl, List.drop_left' hl, leNat_leBytes_of_lt h]
  simp [hl]

theorem readLE_sound {w n : Nat} {bs r : Bytes} (h : readLE w bs = some (n, r)) :
    bs = leBytes w n ++ r ∧ n < 256 ^ w := by
  unfold readLE at h
  split at h
  · cases h
  · rename_i hlen
    simp only [Option.some.injEq, Prod.mk.injEq] at h
    obtain ⟨hn, hr⟩ := h
    have htl : (bs.take w).length = w := by simp; omega
    subst hn; subst hr
    refine ⟨?_, leNat_lt_of_length htl⟩
    rw [leBytes_leNat' htl, List.take_append_drop]

theorem readChecksumType_zero (r : Bytes) : readChecksumType ((0 : UInt8) :: r) = some r := by
  simp [readChecksumType, readLE, leNat]

theorem readChecksumType_sound {bs r : Bytes} (h : readChecksumType bs = some r) : bs = (0 : UInt8) :: r := by
  unfold readChecksumType at h
  split at h
  · cases h
  · rename_i ct r' hread
    split at h
    · rename_i hct
      cases h
      obtain ⟨hbs, _⟩ := readLE_sound hread
      subst hct
      rw [hbs]
      simp [leBytes]
    · cases h

/-! ## counted sequences -/

theorem decodeN_flatMap {α : Type} (enc : α → Bytes) (dec : Bytes → Option (α × Bytes)) (xs : List α) (rest : Bytes)
    (h : ∀ x ∈ xs, ∀ r, dec (enc x ++ r) = some (x, r)) :
    decodeN dec xs.length (xs.flatMap enc ++ rest) = some (xs, rest) := by
  induction xs with
  | nil => simp [decodeN]
  | cons x xs ih =>
    simp only [List.length_cons, List.flatMap_cons, List.append_assoc, decodeN]
    rw [h x (by simp)]
    simp only
    rw [ih (fun y hy r => h y (List.mem_cons_of_mem _ hy) r)]

theorem decodeN_sound {α : Type} (enc : α → Bytes) (dec : Bytes → Option (α × Bytes)) (P : α → Prop)
    (h : ∀ bs x r, dec bs = some (x, r) → bs = enc x ++ r ∧ P x) :
    ∀ (n : Nat) (bs : Bytes) (xs : List α) (r : Bytes), decodeN dec n bs = some (xs, r) →
      bs = xs.flatMap enc ++ r ∧ xs.length = n ∧ ∀ x ∈ xs, P x := by
  intro n
  induction n with
  | zero =>
    intro bs xs r hd
    simp only [decodeN, Option.some.injEq, Prod.mk.injEq] at hd
    obtain ⟨h1, h2⟩ := hd
    subst h1; subst h2
    simp
  | succ n ih =>
    intro bs xs r hd
    simp only [decodeN] at hd
    split at hd
    · cases hd
    · rename_i x r1 hx
      split at hd
      · cases hd
      · rename_i ys r2 hys
        simp only [Option.some.injEq, Prod.mk.injEq] at hd
        obtain ⟨h1, h2⟩ := hd
        subst h1; subst h2
        obtain ⟨hbs, hP⟩ := h bs x r1 hx
        obtain ⟨hr1, hlen, hall⟩ := ih r1 ys _ hys
        refine ⟨?_, by simp [hlen], ?_⟩
        · rw [hbs, hr1]; simp
        · intro y hy
          cases hy with
          | head => exact hP
          | tail _ hy => exact hall y hy

/-! ## width facts -/

theorem p8 : (256 : Nat) ^ 8 = 2 ^ 64 := by decide
theorem p16 : (256 : Nat) ^ 16 = 2 ^ 128 := by decide
theorem p4 : (256 : Nat) ^ 4 = 2 ^ 32 := by decide
theorem p1 : (256 : Nat) ^ 1 = 256 := by decide

/-! ## tables -/

theorem decodeTable_encodeTable (t : TableRef) (ht : t.Bounded) (rest : Bytes) :
    decodeTable (encodeTable t ++ rest) = some (t, rest) := by
  obtain ⟨h1, h2, h3⟩ := ht
  unfold decodeTable encodeTable
  simp only [List.append_assoc]
  rw [readLE_append _ (by rw [p8]; exact h1)]
  simp only [List.singleton_append]
  rw [readChecksumType_zero]
  simp only
  rw [readLE_append _ (by rw [p16]; exact h2)]
  simp only
  rw [readLE_append _ (by rw [p8]; exact h3)]

theorem decodeTable_sound (bs : Bytes) (t : TableRef) (r : Bytes) (h : decodeTable bs = some (t, r)) :
    bs = encodeTable t ++ r ∧ t.Bounded := by
  unfold decodeTable at h
  split at h
  · cases h
  · rename_i id r1 h1
    split at h
    · cases h
    · rename_i r2 h2
      split at h
      · cases h
      · rename_i ck r3 h3
        split at h
        · cases h
        · rename_i g r4 h4
          simp only [Option.some.injEq, Prod.mk.injEq] at h
          obtain ⟨ht, hr⟩ := h
          subst ht; subst hr
          obtain ⟨e1, b1⟩ := readLE_sound h1
          have e2 := readChecksumType_sound h2
          obtain ⟨e3, b3⟩ := readLE_sound h3
          obtain ⟨e4, b4⟩ := readLE_sound h4
          refine ⟨?_, ?_⟩
          · rw [e1, e2, e3, e4]; simp [encodeTable]
          · exact ⟨by rw [← p8]; exact b1, by rw [← p16]; exact b3, by rw [← p8]; exact b4⟩

theorem decodeRun_encodeRun (r : RunRefs) (hr : RunBounded r) (rest : Bytes) :
    decodeRun (encodeRun r ++ rest) = some (r, rest) := by
  unfold decodeRun encodeRun
  rw [List.append_assoc, readLE_append _ (by rw [p4]; exact hr.1)]
  exact decodeN_flatMap encodeTable decodeTable r rest (fun t ht => decodeTable_encodeTable t (hr.2 t ht))

theorem decodeRun_sound (bs : Bytes) (r : RunRefs) (rest : Bytes) (h : decodeRun bs = some (r, rest)) :
    bs = encodeRun r ++ rest ∧ RunBounded r := by
  unfold decodeRun at h
  split at h
  · cases h
  · rename_i n r1 h1
    obtain ⟨e1, b1⟩ := readLE_sound h1
    obtain ⟨e2, hlen, hall⟩ := decodeN_sound encodeTable decodeTable TableRef.Bounded decodeTable_sound n r1 r rest h
    refine ⟨?_, ?_, hall⟩
    · rw [e1, e2, encodeRun, hlen]; simp
    · rw [hlen, ← p4]; exact b1

theorem decodeLevel_encodeLevel (l : LevelRefs) (hl : LevelBounded l) (rest : Bytes) :
    decodeLevel (encodeLevel l ++ rest) = some (l, rest) := by
  unfold decodeLevel encodeLevel
  rw [List.append_assoc, readLE_append _ (by rw [p1]; exact hl.1)]
  exact decodeN_flatMap encodeRun decodeRun l rest (fun r hr => decodeRun_encodeRun r (hl.2 r hr))

theorem decodeLevel_sound (bs : Bytes) (l : LevelRefs) (rest : Bytes) (h : decodeLevel bs = some (l, rest)) :
    bs = encodeLevel l ++ rest ∧ LevelBounded l := by
  unfold decodeLevel at h
  split at h
  · cases h
  · rename_i n r1 h1
    obtain ⟨e1, b1⟩ := readLE_sound h1
    obtain ⟨e2, hlen, hall⟩ := decodeN_sound encodeRun decodeRun RunBounded decodeRun_sound n r1 l rest h
    refine ⟨?_, ?_, hall⟩
    · rw [e1, e2, encodeLevel, hlen]; simp
    · rw [hlen, ← p1]; exact b1

theorem decodeTablesPrefix_encodeTables (lv : Levels) (h : LevelsBounded lv) (rest : Bytes) :
    decodeTablesPrefix (encodeTables lv ++ rest) = some (lv, rest) := by
  unfold decodeTablesPrefix encodeTables
  rw [List.append_assoc, readLE_append _ (by rw [p1]; exact h.1)]
  exact decodeN_flatMap encodeLevel decodeLevel lv rest (fun l hl => decodeLevel_encodeLevel l (h.2 l hl))

theorem decodeTablesPrefix_sound (bs : Bytes) (lv : Levels) (rest : Bytes)
    (h : decodeTablesPrefix bs = some (lv, rest)) : bs = encodeTables lv ++ rest ∧ LevelsBounded lv := by
  unfold decodeTablesPrefix at h
  split at h
  · cases h
  · rename_i n r1 h1
    obtain ⟨e1, b1⟩ := readLE_sound h1
    obtain ⟨e2, hlen, hall⟩ := decodeN_sound encodeLevel decodeLevel LevelBounded decodeLevel_sound n r1 lv rest h
    refine ⟨?_, ?_, hall⟩
    · rw [e1, e2, encodeTables, hlen]; simp
    · rw [hlen, ← p1]; exact b1

theorem decodeTables_encodeTables (lv : Levels) (h : LevelsBounded lv) : decodeTables (encodeTables lv) = some lv := by
  have := decodeTablesPrefix_encodeTables lv h []
  rw [List.append_nil] at this
  simp [decodeTables, this]

theorem decodeTables_sound (bs : Bytes) (lv : Levels) (h : decodeTables bs = some lv) :
    bs = encodeTables lv ∧ LevelsBounded lv := by
  unfold decodeTables at h
  split at h
  · rename_i lv' hp
    cases h
    have := decodeTablesPrefix_sound bs lv [] hp
    simpa using this
  · cases h

theorem encodeTables_inj (a b : Levels) (ha : LevelsBounded a) (hb : LevelsBounded b)
    (h : encodeTables a = encodeTables b) : a = b := by
  have h1 := decodeTables_encodeTables a ha
  rw [h, decodeTables_encodeTables b hb] at h1
  exact (Option.some.inj h1).symm

/-! ## blob files -/

theorem decodeBlob_encodeBlob (b : BlobRef) (hb : b.Bounded) (rest : Bytes) :
    decodeBlob (encodeBlob b ++ rest) = some (b, rest) := by
  obtain ⟨h1, h2⟩ := hb
  unfold decodeBlob encodeBlob
  simp only [List.append_assoc]
  rw [readLE_append _ (by rw [p8]; exact h1)]
  simp only [List.singleton_append]
  rw [readChecksumType_zero]
  simp only
  rw [readLE_append _ (by rw [p16]; exact h2)]

theorem decodeBlob_sound (bs : Bytes) (b : BlobRef) (r : Bytes) (h : decodeBlob bs = some (b, r)) :
    bs = encodeBlob b ++ r ∧ b.Bounded := by
  unfold decodeBlob at h
  split at h
  · cases h
  · rename_i id r1 h1
    split at h
    · cases h
    · rename_i r2 h2
      split at h
      · cases h
      · rename_i ck r3 h3
        simp only [Option.some.injEq, Prod.mk.injEq] at h
        obtain ⟨ht, hr⟩ := h
        subst ht; subst hr
        obtain ⟨e1, b1⟩ := readLE_sound h1
        have e2 := readChecksumType_sound h2
        obtain ⟨e3, b3⟩ := readLE_sound h3
        refine ⟨?_, ?_⟩
        · rw [e1, e2, e3]; simp [encodeBlob]
        · exact ⟨by rw [← p8]; exact b1, by rw [← p16]; exact b3⟩

theorem decodeBlobsPrefix_encodeBlobs (l : List BlobRef) (h : BlobsBounded l) (rest : Bytes) :
    decodeBlobsPrefix (encodeBlobs l ++ rest) = some (l, rest) := by
  unfold decodeBlobsPrefix encodeBlobs
  rw [List.append_assoc, readLE_append _ (by rw [p4]; exact h.1)]
  exact decodeN_flatMap encodeBlob decodeBlob l rest (fun b hb => decodeBlob_encodeBlob b (h.2 b hb))

theorem decodeBlobsPrefix_sound (bs : Bytes) (l : List BlobRef) (rest : Bytes)
    (h : decodeBlobsPrefix bs = some (l, rest)) : bs = encodeBlobs l ++ rest ∧ BlobsBounded l := by
  unfold decodeBlobsPrefix at h
  split at h
  · cases h
  · rename_i n r1 h1
    obtain ⟨e1, b1⟩ := readLE_sound h1
    obtain ⟨e2, hlen, hall⟩ := decodeN_sound encodeBlob decodeBlob BlobRef.Bounded decodeBlob_sound n r1 l rest h
    refine ⟨?_, ?_, hall⟩
    · rw [e1, e2, encodeBlobs, hlen]; simp
    · rw [hlen, ← p4]; exact b1

theorem decodeBlobs_encodeBlobs (l : List BlobRef) (h : BlobsBounded l) : decodeBlobs (encodeBlobs l) = some l := by
  have := decodeBlobsPrefix_encodeBlobs l h []
  rw [List.append_nil] at this
  simp [decodeBlobs, this]

theorem decodeBlobs_sound (bs : Bytes) (l : List BlobRef) (h : decodeBlobs bs = some l) :
    bs = encodeBlobs l ∧ BlobsBounded l := by
  unfold decodeBlobs at h
  split at h
  · rename_i l' hp
    cases h
    have := decodeBlobsPrefix_sound bs l [] hp
    simpa using this
  · cases h

theorem encodeBlobs_inj (a b : List BlobRef) (ha : BlobsBounded a) (hb : BlobsBounded b)
    (h : encodeBlobs a = encodeBlobs b) : a = b := by
  have h1 := decodeBlobs_encodeBlobs a ha
  rw [h, decodeBlobs_encodeBlobs b hb] at h1
  exact (Option.some.inj h1).symm

/-! ## gc statistics -/

theorem decodeFragEntry_encodeFragEntry (e : FragEntry) (he : e.Bounded) (rest : Bytes) :
    decodeFragEntry (encodeFragEntry e ++ rest) = some (e, rest) := by
  obtain ⟨h1, h2, h3, h4⟩ := he
  unfold decodeFragEntry encodeFragEntry
  simp only [List.append_assoc]
  rw [readLE_append _ (by rw [p8]; exact h1)]
  simp only
  rw [readLE_append _ (by rw [p4]; exact h2)]
  simp only
  rw [readLE_append _ (by rw [p8]; exact h3)]
  simp only
  rw [readLE_append _ (by rw [p8]; exact h4)]

theorem decodeFragEntry_sound (bs : Bytes) (e : FragEntry) (r : Bytes) (h : decodeFragEntry bs = some (e, r)) :
    bs = encodeFragEntry e ++ r ∧ e.Bounded := by
  unfold decodeFragEntry at h
  split at h
  · cases h
  · rename_i id r1 h1
    split at h
    · cases h
    · rename_i len r2 h2
      split at h
      · cases h
      · rename_i b r3 h3
        split at h
        · cases h
        · rename_i d r4 h4
          simp only [Option.some.injEq, Prod.mk.injEq] at h
          obtain ⟨ht, hr⟩ := h
          subst ht; subst hr
          obtain ⟨e1, b1⟩ := readLE_sound h1
          obtain ⟨e2, b2⟩ := readLE_sound h2
          obtain ⟨e3, b3⟩ := readLE_sound h3
          obtain ⟨e4, b4⟩ := readLE_sound h4
          refine ⟨?_, ?_⟩
          · rw [e1, e2, e3, e4]; simp [encodeFragEntry]
          · exact ⟨by rw [← p8]; exact b1, by rw [← p4]; exact b2, by rw [← p8]; exact b3, by rw [← p8]; exact b4⟩

theorem decodeFragPrefix_encodeFrag (l : List FragEntry) (h : FragBounded l) (rest : Bytes) :
    decodeFragPrefix (encodeFrag l ++ rest) = some (l, rest) := by
  unfold decodeFragPrefix encodeFrag
  rw [List.append_assoc, readLE_append _ (by rw [p4]; exact h.1)]
  exact decodeN_flatMap encodeFragEntry decodeFragEntry l rest
    (fun e he => decodeFragEntry_encodeFragEntry e (h.2 e he))

theorem decodeFragPrefix_sound (bs : Bytes) (l : List FragEntry) (rest : Bytes)
    (h : decodeFragPrefix bs = some (l, rest)) : bs = encodeFrag l ++ rest ∧ FragBounded l := by
  unfold decodeFragPrefix at h
  split at h
  · cases h
  · rename_i n r1 h1
    obtain ⟨e1, b1⟩ := readLE_sound h1
    obtain ⟨e2, hlen, hall⟩ :=
      decodeN_sound encodeFragEntry decodeFragEntry FragEntry.Bounded decodeFragEntry_sound n r1 l rest h
    refine ⟨?_, ?_, hall⟩
    · rw [e1, e2, encodeFrag, hlen]; simp
    · rw [hlen, ← p4]; exact b1

theorem decodeFrag_encodeFrag (l : List FragEntry) (h : FragBounded l) : decodeFrag (encodeFrag l) = some l := by
  have := decodeFragPrefix_encodeFrag l h []
  rw [List.append_nil] at this
  simp [decodeFrag, this]

theorem decodeFrag_sound (bs : Bytes) (l : List FragEntry) (h : decodeFrag bs = some l) :
    bs = encodeFrag l ∧ FragBounded l := by
  unfold decodeFrag at h
  split at h
  · rename_i l' hp
    cases h
    have := decodeFragPrefix_sound bs l [] hp
    simpa using this
  · cases h

theorem encodeFrag_inj (a b : List FragEntry) (ha : FragBounded a) (hb : FragBounded b)
    (h : encodeFrag a = encodeFrag b) : a = b := by
  have h1 := decodeFrag_encodeFrag a ha
  rw [h, decodeFrag_encodeFrag b hb] at h1
  exact (Option.some.inj h1).symm

/-! ## whole image -/

theorem decodeImage_encodeImage (v : VersionImage) (h : v.Bounded) : decodeImage (encodeImage v) = some v := by
  obtain ⟨h1, h2, h3⟩ := h
  simp [decodeImage, encodeImage, decodeTables_encodeTables _ h1, decodeBlobs_encodeBlobs _ h2,
    decodeFrag_encodeFrag _ h3]

theorem decodeImage_sound (s : Sections) (v : VersionImage) (h : decodeImage s = some v) :
    s = encodeImage v ∧ v.Bounded := by
  unfold decodeImage at h
  split at h
  · rename_i lv b f h1 h2 h3
    cases h
    obtain ⟨e1, b1⟩ := decodeTables_sound _ _ h1
    obtain ⟨e2, b2⟩ := decodeBlobs_sound _ _ h2
    obtain ⟨e3, b3⟩ := decodeFrag_sound _ _ h3
    refine ⟨?_, b1, b2, b3⟩
    cases s
    simp_all [encodeImage]
  · cases h

theorem encodeImage_inj (a b : VersionImage) (ha : a.Bounded) (hb : b.Bounded)
    (h : encodeImage a = encodeImage b) : a = b := by
  have h1 := decodeImage_encodeImage a ha
  rw [h, decodeImage_encodeImage b hb] at h1
  exact (Option.some.inj h1).symm

/-! ## the recovered maps do not depend on the file order -/

theorem foldl_lastWins_spec {α : Type} (key : α → Nat) (l : List α) (m : Nat → Option α) (i : Nat) (e : α)
    (hd : l.Pairwise (fun a b => key a ≠ key b)) :
    (l.foldl (fun m e => fun i => if i = key e then some e else m i) m) i = some e ↔
      (e ∈ l ∧ key e = i) ∨ (m i = some e ∧ ∀ x ∈ l, key x ≠ i) := by
  induction l generalizing m with
  | nil => simp
  | cons a l ih =>
    rw [List.pairwise_cons] at hd
    rw [List.foldl_cons, ih _ hd.2]
    constructor
    · rintro (⟨hm, hk⟩ | ⟨hm, hall⟩)
      · exact Or.inl ⟨List.mem_cons_of_mem _ hm, hk⟩
      · by_cases hi : i = key a
        · simp only [hi, if_true, Option.some.injEq] at hm
          subst hm
          exact Or.inl ⟨List.mem_cons_self, hi.symm⟩
        · simp only [hi, if_false] at hm
          refine Or.inr ⟨hm, ?_⟩
          intro x hx
          cases hx with
          | head => exact fun h => hi h.symm
          | tail _ hx => exact hall x hx
    · rintro (⟨hm, hk⟩ | ⟨hm, hall⟩)
      · cases hm with
        | head =>
          refine Or.inr ⟨by simp [hk], ?_⟩
          intro x hx hxk
          exact hd.1 x hx (by rw [hk, hxk])
        | tail _ hm => exact Or.inl ⟨hm, hk⟩
      · have hai : key a ≠ i := hall a List.mem_cons_self
        refine Or.inr ⟨?_, fun x hx => hall x (List.mem_cons_of_mem _ hx)⟩
        have : ¬ i = key a := fun h => hai h.symm
        simp [this, hm]

theorem lastWins_spec {α : Type} (key : α → Nat) (l : List α) (i : Nat) (e : α)
    (hd : l.Pairwise (fun a b => key a ≠ key b)) :
    lastWins key l i = some e ↔ e ∈ l ∧ key e = i := by
  unfold lastWins
  rw [foldl_lastWins_spec key l _ i e hd]
  simp

/-- For duplicate-free record lists the map recovery builds depends only on the SET of records:
    any file order (any `HashMap` iteration order of the writer) recovers the same map. -/
theorem lastWins_perm {α : Type} (key : α → Nat) (a b : List α) (hp : a.Perm b)
    (hd : a.Pairwise (fun x y => key x ≠ key y)) (i : Nat) : lastWins key a i = lastWins key b i := by
  have hdb : b.Pairwise (fun x y => key x ≠ key y) :=
    hp.pairwise hd (fun h => fun h' => h h'.symm)
  have hiff : ∀ e, lastWins key a i = some e ↔ lastWins key b i = some e := by
    intro e
    rw [lastWins_spec key a i e hd, lastWins_spec key b i e hdb, hp.mem_iff]
  cases ha : lastWins key a i with
  | none =>
    cases hb : lastWins key b i with
    | none => rfl
    | some e => rw [← hiff e] at hb; rw [ha] at hb; cases hb
  | some e => exact ((hiff e).1 ha).symm

/-- the records present in the map are exactly the records of the (duplicate-free) list -/
theorem fragMap_spec (l : List FragEntry) (hd : l.Pairwise (fun a b => a.id ≠ b.id)) (i : Nat) (e : FragEntry) :
    fragMap l i = some e ↔ e ∈ l ∧ e.id = i := lastWins_spec (fun x : FragEntry => x.id) l i e hd

theorem blobMap_spec (l : List BlobRef) (hd : l.Pairwise (fun a b => a.id ≠ b.id)) (i : Nat) (e : BlobRef) :
    blobMap l i = some e ↔ e ∈ l ∧ e.id = i := lastWins_spec (fun x : BlobRef => x.id) l i e hd

/-- the executable duplicate test decides `BlobIdsDistinct` -/
theorem blobIdsDistinct_iff (l : List BlobRef) : blobIdsDistinct l = true ↔ BlobIdsDistinct l := by
  unfold BlobIdsDistinct
  induction l with
  | nil => simp [blobIdsDistinct]
  | cons b r ih =>
    simp only [blobIdsDistinct, Bool.and_eq_true, Bool.not_eq_true', List.pairwise_cons, ih]
    constructor
    · rintro ⟨h1, h2⟩
      refine ⟨?_, h2⟩
      intro x hx hbx
      have : r.any (fun x => x.id == b.id) = true := List.any_eq_true.2 ⟨x, hx, by simp [hbx]⟩
      rw [h1] at this
      cases this
    · rintro ⟨h1, h2⟩
      refine ⟨?_, h2⟩
      cases hany : r.any (fun x => x.id == b.id) with
      | false => rfl
      | true =>
        obtain ⟨x, hx, hxe⟩ := List.any_eq_true.1 hany
        exact absurd (by simpa using hxe : x.id = b.id).symm (h1 x hx)

end Lsm.Manifest
