import LsmModel.Table.Meta
import LsmModel.Lemmas.CodecLemmas
import LsmModel.Lemmas.ManifestLemmas
/-!
# Lemmas about the table META block (`LsmModel.Table.Meta`)
-/
namespace Lsm.Meta
open Lsm
open Lsm.Frame (leBytes leNat)
open Lsm.Manifest (readLE readLE_append)

/-- the writer's `debug_assert!(is_sorted)`: the 29 property names are strictly ascending, whatever the values -/
theorem names_ascending (m : TableMeta) : ascending ((metaItems m).map (·.key)) = true := by
  simp only [metaItems, item, List.map]
  decide

/-- every item is a plain value with seqno 0 (so the block codec's well-formedness condition is trivially met) -/
theorem metaItems_wf (m : TableMeta) : ∀ e ∈ metaItems m, Codec.WfEntry e := by
  intro e he
  simp only [metaItems, item, List.mem_cons, List.mem_nil_iff, or_false] at he
  intro ht
  rcases he with h | h | h | h | h | h | h | h | h | h | h | h | h | h | h | h | h | h | h | h | h | h | h | h | h | h | h | h | h <;>
    (subst h; simp [Entry.isTomb] at ht)

theorem metaItems_length (m : TableMeta) : (metaItems m).length = 29 := rfl

section lookups
variable (m : TableMeta)
theorem lk_tableVersion : lookup kTableVersion (metaItems m) = some [3] := by rfl
theorem lk_filterHashType : lookup kFilterHashType (metaItems m) = some [0] := by rfl
theorem lk_checksumType : lookup kChecksumType (metaItems m) = some [0] := by rfl
theorem lk_riIndex : lookup kRestartIntervalIndex (metaItems m) = some (leBytes 1 m.riIndex) := by rfl
theorem lk_tableId : lookup kTableId (metaItems m) = some (leBytes 8 m.tableId) := by rfl
theorem lk_itemCount : lookup kItemCount (metaItems m) = some (leBytes 8 m.itemCount) := by rfl
theorem lk_tombstoneCount : lookup kTombstoneCount (metaItems m) = some (leBytes 8 m.tombstoneCount) := by rfl
theorem lk_blockCountData : lookup kBlockCountData (metaItems m) = some (leBytes 8 m.dataBlockCount) := by rfl
theorem lk_blockCountIndex : lookup kBlockCountIndex (metaItems m) = some (leBytes 8 m.indexBlockCount) := by rfl
theorem lk_blockCountFilter : lookup kBlockCountFilter (metaItems m) = some (leBytes 8 m.filterBlockCount) := by rfl
theorem lk_fileSize : lookup kFileSize (metaItems m) = some (leBytes 8 m.fileSize) := by rfl
theorem lk_weakCount : lookup kWeakTombstoneCount (metaItems m) = some (leBytes 8 m.weakTombstoneCount) := by rfl
theorem lk_weakReclaimable : lookup kWeakTombstoneReclaimable (metaItems m) = some (leBytes 8 m.weakReclaimable) := by rfl
theorem lk_createdAt : lookup kCreatedAt (metaItems m) = some (leBytes 16 m.createdAt) := by rfl
theorem lk_keyMin : lookup kKeyMin (metaItems m) = some m.keyMin := by rfl
theorem lk_keyMax : lookup kKeyMax (metaItems m) = some m.keyMax := by rfl
theorem lk_seqnoMin : lookup kSeqnoMin (metaItems m) = some (leBytes 8 m.seqnoMin) := by rfl
theorem lk_seqnoMax : lookup kSeqnoMax (metaItems m) = some (leBytes 8 m.seqnoMax) := by rfl
theorem lk_compData : lookup kCompressionData (metaItems m) = some [UInt8.ofNat m.dataCompression] := by rfl
theorem lk_compIndex : lookup kCompressionIndex (metaItems m) = some [UInt8.ofNat m.indexCompression] := by rfl
end lookups

theorem readLE_leBytes {w n : Nat} (h : n < 256 ^ w) : readLE w (leBytes w n) = some (n, []) := by
  have := readLE_append (w := w) (n := n) [] h
  simpa using this

theorem readField_of_lookup {w n : Nat} {name : Bytes} {items : List (Entry Bytes)}
    (hl : lookup name items = some (leBytes w n)) (h : n < 256 ^ w) : readField w name items = some n := by
  unfold readField
  rw [hl]
  simp [readLE_leBytes h]

theorem readCompression_of_lookup {n : Nat} {name : Bytes} {items : List (Entry Bytes)}
    (hl : lookup name items = some [UInt8.ofNat n]) (h : n < 2) : readCompression name items = some n := by
  unfold readCompression
  rw [hl]
  have : n = 0 ∨ n = 1 := by omega
  rcases this with rfl | rfl <;> decide

/-- **round trip at item level**: recovery reads back exactly the fields the writer recorded -/
theorem parseMeta_metaItems (m : TableMeta) (h : m.Bounded) : parseMeta (metaItems m) = some m.view := by
  obtain ⟨h1, h2, h3, h4, h5, h6, h7, h8, h9, h10, h11, h12, h13, h14, h15⟩ := h
  have p8 : (256 : Nat) ^ 8 = 2 ^ 64 := by decide
  have p16 : (256 : Nat) ^ 16 = 2 ^ 128 := by decide
  have ri : readField 1 kRestartIntervalIndex (metaItems m) = some 1 := by
    have := readField_of_lookup (w := 1) (lk_riIndex m) (by rw [h15]; decide)
    rw [this, h15]
  unfold parseMeta
  rw [lk_tableVersion, lk_filterHashType, lk_checksumType, ri]
  simp only [ne_eq, not_true_eq_false, if_false]
  rw [readField_of_lookup (lk_tableId m) (by omega), readField_of_lookup (lk_itemCount m) (by omega),
    readField_of_lookup (lk_tombstoneCount m) (by omega), readField_of_lookup (lk_blockCountData m) (by omega),
    readField_of_lookup (lk_blockCountIndex m) (by omega), readField_of_lookup (lk_blockCountFilter m) (by omega),
    readField_of_lookup (lk_fileSize m) (by omega), readField_of_lookup (lk_weakCount m) (by omega),
    readField_of_lookup (lk_weakReclaimable m) (by omega), readField_of_lookup (lk_createdAt m) (by omega),
    lk_keyMin, lk_keyMax, readField_of_lookup (lk_seqnoMin m) (by omega), readField_of_lookup (lk_seqnoMax m) (by omega),
    readCompression_of_lookup (lk_compData m) h4, readCompression_of_lookup (lk_compIndex m) h5]
  rfl

/-- **round trip at byte level**: the meta block the writer emits parses back to the recorded fields -/
theorem parseMetaBlock_encode (m : TableMeta) (h : m.Bounded) : parseMetaBlock (encodeMetaBlock m) = some m.view := by
  unfold parseMetaBlock encodeMetaBlock
  rw [Codec.block_roundtrip 1 (by omega) (by omega) (metaItems m) (metaItems_wf m)]
  exact parseMeta_metaItems m h

/-- the assertions of recovery: a meta block whose version / hash type / checksum type / index restart interval differ is rejected -/
theorem parseMeta_guards (items : List (Entry Bytes)) (p : Parsed) (h : parseMeta items = some p) :
    lookup kTableVersion items = some [3] ∧ lookup kFilterHashType items = some [0] ∧
    lookup kChecksumType items = some [0] ∧ readField 1 kRestartIntervalIndex items = some 1 := by
  unfold parseMeta at h
  split at h; · cases h
  split at h; · cases h
  split at h; · cases h
  split at h; · cases h
  rename_i a b c d
  exact ⟨Classical.not_not.mp a, Classical.not_not.mp b, Classical.not_not.mp c, Classical.not_not.mp d⟩

/-- what recovery returns is determined field by field by the FIRST item of each name (no other item matters) -/
theorem parseMeta_fields (items : List (Entry Bytes)) (p : Parsed) (h : parseMeta items = some p) :
    readField 8 kTableId items = some p.id ∧ readField 8 kSeqnoMin items = some p.seqnoMin ∧
    readField 8 kSeqnoMax items = some p.seqnoMax ∧ lookup kKeyMin items = some p.keyMin ∧
    lookup kKeyMax items = some p.keyMax ∧ readField 8 kItemCount items = some p.itemCount ∧
    readField 8 kTombstoneCount items = some p.tombstoneCount ∧ readField 8 kFileSize items = some p.fileSize := by
  unfold parseMeta at h
  split at h; · cases h
  split at h; · cases h
  split at h; · cases h
  split at h; · cases h
  split at h
  · rename_i e1 e2 e3 e4 e5 e6 e7 e8 e9 e10 e11 e12 e13 e14 e15 e16
    cases h
    exact ⟨e1, e13, e14, e11, e12, e2, e3, e7⟩
  · cases h

end Lsm.Meta
