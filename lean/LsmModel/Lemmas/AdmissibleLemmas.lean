import LsmModel.Lemmas.ContentLemmas2
import LsmModel.Lemmas.StrategyLemmas
/-
  LsmModel.Lemmas.AdmissibleLemmas — the modelled choice functions of the pure-logic compaction strategies
  (`majorChoose`, `pullDownChoose`, `moveDownChoose`; Tree/Strategy.lean) always produce `admissible` choices
  (Tree/Ops.lean), so for them the `admissible` hypothesis of C01 (`okStep`) is a theorem, not a monitored input.

  Layers:
  * `admissible_of_pos`    — converse of `admissible_spec`: the position condition for EVERY input / non-input pair
                             (sharing a key or not) implies `admissible`;
  * `admissible_of_levels` — the level-only sufficient condition: the inputs are exactly the tables of a set `L` of
                             levels, and every non-empty non-input level `j` and non-empty input level `i` satisfy
                             `(j < i ∧ j < dest) ∨ (evict = false ∧ i < j ∧ dest ≤ j)`. Run indexes never matter,
                             because a level is either all input or all non-input;
  * `major_admissible`, `pullDown_admissible`, `pullDown_admissible_evict`, `moveDown_admissible` — derived from it.
-/
namespace Lsm
set_option linter.unusedSectionVars false
set_option linter.unusedVariables false
variable {K : Type} [LT K] [DecidableLT K] [DecidableEq K]

/-! ## `tagged` and the levels of a version -/

theorem tagRuns_mem_table {li roff : Nat} {lvl : List (Run K)} {x : Nat × Nat × TableM K}
    (h : x ∈ tagRuns li roff lvl) : x.2.2 ∈ lvl.flatten := by
  rw [← tagRuns_map li roff lvl]
  exact List.mem_map.2 ⟨x, h, rfl⟩

theorem tagRuns_of_mem {li roff : Nat} {lvl : List (Run K)} {tb : TableM K} (h : tb ∈ lvl.flatten) :
    ∃ x ∈ tagRuns li roff lvl, x.1 = li ∧ x.2.2 = tb := by
  rw [← tagRuns_map li roff lvl, List.mem_map] at h
  obtain ⟨x, hx, hxt⟩ := h
  exact ⟨x, hx, (tagRuns_mem hx).1, hxt⟩

/-- a tagged table sits in the level its tag names -/
theorem tagLevels_mem_level {off : Nat} {L : List (List (Run K))} {x : Nat × Nat × TableM K}
    (h : x ∈ tagLevels off L) : ∃ lvl, L[x.1 - off]? = some lvl ∧ x.2.2 ∈ lvl.flatten := by
  induction L generalizing off with
  | nil => simp [tagLevels_nil] at h
  | cons lvl L ih =>
    rw [tagLevels_cons, List.mem_append] at h
    rcases h with h | h
    · refine ⟨lvl, ?_, tagRuns_mem_table h⟩
      rw [(tagRuns_mem h).1, Nat.sub_self]
      rfl
    · obtain ⟨lvl', hl, hm⟩ := ih h
      have hge := (tagLevels_mem h).1
      refine ⟨lvl', ?_, hm⟩
      have e : x.1 - off = (x.1 - (off + 1)) + 1 := by omega
      rw [e, List.getElem?_cons_succ]
      exact hl

/-- every table of level `i` appears in the tagged list with level tag `i` -/
theorem tagLevels_of_mem {off : Nat} {L : List (List (Run K))} {i : Nat} {lvl : List (Run K)} {tb : TableM K}
    (hl : L[i]? = some lvl) (ht : tb ∈ lvl.flatten) : ∃ x ∈ tagLevels off L, x.1 = i + off ∧ x.2.2 = tb := by
  induction L generalizing off i with
  | nil => simp at hl
  | cons l0 L ih =>
    rw [tagLevels_cons]
    cases i with
    | zero =>
      simp only [List.getElem?_cons_zero, Option.some.injEq] at hl
      subst hl
      obtain ⟨x, hx, h1, h2⟩ := tagRuns_of_mem (li := off) (roff := 0) ht
      exact ⟨x, List.mem_append_left _ hx, by omega, h2⟩
    | succ i =>
      rw [List.getElem?_cons_succ] at hl
      obtain ⟨x, hx, h1, h2⟩ := ih (off := off + 1) hl
      exact ⟨x, List.mem_append_right _ hx, by omega, h2⟩

theorem tagged_mem_levelTables {v : Version K} {x : Nat × Nat × TableM K} (h : x ∈ tagged v) :
    x.2.2 ∈ v.levelTables x.1 := by
  obtain ⟨lvl, hl, hm⟩ := tagLevels_mem_level h
  rw [Nat.sub_zero] at hl
  simp only [Version.levelTables, hl, Option.getD_some]
  exact hm

theorem tagged_of_levelTables {v : Version K} {i : Nat} {tb : TableM K} (h : tb ∈ v.levelTables i) :
    ∃ x ∈ tagged v, x.1 = i ∧ x.2.2 = tb := by
  unfold Version.levelTables at h
  cases hl : v.levels[i]? with
  | none => simp [hl] at h
  | some lvl =>
    rw [hl, Option.getD_some] at h
    obtain ⟨x, hx, h1, h2⟩ := tagLevels_of_mem (off := 0) hl h
    exact ⟨x, hx, by omega, h2⟩

theorem tagged_mem_tables {v : Version K} {x : Nat × Nat × TableM K} (h : x ∈ tagged v) : x.2.2 ∈ v.tables := by
  rw [← tagged_map v]
  exact List.mem_map.2 ⟨x, h, rfl⟩

theorem tagged_lvl_lt {v : Version K} {x : Nat × Nat × TableM K} (h : x ∈ tagged v) : x.1 < v.levels.length := by
  have := (tagLevels_mem h).2
  omega

theorem levelTables_of_ge (v : Version K) {i : Nat} (h : v.levels.length ≤ i) : v.levelTables i = [] := by
  simp [Version.levelTables, List.getElem?_eq_none h]

theorem levelTables_of_getElem? {v : Version K} {i : Nat} {lvl : List (Run K)} (h : v.levels[i]? = some lvl) :
    v.levelTables i = lvl.flatten := by
  simp [Version.levelTables, h]

theorem inj_of_nodup_map {α β : Type} (f : α → β) {l : List α} (hnd : (l.map f).Nodup) {a b : α}
    (ha : a ∈ l) (hb : b ∈ l) (hf : f a = f b) : a = b := by
  induction l with
  | nil => cases ha
  | cons x xs ih =>
    rw [List.map_cons, List.nodup_cons] at hnd
    rcases List.mem_cons.mp ha with rfl | ha' <;> rcases List.mem_cons.mp hb with rfl | hb'
    · rfl
    · exact (hnd.1 (List.mem_map.mpr ⟨b, hb', hf.symm⟩)).elim
    · exact (hnd.1 (List.mem_map.mpr ⟨a, ha', hf⟩)).elim
    · exact ih hnd.2 ha' hb'

/-- distinct table ids: a tagged table (with its position) is determined by its id -/
theorem tagged_id_inj {v : Version K} (hnd : (v.tables.map (·.id)).Nodup) {x y : Nat × Nat × TableM K}
    (hx : x ∈ tagged v) (hy : y ∈ tagged v) (hid : x.2.2.id = y.2.2.id) : x = y := by
  have h : ((tagged v).map (fun z => z.2.2.id)).Nodup := by
    have : (tagged v).map (fun z => z.2.2.id) = v.tables.map (·.id) := by
      rw [← tagged_map v, List.map_map]; rfl
    rw [this]; exact hnd
  exact inj_of_nodup_map _ h hx hy hid

/-- distinct table ids: a table whose id is the id of some table of level `i` is itself at level `i` -/
theorem tagged_lvl_of_id {v : Version K} (hnd : (v.tables.map (·.id)).Nodup) {x : Nat × Nat × TableM K}
    (hx : x ∈ tagged v) {i : Nat} (hid : x.2.2.id ∈ (v.levelTables i).map (·.id)) : x.1 = i := by
  obtain ⟨tb, htb, he⟩ := List.mem_map.1 hid
  obtain ⟨y, hy, hy1, hy2⟩ := tagged_of_levelTables htb
  have : x = y := tagged_id_inj hnd hx hy (by rw [hy2]; exact he.symm)
  rw [this]; exact hy1

/-! ## sufficient conditions for `admissible` -/

/-- converse of `admissible_spec`: if EVERY input `t` / non-input `x` pair (sharing a key or not) is positioned as
    `admissible` demands, the choice is admissible -/
theorem admissible_of_pos (v : Version K) (ids : List Nat) (dest : Nat) (evict : Bool)
    (h : ∀ t ∈ tagged v, ∀ x ∈ tagged v, ids.contains t.2.2.id = true → ids.contains x.2.2.id = false →
      ((x.1 < t.1 ∨ (x.1 = t.1 ∧ x.2.1 < t.2.1)) ∧ x.1 < dest)
        ∨ (evict = false ∧ (t.1 < x.1 ∨ (t.1 = x.1 ∧ t.2.1 < x.2.1)) ∧ dest ≤ x.1)) :
    admissible v ids dest evict = true := by
  rw [admissible_eq, List.all_eq_true]
  intro t ht
  rw [List.mem_filter] at ht
  rw [List.all_eq_true]
  intro x hx
  rw [List.mem_filter] at hx
  have hxi : ids.contains x.2.2.id = false := by
    have := hx.2
    revert this
    cases ids.contains x.2.2.id <;> simp
  have := h t ht.1 x hx.1 ht.2 hxi
  simp only
  split
  · rfl
  · simp only [Bool.or_eq_true, Bool.and_eq_true, decide_eq_true_eq, Bool.not_eq_true']
    rcases this with h1 | h2
    · exact Or.inl h1
    · exact Or.inr ⟨⟨h2.1, h2.2.1⟩, h2.2.2⟩

/-- **the level-only sufficient condition.** The inputs are exactly the tables of the levels in `L` (so a level is
    either all input or all non-input and run indexes are irrelevant), and every non-empty non-input level `j` and
    non-empty input level `i` satisfy: `j` is above `i` and above `dest`, or — only when tombstones are not evicted —
    `j` is below `i` and at or below `dest`. -/
theorem admissible_of_levels (v : Version K) (ids : List Nat) (dest : Nat) (evict : Bool) (L : Nat → Prop)
    (hin : ∀ x ∈ tagged v, (x.2.2.id ∈ ids ↔ L x.1))
    (hlv : ∀ i j, L i → ¬ L j → v.levelTables i ≠ [] → v.levelTables j ≠ [] →
      (j < i ∧ j < dest) ∨ (evict = false ∧ i < j ∧ dest ≤ j)) :
    admissible v ids dest evict = true := by
  apply admissible_of_pos
  intro t ht x hx hti hxi
  have hLt : L t.1 := (hin t ht).1 (by simpa using hti)
  have hLx : ¬ L x.1 := fun hl => by
    have := (hin x hx).2 hl
    rw [List.contains_eq_mem, decide_eq_false_iff_not] at hxi
    exact hxi this
  have hnt : v.levelTables t.1 ≠ [] := List.ne_nil_of_mem (tagged_mem_levelTables ht)
  have hnx : v.levelTables x.1 ≠ [] := List.ne_nil_of_mem (tagged_mem_levelTables hx)
  rcases hlv t.1 x.1 hLt hLx hnt hnx with h | h
  · exact Or.inl ⟨Or.inl h.1, h.2⟩
  · exact Or.inr ⟨h.1, Or.inl h.2.1, h.2.2⟩

/-- no non-input table at all: admissible for every destination, with or without eviction -/
theorem admissible_of_all_inputs (v : Version K) (ids : List Nat) (dest : Nat) (evict : Bool)
    (h : ∀ t ∈ v.tables, t.id ∈ ids) : admissible v ids dest evict = true :=
  admissible_of_levels v ids dest evict (fun _ => True)
    (fun x hx => ⟨fun _ => trivial, fun _ => h _ (tagged_mem_tables hx)⟩)
    (fun i j _ hj => (hj trivial).elim)

/-- the inputs are all tables of ONE level `src`, moved / merged down to `dest ≥ src` with nothing in between
    (the destination level itself may be non-empty and stay non-input); no eviction -/
theorem admissible_of_one_level (v : Version K) (ids : List Nat) (src dest : Nat)
    (hin : ∀ x ∈ tagged v, (x.2.2.id ∈ ids ↔ x.1 = src))
    (hsd : src ≤ dest) (hgap : ∀ j, src < j → j < dest → v.levelTables j = []) :
    admissible v ids dest false = true := by
  apply admissible_of_levels v ids dest false (fun i => i = src) hin
  intro i j hi hj hni hnj
  subst hi
  rcases Nat.lt_or_ge j i with h | h
  · exact Or.inl ⟨h, by omega⟩
  · have hne : j ≠ i := hj
    rcases Nat.lt_or_ge j dest with h' | h'
    · exact absurd (hgap j (by omega) h') hnj
    · exact Or.inr ⟨rfl, by omega, h'⟩

/-- the inputs are all tables of the TWO levels `src ≤ dest`, nothing in between; without eviction always, with
    eviction when nothing lies below `dest` -/
theorem admissible_of_two_levels (v : Version K) (ids : List Nat) (src dest : Nat) (evict : Bool)
    (hin : ∀ x ∈ tagged v, (x.2.2.id ∈ ids ↔ (x.1 = src ∨ x.1 = dest)))
    (hsd : src ≤ dest) (hgap : ∀ j, src < j → j < dest → v.levelTables j = [])
    (hev : evict = true → ∀ j, dest < j → v.levelTables j = []) :
    admissible v ids dest evict = true := by
  apply admissible_of_levels v ids dest evict (fun i => i = src ∨ i = dest) hin
  intro i j hi hj hni hnj
  have hj1 : j ≠ src := fun h => hj (Or.inl h)
  have hj2 : j ≠ dest := fun h => hj (Or.inr h)
  rcases Nat.lt_or_ge j src with h | h
  · exact Or.inl ⟨by omega, by omega⟩
  · rcases Nat.lt_or_ge j dest with h' | h'
    · exact absurd (hgap j (by omega) h') hnj
    · cases evict with
      | false => exact Or.inr ⟨rfl, by omega, h'⟩
      | true => exact absurd (hev rfl j (by omega)) hnj

/-! ## the modelled choice functions -/

/-- (1) `major` compacts everything: admissible for both values of `evict` -/
theorem major_admissible (v : Version K) (hidden : List Nat) (lastLevel : Nat) (ids : List Nat) (dest : Nat)
    (evict : Bool) (hc : majorChoose v hidden lastLevel = .merge ids dest) :
    admissible v ids dest evict = true := by
  unfold majorChoose at hc
  simp only at hc
  split at hc
  · cases hc
  · simp only [Choice.merge.injEq] at hc
    obtain ⟨rfl, rfl⟩ := hc
    apply admissible_of_all_inputs
    intro t ht
    rw [mem_idSet]
    exact List.mem_map.2 ⟨t, ht, rfl⟩

theorem majorChoose_dest {v : Version K} {hidden : List Nat} {lastLevel : Nat} {ids : List Nat} {dest : Nat}
    (hc : majorChoose v hidden lastLevel = .merge ids dest) : dest = lastLevel := by
  unfold majorChoose at hc
  simp only at hc
  split at hc
  · cases hc
  · simp only [Choice.merge.injEq] at hc
    exact hc.2.symm

/-- what `pullDownChoose` returns -/
theorem pullDownChoose_merge {v : Version K} {src dest : Nat} {ids : List Nat} {dest' : Nat}
    (hc : pullDownChoose v src dest = .merge ids dest') :
    dest' = dest ∧ src < v.levels.length ∧ dest < v.levels.length ∧
      ids = idSet ((v.levelTables src ++ v.levelTables dest).map (·.id)) := by
  unfold pullDownChoose at hc
  split at hc
  · next a b ha hb =>
    simp only [Choice.merge.injEq] at hc
    obtain ⟨rfl, rfl⟩ := hc
    refine ⟨rfl, ?_, ?_, ?_⟩
    · exact (List.getElem?_eq_some_iff.1 ha).1
    · exact (List.getElem?_eq_some_iff.1 hb).1
    · rw [levelTables_of_getElem? ha, levelTables_of_getElem? hb]
  · cases hc

/-- the inputs of `pullDown` are exactly the tables of the two levels -/
theorem pullDown_inputs {v : Version K} (hnd : (v.tables.map (·.id)).Nodup) (src dest : Nat)
    {x : Nat × Nat × TableM K} (hx : x ∈ tagged v) :
    x.2.2.id ∈ idSet ((v.levelTables src ++ v.levelTables dest).map (·.id)) ↔ (x.1 = src ∨ x.1 = dest) := by
  rw [mem_idSet, List.map_append, List.mem_append]
  constructor
  · rintro (h | h)
    · exact Or.inl (tagged_lvl_of_id hnd hx h)
    · exact Or.inr (tagged_lvl_of_id hnd hx h)
  · rintro (h | h)
    · exact Or.inl (List.mem_map.2 ⟨x.2.2, h ▸ tagged_mem_levelTables hx, rfl⟩)
    · exact Or.inr (List.mem_map.2 ⟨x.2.2, h ▸ tagged_mem_levelTables hx, rfl⟩)

/-- (2) `pullDown` (merge levels `src` and `dest` into `dest`), general form: usage protocol P5 (`hgap`: the levels
    strictly between are empty), distinct table ids; with eviction only when nothing lies below `dest` -/
theorem pullDown_admissible_gen (v : Version K) (src dest : Nat) (ids : List Nat) (dest' : Nat) (evict : Bool)
    (hc : pullDownChoose v src dest = .merge ids dest')
    (hnd : (v.tables.map (·.id)).Nodup) (hsd : src ≤ dest)
    (hgap : ∀ j, src < j → j < dest → v.levelTables j = [])
    (hev : evict = true → ∀ j, dest < j → v.levelTables j = []) :
    admissible v ids dest' evict = true := by
  obtain ⟨rfl, _, _, rfl⟩ := pullDownChoose_merge hc
  exact admissible_of_two_levels v _ src dest' evict (fun x hx => pullDown_inputs hnd src dest' hx) hsd hgap hev

/-- (2a) without tombstone eviction -/
theorem pullDown_admissible (v : Version K) (src dest : Nat) (ids : List Nat) (dest' : Nat)
    (hc : pullDownChoose v src dest = .merge ids dest')
    (hnd : (v.tables.map (·.id)).Nodup) (hsd : src ≤ dest)
    (hgap : ∀ j, src < j → j < dest → v.levelTables j = []) :
    admissible v ids dest' false = true :=
  pullDown_admissible_gen v src dest ids dest' false hc hnd hsd hgap (fun h => by cases h)

/-- (2b) with tombstone eviction, when every level after `dest` is empty -/
theorem pullDown_admissible_evict (v : Version K) (src dest : Nat) (ids : List Nat) (dest' : Nat)
    (hc : pullDownChoose v src dest = .merge ids dest')
    (hnd : (v.tables.map (·.id)).Nodup) (hsd : src ≤ dest)
    (hgap : ∀ j, src < j → j < dest → v.levelTables j = [])
    (hbelow : ∀ j, dest < j → v.levelTables j = []) :
    admissible v ids dest' true = true :=
  pullDown_admissible_gen v src dest ids dest' true hc hnd hsd hgap (fun _ => hbelow)

/-- (2c) … in particular when `dest` is the last level -/
theorem pullDown_admissible_last (v : Version K) (src dest : Nat) (ids : List Nat) (dest' : Nat) (evict : Bool)
    (hc : pullDownChoose v src dest = .merge ids dest')
    (hnd : (v.tables.map (·.id)).Nodup) (hsd : src ≤ dest)
    (hgap : ∀ j, src < j → j < dest → v.levelTables j = [])
    (hlast : dest + 1 = v.levels.length) :
    admissible v ids dest' evict = true :=
  pullDown_admissible_gen v src dest ids dest' evict hc hnd hsd hgap
    (fun _ j hj => levelTables_of_ge v (by omega))

/-- what `moveDownChoose` returns -/
theorem moveDownChoose_move {v : Version K} {hidden : List Nat} {src dest : Nat} {ids : List Nat} {dest' : Nat}
    (hc : moveDownChoose v hidden src dest = .move ids dest') :
    dest' = dest ∧ src < v.levels.length ∧ ids = idSet ((v.levelTables src).map (·.id)) := by
  unfold moveDownChoose at hc
  split at hc
  · cases hc
  · next lvl hl =>
    simp only at hc
    split at hc
    · cases hc
    · simp only [Choice.move.injEq] at hc
      obtain ⟨rfl, rfl⟩ := hc
      refine ⟨rfl, (List.getElem?_eq_some_iff.1 hl).1, ?_⟩
      rw [levelTables_of_getElem? hl]

/-- (3) `moveDown` (move all of level `src` to `dest`): P5 gap hypothesis, distinct table ids. The destination level
    may be non-empty; it need not even exist for this statement. -/
theorem moveDown_admissible (v : Version K) (hidden : List Nat) (src dest : Nat) (ids : List Nat) (dest' : Nat)
    (hc : moveDownChoose v hidden src dest = .move ids dest')
    (hnd : (v.tables.map (·.id)).Nodup) (hsd : src ≤ dest)
    (hgap : ∀ j, src < j → j < dest → v.levelTables j = []) :
    admissible v ids dest' false = true := by
  obtain ⟨rfl, _, rfl⟩ := moveDownChoose_move hc
  apply admissible_of_one_level v _ src dest' _ hsd hgap
  intro x hx
  rw [mem_idSet]
  constructor
  · exact fun h => tagged_lvl_of_id hnd hx h
  · exact fun h => List.mem_map.2 ⟨x.2.2, h ▸ tagged_mem_levelTables hx, rfl⟩

/-- "level `j` is empty" in the literal sense implies the `levelTables` form used above -/
theorem levelTables_of_level_nil {v : Version K} {j : Nat} (h : v.levels[j]? = some []) : v.levelTables j = [] := by
  simp [Version.levelTables, h]

#print axioms admissible_of_pos
#print axioms admissible_of_levels
#print axioms admissible_of_all_inputs
#print axioms admissible_of_one_level
#print axioms admissible_of_two_levels
#print axioms major_admissible
#print axioms pullDown_admissible_gen
#print axioms pullDown_admissible
#print axioms pullDown_admissible_evict
#print axioms pullDown_admissible_last
#print axioms moveDown_admissible

end Lsm
