import LsmModel.Lemmas.ContentLemmas2
/-
  LsmModel.Lemmas.ConcLemmas — concurrent executions as interleavings (C06).

  Every state change of the real tree happens inside a critical section (a write to the active memtable under the
  version read lock; rotate, flush commit, compaction commit, move, drop under the version write lock), so an
  execution of concurrent threads is a sequence of atomic labels (`Op`s) in commit order, and each thread contributes
  its labels in program order: the execution is an `Interleaving` of the threads' programs.

    * `Interleaving`            — shuffles of a family of lists that preserve the order inside each list
    * `Op.isWrite`, `lastWrite` depends only on the subsequence of writes (`lastWrite_filter_isWrite`)
    * with a single writer thread the subsequence of writes is the same in every interleaving
      (`Interleaving.writes_eq`)
    * `Reach` splits at every point of a history (`reach_append`), `Reach` implies `run`
    * `Entry.eraseSeq` / `Op.eraseSeq` — labels up to the seqno a write drew from the shared counter
-/
namespace Lsm
set_option linter.unusedSectionVars false
set_option linter.unusedVariables false

/-! ## interleavings -/

/-- `Interleaving ths l`: `l` is an interleaving of the lists `ths` (one list per thread) — a shuffle that keeps the
    order inside each thread. `nil`: every thread is finished; `cons`: the next label is the head of some
    non-finished thread. -/
inductive Interleaving {α : Type} : List (List α) → List α → Prop
  | nil {ths : List (List α)} : (∀ th ∈ ths, th = []) → Interleaving ths []
  | cons {pre post : List (List α)} {a : α} {th l : List α} :
      Interleaving (pre ++ th :: post) l → Interleaving (pre ++ (a :: th) :: post) (a :: l)

namespace Interleaving
variable {α β : Type}

theorem flatten_of_all_nil {ths : List (List α)} (h : ∀ th ∈ ths, th = []) : ths.flatten = [] := by
  rw [List.flatten_eq_nil_iff]; exact h

/-- an interleaving is a permutation of all the labels of all threads: nothing is lost, nothing is invented -/
theorem perm {ths : List (List α)} {l : List α} (h : Interleaving ths l) : l.Perm ths.flatten := by
  induction h with
  | nil hn => rw [flatten_of_all_nil hn]
  | @cons pre post a th l _ ih =>
    rw [List.flatten_append, List.flatten_cons, List.cons_append]
    rw [List.flatten_append, List.flatten_cons] at ih
    exact (List.Perm.cons a ih).trans List.perm_middle.symm

theorem mem_iff {ths : List (List α)} {l : List α} (h : Interleaving ths l) (a : α) :
    a ∈ l ↔ ∃ th ∈ ths, a ∈ th := by
  rw [h.perm.mem_iff, List.mem_flatten]

/-- every label of every thread is executed -/
theorem mem {ths : List (List α)} {l : List α} (h : Interleaving ths l) {th : List α} (hth : th ∈ ths) {a : α}
    (ha : a ∈ th) : a ∈ l := (h.mem_iff a).2 ⟨th, hth, ha⟩

/-- program order: every thread's program is a subsequence of the interleaving -/
theorem sublist {ths : List (List α)} {l : List α} (h : Interleaving ths l) : ∀ th ∈ ths, th.Sublist l := by
  induction h with
  | nil hn => intro th hth; rw [hn th hth]; exact List.Sublist.refl _
  | @cons pre post a th' l _ ih =>
    intro th hth
    simp only [List.mem_append, List.mem_cons] at hth ih
    rcases hth with hth | rfl | hth
    · exact (ih th (Or.inl hth)).cons _
    · exact (ih th' (Or.inr (Or.inl rfl))).cons_cons _
    · exact (ih th (Or.inr (Or.inr hth))).cons _

theorem map (f : α → β) {ths : List (List α)} {l : List α} (h : Interleaving ths l) :
    Interleaving (ths.map (List.map f)) (l.map f) := by
  induction h with
  | nil hn =>
    refine .nil (fun th hth => ?_)
    obtain ⟨th0, h0, rfl⟩ := List.mem_map.1 hth
    rw [hn th0 h0]; rfl
  | cons _ ih =>
    simp only [List.map_append, List.map_cons] at ih ⊢
    exact .cons ih

theorem filter (p : α → Bool) {ths : List (List α)} {l : List α} (h : Interleaving ths l) :
    Interleaving (ths.map (List.filter p)) (l.filter p) := by
  induction h with
  | nil hn =>
    refine .nil (fun th hth => ?_)
    obtain ⟨th0, h0, rfl⟩ := List.mem_map.1 hth
    rw [hn th0 h0]; rfl
  | @cons pre post a th l _ ih =>
    simp only [List.map_append, List.map_cons] at ih ⊢
    cases hp : p a with
    | true =>
      rw [List.filter_cons_of_pos (by simpa using hp), List.filter_cons_of_pos (by simpa using hp)]
      exact .cons ih
    | false =>
      rw [List.filter_cons_of_neg (by simp [hp]), List.filter_cons_of_neg (by simp [hp])]
      exact ih

/-- if at most one thread is non-empty, there is only one interleaving -/
theorem eq_flatten_of_single {ths : List (List α)} {l : List α} (h : Interleaving ths l)
    (hs : ths.Pairwise (fun x y => x = [] ∨ y = [])) : l = ths.flatten := by
  induction h with
  | nil hn => rw [flatten_of_all_nil hn]
  | @cons pre post a th l _ ih =>
    rw [List.pairwise_append, List.pairwise_cons] at hs
    obtain ⟨hpre, ⟨hpost, hpp⟩, hx⟩ := hs
    have hpre0 : ∀ x ∈ pre, x = [] := fun x hx' =>
      (hx x hx' (a :: th) List.mem_cons_self).resolve_right (List.cons_ne_nil _ _)
    have hpost0 : ∀ y ∈ post, y = [] := fun y hy => (hpost y hy).resolve_left (List.cons_ne_nil _ _)
    have hs' : (pre ++ th :: post).Pairwise (fun x y => x = [] ∨ y = []) := by
      rw [List.pairwise_append, List.pairwise_cons]
      exact ⟨hpre, ⟨fun y hy => Or.inr (hpost0 y hy), hpp⟩, fun x hx' _ _ => Or.inl (hpre0 x hx')⟩
    rw [ih hs']
    simp only [List.flatten_append, List.flatten_cons, flatten_of_all_nil hpre0, List.nil_append,
      List.cons_append]

/-- with at most one thread containing labels that satisfy `p`, the `p`-subsequence of every interleaving is the
    same: that thread's `p`-subsequence -/
theorem filter_eq_of_single (p : α → Bool) {ths : List (List α)} {l : List α} (h : Interleaving ths l)
    (hs : ths.Pairwise (fun x y => (∀ a ∈ x, p a = false) ∨ (∀ a ∈ y, p a = false))) :
    l.filter p = (ths.map (List.filter p)).flatten := by
  apply (h.filter p).eq_flatten_of_single
  rw [List.pairwise_map]
  refine hs.imp ?_
  intro x y hxy
  rcases hxy with hx | hy
  · left; rw [List.filter_eq_nil_iff]; intro a ha; simp [hx a ha]
  · right; rw [List.filter_eq_nil_iff]; intro a ha; simp [hy a ha]

/-- a finished thread can be added to an interleaving -/
theorem cons_nil {ths : List (List α)} {l : List α} (h : Interleaving ths l) : Interleaving ([] :: ths) l := by
  induction h with
  | nil hn =>
    refine .nil (fun th hth => ?_)
    rcases List.mem_cons.1 hth with rfl | hth
    · rfl
    · exact hn th hth
  | @cons pre post a th l _ ih =>
    exact .cons (pre := [] :: pre) ih

/-- the sequential schedule (thread after thread) is an interleaving: interleavings exist -/
theorem flatten (ths : List (List α)) : Interleaving ths ths.flatten := by
  induction ths with
  | nil => exact .nil (fun _ h => by cases h)
  | cons th ths ih =>
    induction th with
    | nil => exact ih.cons_nil
    | cons a th iht => exact .cons (pre := []) iht

end Interleaving

/-! ## writes in commit order -/
section
variable {K : Type} [DecidableEq K]

/-- `Op.write` recogniser -/
def Op.isWrite : Op K → Bool
  | .write _ => true
  | _ => false

theorem Op.lastWriteOf_of_not_write {op : Op K} (h : op.isWrite = false) (k : K) : op.lastWriteOf k = none := by
  cases op <;> first | rfl | cases h

theorem lastWrite_cons (op : Op K) (ops : List (Op K)) (k : K) :
    lastWrite (op :: ops) k = match lastWrite ops k with
      | some e => some e
      | none => op.lastWriteOf k := rfl

theorem lastWrite_append (a b : List (Op K)) (k : K) :
    lastWrite (a ++ b) k = match lastWrite b k with
      | some e => some e
      | none => lastWrite a k := by
  induction a with
  | nil => cases h : lastWrite b k <;> simp [h, lastWrite]
  | cons op a ih =>
    rw [List.cons_append, lastWrite_cons, ih, lastWrite_cons]
    cases lastWrite b k <;> rfl

/-- the ordered-map replay of a history depends only on its subsequence of writes -/
theorem lastWrite_filter_isWrite (l : List (Op K)) (k : K) :
    lastWrite (l.filter Op.isWrite) k = lastWrite l k := by
  induction l with
  | nil => rfl
  | cons op l ih =>
    cases hw : op.isWrite with
    | true =>
      rw [List.filter_cons_of_pos (by simpa using hw), lastWrite_cons, lastWrite_cons, ih]
    | false =>
      rw [List.filter_cons_of_neg (by simp [hw]), lastWrite_cons, ih, Op.lastWriteOf_of_not_write hw]
      cases lastWrite l k <;> rfl

/-- single writer: the writes of every interleaving, in commit order, are the writer thread's writes in program
    order -/
theorem Interleaving.writes_eq {ths : List (List (Op K))} {l : List (Op K)} (h : Interleaving ths l)
    (hs : ths.Pairwise (fun x y => (∀ op ∈ x, op.isWrite = false) ∨ (∀ op ∈ y, op.isWrite = false))) :
    l.filter Op.isWrite = (ths.map (List.filter Op.isWrite)).flatten :=
  h.filter_eq_of_single Op.isWrite hs

/-- single writer: the ordered-map replay is the same for every interleaving -/
theorem Interleaving.lastWrite_eq {ths : List (List (Op K))} {l₁ l₂ : List (Op K)} (h₁ : Interleaving ths l₁)
    (h₂ : Interleaving ths l₂)
    (hs : ths.Pairwise (fun x y => (∀ op ∈ x, op.isWrite = false) ∨ (∀ op ∈ y, op.isWrite = false))) (k : K) :
    lastWrite l₁ k = lastWrite l₂ k := by
  rw [← lastWrite_filter_isWrite l₁, ← lastWrite_filter_isWrite l₂, h₁.writes_eq hs, h₂.writes_eq hs]

/-- in a batch with one entry per key, the entry the batch holds for `e.key` is `e` -/
theorem batchGet_of_mem {es : List (Entry K)} (hnd : (es.map (·.key)).Nodup) {e : Entry K} (he : e ∈ es) :
    batchGet es e.key = some e := by
  induction es with
  | nil => cases he
  | cons x xs ih =>
    rw [List.map_cons, List.nodup_cons] at hnd
    rw [batchGet, List.find?_cons]
    rcases List.mem_cons.1 he with rfl | he'
    · simp
    · have hne : ¬ x.key = e.key := fun hk => hnd.1 (hk ▸ List.mem_map.2 ⟨e, he', rfl⟩)
      simp only [hne, decide_false]
      exact ih hnd.2 he'

/-! ## labels up to the seqno a write drew from the shared counter -/

/-- an entry without its seqno -/
def Entry.eraseSeq (e : Entry K) : Entry K := { e with seqno := 0 }

/-- a label without the seqnos of the entries it writes (the seqno is drawn from the shared counter inside the
    critical section and so depends on the schedule; everything else is the thread's own input) -/
def Op.eraseSeq : Op K → Op K
  | .write es => .write (es.map Entry.eraseSeq)
  | op => op

theorem Op.isWrite_eraseSeq (op : Op K) : op.eraseSeq.isWrite = op.isWrite := by
  cases op <;> rfl

theorem batchGet_eraseSeq (es : List (Entry K)) (k : K) :
    batchGet (es.map Entry.eraseSeq) k = (batchGet es k).map Entry.eraseSeq := by
  induction es with
  | nil => rfl
  | cons x xs ih =>
    simp only [batchGet, List.map_cons, List.find?_cons] at ih ⊢
    have : (Entry.eraseSeq x).key = x.key := rfl
    rw [this]
    by_cases hk : x.key = k
    · simp [hk]
    · simp only [hk, decide_false]; exact ih

theorem Op.lastWriteOf_eraseSeq (op : Op K) (k : K) :
    op.eraseSeq.lastWriteOf k = (op.lastWriteOf k).map Entry.eraseSeq := by
  cases op with
  | write es => exact batchGet_eraseSeq es k
  | _ => rfl

theorem lastWrite_eraseSeq (l : List (Op K)) (k : K) :
    lastWrite (l.map Op.eraseSeq) k = (lastWrite l k).map Entry.eraseSeq := by
  induction l with
  | nil => rfl
  | cons op l ih =>
    rw [List.map_cons, lastWrite_cons, lastWrite_cons, ih, Op.lastWriteOf_eraseSeq]
    cases lastWrite l k <;> rfl

theorem live_eraseSeq (o : Option (Entry K)) : live (o.map Entry.eraseSeq) = (live o).map Entry.eraseSeq := by
  cases o with
  | none => rfl
  | some e =>
    simp only [Option.map_some, live]
    have : (Entry.eraseSeq e).isTomb = e.isTomb := rfl
    rw [this]
    cases e.isTomb <;> rfl

end

/-! ## guarded runs split at every point -/
section
variable {K : Type} [LT K] [DecidableLT K] [DecidableEq K] [LE K] [Std.IsLinearOrder K] [Std.LawfulOrderLT K]

theorem reach_append {t t'' : TreeState K} {a b : List (Op K)} :
    Reach t (a ++ b) t'' ↔ ∃ t', Reach t a t' ∧ Reach t' b t'' := by
  constructor
  · intro h
    induction a generalizing t with
    | nil => exact ⟨t, .refl t, h⟩
    | cons op a ih =>
      cases h with
      | step hok ha hr =>
        obtain ⟨t', h1, h2⟩ := ih hr
        exact ⟨t', .step hok ha h1, h2⟩
  · rintro ⟨t', h1, h2⟩
    induction h1 with
    | refl => exact h2
    | step hok ha _ ih => exact .step hok ha (ih h2)

/-- a guarded run is a run of the state machine: no step is rejected -/
theorem Reach.run {t t' : TreeState K} {ops : List (Op K)} (h : Reach t ops t') : t.run ops = some t' := by
  induction h with
  | refl => rfl
  | step _ ha _ ih => simp only [TreeState.run, ha]; exact ih

/-- the side condition and the success of the step at any point of a guarded run -/
theorem Reach.at {t t'' : TreeState K} {pre post : List (Op K)} {op : Op K} (h : Reach t (pre ++ op :: post) t'') :
    ∃ t₁ t₂, Reach t pre t₁ ∧ okStep t₁ op ∧ t₁.applyOp op = some t₂ ∧ Reach t₂ post t'' := by
  obtain ⟨t₁, h1, h2⟩ := reach_append.1 h
  cases h2 with
  | step hok ha hr => exact ⟨t₁, _, h1, hok, ha, hr⟩

/-- C01 at the lemma layer: after any guarded run from the empty tree a point read at or above the counter returns
    the last write of the key in the order of the run -/
theorem reach_getAt (n : Nat) {ops : List (Op K)} {t : TreeState K} (h : Reach (TreeState.init n none) ops t)
    (k : K) (S : Nat) (hS : t.seqCtr ≤ S) : t.getAt k S = some (live (lastWrite ops k)) := by
  obtain ⟨hg, hr⟩ := reach_good h (good_init n)
  rw [good_getAt hg k S hS, hr k, readOf_init]
  cases lastWrite ops k <;> rfl

/-- one guarded step of an operation that writes nothing changes no newest-snapshot read -/
theorem applyOp_good_getAt {t t' : TreeState K} {op : Op K} (hg : Good t) (hok : okStep t op)
    (ha : t.applyOp op = some t') (hnw : op.isWrite = false) (k : K) (S S' : Nat) (hS : t.seqCtr ≤ S)
    (hS' : t'.seqCtr ≤ S') : Good t' ∧ t'.getAt k S' = t.getAt k S := by
  obtain ⟨hg', hr⟩ := applyOp_good hg hok ha
  refine ⟨hg', ?_⟩
  rw [good_getAt hg' k S' hS', good_getAt hg k S hS, hr k, Op.lastWriteOf_of_not_write hnw]


end

end Lsm
