import LsmModel.Lemmas.TwoLevelLemmas
/-
  LsmModel.Lemmas.TwoLevelFlatLemmas — two-level index = flat index for a lower bound (`forward_reader`, `seek_lower`),
  for every cut of the handle list into non-empty partitions.
-/
namespace Lsm.TwoLevel
open Lsm Lsm.Codec Lsm.Blocks Lsm.IndexBlock
set_option linter.unusedSimpArgs false
set_option linter.unusedVariables false

variable {α : Type}

theorem drop_ppoint (p : α → Bool) (l : List α) : l.drop (ppoint p l) = l.dropWhile p := by
  induction l with
  | nil => simp [ppoint]
  | cons x xs ih =>
    simp only [ppoint, List.dropWhile_cons]
    by_cases hx : p x = true
    · simp [hx, ih]
    · simp [hx]

theorem ppoint_ge_iff (p : α → Bool) (l : List α) : ppoint p l ≥ l.length ↔ l.dropWhile p = [] := by
  rw [← drop_ppoint, List.drop_eq_nil_iff]

/-- the window for a lower bound only -/
theorem windowP_lo (p : α → Bool) (l : List α) :
    windowP (some p) none l = if l.dropWhile p = [] then none else some (l.dropWhile p) := by
  unfold windowP
  by_cases h : l.dropWhile p = []
  · have := (ppoint_ge_iff p l).mpr h
    simp [h, this]
  · have : ¬ ppoint p l ≥ l.length := fun hh => h ((ppoint_ge_iff p l).mp hh)
    simp [h, this, drop_ppoint]

theorem dropWhile_append_all (p : α → Bool) (a b : List α) (h : ∀ y ∈ a, p y = true) :
    (a ++ b).dropWhile p = b.dropWhile p := by
  induction a with
  | nil => rfl
  | cons x xs ih =>
    have hx := h x (by simp)
    simp only [List.cons_append, List.dropWhile_cons, hx, if_true]
    exact ih (fun y hy => h y (by simp [hy]))

theorem dropWhile_append_some (p : α → Bool) (a b : List α) (h : ∃ y ∈ a, p y = false) :
    (a ++ b).dropWhile p = a.dropWhile p ++ b ∧ a.dropWhile p ≠ [] := by
  induction a with
  | nil => obtain ⟨y, hy, _⟩ := h; simp at hy
  | cons x xs ih =>
    by_cases hx : p x = true
    · obtain ⟨y, hy, hpy⟩ := h
      have : ∃ y ∈ xs, p y = false := by
        simp only [List.mem_cons] at hy
        rcases hy with rfl | hy
        · rw [hx] at hpy; cases hpy
        · exact ⟨y, hy, hpy⟩
      simp only [List.cons_append, List.dropWhile_cons, hx, if_true]
      exact ih this
    · simp [List.dropWhile_cons, hx]

theorem dropWhile_head_false (p : α → Bool) (l : List α) (h : ∀ y ∈ l, p y = false) : l.dropWhile p = l := by
  cases l with
  | nil => rfl
  | cons x xs => simp [List.dropWhile_cons, h x (by simp)]

theorem flatMap_congr' {β : Type} (l : List β) (f g : β → List α) (h : ∀ x ∈ l, f x = g x) :
    l.flatMap f = l.flatMap g := by
  induction l with
  | nil => rfl
  | cons x xs ih =>
    simp only [List.flatMap_cons]
    rw [h x (by simp), ih (fun y hy => h y (by simp [hy]))]

/-- the core: the top-level seek and the per-partition seeks select the suffix the flat seek selects -/
theorem lo_core (p : α → Bool) (top : List (α × List α))
    (hne : ∀ e ∈ top, e.2 ≠ [])
    (hkey : ∀ e ∈ top, ∃ x, e.2.getLast? = some x ∧ p e.1 = p x)
    (hmono : (top.flatMap (·.2)).Pairwise (fun a b => p b = true → p a = true)) :
    (top.dropWhile (fun e => p e.1) = [] ∧ (top.flatMap (·.2)).dropWhile p = []) ∨
    (Good (some p) none (top.dropWhile (fun e => p e.1)) ∧
      (top.dropWhile (fun e => p e.1)).flatMap (winOf (some p) none) = (top.flatMap (·.2)).dropWhile p ∧
      (top.flatMap (·.2)).dropWhile p ≠ [] ∧ top.dropWhile (fun e => p e.1) ≠ []) := by
  induction top with
  | nil => left; simp
  | cons e rest ih =>
    obtain ⟨x, hx, hpx⟩ := hkey e (by simp)
    obtain ⟨ys, hys⟩ := List.getLast?_eq_some_iff.mp hx
    simp only [List.flatMap_cons] at hmono ⊢
    obtain ⟨hm1, hm2, hm3⟩ := List.pairwise_append.mp hmono
    have hne' : ∀ e' ∈ rest, e'.2 ≠ [] := fun e' he' => hne e' (by simp [he'])
    have hkey' : ∀ e' ∈ rest, ∃ x, e'.2.getLast? = some x ∧ p e'.1 = p x := fun e' he' => hkey e' (by simp [he'])
    by_cases hp : p x = true
    · -- the whole partition is before the needle
      have hall : ∀ y ∈ e.2, p y = true := by
        intro y hy
        rw [hys] at hy hm1
        simp only [List.mem_append, List.mem_singleton] at hy
        rcases hy with hy | rfl
        · have := (List.pairwise_append.mp hm1).2.2 y hy x (by simp)
          exact this hp
        · exact hp
      have he1 : p e.1 = true := by rw [hpx]; exact hp
      rw [dropWhile_append_all p _ _ hall]
      simp only [List.dropWhile_cons, he1, if_true]
      exact ih hne' hkey' hm2
    · -- the partition contains the first handle at or after the needle
      have hpf : p x = false := by cases h : p x <;> simp_all
      have he1 : p e.1 = false := by rw [hpx]; exact hpf
      have hxe : x ∈ e.2 := by rw [hys]; simp
      have hrest : ∀ z ∈ rest.flatMap (·.2), p z = false := by
        intro z hz
        cases hz' : p z with
        | false => rfl
        | true => have := hm3 x hxe z hz hz'; rw [hpf] at this; cases this
      obtain ⟨hd1, hd2⟩ := dropWhile_append_some p e.2 (rest.flatMap (·.2)) ⟨x, hxe, hpf⟩
      right
      simp only [List.dropWhile_cons, he1, Bool.false_eq_true, if_false]
      have hwin_rest : ∀ e' ∈ rest, windowP (some p) none e'.2 = some e'.2 := by
        intro e' he'
        have hf : ∀ y ∈ e'.2, p y = false := fun y hy => hrest y (List.mem_flatMap.mpr ⟨e', he', hy⟩)
        rw [windowP_lo, dropWhile_head_false p _ hf]
        simp [hne' e' he']
      have hwin_e : windowP (some p) none e.2 = some (e.2.dropWhile p) := by
        rw [windowP_lo]; simp [hd2]
      refine ⟨?_, ?_, ?_, by simp⟩
      · intro e' he'
        simp only [List.mem_cons] at he'
        rcases he' with rfl | he'
        · rw [hwin_e]
          cases hdw : e'.2.dropWhile p with
          | nil => exact absurd hdw hd2
          | cons a r => exact ⟨a, r, rfl⟩
        · rw [hwin_rest e' he']
          cases hl : e'.2 with
          | nil => exact absurd hl (hne' e' he')
          | cons a r => exact ⟨a, r, rfl⟩
      · rw [hd1]
        simp only [List.flatMap_cons, winOf, hwin_e, Option.getD_some]
        congr 1
        apply flatMap_congr'
        intro e' he'
        simp [winOf, hwin_rest e' he']
      · rw [hd1]; simp [hd2]

/-- LOWER BOUND: for EVERY top-level block `top` whose entries carry (as far as the seek predicate can tell) the key of
    the LAST handle of a NON-EMPTY partition, and every seek predicate that is monotone on the concatenation (true on a
    prefix), the two-level iterator after `seek_lower` returns for every pull word what the flat iterator over the
    concatenation returns. -/
theorem twoLevel_eq_flat_lo (p : α → Bool) (top : List (α × List α))
    (hne : ∀ e ∈ top, e.2 ≠ [])
    (hkey : ∀ e ∈ top, ∃ x, e.2.getLast? = some x ∧ p e.1 = p x)
    (hmono : (top.flatMap (·.2)).Pairwise (fun a b => p b = true → p a = true)) (w : List Dir) :
    TLIter.run (some p) none { top := top } w = flatRunP (some p) none (top.flatMap (·.2)) w := by
  have htop : windowP (onTop (some p)) (onTop none) top
      = if top.dropWhile (fun e => p e.1) = [] then none else some (top.dropWhile (fun e => p e.1)) := by
    simp only [onTop, Option.map_some, Option.map_none]
    exact windowP_lo (fun e => p e.1) top
  unfold flatRunP
  rw [windowP_lo]
  rcases lo_core p top hne hkey hmono with ⟨h1, h2⟩ | ⟨hg, hf, hn, hT⟩
  · rw [if_pos h1] at htop
    rw [run_uninit_none _ _ top htop, if_pos h2]
  · rw [if_neg hT] at htop
    rw [twoLevel_run_concat _ _ top _ htop (Or.inl hg), hf, if_neg hn]

end Lsm.TwoLevel
