import LsmModel.Lemmas.TwoLevelLemmas
/-
  LsmModel.Lemmas.VolatileLemmas — the volatile (lazily loaded) full index delivers what the pinned full index delivers.
-/
namespace Lsm.TwoLevel
open Lsm Lsm.Codec Lsm.Blocks Lsm.IndexBlock
set_option linter.unusedSimpArgs false

variable {α : Type}

theorem vrun_loaded (pLo pHi : Option (α → Bool)) (block : List α) (w : List Dir) :
    ∀ l : List α, VIter.run pLo pHi { block := block, inner := some l } w = bothEnds l w := by
  induction w with
  | nil => intro l; rfl
  | cons d w ih =>
    intro l
    cases d with
    | F =>
      cases l with
      | nil => simp only [VIter.run, VIter.next]; rw [ih []]; simp [bothEnds]
      | cons x r => simp only [VIter.run, VIter.next, bothEnds_F]; rw [ih r]
    | B =>
      cases hp : popBack l with
      | none =>
        have := popBack_none l hp
        subst this
        simp only [VIter.run, VIter.nextBack, hp]; rw [ih []]; simp [bothEnds]
      | some p =>
        obtain ⟨x, r⟩ := p
        have hl := popBack_some l x r hp
        simp only [VIter.run, VIter.nextBack, hp]
        rw [ih r, hl, bothEnds_B]

theorem vrun_failed (pLo pHi : Option (α → Bool)) (block : List α) (h : windowP pLo pHi block = none) (w : List Dir) :
    VIter.run pLo pHi { block := block } w = nones w := by
  induction w with
  | nil => rfl
  | cons d w ih =>
    cases d with
    | F => simp only [VIter.run, VIter.next, h, nones, List.map_cons]; exact congrArg _ ih
    | B => simp only [VIter.run, VIter.nextBack, h, nones, List.map_cons]; exact congrArg _ ih

/-- `VolatileBlockIndex` = `FullBlockIndex`: for every block, all bounds and every pull word -/
theorem volatile_eq_flat (pLo pHi : Option (α → Bool)) (block : List α) (w : List Dir) :
    VIter.run pLo pHi { block := block } w = flatRunP pLo pHi block w := by
  unfold flatRunP
  cases hw : windowP pLo pHi block with
  | none => simp only []; exact vrun_failed pLo pHi block hw w
  | some win =>
    simp only []
    cases w with
    | nil => rfl
    | cons d w =>
      cases d with
      | F =>
        cases win with
        | nil => simp only [VIter.run, VIter.next, hw]; rw [vrun_loaded]; simp [bothEnds]
        | cons x r => simp only [VIter.run, VIter.next, hw, bothEnds_F]; rw [vrun_loaded]
      | B =>
        cases hp : popBack win with
        | none =>
          have := popBack_none win hp
          subst this
          simp only [VIter.run, VIter.nextBack, hw, hp]; rw [vrun_loaded]; simp [bothEnds]
        | some p =>
          obtain ⟨x, r⟩ := p
          have hl := popBack_some win x r hp
          simp only [VIter.run, VIter.nextBack, hw, hp]
          rw [vrun_loaded, hl, bothEnds_B]

end Lsm.TwoLevel
