import LsmModel.Tree.Reloc
/-!
  Lemmas about `LsmModel.Tree.Reloc` (blob relocation, C08 / F9).
-/
namespace Lsm.Reloc
variable {K : Type}

/-! ## AllPairs -/

theorem AllPairs.length_eq {α β : Type} {R : α → β → Prop} :
    ∀ {as : List α} {bs : List β}, AllPairs R as bs → as.length = bs.length
  | [], [], _ => rfl
  | _ :: as, _ :: bs, h => by
    have := AllPairs.length_eq (as := as) (bs := bs) h.2
    simp [this]
  | [], _ :: _, h => h.elim
  | _ :: _, [], h => h.elim

theorem AllPairs.getElem {α β : Type} {R : α → β → Prop} :
    ∀ {as : List α} {bs : List β}, AllPairs R as bs →
      ∀ (i : Nat) (h1 : i < as.length) (h2 : i < bs.length), R as[i] bs[i]
  | [], _, _, _, h1, _ => by simp at h1
  | _ :: _, [], _, _, _, h2 => by simp at h2
  | _ :: as, _ :: bs, h, 0, _, _ => h.1
  | _ :: as, _ :: bs, h, i + 1, h1, h2 => by
    simpa using AllPairs.getElem (as := as) (bs := bs) h.2 i (by simpa using h1) (by simpa using h2)

theorem AllPairs.mono {α β : Type} {R S : α → β → Prop} (hRS : ∀ a b, R a b → S a b) :
    ∀ {as : List α} {bs : List β}, AllPairs R as bs → AllPairs S as bs
  | [], [], _ => trivial
  | _ :: as, _ :: bs, h => ⟨hRS _ _ h.1, AllPairs.mono hRS (as := as) (bs := bs) h.2⟩
  | [], _ :: _, h => h.elim
  | _ :: _, [], h => h.elim

/-! ## scanner map -/

theorem getS_setS (st : Scanners K) (f g : Nat) (s' : BlobFile K) :
    getS (setS st f s') g = if g = f then (getS st f).map (fun _ => s') else getS st g := by
  induction st with
  | nil => simp [getS, setS]
  | cons hd r ih =>
    obtain ⟨h, s⟩ := hd
    by_cases hf : h = f
    · subst hf
      by_cases hg : g = h
      · subst hg; simp [getS, setS]
      · have : ¬ h = g := fun e => hg e.symm
        simp [getS, setS, hg, this]
    · by_cases hg : g = f
      · subst hg; simp [getS, setS, hf, ih]
      · by_cases hh : h = g
        · simp [getS, setS, hg, hh]
        · simp [getS, setS, hf, hg, hh, ih]

theorem getS_some_mem {st : Scanners K} {f : Nat} {s : BlobFile K} (h : getS st f = some s) : (f, s) ∈ st := by
  induction st with
  | nil => simp [getS] at h
  | cons hd r ih =>
    obtain ⟨g, t⟩ := hd
    by_cases hg : g = f
    · simp [getS, hg] at h; simp [hg, h]
    · simp [getS, hg] at h; exact List.mem_cons_of_mem _ (ih h)

theorem getS_of_mem_distinct {st : Scanners K} (hd : DistinctIds st) {f : Nat} {s : BlobFile K}
    (h : (f, s) ∈ st) : getS st f = some s := by
  induction st with
  | nil => simp at h
  | cons hd' r ih =>
    obtain ⟨g, t⟩ := hd'
    simp only [DistinctIds, List.map_cons, List.pairwise_cons] at hd
    rcases List.mem_cons.1 h with h | h
    · cases h; simp [getS]
    · have hne : g ≠ f := hd.1 f (List.mem_map.2 ⟨(f, s), h, rfl⟩)
      simp [getS, hne]; exact ih hd.2 h

/-! ## soundness of the fixed algorithm (no hypotheses) -/

theorem stepFixed_some [DecidableEq K] {st st' : Scanners K} {p : VPtr K} {e : BlobE K}
    (h : stepFixed st p = some (e, st')) :
    ∃ s rest, getS st p.file = some s ∧ s.dropWhile (skipPred p p.file) = e :: rest ∧
      e.key = p.key ∧ e.off = p.off ∧ st' = setS st p.file rest := by
  unfold stepFixed at h
  split at h
  · cases h
  · rename_i s hs
    split at h
    · cases h
    · rename_i e' rest hdw
      split at h
      · rename_i hc
        cases h
        exact ⟨s, rest, hs, hdw, hc.1, hc.2, rfl⟩
      · cases h

/-- What a successful run guarantees for pointer `p` and the blob `b` returned for it. -/
def Hit (st : Scanners K) (p : VPtr K) (b : BlobE K) : Prop :=
  b.key = p.key ∧ b.off = p.off ∧ ∃ s, getS st p.file = some s ∧ b ∈ s

theorem relocateFixed_sound [DecidableEq K] :
    ∀ (ptrs : List (VPtr K)) (st : Scanners K) (bs : List (BlobE K)),
      relocateFixed st ptrs = some bs → AllPairs (Hit st) ptrs bs
  | [], st, bs, h => by
    simp [relocateFixed] at h; subst h; trivial
  | p :: ps, st, bs, h => by
    unfold relocateFixed at h
    split at h
    · cases h
    · rename_i e st' hstep
      obtain ⟨s, rest, hs, hdw, hk, ho, hst'⟩ := stepFixed_some hstep
      cases hrec : relocateFixed st' ps with
      | none => simp [hrec] at h
      | some bs' =>
        simp [hrec] at h; subst h
        have hsub : ∀ x, x ∈ e :: rest → x ∈ s := fun x hx =>
          (List.dropWhile_sublist (skipPred p p.file)).subset (hdw ▸ hx)
        refine ⟨⟨hk, ho, s, hs, hsub e (List.mem_cons_self ..)⟩, ?_⟩
        refine AllPairs.mono ?_ (relocateFixed_sound ps st' bs' hrec)
        rintro q b ⟨hqk, hqo, s', hs', hb⟩
        refine ⟨hqk, hqo, ?_⟩
        subst hst'
        rw [getS_setS] at hs'
        by_cases hq : q.file = p.file
        · simp [hq, hs] at hs'
          subst hs'
          exact ⟨s, by rw [hq]; exact hs, hsub b (List.mem_cons_of_mem _ hb)⟩
        · simp [hq] at hs'
          exact ⟨s', hs', hb⟩

/-! ## completeness of the fixed algorithm -/

/-- Draining a scanner whose content has the pointer's target (then `l`) as a sub-sequence stops exactly at the target. -/
theorem dropWhile_follow [DecidableEq K] (p : VPtr K) (l : List (K × Nat)) :
    ∀ (s : BlobFile K), OffsetsIncreasing s → List.Sublist (p.kv :: l) (s.map BlobE.kv) →
      ∃ e rest, s.dropWhile (skipPred p p.file) = e :: rest ∧ e.key = p.key ∧ e.off = p.off ∧
        OffsetsIncreasing rest ∧ List.Sublist l (rest.map BlobE.kv)
  | [], _, h => by simp at h
  | e :: t, hpw, h => by
    simp only [OffsetsIncreasing, List.pairwise_cons] at hpw
    simp only [List.map_cons] at h
    rcases List.sublist_cons_iff.1 h with h' | ⟨r, hr, h'⟩
    · -- the target is further down: `e` has a smaller offset and is skipped
      have hmem : p.kv ∈ t.map BlobE.kv := h'.subset (List.mem_cons_self ..)
      obtain ⟨e', he', hkv⟩ := List.mem_map.1 hmem
      have hoff : e.off < p.off := by
        have := hpw.1 e' he'
        have h2 : e'.off = p.off := congrArg Prod.snd hkv
        omega
      have hskip : skipPred p p.file e = true := by simp [skipPred, hoff]
      obtain ⟨e₁, rest, hdw, hk, ho, hpr, hsl⟩ := dropWhile_follow p l t hpw.2 h'
      exact ⟨e₁, rest, by simp [hskip, hdw], hk, ho, hpr, hsl⟩
    · -- `e` is the target
      injection hr with hkv hl
      subst hl
      have hk : e.key = p.key := (congrArg Prod.fst hkv).symm
      have ho : e.off = p.off := (congrArg Prod.snd hkv).symm
      have hskip : skipPred p p.file e = false := by simp [skipPred, hk, ho]
      exact ⟨e, t, by simp [hskip], hk, ho, hpw.2, h'⟩

/-- … and with keys sorted in file order every drained entry has a key `≤` the pointer's: the assertion of `drain_blobs` holds. -/
theorem takeWhile_keys_le [DecidableEq K] [LE K] (p : VPtr K) (l : List (K × Nat)) :
    ∀ (s : BlobFile K), KeysSorted s → List.Sublist (p.kv :: l) (s.map BlobE.kv) →
      ∀ x ∈ s.takeWhile (skipPred p p.file), x.key ≤ p.key
  | [], _, h => by simp at h
  | e :: t, hks, h => by
    simp only [KeysSorted, List.pairwise_cons] at hks
    simp only [List.map_cons] at h
    rcases List.sublist_cons_iff.1 h with h' | ⟨r, hr, h'⟩
    · have hmem : p.kv ∈ t.map BlobE.kv := h'.subset (List.mem_cons_self ..)
      obtain ⟨e', he', hkv⟩ := List.mem_map.1 hmem
      have hk' : e'.key = p.key := congrArg Prod.fst hkv
      intro x hx
      rw [List.takeWhile_cons] at hx
      split at hx
      · rcases List.mem_cons.1 hx with rfl | hx
        · exact hk' ▸ hks.1 e' he'
        · exact takeWhile_keys_le p l t hks.2 h' x hx
      · simp at hx
    · injection hr with hkv hl
      have hk : e.key = p.key := (congrArg Prod.fst hkv).symm
      have ho : e.off = p.off := (congrArg Prod.snd hkv).symm
      have hskip : skipPred p p.file e = false := by simp [skipPred, hk, ho]
      intro x hx
      simp [hskip] at hx

/-- The invariant of the per-file scanners with respect to the pointers still to come. -/
def Inv (st : Scanners K) (ptrs : List (VPtr K)) : Prop :=
  (∀ p ∈ ptrs, ∃ s, getS st p.file = some s) ∧
  ∀ f s, getS st f = some s → OffsetsIncreasing s ∧ PtrsFollowFile ptrs f s

theorem stepFixed_complete [DecidableEq K] {st : Scanners K} {p : VPtr K} {ps : List (VPtr K)}
    (h : Inv st (p :: ps)) : ∃ e st', stepFixed st p = some (e, st') ∧ Inv st' ps := by
  obtain ⟨hdom, hfol⟩ := h
  obtain ⟨s, hs⟩ := hdom p (List.mem_cons_self ..)
  obtain ⟨hpw, hsub⟩ := hfol _ _ hs
  simp only [PtrsFollowFile, List.filter_cons, decide_true, if_true, List.map_cons] at hsub
  obtain ⟨e, rest, hdw, hk, ho, hpr, hsl⟩ := dropWhile_follow p _ s hpw hsub
  refine ⟨e, setS st p.file rest, by simp [stepFixed, hs, hdw, hk, ho], ?_, ?_⟩
  · intro q hq
    obtain ⟨s', hs'⟩ := hdom q (List.mem_cons_of_mem _ hq)
    rw [getS_setS]
    by_cases hqf : q.file = p.file
    · exact ⟨rest, by simp [hqf, hs]⟩
    · exact ⟨s', by simp [hqf, hs']⟩
  · intro f s' hs'
    rw [getS_setS] at hs'
    by_cases hf : f = p.file
    · subst hf
      simp [hs] at hs'
      subst hs'
      exact ⟨hpr, hsl⟩
    · simp [hf] at hs'
      obtain ⟨h1, h2⟩ := hfol f s' hs'
      refine ⟨h1, ?_⟩
      have hne : ¬ p.file = f := fun e => hf e.symm
      simpa [PtrsFollowFile, List.filter_cons, hne] using h2

theorem relocateFixed_complete [DecidableEq K] :
    ∀ (ptrs : List (VPtr K)) (st : Scanners K), Inv st ptrs → ∃ bs, relocateFixed st ptrs = some bs
  | [], _, _ => ⟨[], rfl⟩
  | p :: ps, st, h => by
    obtain ⟨e, st', hstep, hinv⟩ := stepFixed_complete h
    obtain ⟨bs, hbs⟩ := relocateFixed_complete ps st' hinv
    exact ⟨e :: bs, by simp [relocateFixed, hstep, hbs]⟩

/-! ## the strict variant (with `assert!(entry.key <= key)`) -/

theorem stepFixedStrict_eq_some [DecidableEq K] [LE K] [DecidableLE K] {st : Scanners K} {p : VPtr K}
    {r : BlobE K × Scanners K} (h : stepFixedStrict st p = some r) : stepFixed st p = some r := by
  cases hs : getS st p.file with
  | none => simp [stepFixedStrict, hs] at h
  | some s =>
    simp only [stepFixedStrict, hs] at h
    simp only [stepFixed, hs]
    split at h
    · exact h
    · cases h

theorem relocateFixedStrict_eq_some [DecidableEq K] [LE K] [DecidableLE K] :
    ∀ (ptrs : List (VPtr K)) (st : Scanners K) (bs : List (BlobE K)),
      relocateFixedStrict st ptrs = some bs → relocateFixed st ptrs = some bs
  | [], _, _, h => by simpa [relocateFixedStrict, relocateFixed] using h
  | p :: ps, st, bs, h => by
    unfold relocateFixedStrict at h
    split at h
    · cases h
    · rename_i e st' hstep
      cases hrec : relocateFixedStrict st' ps with
      | none => simp [hrec] at h
      | some bs' =>
        simp [hrec] at h; subst h
        simp [relocateFixed, stepFixedStrict_eq_some hstep, relocateFixedStrict_eq_some ps st' bs' hrec]

def InvS [LE K] (st : Scanners K) (ptrs : List (VPtr K)) : Prop :=
  Inv st ptrs ∧ ∀ f s, getS st f = some s → KeysSorted s

theorem stepFixedStrict_complete [DecidableEq K] [LE K] [DecidableLE K] {st : Scanners K} {p : VPtr K}
    {ps : List (VPtr K)} (h : InvS st (p :: ps)) :
    ∃ e st', stepFixedStrict st p = some (e, st') ∧ InvS st' ps := by
  obtain ⟨hinv, hks⟩ := h
  obtain ⟨e, st', hstep, hinv'⟩ := stepFixed_complete hinv
  obtain ⟨s, rest, hs, hdw, _, _, hst'⟩ := stepFixed_some hstep
  have hsub := (hinv.2 _ _ hs).2
  simp only [PtrsFollowFile, List.filter_cons, decide_true, if_true, List.map_cons] at hsub
  have hle := takeWhile_keys_le p _ s (hks _ _ hs) hsub
  refine ⟨e, st', ?_, hinv', ?_⟩
  · have hall : (s.takeWhile (skipPred p p.file)).all (fun e => decide (e.key ≤ p.key)) = true := by
      simpa [List.all_eq_true] using hle
    have : stepFixedStrict st p = stepFixed st p := by
      simp [stepFixedStrict, stepFixed, hs, hall]
    rw [this, hstep]
  · intro f s' hs'
    subst hst'
    rw [getS_setS] at hs'
    by_cases hf : f = p.file
    · subst hf
      simp [hs] at hs'
      subst hs'
      have h1 : KeysSorted (e :: rest) := hdw ▸ (hks _ _ hs).sublist (List.dropWhile_sublist _)
      exact (List.pairwise_cons.1 h1).2
    · simp [hf] at hs'
      exact hks f s' hs'

theorem relocateFixedStrict_complete [DecidableEq K] [LE K] [DecidableLE K] :
    ∀ (ptrs : List (VPtr K)) (st : Scanners K), InvS st ptrs → ∃ bs, relocateFixedStrict st ptrs = some bs
  | [], _, _ => ⟨[], rfl⟩
  | p :: ps, st, h => by
    obtain ⟨e, st', hstep, hinv⟩ := stepFixedStrict_complete h
    obtain ⟨bs, hbs⟩ := relocateFixedStrict_complete ps st' hinv
    exact ⟨e :: bs, by simp [relocateFixedStrict, hstep, hbs]⟩

/-! ## the legacy merge -/

/-- `pickMin` advances exactly one reader and returns its head. -/
theorem pickMin_some [DecidableEq K] [LT K] [DecidableLT K] :
    ∀ {st st' : Scanners K} {e : BlobE K} {f : Nat}, pickMin st = some (e, f, st') →
      ∃ pre t post, st = pre ++ (f, e :: t) :: post ∧ st' = pre ++ (f, t) :: post
  | [], _, _, _, h => by simp [pickMin] at h
  | (g, []) :: r, st', e, f, h => by
    unfold pickMin at h
    split at h
    · cases h
    · rename_i e' g' r' hr
      cases h
      obtain ⟨pre, t, post, h1, h2⟩ := pickMin_some hr
      exact ⟨(g, []) :: pre, t, post, by simp [h1], by simp [h2]⟩
  | (g, x :: t) :: r, st', e, f, h => by
    unfold pickMin at h
    split at h
    · cases h; exact ⟨[], t, r, rfl, rfl⟩
    · rename_i e' g' r' hr
      split at h
      · cases h
        obtain ⟨pre, t', post, h1, h2⟩ := pickMin_some hr
        exact ⟨(g, x :: t) :: pre, t', post, by simp [h1], by simp [h2]⟩
      · cases h; exact ⟨[], t, r, rfl, rfl⟩

theorem pickMin_none [DecidableEq K] [LT K] [DecidableLT K] :
    ∀ {st : Scanners K}, pickMin st = none → total st = 0
  | [], _ => rfl
  | (g, []) :: r, h => by
    unfold pickMin at h
    split at h
    · rename_i hr; simp [total, pickMin_none hr]
    · cases h
  | (g, x :: t) :: r, h => by
    unfold pickMin at h
    split at h
    · cases h
    · split at h <;> cases h

theorem total_append (a b : Scanners K) : total (a ++ b) = total a + total b := by
  induction a with
  | nil => simp [total]
  | cons hd r ih => obtain ⟨g, s⟩ := hd; simp [total, ih]; omega

theorem mergeFuel_length [DecidableEq K] [LT K] [DecidableLT K] :
    ∀ (n : Nat) (st : Scanners K), total st ≤ n → (mergeFuel n st).length = total st
  | 0, st, h => by simp [mergeFuel]; omega
  | n + 1, st, h => by
    unfold mergeFuel
    split
    · rename_i hp; simp [pickMin_none hp]
    · rename_i e f st' hp
      obtain ⟨pre, t, post, h1, h2⟩ := pickMin_some hp
      have ht : total st = total st' + 1 := by
        subst h1 h2; simp [total_append, total]; omega
      simp [mergeFuel_length n st' (by omega), ht]

/-- The fuel of `mergeScan` is adequate: every blob of every file is emitted. -/
theorem mergeScan_length [DecidableEq K] [LT K] [DecidableLT K] (files : Scanners K) :
    (mergeScan files).length = total files :=
  mergeFuel_length _ _ (Nat.le_refl _)

theorem mergeFuel_mem [DecidableEq K] [LT K] [DecidableLT K] :
    ∀ (n : Nat) (st : Scanners K) (x : BlobE K) (g : Nat), (x, g) ∈ mergeFuel n st →
      ∃ s, (g, s) ∈ st ∧ x ∈ s
  | 0, _, _, _, h => by simp [mergeFuel] at h
  | n + 1, st, x, g, h => by
    unfold mergeFuel at h
    split at h
    · simp at h
    · rename_i e f st' hp
      obtain ⟨pre, t, post, h1, h2⟩ := pickMin_some hp
      rcases List.mem_cons.1 h with h | h
      · cases h; exact ⟨x :: t, by simp [h1], List.mem_cons_self ..⟩
      · obtain ⟨s, hs, hx⟩ := mergeFuel_mem n st' x g h
        subst h1 h2
        rcases List.mem_append.1 hs with hs | hs
        · exact ⟨s, by simp [hs], hx⟩
        · rcases List.mem_cons.1 hs with hs | hs
          · cases hs; exact ⟨e :: t, by simp, List.mem_cons_of_mem _ hx⟩
          · exact ⟨s, by simp [hs], hx⟩

/-- In the merged order the blobs of one file keep their file order (offsets increasing). -/
def FileOrdered (m : List (BlobE K × Nat)) : Prop :=
  m.Pairwise (fun a b => a.2 = b.2 → a.1.off < b.1.off)

def WellFormed (st : Scanners K) : Prop :=
  DistinctIds st ∧ ∀ g s, (g, s) ∈ st → OffsetsIncreasing s

theorem mergeFuel_fileOrdered [DecidableEq K] [LT K] [DecidableLT K] :
    ∀ (n : Nat) (st : Scanners K), WellFormed st → FileOrdered (mergeFuel n st)
  | 0, _, _ => by simp [mergeFuel, FileOrdered]
  | n + 1, st, hwf => by
    unfold mergeFuel
    split
    · simp [FileOrdered]
    · rename_i e f st' hp
      obtain ⟨pre, t, post, h1, h2⟩ := pickMin_some hp
      have hids : st'.map (·.1) = st.map (·.1) := by subst h1 h2; simp
      have hinc : OffsetsIncreasing (e :: t) := hwf.2 f (e :: t) (by simp [h1])
      have hwf' : WellFormed st' := by
        refine ⟨by simpa [DistinctIds, hids] using hwf.1, ?_⟩
        intro g s hs
        subst h1 h2
        rcases List.mem_append.1 hs with hs | hs
        · exact hwf.2 g s (by simp [hs])
        · rcases List.mem_cons.1 hs with hs | hs
          · cases hs; exact (List.pairwise_cons.1 hinc).2
          · exact hwf.2 g s (by simp [hs])
      refine List.pairwise_cons.2 ⟨?_, mergeFuel_fileOrdered n st' hwf'⟩
      rintro ⟨x, g⟩ hx hg
      simp only at hg
      subst hg
      obtain ⟨s, hs, hxs⟩ := mergeFuel_mem n st' x f hx
      have h3 : getS st' f = some s := getS_of_mem_distinct hwf'.1 hs
      have h4 : getS st' f = some t := getS_of_mem_distinct hwf'.1 (by simp [h2])
      have : s = t := by rw [h3] at h4; exact Option.some.inj h4
      subst this
      exact (List.pairwise_cons.1 hinc).1 x hxs

theorem mergeScan_fileOrdered [DecidableEq K] [LT K] [DecidableLT K] (files : Scanners K)
    (h : WellFormed files) : FileOrdered (mergeScan files) :=
  mergeFuel_fileOrdered _ _ h

/-! ## the legacy algorithm on a merged order that agrees with the stream -/

/-- `(key, file, offset)`: what identifies a blob among all rewritten files. -/
def VPtr.kfo (p : VPtr K) : K × Nat × Nat := (p.key, p.file, p.off)
def kfo (x : BlobE K × Nat) : K × Nat × Nat := (x.1.key, x.2, x.1.off)

theorem dropWhile_follow_merged [DecidableEq K] (p : VPtr K) (l : List (K × Nat × Nat)) :
    ∀ (m : List (BlobE K × Nat)), FileOrdered m → List.Sublist (p.kfo :: l) (m.map kfo) →
      ∃ e rest, m.dropWhile (fun x => skipPred p x.2 x.1) = (e, p.file) :: rest ∧ e.key = p.key ∧ e.off = p.off ∧
        FileOrdered rest ∧ List.Sublist l (rest.map kfo)
  | [], _, h => by simp at h
  | (e, g) :: t, hpw, h => by
    simp only [FileOrdered, List.pairwise_cons] at hpw
    simp only [List.map_cons] at h
    rcases List.sublist_cons_iff.1 h with h' | ⟨r, hr, h'⟩
    · have hmem : p.kfo ∈ t.map kfo := h'.subset (List.mem_cons_self ..)
      obtain ⟨⟨e', g'⟩, he', hkv⟩ := List.mem_map.1 hmem
      have hg' : g' = p.file := congrArg (fun x => x.2.1) hkv
      have ho' : e'.off = p.off := congrArg (fun x => x.2.2) hkv
      have hskip : skipPred p g e = true := by
        by_cases hg : g = p.file
        · have := hpw.1 (e', g') he' (by simp [hg, hg'])
          have hoff : e.off < p.off := by simp at this; omega
          simp [skipPred, hoff]
        · simp [skipPred, hg]
      obtain ⟨e₁, rest, hdw, hk, ho, hpr, hsl⟩ := dropWhile_follow_merged p l t hpw.2 h'
      exact ⟨e₁, rest, by simp [hskip, hdw], hk, ho, hpr, hsl⟩
    · injection hr with hkv hl
      subst hl
      have hk : e.key = p.key := (congrArg (fun x => x.1) hkv).symm
      have hg : g = p.file := (congrArg (fun x => x.2.1) hkv).symm
      have ho : e.off = p.off := (congrArg (fun x => x.2.2) hkv).symm
      subst hg
      have hskip : skipPred p p.file e = false := by simp [skipPred, hk, ho]
      exact ⟨e, t, by simp [hskip], hk, ho, hpw.2, h'⟩

theorem relocateMerged_complete [DecidableEq K] :
    ∀ (ptrs : List (VPtr K)) (m : List (BlobE K × Nat)), FileOrdered m →
      List.Sublist (ptrs.map VPtr.kfo) (m.map kfo) → ∃ bs, relocateMerged m ptrs = some bs
  | [], _, _, _ => ⟨[], rfl⟩
  | p :: ps, m, hfo, hsub => by
    obtain ⟨e, rest, hdw, hk, ho, hfo', hsub'⟩ := dropWhile_follow_merged p _ m hfo hsub
    obtain ⟨bs, hbs⟩ := relocateMerged_complete ps rest hfo' hsub'
    exact ⟨e :: bs, by simp [relocateMerged, stepLegacy, hdw, hk, ho, hbs]⟩

theorem stepLegacy_some [DecidableEq K] {m m' : List (BlobE K × Nat)} {p : VPtr K} {e : BlobE K}
    (h : stepLegacy m p = some (e, m')) :
    m.dropWhile (fun x => skipPred p x.2 x.1) = (e, p.file) :: m' ∧ e.key = p.key ∧ e.off = p.off := by
  unfold stepLegacy at h
  split at h
  · cases h
  · rename_i e' g rest hdw
    split at h
    · rename_i hc
      cases h
      obtain ⟨rfl, hk, ho⟩ := hc
      exact ⟨hdw, hk, ho⟩
    · cases h

/-- Soundness of the legacy algorithm: a success copies the right blobs too (the defect is a panic, not a wrong copy). -/
theorem relocateMerged_sound [DecidableEq K] :
    ∀ (ptrs : List (VPtr K)) (m : List (BlobE K × Nat)) (bs : List (BlobE K)),
      relocateMerged m ptrs = some bs →
      AllPairs (fun p b => b.key = p.key ∧ b.off = p.off ∧ (b, p.file) ∈ m) ptrs bs
  | [], m, bs, h => by
    simp [relocateMerged] at h; subst h; trivial
  | p :: ps, m, bs, h => by
    unfold relocateMerged at h
    split at h
    · cases h
    · rename_i e m' hstep
      obtain ⟨hdw, hk, ho⟩ := stepLegacy_some hstep
      cases hrec : relocateMerged m' ps with
      | none => simp [hrec] at h
      | some bs' =>
        simp [hrec] at h; subst h
        have hsub : ∀ x, x ∈ (e, p.file) :: m' → x ∈ m := fun x hx =>
          (List.dropWhile_sublist _).subset (hdw ▸ hx)
        refine ⟨⟨hk, ho, hsub _ (List.mem_cons_self ..)⟩, ?_⟩
        refine AllPairs.mono ?_ (relocateMerged_sound ps m' bs' hrec)
        rintro q b ⟨hqk, hqo, hb⟩
        exact ⟨hqk, hqo, hsub _ (List.mem_cons_of_mem _ hb)⟩

end Lsm.Reloc
