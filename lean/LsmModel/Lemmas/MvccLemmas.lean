import LsmModel.Stream.Mvcc
import LsmModel.Lemmas.OrderLemmas
/-
  LsmModel.Lemmas.MvccLemmas — `MvccStream` over a source emits, from both ends, the newest version of every key.
-/
namespace Lsm
set_option linter.unusedSectionVars false
variable {K : Type}

/-! ### generic list facts -/

theorem find?_dropWhile_of_disjoint {α : Type} (p q : α → Bool) (h : ∀ x, p x = true → q x = false) (l : List α) :
    (l.dropWhile p).find? q = l.find? q := by
  induction l with
  | nil => rfl
  | cons a t ih =>
    rw [List.dropWhile_cons]
    split
    · rename_i hp
      rw [ih, List.find?_cons, h a hp]
    · rfl

theorem dropWhile_append_singleton {α : Type} (p : α → Bool) (l : List α) (t : α) (h : p t = false) :
    (l ++ [t]).dropWhile p = l.dropWhile p ++ [t] := by
  induction l with
  | nil => simp [h]
  | cons a tl ih =>
    rw [List.cons_append, List.dropWhile_cons, List.dropWhile_cons]
    split
    · exact ih
    · rfl

theorem mem_dropWhile_of_not {α : Type} (p : α → Bool) (l : List α) (x : α) (hx : x ∈ l) (h : p x = false) :
    x ∈ l.dropWhile p := by
  induction l with
  | nil => cases hx
  | cons a tl ih =>
    rw [List.dropWhile_cons]
    split
    · rename_i hp
      rcases List.mem_cons.mp hx with rfl | hx
      · rw [h] at hp; cases hp
      · exact ih hx
    · exact hx

theorem dropWhile_eq_nil_of_all {α : Type} (p : α → Bool) (l : List α) (h : ∀ x ∈ l, p x = true) :
    l.dropWhile p = [] := by
  induction l with
  | nil => rfl
  | cons a tl ih =>
    rw [List.dropWhile_cons, if_pos (h a List.mem_cons_self)]
    exact ih (fun x hx => h x (List.mem_cons_of_mem _ hx))

theorem mem_of_mem_dropWhile {α : Type} (p : α → Bool) (l : List α) (x : α) (hx : x ∈ l.dropWhile p) : x ∈ l :=
  (List.dropWhile_sublist p).subset hx

section
variable [DecidableEq K]

theorem newestPerKey_nil : newestPerKey ([] : List (Entry K)) = [] := by
  simp [newestPerKey]

theorem newestPerKey_cons (h : Entry K) (t : List (Entry K)) :
    newestPerKey (h :: t) = h :: newestPerKey (t.dropWhile (fun e => decide (e.key = h.key))) := by
  rw [newestPerKey]

theorem newestPerKey_sublist (l : List (Entry K)) : (newestPerKey l).Sublist l := by
  fun_induction newestPerKey l with
  | case1 => exact List.Sublist.slnil
  | case2 h t ih =>
    exact List.Sublist.cons_cons h (ih.trans (List.dropWhile_sublist _))

theorem newestPerKey_find? (l : List (Entry K)) (k : K) :
    (newestPerKey l).find? (fun e => decide (e.key = k)) = l.find? (fun e => decide (e.key = k)) := by
  fun_induction newestPerKey l with
  | case1 => rfl
  | case2 h t ih =>
    rw [List.find?_cons, List.find?_cons]
    split
    · rfl
    · rename_i hk
      rw [ih]
      apply find?_dropWhile_of_disjoint
      intro x hx
      simp at hx hk ⊢
      rw [hx]; exact hk

/-- appending an entry of a fresh key -/
theorem newestPerKey_append_new (l : List (Entry K)) (t : Entry K) (h : ∀ x ∈ l, x.key ≠ t.key) :
    newestPerKey (l ++ [t]) = newestPerKey l ++ [t] := by
  fun_induction newestPerKey l with
  | case1 => simp [newestPerKey]
  | case2 a tl ih =>
    rw [List.cons_append, newestPerKey_cons, dropWhile_append_singleton, ih, List.cons_append]
    · intro x hx
      exact h x (List.mem_cons_of_mem _ (mem_of_mem_dropWhile _ _ _ hx))
    · have := h a List.mem_cons_self
      simp
      exact fun hc => this hc.symm

end

section
variable [LT K] [DecidableLT K] [DecidableEq K]
variable [LE K] [Std.IsLinearOrder K] [Std.LawfulOrderLT K]

theorem IsSource.dropWhile {l : List (Entry K)} (h : IsSource l) (p : Entry K → Bool) : IsSource (l.dropWhile p) :=
  h.sublist (List.dropWhile_sublist p)

/-- after draining the head's key from a source, all remaining keys are strictly greater -/
theorem IsSource.dropWhile_key_lt {h : Entry K} {t : List (Entry K)} (hs : IsSource (h :: t)) :
    ∀ x ∈ t.dropWhile (fun e => decide (e.key = h.key)), h.key < x.key := by
  intro x hx
  have hm : x ∈ t := mem_of_mem_dropWhile _ _ _ hx
  have h1 := hs.head_lt x hm
  rw [ikLt_iff] at h1
  rcases h1 with h1 | ⟨hk, _⟩
  · exact h1
  · -- x has the head's key, so does everything before it in `t`: x would have been dropped
    exfalso
    induction t with
    | nil => cases hx
    | cons a tl ih =>
      rw [List.dropWhile_cons] at hx
      split at hx
      · rcases List.mem_cons.mp hm with rfl | hm'
        · exact ih (hs.sublist (by simp)) hx (mem_of_mem_dropWhile _ _ _ hx)
        · exact ih (hs.sublist (by simp)) hx hm'
      · rename_i hne
        simp at hne
        rcases List.mem_cons.mp hx with rfl | hx'
        · exact hne hk.symm
        · have h2 := hs.head_lt a List.mem_cons_self
          have h3 := hs.tail.head_lt x hx'
          rw [ikLt_iff] at h2 h3
          grind

theorem newestPerKey_keys_lt {l : List (Entry K)} (hs : IsSource l) :
    (newestPerKey l).Pairwise (fun a b => a.key < b.key) := by
  fun_induction newestPerKey l with
  | case1 => exact List.Pairwise.nil
  | case2 h t ih =>
    refine List.Pairwise.cons ?_ (ih (hs.tail.dropWhile _))
    intro x hx
    exact hs.dropWhile_key_lt x ((newestPerKey_sublist _).subset hx)

/-- `newestPerKey` of a source: the first entry of every user key, in order -/
theorem newestPerKey_spec {l : List (Entry K)} (hs : IsSource l) :
    (newestPerKey l).Sublist l ∧
    (newestPerKey l).Pairwise (fun a b => a.key < b.key) ∧
    ∀ k, (newestPerKey l).find? (fun e => decide (e.key = k)) = l.find? (fun e => decide (e.key = k)) :=
  ⟨newestPerKey_sublist l, newestPerKey_keys_lt hs, newestPerKey_find? l⟩

/-- appending an older version of a key that is already present changes nothing -/
theorem newestPerKey_append_old (l : List (Entry K)) (t : Entry K) (hs : IsSource (l ++ [t]))
    (h : ∃ x ∈ l, x.key = t.key) : newestPerKey (l ++ [t]) = newestPerKey l := by
  fun_induction newestPerKey l with
  | case1 => obtain ⟨x, hx, _⟩ := h; cases hx
  | case2 a tl ih =>
    rw [List.cons_append, newestPerKey_cons]
    rw [List.cons_append] at hs
    by_cases hk : a.key = t.key
    · -- everything in `tl ++ [t]` has the key of `a`
      have hall : ∀ x ∈ tl ++ [t], x.key = a.key := by
        intro x hx
        rcases List.mem_append.mp hx with hx' | hx'
        · have h1 := hs.head_lt x hx
          have h2 : ikLt x t = true := (List.pairwise_append.mp hs.tail).2.2 x hx' t (by simp)
          rw [ikLt_iff] at h1 h2
          grind
        · simp at hx'; rw [hx', hk]
      have e1 : (tl ++ [t]).dropWhile (fun e => decide (e.key = a.key)) = [] := by
        apply dropWhile_eq_nil_of_all; intro x hx; simp [hall x hx]
      have e2 : tl.dropWhile (fun e => decide (e.key = a.key)) = [] := by
        apply dropWhile_eq_nil_of_all; intro x hx; simp [hall x (List.mem_append_left _ hx)]
      rw [e1, e2]
    · have hk' : (fun e : Entry K => decide (e.key = a.key)) t = false := by
        simp; exact fun hc => hk hc.symm
      rw [dropWhile_append_singleton (fun e : Entry K => decide (e.key = a.key)) _ _ hk', ih]
      · rw [← dropWhile_append_singleton (fun e : Entry K => decide (e.key = a.key)) _ _ hk']
        exact hs.tail.dropWhile _
      · obtain ⟨x, hx, hxk⟩ := h
        rcases List.mem_cons.mp hx with rfl | hx'
        · exact absurd hxk hk
        · refine ⟨x, mem_dropWhile_of_not _ _ _ hx' ?_, hxk⟩
          simp; rw [hxk]; exact fun hc => hk hc.symm

/-! ### one-step lemmas -/

theorem mvccNext_source {l : List (Entry K)} (hs : IsSource l) :
    (l = [] → mvccNext l = (none, [])) ∧
    (∀ h t, l = h :: t → mvccNext l = (some h, t.dropWhile (fun e => decide (e.key = h.key))) ∧
      IsSource (t.dropWhile (fun e => decide (e.key = h.key))) ∧
      newestPerKey l = h :: newestPerKey (t.dropWhile (fun e => decide (e.key = h.key)))) := by
  constructor
  · rintro rfl; rfl
  · rintro h t rfl
    exact ⟨rfl, hs.tail.dropWhile _, newestPerKey_cons h t⟩

theorem mvccNextBackRev_spec (r : List (Entry K)) (hs : IsSource r.reverse) :
    (r = [] → mvccNextBackRev r = (none, [])) ∧
    (r ≠ [] → ∃ x r', mvccNextBackRev r = (some x, r') ∧ IsSource r'.reverse ∧
        newestPerKey r.reverse = newestPerKey r'.reverse ++ [x]) := by
  fun_induction mvccNextBackRev r with
  | case1 => simp
  | case2 t =>
    refine ⟨by simp, fun _ => ⟨t, [], rfl, by simp [IsSource], ?_⟩⟩
    simp [newestPerKey]
  | case3 t p rest hlt =>
    refine ⟨by simp, fun _ => ⟨t, p :: rest, rfl, ?_, ?_⟩⟩
    · rw [List.reverse_cons] at hs
      exact (List.pairwise_append.mp hs).1
    · rw [List.reverse_cons (a := t)]
      apply newestPerKey_append_new
      intro x hx
      rw [List.reverse_cons (a := t)] at hs
      have h1 : ikLt x t = true := (List.pairwise_append.mp hs).2.2 x hx t (by simp)
      have hs' := (List.pairwise_append.mp hs).1
      rw [List.reverse_cons] at hs' hx
      rcases List.mem_append.mp hx with hx' | hx'
      · have h2 : ikLt x p = true := (List.pairwise_append.mp hs').2.2 x hx' p (by simp)
        rw [ikLt_iff] at h2
        grind
      · simp at hx'; subst hx'; grind
  | case4 t p rest hlt ih =>
    rw [List.reverse_cons (a := t)] at hs
    have hs' : IsSource (p :: rest).reverse := (List.pairwise_append.mp hs).1
    obtain ⟨x, r', h1, h2, h3⟩ := (ih hs').2 (by simp)
    refine ⟨by simp, fun _ => ⟨x, r', h1, h2, ?_⟩⟩
    rw [List.reverse_cons (a := t), newestPerKey_append_old _ _ hs, h3]
    refine ⟨p, by simp, ?_⟩
    have h4 : ikLt p t = true := (List.pairwise_append.mp hs).2.2 p (by simp) t (by simp)
    rw [ikLt_iff] at h4
    grind

theorem mvccNextBack_source {l : List (Entry K)} (hs : IsSource l) :
    (l = [] → mvccNextBack l = (none, [])) ∧
    (l ≠ [] → ∃ x rest, mvccNextBack l = (some x, rest) ∧ IsSource rest ∧
        newestPerKey l = newestPerKey rest ++ [x]) := by
  have := mvccNextBackRev_spec l.reverse (by simpa using hs)
  constructor
  · rintro rfl; rfl
  · intro hne
    obtain ⟨x, r', h1, h2, h3⟩ := this.2 (by simpa using hne)
    refine ⟨x, r'.reverse, ?_, h2, by simpa using h3⟩
    simp [mvccNextBack, h1]

/-! ### main theorem -/

theorem mvcc_both_ends {l : List (Entry K)} (hs : IsSource l) (w : List Dir) :
    mvccRun l w = bothEnds (newestPerKey l) w := by
  induction w generalizing l with
  | nil => simp [mvccRun, bothEnds]
  | cons d w ih =>
    cases d with
    | F =>
      cases l with
      | nil =>
        simp only [mvccRun, mvccNext, newestPerKey_nil, bothEnds]
        rw [ih isSource_nil, newestPerKey_nil]
      | cons h t =>
        simp only [mvccRun, mvccNext, newestPerKey_cons, bothEnds]
        rw [ih (hs.tail.dropWhile _)]
    | B =>
      by_cases hne : l = []
      · subst hne
        simp only [mvccRun, (mvccNextBack_source (K := K) isSource_nil).1 rfl, newestPerKey_nil, bothEnds,
          List.reverse_nil]
        rw [ih isSource_nil, newestPerKey_nil]
      · obtain ⟨x, rest, h1, h2, h3⟩ := (mvccNextBack_source hs).2 hne
        simp only [mvccRun, h1, h3, bothEnds, List.reverse_append, List.reverse_cons, List.reverse_nil,
          List.nil_append, List.singleton_append, List.reverse_reverse]
        rw [ih h2]

end

end Lsm

#print axioms Lsm.newestPerKey_spec
#print axioms Lsm.mvccNext_source
#print axioms Lsm.mvccNextBack_source
#print axioms Lsm.mvcc_both_ends
