import LsmModel.Table.Run
/-
  LsmModel.Lemmas.RunLemmas — facts about runs and the run lookup functions of `LsmModel.Table.Run`.
-/
set_option linter.unusedSectionVars false
namespace Lsm
variable {K : Type} [LT K]

/-- the two "sortedness" conjuncts of RUN, without non-emptiness (closed under tails — convenient for induction) -/
def RunSorted (r : Run K) : Prop :=
  (∀ t ∈ r, ¬ t.hi < t.lo) ∧ r.Pairwise (fun a b => a.hi < b.lo)

/-- RUN as a Prop: non-empty, every table lo ≤ hi, consecutive tables strictly separated -/
def RunOk (r : Run K) : Prop :=
  r ≠ [] ∧ (∀ t ∈ r, ¬ t.hi < t.lo) ∧ r.Pairwise (fun a b => a.hi < b.lo)

theorem RunOk.sorted {r : Run K} (h : RunOk r) : RunSorted r := ⟨h.2.1, h.2.2⟩

theorem runOk_iff_sorted {r : Run K} : RunOk r ↔ r ≠ [] ∧ RunSorted r := Iff.rfl

theorem RunSorted.nil : RunSorted ([] : Run K) := by simp [RunSorted]

theorem runSorted_cons {x : TableM K} {xs : Run K} :
    RunSorted (x :: xs) ↔ ¬ x.hi < x.lo ∧ (∀ y ∈ xs, x.hi < y.lo) ∧ RunSorted xs := by
  simp only [RunSorted, List.mem_cons, forall_eq_or_imp, List.pairwise_cons]
  constructor
  · rintro ⟨⟨h1, h2⟩, h3, h4⟩; exact ⟨h1, h3, h2, h4⟩
  · rintro ⟨h1, h3, h2, h4⟩; exact ⟨⟨h1, h2⟩, h3, h4⟩

theorem RunSorted.tail {x : TableM K} {xs : Run K} (h : RunSorted (x :: xs)) : RunSorted xs :=
  (runSorted_cons.1 h).2.2

variable [DecidableLT K] [DecidableEq K]

/-! ### (a) partitionPoint -/

theorem partitionPoint_eq_takeWhile {α : Type} (p : α → Bool) (l : List α) :
    partitionPoint p l = (l.takeWhile p).length := by
  induction l with
  | nil => rfl
  | cons x xs ih =>
    simp only [partitionPoint, List.takeWhile_cons]
    split <;> simp [ih]

theorem partitionPoint_le_length {α : Type} (p : α → Bool) (l : List α) :
    partitionPoint p l ≤ l.length := by
  induction l with
  | nil => simp [partitionPoint]
  | cons x xs ih => simp only [partitionPoint]; split <;> simp <;> omega

/-- everything strictly before the partition point satisfies the predicate (unconditionally) -/
theorem partitionPoint_before {α : Type} (p : α → Bool) (l : List α) (i : Nat) (h : i < l.length)
    (hi : i < partitionPoint p l) : p l[i] = true := by
  induction l generalizing i with
  | nil => simp at h
  | cons x xs ih =>
    simp only [partitionPoint] at hi
    split at hi
    · cases i with
      | zero => simpa
      | succ j => simp only [List.getElem_cons_succ]; exact ih j (by simpa using h) (by omega)
    · omega

/-- the element at the partition point (if any) fails the predicate (unconditionally) -/
theorem partitionPoint_at {α : Type} (p : α → Bool) (l : List α) (h : partitionPoint p l < l.length) :
    p l[partitionPoint p l] = false := by
  induction l with
  | nil => simp at h
  | cons x xs ih =>
    by_cases hx : p x = true
    · have e : partitionPoint p (x :: xs) = partitionPoint p xs + 1 := by simp [partitionPoint, hx]
      have h' : partitionPoint p xs < xs.length := by simp [e] at h; exact h
      simp only [e, List.getElem_cons_succ]
      exact ih h'
    · have e : partitionPoint p (x :: xs) = 0 := by simp [partitionPoint, hx]
      simp only [e, List.getElem_cons_zero]
      simpa using hx

/-- (a) `partition_point` contract: if `p` holds exactly on the first `n` elements, the result is `n`. -/
theorem partitionPoint_spec {α : Type} (p : α → Bool) (l : List α) (n : Nat) (hn : n ≤ l.length)
    (h1 : ∀ i (h : i < l.length), i < n → p l[i] = true)
    (h2 : ∀ i (h : i < l.length), n ≤ i → p l[i] = false) :
    partitionPoint p l = n := by
  have hle := partitionPoint_le_length p l
  apply Nat.le_antisymm
  · -- pp ≤ n : otherwise element n satisfies p, but h2 says not
    apply Nat.le_of_not_lt
    intro hlt
    have hnl : n < l.length := by omega
    have := partitionPoint_before p l n hnl hlt
    have := h2 n hnl (Nat.le_refl _)
    simp_all
  · apply Nat.le_of_not_lt
    intro hlt
    have hpl : partitionPoint p l < l.length := by omega
    have := partitionPoint_at p l hpl
    have := h1 _ hpl hlt
    simp_all

/-- existential form of (a): if *some* `n` splits the list into a `p`-prefix and a `¬p`-suffix, then
    `partitionPoint p l` is such a split point (and equals that `n`) -/
theorem partitionPoint_spec' {α : Type} (p : α → Bool) (l : List α)
    (h : ∃ n, n ≤ l.length ∧ (∀ i (h : i < l.length), i < n → p l[i] = true) ∧
          (∀ i (h : i < l.length), n ≤ i → ¬ p l[i] = true)) :
    (∀ i (h : i < l.length), i < partitionPoint p l → p l[i] = true) ∧
    (∀ i (h : i < l.length), partitionPoint p l ≤ i → ¬ p l[i] = true) := by
  obtain ⟨n, hn, h1, h2⟩ := h
  rw [partitionPoint_spec p l n hn h1 (fun i h hi => by simpa using h2 i h hi)]
  exact ⟨h1, h2⟩

/-- for a predicate that is monotone along the list (true at a later element ⇒ true at every earlier one),
    the partition point separates exactly: `i < partitionPoint ↔ p l[i]`. -/
theorem lt_partitionPoint_iff {α : Type} (p : α → Bool) (l : List α)
    (hmono : l.Pairwise (fun a b => p b = true → p a = true)) (i : Nat) (h : i < l.length) :
    i < partitionPoint p l ↔ p l[i] = true := by
  constructor
  · exact partitionPoint_before p l i h
  · intro hp
    apply Nat.lt_of_not_le
    intro hle
    have hpl : partitionPoint p l < l.length := by omega
    have hat := partitionPoint_at p l hpl
    rcases Nat.lt_or_eq_of_le hle with hlt | heq
    · have := (List.pairwise_iff_getElem.1 hmono) _ _ hpl h hlt hp
      simp_all
    · simp [heq] at hat; simp_all

/-! ### getForKey: facts that need no order axioms -/

theorem getForKey_cons_lt {x : TableM K} {xs : Run K} {k : K} (h : x.hi < k) :
    getForKey (x :: xs) k = getForKey xs k := by
  simp [getForKey, partitionPoint, h]

theorem getForKey_cons_nlt {x : TableM K} {xs : Run K} {k : K} (h : ¬ x.hi < k) :
    getForKey (x :: xs) k = if ¬ k < x.lo then some x else none := by
  simp [getForKey, partitionPoint, h]

/-- unconditional soundness: the returned table belongs to the run and contains the key -/
theorem getForKey_sound {r : Run K} {k : K} {t : TableM K} (h : getForKey r k = some t) :
    t ∈ r ∧ t.containsKey k = true := by
  unfold getForKey at h
  simp only at h
  split at h
  · rename_i t' ht'
    split at h
    · rename_i hk
      simp only [Option.some.injEq] at h
      subst h
      obtain ⟨hlt, hget⟩ := List.getElem?_eq_some_iff.1 ht'
      refine ⟨List.mem_of_getElem? ht', ?_⟩
      have := partitionPoint_at (fun t : TableM K => decide (t.hi < k)) r hlt
      rw [hget] at this
      simp only [TableM.containsKey, Bool.and_eq_true]
      exact ⟨hk, by simpa using this⟩
    · simp at h
  · simp at h

/-! ### runOkB ↔ RunOk -/
section Order
variable [LE K] [Std.IsLinearOrder K] [Std.LawfulOrderLT K]

theorem runOkB_iff {r : Run K} : runOkB r = true ↔ RunOk r := by
  fun_induction runOkB r with
  | case1 => simp [RunOk]
  | case2 t => simp [RunOk]
  | case3 a b rest ih =>
    simp only [Bool.and_eq_true, ih]
    simp only [RunOk, List.mem_cons, forall_eq_or_imp, List.pairwise_cons, ne_eq, reduceCtorEq,
      not_false_eq_true, true_and, Bool.not_eq_eq_eq_not, Bool.not_true, decide_eq_false_iff_not,
      decide_eq_true_eq]
    grind

/-! ### (b) getForKey -/

theorem getForKey_eq_find_of_sorted {r : Run K} (h : RunSorted r) (k : K) :
    getForKey r k = r.find? (fun t => t.containsKey k) := by
  induction r with
  | nil => simp [getForKey, partitionPoint]
  | cons x xs ih =>
    have hs := runSorted_cons.1 h
    by_cases hx : x.hi < k
    · rw [getForKey_cons_lt hx, ih hs.2.2]
      simp [TableM.containsKey, hx]
    · rw [getForKey_cons_nlt hx]
      by_cases hk : k < x.lo
      · simp only [hk, not_true_eq_false, ↓reduceIte]
        symm
        rw [List.find?_eq_none]
        intro y hy
        simp only [List.mem_cons] at hy
        simp only [TableM.containsKey, Bool.and_eq_true, Bool.not_eq_eq_eq_not, Bool.not_true,
          decide_eq_false_iff_not, not_and, Decidable.not_not]
        rcases hy with rfl | hy
        · intro h'; exact absurd hk h'
        · have := hs.2.1 y hy
          intro h'; grind
      · simp [TableM.containsKey, hx, hk]

/-- (b) in a RUN, `get_for_key` returns the first (hence the only) table whose key range contains `k` -/
theorem get_for_key_unique {r : Run K} (h : RunOk r) (k : K) :
    getForKey r k = r.find? (fun t => t.containsKey k) :=
  getForKey_eq_find_of_sorted h.sorted k

/-- a table of the run containing `k` is the one found -/
theorem getForKey_complete {r : Run K} (h : RunOk r) {k : K} {t : TableM K} (ht : t ∈ r)
    (hk : t.containsKey k = true) : getForKey r k = some t := by
  rw [get_for_key_unique h k]
  -- uniqueness of the containing table in a sorted run
  have hs := h.sorted
  clear h
  induction r with
  | nil => simp at ht
  | cons x xs ih =>
    have hc := runSorted_cons.1 hs
    simp only [List.mem_cons] at ht
    simp only [TableM.containsKey, Bool.and_eq_true, Bool.not_eq_eq_eq_not, Bool.not_true,
      decide_eq_false_iff_not] at hk
    rcases ht with rfl | ht
    · simp [TableM.containsKey, hk]
    · have hx : x.containsKey k = false := by
        have := hc.2.1 t ht
        simp only [TableM.containsKey, Bool.and_eq_false_iff, Bool.not_eq_eq_eq_not, Bool.not_false,
          decide_eq_true_eq]
        grind
      rw [List.find?_cons, hx]
      exact ih ht hc.2.2

end Order

/-! ### (c) rangeOverlapIndexes -/

/-- lower side of "table `t` has a key inside the bounds": the table's `hi` is not cut off by the lower bound -/
def meetsLo (lo : Bound K) (t : TableM K) : Bool :=
  match lo with
  | .unb => true
  | .incl s => !decide (t.hi < s)
  | .excl s => decide (s < t.hi)

/-- upper side: the table's `lo` is not cut off by the upper bound -/
def meetsHi (hi : Bound K) (t : TableM K) : Bool :=
  match hi with
  | .unb => true
  | .incl e => !decide (e < t.lo)
  | .excl e => decide (t.lo < e)

/-- the key range `[t.lo, t.hi]` meets the bounds `(lo, hi)` (no quantification over keys) -/
def tableMeets (lo hi : Bound K) (t : TableM K) : Bool := meetsLo lo t && meetsHi hi t

theorem partitionPoint_false {α : Type} (l : List α) : partitionPoint (fun _ => false) l = 0 := by
  cases l <;> simp [partitionPoint]

theorem partitionPoint_true {α : Type} (l : List α) : partitionPoint (fun _ => true) l = l.length := by
  induction l with
  | nil => rfl
  | cons x xs ih => simp [partitionPoint, ih]

theorem roi_aux (l c : Nat) :
    (match (if l + c = 0 then (none : Option Nat) else some (l + c - 1)) with
      | none => (none : Option (Nat × Nat))
      | some h => if h < l then none else some (l, h)) =
    if c = 0 then none else some (l, l + c - 1) := by
  by_cases hc : c = 0
  · subst hc
    by_cases hl : l = 0
    · simp [hl]
    · simp only [Nat.add_zero, hl, ↓reduceIte]
      have : l - 1 < l := by omega
      simp [this]
  · have h1 : ¬ l + c = 0 := by omega
    have h2 : ¬ l + c - 1 < l := by omega
    simp [hc, h2]

theorem roi_aux2 (l len : Nat) (h : ¬ len ≤ l) :
    (if len - 1 < l then (none : Option (Nat × Nat)) else some (l, len - 1)) =
    if len - l = 0 then none else some (l, l + (len - l) - 1) := by
  have h1 : ¬ len - 1 < l := by omega
  have h2 : ¬ len - l = 0 := by omega
  have h3 : l + (len - l) - 1 = len - 1 := by omega
  simp [h1, h2, h3]

/-- uniform normal form of `rangeOverlapIndexes` (all nine bound combinations, including both `idx = 0` branches) -/
theorem rangeOverlapIndexes_eq (r : Run K) (lo hi : Bound K) :
    rangeOverlapIndexes r lo hi =
      (let l := partitionPoint (fun t => !meetsLo lo t) r
       if l ≥ r.length then none
       else
         let c := partitionPoint (meetsHi hi) (r.drop l)
         if c = 0 then none else some (l, l + c - 1)) := by
  have hT : ∀ l, l < r.length → partitionPoint (meetsHi (Bound.unb : Bound K)) (r.drop l) = r.length - l := by
    intro l _
    have : meetsHi (Bound.unb : Bound K) = fun _ => true := by funext t; rfl
    rw [this, partitionPoint_true]; simp
  cases lo <;> cases hi <;>
    simp only [rangeOverlapIndexes, meetsLo, Bool.not_not, Bool.not_true,
      partitionPoint_false, ge_iff_le, gt_iff_lt] <;>
    split <;> try rfl
  case incl.incl => exact roi_aux _ _
  case incl.excl => exact roi_aux _ _
  case excl.incl => exact roi_aux _ _
  case excl.excl => exact roi_aux _ _
  case unb.incl => exact roi_aux _ _
  case unb.excl => exact roi_aux _ _
  all_goals
    rename_i h
    simp only [hT _ (Nat.lt_of_not_le h)]
    exact roi_aux2 _ _ h

section Order2
variable [LE K] [Std.IsLinearOrder K] [Std.LawfulOrderLT K]

/-- in a sorted run both `lo` and `hi` are strictly ascending -/
theorem RunSorted.pairwise_strong {r : Run K} (h : RunSorted r) :
    r.Pairwise (fun a b => a.hi < b.lo ∧ a.lo < b.lo ∧ a.hi < b.hi) := by
  refine List.Pairwise.imp_of_mem ?_ h.2
  intro a b ha hb hab
  have := h.1 a ha
  have := h.1 b hb
  grind

theorem meetsLo_mono {r : Run K} (h : RunSorted r) (lo : Bound K) :
    r.Pairwise (fun a b => (!meetsLo lo b) = true → (!meetsLo lo a) = true) := by
  refine List.Pairwise.imp ?_ h.pairwise_strong
  intro a b hab
  cases lo <;> simp only [meetsLo, Bool.not_not, Bool.not_true, Bool.not_eq_eq_eq_not, decide_eq_true_eq,
    decide_eq_false_iff_not] <;> grind

theorem meetsHi_mono {r : Run K} (h : RunSorted r) (hi : Bound K) :
    r.Pairwise (fun a b => meetsHi hi b = true → meetsHi hi a = true) := by
  refine List.Pairwise.imp ?_ h.pairwise_strong
  intro a b hab
  cases hi <;> simp only [meetsHi, Bool.not_eq_eq_eq_not, Bool.not_true, decide_eq_true_eq,
    decide_eq_false_iff_not] <;> grind

/-- position of the lower cut: tables strictly before it are exactly those missing the lower bound -/
theorem lowCut_spec {r : Run K} (h : RunSorted r) (lo : Bound K) (i : Nat) (hi : i < r.length) :
    i < partitionPoint (fun t => !meetsLo lo t) r ↔ meetsLo lo r[i] = false := by
  rw [lt_partitionPoint_iff _ r (meetsLo_mono h lo) i hi]
  simp

/-- position of the upper cut inside the truncated slice -/
theorem highCut_spec {r : Run K} (h : RunSorted r) (hi : Bound K) (l i : Nat) (hli : l ≤ i)
    (hi' : i < r.length) :
    i - l < partitionPoint (meetsHi hi) (r.drop l) ↔ meetsHi hi r[i] = true := by
  have hmono : (r.drop l).Pairwise (fun a b => meetsHi hi b = true → meetsHi hi a = true) :=
    (meetsHi_mono h hi).sublist (List.drop_sublist l r)
  have hlen : i - l < (r.drop l).length := by simp; omega
  rw [lt_partitionPoint_iff _ _ hmono (i - l) hlen]
  have : (r.drop l)[i - l] = r[i] := by
    rw [List.getElem_drop]; congr 1; omega
  rw [this]

/-- (c) for sorted runs (non-emptiness is not needed) -/
theorem range_overlap_exact_of_sorted {r : Run K} (h : RunSorted r) (lo hi : Bound K) :
    match rangeOverlapIndexes r lo hi with
    | some (a, b) => a ≤ b ∧ b < r.length ∧
        ∀ i (hi' : i < r.length), (a ≤ i ∧ i ≤ b) ↔ tableMeets lo hi r[i] = true
    | none => ∀ t ∈ r, tableMeets lo hi t = false := by
  rw [rangeOverlapIndexes_eq]
  simp only
  have hc_le := partitionPoint_le_length (meetsHi hi) (r.drop (partitionPoint (fun t => !meetsLo lo t) r))
  have hL := lowCut_spec h lo
  have hH := highCut_spec h hi (partitionPoint (fun t => !meetsLo lo t) r)
  generalize partitionPoint (meetsHi hi) (r.drop (partitionPoint (fun t => !meetsLo lo t) r)) = c at *
  generalize partitionPoint (fun t => !meetsLo lo t) r = l at *
  simp only [List.length_drop] at hc_le
  by_cases hge : l ≥ r.length
  · -- every table misses the lower bound
    rw [if_pos hge]
    intro t ht
    obtain ⟨i, hi', rfl⟩ := List.mem_iff_getElem.1 ht
    have := (hL i hi').1 (by omega)
    simp [tableMeets, this]
  · rw [if_neg hge]
    by_cases hc0 : c = 0
    · -- the first table of the slice already misses the upper bound
      rw [if_pos hc0]
      subst hc0
      intro t ht
      obtain ⟨i, hi', rfl⟩ := List.mem_iff_getElem.1 ht
      by_cases hil : i < l
      · have := (hL i hi').1 hil
        simp [tableMeets, this]
      · have h1 := hH i (by omega) hi'
        have : meetsHi hi r[i] = false := by
          cases hm : meetsHi hi r[i] with
          | false => rfl
          | true => have := h1.2 hm; omega
        simp [tableMeets, this]
    · rw [if_neg hc0]
      refine ⟨by omega, by omega, ?_⟩
      intro i hi'
      simp only [tableMeets, Bool.and_eq_true]
      constructor
      · rintro ⟨h1, h2⟩
        constructor
        · cases hm : meetsLo lo r[i] with
          | true => rfl
          | false => have := (hL i hi').2 hm; omega
        · exact (hH i h1 hi').1 (by omega)
      · rintro ⟨h1, h2⟩
        have hli : l ≤ i := by
          apply Nat.le_of_not_lt
          intro hil
          have := (hL i hi').1 hil
          simp [h1] at this
        have := (hH i hli hi').2 h2
        exact ⟨hli, by omega⟩

/-- (c) `range_overlap_indexes` returns exactly the index interval of the tables meeting the bounds;
    `none` iff no table meets them. Holds for all bounds, inverted/empty ones included. -/
theorem range_overlap_exact {r : Run K} (h : RunOk r) (lo hi : Bound K) :
    match rangeOverlapIndexes r lo hi with
    | some (a, b) => a ≤ b ∧ b < r.length ∧
        ∀ i (hi' : i < r.length), (a ≤ i ∧ i ≤ b) ↔ tableMeets lo hi r[i] = true
    | none => ∀ t ∈ r, tableMeets lo hi t = false :=
  range_overlap_exact_of_sorted h.sorted lo hi

/-- link to keys: a table holding a key inside the bounds meets the bounds -/
theorem tableMeets_of_key {lo hi : Bound K} {t : TableM K} {k : K} (hk : t.containsKey k = true)
    (hb : inBounds lo hi k = true) : tableMeets lo hi t = true := by
  simp only [TableM.containsKey, Bool.and_eq_true, Bool.not_eq_eq_eq_not, Bool.not_true,
    decide_eq_false_iff_not] at hk
  simp only [inBounds, Bool.and_eq_true] at hb
  simp only [tableMeets, Bool.and_eq_true]
  constructor
  · have := hb.1
    cases lo <;> simp only [Bound.okLo, meetsLo, Bool.not_eq_eq_eq_not, Bool.not_true,
      decide_eq_true_eq, decide_eq_false_iff_not] at * <;> grind
  · have := hb.2
    cases hi <;> simp only [Bound.okHi, meetsHi, Bool.not_eq_eq_eq_not, Bool.not_true,
      decide_eq_true_eq, decide_eq_false_iff_not] at * <;> grind

/-- soundness direction used by the real system: no needed table is culled — every table of the run that
    contains a key inside the bounds lies within the returned index interval (and the result is not `none`). -/
theorem range_overlap_complete {r : Run K} (h : RunOk r) (lo hi : Bound K) (i : Nat) (hi' : i < r.length)
    (k : K) (hk : r[i].containsKey k = true) (hb : inBounds lo hi k = true) :
    ∃ a b, rangeOverlapIndexes r lo hi = some (a, b) ∧ a ≤ i ∧ i ≤ b := by
  have hm := tableMeets_of_key hk hb
  have := range_overlap_exact h lo hi
  split at this
  · rename_i a b heq
    exact ⟨a, b, heq, (this.2.2 i hi').2 hm⟩
  · have := this r[i] (List.getElem_mem hi')
    simp [hm] at this

end Order2

/-! ### (d) getContained / getOverlapping -/

/-- an element of `trim_slice` lies between (inclusive) two elements satisfying the predicate -/
theorem mem_trimSlice {α : Type} (p : α → Bool) (s : List α) (t : α) (h : t ∈ trimSlice p s) :
    ∃ i j k, ∃ (hk : k < s.length) (hij : i ≤ j) (hjk : j ≤ k),
      p (s[i]'(by omega)) = true ∧ p s[k] = true ∧ s[j]'(by omega) = t := by
  unfold trimSlice at h
  simp only at h
  cases hf : s.findIdx? p with
  | none => simp [hf] at h
  | some a =>
    obtain ⟨ha, hpa, _⟩ := List.findIdx?_eq_some_iff_getElem.1 hf
    cases hr : s.reverse.findIdx? p with
    | none => simp [hf, hr] at h
    | some b =>
      obtain ⟨hb, hpb, _⟩ := List.findIdx?_eq_some_iff_getElem.1 hr
      simp only [hf, hr, Option.getD_some] at h
      obtain ⟨j, hj, hjt⟩ := List.mem_iff_getElem.1 h
      simp only [List.length_take, List.length_drop] at hj
      simp only [List.getElem_take, List.getElem_drop] at hjt
      simp only [List.length_reverse] at hb
      rw [List.getElem_reverse] at hpb
      have hj1 : j < s.length - b - a := Nat.lt_of_lt_of_le hj (Nat.min_le_left _ _)
      have e1 : s.length - 1 - b < s.length := by omega
      have e2 : a ≤ a + j := by omega
      have e3 : a + j ≤ s.length - 1 - b := by omega
      exact ⟨a, a + j, s.length - 1 - b, e1, e2, e3, hpa, hpb, hjt⟩

theorem mem_of_mem_trimSlice {α : Type} (p : α → Bool) (s : List α) (t : α) (h : t ∈ trimSlice p s) :
    t ∈ s := by
  obtain ⟨i, j, k, hk, hij, hjk, _, _, rfl⟩ := mem_trimSlice p s t h
  exact List.getElem_mem _

section Order3
variable [LE K] [Std.IsLinearOrder K] [Std.LawfulOrderLT K]

/-- (d) for sorted runs -/
theorem getContained_sound_of_sorted {r : Run K} (h : RunSorted r) (lo hi : K) :
    ∀ t ∈ getContained r lo hi, t ∈ r ∧ rangeContains lo hi t = true := by
  intro t ht
  unfold getContained at ht
  split at ht
  · simp at ht
  · rename_i a b _
    have hsub : ((r.drop a).take (b - a + 1)).Sublist r :=
      (List.take_sublist _ _).trans (List.drop_sublist _ _)
    have hpw := h.pairwise_strong.sublist hsub
    obtain ⟨i, j, k, hk, hij, hjk, hpi, hpk, rfl⟩ := mem_trimSlice _ _ t ht
    refine ⟨hsub.subset (List.getElem_mem _), ?_⟩
    simp only [rangeContains, Bool.and_eq_true, Bool.not_eq_eq_eq_not, Bool.not_true,
      decide_eq_false_iff_not] at hpi hpk ⊢
    have hP := List.pairwise_iff_getElem.1 hpw
    constructor
    · rcases Nat.lt_or_eq_of_le hij with hlt | heq
      · have := hP i j (by omega) (by omega) hlt
        grind
      · subst heq; exact hpi.1
    · rcases Nat.lt_or_eq_of_le hjk with hlt | heq
      · have := hP j k (by omega) hk hlt
        grind
      · subst heq; exact hpk.2

/-- (d) every table returned by `get_contained` belongs to the run and is fully contained in `[lo, hi]` -/
theorem getContained_sound {r : Run K} (h : RunOk r) (lo hi : K) :
    ∀ t ∈ getContained r lo hi, t ∈ r ∧ rangeContains lo hi t = true :=
  getContained_sound_of_sorted h.sorted lo hi

theorem tableMeets_incl_incl (lo hi : K) (t : TableM K) :
    tableMeets (.incl lo) (.incl hi) t = (!decide (t.hi < lo) && !decide (hi < t.lo)) := rfl

/-- (d) `get_overlapping` returns every table of the run overlapping `[lo, hi]`
    (the hypothesis `¬ hi < lo` of the task statement is not needed) -/
theorem getOverlapping_complete {r : Run K} (h : RunOk r) (lo hi : K) :
    ∀ t ∈ r, ¬ t.hi < lo → ¬ hi < t.lo → t ∈ getOverlapping r lo hi := by
  intro t ht h1 h2
  obtain ⟨i, hi', rfl⟩ := List.mem_iff_getElem.1 ht
  have hm : tableMeets (.incl lo) (.incl hi) r[i] = true := by
    simp [tableMeets_incl_incl, h1, h2]
  have := range_overlap_exact h (.incl lo) (.incl hi)
  unfold getOverlapping
  split at this
  · rename_i a b heq
    rw [heq]
    simp only
    obtain ⟨hab, hb, hiff⟩ := this
    obtain ⟨hai, hib⟩ := (hiff i hi').2 hm
    rw [List.mem_iff_getElem]
    refine ⟨i - a, by simp; omega, ?_⟩
    simp only [List.getElem_take, List.getElem_drop]
    congr 1; omega
  · have := this r[i] (List.getElem_mem hi')
    simp [hm] at this

/-- converse: `get_overlapping` returns only tables of the run that overlap `[lo, hi]` -/
theorem getOverlapping_sound {r : Run K} (h : RunOk r) (lo hi : K) :
    ∀ t ∈ getOverlapping r lo hi, t ∈ r ∧ ¬ t.hi < lo ∧ ¬ hi < t.lo := by
  intro t ht
  have := range_overlap_exact h (.incl lo) (.incl hi)
  unfold getOverlapping at ht
  split at this
  · rename_i a b heq
    rw [heq] at ht
    simp only at ht
    obtain ⟨hab, hb, hiff⟩ := this
    obtain ⟨j, hj, rfl⟩ := List.mem_iff_getElem.1 ht
    simp only [List.length_take, List.length_drop] at hj
    simp only [List.getElem_take, List.getElem_drop]
    have hlen : a + j < r.length := by omega
    have hm := (hiff (a + j) hlen).1 ⟨by omega, by omega⟩
    simp only [tableMeets_incl_incl, Bool.and_eq_true, Bool.not_eq_eq_eq_not, Bool.not_true,
      decide_eq_false_iff_not] at hm
    exact ⟨List.getElem_mem _, hm⟩
  · rename_i heq
    rw [heq] at ht
    simp at ht

/-- (d) in the `overlaps` vocabulary of the model: `q` is any table-shaped query range `[lo, hi]` -/
theorem getOverlapping_complete' {r : Run K} (h : RunOk r) (lo hi : K) (t : TableM K) (ht : t ∈ r)
    (ho : t.overlaps ⟨0, lo, hi, [], 0⟩ = true) : t ∈ getOverlapping r lo hi := by
  simp only [TableM.overlaps, Bool.and_eq_true, Bool.not_eq_eq_eq_not, Bool.not_true,
    decide_eq_false_iff_not] at ho
  exact getOverlapping_complete h lo hi t ht ho.1 ho.2

end Order3

/-! ### non-vacuity: concrete runs over `K := Nat` -/
section Examples

/-- table with id, lo, hi and no content -/
def mkT (id lo hi : Nat) : TableM Nat := ⟨id, lo, hi, [], 0⟩

def exRun : Run Nat := [mkT 0 0 2, mkT 1 3 5, mkT 2 10 12, mkT 3 20 20]

example : runOkB exRun = true := by decide
example : RunOk exRun := runOkB_iff.1 (by decide)
example : ¬ RunOk [mkT 0 0 5, mkT 1 5 9] := fun h => absurd (runOkB_iff.2 h) (by decide)   -- touching tables
example : ¬ RunOk ([] : Run Nat) := fun h => absurd (runOkB_iff.2 h) (by decide)

example : getForKey exRun 4 = some (mkT 1 3 5) := by decide
example : getForKey exRun 7 = none := by decide             -- gap between tables
example : getForKey exRun 99 = none := by decide            -- beyond the last table

-- without RUN `get_for_key` is not `find?`: the unsorted run hides the table containing the key
example : getForKey [mkT 0 10 12, mkT 1 0 2] 1 = none ∧
    [mkT 0 10 12, mkT 1 0 2].find? (fun t => t.containsKey 1) = some (mkT 1 0 2) := by decide

example : rangeOverlapIndexes exRun (.incl 4) (.incl 11) = some (1, 2) := by decide
example : rangeOverlapIndexes exRun (.excl 5) (.excl 10) = none := by decide     -- l > h branch
example : rangeOverlapIndexes exRun .unb (.excl 0) = none := by decide           -- `idx = 0` branch
example : rangeOverlapIndexes exRun (.incl 21) .unb = none := by decide          -- l ≥ len branch
example : rangeOverlapIndexes exRun (.incl 11) (.incl 4) = none := by decide     -- inverted bounds
example : rangeOverlapIndexes exRun .unb .unb = some (0, 3) := by decide

example : getOverlapping exRun 4 11 = [mkT 1 3 5, mkT 2 10 12] := by decide
example : getContained exRun 3 12 = [mkT 1 3 5, mkT 2 10 12] := by decide
example : getContained exRun 4 12 = [mkT 2 10 12] := by decide
example : getContained exRun 4 11 = [] := by decide

end Examples

#print axioms runOkB_iff
#print axioms partitionPoint_eq_takeWhile
#print axioms partitionPoint_spec
#print axioms lt_partitionPoint_iff
#print axioms get_for_key_unique
#print axioms getForKey_sound
#print axioms getForKey_complete
#print axioms rangeOverlapIndexes_eq
#print axioms range_overlap_exact
#print axioms range_overlap_complete
#print axioms getContained_sound
#print axioms getOverlapping_complete
#print axioms getOverlapping_sound

end Lsm
