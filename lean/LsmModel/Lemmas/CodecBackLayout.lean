import LsmModel.Table.CodecBack
import LsmModel.Lemmas.CodecLemmas
/-
  LsmModel.Lemmas.CodecBackLayout — the interface between the byte-level facts about an encoded block
  (proved in CodecBackEnc.lean for `encodeBlock ri items`) and the state-machine reasoning about the double-ended
  decoder (CodecBackLemmas.lean).  `off i` = byte offset of item `i` (`off n` = offset of the `0xFF` marker),
  `kOff j` = byte offset of the KEY of restart head `j` (item `j * ri`).
-/
namespace Lsm.CodecBack
open Lsm Lsm.Codec

structure Layout (data : Bytes) (ri : Nat) (items : List (Entry Bytes)) (off kOff : Nat → Nat) (d0 : Dec) : Prop where
  ri_pos : 0 < ri
  nonempty : items ≠ []
  new : Dec.new data = some d0
  d0_eq : d0 = { data := data, ri := ri, step := d0.step, binLen := (items.length + ri - 1) / ri,
                 binOff := d0.binOff, hiPtr := some ((items.length + ri - 1) / ri) }
  binIdxLen : d0.binIdxLen = some ((items.length + ri - 1) / ri)
  bin : ∀ j, j * ri < items.length → d0.binGet j = some (off (j * ri))
  off_zero : off 0 = 0
  off_mono : ∀ i, i < items.length → off i < off (i + 1)
  off_le : off items.length < data.length
  full : ∀ i e, items[i]? = some e → i % ri = 0 →
    parseFullAt data (off i) = some (some ⟨e, kOff (i / ri), off (i + 1) - off i⟩)
  trunc : ∀ i e, items[i]? = some e → i % ri ≠ 0 →
    parseTruncAt data (off i) (kOff (i / ri)) = some (some ⟨e, 0, off (i + 1) - off i⟩)
  endFull : parseFullAt data (off items.length) = some none
  endTrunc : ∀ b, parseTruncAt data (off items.length) b = some none
  restartKey : ∀ i e, items[i]? = some e → i % ri = 0 → restartKeyAt data (off i) = some (e.key, e.seqno)

end Lsm.CodecBack
