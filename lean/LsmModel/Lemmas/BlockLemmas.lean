import LsmModel.Table.Blocks
import LsmModel.Lemmas.OrderLemmas
/-
  LsmModel.Lemmas.BlockLemmas — proofs about the table writer / readers of LsmModel.Table.Blocks.
-/
namespace Lsm.Blocks
open Lsm
set_option linter.unusedSectionVars false
set_option linter.unusedSimpArgs false
variable {K : Type}

/-! ## 1. the block cutting of the writer -/
section Cut
variable [DecidableEq K]

/-- functional description of the chunking: current chunk, its size, remaining stream -/
def cut (bs : Nat) (sz : Entry K → Nat) : List (Entry K) → Nat → List (Entry K) → List (Block K)
  | chunk, _, [] => if chunk = [] then [] else [chunk]
  | chunk, size, e :: rest =>
    if size + sz e ≥ bs then (chunk ++ [e]) :: cut bs sz [] 0 rest
    else cut bs sz (chunk ++ [e]) (size + sz e) rest

/-- the index entry of a block (none for an empty block) -/
def idxOf (b : Block K) : List (IndexEntry K) :=
  match b.getLast? with
  | some l => [⟨l.key, l.seqno⟩]
  | none => []

theorem spill_blocks (s : WState K) :
    (spill s).blocks = s.blocks ++ (if s.chunk = [] then [] else [s.chunk]) := by
  unfold spill
  cases h : s.chunk.getLast? with
  | none => simp [List.getLast?_eq_none_iff.mp h]
  | some l =>
    have : s.chunk ≠ [] := by intro h'; simp [h'] at h
    simp [this]

theorem spill_index (s : WState K) : (spill s).index = s.index ++ idxOf s.chunk := by
  unfold spill idxOf
  cases h : s.chunk.getLast? <;> simp

theorem spill_count (s : WState K) :
    (spill s).dataBlockCount = s.dataBlockCount + (if s.chunk = [] then 0 else 1) := by
  unfold spill
  cases h : s.chunk.getLast? with
  | none => simp [List.getLast?_eq_none_iff.mp h]
  | some l =>
    have : s.chunk ≠ [] := by intro h'; simp [h'] at h
    simp [this]

theorem spill_chunk_nil (s : WState K) (h : s.chunk = []) : spill s = s := by
  unfold spill; simp [h]

theorem wstep_spill (bs : Nat) (sz : Entry K → Nat) (s : WState K) (e : Entry K) (h : s.chunkSize + sz e ≥ bs) :
    (wstep bs sz s e).blocks = s.blocks ++ [s.chunk ++ [e]] ∧
    (wstep bs sz s e).index = s.index ++ [⟨e.key, e.seqno⟩] ∧
    (wstep bs sz s e).dataBlockCount = s.dataBlockCount + 1 ∧
    (wstep bs sz s e).chunk = [] ∧ (wstep bs sz s e).chunkSize = 0 := by
  simp [wstep, h, spill]

theorem wstep_nospill (bs : Nat) (sz : Entry K → Nat) (s : WState K) (e : Entry K) (h : ¬ s.chunkSize + sz e ≥ bs) :
    (wstep bs sz s e).blocks = s.blocks ∧
    (wstep bs sz s e).index = s.index ∧
    (wstep bs sz s e).dataBlockCount = s.dataBlockCount ∧
    (wstep bs sz s e).chunk = s.chunk ++ [e] ∧ (wstep bs sz s e).chunkSize = s.chunkSize + sz e := by
  simp [wstep, h]

theorem idxOf_concat (c : Block K) (e : Entry K) : idxOf (c ++ [e]) = [⟨e.key, e.seqno⟩] := by
  simp [idxOf]

/-- the writer's blocks / index / block count in terms of `cut` -/
theorem wfold_structure (bs : Nat) (sz : Entry K → Nat) (items : List (Entry K)) (s : WState K) :
    let t := wfinish (items.foldl (wstep bs sz) s)
    t.blocks = s.blocks ++ cut bs sz s.chunk s.chunkSize items ∧
    t.index = s.index ++ (cut bs sz s.chunk s.chunkSize items).flatMap idxOf ∧
    t.dataBlockCount = s.dataBlockCount + (cut bs sz s.chunk s.chunkSize items).length := by
  induction items generalizing s with
  | nil =>
    simp only [List.foldl_nil, wfinish, cut, spill_blocks, spill_index, spill_count]
    by_cases h : s.chunk = [] <;> simp [h, idxOf]
  | cons e rest ih =>
    simp only [List.foldl_cons]
    have := ih (wstep bs sz s e)
    by_cases h : s.chunkSize + sz e ≥ bs
    · obtain ⟨h1, h2, h3, h4, h5⟩ := wstep_spill bs sz s e h
      simp only [h1, h2, h3, h4, h5] at this
      simp only [cut, h, if_true]
      simp only [List.flatMap_cons, idxOf_concat, List.length_cons]
      refine ⟨by simpa using this.1, by simpa using this.2.1, by have := this.2.2; omega⟩
    · obtain ⟨h1, h2, h3, h4, h5⟩ := wstep_nospill bs sz s e h
      simp only [h1, h2, h3, h4, h5] at this
      simp only [cut, h, if_false]
      exact this

theorem cut_flatten (bs : Nat) (sz : Entry K → Nat) (items chunk : List (Entry K)) (size : Nat) :
    (cut bs sz chunk size items).flatten = chunk ++ items := by
  induction items generalizing chunk size with
  | nil => by_cases h : chunk = [] <;> simp [cut, h]
  | cons e rest ih =>
    by_cases h : size + sz e ≥ bs
    · simp [cut, h, ih]
    · simp [cut, h, ih]

theorem cut_nonempty (bs : Nat) (sz : Entry K → Nat) (items chunk : List (Entry K)) (size : Nat) :
    ∀ b ∈ cut bs sz chunk size items, b ≠ [] := by
  induction items generalizing chunk size with
  | nil => by_cases h : chunk = [] <;> simp [cut, h]
  | cons e rest ih =>
    by_cases h : size + sz e ≥ bs
    · simp only [cut, h, if_true, List.mem_cons]
      rintro b (rfl | hb)
      · simp
      · exact ih _ _ b hb
    · simp only [cut, h, if_false]
      exact ih _ _

/-- blocks, index, count of a written table -/
theorem writeTable_structure (bs : Nat) (sz : Entry K → Nat) (items : List (Entry K)) :
    let t := writeTable bs sz items
    t.blocks = cut bs sz [] 0 items ∧ t.index = t.blocks.flatMap idxOf ∧ t.dataBlockCount = t.blocks.length := by
  have := wfold_structure bs sz items ({} : WState K)
  simp only [List.nil_append, Nat.zero_add] at this
  simp only [writeTable]
  refine ⟨this.1, ?_, ?_⟩
  · rw [this.2.1, this.1]
  · rw [this.2.2, this.1]

theorem writeTable_flatten (bs : Nat) (sz : Entry K → Nat) (items : List (Entry K)) :
    (writeTable bs sz items).blocks.flatten = items := by
  rw [(writeTable_structure bs sz items).1, cut_flatten]; simp

theorem writeTable_nonempty (bs : Nat) (sz : Entry K → Nat) (items : List (Entry K)) :
    ∀ b ∈ (writeTable bs sz items).blocks, b ≠ [] := by
  rw [(writeTable_structure bs sz items).1]; exact cut_nonempty _ _ _ _ _

end Cut

/-! ## 2. index entries -/
section Order
variable [LT K] [DecidableLT K] [DecidableEq K] [LE K] [Std.IsLinearOrder K] [Std.LawfulOrderLT K]

def endIe (l : Entry K) : IndexEntry K := ⟨l.key, l.seqno⟩

/-- strict internal-key order on index entries -/
def ieLt (a b : IndexEntry K) : Prop := a.endKey < b.endKey ∨ (a.endKey = b.endKey ∧ b.seqno < a.seqno)

/-- handle of a block -/
def hOf (b : Block K) : List (IndexEntry K × Block K) :=
  match b.getLast? with
  | some l => [(endIe l, b)]
  | none => []

def handles (bl : List (Block K)) : List (IndexEntry K × Block K) := bl.flatMap hOf

theorem getLast?_of_ne_nil {α : Type} {b : List α} (h : b ≠ []) : ∃ l, b.getLast? = some l := by
  cases hb : b.getLast? with
  | none => exact absurd (List.getLast?_eq_none_iff.mp hb) h
  | some l => exact ⟨l, rfl⟩

theorem zip_handles (bl : List (Block K)) (hne : ∀ b ∈ bl, b ≠ []) :
    (bl.flatMap idxOf).zip bl = handles bl := by
  induction bl with
  | nil => rfl
  | cons b bl ih =>
    obtain ⟨l, hl⟩ := getLast?_of_ne_nil (hne b (by simp))
    have ih := ih (fun x hx => hne x (by simp [hx]))
    simp only [handles] at ih
    simp [handles, List.flatMap_cons, idxOf, hOf, hl, endIe, ih]

theorem handles_cons (b : Block K) (bl : List (Block K)) {l : Entry K} (hl : b.getLast? = some l) :
    handles (b :: bl) = (endIe l, b) :: handles bl := by
  simp [handles, List.flatMap_cons, hOf, hl]

theorem handles_map_fst (bl : List (Block K)) : (handles bl).map (·.1) = bl.flatMap idxOf := by
  induction bl with
  | nil => rfl
  | cons b bl ih =>
    simp only [handles] at ih
    cases hl : b.getLast? <;> simp [handles, List.flatMap_cons, hOf, idxOf, hl, ih, endIe]

/-- last items of the blocks -/
def lasts (bl : List (Block K)) : List (Entry K) := bl.filterMap (·.getLast?)

theorem lasts_sublist (bl : List (Block K)) : (lasts bl).Sublist bl.flatten := by
  induction bl with
  | nil => simp [lasts]
  | cons b bl ih =>
    simp only [lasts] at ih
    cases hl : b.getLast? with
    | none => simp only [lasts, List.filterMap_cons, hl, List.flatten_cons]
              exact List.Sublist.trans ih (List.sublist_append_right _ _)
    | some l =>
      simp only [lasts, List.filterMap_cons, hl, List.flatten_cons]
      have h1 : [l].Sublist b := List.singleton_sublist.mpr (List.mem_of_getLast? hl)
      exact List.Sublist.append h1 ih

theorem idx_eq_lasts (bl : List (Block K)) : bl.flatMap idxOf = (lasts bl).map endIe := by
  induction bl with
  | nil => rfl
  | cons b bl ih =>
    simp only [lasts] at ih
    cases hl : b.getLast? <;> simp [lasts, List.flatMap_cons, idxOf, hl, ih, endIe]

theorem index_ascending (bl : List (Block K)) (hs : IsSource bl.flatten) :
    (bl.flatMap idxOf).Pairwise ieLt := by
  rw [idx_eq_lasts, List.pairwise_map]
  have := IsSource.sublist (lasts_sublist bl) hs
  refine List.Pairwise.imp ?_ this
  intro a b hab
  rw [ikLt_iff] at hab
  exact hab

/-- each index entry is the (key, seqno) of the last item of its block (which exists) -/
theorem index_is_last (bl : List (Block K)) (hne : ∀ b ∈ bl, b ≠ []) :
    (bl.flatMap idxOf).map some = bl.map (fun b => b.getLast?.map endIe) := by
  induction bl with
  | nil => rfl
  | cons b bl ih =>
    obtain ⟨l, hl⟩ := getLast?_of_ne_nil (hne b (by simp))
    have ih := ih (fun x hx => hne x (by simp [hx]))
    simp [List.flatMap_cons, idxOf, hl, ih, endIe]

/-! ## 3. point reads -/

theorem newest_append (a b : List (Entry K)) (k : K) (S : Nat) :
    newest (a ++ b) k S = (newest a k S).or (newest b k S) := by
  simp [newest, List.find?_append]

theorem blockPointRead_eq_newest {b : Block K} (hs : IsSource b) (k : K) (S : Nat) :
    blockPointRead k S b = newest b k S := by
  induction b with
  | nil => rfl
  | cons e rest ih =>
    rw [blockPointRead, newest_cons]
    have ih := ih hs.tail
    by_cases h1 : e.key < k
    · have : ¬ e.key = k := by grind
      simp [h1, this, ih]
    · by_cases h2 : k < e.key
      · have hne : ¬ e.key = k := by grind
        simp only [h1, h2, if_false, if_true, hne, false_and]
        symm; rw [newest_eq_none]
        intro x hx hxk
        have := ikLt_key_le (hs.head_lt x hx)
        grind
      · have heq : e.key = k := by grind
        by_cases h3 : S ≤ e.seqno
        · have : ¬ e.seqno < S := by omega
          simp [h1, h2, h3, this, ih]
        · have : e.seqno < S := by omega
          simp only [h1, h2, h3, if_false]
          simp [heq, this]

/-- in a source `b ++ rest` with `l` the last item of `b`: everything in `b` is `≤ l`, everything in `rest` is `> l` -/
theorem last_bounds {b rest : List (Entry K)} {l : Entry K} (hl : b.getLast? = some l) (hs : IsSource (b ++ rest)) :
    (∀ x ∈ b, x = l ∨ ikLt x l = true) ∧ (∀ y ∈ rest, ikLt l y = true) := by
  obtain ⟨ys, hb⟩ := List.getLast?_eq_some_iff.mp hl
  constructor
  · intro x hx
    rw [hb] at hx hs
    rcases List.mem_append.mp hx with h | h
    · right
      have h1 : IsSource (ys ++ [l]) := (List.pairwise_append.mp hs).1
      exact (List.pairwise_append.mp h1).2.2 x h l (by simp)
    · left; simpa using h
  · intro y hy
    exact (List.pairwise_append.mp hs).2.2 l (List.mem_of_getLast? hl) y hy

theorem pointLoop_handles (bl : List (Block K)) (hne : ∀ b ∈ bl, b ≠ []) (hs : IsSource bl.flatten)
    (k : K) (S : Nat) :
    pointLoop k S ((handles bl).dropWhile (fun h => idxPred k S h.1)) = newest bl.flatten k S := by
  induction bl with
  | nil => rfl
  | cons b bl ih =>
    obtain ⟨l, hl⟩ := getLast?_of_ne_nil (hne b (by simp))
    have hne' : ∀ x ∈ bl, x ≠ [] := fun x hx => hne x (by simp [hx])
    rw [List.flatten_cons] at hs
    have hs' : IsSource bl.flatten := (List.pairwise_append.mp hs).2.1
    have hsb : IsSource b := (List.pairwise_append.mp hs).1
    obtain ⟨hB, hR⟩ := last_bounds hl hs
    have ih := ih hne' hs'
    rw [handles_cons b bl hl, List.flatten_cons, newest_append, List.dropWhile_cons]
    by_cases hp : idxPred k S (endIe l) = true
    · -- the block is skipped by the seek: it holds nothing visible for `k`
      simp only [hp, if_true, ih]
      have : newest b k S = none := by
        rw [newest_eq_none]
        intro x hx hxk
        simp only [idxPred, endIe, Bool.or_eq_true, Bool.and_eq_true, decide_eq_true_eq] at hp
        rcases hB x hx with rfl | hlt
        · grind
        · rw [ikLt_iff] at hlt; grind
      simp [this]
    · simp only [hp, Bool.false_eq_true, if_false, pointLoop]
      rw [blockPointRead_eq_newest hsb]
      cases hn : newest b k S with
      | some e => simp
      | none =>
        simp only [Option.none_or]
        simp only [idxPred, endIe, Bool.or_eq_true, Bool.and_eq_true, decide_eq_true_eq, not_or, not_and] at hp
        rw [newest_eq_none] at hn
        have hl_mem : l ∈ b := List.mem_of_getLast? hl
        have hkl : k < l.key := by
          have := hn l hl_mem
          grind
        simp only [endIe, hkl, if_true]
        symm; rw [newest_eq_none]
        intro y hy hyk
        have := ikLt_key_le (hR y (by exact hy))
        grind

theorem ppoint_le {α : Type} (p : α → Bool) (l : List α) : ppoint p l ≤ l.length := by
  induction l with
  | nil => simp [ppoint]
  | cons x xs ih => simp only [ppoint]; split <;> simp <;> omega

theorem drop_ppoint_map {α β : Type} (p : β → Bool) (f : α → β) (l : List α) :
    l.drop (ppoint p (l.map f)) = l.dropWhile (fun x => p (f x)) := by
  induction l with
  | nil => simp [ppoint]
  | cons x xs ih =>
    simp only [List.map_cons, ppoint, List.dropWhile_cons]
    by_cases h : p (f x) = true <;> simp [h, ih]

theorem ppoint_eq_length_iff {α β : Type} (p : β → Bool) (f : α → β) (l : List α) :
    ppoint p (l.map f) ≥ l.length ↔ l.dropWhile (fun x => p (f x)) = [] := by
  rw [← drop_ppoint_map]
  have := ppoint_le p (l.map f)
  simp only [List.length_map] at this
  simp

/-- `pointRead` on an image whose index/blocks are those of a list of non-empty blocks -/
theorem pointRead_eq_loop (t : TableImage K) (bl : List (Block K)) (hb : t.blocks = bl)
    (hi : t.index = bl.flatMap idxOf) (hne : ∀ b ∈ bl, b ≠ []) (k : K) (S : Nat) :
    pointRead t k S = pointLoop k S ((handles bl).dropWhile (fun h => idxPred k S h.1)) := by
  unfold pointRead seekLowerIdx
  rw [hi, hb, zip_handles bl hne, ← handles_map_fst]
  simp only []
  by_cases h : ppoint (idxPred k S) ((handles bl).map (·.1)) ≥ ((handles bl).map (·.1)).length
  · rw [if_pos h]
    rw [List.length_map] at h
    rw [(ppoint_eq_length_iff (idxPred k S) (·.1) (handles bl)).mp h]
    rfl
  · rw [if_neg h]
    simp only []
    rw [drop_ppoint_map]

end Order

/-! ## 3b. the binary searches are partition points -/
section BSearch

theorem ppoint_true {α : Type} (p : α → Bool) (l : List α) (i : Nat) (h : i < ppoint p l) :
    ∃ x, l[i]? = some x ∧ p x = true := by
  induction l generalizing i with
  | nil => simp [ppoint] at h
  | cons y ys ih =>
    simp only [ppoint] at h
    by_cases hy : p y = true
    · simp only [hy, if_true] at h
      cases i with
      | zero => exact ⟨y, by simp, hy⟩
      | succ i => obtain ⟨x, hx, hp⟩ := ih i (by omega); exact ⟨x, by simpa using hx, hp⟩
    · simp [hy] at h

theorem ppoint_false {α : Type} (p : α → Bool) (l : List α)
    (hm : l.Pairwise (fun a b => p b = true → p a = true)) (i : Nat) (h : ppoint p l ≤ i) (x : α)
    (hx : l[i]? = some x) : p x = false := by
  induction l generalizing i with
  | nil => simp at hx
  | cons y ys ih =>
    have hm' := (List.pairwise_cons.mp hm).2
    have hy' := (List.pairwise_cons.mp hm).1
    simp only [ppoint] at h
    by_cases hy : p y = true
    · simp only [hy, if_true] at h
      cases i with
      | zero => omega
      | succ i => exact ih hm' i (by omega) (by simpa using hx)
    · cases i with
      | zero =>
        simp only [List.getElem?_cons_zero, Option.some.injEq] at hx
        subst hx; simpa using hy
      | succ i =>
        have hxm : x ∈ ys := List.mem_of_getElem? (by simpa using hx)
        cases hpx : p x with
        | false => rfl
        | true => exact absurd (hy' x hxm hpx) hy

/-- the loop of `partition_point{,_2}` (decoder.rs:173-192 / 226-245) computes `ppoint` on a list on which the
    predicate is monotone (true on a prefix) -/
theorem bsearch_eq_ppoint {α : Type} (p : α → Bool) (l : List α)
    (hm : l.Pairwise (fun a b => p b = true → p a = true)) (fuel left right : Nat)
    (h1 : left ≤ ppoint p l) (h2 : ppoint p l ≤ right) (h3 : right ≤ l.length) (hf : right - left ≤ fuel) :
    bsearch p l fuel left right = ppoint p l := by
  induction fuel generalizing left right with
  | zero => simp only [bsearch]; omega
  | succ fuel ih =>
    simp only [bsearch]
    by_cases hlr : left < right
    · simp only [hlr, if_true]
      have hmid : (left + right) / 2 < l.length := by omega
      have hget : l[(left + right) / 2]? = some l[(left + right) / 2] := List.getElem?_eq_getElem hmid
      rw [hget]
      simp only []
      by_cases hp : p l[(left + right) / 2] = true
      · simp only [hp, if_true]
        apply ih
        · -- mid < ppoint
          apply Nat.lt_of_not_le
          intro hle
          have := ppoint_false p l hm _ hle _ hget
          simp [hp] at this
        · exact h2
        · exact h3
        · omega
      · simp only [hp, Bool.false_eq_true, if_false]
        apply ih
        · exact h1
        · apply Nat.le_of_not_lt
          intro hlt
          obtain ⟨x, hx, hpx⟩ := ppoint_true p l _ hlt
          rw [hget] at hx
          simp only [Option.some.injEq] at hx
          subst hx; exact hp hpx
        · omega
        · omega
    · simp only [hlr, if_false]; omega

theorem bsearch_full {α : Type} (p : α → Bool) (l : List α)
    (hm : l.Pairwise (fun a b => p b = true → p a = true)) :
    bsearch p l l.length 0 l.length = ppoint p l :=
  bsearch_eq_ppoint p l hm l.length 0 l.length (Nat.zero_le _) (ppoint_le p l) (Nat.le_refl _) (by omega)

end BSearch

section BSearchOrder
variable [LT K] [DecidableLT K] [DecidableEq K] [LE K] [Std.IsLinearOrder K] [Std.LawfulOrderLT K]

/-- `idxPred` (index_block seek) is true on a prefix of an ascending index -/
theorem idxPred_mono (index : List (IndexEntry K)) (h : index.Pairwise ieLt) (k : K) (S : Nat) :
    index.Pairwise (fun a b => idxPred k S b = true → idxPred k S a = true) := by
  refine List.Pairwise.imp ?_ h
  intro a b hab hb
  simp only [idxPred, Bool.or_eq_true, Bool.and_eq_true] at hb ⊢
  unfold ieLt at hab
  rcases hb with hb | ⟨hb1, hb2⟩
  · have := of_decide_eq_true hb
    left; apply decide_eq_true; grind
  · have h1 := of_decide_eq_true hb1
    have h2 : S ≤ b.seqno := of_decide_eq_true hb2
    rcases hab with hab | ⟨hab1, hab2⟩
    · left; apply decide_eq_true; grind
    · right; exact ⟨decide_eq_true (by grind), decide_eq_true (by omega)⟩

/-- `idxPredUpper` (index_block seek_upper) is true on a prefix of an ascending index -/
theorem idxPredUpper_mono (index : List (IndexEntry K)) (h : index.Pairwise ieLt) (k : K) :
    index.Pairwise (fun a b => idxPredUpper k b = true → idxPredUpper k a = true) := by
  refine List.Pairwise.imp ?_ h
  intro a b hab hb
  unfold ieLt at hab
  simp only [idxPredUpper, Bool.not_eq_true', decide_eq_false_iff_not] at hb ⊢
  grind

/-- the restart-head predicate of `data_block::Iter::seek` is true on a prefix of a sorted block -/
theorem headPred_mono (b : List (Entry K)) (hs : IsSource b) (k : K) :
    b.Pairwise (fun x y => decide (y.key < k) = true → decide (x.key < k) = true) := by
  have hk := hs.keys_le
  rw [List.pairwise_map] at hk
  refine List.Pairwise.imp ?_ hk
  intro x y hxy hy
  have := of_decide_eq_true hy
  apply decide_eq_true; grind

theorem filterMap_map_some {α β : Type} (f : α → Option β) (l : List α) (h : ∀ x ∈ l, (f x).isSome = true) :
    (l.filterMap f).map some = l.map f := by
  induction l with
  | nil => rfl
  | cons x xs ih =>
    have hx := h x (by simp)
    have ih := ih (fun y hy => h y (by simp [hy]))
    cases hf : f x with
    | none => simp [hf] at hx
    | some v => simp [List.filterMap_cons, hf, ih]

theorem lt_heads_iff (ri len j : Nat) (hri : 0 < ri) : j < (len + ri - 1) / ri ↔ j * ri < len := by
  rw [Nat.lt_iff_add_one_le, Nat.le_div_iff_mul_le hri, Nat.add_mul, Nat.one_mul]
  omega

theorem restartHeads_spec (ri : Nat) (hri : 0 < ri) (b : Block K) :
    (restartHeads ri b).length = (b.length + ri - 1) / ri ∧
    ∀ j, j * ri < b.length → (restartHeads ri b)[j]? = b[j * ri]? := by
  have hm : (restartHeads ri b).map some = (List.range ((b.length + ri - 1) / ri)).map (fun i => b[i * ri]?) := by
    unfold restartHeads
    apply filterMap_map_some
    intro i hi
    have := (lt_heads_iff ri b.length i hri).mp (List.mem_range.mp hi)
    simp [this]
  constructor
  · have := congrArg List.length hm
    simpa using this
  · intro j hj
    have hjm := (lt_heads_iff ri b.length j hri).mpr hj
    have := congrArg (fun l => l[j]?) hm
    simp only [List.getElem?_map, List.getElem?_range hjm, Option.map_some] at this
    rw [List.getElem?_eq_getElem hj] at this ⊢
    cases hh : (restartHeads ri b)[j]? with
    | none => simp [hh] at this
    | some v => simp only [hh, Option.map_some, Option.some.injEq] at this; rw [this]

/-- The restart-interval jump of `data_block::Iter::seek` (binary search for the last restart head `< needle`, then
    linear scan) lands exactly where a plain left-to-right scan of the block does: no version of the needle is skipped. -/
theorem blockSeekRi_dropWhile (ri : Nat) (hri : 0 < ri) (b : Block K) (hs : IsSource b) (k : K) :
    blockSeekRi ri k b = b.dropWhile (fun e => decide (e.key < k)) := by
  unfold blockSeekRi
  simp only []
  obtain ⟨hlen, hget⟩ := restartHeads_spec ri hri b
  generalize hL : ppoint (fun h : Entry K => decide (h.key < k)) (restartHeads ri b) = left
  have hidx : (if left = 0 then 0 else if left = (restartHeads ri b).length then (restartHeads ri b).length - 1
      else left - 1) = left - 1 := by
    by_cases h0 : left = 0
    · simp [h0]
    · by_cases h1 : left = (restartHeads ri b).length
      · simp [h0, ← h1]
      · simp [h0, h1]
  rw [hidx]
  have hall : ∀ x ∈ b.take ((left - 1) * ri), decide (x.key < k) = true := by
    by_cases h0 : left = 0
    · simp [h0]
    · obtain ⟨h, hh, hp⟩ := ppoint_true (fun h : Entry K => decide (h.key < k)) (restartHeads ri b) (left - 1)
        (by omega)
      have hlt : left - 1 < (restartHeads ri b).length := by
        have : left ≤ (restartHeads ri b).length := by rw [← hL]; exact ppoint_le _ _
        omega
      have hn : (left - 1) * ri < b.length := (lt_heads_iff ri b.length _ hri).mp (by rw [← hlen]; exact hlt)
      rw [hget _ hn, List.getElem?_eq_getElem hn, Option.some.injEq] at hh
      intro x hx
      obtain ⟨i, hi, rfl⟩ := List.mem_take_iff_getElem.mp hx
      have hk := hs.keys_le
      rw [List.pairwise_map] at hk
      have := List.pairwise_iff_getElem.mp hk i ((left - 1) * ri) (by omega) hn (by omega)
      rw [hh] at this
      have hp' := of_decide_eq_true hp
      apply decide_eq_true
      grind
  conv => rhs; rw [← List.take_append_drop ((left - 1) * ri) b]
  rw [List.dropWhile_append_of_pos hall]

end BSearchOrder

/-! ## 4. metadata -/
section MetaW
variable [DecidableEq K]

/-- the metadata as it will be after the pending chunk has been spilled -/
def pend (s : WState K) : Meta K :=
  { s.mdata with
    itemCount := s.mdata.itemCount + s.chunk.length
    lastKey := match s.chunk.getLast? with
      | some l => some l.key
      | none => s.mdata.lastKey }

def acctOf (s : WState K) : Acct K := ⟨pend s, s.currentKey, s.previousItem, s.filterKeys⟩

theorem spill_mdata (s : WState K) : (spill s).mdata = pend s := by
  unfold spill pend
  cases h : s.chunk.getLast? with
  | none => simp [List.getLast?_eq_none_iff.mp h]
  | some l => simp

theorem spill_acct (s : WState K) :
    (spill s).currentKey = s.currentKey ∧ (spill s).previousItem = s.previousItem ∧
    (spill s).filterKeys = s.filterKeys := by
  unfold spill
  cases h : s.chunk.getLast? <;> simp

theorem acctOf_wstep (bs : Nat) (sz : Entry K → Nat) (s : WState K) (e : Entry K) :
    acctOf (wstep bs sz s e) = metaStep (acctOf s) e := by
  by_cases hk : some e.key = s.currentKey <;> by_cases h : s.chunkSize + sz e ≥ bs
  · simp [acctOf, pend, wstep, metaStep, acctStep, seqnoStep, spill, h, hk]
    omega
  · simp [acctOf, pend, wstep, metaStep, acctStep, seqnoStep, h, hk]
    omega
  · simp [acctOf, pend, wstep, metaStep, acctStep, seqnoStep, spill, h, hk]
    omega
  · simp [acctOf, pend, wstep, metaStep, acctStep, seqnoStep, h, hk]
    omega

theorem acctOf_foldl (bs : Nat) (sz : Entry K → Nat) (items : List (Entry K)) (s : WState K) :
    acctOf (items.foldl (wstep bs sz) s) = items.foldl metaStep (acctOf s) := by
  induction items generalizing s with
  | nil => rfl
  | cons e rest ih => simp only [List.foldl_cons, ih, acctOf_wstep]

/-- the metadata / registered filter keys of the written table do not depend on how blocks are cut (W5) -/
theorem writeTable_meta (bs : Nat) (sz : Entry K → Nat) (items : List (Entry K)) :
    (writeTable bs sz items).mdata = writerMeta items ∧
    (writeTable bs sz items).filterKeys = writerFilterKeys items := by
  have h := acctOf_foldl bs sz items ({} : WState K)
  have h0 : acctOf ({} : WState K) = ({} : Acct K) := by simp [acctOf, pend]
  rw [h0] at h
  simp only [writeTable, wfinish, writerMeta, writerFilterKeys, writerAcct, spill_mdata, (spill_acct _).2.2]
  rw [← h]
  simp [acctOf]

/-! ### the streaming fold, field by field -/

theorem metaStep_fields (a : Acct K) (e : Entry K) :
    (metaStep a e).mdata.itemCount = a.mdata.itemCount + 1 ∧
    (metaStep a e).mdata.tombstoneCount = a.mdata.tombstoneCount + (if e.isTomb then 1 else 0) ∧
    (metaStep a e).mdata.weakTombstoneCount = a.mdata.weakTombstoneCount + (if e.vt = .weak then 1 else 0) ∧
    (metaStep a e).mdata.lastKey = some e.key ∧
    (metaStep a e).mdata.firstKey = (if a.mdata.firstKey.isNone then some e.key else a.mdata.firstKey) ∧
    (metaStep a e).mdata.minSeqno = min a.mdata.minSeqno e.seqno ∧
    (metaStep a e).mdata.maxSeqno = max a.mdata.maxSeqno e.seqno ∧
    (metaStep a e).previousItem = some (e.key, e.vt) ∧
    (metaStep a e).currentKey = some e.key := by
  by_cases h : some e.key = a.currentKey <;> simp [metaStep, acctStep, seqnoStep, h]

theorem fold_itemCount (items : List (Entry K)) (a : Acct K) :
    (items.foldl metaStep a).mdata.itemCount = a.mdata.itemCount + items.length := by
  induction items generalizing a with
  | nil => simp
  | cons e rest ih => simp only [List.foldl_cons, ih, (metaStep_fields a e).1, List.length_cons]; omega

theorem fold_tombstoneCount (items : List (Entry K)) (a : Acct K) :
    (items.foldl metaStep a).mdata.tombstoneCount = a.mdata.tombstoneCount + items.countP (·.isTomb) := by
  induction items generalizing a with
  | nil => simp
  | cons e rest ih =>
    simp only [List.foldl_cons, ih, (metaStep_fields a e).2.1, List.countP_cons]; omega

theorem fold_weakCount (items : List (Entry K)) (a : Acct K) :
    (items.foldl metaStep a).mdata.weakTombstoneCount
      = a.mdata.weakTombstoneCount + items.countP (fun e => e.vt = .weak) := by
  induction items generalizing a with
  | nil => simp
  | cons e rest ih =>
    simp only [List.foldl_cons, ih, (metaStep_fields a e).2.2.1, List.countP_cons, decide_eq_true_eq]; omega

theorem fold_lastKey (items : List (Entry K)) (a : Acct K) :
    (items.foldl metaStep a).mdata.lastKey = (items.getLast?.map (·.key)).or a.mdata.lastKey := by
  induction items generalizing a with
  | nil => simp
  | cons e rest ih =>
    simp only [List.foldl_cons, ih, (metaStep_fields a e).2.2.2.1]
    cases rest with
    | nil => simp
    | cons x xs =>
      obtain ⟨l, hl⟩ := getLast?_of_ne_nil (List.cons_ne_nil x xs)
      rw [List.getLast?_cons_cons, hl]
      simp

theorem fold_firstKey (items : List (Entry K)) (a : Acct K) :
    (items.foldl metaStep a).mdata.firstKey = a.mdata.firstKey.or (items.head?.map (·.key)) := by
  induction items generalizing a with
  | nil => simp
  | cons e rest ih =>
    simp only [List.foldl_cons, ih, (metaStep_fields a e).2.2.2.2.1]
    cases h : a.mdata.firstKey <;> simp

theorem fold_minSeqno (items : List (Entry K)) (a : Acct K) :
    (items.foldl metaStep a).mdata.minSeqno = items.foldl (fun m e => min m e.seqno) a.mdata.minSeqno := by
  induction items generalizing a with
  | nil => simp
  | cons e rest ih => simp only [List.foldl_cons, ih, (metaStep_fields a e).2.2.2.2.2.1]

theorem fold_maxSeqno (items : List (Entry K)) (a : Acct K) :
    (items.foldl metaStep a).mdata.maxSeqno = items.foldl (fun m e => max m e.seqno) a.mdata.maxSeqno := by
  induction items generalizing a with
  | nil => simp
  | cons e rest ih => simp only [List.foldl_cons, ih, (metaStep_fields a e).2.2.2.2.2.2.1]

theorem foldl_min_init (items : List (Entry K)) (c x : Nat) :
    items.foldl (fun m e => min m e.seqno) (min c x) = min c (items.foldl (fun m e => min m e.seqno) x) := by
  induction items generalizing x with
  | nil => simp
  | cons e rest ih => simp only [List.foldl_cons, Nat.min_assoc, ih]

theorem foldl_min_map (items : List (Entry K)) (x : Nat) :
    items.foldl (fun m e => min m e.seqno) x = (items.map (·.seqno)).foldl min x := by
  simp [List.foldl_map]

theorem foldl_max_map (items : List (Entry K)) (x : Nat) :
    items.foldl (fun m e => max m e.seqno) x = (items.map (·.seqno)).foldl max x := by
  simp [List.foldl_map]

/-- reclaimable pairs seen by the writer, given the previous item -/
def reclFrom : Option (K × VT) → List (Entry K) → Nat
  | _, [] => 0
  | prev, e :: t =>
    (if (decide (e.vt = .value) &&
          (match prev with
           | some (pk, pt) => decide (pt = .weak) && decide (pk = e.key)
           | none => false)) = true then 1 else 0) + reclFrom (some (e.key, e.vt)) t

theorem fold_reclaimable (items : List (Entry K)) (a : Acct K) :
    (items.foldl metaStep a).mdata.weakTombstoneReclaimable
      = a.mdata.weakTombstoneReclaimable + reclFrom a.previousItem items := by
  induction items generalizing a with
  | nil => simp [reclFrom]
  | cons e rest ih =>
    simp only [List.foldl_cons, ih, (metaStep_fields a e).2.2.2.2.2.2.2.1, reclFrom]
    cases hp : a.previousItem <;> simp [metaStep, acctStep, seqnoStep, hp] <;> omega

theorem reclFrom_eq (x : Entry K) (t : List (Entry K)) :
    reclFrom (some (x.key, x.vt)) t = reclaimablePairs (x :: t) := by
  induction t generalizing x with
  | nil => simp [reclFrom, reclaimablePairs]
  | cons y t ih =>
    simp only [reclFrom, reclaimablePairs, ih]
    congr 1
    by_cases h1 : y.vt = .value <;> by_cases h2 : x.vt = .weak <;> by_cases h3 : x.key = y.key <;> simp [h1, h2, h3]

theorem reclFrom_none (items : List (Entry K)) : reclFrom none items = reclaimablePairs items := by
  cases items with
  | nil => simp [reclFrom, reclaimablePairs]
  | cons x t => simp [reclFrom, reclFrom_eq]

/-- keys at which the writer sees "a new key", given `current_key` -/
def newKeys : Option K → List K → List K
  | _, [] => []
  | c, k :: ks => (if some k ≠ c then [k] else []) ++ newKeys (some k) ks

theorem fold_keys (items : List (Entry K)) (a : Acct K) :
    (items.foldl metaStep a).filterKeys = a.filterKeys ++ newKeys a.currentKey (items.map (·.key)) ∧
    (items.foldl metaStep a).mdata.keyCount
      = a.mdata.keyCount + (newKeys a.currentKey (items.map (·.key))).length := by
  induction items generalizing a with
  | nil => simp [newKeys]
  | cons e rest ih =>
    simp only [List.foldl_cons, List.map_cons, newKeys]
    obtain ⟨h1, h2⟩ := ih (metaStep a e)
    rw [h1, h2, (metaStep_fields a e).2.2.2.2.2.2.2.2]
    simp only [metaStep, acctStep, seqnoStep]
    by_cases h : some e.key = a.currentKey <;> simp [h] <;> omega

theorem mem_dedupKeys {ks : List K} {x : K} (h : x ∈ dedupKeys ks) : x ∈ ks := by
  induction ks with
  | nil => simp [dedupKeys] at h
  | cons k ks ih =>
    simp only [dedupKeys, List.mem_cons, List.mem_filter] at h
    rcases h with rfl | ⟨h, _⟩
    · simp
    · simp [ih h]

end MetaW

section MetaO
variable [LT K] [DecidableLT K] [DecidableEq K] [LE K] [Std.IsLinearOrder K] [Std.LawfulOrderLT K]

theorem newKeys_sorted (ks : List K) (c : K) (hs : ks.Pairwise (· ≤ ·)) (hc : ∀ x ∈ ks, c ≤ x) :
    newKeys (some c) ks = (dedupKeys ks).filter (fun x => x ≠ c) := by
  induction ks generalizing c with
  | nil => simp [newKeys, dedupKeys]
  | cons k ks ih =>
    have hk : ∀ x ∈ ks, k ≤ x := (List.pairwise_cons.mp hs).1
    have ih := ih k (List.pairwise_cons.mp hs).2 hk
    simp only [newKeys, ih, dedupKeys]
    by_cases hkc : k = c
    · subst hkc
      simp [List.filter_filter]
    · have hck : c < k := by have := hc k (by simp); grind
      have hall : ∀ x ∈ (dedupKeys ks).filter (fun x => x ≠ k), (decide (x ≠ c)) = true := by
        intro x hx
        have := hk x (mem_dedupKeys (List.mem_filter.mp hx).1)
        simp only [ne_eq, decide_not, Bool.not_eq_eq_eq_not, Bool.not_true, decide_eq_false_iff_not]
        grind
      have hne : some k ≠ some c := by simp [hkc]
      simp only [ne_eq, hne, not_false_eq_true, if_true, List.filter_cons, hkc, decide_true,
        List.singleton_append]
      congr 1
      exact (List.filter_eq_self.mpr hall).symm

theorem newKeys_none_sorted (ks : List K) (hs : ks.Pairwise (· ≤ ·)) : newKeys none ks = dedupKeys ks := by
  cases ks with
  | nil => simp [newKeys, dedupKeys]
  | cons k ks =>
    simp only [newKeys, dedupKeys]
    rw [newKeys_sorted ks k (List.pairwise_cons.mp hs).2 (List.pairwise_cons.mp hs).1]
    simp

/-- the streaming metadata equals the declarative metadata (for a source) -/
theorem writerMeta_eq_declMeta (items : List (Entry K)) (hs : IsSource items) :
    writerMeta items = declMeta items := by
  have hk := IsSource.keys_le hs
  have e1 := fold_itemCount items ({} : Acct K)
  have e2 := fold_tombstoneCount items ({} : Acct K)
  have e3 := fold_weakCount items ({} : Acct K)
  have e4 := fold_lastKey items ({} : Acct K)
  have e5 := fold_firstKey items ({} : Acct K)
  have e6 := fold_minSeqno items ({} : Acct K)
  have e7 := fold_maxSeqno items ({} : Acct K)
  have e8 := fold_reclaimable items ({} : Acct K)
  have e9 := (fold_keys items ({} : Acct K)).2
  rw [newKeys_none_sorted _ hk] at e9
  rw [reclFrom_none] at e8
  simp only [Nat.zero_add, Option.or_none, Option.none_or] at e1 e2 e3 e4 e5 e8 e9
  have e6' : (items.foldl metaStep ({} : Acct K)).mdata.minSeqno =
      (match (items.map (·.seqno)).min? with | some m => min u64Max m | none => u64Max) := by
    rw [e6]
    cases items with
    | nil => rfl
    | cons x t =>
      simp only [List.map_cons, List.min?_cons', List.foldl_cons]
      show List.foldl (fun m e => min m e.seqno) (min u64Max x.seqno) t = _
      rw [foldl_min_init, foldl_min_map]
  have e7' : (items.foldl metaStep ({} : Acct K)).mdata.maxSeqno =
      (match (items.map (·.seqno)).max? with | some m => m | none => 0) := by
    rw [e7]
    cases items with
    | nil => rfl
    | cons x t =>
      simp only [List.map_cons, List.max?_cons', List.foldl_cons]
      show List.foldl (fun m e => max m e.seqno) (max 0 x.seqno) t = _
      rw [Nat.zero_max, foldl_max_map]
  unfold writerMeta writerAcct declMeta
  generalize items.foldl metaStep ({} : Acct K) = r at *
  obtain ⟨m, c, pi, fk⟩ := r
  obtain ⟨a1, a2, a3, a4, a5, a6, a7, a8, a9⟩ := m
  simp only at e1 e2 e3 e4 e5 e6' e7' e8 e9
  simp only [e1, e2, e3, e4, e5, e6', e7', e8, e9]
  first | rfl | congr

/-- one registration per distinct user key -/
theorem writerFilterKeys_eq (items : List (Entry K)) (hs : IsSource items) :
    writerFilterKeys items = dedupKeys (items.map (·.key)) := by
  have := (fold_keys items ({} : Acct K)).1
  rw [newKeys_none_sorted _ (IsSource.keys_le hs)] at this
  simpa [writerFilterKeys, writerAcct] using this

theorem foldl_min_le (items : List (Entry K)) (x : Nat) :
    items.foldl (fun m e => min m e.seqno) x ≤ x ∧
    ∀ e ∈ items, items.foldl (fun m e => min m e.seqno) x ≤ e.seqno := by
  induction items generalizing x with
  | nil => simp
  | cons a t ih =>
    simp only [List.foldl_cons, List.mem_cons]
    have := ih (min x a.seqno)
    refine ⟨by omega, ?_⟩
    rintro e (rfl | he)
    · omega
    · exact this.2 e he

theorem foldl_max_ge (items : List (Entry K)) (x : Nat) :
    x ≤ items.foldl (fun m e => max m e.seqno) x ∧
    ∀ e ∈ items, e.seqno ≤ items.foldl (fun m e => max m e.seqno) x := by
  induction items generalizing x with
  | nil => simp
  | cons a t ih =>
    simp only [List.foldl_cons, List.mem_cons]
    have := ih (max x a.seqno)
    refine ⟨by omega, ?_⟩
    rintro e (rfl | he)
    · omega
    · exact this.2 e he

/-- the recorded seqno range bounds every item -/
theorem writerMeta_seqno_bounds (items : List (Entry K)) :
    ∀ e ∈ items, (writerMeta items).minSeqno ≤ e.seqno ∧ e.seqno ≤ (writerMeta items).maxSeqno := by
  intro e he
  unfold writerMeta writerAcct
  rw [fold_minSeqno, fold_maxSeqno]
  exact ⟨(foldl_min_le items _).2 e he, (foldl_max_ge items _).2 e he⟩

theorem mem_dedupKeys_iff {ks : List K} {x : K} : x ∈ dedupKeys ks ↔ x ∈ ks := by
  constructor
  · exact mem_dedupKeys
  · intro h
    induction ks with
    | nil => simp at h
    | cons k ks ih =>
      simp only [dedupKeys, List.mem_cons, List.mem_filter]
      by_cases hx : x = k
      · left; exact hx
      · right
        rcases List.mem_cons.mp h with h | h
        · exact absurd h hx
        · exact ⟨ih h, by simp [hx]⟩

end MetaO

/-! ## 5. ranged double-ended iteration -/
section Range
variable [LT K] [DecidableLT K] [DecidableEq K] [LE K] [Std.IsLinearOrder K] [Std.LawfulOrderLT K]

theorem dropWhile_eq_filter {α : Type} (p : α → Bool) (l : List α)
    (h : l.Pairwise (fun a b => p b = true → p a = true)) :
    l.dropWhile p = l.filter (fun x => !p x) := by
  induction l with
  | nil => rfl
  | cons x xs ih =>
    have ih := ih (List.pairwise_cons.mp h).2
    have hx := (List.pairwise_cons.mp h).1
    by_cases hp : p x = true
    · simp [List.dropWhile_cons, List.filter_cons, hp, ih]
    · have hall : ∀ y ∈ xs, (!p y) = true := by
        intro y hy
        have := hx y hy
        cases hpy : p y <;> simp_all
      simp [List.dropWhile_cons, List.filter_cons, hp, List.filter_eq_self.mpr hall]

theorem dropWhileBack_eq_filter {α : Type} (p : α → Bool) (l : List α)
    (h : l.Pairwise (fun a b => p a = true → p b = true)) :
    dropWhileBack p l = l.filter (fun x => !p x) := by
  unfold dropWhileBack
  rw [dropWhile_eq_filter p l.reverse (by rw [List.pairwise_reverse]; exact h)]
  simp [List.filter_reverse]

theorem seekLowerBound_eq_filter (lo : Bound K) {b : List (Entry K)} (hs : IsSource b) :
    seekLowerBound lo b = b.filter (fun e => lo.okLo e.key) := by
  have hk := hs.keys_le
  rw [List.pairwise_map] at hk
  cases lo with
  | unb => simp only [seekLowerBound, Bound.okLo]; exact (List.filter_eq_self.mpr (by simp)).symm
  | incl x =>
    simp only [seekLowerBound, Bound.okLo]
    apply dropWhile_eq_filter
    refine List.Pairwise.imp ?_ hk
    intro a c hac; simp only [decide_eq_true_eq]; grind
  | excl x =>
    simp only [seekLowerBound, Bound.okLo]
    rw [dropWhile_eq_filter]
    · simp
    · refine List.Pairwise.imp ?_ hk
      intro a c hac; simp only [Bool.not_eq_eq_eq_not, Bool.not_true, decide_eq_false_iff_not]; grind

theorem seekUpperBound_eq_filter (hi : Bound K) {b : List (Entry K)} (hs : IsSource b) :
    seekUpperBound hi b = b.filter (fun e => hi.okHi e.key) := by
  have hk := hs.keys_le
  rw [List.pairwise_map] at hk
  cases hi with
  | unb => simp only [seekUpperBound, Bound.okHi]; exact (List.filter_eq_self.mpr (by simp)).symm
  | incl x =>
    simp only [seekUpperBound, Bound.okHi]
    apply dropWhileBack_eq_filter
    refine List.Pairwise.imp ?_ hk
    intro a c hac; simp only [decide_eq_true_eq]; grind
  | excl x =>
    simp only [seekUpperBound, Bound.okHi]
    rw [dropWhileBack_eq_filter]
    · simp
    · refine List.Pairwise.imp ?_ hk
      intro a c hac; simp only [Bool.not_eq_eq_eq_not, Bool.not_true, decide_eq_false_iff_not]; grind

theorem clipF_eq_filter (lo hi : Bound K) {b : List (Entry K)} (hs : IsSource b) :
    clipF lo hi b = b.filter (fun e => inBounds lo hi e.key) := by
  unfold clipF
  rw [seekLowerBound_eq_filter lo hs, seekUpperBound_eq_filter hi (IsSource.sublist List.filter_sublist hs),
    List.filter_filter]
  congr 1; funext e; simp [inBounds, Bool.and_comm]

theorem clipB_eq_filter (lo hi : Bound K) {b : List (Entry K)} (hs : IsSource b) :
    clipB lo hi b = b.filter (fun e => inBounds lo hi e.key) := by
  unfold clipB
  rw [seekUpperBound_eq_filter hi hs, seekLowerBound_eq_filter lo (IsSource.sublist List.filter_sublist hs),
    List.filter_filter]
  rfl

end Range

end Lsm.Blocks
