import LsmModel.Lemmas.CodecBackSeek
/-
  LsmModel.Lemmas.CodecBackSeekBwd — `seek_upper` followed by backward iteration.
-/
namespace Lsm.CodecBack
open Lsm Lsm.Codec

section
variable {data : Bytes} {ri : Nat} {items : List (Entry Bytes)} {off kOff : Nat → Nat} {d0 : Dec}

/-- (a) `Decoder::seek_upper` (first variant) on the fresh decoder: the back cursor is positioned at the end of
    restart interval `j` -/
theorem seekUpper_spec (L : Layout data ri items off kOff d0) (pred : Bytes → Nat → Bool)
    (hmono : HeadMono ri items pred) :
    ∃ left j d', d0.seekUpper pred false = some (d', true) ∧ d'.data = data ∧
      BInv data ri items off kOff d0 0 0 none (j * ri + min ri (items.length - j * ri)) d' ∧
      j = left - 1 ∧ left ≤ nRof ri items ∧ j * ri < items.length ∧
      (∀ a, a < j → HeadT ri items pred a) ∧ (left = 0 ∨ HeadT ri items pred j) ∧
      (∀ a, j < a → HeadF ri items pred a) ∧ (left = 0 → HeadF ri items pred 0) := by
  obtain ⟨left, j, hpp, hjl, hle, hj, rest⟩ := partitionPoint_spec L pred hmono 0 0 none 0 (some (nRof ri items)) [] none
  have hf := fillStack_spec L j hj [] 0 0 none (off (j * ri)) none
  have e0 : d0.seekUpper pred false =
      (St data ri d0.step (nRof ri items) d0.binOff 0 0 none 0 (some (nRof ri items)) [] none).seekUpper pred false :=
    congrArg (fun d => Dec.seekUpper d pred false) (d0_St L)
  refine ⟨left, j, _, ?_, rfl, Or.inl ⟨j, min ri (items.length - j * ri), rfl, rfl, Nat.min_le_left _ _⟩, hjl, hle, hj, rest⟩
  rw [e0, Dec.seekUpper]
  simp only [Bool.false_eq_true, if_false]
  rw [hpp]
  show (Dec.fillStack (St data ri d0.step (nRof ri items) d0.binOff 0 0 none (off (j * ri)) (some j) [] none)).map _ = _
  rw [hf]
  simp only [List.append_nil, Option.map_some]

/-- draining from the back when an item is parked in the back peek slot -/
theorem drainBack_peeked (L : Layout data ri items off kOff d0) (m : Nat) (d' : Dec) (x : PItem)
    (hm : m + 1 ≤ items.length) (hx : items[m]? = some x.e)
    (hI' : BInv data ri items off kOff d0 0 0 none m d') (g : Nat) (hg : m + 1 + 1 ≤ g) :
    Iter.drainBack g { dec := d', front := none, back := some (some x) } = some (items.take (m + 1)).reverse := by
  cases g with
  | zero => omega
  | succ g =>
    simp only [Iter.drainBack, Iter.nextBack]
    rw [drainBack_BInv L m g d' none none (by omega) (by omega) rfl rfl hI']
    rw [List.take_add_one, hx]
    simp

/-- (b) the backward linear scan of `seek_upper` from a `BInv m` state, then draining from the back -/
theorem scanBwd_spec (L : Layout data ri items off kOff d0) (needle : Bytes) :
    ∀ (m f : Nat) (d : Dec), m ≤ items.length → m + 1 ≤ f →
      BInv data ri items off kOff d0 0 0 none m d →
      ∃ it' b m', Iter.scanBwd needle false f { dec := d, front := none, back := none } = some (it', b) ∧
        m' ≤ m ∧
        (∀ g, m' + 1 ≤ g → Iter.drainBack g it' = some (items.take m').reverse) ∧
        (∀ i e, m' ≤ i → i < m → items[i]? = some e → cmpKey e.key needle = .gt) ∧
        ((m' = 0 ∧ b = false) ∨
          ∃ e, items[m' - 1]? = some e ∧ 0 < m' ∧ cmpKey e.key needle ≠ .gt ∧
            (b = true ↔ cmpKey e.key needle = .eq)) := by
  intro m
  induction m with
  | zero =>
    intro f d _ hf hI
    obtain ⟨d', hd⟩ := nextBack_done L d 0 0 none hI
    cases f with
    | zero => omega
    | succ f =>
      refine ⟨{ dec := d', front := none, back := some none }, false, 0, ?_, Nat.le_refl _, ?_, ?_, Or.inl ⟨rfl, rfl⟩⟩
      · simp [Iter.scanBwd, Iter.peekBack, hd, peekedValue]
      · intro g hg
        cases g with
        | zero => omega
        | succ g => simp [Iter.drainBack, Iter.nextBack, peekedValue]
      · intro i e h1 h2; omega
  | succ m ih =>
    intro f d hm hf hI
    obtain ⟨d', x, hd, hx, hI'⟩ := nextBack_step L m d 0 0 none hm (Nat.zero_le _) hI
    cases f with
    | zero => omega
    | succ f =>
      cases hc : cmpKey x.e.key needle with
      | gt =>
        obtain ⟨it', b, m', hs, hle, hdr, hgt, hb⟩ := ih f d' (by omega) (by omega) hI'
        refine ⟨it', b, m', ?_, by omega, hdr, ?_, hb⟩
        · simp only [Iter.scanBwd, Iter.peekBack, hd, hc, Iter.nextBack]
          exact hs
        · intro i e h1 h2 he
          by_cases him : i = m
          · subst him; rw [hx] at he; cases he; exact hc
          · exact hgt i e h1 (by omega) he
      | lt =>
        refine ⟨{ dec := d', front := none, back := some (some x) }, false, m + 1, ?_, Nat.le_refl _,
          drainBack_peeked L m d' x hm hx hI', ?_,
          Or.inr ⟨x.e, hx, by omega, by rw [hc]; simp, by rw [hc]; simp⟩⟩
        · simp only [Iter.scanBwd, Iter.peekBack, hd, hc]
        · intro i e h1 h2; omega
      | eq =>
        refine ⟨{ dec := d', front := none, back := some (some x) }, true, m + 1, ?_, Nat.le_refl _,
          drainBack_peeked L m d' x hm hx hI', ?_,
          Or.inr ⟨x.e, hx, by omega, by rw [hc]; simp, by rw [hc]; simp⟩⟩
        · simp only [Iter.scanBwd, Iter.peekBack, hd, hc]
        · intro i e h1 h2; omega

theorem takeWhile_eq_take' {α : Type} (p : α → Bool) : ∀ (l : List α) (m : Nat),
    (∀ i e, i < m → l[i]? = some e → p e = true) → (∀ i e, m ≤ i → l[i]? = some e → p e = false) →
    m ≤ l.length → l.takeWhile p = l.take m := by
  intro l
  induction l with
  | nil => intro m _ _ _; simp
  | cons a l ih =>
    intro m h1 h2 hm
    cases m with
    | zero =>
      have := h2 0 a (Nat.le_refl _) rfl
      simp [List.takeWhile, this]
    | succ m =>
      have := h1 0 a (by omega) rfl
      simp only [List.takeWhile, this, List.take_succ_cons]
      rw [ih m (fun i e hi he => h1 (i + 1) e (by omega) (by simpa using he))
        (fun i e hi he => h2 (i + 1) e (by omega) (by simpa using he)) (by simpa using hm)]

theorem cmpKey_gt {k n : Bytes} (h : cmpKey k n = .gt) : n < k := by
  unfold cmpKey at h
  by_cases h1 : k < n
  · simp [h1] at h
  · by_cases h2 : k = n
    · subst h2; simp [h1] at h
    · apply Classical.byContradiction
      intro h3
      exact h2 (List.le_antisymm h3 h1)

theorem cmpKey_not_gt {k n : Bytes} (h : cmpKey k n ≠ .gt) : ¬ n < k := by
  unfold cmpKey at h
  by_cases h1 : k < n
  · exact List.lt_asymm h1
  · by_cases h2 : k = n
    · subst h2; exact List.lt_irrefl k
    · simp [h1, h2] at h

theorem cmpKey_eq_iff {k n : Bytes} : cmpKey k n = .eq ↔ k = n := by
  unfold cmpKey
  constructor
  · intro h
    by_cases h1 : k < n
    · simp [h1] at h
    · by_cases h2 : k = n
      · exact h2
      · simp [h1, h2] at h
  · intro h
    subst h
    simp [List.lt_irrefl k]

/-- `seek_upper k` then backward iteration yields the reverse of the prefix of items with user key ≤ k -/
theorem seekUpper_backward (L : Layout data ri items off kOff d0)
    (hs : ∀ (a b : Nat) (ea eb : Entry Bytes), a ≤ b → items[a]? = some ea → items[b]? = some eb → ¬ eb.key < ea.key)
    (needle : Bytes) :
    ∃ it' b, (Iter.new data).bind (fun it => it.seekUpper needle false) = some (it', b) ∧
      Iter.drainBack (data.length + 2) it' = some ((items.takeWhile (fun e => !decide (needle < e.key))).reverse) ∧
      b = ((items.takeWhile (fun e => !decide (needle < e.key))).getLast?.map (fun e => decide (e.key = needle))).getD false := by
  have hri := L.ri_pos
  have hmono : HeadMono ri items (fun k _ => decide (k < needle) || decide (k = needle)) := by
    intro a b ea eb hab hea heb hp
    have hle := hs (a * ri) (b * ri) ea eb (Nat.mul_le_mul_right _ hab) hea heb
    simp only [Bool.or_eq_true, decide_eq_true_eq] at hp ⊢
    by_cases h1 : ea.key < needle
    · exact Or.inl h1
    · refine Or.inr (List.le_antisymm ?_ h1)
      intro h2
      rcases hp with hp | hp
      · exact hle (List.lt_trans hp h2)
      · rw [hp] at hle; exact hle h2
  obtain ⟨left, j, d', hsu, hdata, hI, hjl, hle, hj, _, _, hF, _⟩ := seekUpper_spec L _ hmono
  have hlen := length_le_data L
  have hM : j * ri + min ri (items.length - j * ri) ≤ items.length := by omega
  have hM2 : ∀ i, ¬ i < j * ri + min ri (items.length - j * ri) → i < items.length →
      j * ri + ri ≤ i ∧ j * ri + ri < items.length := by
    intro i h1 h2; omega
  obtain ⟨it', b, m', hsc, hm', hdr, hgt, hb⟩ := scanBwd_spec L needle _ (data.length + 1) d' hM (by omega) hI
  -- everything at index ≥ m' has key > needle
  have hhi : ∀ i e, m' ≤ i → items[i]? = some e → needle < e.key := by
    intro i e hi he
    by_cases hiM : i < j * ri + min ri (items.length - j * ri)
    · exact cmpKey_gt (hgt i e hi hiM he)
    · have hin : i < items.length := by
        rcases Nat.lt_or_ge i items.length with h | h
        · exact h
        · rw [List.getElem?_eq_none h] at he; cases he
      have hjr : (j + 1) * ri = j * ri + ri := by rw [Nat.add_mul, Nat.one_mul]
      obtain ⟨hq1, hq2⟩ := hM2 i hiM hin
      have hlt : (j + 1) * ri < items.length := by rw [hjr]; exact hq2
      have hle2 : (j + 1) * ri ≤ i := by rw [hjr]; exact hq1
      have hf := hF (j + 1) (Nat.lt_succ_self j) items[(j + 1) * ri] (by simp [hlt])
      simp only [Bool.or_eq_false_iff, decide_eq_false_iff_not] at hf
      have h1 : needle < (items[(j + 1) * ri]).key := by
        apply Classical.byContradiction
        intro h3
        exact hf.2 (List.le_antisymm h3 hf.1)
      have h2 := hs ((j + 1) * ri) i (items[(j + 1) * ri]) e hle2 (by simp [hlt]) he
      apply Classical.byContradiction
      intro h3
      exact h2 (List.lt_of_le_of_lt (List.not_lt.mp h3) h1)
  have htw : items.takeWhile (fun e => !decide (needle < e.key)) = items.take m' := by
    apply takeWhile_eq_take'
    · intro i e hi he
      rcases hb with ⟨h0, _⟩ | ⟨el, hel, _, hng, _⟩
      · omega
      · have h2 := hs i (m' - 1) e el (Nat.le_sub_one_of_lt hi) he hel
        have h3 := cmpKey_not_gt hng
        simp only [Bool.not_eq_true', decide_eq_false_iff_not]
        intro h4
        exact h2 (List.lt_of_le_of_lt (List.not_lt.mp h3) h4)
    · intro i e hi he
      simp [hhi i e hi he]
    · exact Nat.le_trans hm' hM
  refine ⟨it', b, ?_, ?_, ?_⟩
  · unfold Iter.new
    rw [L.new]
    simp only [Option.map_some, Option.bind_some, Iter.seekUpper, hsu, hdata]
    exact hsc
  · rw [htw]
    exact hdr _ (Nat.le_trans (Nat.succ_le_succ (Nat.le_trans hm' hM)) (Nat.le_trans hlen (Nat.le_succ _)))
  · rw [htw]
    rcases hb with ⟨h0, hb0⟩ | ⟨el, hel, hpos, _, hbe⟩
    · subst h0; simp [hb0]
    · have e1 : m' = (m' - 1) + 1 := by omega
      rw [e1, List.take_add_one, hel]
      simp only [Option.toList_some, List.getLast?_concat, Option.map_some, Option.getD_some]
      rw [cmpKey_eq_iff] at hbe
      cases b with
      | true => simp [hbe.mp rfl]
      | false =>
        have : ¬ el.key = needle := fun h => by have := hbe.mpr h; cases this
        simp [this]

end
end Lsm.CodecBack

#print axioms Lsm.CodecBack.seekUpper_spec
#print axioms Lsm.CodecBack.scanBwd_spec
#print axioms Lsm.CodecBack.seekUpper_backward
