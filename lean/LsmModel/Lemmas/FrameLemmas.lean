import LsmModel.Table.Frame
/-!
# Lemmas about the on-disk frames (C10)
-/
namespace Lsm.Frame

/-! ## little-endian -/

@[simp] theorem leBytes_length (w n : Nat) : (leBytes w n).length = w := by
  induction w generalizing n with
  | zero => rfl
  | succ w ih => simp [leBytes, ih]

theorem leNat_leBytes (w n : Nat) : leNat (leBytes w n) = n % 256 ^ w := by
  induction w generalizing n with
  | zero => simp [leBytes, leNat, Nat.mod_one]
  | succ w ih =>
    simp only [leBytes, leNat, ih]
    have : (UInt8.ofNat (n % 256)).toNat = n % 256 := by
      simp
    rw [this, Nat.pow_succ, Nat.mul_comm (256 ^ w) 256, Nat.mod_mul]

theorem leNat_leBytes_of_lt {w n : Nat} (h : n < 256 ^ w) : leNat (leBytes w n) = n := by
  rw [leNat_leBytes, Nat.mod_eq_of_lt h]

theorem leNat_lt (bs : Bytes) : leNat bs < 256 ^ bs.length := by
  induction bs with
  | nil => simp [leNat]
  | cons b bs ih =>
    simp only [leNat, List.length_cons, Nat.pow_succ]
    have := b.toNat_lt
    omega

theorem leBytes_leNat (bs : Bytes) : leBytes bs.length (leNat bs) = bs := by
  induction bs with
  | nil => rfl
  | cons b bs ih =>
    simp only [leNat, List.length_cons, leBytes]
    have hb := b.toNat_lt
    have h1 : (b.toNat + 256 * leNat bs) % 256 = b.toNat := by omega
    have h2 : (b.toNat + 256 * leNat bs) / 256 = leNat bs := by omega
    rw [h1, h2, ih]
    simp

theorem leBytes_leNat' {w : Nat} {bs : Bytes} (h : bs.length = w) : leBytes w (leNat bs) = bs := by
  subst h; exact leBytes_leNat bs

theorem leBytes_inj {w a b : Nat} (ha : a < 256 ^ w) (hb : b < 256 ^ w) (h : leBytes w a = leBytes w b) : a = b := by
  rw [← leNat_leBytes_of_lt ha, ← leNat_leBytes_of_lt hb, h]

theorem u16le_roundtrip {n : Nat} (h : n < 2 ^ 16) : leNat (u16le n) = n := leNat_leBytes_of_lt (w := 2) h
theorem u32le_roundtrip {n : Nat} (h : n < 2 ^ 32) : leNat (u32le n) = n := leNat_leBytes_of_lt (w := 4) h
theorem u64le_roundtrip {n : Nat} (h : n < 2 ^ 64) : leNat (u64le n) = n := leNat_leBytes_of_lt (w := 8) h
theorem u128le_roundtrip {n : Nat} (h : n < 2 ^ 128) : leNat (u128le n) = n := leNat_leBytes_of_lt (w := 16) h

@[simp] theorem u16le_length (n : Nat) : (u16le n).length = 2 := leBytes_length 2 n
@[simp] theorem u32le_length (n : Nat) : (u32le n).length = 4 := leBytes_length 4 n
@[simp] theorem u64le_length (n : Nat) : (u64le n).length = 8 := leBytes_length 8 n
@[simp] theorem u128le_length (n : Nat) : (u128le n).length = 16 := leBytes_length 16 n

theorem u32le_leNat {bs : Bytes} (h : bs.length = 4) : u32le (leNat bs) = bs := leBytes_leNat' h
theorem u16le_leNat {bs : Bytes} (h : bs.length = 2) : u16le (leNat bs) = bs := leBytes_leNat' h
theorem u64le_leNat {bs : Bytes} (h : bs.length = 8) : u64le (leNat bs) = bs := leBytes_leNat' h

theorem leNat_lt_of_length {bs : Bytes} {w : Nat} (h : bs.length = w) : leNat bs < 256 ^ w := by
  subst h; exact leNat_lt bs

/-! ## readers -/

theorem readN_ok {n : Nat} {bs a r : Bytes} : readN n bs = .ok (a, r) ↔ bs = a ++ r ∧ a.length = n := by
  unfold readN
  split
  · constructor
    · intro h; cases h
    · rintro ⟨rfl, rfl⟩; simp at *; omega
  · constructor
    · intro h
      injection h with h; injection h with h1 h2
      subst h1 h2
      simp [List.length_take]; omega
    · rintro ⟨rfl, rfl⟩; simp

theorem readN_error {n : Nat} {bs : Bytes} {e : Err} (h : readN n bs = .error e) :
    e = .truncated ∧ bs.length < n := by
  unfold readN at h
  split at h
  · injection h with h; exact ⟨h.symm, by assumption⟩
  · cases h

theorem readN_append {n : Nat} {a : Bytes} (r : Bytes) (h : a.length = n) : readN n (a ++ r) = .ok (a, r) :=
  readN_ok.mpr ⟨rfl, h⟩

theorem readN_short {n : Nat} {bs : Bytes} (h : bs.length < n) : readN n bs = .error .truncated := by
  simp [readN, h]

theorem readByte_ok {bs r : Bytes} {b : UInt8} : readByte bs = .ok (b, r) ↔ bs = b :: r := by
  cases bs with
  | nil => simp [readByte]
  | cons x xs => simp [readByte]

theorem readByte_error {bs : Bytes} {e : Err} (h : readByte bs = .error e) : e = .truncated ∧ bs = [] := by
  cases bs with
  | nil => simp [readByte] at h; exact ⟨h.symm, rfl⟩
  | cons x xs => simp [readByte] at h

/-! ## block header -/

/-- A header the writer can produce / the reader can return. -/
structure Header.Valid (h : Header) : Prop where
  ty : h.blockType ≤ 3
  ck : h.checksum.length = 16
  dl : h.dataLength < 2 ^ 32
  ul : h.uncompressedLength < 2 ^ 32

@[simp] theorem headerPrefix_length {h : Header} (hc : h.checksum.length = 16) : (headerPrefix h).length = 29 := by
  simp [headerPrefix, blockMagic, hc]

theorem decodeHeaderCore_ok {h32 : Bytes → Bytes} {bs rest : Bytes} {h : Header}
    (hd : decodeHeaderCore h32 bs = .ok (h, rest)) :
    bs = encodeHeaderCore h32 h ++ rest ∧ h.Valid ∧ (h32 (headerPrefix h)).length = 4 := by
  unfold decodeHeaderCore at hd
  split at hd
  · cases hd
  rename_i magic r1 e1
  split at hd
  · cases hd
  rename_i hmagic
  split at hd
  · cases hd
  rename_i ty r2 e2
  split at hd
  · cases hd
  rename_i hty
  split at hd
  · cases hd
  rename_i ck r3 e3
  split at hd
  · cases hd
  rename_i dl r4 e4
  split at hd
  · cases hd
  rename_i ul r5 e5
  simp only at hd
  split at hd
  · cases hd
  rename_i hh r6 e6
  split at hd
  · cases hd
  rename_i hhh
  injection hd with hd
  injection hd with hd1 hd2
  subst hd1 hd2
  obtain ⟨rfl, l1⟩ := readN_ok.mp e1
  rw [readByte_ok] at e2; subst e2
  obtain ⟨rfl, l3⟩ := readN_ok.mp e3
  obtain ⟨rfl, l4⟩ := readN_ok.mp e4
  obtain ⟨rfl, l5⟩ := readN_ok.mp e5
  obtain ⟨rfl, l6⟩ := readN_ok.mp e6
  simp only [Decidable.not_not] at hmagic hhh
  subst hmagic
  refine ⟨?_, ⟨?_, l3, leNat_lt_of_length l4, leNat_lt_of_length l5⟩, ?_⟩
  · simp [encodeHeaderCore, headerPrefix, u32le_leNat l4, u32le_leNat l5, hhh]
  · exact UInt8.not_lt.mp hty
  · simp only [headerPrefix, u32le_leNat l4, u32le_leNat l5]
    rw [← hhh]; exact l6


theorem decodeHeaderCore_encode {h32 : Bytes → Bytes} {h : Header} (rest : Bytes) (hv : h.Valid)
    (h4 : (h32 (headerPrefix h)).length = 4) :
    decodeHeaderCore h32 (encodeHeaderCore h32 h ++ rest) = .ok (h, rest) := by
  obtain ⟨hty, hck, hdl, hul⟩ := hv
  have e : encodeHeaderCore h32 h ++ rest =
      blockMagic ++ (h.blockType :: (h.checksum ++ (u32le h.dataLength ++ (u32le h.uncompressedLength ++
        (h32 (headerPrefix h) ++ rest))))) := by
    simp [encodeHeaderCore, headerPrefix]
  rw [e]
  unfold decodeHeaderCore
  rw [readN_append _ (by rfl)]
  simp only [ne_eq, not_true_eq_false, ↓reduceIte, readByte]
  rw [if_neg (UInt8.not_lt.mpr hty), readN_append _ hck]
  simp only
  rw [readN_append _ (u32le_length _)]
  simp only
  rw [readN_append _ (u32le_length _)]
  simp only
  rw [readN_append _ h4]
  simp only
  have : blockMagic ++ [h.blockType] ++ h.checksum ++ u32le h.dataLength ++ u32le h.uncompressedLength = headerPrefix h := rfl
  rw [this]
  simp [u32le_roundtrip hdl, u32le_roundtrip hul]


theorem encodeHeaderCore_length {h32 : Bytes → Bytes} {h : Header} (hc : h.checksum.length = 16)
    (h4 : (h32 (headerPrefix h)).length = 4) : (encodeHeaderCore h32 h).length = 33 := by
  simp [encodeHeaderCore, headerPrefix_length hc, h4]

theorem first4_length {H : Bytes → Bytes} (hH : ∀ x, (H x).length = 16) (x : Bytes) : (first4 (H x)).length = 4 := by
  simp [first4, List.length_take, hH x]

theorem prefix_cases {q a r : Bytes} (h : q <+: a ++ r) :
    q.length < a.length ∨ ∃ q', q = a ++ q' ∧ q' <+: r := by
  by_cases hl : q.length < a.length
  · exact .inl hl
  · right
    rw [List.prefix_iff_eq_take, List.take_append] at h
    rw [List.take_of_length_le (by omega)] at h
    exact ⟨_, h, List.take_prefix _ _⟩

theorem frame_parts {pre hh tail : Bytes} (h1 : pre.length = 29) (h2 : hh.length = 4) :
    hdrPrefixOf (pre ++ hh ++ tail) = pre ∧ hdrHashFieldOf (pre ++ hh ++ tail) = hh ∧
    (pre ++ hh ++ tail).drop 33 = tail := by
  refine ⟨?_, ?_, ?_⟩
  · unfold hdrPrefixOf prefixLen; rw [List.append_assoc]; exact List.take_left' h1
  · unfold hdrHashFieldOf prefixLen
    rw [List.append_assoc, List.drop_left' h1]; exact List.take_left' h2
  · exact List.drop_left' (by simp [h1, h2])

theorem headerPrefix_inj {h h' : Header} (hv : h.Valid) (hv' : h'.Valid) (e : headerPrefix h = headerPrefix h') :
    h = h' := by
  obtain ⟨_, c1, d1, u1⟩ := hv
  obtain ⟨_, c2, d2, u2⟩ := hv'
  unfold headerPrefix at e
  obtain ⟨e, eu⟩ := List.append_inj' e (by simp)
  obtain ⟨e, ed⟩ := List.append_inj' e (by simp)
  obtain ⟨e, ec⟩ := List.append_inj' e (by simp [c1, c2])
  obtain ⟨_, et⟩ := List.append_inj' e (by simp)
  cases h; cases h'
  simp only [List.cons.injEq, and_true] at et
  simp only at ec c1 c2 d1 d2 u1 u2 ed eu
  have := leBytes_inj (w := 4) d1 d2 ed
  have := leBytes_inj (w := 4) u1 u2 eu
  simp_all

/-! ## blocks: what a successful decode implies -/

theorem checkType_ok {exp : Option UInt8} {r : Except Err (Header × Bytes)} {h : Header} {p : Bytes} :
    checkType exp r = .ok (h, p) ↔ r = .ok (h, p) ∧ ∀ t, exp = some t → h.blockType = t := by
  unfold checkType
  split
  · simp
  · rename_i h0 p0
    cases exp with
    | none => simp
    | some t =>
      simp only [ne_eq, ite_not, Option.some.injEq, forall_eq']
      split
      · rename_i ht
        constructor
        · intro e; injection e with e; injection e with e1 e2; subst e1 e2; exact ⟨rfl, ht⟩
        · rintro ⟨e, _⟩; exact e
      · rename_i ht
        constructor
        · intro e; cases e
        · rintro ⟨e, ht'⟩; injection e with e; injection e with e1 e2; subst e1 e2; exact absurd ht' ht

theorem resultOf_ok {r : Except Err (Header × Bytes)} {ty : UInt8} {p : Bytes} :
    resultOf r = .ok (ty, p) ↔ ∃ h, r = .ok (h, p) ∧ h.blockType = ty := by
  unfold resultOf
  split
  · simp
  · rename_i h0 p0
    constructor
    · intro e; injection e with e; injection e with e1 e2; subst e1 e2; exact ⟨h0, rfl, rfl⟩
    · rintro ⟨h, e, rfl⟩; injection e with e; injection e with e1 e2; subst e1 e2; rfl

theorem readBlockCore_ok {h32 h128 : Bytes → Bytes} {bs p : Bytes} {h : Header}
    (hd : readBlockCore h32 h128 bs = .ok (h, p)) :
    ∃ rest, bs = encodeHeaderCore h32 h ++ p ++ rest ∧ h.Valid ∧ (h32 (headerPrefix h)).length = 4 ∧
      h.dataLength = p.length ∧ h.checksum = h128 p := by
  unfold readBlockCore at hd
  split at hd
  · cases hd
  rename_i h0 r e0
  split at hd
  · cases hd
  rename_i raw r' e1
  split at hd
  · cases hd
  rename_i hck
  injection hd with hd; injection hd with hd1 hd2; subst hd1 hd2
  obtain ⟨rfl, hv, h4⟩ := decodeHeaderCore_ok e0
  obtain ⟨rfl, hl⟩ := readN_ok.mp e1
  simp only [ne_eq, Decidable.not_not] at hck
  exact ⟨r', by simp, hv, h4, hl.symm, hck.symm⟩

theorem readBlockExactCore_ok {h32 h128 : Bytes → Bytes} {buf p : Bytes} {h : Header}
    (hd : readBlockExactCore h32 h128 buf = .ok (h, p)) :
    buf = encodeHeaderCore h32 h ++ p ∧ h.Valid ∧ (h32 (headerPrefix h)).length = 4 ∧ h.checksum = h128 p := by
  unfold readBlockExactCore at hd
  split at hd
  · cases hd
  rename_i h0 r e0
  simp only at hd
  split at hd
  · cases hd
  rename_i hck
  injection hd with hd; injection hd with hd1 hd2; subst hd1
  obtain ⟨rfl, hv, h4⟩ := decodeHeaderCore_ok e0
  have : (encodeHeaderCore h32 h0 ++ r).drop headerLen = r :=
    List.drop_left' (encodeHeaderCore_length hv.ck h4)
  rw [this] at hd2 hck
  subst hd2
  simp only [ne_eq, Decidable.not_not] at hck
  exact ⟨rfl, hv, h4, hck.symm⟩



/-! ## blocks: round trip -/

/-- the header `Block::write_into` produces -/
def blockHeader (H : Bytes → Bytes) (ty : UInt8) (p : Bytes) : Header :=
  { blockType := ty, checksum := H p, dataLength := p.length, uncompressedLength := p.length }

theorem encodeBlock_eq (H : Bytes → Bytes) (ty : UInt8) (p : Bytes) :
    encodeBlock H ty p = encodeHeaderCore (fun x => first4 (H x)) (blockHeader H ty p) ++ p := rfl

theorem blockHeader_valid {H : Bytes → Bytes} (hH : ∀ x, (H x).length = 16) {ty : UInt8} {p : Bytes}
    (hty : ty ≤ 3) (hp : p.length < 2 ^ 32) : (blockHeader H ty p).Valid :=
  ⟨hty, hH p, hp, hp⟩

theorem encodeBlock_length {H : Bytes → Bytes} (hH : ∀ x, (H x).length = 16) (ty : UInt8) (p : Bytes) :
    (encodeBlock H ty p).length = 33 + p.length := by
  rw [encodeBlock_eq, List.length_append,
    encodeHeaderCore_length (h := blockHeader H ty p) (hH p) (first4_length hH _)]

theorem readBlockCore_encode {H : Bytes → Bytes} (hH : ∀ x, (H x).length = 16) {ty : UInt8} {p : Bytes}
    (hty : ty ≤ 3) (hp : p.length < 2 ^ 32) (rest : Bytes) :
    readBlockCore (fun x => first4 (H x)) H (encodeBlock H ty p ++ rest) = .ok (blockHeader H ty p, p) := by
  rw [encodeBlock_eq, List.append_assoc]
  unfold readBlockCore
  rw [decodeHeaderCore_encode _ (blockHeader_valid hH hty hp) (first4_length hH _)]
  simp only
  rw [readN_append rest (show p.length = (blockHeader H ty p).dataLength from rfl)]
  simp [blockHeader]

theorem readBlockExactCore_encode {H : Bytes → Bytes} (hH : ∀ x, (H x).length = 16) {ty : UInt8} {p : Bytes}
    (hty : ty ≤ 3) (hp : p.length < 2 ^ 32) :
    readBlockExactCore (fun x => first4 (H x)) H (encodeBlock H ty p) = .ok (blockHeader H ty p, p) := by
  rw [encodeBlock_eq]
  unfold readBlockExactCore
  rw [decodeHeaderCore_encode _ (blockHeader_valid hH hty hp) (first4_length hH _)]
  simp only
  rw [List.drop_left' (encodeHeaderCore_length (h := blockHeader H ty p) (hH p) (first4_length hH _))]
  simp [blockHeader]

theorem block_roundtrip {H : Bytes → Bytes} (hH : ∀ x, (H x).length = 16) {ty : UInt8} {p : Bytes}
    (hty : ty ≤ 3) (hp : p.length < 2 ^ 32) (rest : Bytes) :
    decodeBlock H (some ty) (encodeBlock H ty p ++ rest) = .ok (ty, p) := by
  simp [decodeBlock, decodeBlockFull, decodeBlockCore, readBlockCore_encode hH hty hp, checkType, resultOf,
    blockHeader]

theorem block_roundtrip_untyped {H : Bytes → Bytes} (hH : ∀ x, (H x).length = 16) {ty : UInt8} {p : Bytes}
    (hty : ty ≤ 3) (hp : p.length < 2 ^ 32) (rest : Bytes) :
    decodeBlock H none (encodeBlock H ty p ++ rest) = .ok (ty, p) := by
  simp [decodeBlock, decodeBlockFull, decodeBlockCore, readBlockCore_encode hH hty hp, checkType, resultOf,
    blockHeader]

theorem blockExact_roundtrip {H : Bytes → Bytes} (hH : ∀ x, (H x).length = 16) {ty : UInt8} {p : Bytes}
    (hty : ty ≤ 3) (hp : p.length < 2 ^ 32) :
    decodeBlockExact H (some ty) (encodeBlock H ty p) = .ok (ty, p) := by
  simp [decodeBlockExact, decodeBlockExactFull, decodeBlockExactCore, readBlockExactCore_encode hH hty hp,
    checkType, resultOf, blockHeader]

theorem blockFile_roundtrip {H : Bytes → Bytes} (hH : ∀ x, (H x).length = 16) {ty : UInt8} {p : Bytes}
    (hty : ty ≤ 3) (hp : p.length < 2 ^ 32) (rest : Bytes) :
    decodeBlockFile H (some ty) (encodeBlock H ty p ++ rest) (33 + p.length) = .ok (ty, p) := by
  unfold decodeBlockFile
  rw [readN_append rest (encodeBlock_length hH ty p)]
  exact blockExact_roundtrip hH hty hp

/-- debug builds accept what the writer produces, too -/
theorem blockDbg_roundtrip {H : Bytes → Bytes} (hH : ∀ x, (H x).length = 16) {ty : UInt8} {p : Bytes}
    (hty : ty ≤ 3) (hp : p.length < 2 ^ 32) (rest : Bytes) :
    decodeBlockDbg H (some ty) (encodeBlock H ty p ++ rest) = .ok (ty, p) := by
  have : p.length % 4294967296 = p.length := Nat.mod_eq_of_lt hp
  simp [decodeBlockDbg, readBlockCore_encode hH hty hp, checkType, resultOf, debugAssert, blockHeader, this]

/-! ## type confusion -/

theorem block_type_confusion {H : Bytes → Bytes} (hH : ∀ x, (H x).length = 16) {ty t : UInt8} {p : Bytes}
    (hty : ty ≤ 3) (hp : p.length < 2 ^ 32) (hne : t ≠ ty) (rest : Bytes) :
    decodeBlock H (some t) (encodeBlock H ty p ++ rest) = .error .blockTypeMismatch := by
  simp [decodeBlock, decodeBlockFull, decodeBlockCore, readBlockCore_encode hH hty hp, checkType, resultOf,
    blockHeader, Ne.symm hne]

theorem blockExact_type_confusion {H : Bytes → Bytes} (hH : ∀ x, (H x).length = 16) {ty t : UInt8} {p : Bytes}
    (hty : ty ≤ 3) (hp : p.length < 2 ^ 32) (hne : t ≠ ty) :
    decodeBlockExact H (some t) (encodeBlock H ty p) = .error .blockTypeMismatch := by
  simp [decodeBlockExact, decodeBlockExactFull, decodeBlockExactCore, readBlockExactCore_encode hH hty hp,
    checkType, resultOf, blockHeader, Ne.symm hne]

/-- A type byte that is no `BlockType` is reported as such (the tag is checked before the header checksum). -/
theorem block_invalid_tag {h32 : Bytes → Bytes} {ty : UInt8} (hty : 3 < ty) (tail : Bytes) :
    decodeHeaderCore h32 (blockMagic ++ ty :: tail) = .error .invalidTag := by
  unfold decodeHeaderCore
  rw [readN_append _ (by rfl)]
  simp [readByte, hty]



/-! ## collisions -/

/-- two different inputs with the same 32-bit header hash -/
def Collision32 (H : Bytes → Bytes) : Prop := ∃ x y : Bytes, x ≠ y ∧ first4 (H x) = first4 (H y)

/-- two different inputs with the same 128-bit hash -/
def Collision128 (H : Bytes → Bytes) : Prop := ∃ x y : Bytes, x ≠ y ∧ H x = H y

/-- Header part of the corruption analysis: a header that decodes from bytes whose counterpart was written for
`h` either (a) differs from the original both inside the hashed prefix AND inside the hash field,
(b) exhibits a 32-bit collision, or (c) is the original header. -/
theorem header_corruption_cases {H : Bytes → Bytes} (hH : ∀ x, (H x).length = 16) {h h' : Header} (hv : h.Valid)
    {tail tail' bs' : Bytes}
    (hd : decodeHeaderCore (fun x => first4 (H x)) bs' = .ok (h', tail')) :
    let bs := encodeHeaderCore (fun x => first4 (H x)) h ++ tail
    (hdrPrefixOf bs' ≠ hdrPrefixOf bs ∧ hdrHashFieldOf bs' ≠ hdrHashFieldOf bs) ∨ Collision32 H ∨ h' = h := by
  intro bs
  obtain ⟨rfl, hv', _⟩ := decodeHeaderCore_ok hd
  have p1 := frame_parts (tail := tail) (headerPrefix_length hv.ck) (first4_length hH (headerPrefix h))
  have p2 := frame_parts (tail := tail') (headerPrefix_length hv'.ck) (first4_length hH (headerPrefix h'))
  simp only [bs, encodeHeaderCore]
  rw [p1.1, p1.2.1, p2.1, p2.2.1]
  by_cases e : headerPrefix h' = headerPrefix h
  · exact .inr (.inr (headerPrefix_inj hv' hv e))
  · by_cases e2 : first4 (H (headerPrefix h')) = first4 (H (headerPrefix h))
    · exact .inr (.inl ⟨_, _, e, e2⟩)
    · exact .inl ⟨e, e2⟩

/-- `from_file`: ANY buffer other than the written frame that still decodes is either a two-region rewrite
(hashed header prefix and header hash field both changed) or exhibits a collision. -/
theorem blockExact_corruption_cases {H : Bytes → Bytes} (hH : ∀ x, (H x).length = 16) {ty : UInt8} {p : Bytes}
    (hty : ty ≤ 3) (hp : p.length < 2 ^ 32) {exp : Option UInt8} {buf' : Bytes} {r : UInt8 × Bytes}
    (hne : buf' ≠ encodeBlock H ty p) (hd : decodeBlockExact H exp buf' = .ok r) :
    (hdrPrefixOf buf' ≠ hdrPrefixOf (encodeBlock H ty p) ∧
      hdrHashFieldOf buf' ≠ hdrHashFieldOf (encodeBlock H ty p)) ∨ Collision32 H ∨ Collision128 H := by
  obtain ⟨ty', p'⟩ := r
  obtain ⟨h', hd, _⟩ := resultOf_ok.mp hd
  obtain ⟨hd, _⟩ := checkType_ok.mp hd
  have hd0 := hd
  unfold readBlockExactCore at hd0
  split at hd0
  · cases hd0
  rename_i h0 r0 e0
  obtain ⟨rfl, hv', h4, hck⟩ := readBlockExactCore_ok hd
  have e0' := e0
  rw [decodeHeaderCore_encode _ hv' h4] at e0'
  injection e0' with e0'; injection e0' with e1 e2; subst e1 e2
  rcases header_corruption_cases hH (blockHeader_valid hH hty hp) (tail := p) e0 with c | c | c
  · exact .inl c
  · exact .inr (.inl c)
  · right; right
    subst c
    refine ⟨p', p, ?_, hck.symm⟩
    intro e; subst e; exact hne rfl

/-- `from_reader`: the same for byte strings of the SAME LENGTH as the written frame (trailing bytes are
ignored by `from_reader`, so longer strings that extend the frame decode to the same block). -/
theorem block_corruption_cases {H : Bytes → Bytes} (hH : ∀ x, (H x).length = 16) {ty : UInt8} {p : Bytes}
    (hty : ty ≤ 3) (hp : p.length < 2 ^ 32) {exp : Option UInt8} {bytes' : Bytes} {r : UInt8 × Bytes}
    (hlen : bytes'.length = (encodeBlock H ty p).length)
    (hne : bytes' ≠ encodeBlock H ty p) (hd : decodeBlock H exp bytes' = .ok r) :
    (hdrPrefixOf bytes' ≠ hdrPrefixOf (encodeBlock H ty p) ∧
      hdrHashFieldOf bytes' ≠ hdrHashFieldOf (encodeBlock H ty p)) ∨ Collision32 H ∨ Collision128 H := by
  obtain ⟨ty', p'⟩ := r
  obtain ⟨h', hd, _⟩ := resultOf_ok.mp hd
  obtain ⟨hd, _⟩ := checkType_ok.mp hd
  have hd0 := hd
  unfold readBlockCore at hd0
  split at hd0
  · cases hd0
  rename_i h0 r0 e0
  obtain ⟨rest, rfl, hv', h4, hdl, hck⟩ := readBlockCore_ok hd
  have e0' := e0
  rw [List.append_assoc, decodeHeaderCore_encode _ hv' h4] at e0'
  injection e0' with e0'; injection e0' with e1 e2; subst e1 e2
  rw [List.append_assoc] at e0
  rcases header_corruption_cases hH (blockHeader_valid hH hty hp) (tail := p) e0 with c | c | c
  · rw [List.append_assoc]; exact .inl c
  · exact .inr (.inl c)
  · right; right
    subst c
    have hpl : p'.length = p.length := hdl.symm
    rw [encodeBlock_eq] at hlen hne
    simp only [List.length_append] at hlen
    have hr : rest = [] := List.eq_nil_of_length_eq_zero (by omega)
    subst hr
    refine ⟨p', p, ?_, hck.symm⟩
    intro e; subst e; exact hne (by simp)



/-- corruption that leaves the hashed header prefix (bytes 0..29) or the header hash field (bytes 29..33) intact -/
theorem block_region_collision {H : Bytes → Bytes} (hH : ∀ x, (H x).length = 16) {ty : UInt8} {p : Bytes}
    (hty : ty ≤ 3) (hp : p.length < 2 ^ 32) {exp : Option UInt8} {bytes' : Bytes} {r : UInt8 × Bytes}
    (hlen : bytes'.length = (encodeBlock H ty p).length)
    (hne : bytes' ≠ encodeBlock H ty p) (hd : decodeBlock H exp bytes' = .ok r)
    (hreg : hdrPrefixOf bytes' = hdrPrefixOf (encodeBlock H ty p) ∨
      hdrHashFieldOf bytes' = hdrHashFieldOf (encodeBlock H ty p)) :
    Collision32 H ∨ Collision128 H := by
  rcases block_corruption_cases hH hty hp hlen hne hd with ⟨c1, c2⟩ | c
  · rcases hreg with e | e
    · exact absurd e c1
    · exact absurd e c2
  · exact c

theorem blockExact_region_collision {H : Bytes → Bytes} (hH : ∀ x, (H x).length = 16) {ty : UInt8} {p : Bytes}
    (hty : ty ≤ 3) (hp : p.length < 2 ^ 32) {exp : Option UInt8} {buf' : Bytes} {r : UInt8 × Bytes}
    (hne : buf' ≠ encodeBlock H ty p) (hd : decodeBlockExact H exp buf' = .ok r)
    (hreg : hdrPrefixOf buf' = hdrPrefixOf (encodeBlock H ty p) ∨
      hdrHashFieldOf buf' = hdrHashFieldOf (encodeBlock H ty p)) :
    Collision32 H ∨ Collision128 H := by
  rcases blockExact_corruption_cases hH hty hp hne hd with ⟨c1, c2⟩ | c
  · rcases hreg with e | e
    · exact absurd e c1
    · exact absurd e c2
  · exact c

theorem set_region (bs : Bytes) (i : Nat) (b : UInt8) :
    hdrPrefixOf (bs.set i b) = hdrPrefixOf bs ∨ hdrHashFieldOf (bs.set i b) = hdrHashFieldOf bs := by
  by_cases hi : i < 29
  · right
    unfold hdrHashFieldOf
    rw [List.drop_set, if_pos hi]
  · left
    unfold hdrPrefixOf prefixLen
    rw [List.take_set, List.set_eq_of_length_le]
    simp only [List.length_take]; omega

theorem set_ne {bs : Bytes} {i : Nat} {b : UInt8} (hi : i < bs.length) (hb : b ≠ bs[i]) : bs.set i b ≠ bs := by
  intro e
  have : (bs.set i b)[i]'(by simpa using hi) = b := by simp
  apply hb
  rw [← this]
  congr

/-- C10 for one block read through `from_reader`: altering ANY single byte of the written frame makes the
decode fail, unless a hash collision is exhibited. -/
theorem block_single_byte {H : Bytes → Bytes} (hH : ∀ x, (H x).length = 16) {ty : UInt8} {p : Bytes}
    (hty : ty ≤ 3) (hp : p.length < 2 ^ 32) {exp : Option UInt8} {i : Nat} {b : UInt8} {r : UInt8 × Bytes}
    (hi : i < (encodeBlock H ty p).length) (hb : b ≠ (encodeBlock H ty p)[i])
    (hd : decodeBlock H exp ((encodeBlock H ty p).set i b) = .ok r) :
    Collision32 H ∨ Collision128 H :=
  block_region_collision hH hty hp (by simp) (set_ne hi hb) hd (set_region _ i b)

/-- the same through `from_file` -/
theorem blockExact_single_byte {H : Bytes → Bytes} (hH : ∀ x, (H x).length = 16) {ty : UInt8} {p : Bytes}
    (hty : ty ≤ 3) (hp : p.length < 2 ^ 32) {exp : Option UInt8} {i : Nat} {b : UInt8} {r : UInt8 × Bytes}
    (hi : i < (encodeBlock H ty p).length) (hb : b ≠ (encodeBlock H ty p)[i])
    (hd : decodeBlockExact H exp ((encodeBlock H ty p).set i b) = .ok r) :
    Collision32 H ∨ Collision128 H :=
  blockExact_region_collision hH hty hp (set_ne hi hb) hd (set_region _ i b)

/-! ## truncation -/

theorem decodeHeaderCore_truncated {h32 : Bytes → Bytes} {h : Header} (hv : h.Valid)
    (h4 : (h32 (headerPrefix h)).length = 4) {q tail : Bytes}
    (hq : q <+: encodeHeaderCore h32 h ++ tail) (hl : q.length < 33) :
    decodeHeaderCore h32 q = .error .truncated := by
  obtain ⟨hty, hck, hdl, hul⟩ := hv
  have e : encodeHeaderCore h32 h ++ tail =
      blockMagic ++ ([h.blockType] ++ (h.checksum ++ (u32le h.dataLength ++ (u32le h.uncompressedLength ++
        (h32 (headerPrefix h) ++ tail))))) := by
    simp [encodeHeaderCore, headerPrefix]
  rw [e] at hq
  unfold decodeHeaderCore
  rcases prefix_cases hq with s | ⟨q1, e1, hq1⟩
  · rw [readN_short (show q.length < 4 from s)]
  subst e1; clear hq
  rw [readN_append _ (by rfl)]
  simp only [ne_eq, not_true_eq_false, ↓reduceIte]
  rcases prefix_cases hq1 with s | ⟨q2, e2, hq2⟩
  · have : q1 = [] := List.eq_nil_of_length_eq_zero (by simpa using s)
    subst this; rfl
  subst e2; clear hq1
  simp only [List.singleton_append, readByte]
  rw [if_neg (UInt8.not_lt.mpr hty)]
  rcases prefix_cases hq2 with s | ⟨q3, e3, hq3⟩
  · rw [readN_short (by omega)]
  subst e3; clear hq2
  rw [readN_append _ hck]
  simp only
  rcases prefix_cases hq3 with s | ⟨q4, e4, hq4⟩
  · rw [readN_short (by simpa using s)]
  subst e4; clear hq3
  rw [readN_append _ (u32le_length _)]
  simp only
  rcases prefix_cases hq4 with s | ⟨q5, e5, hq5⟩
  · rw [readN_short (by simpa using s)]
  subst e5; clear hq4
  rw [readN_append _ (u32le_length _)]
  simp only
  rcases prefix_cases hq5 with s | ⟨q6, e6, hq6⟩
  · rw [readN_short (by omega)]
  · subst e6
    simp [blockMagic, hck, h4] at hl
    omega

theorem blockHdr_length {H : Bytes → Bytes} (hH : ∀ x, (H x).length = 16) (ty : UInt8) (p : Bytes) :
    (encodeHeaderCore (fun x => first4 (H x)) (blockHeader H ty p)).length = 33 :=
  encodeHeaderCore_length (h32 := fun x => first4 (H x)) (h := blockHeader H ty p) (hH p) (first4_length hH _)

/-- `from_reader`: every strict prefix of a written frame is reported as truncated (UnexpectedEof). -/
theorem block_truncation {H : Bytes → Bytes} (hH : ∀ x, (H x).length = 16) {ty : UInt8} {p : Bytes}
    (hty : ty ≤ 3) (hp : p.length < 2 ^ 32) {exp : Option UInt8} {q : Bytes}
    (hq : q <+: encodeBlock H ty p) (hl : q.length < (encodeBlock H ty p).length) :
    decodeBlock H exp q = .error .truncated := by
  have hv := blockHeader_valid hH hty hp
  have h4 := first4_length hH (headerPrefix (blockHeader H ty p))
  rw [encodeBlock_length hH] at hl
  rw [encodeBlock_eq] at hq
  unfold decodeBlock decodeBlockFull decodeBlockCore readBlockCore
  rcases prefix_cases hq with s | ⟨q1, rfl, hq1⟩
  · rw [blockHdr_length hH ty p] at s
    rw [decodeHeaderCore_truncated hv h4 hq s]
    rfl
  · rw [decodeHeaderCore_encode _ hv h4]
    simp only [List.length_append, blockHdr_length hH ty p] at hl
    simp only
    rw [readN_short (show q1.length < (blockHeader H ty p).dataLength by simp [blockHeader]; omega)]
    rfl

/-- `load_block`: a file cut anywhere inside the block is reported as truncated by `file::read_exact`. -/
theorem blockFile_truncation {H : Bytes → Bytes} {exp : Option UInt8} {fileTail : Bytes} {size : Nat}
    (hl : fileTail.length < size) : decodeBlockFile H exp fileTail size = .error .truncated := by
  unfold decodeBlockFile
  rw [readN_short hl]

/-- `from_file` given a buffer that is a strict prefix of the frame (a too-small `handle.size()`): an error, or
a 128-bit collision between the payload and its prefix. -/
theorem blockExact_truncation {H : Bytes → Bytes} (hH : ∀ x, (H x).length = 16) {ty : UInt8} {p : Bytes}
    (hty : ty ≤ 3) (hp : p.length < 2 ^ 32) {exp : Option UInt8} {q : Bytes}
    (hq : q <+: encodeBlock H ty p) (hl : q.length < (encodeBlock H ty p).length) :
    decodeBlockExact H exp q = .error .truncated ∨ decodeBlockExact H exp q = .error .payloadChecksum ∨
      Collision128 H := by
  have hv := blockHeader_valid hH hty hp
  have h4 := first4_length hH (headerPrefix (blockHeader H ty p))
  rw [encodeBlock_length hH] at hl
  rw [encodeBlock_eq] at hq
  unfold decodeBlockExact decodeBlockExactFull decodeBlockExactCore readBlockExactCore
  rcases prefix_cases hq with s | ⟨q1, rfl, hq1⟩
  · rw [blockHdr_length hH ty p] at s
    rw [decodeHeaderCore_truncated hv h4 hq s]
    exact .inl rfl
  · rw [decodeHeaderCore_encode _ hv h4]
    simp only [List.length_append, blockHdr_length hH ty p] at hl
    simp only
    rw [List.drop_left' (blockHdr_length hH ty p)]
    by_cases e : H q1 = H p
    · right; right
      refine ⟨q1, p, ?_, e⟩
      intro e'; subst e'; omega
    · right; left
      simp [blockHeader, e, checkType, resultOf]

/-- `from_file` given a buffer that extends the frame (a too-large `handle.size()`): checksum error, or a
128-bit collision. -/
theorem blockExact_extension {H : Bytes → Bytes} (hH : ∀ x, (H x).length = 16) {ty : UInt8} {p : Bytes}
    (hty : ty ≤ 3) (hp : p.length < 2 ^ 32) {exp : Option UInt8} {extra : Bytes} (hx : extra ≠ []) :
    decodeBlockExact H exp (encodeBlock H ty p ++ extra) = .error .payloadChecksum ∨ Collision128 H := by
  have hv := blockHeader_valid hH hty hp
  have h4 := first4_length hH (headerPrefix (blockHeader H ty p))
  rw [encodeBlock_eq, List.append_assoc]
  unfold decodeBlockExact decodeBlockExactFull decodeBlockExactCore readBlockExactCore
  rw [decodeHeaderCore_encode _ hv h4]
  simp only
  rw [List.drop_left' (blockHdr_length hH ty p)]
  by_cases e : H (p ++ extra) = H p
  · right
    refine ⟨p ++ extra, p, ?_, e⟩
    intro e'
    have := congrArg List.length e'
    simp at this
    exact hx this
  · left
    simp [blockHeader, e, checkType, resultOf]



/-! ## hash values supplied as data -/

/-- `decodeHeaderCore` evaluates the header hash at most once, on the first 29 bytes of its input. -/
theorem decodeHeaderCore_congr {h32 h32' : Bytes → Bytes} {bs : Bytes}
    (e : h32 (hdrPrefixOf bs) = h32' (hdrPrefixOf bs)) :
    decodeHeaderCore h32 bs = decodeHeaderCore h32' bs := by
  unfold decodeHeaderCore
  cases e1 : readN 4 bs with
  | error _ => rfl
  | ok x1 =>
    obtain ⟨magic, r1⟩ := x1
    simp only
    split
    · rfl
    cases e2 : readByte r1 with
    | error _ => rfl
    | ok x2 =>
      obtain ⟨ty, r2⟩ := x2
      simp only
      split
      · rfl
      cases e3 : readN 16 r2 with
      | error _ => rfl
      | ok x3 =>
        obtain ⟨ck, r3⟩ := x3
        simp only
        cases e4 : readN 4 r3 with
        | error _ => rfl
        | ok x4 =>
          obtain ⟨dl, r4⟩ := x4
          simp only
          cases e5 : readN 4 r4 with
          | error _ => rfl
          | ok x5 =>
            obtain ⟨ul, r5⟩ := x5
            simp only
            obtain ⟨rfl, l1⟩ := readN_ok.mp e1
            rw [readByte_ok] at e2; subst e2
            obtain ⟨rfl, l3⟩ := readN_ok.mp e3
            obtain ⟨rfl, l4⟩ := readN_ok.mp e4
            obtain ⟨rfl, l5⟩ := readN_ok.mp e5
            have : hdrPrefixOf (magic ++ ty :: (ck ++ (dl ++ (ul ++ r5)))) = magic ++ [ty] ++ ck ++ dl ++ ul := by
              have : magic ++ ty :: (ck ++ (dl ++ (ul ++ r5))) = (magic ++ [ty] ++ ck ++ dl ++ ul) ++ r5 := by simp
              rw [this]
              exact List.take_left' (by simp [l1, l3, l4, l5])
            rw [this] at e
            rw [e]

theorem decodeHeaderCore_dataLength {h32 : Bytes → Bytes} {bs rest : Bytes} {h : Header}
    (hd : decodeHeaderCore h32 bs = .ok (h, rest)) :
    h.dataLength = leNat ((bs.drop 21).take 4) ∧ rest = bs.drop headerLen := by
  obtain ⟨rfl, hv, h4⟩ := decodeHeaderCore_ok hd
  constructor
  · have : encodeHeaderCore h32 h ++ rest =
        (blockMagic ++ [h.blockType] ++ h.checksum) ++ (u32le h.dataLength ++
          (u32le h.uncompressedLength ++ (h32 (headerPrefix h) ++ rest))) := by
      simp [encodeHeaderCore, headerPrefix]
    rw [this, List.drop_left' (by simp [blockMagic, hv.ck]), List.take_left' (u32le_length _),
      u32le_roundtrip hv.dl]
  · exact (List.drop_left' (encodeHeaderCore_length hv.ck h4)).symm

theorem readBlockCore_congr {h32 h32' h128 h128' : Bytes → Bytes} {bs : Bytes}
    (e1 : h32 (hdrPrefixOf bs) = h32' (hdrPrefixOf bs)) (e2 : h128 (payloadOf bs) = h128' (payloadOf bs)) :
    readBlockCore h32 h128 bs = readBlockCore h32' h128' bs := by
  unfold readBlockCore
  rw [← decodeHeaderCore_congr e1]
  cases e : decodeHeaderCore h32 bs with
  | error _ => rfl
  | ok x =>
    obtain ⟨h, r⟩ := x
    simp only
    obtain ⟨hdl, rfl⟩ := decodeHeaderCore_dataLength e
    cases e' : readN h.dataLength (bs.drop headerLen) with
    | error _ => rfl
    | ok y =>
      obtain ⟨raw, r'⟩ := y
      simp only
      have : raw = payloadOf bs := by
        unfold payloadOf
        rw [← hdl]
        obtain ⟨e'', l⟩ := readN_ok.mp e'
        rw [e'']; exact (List.take_left' l).symm
      rw [this, e2]

theorem readBlockExactCore_congr {h32 h32' h128 h128' : Bytes → Bytes} {buf : Bytes}
    (e1 : h32 (hdrPrefixOf buf) = h32' (hdrPrefixOf buf))
    (e2 : h128 (payloadOfExact buf) = h128' (payloadOfExact buf)) :
    readBlockExactCore h32 h128 buf = readBlockExactCore h32' h128' buf := by
  unfold readBlockExactCore
  rw [← decodeHeaderCore_congr e1]
  cases e : decodeHeaderCore h32 buf with
  | error _ => rfl
  | ok x =>
    obtain ⟨h, r⟩ := x
    simp only
    unfold payloadOfExact at e2
    rw [e2]

/-- The decoder driven by hash VALUES agrees with the decoder driven by the hash FUNCTION when the values are
the function's values at the two byte strings the real code hashes. -/
theorem decodeBlockWith_eq (H : Bytes → Bytes) (exp : Option UInt8) (bytes : Bytes) :
    decodeBlockWith (first4 (H (hdrPrefixOf bytes))) (H (payloadOf bytes)) exp bytes = decodeBlock H exp bytes := by
  unfold decodeBlockWith decodeBlock decodeBlockFull decodeBlockCore
  rw [readBlockCore_congr (h32 := fun _ => first4 (H (hdrPrefixOf bytes))) (h32' := fun x => first4 (H x))
    (h128 := fun _ => H (payloadOf bytes)) (h128' := H) rfl rfl]

theorem decodeBlockExactWith_eq (H : Bytes → Bytes) (exp : Option UInt8) (buf : Bytes) :
    decodeBlockExactWith (first4 (H (hdrPrefixOf buf))) (H (payloadOfExact buf)) exp buf =
      decodeBlockExact H exp buf := by
  unfold decodeBlockExactWith decodeBlockExact decodeBlockExactFull decodeBlockExactCore
  rw [readBlockExactCore_congr (h32 := fun _ => first4 (H (hdrPrefixOf buf))) (h32' := fun x => first4 (H x))
    (h128 := fun _ => H (payloadOfExact buf)) (h128' := H) rfl rfl]



/-! ## blocks: frame soundness in final form -/

/-- Whatever `from_reader` (+ type check) accepts is a frame the writer's encoder produces for the returned type
and payload — up to the `uncompressed_length` field, which a release build never checks — followed by bytes it
did not read; and both stored checksums are the hashes of what they cover. -/
theorem block_frame_sound {H : Bytes → Bytes} {exp : Option UInt8} {bytes' p' : Bytes} {ty' : UInt8}
    (hd : decodeBlock H exp bytes' = .ok (ty', p')) :
    ∃ ul rest, bytes' = encodeHeader H { blockType := ty', checksum := H p', dataLength := p'.length,
                                          uncompressedLength := ul } ++ p' ++ rest ∧
      ty' ≤ 3 ∧ (∀ t, exp = some t → ty' = t) ∧ p'.length < 2 ^ 32 ∧ ul < 2 ^ 32 ∧ (H p').length = 16 ∧
      hdrHashFieldOf bytes' = first4 (H (hdrPrefixOf bytes')) ∧ (bytes'.drop 5).take 16 = H p' := by
  obtain ⟨h, hd1, hty⟩ := resultOf_ok.mp hd
  clear hd
  subst hty
  obtain ⟨hd, ht⟩ := checkType_ok.mp hd1
  obtain ⟨rest, rfl, hv, h4, hdl, hck⟩ := readBlockCore_ok hd
  obtain ⟨ty, ck, dl, ul⟩ := h
  simp only at hdl hck ht
  subst hdl hck
  refine ⟨ul, rest, rfl, hv.ty, ht, hv.dl, hv.ul, hv.ck, ?_, ?_⟩
  · have := frame_parts (tail := p' ++ rest) (headerPrefix_length hv.ck) h4
    simp only [encodeHeaderCore, List.append_assoc] at this ⊢
    rw [this.1, this.2.1]
  · have : encodeHeaderCore (fun x => first4 (H x)) ⟨ty, H p', p'.length, ul⟩ ++ p' ++ rest =
        (blockMagic ++ [ty]) ++ (H p' ++ (u32le p'.length ++ (u32le ul ++ (first4 (H (headerPrefix
          ⟨ty, H p', p'.length, ul⟩)) ++ (p' ++ rest))))) := by
      simp [encodeHeaderCore, headerPrefix]
    rw [this, List.drop_left' (by rfl), List.take_left' hv.ck]

/-- Debug builds additionally check `uncompressed_length`, so what they accept is exactly `encodeBlock` ++ rest. -/
theorem blockDbg_frame_sound {H : Bytes → Bytes} {exp : Option UInt8} {bytes' p' : Bytes} {ty' : UInt8}
    (hd : decodeBlockDbg H exp bytes' = .ok (ty', p')) :
    ∃ rest, bytes' = encodeBlock H ty' p' ++ rest ∧ ty' ≤ 3 ∧ (∀ t, exp = some t → ty' = t) ∧
      p'.length < 2 ^ 32 := by
  obtain ⟨h, hd1, hty⟩ := resultOf_ok.mp hd
  clear hd
  subst hty
  obtain ⟨hd, ht⟩ := checkType_ok.mp hd1
  unfold debugAssert at hd
  split at hd
  · cases hd
  rename_i h0 p0 e0
  split at hd
  · cases hd
  rename_i hul
  injection hd with hd; injection hd with hd1 hd2; subst hd1 hd2
  obtain ⟨rest, rfl, hv, h4, hdl, hck⟩ := readBlockCore_ok e0
  obtain ⟨ty, ck, dl, ul⟩ := h0
  simp only [ne_eq, Decidable.not_not] at hdl hck ht hul
  subst hdl hck
  have := hv.dl
  simp only at this
  rw [Nat.mod_eq_of_lt this] at hul
  subst hul
  exact ⟨rest, rfl, hv.ty, ht, this⟩

/-- What `from_file` (+ type check) accepts: header for the returned type and payload, with ARBITRARY
`data_length` and `uncompressed_length` fields (neither is consulted by a release build), then the payload. -/
theorem blockExact_frame_sound {H : Bytes → Bytes} {exp : Option UInt8} {buf' p' : Bytes} {ty' : UInt8}
    (hd : decodeBlockExact H exp buf' = .ok (ty', p')) :
    ∃ dl ul, buf' = encodeHeader H { blockType := ty', checksum := H p', dataLength := dl,
                                      uncompressedLength := ul } ++ p' ∧
      ty' ≤ 3 ∧ (∀ t, exp = some t → ty' = t) ∧ dl < 2 ^ 32 ∧ ul < 2 ^ 32 ∧ (H p').length = 16 := by
  obtain ⟨h, hd1, hty⟩ := resultOf_ok.mp hd
  clear hd
  subst hty
  obtain ⟨hd, ht⟩ := checkType_ok.mp hd1
  obtain ⟨rfl, hv, h4, hck⟩ := readBlockExactCore_ok hd
  obtain ⟨ty, ck, dl, ul⟩ := h
  simp only at hck ht
  subst hck
  exact ⟨dl, ul, rfl, hv.ty, ht, hv.dl, hv.ul, hv.ck⟩



/-! ## blob frames -/

/-- the 38 header bytes of a blob frame -/
def blobHeaderBytes (f : BlobFrame) : Bytes :=
  blobMagic ++ f.checksum ++ u64le f.seqno ++ u16le f.keyLen ++ u32le f.realLen ++ u32le f.onDiskLen

theorem encodeBlobRaw_eq (f : BlobFrame) : encodeBlobRaw f = blobHeaderBytes f ++ (f.key ++ f.value) := by
  simp [encodeBlobRaw, blobHeaderBytes]

theorem blobHeaderBytes_length {f : BlobFrame} (hc : f.checksum.length = 16) : (blobHeaderBytes f).length = 38 := by
  simp [blobHeaderBytes, blobMagic, hc]

/-- What a successful blob read implies about the bytes: `body` is the `keyLen + onDiskSize` bytes after the
38-byte header. -/
theorem decodeBlobCore_ok {h128 : Bytes → Bytes} {kl sz : Nat} {tail : Bytes} {f : BlobFrame}
    (hd : decodeBlobCore h128 kl sz tail = .ok f) :
    ∃ body after, tail = blobHeaderBytes f ++ body ++ after ∧ body.length = kl + sz ∧
      f.checksum.length = 16 ∧ f.seqno < 2 ^ 64 ∧ f.keyLen < 2 ^ 16 ∧ f.realLen < 2 ^ 32 ∧ f.onDiskLen < 2 ^ 32 ∧
      f.keyLen ≤ body.length ∧ f.key = body.take f.keyLen ∧ f.value = body.drop kl ∧
      f.checksum = h128 (f.key ++ f.value) := by
  unfold decodeBlobCore at hd
  simp only at hd
  split at hd
  · cases hd
  rename_i buf after e0
  split at hd
  · cases hd
  rename_i magic r1 e1
  split at hd
  · cases hd
  rename_i hmagic
  split at hd
  · cases hd
  rename_i ck r2 e2
  split at hd
  · cases hd
  rename_i sq r3 e3
  split at hd
  · cases hd
  rename_i klb r4 e4
  split at hd
  · cases hd
  rename_i rl r5 e5
  split at hd
  · cases hd
  rename_i dl r6 e6
  split at hd
  · cases hd
  rename_i key r7 e7
  split at hd
  · cases hd
  rename_i hck
  injection hd with hd
  subst hd
  obtain ⟨rfl, l0⟩ := readN_ok.mp e0
  obtain ⟨rfl, l1⟩ := readN_ok.mp e1
  obtain ⟨rfl, l2⟩ := readN_ok.mp e2
  obtain ⟨rfl, l3⟩ := readN_ok.mp e3
  obtain ⟨rfl, l4⟩ := readN_ok.mp e4
  obtain ⟨rfl, l5⟩ := readN_ok.mp e5
  obtain ⟨e6', l6⟩ := readN_ok.mp e6
  obtain ⟨e7', l7⟩ := readN_ok.mp e7
  subst e6'
  simp only [ne_eq, Decidable.not_not] at hmagic hck
  subst hmagic
  have hdrop : ∀ n, (blobMagic ++ (ck ++ (sq ++ (klb ++ (rl ++ (dl ++ r6)))))).drop (38 + n) = r6.drop n := by
    intro n
    have : blobMagic ++ (ck ++ (sq ++ (klb ++ (rl ++ (dl ++ r6))))) =
        (blobMagic ++ ck ++ sq ++ klb ++ rl ++ dl) ++ r6 := by simp
    rw [this, ← List.drop_drop, List.drop_left' (by simp [blobMagic, l2, l3, l4, l5, l6])]
  have hm : blobMagic.length = 4 := rfl
  simp only [List.length_append, l2, l3, l4, l5, l6, hm, blobHeaderLen] at l0
  refine ⟨r6, after, ?_, by omega, l2, leNat_lt_of_length l3, leNat_lt_of_length l4, leNat_lt_of_length l5,
    leNat_lt_of_length l6, ?_, ?_, ?_, ?_⟩
  · simp [blobHeaderBytes, u64le_leNat l3, u16le_leNat l4, u32le_leNat l5, u32le_leNat l6]
  · simp only; rw [e7'] at *; simp at l7 ⊢; omega
  · simp only; rw [e7']; exact (List.take_left' l7).symm
  · simp only; exact hdrop kl
  · simp only; rw [hdrop kl] at hck ⊢; exact hck.symm



/-- A frame whose key length field and checksum are the writer's; seqno and the two value length fields
are ARBITRARY (in range): the reader accepts it and returns the value. -/
theorem decodeBlobCore_encodeRaw {H : Bytes → Bytes} (hH : ∀ x, (H x).length = 16) {f : BlobFrame}
    (hck : f.checksum = H (f.key ++ f.value)) (hkl : f.keyLen = f.key.length) (hk : f.key.length < 2 ^ 16)
    (hs : f.seqno < 2 ^ 64) (hr : f.realLen < 2 ^ 32) (ho : f.onDiskLen < 2 ^ 32) (after : Bytes) :
    decodeBlobCore H f.key.length f.value.length (encodeBlobRaw f ++ after) = .ok f := by
  have hc16 : f.checksum.length = 16 := by rw [hck]; exact hH _
  have e : encodeBlobRaw f ++ after = (blobHeaderBytes f ++ (f.key ++ f.value)) ++ after := by
    rw [encodeBlobRaw_eq]
  have e2 : blobHeaderBytes f ++ (f.key ++ f.value) =
      blobMagic ++ (f.checksum ++ (u64le f.seqno ++ (u16le f.keyLen ++ (u32le f.realLen ++ (u32le f.onDiskLen ++
        (f.key ++ f.value)))))) := by
    simp [blobHeaderBytes]
  unfold decodeBlobCore
  simp only
  rw [e, readN_append after (by simp [blobHeaderBytes_length hc16, blobHeaderLen]; omega)]
  simp only
  have hdrop : (blobHeaderBytes f ++ (f.key ++ f.value)).drop (blobHeaderLen + f.key.length) = f.value := by
    rw [← List.append_assoc]
    exact List.drop_left' (by simp [blobHeaderBytes_length hc16, blobHeaderLen])
  rw [hdrop]
  rw [e2, readN_append _ (by rfl)]
  simp only [ne_eq, not_true_eq_false, ↓reduceIte]
  rw [readN_append _ hc16]
  simp only
  rw [readN_append _ (u64le_length _)]
  simp only
  rw [readN_append _ (u16le_length _)]
  simp only
  rw [readN_append _ (u32le_length _)]
  simp only
  rw [readN_append _ (u32le_length _)]
  simp only
  have hk' : f.keyLen < 2 ^ 16 := by rw [hkl]; exact hk
  rw [u16le_roundtrip hk', hkl, readN_append _ rfl]
  simp only
  rw [← hck]
  simp only [not_true_eq_false, ↓reduceIte]
  rw [u64le_roundtrip hs, u32le_roundtrip hr, u32le_roundtrip ho, ← hkl]



theorem blobValueOf_ok {r : Except Err BlobFrame} {v : Bytes} :
    blobValueOf r = .ok v ↔ ∃ f, r = .ok f ∧ f.value = v := by
  unfold blobValueOf
  split
  · simp
  · rename_i f0
    constructor
    · intro e; injection e with e; exact ⟨f0, rfl, e⟩
    · rintro ⟨f, e, rfl⟩; injection e with e; subst e; rfl

/-- the frame `Writer::write` produces -/
def blobFrameOf (H : Bytes → Bytes) (key : Bytes) (seqno : Nat) (value : Bytes) : BlobFrame :=
  { checksum := H (key ++ value), seqno := seqno, keyLen := key.length, realLen := value.length,
    onDiskLen := value.length, key := key, value := value }

theorem blob_roundtrip {H : Bytes → Bytes} (hH : ∀ x, (H x).length = 16) {key value : Bytes} {seqno : Nat}
    (hk : key.length < 2 ^ 16) (hv : value.length < 2 ^ 32) (hs : seqno < 2 ^ 64) (after : Bytes) :
    decodeBlob H key.length value.length (encodeBlob H key seqno value ++ after) = .ok value := by
  unfold decodeBlob decodeBlobFull
  have := decodeBlobCore_encodeRaw hH (f := blobFrameOf H key seqno value) rfl rfl hk hs hv hv after
  simp only [blobFrameOf] at this
  unfold encodeBlob
  rw [this]; rfl

theorem blobDbg_roundtrip {H : Bytes → Bytes} (hH : ∀ x, (H x).length = 16) {key value : Bytes} {seqno : Nat}
    (hk : key.length < 2 ^ 16) (hv : value.length < 2 ^ 32) (hs : seqno < 2 ^ 64) (after : Bytes) :
    decodeBlobDbg H key.length value.length (encodeBlob H key seqno value ++ after) = .ok value := by
  unfold decodeBlobDbg decodeBlobFull
  have := decodeBlobCore_encodeRaw hH (f := blobFrameOf H key seqno value) rfl rfl hk hs hv hv after
  simp only [blobFrameOf] at this
  unfold encodeBlob
  rw [this]
  simp [blobDebugAssert, blobValueOf, Nat.mod_eq_of_lt hv]

/-- The seqno and the two value-length fields of a blob frame are covered by no check of a release build:
a frame with the writer's checksum and key length but ARBITRARY (in-range) seqno / real_val_len /
on_disk_val_len fields is accepted and yields the value. -/
theorem blob_uncovered_fields {H : Bytes → Bytes} (hH : ∀ x, (H x).length = 16) {f : BlobFrame}
    (hck : f.checksum = H (f.key ++ f.value)) (hkl : f.keyLen = f.key.length) (hk : f.key.length < 2 ^ 16)
    (hs : f.seqno < 2 ^ 64) (hr : f.realLen < 2 ^ 32) (ho : f.onDiskLen < 2 ^ 32) (after : Bytes) :
    decodeBlob H f.key.length f.value.length (encodeBlobRaw f ++ after) = .ok f.value := by
  unfold decodeBlob decodeBlobFull
  rw [decodeBlobCore_encodeRaw hH hck hkl hk hs hr ho after]; rfl

/-- What `Reader::get` accepts, in final form. -/
theorem blob_frame_sound {H : Bytes → Bytes} {kl sz : Nat} {tail' v' : Bytes}
    (hd : decodeBlob H kl sz tail' = .ok v') :
    ∃ seqno klen real disk body after,
      tail' = blobMagic ++ H (body.take klen ++ v') ++ u64le seqno ++ u16le klen ++ u32le real ++ u32le disk
                ++ body ++ after ∧
      body.length = kl + sz ∧ klen ≤ body.length ∧ v' = body.drop kl ∧ v'.length = sz ∧
      v' = (tail'.take (sz + (38 + kl))).drop (38 + kl) ∧
      blobChecksumFieldOf tail' = H (body.take klen ++ v') ∧ (H (body.take klen ++ v')).length = 16 := by
  obtain ⟨f, hd1, hfv⟩ := blobValueOf_ok.mp hd
  clear hd
  subst hfv
  obtain ⟨body, after, rfl, hbl, hc, _, _, _, _, hkl, hkey, hval, hck⟩ := decodeBlobCore_ok hd1
  refine ⟨f.seqno, f.keyLen, f.realLen, f.onDiskLen, body, after, ?_, hbl, hkl, hval, ?_, ?_, ?_, ?_⟩
  · rw [← hkey, ← hck]; rfl
  · rw [hval, List.length_drop]; omega
  · have h1 : (blobHeaderBytes f ++ body ++ after).take (sz + (38 + kl)) = blobHeaderBytes f ++ body :=
      List.take_left' (by simp [blobHeaderBytes_length hc]; omega)
    rw [h1, ← List.drop_drop, List.drop_left' (blobHeaderBytes_length hc), hval]
  · rw [← hkey, ← hck]
    have : blobHeaderBytes f ++ body ++ after = blobMagic ++ (f.checksum ++ (u64le f.seqno ++ (u16le f.keyLen ++
        (u32le f.realLen ++ (u32le f.onDiskLen ++ (body ++ after)))))) := by
      simp [blobHeaderBytes]
    rw [this]
    unfold blobChecksumFieldOf
    rw [List.drop_left' (by rfl), List.take_left' hc]
  · rw [← hkey, ← hck]; exact hc



theorem blobChecksumFieldOf_encode {H : Bytes → Bytes} (hH : ∀ x, (H x).length = 16) (key value : Bytes)
    (seqno : Nat) (after : Bytes) :
    blobChecksumFieldOf (encodeBlob H key seqno value ++ after) = H (key ++ value) := by
  have : encodeBlob H key seqno value ++ after = blobMagic ++ (H (key ++ value) ++ (u64le seqno ++
      (u16le key.length ++ (u32le value.length ++ (u32le value.length ++ (key ++ value ++ after)))))) := by
    simp [encodeBlob, encodeBlobRaw]
  rw [this]
  unfold blobChecksumFieldOf
  rw [List.drop_left' (by rfl), List.take_left' (hH _)]

theorem encodeBlob_length {H : Bytes → Bytes} (hH : ∀ x, (H x).length = 16) (key value : Bytes) (seqno : Nat) :
    (encodeBlob H key seqno value).length = value.length + (38 + key.length) := by
  simp [encodeBlob, encodeBlobRaw, blobMagic, hH]; omega

theorem blobValueRegion_encode {H : Bytes → Bytes} (hH : ∀ x, (H x).length = 16) (key value : Bytes)
    (seqno : Nat) (after : Bytes) :
    ((encodeBlob H key seqno value ++ after).take (value.length + (38 + key.length))).drop (38 + key.length)
      = value := by
  rw [List.take_left' (encodeBlob_length hH key value seqno)]
  have : encodeBlob H key seqno value = (blobMagic ++ H (key ++ value) ++ u64le seqno ++
      u16le key.length ++ u32le value.length ++ u32le value.length ++ key) ++ value := by
    simp [encodeBlob, encodeBlobRaw]
  rw [this]
  exact List.drop_left' (by simp [blobMagic, hH]; omega)

/-- A blob read that succeeds on bytes whose checksum field is the one written for `(key, value)` returns
`value`, or exhibits a 128-bit collision. (`onDiskSize` is the value's length, as recorded in the value handle.) -/
theorem blob_checksum_field_collision {H : Bytes → Bytes} {key value tail' v' : Bytes} {kl : Nat}
    (hd : decodeBlob H kl value.length tail' = .ok v')
    (hf : blobChecksumFieldOf tail' = H (key ++ value)) :
    v' = value ∨ Collision128 H := by
  obtain ⟨_, klen, _, _, body, _, _, _, _, _, hl, _, hcf, _⟩ := blob_frame_sound hd
  rw [hf] at hcf
  by_cases e : body.take klen ++ v' = key ++ value
  · exact .inl (List.append_inj' e hl).2
  · exact .inr ⟨_, _, Ne.symm e, hcf⟩

/-- Corruption analysis for one blob: if the read of possibly altered bytes succeeds, then the value is the
original one, or a collision is exhibited, or BOTH the checksum field and the value region were altered. -/
theorem blob_corruption_cases {H : Bytes → Bytes} (hH : ∀ x, (H x).length = 16) {key value after tail' v' : Bytes}
    {seqno : Nat}
    (hd : decodeBlob H key.length value.length tail' = .ok v') :
    let tail := encodeBlob H key seqno value ++ after
    v' = value ∨ Collision128 H ∨
      (blobChecksumFieldOf tail' ≠ blobChecksumFieldOf tail ∧
        (tail'.take (value.length + (38 + key.length))).drop (38 + key.length) ≠
          (tail.take (value.length + (38 + key.length))).drop (38 + key.length)) := by
  intro tail
  by_cases e1 : blobChecksumFieldOf tail' = blobChecksumFieldOf tail
  · rw [blobChecksumFieldOf_encode hH] at e1
    rcases blob_checksum_field_collision hd e1 with c | c
    · exact .inl c
    · exact .inr (.inl c)
  · by_cases e2 : (tail'.take (value.length + (38 + key.length))).drop (38 + key.length) =
        (tail.take (value.length + (38 + key.length))).drop (38 + key.length)
    · left
      obtain ⟨_, _, _, _, _, _, _, _, _, _, _, hv, _, _⟩ := blob_frame_sound hd
      rw [hv, e2, blobValueRegion_encode hH]
    · exact .inr (.inr ⟨e1, e2⟩)

/-- C10 for one blob: altering any single byte of the file from the blob's offset on either makes the read fail,
or it still returns the original value, or a collision is exhibited. -/
theorem blob_single_byte {H : Bytes → Bytes} (hH : ∀ x, (H x).length = 16) {key value after v' : Bytes}
    {seqno i : Nat} {b : UInt8}
    (hd : decodeBlob H key.length value.length ((encodeBlob H key seqno value ++ after).set i b) = .ok v') :
    v' = value ∨ Collision128 H := by
  rcases blob_corruption_cases hH (seqno := seqno) (after := after) hd with c | c | ⟨c1, c2⟩
  · exact .inl c
  · exact .inr c
  · exfalso
    by_cases hi : i < 38 + key.length
    · apply c2
      rw [List.take_set, List.drop_set, if_pos hi]
    · apply c1
      unfold blobChecksumFieldOf
      rw [List.drop_set, if_neg (by omega), List.take_set, List.set_eq_of_length_le]
      simp only [List.length_take]; omega

theorem blob_truncation {H : Bytes → Bytes} {kl sz : Nat} {tail : Bytes} (hl : tail.length < sz + (38 + kl)) :
    decodeBlob H kl sz tail = .error .truncated := by
  unfold decodeBlob decodeBlobFull decodeBlobCore
  simp only
  rw [readN_short hl]; rfl

/-- every strict prefix of a written blob frame is reported as truncated -/
theorem blob_prefix_truncated {H : Bytes → Bytes} (hH : ∀ x, (H x).length = 16) {key value q : Bytes} {seqno : Nat}
    (hl : q.length < (encodeBlob H key seqno value).length) :
    decodeBlob H key.length value.length q = .error .truncated :=
  blob_truncation (by rw [encodeBlob_length hH] at hl; exact hl)



/-- `decodeBlobCore` evaluates the hash at most once, on `blobHashInputOf`. -/
theorem decodeBlobCore_congr {h128 h128' : Bytes → Bytes} {kl sz : Nat} {tail : Bytes}
    (e : h128 (blobHashInputOf kl sz tail) = h128' (blobHashInputOf kl sz tail)) :
    decodeBlobCore h128 kl sz tail = decodeBlobCore h128' kl sz tail := by
  unfold decodeBlobCore
  simp only
  cases e0 : readN (sz + (blobHeaderLen + kl)) tail with
  | error _ => rfl
  | ok x0 =>
    obtain ⟨buf, after⟩ := x0
    simp only
    cases e1 : readN 4 buf with
    | error _ => rfl
    | ok x1 =>
      obtain ⟨magic, r1⟩ := x1
      simp only
      split
      · rfl
      cases e2 : readN 16 r1 with
      | error _ => rfl
      | ok x2 =>
        obtain ⟨ck, r2⟩ := x2
        simp only
        cases e3 : readN 8 r2 with
        | error _ => rfl
        | ok x3 =>
          obtain ⟨sq, r3⟩ := x3
          simp only
          cases e4 : readN 2 r3 with
          | error _ => rfl
          | ok x4 =>
            obtain ⟨klb, r4⟩ := x4
            simp only
            cases e5 : readN 4 r4 with
            | error _ => rfl
            | ok x5 =>
              obtain ⟨rl, r5⟩ := x5
              simp only
              cases e6 : readN 4 r5 with
              | error _ => rfl
              | ok x6 =>
                obtain ⟨dl, r6⟩ := x6
                simp only
                cases e7 : readN (leNat klb) r6 with
                | error _ => rfl
                | ok x7 =>
                  obtain ⟨key, r7⟩ := x7
                  simp only
                  have hin : blobHashInputOf kl sz tail = key ++ buf.drop (blobHeaderLen + kl) := by
                    unfold blobHashInputOf
                    simp only
                    obtain ⟨e0', l0⟩ := readN_ok.mp e0
                    have hb : tail.take (sz + (blobHeaderLen + kl)) = buf := by
                      rw [e0']; exact List.take_left' l0
                    rw [hb]
                    congr 1
                    obtain ⟨rfl, l1⟩ := readN_ok.mp e1
                    obtain ⟨rfl, l2⟩ := readN_ok.mp e2
                    obtain ⟨rfl, l3⟩ := readN_ok.mp e3
                    obtain ⟨rfl, l4⟩ := readN_ok.mp e4
                    obtain ⟨rfl, l5⟩ := readN_ok.mp e5
                    obtain ⟨rfl, l6⟩ := readN_ok.mp e6
                    obtain ⟨rfl, l7⟩ := readN_ok.mp e7
                    have a1 : magic ++ (ck ++ (sq ++ (klb ++ (rl ++ (dl ++ (key ++ r7)))))) =
                        (magic ++ ck ++ sq) ++ (klb ++ (rl ++ (dl ++ (key ++ r7)))) := by simp
                    have a2 : magic ++ (ck ++ (sq ++ (klb ++ (rl ++ (dl ++ (key ++ r7)))))) =
                        (magic ++ ck ++ sq ++ klb ++ rl ++ dl) ++ (key ++ r7) := by simp
                    rw [a1, List.drop_left' (by simp [l1, l2, l3]), List.take_left' l4, ← a1, a2,
                      List.drop_left' (by simp [l1, l2, l3, l4, l5, l6]), List.take_left' l7]
                  rw [hin] at e
                  rw [e]

theorem decodeBlobWith_eq (H : Bytes → Bytes) (kl sz : Nat) (tail : Bytes) :
    decodeBlobWith (H (blobHashInputOf kl sz tail)) kl sz tail = decodeBlob H kl sz tail := by
  unfold decodeBlobWith decodeBlob decodeBlobFull
  rw [decodeBlobCore_congr (h128 := fun _ => H (blobHashInputOf kl sz tail)) (h128' := H) rfl]

/-! ## `current` and the version file -/

theorem encodeCurrent_length {H : Bytes → Bytes} (hH : ∀ x, (H x).length = 16) (id : Nat) (v : Bytes) :
    (encodeCurrent H id v).length = 25 := by
  simp [encodeCurrent, hH]

theorem readCurrentId_encode (H : Bytes → Bytes) {id : Nat} (hid : id < 2 ^ 64) (v : Bytes) :
    readCurrentId (encodeCurrent H id v) = .ok id := by
  unfold readCurrentId encodeCurrent
  rw [List.append_assoc, readN_append _ (u64le_length id)]
  simp only
  rw [u64le_roundtrip hid]

theorem readCurrentChecksum_encode {H : Bytes → Bytes} (hH : ∀ x, (H x).length = 16) (id : Nat) (v : Bytes) :
    readCurrentChecksum (encodeCurrent H id v) = .ok (H v) := by
  unfold readCurrentChecksum encodeCurrent
  rw [List.append_assoc, readN_append _ (u64le_length id)]
  simp only
  rw [readN_append _ (hH v)]
  simp [readByte]

theorem version_roundtrip {H : Bytes → Bytes} (hH : ∀ x, (H x).length = 16) {id : Nat} (hid : id < 2 ^ 64)
    (v : Bytes) : checkVersionFile H (encodeCurrent H id v) v = .ok id := by
  unfold checkVersionFile checkVersionFileCore
  rw [readCurrentId_encode H hid, readCurrentChecksum_encode hH]
  simp

/-- the 16-byte checksum field of `current` -/
def currentChecksumFieldOf (cur : Bytes) : Bytes := (cur.drop 8).take 16

/-- What the repaired check accepts: `current` has ≥ 25 bytes, its byte 24 is 0, and its checksum field is
the hash of the version file presented. -/
theorem version_check_sound {H : Bytes → Bytes} {cur v' : Bytes} {id : Nat}
    (hd : checkVersionFile H cur v' = .ok id) :
    25 ≤ cur.length ∧ id = leNat (cur.take 8) ∧ currentChecksumFieldOf cur = H v' ∧ (cur.drop 24).take 1 = [0] := by
  unfold checkVersionFile checkVersionFileCore at hd
  split at hd
  · cases hd
  rename_i id0 e0
  split at hd
  · cases hd
  rename_i ck e1
  split at hd
  · cases hd
  rename_i hck
  injection hd with hd; subst hd
  simp only [ne_eq, Decidable.not_not] at hck
  unfold readCurrentId at e0
  split at e0
  · cases e0
  rename_i idb r e0'
  injection e0 with e0; subst e0
  unfold readCurrentChecksum at e1
  split at e1
  · cases e1
  rename_i idb' r1 e2
  split at e1
  · cases e1
  rename_i ck' r2 e3
  split at e1
  · cases e1
  rename_i t r3 e4
  split at e1
  · cases e1
  rename_i ht
  injection e1 with e1; subst e1
  simp only [ne_eq, Decidable.not_not] at ht
  subst ht
  obtain ⟨rfl, l2⟩ := readN_ok.mp e2
  obtain ⟨rfl, l3⟩ := readN_ok.mp e3
  rw [readByte_ok] at e4; subst e4
  obtain ⟨e0'', l0⟩ := readN_ok.mp e0'
  obtain ⟨e5, _⟩ := List.append_inj e0'' (by rw [l0, l2])
  subst e5
  refine ⟨by simp [l2, l3]; omega, ?_, ?_, ?_⟩
  · rw [List.take_left' l2]
  · unfold currentChecksumFieldOf
    rw [List.drop_left' l2, List.take_left' l3, hck]
  · have : idb' ++ (ck' ++ 0 :: r3) = (idb' ++ ck') ++ (0 :: r3) := by simp
    rw [this, List.drop_left' (by simp [l2, l3])]; rfl

/-- Version file coverage (repaired recovery): if recovery accepts a version file `v'` under a `current` whose
checksum field is the one written for `v`, then `v' = v` or a collision is exhibited — wherever `v'` came from
(this includes a `current` whose id bytes were altered and so names another file). -/
theorem version_file_covered {H : Bytes → Bytes} {cur v v' : Bytes} {id' : Nat}
    (hf : currentChecksumFieldOf cur = H v)
    (hd : checkVersionFile H cur v' = .ok id') : v' = v ∨ Collision128 H := by
  obtain ⟨_, _, hc, _⟩ := version_check_sound hd
  rw [hf] at hc
  by_cases e : v' = v
  · exact .inl e
  · exact .inr ⟨v, v', Ne.symm e, hc⟩

theorem currentChecksumFieldOf_encode {H : Bytes → Bytes} (hH : ∀ x, (H x).length = 16) (id : Nat) (v : Bytes) :
    currentChecksumFieldOf (encodeCurrent H id v) = H v := by
  unfold currentChecksumFieldOf encodeCurrent
  rw [List.append_assoc, List.drop_left' (u64le_length id), List.take_left' (hH v)]

/-- any change of `v<id>` (same `current`): rejected, or a collision -/
theorem version_file_corruption {H : Bytes → Bytes} (hH : ∀ x, (H x).length = 16) {v v' : Bytes} {id id' : Nat}
    (hne : v' ≠ v) (hd : checkVersionFile H (encodeCurrent H id v) v' = .ok id') : Collision128 H := by
  rcases version_file_covered (currentChecksumFieldOf_encode hH id v) hd with c | c
  · exact absurd c hne
  · exact c

/-- F1: what recovery does NOW accepts every version file. -/
theorem version_unverified_now (H : Bytes → Bytes) {id : Nat} (hid : id < 2 ^ 64) (v v' : Bytes) :
    recoverVersionIdNow (encodeCurrent H id v) v' = .ok id :=
  readCurrentId_encode H hid v

theorem checkVersionFileWith_eq (H : Bytes → Bytes) (cur v : Bytes) :
    checkVersionFileWith (H v) cur v = checkVersionFile H cur v := rfl


end Lsm.Frame
